

  x = y;
