#define WUFFS_IMPLEMENTATION
#define WUFFS_CONFIG__MODULES
#define WUFFS_CONFIG__MODULE__BASE
#define WUFFS_CONFIG__MODULE__ADLER32
#define WUFFS_CONFIG__MODULE__CRC32
#define WUFFS_CONFIG__MODULE__DEFLATE
#define WUFFS_CONFIG__MODULE__ZLIB
#define WUFFS_CONFIG__MODULE__GZIP
#include "/repo/release/c/wuffs-unsupported-snapshot.c"
#include <stdio.h>
int main(void) {
  static wuffs_gzip__decoder d;
  wuffs_base__status s = wuffs_gzip__decoder__initialize(&d, sizeof d, WUFFS_VERSION, 0);
  uint8_t in[10] = {0x1f, 0x8b, 8, 0, 0, 0, 0, 0, 0, 3};
  wuffs_base__io_buffer src = wuffs_base__ptr_u8__reader(in, 10, false);
  wuffs_base__io_buffer dst = wuffs_base__empty_io_buffer();
  static uint8_t work[1];
  s = wuffs_gzip__decoder__transform_io(&d, &dst, &src, wuffs_base__make_slice_u8(work, 0));
  printf("%s ri=%zu wi=%zu\n", s.repr ? s.repr : "ok", src.meta.ri, dst.meta.wi);
  return 0;
}
