#define WUFFS_IMPLEMENTATION
#define WUFFS_CONFIG__MODULES
#define WUFFS_CONFIG__MODULE__BASE__CORE
#define WUFFS_CONFIG__MODULE__QUIRK
#include "quirk.c"
#include <stdio.h>
static void __attribute__((noinline)) paint(void) {
  volatile uint8_t buf[8192];
  for (size_t i = 0; i < sizeof buf; i++) buf[i] = 0xAB;
}
static void show(const char* tag, wuffs_base__status s, wuffs_base__io_buffer* b, uint8_t* mem) {
  printf("%s status=", tag);
  for (const char* r = s.repr ? s.repr : "ok"; *r; r++) putchar(*r == ' ' ? '_' : *r);
  printf(" ptr_off=%ld len=%zu ri=%zu wi=%zu closed=%u pos=%llu\n", (long)(b->data.ptr - mem), b->data.len, b->meta.ri, b->meta.wi,
         (unsigned)*(uint8_t*)&b->meta.closed, (unsigned long long)b->meta.pos);
}
int main(void) {
  wuffs_quirk__thing t;
  wuffs_base__status s;
  // scenario 1: return inside io_forget_history
  s = wuffs_quirk__thing__initialize(&t, sizeof t, WUFFS_VERSION, 0);
  uint8_t mem[16] = {1, 2, 3, 4, 5, 6, 7, 8, 9, 10, 11, 12, 13, 14, 15, 16};
  wuffs_base__io_buffer d = wuffs_base__ptr_u8__writer(mem, 16);
  d.meta.wi = 5;
  show("forget-before", s, &d, mem);
  s = wuffs_quirk__thing__ret_in_forget(&t, &d, 1);
  show("forget-after", s, &d, mem);
  // scenario 2: suspension inside io_limit, then resumption
  s = wuffs_quirk__thing__initialize(&t, sizeof t, WUFFS_VERSION, 0);
  uint8_t smem[8] = {7, 7, 7, 7, 7, 7, 7, 7};
  wuffs_base__io_buffer b = wuffs_base__ptr_u8__reader(smem, 8, false);
  b.meta.wi = 0;
  s = wuffs_quirk__thing__susp_in_limit(&t, &b);
  show("limit-suspended", s, &b, smem);
  b.meta.wi = 3;
  show("limit-before-resume", s, &b, smem);
  paint();
  s = wuffs_quirk__thing__susp_in_limit(&t, &b);
  show("limit-after-resume", s, &b, smem);
  return 0;
}
