// standalone: decode an .lzma file with a fixed-size dst that is flushed on short write
// and src supplied in chunks (standard streaming use, cf. example/zcat).
#define WUFFS_IMPLEMENTATION
#define WUFFS_CONFIG__MODULES
#define WUFFS_CONFIG__MODULE__BASE
#define WUFFS_CONFIG__MODULE__LZMA
#include "/repo/release/c/wuffs-unsupported-snapshot.c"
#include <stdio.h>
#include <stdlib.h>
#include <string.h>
int main(int argc, char** argv) {
  size_t chunk = atoi(argv[2]), dcap = atoi(argv[3]);
  FILE* f = fopen(argv[1], "rb");
  static uint8_t in[1 << 20];
  size_t n = fread(in, 1, sizeof in, f);
  wuffs_lzma__decoder* dec = wuffs_lzma__decoder__alloc();
  static uint8_t sbuf[1 << 20];
  uint8_t* dbuf = malloc(dcap);
  uint8_t* work = NULL; size_t worklen = 0;
  wuffs_base__io_buffer src = wuffs_base__ptr_u8__writer(sbuf, sizeof sbuf);
  wuffs_base__io_buffer dst = wuffs_base__ptr_u8__writer(dbuf, dcap);
  size_t pos = 0;
  FILE* out = fopen(argv[4], "wb");
  for (;;) {
    wuffs_base__status s = wuffs_lzma__decoder__transform_io(dec, &dst, &src, wuffs_base__make_slice_u8(work, worklen));
    if (s.repr && !strcmp(s.repr, "$base: short workbuf")) {
      worklen = wuffs_lzma__decoder__workbuf_len(dec).max_incl; work = realloc(work, worklen); continue;
    }
    if (s.repr && !strcmp(s.repr, "$base: short write")) {
      fwrite(dbuf, 1, dst.meta.wi, out); dst.meta.wi = 0; dst.meta.ri = 0; continue;   // flush
    }
    if (s.repr && !strcmp(s.repr, "$base: short read")) {
      wuffs_base__io_buffer__compact(&src);
      size_t k = n - pos < chunk ? n - pos : chunk;
      memcpy(sbuf + src.meta.wi, in + pos, k); src.meta.wi += k; pos += k;
      if (pos == n) src.meta.closed = true;
      continue;
    }
    fwrite(dbuf, 1, dst.meta.wi, out);
    printf("final: %s\n", s.repr ? s.repr : "ok");
    break;
  }
  fclose(out);
  return 0;
}
