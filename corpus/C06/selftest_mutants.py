#!/usr/bin/env python3
"""C06 mutation driver (scratch).  usage: selftest_mutants.py [--gotest] [--list] [--orig] [names...]
Works on a scratch copy of /repo and /verif/harness under /var/tmp/c06mut (created on demand, never
touches /repo): for each mutant of lib/interval/interval.go it builds the harness against the copy,
runs it (quick tier) and diffs the implementation's answers with the Lean model driver.
A mutant is caught when nfail > 0 (the property's oracle: failing input) or mismatch > 0.
(The full verdict, incl. the regenerated Gen/C06_Tables.lean obligation, is
`VERIF_REPO=<copy> ./check C06`.)  Remove /var/tmp/c06mut when done.
"""
import json, os, subprocess, sys, shutil, time

ORIG = "/var/tmp/interval.go.orig"
S = "/var/tmp/c06mut"
ENV = dict(os.environ, GOFLAGS="-mod=mod", GOPROXY="off", GOSUMDB="off", GOTOOLCHAIN="local")

M = []
def m(name, old, new, nth=0, count=1):
    M.append((name, [(old, new, nth)]))
def mm(name, edits):
    M.append((name, [(o, n, 0) for o, n in edits]))

m("a1-sub-guard-lo", "if x[0] != nil && y[1] != nil && (x[1] != nil || y[0] != nil) {", "if x[0] != nil && y[1] != nil {")
m("a2-sub-guard-hi", "if x[1] != nil && y[0] != nil && (x[0] != nil || y[1] != nil) {", "if x[1] != nil && y[0] != nil {")
m("b1-rsh-fallback-quo", "k.Div(i, k) // This", "k.Quo(i, k) // This")
m("b2-quo-div", "return big.NewInt(0).Quo(i, j)", "return big.NewInt(0).Div(i, j)")
m("c1-quo-negx-swap", "bigIntQuo(negX[0], negY[1])", "bigIntQuo(negX[1], negY[1])")
m("c2-quo-posy", "bigIntQuo(posX[0], posY[1])", "bigIntQuo(posX[0], posY[0])")
m("c3-quo-negx-swap2", "bigIntQuo(negX[1], posY[1])", "bigIntQuo(negX[0], posY[1])")
m("d1-andmax-overlap-gt", "if (y[1].Cmp(x[0]) >= 0) && (x[1].Cmp(y[0]) >= 0) {", "if (y[1].Cmp(x[0]) > 0) && (x[1].Cmp(y[0]) >= 0) {")
m("d2a-ormax-drop-bfr-general1", "\tj.Or(j, i)\n\tbitFillRight(j)\n", "\tj.Or(j, i)\n")
m("d2b-ormax-drop-bfr-general2", "\tbitFillRight(j)\n\tj.Rsh(j, 1)\n", "\tj.Rsh(j, 1)\n")
m("d2c-ormax-drop-bfr-fast", "\t\tbitFillRight(i)\n\t\ti.Rsh(i, 1)\n", "\t\ti.Rsh(i, 1)\n")
m("d3-bfr-n-1", "i.Lsh(i, uint(n))\n\ti.Sub(i, one)", "i.Lsh(i, uint(n-1))\n\ti.Sub(i, one)")
m("e1-unite-share", "\t\t\tz[0] = big.NewInt(0).Set(x[0])\n\t\t} else {\n\t\t\tz[0] = big.NewInt(0).Set(y[0])", "\t\t\tz[0] = x[0]\n\t\t} else {\n\t\t\tz[0] = big.NewInt(0).Set(y[0])")
m("e2-intersect-share", "\t\tz[1] = big.NewInt(0).Set(x[1])\n\t} else {\n\t\tz[1] = big.NewInt(0).Set(y[1])", "\t\tz[1] = x[1]\n\t} else {\n\t\tz[1] = big.NewInt(0).Set(y[1])")
m("e3-add-sharedempty", "func (x IntRange) Add(y IntRange) (z IntRange) {\n\tif x.Empty() || y.Empty() {\n\t\treturn makeEmptyRange()", "func (x IntRange) Add(y IntRange) (z IntRange) {\n\tif x.Empty() || y.Empty() {\n\t\treturn sharedEmptyRange")
m("e4-intersect-sharedempty", "func (x IntRange) Intersect(y IntRange) (z IntRange) {\n\tif x.Empty() || y.Empty() {\n\t\treturn makeEmptyRange()", "func (x IntRange) Intersect(y IntRange) (z IntRange) {\n\tif x.Empty() || y.Empty() {\n\t\treturn sharedEmptyRange")
m("e5-and-z-sharedempty", "negY, nonY, hasNegY, hasNonY := y.split2Ways()\n\n\tz = makeEmptyRange()\n\tif hasNegX {\n\t\tif hasNegY {\n\t\t\tw := orBothNonNeg", "negY, nonY, hasNegY, hasNonY := y.split2Ways()\n\n\tz = sharedEmptyRange\n\tif hasNegX {\n\t\tif hasNegY {\n\t\t\tw := orBothNonNeg")
mm("e6-fromIntRange-share", [("x[0] = biggerInt{i: big.NewInt(0).Set(y[0])}", "x[0] = biggerInt{i: y[0]}"), ("x[1] = biggerInt{i: big.NewInt(0).Set(y[1])}", "x[1] = biggerInt{i: y[1]}")])
m("e7-mul-by-one-leak", "func bigIntMul(i *big.Int, j *big.Int) *big.Int { return big.NewInt(0).Mul(i, j) }", "func bigIntMul(i *big.Int, j *big.Int) *big.Int {\n\tif j.Cmp(one) == 0 {\n\t\treturn i\n\t}\n\treturn big.NewInt(0).Mul(i, j)\n}")
m("e8-quo-by-one-leak", "func bigIntQuo(i *big.Int, j *big.Int) *big.Int { return big.NewInt(0).Quo(i, j) }", "func bigIntQuo(i *big.Int, j *big.Int) *big.Int {\n\tif j.Cmp(one) == 0 {\n\t\treturn i\n\t}\n\treturn big.NewInt(0).Quo(i, j)\n}")
m("e9-bitmask-leak-andneg", "return IntRange{big.NewInt(0), bigIntNewSet(non[1])}", "return IntRange{big.NewInt(0), non[1]}")
m("f1-lsh-empty-guard", "if !x.Empty() && y.ContainsNegative() {", "if y.ContainsNegative() {")
m("f2-rsh-neg-before-empty", "func (x IntRange) TryRsh(y IntRange) (z IntRange, ok bool) {\n\tif x.Empty() || y.Empty() {\n\t\treturn makeEmptyRange(), true\n\t}\n\tif y.ContainsNegative() {\n\t\treturn IntRange{}, false\n\t}\n", "func (x IntRange) TryRsh(y IntRange) (z IntRange, ok bool) {\n\tif y.ContainsNegative() {\n\t\treturn IntRange{}, false\n\t}\n\tif x.Empty() || y.Empty() {\n\t\treturn makeEmptyRange(), true\n\t}\n")
m("f3-containszero-lt", "return (x[0] == nil || x[0].Sign() <= 0) &&", "return (x[0] == nil || x[0].Sign() < 0) &&")
m("g1-mullsh-drop-zeroY-shift", "if hasZeroY && shift {\n\t\tret.fromIntRange(x)\n\t} else if (hasZeroY && !shift) || hasZeroX {", "if (hasZeroY && !shift) || hasZeroX {")
m("g2-mullsh-posx-swap", "ret.lowerMin(biggerInt{i: combine(posX[0], posY[0])})", "ret.lowerMin(biggerInt{i: combine(posX[1], posY[0])})")
m("g2b-mullsh-negx-swap", "ret.raiseMax(biggerInt{i: combine(negX[1], posY[0])})", "ret.raiseMax(biggerInt{i: combine(negX[1], posY[1])})")
m("g3-andneg-bitlen-non0", "mask := bitMask(neg[0].BitLen(), non[1].BitLen())", "mask := bitMask(neg[0].BitLen(), non[0].BitLen())")
m("g4-or-drop-containsint2", "\t\tif y.ContainsInt(x[0]) {\n\t\t\treturn IntRange{big.NewInt(0).Set(x[0]), nil}\n\t\t}\n", "")
m("h1-and-yinf-lo-x0", "\t\t\treturn IntRange{big.NewInt(0), big.NewInt(0).Set(x[1])}", "\t\t\treturn IntRange{big.NewInt(0).Set(x[0]), big.NewInt(0).Set(x[1])}")
m("h2-or-halfinf-no-bfr", "\t\ty[1] = big.NewInt(0).Set(y[0])\n\t\tbitFillRight(y[1])\n", "\t\ty[1] = big.NewInt(0).Set(y[0])\n")
m("h3-inplaceunite-hi-nil", "\tif x[1] != nil {\n\t\tif y[1] == nil {\n\t\t\tx[1] = nil\n\t\t} else if x[1].Cmp(y[1]) < 0 {\n\t\t\tx[1].Set(y[1])\n\t\t}\n\t}", "\tif x[1] != nil && y[1] != nil && x[1].Cmp(y[1]) < 0 {\n\t\tx[1].Set(y[1])\n\t}")
m("h4-and-loose-min", "\tzMin := notX.orMax(notY)\n\tzMin.Not(zMin)\n\n\treturn IntRange{zMin, zMax}", "\tzMin := notX.orMax(notY)\n\tzMin.Not(zMin)\n\n\treturn IntRange{big.NewInt(0), zMax}")
m("h5-andmax-drop-andnot-ymax", "\t\tj.And(j, x[1])\n\t\tj.AndNot(j, y[1])\n", "\t\tj.And(j, x[1])\n")
m("h6-ormax-drop-and-ymax", "\tj.And(j, x[1])\n\tj.And(j, y[1])\n", "\tj.And(j, x[1])\n")
m("h7-andmax-return-min", "\tif j.Cmp(k) < 0 {\n\t\treturn k\n\t}\n\treturn j", "\tif j.Cmp(k) > 0 {\n\t\treturn k\n\t}\n\treturn j")
m("h8-andneg-noninf-mask-non1", "w := andBothNonNeg(biasedNeg, IntRange{non[0], mask})\n\t\treturn IntRange{w[0], nil}", "w := andBothNonNeg(biasedNeg, IntRange{non[0], mask})\n\t\treturn IntRange{w[0], w[1]}")
m("h9-inplaceunite-lo-cmp", "\t\t} else if x[0].Cmp(y[0]) > 0 {\n\t\t\tx[0].Set(y[0])", "\t\t} else if x[0].Cmp(y[0]) >= 0 {\n\t\t\tx[0] = y[0]")


# round 2: machine-word boundaries, table, helper shortcuts
m("w1-quo-int64-fastpath", "func bigIntQuo(i *big.Int, j *big.Int) *big.Int { return big.NewInt(0).Quo(i, j) }", "func bigIntQuo(i *big.Int, j *big.Int) *big.Int {\n\tif i.IsInt64() && j.IsInt64() {\n\t\treturn big.NewInt(i.Int64() / j.Int64())\n\t}\n\treturn big.NewInt(0).Quo(i, j)\n}")
m("w2-mul-int33-fastpath", "func bigIntMul(i *big.Int, j *big.Int) *big.Int { return big.NewInt(0).Mul(i, j) }", "func bigIntMul(i *big.Int, j *big.Int) *big.Int {\n\tif i.IsInt64() && j.IsInt64() {\n\t\ta, b := i.Int64(), j.Int64()\n\t\tif -1<<32 <= a && a <= 1<<32 && -1<<32 <= b && b <= 1<<32 {\n\t\t\treturn big.NewInt(a * b)\n\t\t}\n\t}\n\treturn big.NewInt(0).Mul(i, j)\n}")
m("w3-lsh-uint64-fastpath", "\t\tif u := j.Uint64(); u <= 0xFFFFFFFF {\n\t\t\treturn big.NewInt(0).Lsh(i, uint(u))", "\t\tif u := j.Uint64(); u <= 0xFFFFFFFF {\n\t\t\tif i.IsUint64() && u < 64 {\n\t\t\t\treturn big.NewInt(0).SetUint64(i.Uint64() << u)\n\t\t\t}\n\t\t\treturn big.NewInt(0).Lsh(i, uint(u))")
m("w4-rsh-int64-fastpath", "\t\tif u := j.Uint64(); u <= 0xFFFFFFFF {\n\t\t\treturn big.NewInt(0).Rsh(i, uint(u))", "\t\tif u := j.Uint64(); u <= 0xFFFFFFFF {\n\t\t\tif i.IsInt64() {\n\t\t\t\treturn big.NewInt(i.Int64() >> (u & 63))\n\t\t\t}\n\t\t\treturn big.NewInt(0).Rsh(i, uint(u))")
m("w5-bitmask-table-16", "\tbig.NewInt(0xFF),\n}", "\tbig.NewInt(0xFF),\n\tbig.NewInt(0x1FF),\n\tbig.NewInt(0x3FF),\n\tbig.NewInt(0x7FF),\n\tbig.NewInt(0xFFF),\n\tbig.NewInt(0x1FFF),\n\tbig.NewInt(0x3FFF),\n\tbig.NewInt(0x7FFF),\n\tbig.NewInt(0xFFFE),\n}")
m("w6-bitmask-int64", "\tz := big.NewInt(1)\n\tz = z.Lsh(z, uint(n))\n\tz = z.Sub(z, one)\n\treturn z", "\tif n <= 64 {\n\t\treturn big.NewInt(int64(1)<<uint(n) - 1)\n\t}\n\tz := big.NewInt(1)\n\tz = z.Lsh(z, uint(n))\n\tz = z.Sub(z, one)\n\treturn z")
m("w7-bfr-uint64", "\tn := i.BitLen()\n\tif n > 0xFFFF {", "\tif i.IsUint64() {\n\t\tv := i.Uint64()\n\t\tv |= v >> 1\n\t\tv |= v >> 2\n\t\tv |= v >> 4\n\t\tv |= v >> 8\n\t\tv |= v >> 16\n\t\ti.SetUint64(v)\n\t\treturn\n\t}\n\tn := i.BitLen()\n\tif n > 0xFFFF {")
m("w8-add-int64", "\tif x[0] != nil && y[0] != nil {\n\t\tz[0] = big.NewInt(0).Add(x[0], y[0])", "\tif x[0] != nil && y[0] != nil {\n\t\tif x[0].IsInt64() && y[0].IsInt64() {\n\t\t\tz[0] = big.NewInt(x[0].Int64() + y[0].Int64())\n\t\t} else {\n\t\t\tz[0] = big.NewInt(0).Add(x[0], y[0])\n\t\t}")
m("w9-justzero-int32", "return x[0] != nil && x[1] != nil && x[0].Sign() == 0 && x[1].Sign() == 0", "return x[0] != nil && x[1] != nil && x[0].Sign() == 0 && x[1].IsInt64() && int32(x[1].Int64()) == 0")
m("w10-rsh-threshold", "func bigIntRsh(i *big.Int, j *big.Int) *big.Int {\n\tif j.IsUint64() {\n\t\tif u := j.Uint64(); u <= 0xFFFFFFFF {", "func bigIntRsh(i *big.Int, j *big.Int) *big.Int {\n\tif j.IsUint64() {\n\t\tif u := j.Uint64(); u <= 0xFFFFFFFF {\n\t\t\tu &= 0x7FFFFFFF")
m("w11-lowermin-uint64-as-int64", "(x[0].extra == 0 && y.extra == 0 && x[0].i.Cmp(y.i) > 0) {", "(x[0].extra == 0 && y.extra == 0 && (x[0].i.IsUint64() && y.i.IsUint64() && int64(x[0].i.Uint64()) > int64(y.i.Uint64()) || !(x[0].i.IsUint64() && y.i.IsUint64()) && x[0].i.Cmp(y.i) > 0)) {")
m("w12-sub-neg-int64", "\t\tz[1] = big.NewInt(0).Sub(x[1], y[0])", "\t\tz[1] = big.NewInt(0).Sub(x[1], y[0])\n\t\tif y[0].IsInt64() && x[1].Sign() == 0 {\n\t\t\tz[1].SetInt64(-y[0].Int64())\n\t\t}")

# round 2: storage
m("s3-andmax-return-operand", "\t\treturn big.NewInt(0).Set(min)", "\t\treturn min")
m("s7-or-halfinf-fill-operand", "\t\ty[1] = big.NewInt(0).Set(y[0])\n\t\tbitFillRight(y[1])", "\t\ty[1] = y[0]\n\t\tbitFillRight(y[1])")
m("s9-mask-and-in-place", "\t\tmask := bitMask(neg[0].BitLen(), non[1].BitLen())\n\t\tbiasedNeg := IntRange{\n\t\t\tbig.NewInt(0).And(mask, neg[0]),", "\t\tmask := bitMask(neg[0].BitLen(), non[1].BitLen())\n\t\tbiasedNeg := IntRange{\n\t\t\tbig.NewInt(0).Set(mask.And(mask, neg[0])),")
m("s10-quo-zero-shared", "\tif x.justZero() {\n\t\treturn IntRange{big.NewInt(0), big.NewInt(0)}, true\n\t}\n\n\tret := newBiggerIntPair()\n\n\t// Split x and y into negative, zero and positive parts.\n\tnegX, posX, hasNegX, hasZeroX, hasPosX := x.split3Ways()\n\tnegY, posY, hasNegY, _, hasPosY := y.split3Ways()", "\tif x.justZero() {\n\t\treturn IntRange{smallBitMasks[0], big.NewInt(0)}, true\n\t}\n\n\tret := newBiggerIntPair()\n\n\t// Split x and y into negative, zero and positive parts.\n\tnegX, posX, hasNegX, hasZeroX, hasPosX := x.split3Ways()\n\tnegY, posY, hasNegY, _, hasPosY := y.split3Ways()")


def mutate(edits):
    src = open(ORIG).read()
    for old, new, nth in edits:
        n = src.count(old)
        if n != 1:
            raise SystemExit("pattern occurs %d times: %r" % (n, old[:60]))
        src = src.replace(old, new)
    return src


def sh(cmd, cwd, timeout=1200):
    p = subprocess.run(cmd, cwd=cwd, env=ENV, stdout=subprocess.PIPE, stderr=subprocess.STDOUT, text=True, timeout=timeout)
    return p.returncode, p.stdout


def scratch_run(name, src, gotest, tier="quick", seed="1"):
    open(S + "/repo/lib/interval/interval.go", "w").write(src)
    shutil.copy("/repo/lib/interval/verif_export_c06.go", S + "/repo/lib/interval/")
    shutil.copy("/verif/harness/cmd/c06/main.go", S + "/harness/cmd/c06/main.go")
    res = {}
    if gotest:
        rc, out = sh(["go", "test", "./lib/interval/"], S + "/repo")
        res["gotest"] = "caught" if rc != 0 else "pass"
        if rc != 0 and "FAIL" not in out:
            res["gotest"] = "build-fail:" + out[-300:]
    rc, out = sh(["go", "build", "-tags", "verif", "-o", S + "/wvh_c06", "./cmd/c06"], S + "/harness")
    if rc != 0:
        res["build"] = out[-1000:]
        return res
    out_dir = S + "/out/" + name
    shutil.rmtree(out_dir, ignore_errors=True)
    os.makedirs(out_dir)
    t0 = time.time()
    rc, out = sh([S + "/wvh_c06", "-tier", tier, "-seed", seed, "-out", out_dir], "/verif")
    res["harness_s"] = round(time.time() - t0, 1)
    if rc != 0:
        res["harness_rc"] = (rc, out[-500:])
        return res
    st = json.load(open(out_dir + "/stats.json"))
    keys = {}
    st["failures"] = st.get("failures") or []
    for f in st["failures"]:
        keys[f["key"]] = keys.get(f["key"], 0) + 1
    res["keys"] = keys
    res["nfail"] = st["histogram"].get("oracle-failure", 0)
    if st["failures"]:
        f = st["failures"][0]
        res["first"] = "%s | %s | %s" % (f["key"], f["desc"][:100], f["replay"][:120])
    with open(out_dir + "/ops.txt", "rb") as fin, open(out_dir + "/model.txt", "wb") as fout:
        subprocess.run(["/verif/lean/.lake/build/bin/wv_c06"], stdin=fin, stdout=fout)
    ops = open(out_dir + "/ops.txt").read().split("\n")
    impl = open(out_dir + "/impl.txt").read().split("\n")
    model = open(out_dir + "/model.txt").read().split("\n")
    diffs = [i for i in range(len(ops) - 1) if i >= len(model) or impl[i] != model[i]]
    res["mismatch"] = len(diffs)
    res["ops"] = st["ops"]
    if diffs:
        i = diffs[0]
        res["first_mismatch"] = "%s | impl %s | model %s" % (ops[i][:100], impl[i][:60], model[i][:60] if i < len(model) else "<missing>")
    return res


def setup():
    """scratch copies of /repo (without .git, test data) and of /verif/harness, wired together"""
    os.makedirs(S, exist_ok=True)
    sh(["rsync", "-a", "--delete", "--exclude", ".git", "--exclude", "test/3pdata", "--exclude", "test/data", "/repo/", S + "/repo/"], "/")
    sh(["rsync", "-a", "--delete", "--exclude", "bin", "/verif/harness/", S + "/harness/"], "/")
    gm = open(S + "/harness/go.mod").read().replace("=> /repo", "=> " + S + "/repo")
    open(S + "/harness/go.mod", "w").write(gm)
    shutil.copy("/repo/lib/interval/interval.go", ORIG)


def main():
    args = sys.argv[1:]
    setup()
    gotest = "--gotest" in args
    names = [a for a in args if not a.startswith("--")]
    sel = [x for x in M if not names or any(x[0].startswith(n) for n in names)]
    if "--list" in args:
        for n, _ in M:
            print(n)
        return
    if "--orig" in args:
        r = scratch_run("orig", open(ORIG).read(), gotest)
        print("orig", json.dumps(r))
        return
    for name, edits in sel:
        src = mutate(edits)
        r = scratch_run(name, src, gotest)
        print("=== " + name)
        for k, v in r.items():
            print("   %s: %s" % (k, v))
        sys.stdout.flush()


main()
