# fixes/C03-io-since-null-plus-zero.patch: first calls with a {NULL,0} destination; io__since must not do NULL + 0
run deflate nullempty=1 dst=0,0,50 src=1 cb48cdc9c90700
run gzip nullempty=1 dst=0,100 1f8b0800000000000003cb48cdc9c9070086a6103605000000
