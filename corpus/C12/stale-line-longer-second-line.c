{
int x; /* a
b */ int yyyyyyyyyyyyyyyyyyyyyyyyyyyyyyyyyyyyyyyyyyyy; `r` /* c */
}
