int x; /* a
b */ int y; /* c */