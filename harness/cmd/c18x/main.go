package main

import (
	"fmt"
	"math/rand"
	"sync"

	lj "github.com/google/wuffs/lib/lowleveljpeg"
)

func maxErr(b *lj.BlockU8) (int, int) {
	var c lj.BlockI16
	c.ForwardDCTFrom(b)
	var d lj.BlockU8
	d.InverseDCTFrom(&c)
	m, sum := 0, 0
	for i := range b {
		e := int(b[i]) - int(d[i])
		if e < 0 {
			e = -e
		}
		if e > m {
			m = e
		}
		sum += e * e
	}
	return m, sum
}

func main() {
	var wg sync.WaitGroup
	var mu sync.Mutex
	best := 0
	for g := 0; g < 16; g++ {
		wg.Add(1)
		go func(g int) {
			defer wg.Done()
			rng := rand.New(rand.NewSource(int64(g)))
			for it := 0; it < 20000; it++ {
				var b lj.BlockU8
				mode := rng.Intn(5)
				for i := range b {
					switch mode {
					case 0:
						b[i] = byte(rng.Intn(256))
					case 1:
						if rng.Intn(2) == 0 {
							b[i] = 255
						}
					case 2:
						b[i] = byte([]int{0, 1, 254, 255, 127, 128}[rng.Intn(6)])
					case 3:
						b[i] = byte(rng.Intn(4))
					case 4:
						b[i] = byte(252 + rng.Intn(4))
					}
				}
				m, s := maxErr(&b)
				// hill-climb
				for k := 0; k < 3000; k++ {
					c := b
					i := rng.Intn(64)
					c[i] = byte(rng.Intn(256))
					m2, s2 := maxErr(&c)
					if m2 > m || (m2 == m && s2 >= s) {
						b, m, s = c, m2, s2
					}
				}
				mu.Lock()
				if m > best {
					best = m
					fmt.Printf("g=%d it=%d mode=%d max=%d sum=%d block=%x\n", g, it, mode, m, s, b[:])
				}
				mu.Unlock()
				if m >= 3 {
					return
				}
			}
		}(g)
	}
	wg.Wait()
	fmt.Println("best", best)
}
