package main
import ("testing";"math/rand";lj "github.com/google/wuffs/lib/lowleveljpeg")
func TestFreq(t *testing.T){
 rng:=rand.New(rand.NewSource(7)); n:=0
 for i:=0;i<2000000;i++{ var b lj.BlockU8; for j:=range b{b[j]=byte(rng.Intn(256))}; m,_:=maxErr(&b); if m>=2{n++}}
 t.Logf("uniform random: %d of 2000000 have err>=2",n)
 n=0
 for i:=0;i<2000000;i++{ var b lj.BlockU8; for j:=range b{ if rng.Intn(2)==0 {b[j]=255}}; m,_:=maxErr(&b); if m>=2{n++}}
 t.Logf("0/255 random: %d of 2000000 have err>=2",n)
}
