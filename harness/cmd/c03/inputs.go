package main

// Inputs for C03: valid streams from Go's reference encoders / external tools /
// the repository's test data, and malformed variants of them.

import (
	"bytes"
	"compress/flate"
	"compress/gzip"
	"compress/lzw"
	"compress/zlib"
	"encoding/binary"
	"hash/crc32"
	"image"
	"image/color"
	"image/gif"
	"image/jpeg"
	"image/png"
	"os"
	"os/exec"
	"path/filepath"
	"sort"
	"strconv"
	"strings"
	"time"

	"wvh/hlib"
)

type input struct {
	codec string
	name  string // provenance, e.g. "go-flate-l6", "file:hat.gif", "mut:bitflip(go-png-rgba)"
	data  []byte
	opts  string // extra driver options the stream needs (zlib_dict=…, lzw_litwidth=…)
	valid bool   // produced by a reference encoder / a repo test file, unmodified
}

func payload(rng *hlib.Rand, maxLen int) []byte {
	n := rng.Intn(maxLen + 1)
	switch rng.Intn(6) {
	case 0:
		n = rng.Intn(4) // empty, 1..3 bytes
	case 1:
		return bytes.Repeat([]byte{byte(rng.Intn(256))}, n) // one long run (distance-1 copies)
	case 2:
		return rng.Bytes(n) // incompressible
	}
	words := []string{"the ", "quick ", "brown ", "fox ", "wuffs ", "\n", "0123456789", "aaaaaaaaaaaaaaaa", "abcabcabc", "\x00\x00\x00\x00"}
	var b bytes.Buffer
	for b.Len() < n {
		if rng.Chance(1, 8) {
			b.Write(rng.Bytes(1 + rng.Intn(8)))
		} else if rng.Chance(1, 10) && b.Len() > 40 {
			off := rng.Intn(b.Len() - 20)
			b.Write(append([]byte{}, b.Bytes()[off:off+10+rng.Intn(10)]...)) // long-distance repeat
		} else {
			b.WriteString(words[rng.Intn(len(words))])
		}
	}
	return b.Bytes()[:n]
}

func goDeflate(p []byte, level int, dict []byte) []byte {
	var b bytes.Buffer
	var w *flate.Writer
	if dict != nil {
		w, _ = flate.NewWriterDict(&b, level, dict)
	} else {
		w, _ = flate.NewWriter(&b, level)
	}
	w.Write(p)
	w.Close()
	return b.Bytes()
}

func randImage(rng *hlib.Rand, kind int, w, h int) image.Image {
	r := image.Rect(0, 0, w, h)
	px := func(x, y int) (uint8, uint8, uint8, uint8) {
		if rng.Chance(1, 3) {
			return uint8(x * 37), uint8(y * 91), uint8(x ^ y), uint8(255 - x)
		}
		return byte(rng.Uint64()), byte(rng.Uint64()), byte(rng.Uint64()), byte(rng.Uint64())
	}
	switch kind % 7 {
	case 0:
		m := image.NewGray(r)
		for i := range m.Pix {
			m.Pix[i] = byte(rng.Uint64())
		}
		return m
	case 1:
		m := image.NewGray16(r)
		for i := range m.Pix {
			m.Pix[i] = byte(rng.Uint64())
		}
		return m
	case 2:
		m := image.NewRGBA(r)
		for y := 0; y < h; y++ {
			for x := 0; x < w; x++ {
				a, b, c, _ := px(x, y)
				m.SetRGBA(x, y, color.RGBA{a, b, c, 255})
			}
		}
		return m
	case 3:
		m := image.NewNRGBA(r)
		for y := 0; y < h; y++ {
			for x := 0; x < w; x++ {
				a, b, c, d := px(x, y)
				m.SetNRGBA(x, y, color.NRGBA{a, b, c, d})
			}
		}
		return m
	case 4:
		n := 2 + rng.Intn(255)
		pal := make(color.Palette, n)
		for i := range pal {
			pal[i] = color.RGBA{byte(rng.Uint64()), byte(rng.Uint64()), byte(rng.Uint64()), 255}
		}
		m := image.NewPaletted(r, pal)
		for i := range m.Pix {
			m.Pix[i] = byte(rng.Intn(n))
		}
		return m
	case 5:
		m := image.NewNRGBA64(r)
		for i := range m.Pix {
			m.Pix[i] = byte(rng.Uint64())
		}
		return m
	default:
		m := image.NewYCbCr(r, image.YCbCrSubsampleRatio420)
		for i := range m.Y {
			m.Y[i] = byte(rng.Uint64())
		}
		for i := range m.Cb {
			m.Cb[i] = byte(rng.Uint64())
			m.Cr[i] = byte(rng.Uint64())
		}
		return m
	}
}

// encodeBMP writes a bottom-up 24-bit (or 8-bit paletted) BMP with a BITMAPINFOHEADER.
func encodeBMP(rng *hlib.Rand, w, h int, paletted bool) []byte {
	bpp := 24
	ncol := 0
	if paletted {
		bpp, ncol = 8, 256
	}
	stride := (w*bpp/8 + 3) &^ 3
	off := 14 + 40 + 4*ncol
	size := off + stride*h
	b := make([]byte, size)
	copy(b, "BM")
	binary.LittleEndian.PutUint32(b[2:], uint32(size))
	binary.LittleEndian.PutUint32(b[10:], uint32(off))
	binary.LittleEndian.PutUint32(b[14:], 40)
	binary.LittleEndian.PutUint32(b[18:], uint32(w))
	binary.LittleEndian.PutUint32(b[22:], uint32(h))
	binary.LittleEndian.PutUint16(b[26:], 1)
	binary.LittleEndian.PutUint16(b[28:], uint16(bpp))
	binary.LittleEndian.PutUint32(b[34:], uint32(stride*h))
	binary.LittleEndian.PutUint32(b[46:], uint32(ncol))
	for i := 54; i < size; i++ {
		b[i] = byte(rng.Uint64())
	}
	return b
}

// ownPNG writes a non-interlaced PNG with the filter type of every row FORCED (filt 0..4; 5 = a random type
// per row, 6 = Paeth on the last row only), so that every (filter, bytes-per-pixel, width) combination of
// std/png's filter code — incl. the SIMD variants and their tails — is reached, which Go's adaptive encoder
// does not guarantee. ct = PNG colour type (0, 2, 3, 4, 6), depth 8 or 16 (8 for ct 3).
func ownPNG(rng *hlib.Rand, w, h, ct, depth, filt int) []byte {
	ch := map[int]int{0: 1, 2: 3, 3: 1, 4: 2, 6: 4}[ct]
	bpp := ch * depth / 8
	stride := w * bpp
	raw := make([]byte, 0, (stride+1)*h)
	prev := make([]byte, stride)
	for y := 0; y < h; y++ {
		cur := rng.Bytes(stride)
		if rng.Chance(1, 3) { // smooth rows make the predictors interesting
			for i := range cur {
				cur[i] = byte(i*7 + y*3)
			}
		}
		f := filt
		switch filt {
		case 5:
			f = rng.Intn(5)
		case 6:
			f = rng.Intn(4)
			if y == h-1 {
				f = 4
			}
		}
		raw = append(raw, byte(f))
		for i := 0; i < stride; i++ {
			var a, b, c int
			if i >= bpp {
				a = int(cur[i-bpp])
				c = int(prev[i-bpp])
			}
			b = int(prev[i])
			var pred int
			switch f {
			case 1:
				pred = a
			case 2:
				pred = b
			case 3:
				pred = (a + b) / 2
			case 4:
				pa, pb, pc := abs(b-c), abs(a-c), abs(a+b-2*c)
				if pa <= pb && pa <= pc {
					pred = a
				} else if pb <= pc {
					pred = b
				} else {
					pred = c
				}
			}
			raw = append(raw, byte(int(cur[i])-pred))
		}
		prev = cur
	}
	var z bytes.Buffer
	zw, _ := zlib.NewWriterLevel(&z, []int{zlib.NoCompression, zlib.BestSpeed, zlib.DefaultCompression}[rng.Intn(3)])
	zw.Write(raw)
	zw.Close()
	var out bytes.Buffer
	out.WriteString("\x89PNG\r\n\x1a\n")
	chunk := func(typ string, data []byte) {
		var l [4]byte
		binary.BigEndian.PutUint32(l[:], uint32(len(data)))
		out.Write(l[:])
		out.WriteString(typ)
		out.Write(data)
		c := crc32.NewIEEE()
		c.Write([]byte(typ))
		c.Write(data)
		binary.BigEndian.PutUint32(l[:], c.Sum32())
		out.Write(l[:])
	}
	ihdr := make([]byte, 13)
	binary.BigEndian.PutUint32(ihdr[0:], uint32(w))
	binary.BigEndian.PutUint32(ihdr[4:], uint32(h))
	ihdr[8], ihdr[9] = byte(depth), byte(ct)
	chunk("IHDR", ihdr)
	if ct == 3 {
		chunk("PLTE", rng.Bytes(3*256))
	}
	zb := z.Bytes()
	for len(zb) > 0 { // several IDAT chunks, also 1-byte ones
		n := len(zb)
		if rng.Chance(1, 2) {
			n = 1 + rng.Intn(len(zb))
		}
		chunk("IDAT", zb[:n])
		zb = zb[n:]
	}
	chunk("IEND", nil)
	return out.Bytes()
}

func abs(x int) int {
	if x < 0 {
		return -x
	}
	return x
}

// rawLZMA2StoredThenLZMA builds a raw LZMA2 stream (std/lzma with QUIRK_FORMAT_EXTENSION = LZMA2, dictionary
// 64 KiB) whose first chunk is STORED (control 0x01) and is followed by an LZMA chunk WITHOUT a dictionary
// reset (control 0xC0: state reset + new properties) — what liblzma emits after incompressible data, but
// here with a stored chunk of any small size, so that a destination can fill up exactly at its last byte.
// The LZMA chunk comes from `xz --format=raw`: compressed against an empty dictionary, it never refers to
// the bytes before it, so prepending a stored chunk keeps it valid.
func rawLZMA2StoredThenLZMA(rng *hlib.Rand, xzPath string) ([]byte, string) {
	var text bytes.Buffer
	words := []string{"the ", "quick ", "brown ", "fox ", "wuffs ", "\n", "0123456789", "abcabcabc"}
	n := 40 + rng.Intn(1500)
	for text.Len() < n {
		text.WriteString(words[rng.Intn(len(words))])
	}
	raw := runTool(xzPath, text.Bytes(), "-c", "-T1", "--format=raw", "--lzma2=dict=64KiB")
	if len(raw) < 7 || raw[0] < 0xE0 {
		return nil, ""
	}
	k := 1 + rng.Intn(700)
	switch rng.Intn(4) {
	case 0:
		k = 320
	case 1:
		k = 1 + rng.Intn(4)
	}
	stored := rng.Bytes(k)
	out := []byte{0x01, byte((k - 1) >> 8), byte(k - 1)}
	out = append(out, stored...)
	if rng.Chance(1, 3) { // a second stored chunk, no dictionary reset
		k2 := 1 + rng.Intn(40)
		out = append(out, 0x02, byte((k2-1)>>8), byte(k2-1))
		out = append(out, rng.Bytes(k2)...)
	}
	out = append(out, 0xC0|(raw[0]&0x1F))
	out = append(out, raw[1:]...)
	return out, "quirks=0x4CE85401:0x0802"
}

func runTool(tool string, in []byte, args ...string) []byte {
	cmd := exec.Command(tool, args...)
	cmd.Stdin = bytes.NewReader(in)
	var out bytes.Buffer
	cmd.Stdout = &out
	done := make(chan error, 1)
	if cmd.Start() != nil {
		return nil
	}
	go func() { done <- cmd.Wait() }()
	select {
	case err := <-done:
		if err != nil {
			return nil
		}
	case <-time.After(60 * time.Second):
		cmd.Process.Kill()
		<-done
		return nil
	}
	return out.Bytes()
}

func toolPath(name string) string {
	for _, p := range []string{"/root/miniconda/bin/" + name, "/usr/bin/" + name, "/bin/" + name} {
		if st, err := os.Stat(p); err == nil && !st.IsDir() {
			return p
		}
	}
	if p, err := exec.LookPath(name); err == nil {
		return p
	}
	return ""
}

// validInputs builds the valid streams (deterministic for a given rng).
func validInputs(r *hlib.Run, rng *hlib.Rand, have map[string]bool, maxPayload, perKind int, maxFile int) []input {
	var ins []input
	add := func(codec, name string, data []byte, opts string) {
		if have[codec] && data != nil {
			ins = append(ins, input{codec, name, data, opts, true})
		}
	}
	levels := []int{flate.NoCompression, flate.BestSpeed, flate.DefaultCompression, flate.BestCompression, flate.HuffmanOnly}
	for i := 0; i < perKind; i++ {
		p := payload(rng, maxPayload)
		lv := levels[i%len(levels)]
		add("deflate", "go-flate", goDeflate(p, lv, nil), "")
		{
			var b bytes.Buffer
			if i%4 == 3 {
				dict := payload(rng, 300)
				w, _ := zlib.NewWriterLevelDict(&b, lv, dict)
				w.Write(p)
				w.Close()
				add("zlib", "go-zlib-dict", b.Bytes(), "zlib_dict="+hlib.Hex(dict))
			} else {
				w, _ := zlib.NewWriterLevel(&b, lv)
				w.Write(p)
				w.Close()
				add("zlib", "go-zlib", b.Bytes(), "")
			}
		}
		{
			var b bytes.Buffer
			w, _ := gzip.NewWriterLevel(&b, lv)
			if i%3 == 1 {
				w.Name, w.Comment, w.Extra = "name.txt", "a comment", []byte{1, 2, 3, 4, 5}
			}
			w.Write(p)
			w.Close()
			if i%5 == 4 { // two members
				w2 := gzip.NewWriter(&b)
				w2.Write(payload(rng, 50))
				w2.Close()
			}
			add("gzip", "go-gzip", b.Bytes(), "")
		}
		{
			lit := 8
			if i%3 == 2 {
				lit = 2 + rng.Intn(7)
			}
			q := append([]byte{}, p...)
			for k := range q {
				q[k] &= byte(1<<uint(lit) - 1)
			}
			var b bytes.Buffer
			w := lzw.NewWriter(&b, lzw.LSB, lit)
			w.Write(q)
			w.Close()
			add("lzw", "go-lzw", b.Bytes(), "lzw_litwidth="+itoa(lit))
		}
	}
	for i := 0; i < perKind; i++ {
		w, h := 1+rng.Intn(40), 1+rng.Intn(24)
		if i%6 == 5 {
			w, h = 1+rng.Intn(3), 1+rng.Intn(3)
		}
		{
			var b bytes.Buffer
			enc := png.Encoder{CompressionLevel: []png.CompressionLevel{png.DefaultCompression, png.NoCompression, png.BestSpeed, png.BestCompression}[i%4]}
			enc.Encode(&b, randImage(rng, i, w, h))
			add("png", "go-png", b.Bytes(), "")
		}
		{
			var b bytes.Buffer
			nf := 1 + rng.Intn(3)
			g := &gif.GIF{LoopCount: rng.Intn(3)}
			for f := 0; f < nf; f++ {
				fw, fh := 1+rng.Intn(w), 1+rng.Intn(h)
				m := randImage(rng, 4, fw, fh).(*image.Paletted)
				g.Image = append(g.Image, m)
				g.Delay = append(g.Delay, rng.Intn(10))
				g.Disposal = append(g.Disposal, byte(rng.Intn(4)))
			}
			g.Config = image.Config{Width: w, Height: h}
			if gif.EncodeAll(&b, g) == nil {
				add("gif", "go-gif", b.Bytes(), "")
			}
		}
		{
			var b bytes.Buffer
			k := 2
			if i%3 == 0 {
				k = 0
			} else if i%3 == 1 {
				k = 6
			}
			jpeg.Encode(&b, randImage(rng, k, w, h), &jpeg.Options{Quality: 1 + rng.Intn(100)})
			add("jpeg", "go-jpeg", b.Bytes(), "")
		}
		add("bmp", "own-bmp", encodeBMP(rng, w, h, i%2 == 1), "")
		{
			// forced PNG filters: every colour type / depth, widths around the SIMD chunk sizes, Paeth on the last row
			cts := [][2]int{{2, 8}, {6, 8}, {0, 8}, {4, 8}, {3, 8}, {2, 16}, {6, 16}, {0, 16}, {4, 16}}
			cd := cts[i%len(cts)]
			pw, ph := 1+rng.Intn(24), 1+rng.Intn(6)
			add("png", "own-png-forced-filter", ownPNG(rng, pw, ph, cd[0], cd[1], 1+rng.Intn(6)), "")
			add("png", "own-png-rgb8-paeth", ownPNG(rng, 1+rng.Intn(12), 2+rng.Intn(3), 2, 8, 4+2*rng.Intn(2)), "")
		}
	}
	// external tools
	for _, t := range []struct {
		tool, codec, name string
		args              []string
	}{
		{"bzip2", "bzip2", "tool-bzip2", []string{"-c"}},
		{"bzip2", "bzip2", "tool-bzip2-1", []string{"-c", "-1"}},
		{"xz", "xz", "tool-xz", []string{"-c", "-T1"}},
		{"xz", "xz", "tool-xz-crc32", []string{"-c", "-T1", "--check=crc32", "-0"}},
		{"xz", "xz", "tool-xz-sha256-delta", []string{"-c", "-T1", "--check=sha256", "--delta=dist=2", "--lzma2=dict=4KiB"}},
		{"xz", "lzma", "tool-lzma", []string{"-c", "-T1", "--format=lzma"}},
	} {
		path := toolPath(t.tool)
		if path == "" {
			r.Count("skipped:tool-missing:" + t.tool)
			continue
		}
		n := perKind / 3
		if n < 2 {
			n = 2
		}
		for i := 0; i < n; i++ {
			out := runTool(path, payload(rng, maxPayload), t.args...)
			if out == nil {
				r.Count("skipped:tool-failed:" + t.name)
				continue
			}
			add(t.codec, t.name, out, "")
		}
	}
	if path := toolPath("xz"); path != "" {
		n := perKind
		for i := 0; i < n; i++ {
			if d, opts := rawLZMA2StoredThenLZMA(rng, path); d != nil {
				add("lzma", "own-lzma2-stored-then-lzma", d, opts)
			} else {
				r.Count("skipped:tool-failed:own-lzma2")
			}
		}
	}
	// repository test data
	ext := map[string]string{".bmp": "bmp", ".gif": "gif", ".jpeg": "jpeg", ".png": "png", ".tga": "targa", ".wbmp": "wbmp", ".nie": "nie",
		".qoi": "qoi", ".webp": "webp", ".bz2": "bzip2", ".gz": "gzip", ".xz": "xz", ".lzma": "lzma", ".lz": "lzip", ".zlib": "zlib",
		".deflate": "deflate", ".pkm": "etc2", ".handsum": "handsum", ".th": "thumbhash", ".ppm": "netpbm",
		".json": "json", ".cbor": "cbor", ".apng": "png"}
	var files []string
	for _, dir := range []string{"test/data", "test/data/artificial-png", "test/data/artificial-gif", "test/data/artificial-jpeg",
		"test/data/artificial-deflate", "test/data/artificial-bzip2", "test/data/artificial-xz-filter", "test/data/artificial-thumbhash"} {
		es, _ := os.ReadDir(filepath.Join(r.Repo, dir))
		for _, e := range es {
			if !e.IsDir() {
				files = append(files, filepath.Join(dir, e.Name()))
			}
		}
	}
	sort.Strings(files)
	perCodec := map[string]int{}
	for _, f := range files {
		codec := ext[strings.ToLower(filepath.Ext(f))]
		if codec == "" || !have[codec] {
			continue
		}
		b, err := os.ReadFile(filepath.Join(r.Repo, f))
		if err != nil || len(b) > maxFile || len(b) == 0 {
			continue
		}
		if perCodec[codec] >= perKind {
			continue
		}
		perCodec[codec]++
		ins = append(ins, input{codec, "file:" + filepath.Base(f), b, "", true})
	}
	return ins
}

func itoa(n int) string { return strconv.Itoa(n) }

// mutate derives a malformed variant.
func mutate(rng *hlib.Rand, in input) input {
	d := append([]byte{}, in.data...)
	kind := ""
	switch k := rng.Intn(8); {
	case k == 0 && len(d) > 1:
		d = d[:rng.Intn(len(d))]
		kind = "truncate"
	case k == 1 && len(d) > 0:
		for i := 0; i < 1+rng.Intn(3); i++ {
			d[rng.Intn(len(d))] ^= 1 << uint(rng.Intn(8))
		}
		kind = "bitflip"
	case k == 2 && len(d) >= 4:
		// overwrite a 1/2/4-byte field with an extreme or off-by-one value
		w := []int{1, 2, 4}[rng.Intn(3)]
		p := rng.Intn(len(d) - w + 1)
		if rng.Chance(2, 3) && p > 64 {
			p = rng.Intn(64) // headers live at the front
		}
		switch rng.Intn(4) {
		case 0:
			for i := 0; i < w; i++ {
				d[p+i] = 0xFF
			}
		case 1:
			for i := 0; i < w; i++ {
				d[p+i] = 0
			}
		case 2:
			d[p]++
		default:
			d[p+w-1]--
		}
		kind = "field"
	case k == 3:
		n := rng.Intn(64)
		keep := rng.Intn(12)
		if keep > len(d) {
			keep = len(d)
		}
		d = append(d[:keep:keep], rng.Bytes(n)...)
		kind = "magic+random"
	case k == 4 && len(d) > 8:
		// splice: duplicate / drop a middle section
		a := rng.Intn(len(d))
		b := a + rng.Intn(len(d)-a)
		if rng.Bool() {
			d = append(d[:a:a], d[b:]...)
			kind = "drop"
		} else {
			d = append(d[:b:b], d[a:]...)
			kind = "dup"
		}
	case k == 5 && len(d) > 0:
		p := rng.Intn(len(d))
		n := 1 + rng.Intn(16)
		if p+n > len(d) {
			n = len(d) - p
		}
		copy(d[p:p+n], rng.Bytes(n))
		kind = "smash"
	case k == 6:
		d = append(d, rng.Bytes(1+rng.Intn(8))...)
		kind = "trailing"
	default:
		d = rng.Bytes(rng.Intn(40))
		kind = "random"
	}
	return input{in.codec, "mut:" + kind + "(" + in.name + ")", d, in.opts, false}
}
