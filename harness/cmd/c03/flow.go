package main

// Status-flow translator: every PUBLIC COROUTINE of a Wuffs package that takes an io_reader is
// parsed with the repository's own parser (lang/token + lang/parse) and abstracted into the
// `Stmt` language of lean/WuffsVerif/Model/StatusFlow.lean: only what decides WHICH STATUS a call
// returns is kept (status-typed locals, `=?` calls, bare `?` calls, yield/return, tests of a status
// variable and of args.<reader>.is_closed()); everything else becomes `skip` / `unknown`.
// Output: the compact text form (op lines) and a Lean term (Gen/C03_Wrappers.lean).

import (
	"fmt"
	"os"
	"path/filepath"
	"sort"
	"strings"

	a "github.com/google/wuffs/lang/ast"
	"github.com/google/wuffs/lang/parse"
	t "github.com/google/wuffs/lang/token"
)

type flowFunc struct {
	pkg, name string // "deflate", "decoder.transform_io"
	file      string
	line      uint32
	compact   string
	lean      string
	names     string // status literals of this function: "e1=#truncated_input,…" (text with ' ' -> '_')
	err       string // non-empty: could not be translated
}

func (f flowFunc) key() string { return f.pkg + "." + f.name }

type flowTr struct {
	tm     *t.Map
	vars   map[t.ID]int   // status-typed locals
	reader t.ID           // the io_reader argument
	lits   map[string]int // per class prefix+text -> id
	nlit   map[byte]int   // next id per class
	loops  []a.Loop       // enclosing loops, innermost last
	shadow int            // > 0 inside io_bind / io_limit blocks on the reader
	failed string
}

type fnode struct {
	op   string // S A C Q R Y I W ; B K
	v    int
	e    *fexpr
	c    *fcond
	kids []*fnode
}
type fexpr struct {
	kind string // lit var unknown
	cls  byte   // o n e r s
	id   int
	v    int
}
type fcond struct {
	kind string // eq in closed unknown tt not and or
	v    int
	lit  *fexpr
	mask int
	kids []*fcond
}

func (tr *flowTr) fail(format string, args ...interface{}) {
	if tr.failed == "" {
		tr.failed = fmt.Sprintf(format, args...)
	}
}

func hasCoroCall(n *a.Node) bool {
	found := false
	n.Walk(func(o *a.Node) error {
		if o.Kind() == a.KExpr {
			if e := o.AsExpr(); e.Operator() == a.ExprOperatorCall && e.Effect().Coroutine() {
				found = true
			}
		}
		return nil
	})
	return found
}

// statusLit recognises `ok`, `"#foo"` and `base."$short read"`.
func (tr *flowTr) statusLit(e *a.Expr) *fexpr {
	qual := ""
	if e.Operator() == a.ExprOperatorSelector {
		lhs := e.LHS().AsExpr()
		if lhs == nil || lhs.Operator() != 0 || !e.Ident().IsDQStrLiteral(tr.tm) {
			return nil
		}
		qual = tr.tm.ByID(lhs.Ident())
	} else if e.Operator() != 0 {
		return nil
	} else if e.Ident() == t.IDOk {
		return &fexpr{kind: "lit", cls: 'o'}
	}
	if !e.Ident().IsDQStrLiteral(tr.tm) {
		return nil
	}
	s, ok := t.Unescape(tr.tm.ByID(e.Ident()))
	if !ok || s == "" {
		return nil
	}
	var cls byte
	switch s[0] {
	case '$':
		cls = 's'
		if qual == "base" && s == "$short read" {
			return &fexpr{kind: "lit", cls: 'r'}
		}
	case '#':
		cls = 'e'
		if qual == "base" && s == "#cannot return a suspension" {
			return &fexpr{kind: "lit", cls: 'e', id: 0}
		}
	case '@':
		cls = 'n'
	default:
		return nil
	}
	k := string(cls) + qual + "." + s
	id, ok := tr.lits[k]
	if !ok {
		tr.nlit[cls]++
		if flowPreseed != nil && tr.nlit[cls] == 5 {
			tr.nlit[cls]++
		}
		id = tr.nlit[cls]
		tr.lits[k] = id
	}
	if id > 9 {
		tr.fail("more than 9 distinct status literals of one class")
		id = 9
	}
	return &fexpr{kind: "lit", cls: cls, id: id}
}

func (tr *flowTr) localVar(e *a.Expr) (int, bool) {
	if e == nil || e.Operator() != 0 {
		return 0, false
	}
	v, ok := tr.vars[e.Ident()]
	return v, ok
}

func (tr *flowTr) sexpr(e *a.Expr) *fexpr {
	if l := tr.statusLit(e); l != nil {
		return l
	}
	if v, ok := tr.localVar(e); ok {
		return &fexpr{kind: "var", v: v}
	}
	return &fexpr{kind: "unknown"}
}

const (
	mOk   = 1
	mNote = 2
	mErr  = 4
	mSR   = 8
	mSusp = 16
)

func (tr *flowTr) cond(e *a.Expr) *fcond {
	if e == nil {
		return &fcond{kind: "unknown"}
	}
	switch op := e.Operator(); {
	case op == 0 && e.Ident() == t.IDTrue:
		return &fcond{kind: "tt"}
	case op == 0 && e.Ident() == t.IDFalse:
		return &fcond{kind: "not", kids: []*fcond{{kind: "tt"}}}
	case op == t.IDXUnaryNot:
		return &fcond{kind: "not", kids: []*fcond{tr.cond(e.RHS().AsExpr())}}
	case op == t.IDXBinaryAnd || op == t.IDXBinaryOr:
		k := "and"
		if op == t.IDXBinaryOr {
			k = "or"
		}
		return &fcond{kind: k, kids: []*fcond{tr.cond(e.LHS().AsExpr()), tr.cond(e.RHS().AsExpr())}}
	case op == t.IDXAssociativeAnd || op == t.IDXAssociativeOr:
		k := "and"
		if op == t.IDXAssociativeOr {
			k = "or"
		}
		args := e.Args()
		if len(args) == 0 {
			return &fcond{kind: "unknown"}
		}
		c := tr.cond(args[len(args)-1].AsExpr())
		for i := len(args) - 2; i >= 0; i-- {
			c = &fcond{kind: k, kids: []*fcond{tr.cond(args[i].AsExpr()), c}}
		}
		return c
	case op == t.IDXBinaryEqEq || op == t.IDXBinaryNotEq:
		l, r := e.LHS().AsExpr(), e.RHS().AsExpr()
		var c *fcond
		if v, ok := tr.localVar(l); ok {
			if lit := tr.statusLit(r); lit != nil {
				c = &fcond{kind: "eq", v: v, lit: lit}
			}
		} else if v, ok := tr.localVar(r); ok {
			if lit := tr.statusLit(l); lit != nil {
				c = &fcond{kind: "eq", v: v, lit: lit}
			}
		}
		if c == nil {
			return &fcond{kind: "unknown"}
		}
		if op == t.IDXBinaryNotEq {
			return &fcond{kind: "not", kids: []*fcond{c}}
		}
		return c
	case op == a.ExprOperatorCall:
		recv, meth, args, ok := e.IsMethodCall()
		if !ok || len(args) != 0 {
			return &fcond{kind: "unknown"}
		}
		if v, isVar := tr.localVar(recv); isVar {
			switch tr.tm.ByID(meth) {
			case "is_ok":
				return &fcond{kind: "in", v: v, mask: mOk}
			case "is_error":
				return &fcond{kind: "in", v: v, mask: mErr}
			case "is_suspension":
				return &fcond{kind: "in", v: v, mask: mSR | mSusp}
			case "is_note":
				return &fcond{kind: "in", v: v, mask: mNote}
			case "is_complete":
				return &fcond{kind: "in", v: v, mask: mOk | mNote}
			}
			return &fcond{kind: "unknown"}
		}
		if meth == t.IDIsClosed && tr.reader != 0 && recv.IsArgsDotFoo() == tr.reader && tr.shadow == 0 {
			return &fcond{kind: "closed"}
		}
	}
	return &fcond{kind: "unknown"}
}

func seqOf(ns []*fnode) *fnode {
	if len(ns) == 0 {
		return &fnode{op: "S"}
	}
	r := ns[len(ns)-1]
	for i := len(ns) - 2; i >= 0; i-- {
		r = &fnode{op: ";", kids: []*fnode{ns[i], r}}
	}
	return r
}

func (tr *flowTr) block(ns []*a.Node) *fnode {
	var out []*fnode
	for _, n := range ns {
		for _, s := range tr.stmt(n) {
			if s.op != "S" {
				out = append(out, s)
			}
		}
	}
	return seqOf(out)
}

func (tr *flowTr) stmt(n *a.Node) []*fnode {
	switch n.Kind() {
	case a.KVar, a.KAssert, a.KChoose:
		return nil
	case a.KAssign:
		as := n.AsAssign()
		v, tracked := tr.localVar(as.LHS())
		if as.Operator() == t.IDEqQuestion {
			if tracked {
				return []*fnode{{op: "C", v: v}}
			}
			return nil // the callee's status is stored somewhere we do not track
		}
		var out []*fnode
		if hasCoroCall(as.RHS().AsNode()) || hasCoroCall(as.LHS().AsNode()) {
			out = append(out, &fnode{op: "Q"})
			if tracked {
				out = append(out, &fnode{op: "A", v: v, e: &fexpr{kind: "unknown"}})
			}
			return out
		}
		if tracked {
			e := &fexpr{kind: "unknown"}
			if as.Operator() == t.IDEq {
				e = tr.sexpr(as.RHS())
			}
			out = append(out, &fnode{op: "A", v: v, e: e})
		}
		return out
	case a.KExpr:
		if hasCoroCall(n) {
			return []*fnode{{op: "Q"}}
		}
		return nil
	case a.KRet:
		r := n.AsRet()
		var out []*fnode
		if hasCoroCall(r.Value().AsNode()) {
			out = append(out, &fnode{op: "Q"})
		}
		op := "R"
		if r.Keyword() == t.IDYield {
			op = "Y"
		}
		return append(out, &fnode{op: op, e: tr.sexpr(r.Value())})
	case a.KIf:
		return tr.ifStmt(n.AsIf())
	case a.KWhile:
		w := n.AsWhile()
		var out []*fnode
		if hasCoroCall(w.Condition().AsNode()) {
			out = append(out, &fnode{op: "Q"})
		}
		tr.loops = append(tr.loops, w)
		body := tr.block(w.Body())
		tr.loops = tr.loops[:len(tr.loops)-1]
		return append(out, &fnode{op: "W", c: tr.cond(w.Condition()), kids: []*fnode{body}})
	case a.KIterate:
		var out []*fnode
		for it := n.AsIterate(); it != nil; it = it.ElseIterate() {
			tr.loops = append(tr.loops, it)
			body := tr.block(it.Body())
			tr.loops = tr.loops[:len(tr.loops)-1]
			out = append(out, &fnode{op: "W", c: &fcond{kind: "unknown"}, kids: []*fnode{body}})
		}
		return out
	case a.KIOManip:
		m := n.AsIOManip()
		var out []*fnode
		if hasCoroCall(m.IO().AsNode()) || hasCoroCall(m.Arg1().AsNode()) {
			out = append(out, &fnode{op: "Q"})
		}
		// inside io_bind / io_limit on the reader, args.src.is_closed() looks at another buffer / a narrowed
		// window (`closed && (wi <= limit)`), not at the caller's flag: every such test becomes `unknown`
		shadows := tr.reader != 0 && m.IO().IsArgsDotFoo() == tr.reader
		if shadows {
			tr.shadow++
		}
		body := tr.block(m.Body())
		if shadows {
			tr.shadow--
		}
		return append(out, body)
	case a.KJump:
		j := n.AsJump()
		d := -1
		for i := len(tr.loops) - 1; i >= 0; i-- {
			if tr.loops[i] == j.JumpTarget() {
				d = len(tr.loops) - 1 - i
				break
			}
		}
		if d < 0 || d > 9 {
			tr.fail("jump target not found / too deep")
			d = 0
		}
		op := "B"
		if j.Keyword() == t.IDContinue {
			op = "K"
		}
		return []*fnode{{op: op, v: d}}
	}
	tr.fail("statement kind %v not handled", n.Kind())
	return nil
}

func (tr *flowTr) ifStmt(i *a.If) []*fnode {
	var out []*fnode
	if hasCoroCall(i.Condition().AsNode()) {
		out = append(out, &fnode{op: "Q"})
	}
	th := tr.block(i.BodyIfTrue())
	var el *fnode
	if ei := i.ElseIf(); ei != nil {
		el = seqOf(tr.ifStmt(ei))
	} else {
		el = tr.block(i.BodyIfFalse())
	}
	if th.op == "S" && el.op == "S" {
		return out
	}
	return append(out, &fnode{op: "I", c: tr.cond(i.Condition()), kids: []*fnode{th, el}})
}

// ---- printers

func (e *fexpr) compact() string {
	switch e.kind {
	case "var":
		return fmt.Sprintf("v%d", e.v)
	case "unknown":
		return "u"
	}
	switch e.cls {
	case 'o':
		return "o"
	case 'r':
		return "r"
	}
	return fmt.Sprintf("%c%d", e.cls, e.id)
}

func (e *fexpr) leanStatus() string {
	switch e.cls {
	case 'o':
		return ".ok"
	case 'r':
		return ".shortRead"
	case 'n':
		return fmt.Sprintf("(.note %d)", e.id)
	case 'e':
		return fmt.Sprintf("(.err %d)", e.id)
	}
	return fmt.Sprintf("(.susp %d)", e.id)
}

func (e *fexpr) lean() string {
	switch e.kind {
	case "var":
		return fmt.Sprintf("(.var %d)", e.v)
	case "unknown":
		return ".unknown"
	}
	return "(.lit " + e.leanStatus() + ")"
}

func (c *fcond) compact() string {
	switch c.kind {
	case "eq":
		return fmt.Sprintf("=%d%s", c.v, c.lit.compact())
	case "in":
		return fmt.Sprintf("i%d%02d", c.v, c.mask)
	case "closed":
		return "c"
	case "unknown":
		return "?"
	case "tt":
		return "t"
	case "not":
		return "!" + c.kids[0].compact()
	case "and":
		return "&" + c.kids[0].compact() + c.kids[1].compact()
	}
	return "|" + c.kids[0].compact() + c.kids[1].compact()
}

func maskLean(m int) string {
	var s []string
	for i, n := range []string{".ok", ".note", ".err", ".shortRead", ".otherSusp"} {
		if m>>uint(i)&1 == 1 {
			s = append(s, n)
		}
	}
	return "[" + strings.Join(s, ", ") + "]"
}

func (c *fcond) lean() string {
	switch c.kind {
	case "eq":
		return fmt.Sprintf("(.eq %d %s)", c.v, c.lit.leanStatus())
	case "in":
		return fmt.Sprintf("(.isIn %d %s)", c.v, maskLean(c.mask))
	case "closed":
		return ".closed"
	case "unknown":
		return ".unknown"
	case "tt":
		return ".tt"
	case "not":
		return "(.not " + c.kids[0].lean() + ")"
	case "and":
		return "(.and " + c.kids[0].lean() + " " + c.kids[1].lean() + ")"
	}
	return "(.or " + c.kids[0].lean() + " " + c.kids[1].lean() + ")"
}

func (n *fnode) compact() string {
	switch n.op {
	case "S", "Q":
		return n.op
	case "A":
		return fmt.Sprintf("A%d%s", n.v, n.e.compact())
	case "C", "B", "K":
		return fmt.Sprintf("%s%d", n.op, n.v)
	case "R", "Y":
		return n.op + n.e.compact()
	case "I":
		return "I" + n.c.compact() + n.kids[0].compact() + n.kids[1].compact()
	case "W":
		return "W" + n.c.compact() + n.kids[0].compact()
	}
	return ";" + n.kids[0].compact() + n.kids[1].compact()
}

func (n *fnode) lean(ind string) string {
	switch n.op {
	case "S":
		return ".skip"
	case "Q":
		return ".callQ"
	case "A":
		return fmt.Sprintf("(.assign %d %s)", n.v, n.e.lean())
	case "C":
		return fmt.Sprintf("(.callAssign %d)", n.v)
	case "B":
		return fmt.Sprintf("(.brk %d)", n.v)
	case "K":
		return fmt.Sprintf("(.cont %d)", n.v)
	case "R":
		return "(.ret " + n.e.lean() + ")"
	case "Y":
		return "(.yield " + n.e.lean() + ")"
	case "I":
		return "(.ite " + n.c.lean() + "\n" + ind + "  " + n.kids[0].lean(ind+"  ") + "\n" + ind + "  " + n.kids[1].lean(ind+"  ") + ")"
	case "W":
		return "(.while " + n.c.lean() + "\n" + ind + "  " + n.kids[0].lean(ind+"  ") + ")"
	}
	return "(.seq " + n.kids[0].lean(ind+"  ") + "\n" + ind + "  " + n.kids[1].lean(ind+"  ") + ")"
}

func isIOReader(tm *t.Map, x *a.TypeExpr) bool {
	return x != nil && x.Decorator() == 0 && x.QID() == t.QID{t.IDBase, t.IDIOReader}
}

func isStatusType(x *a.TypeExpr) bool {
	return x != nil && x.Decorator() == 0 && x.QID() == t.QID{t.IDBase, t.IDStatus}
}

// flowFile translates the public coroutines (with an io_reader argument) of one source file.
func flowFile(pkg, filename string, src []byte) ([]flowFunc, error) {
	tm := &t.Map{}
	toks, _, err := t.Tokenize(tm, filename, src)
	if err != nil {
		return nil, err
	}
	f, err := parse.Parse(tm, filename, toks, nil)
	if err != nil {
		return nil, err
	}
	var out []flowFunc
	for _, d := range f.TopLevelDecls() {
		if d.Kind() != a.KFunc {
			continue
		}
		fn := d.AsFunc()
		if !fn.Public() || !fn.Effect().Coroutine() {
			continue
		}
		tr := &flowTr{tm: tm, vars: map[t.ID]int{}, lits: map[string]int{}, nlit: map[byte]int{}}
		for k, v := range flowPreseed {
			tr.lits[k] = v
		}
		readers := 0
		for _, fld := range fn.In().Fields() {
			if isIOReader(tm, fld.AsField().XType()) {
				readers++
				tr.reader = fld.AsField().Name()
			}
		}
		if readers == 0 {
			continue
		}
		if readers > 1 {
			tr.reader = 0 // is_closed() of which one? treat every test as unknown
		}
		fn.AsNode().Walk(func(o *a.Node) error {
			if o.Kind() == a.KVar && isStatusType(o.AsVar().XType()) {
				if _, ok := tr.vars[o.AsVar().Name()]; !ok {
					tr.vars[o.AsVar().Name()] = len(tr.vars)
				}
			}
			return nil
		})
		if len(tr.vars) > 10 {
			tr.fail("more than 10 status-typed locals")
		}
		ff := flowFunc{pkg: pkg, file: filename, line: fn.Line(),
			name: tm.ByID(fn.Receiver()[1]) + "." + tm.ByID(fn.FuncName())}
		body := tr.block(fn.Body())
		if tr.failed != "" {
			ff.err = tr.failed
		} else {
			ff.compact = body.compact()
			ff.lean = body.lean("  ")
			var ns []string
			for k, id := range tr.lits {
				// k = class byte + qualifier + "." + text
				txt := k[1:]
				q := txt[:strings.Index(txt, ".")]
				msg := txt[strings.Index(txt, ".")+1:]
				if q == "" {
					q = pkg
				}
				full := msg[:1] + q + ": " + msg[1:]
				ns = append(ns, fmt.Sprintf("%c%d=%s", k[0], id, strings.NewReplacer(" ", "_", ",", "_", ";", "_").Replace(full)))
			}
			sort.Strings(ns)
			ff.names = strings.Join(ns, ",")
		}
		out = append(out, ff)
	}
	return out, nil
}

// flowStd translates every std package of the repository.
func flowStd(repo string) ([]flowFunc, error) {
	files, _ := filepath.Glob(filepath.Join(repo, "std", "*", "*.wuffs"))
	sort.Strings(files)
	var out []flowFunc
	for _, fn := range files {
		src, err := os.ReadFile(fn)
		if err != nil {
			return nil, err
		}
		rel, _ := filepath.Rel(repo, fn)
		ffs, err := flowFile(filepath.Base(filepath.Dir(fn)), rel, src)
		if err != nil {
			return nil, fmt.Errorf("%s: %v", rel, err)
		}
		out = append(out, ffs...)
	}
	return out, nil
}

// sampledOnly: public coroutines of std/ that do NOT have the wrapper shape (they test is_closed() deep
// inside their own loops, or hand out `$short read` only behind such a test in a way the analysis does
// not follow). For these the clause is sampled by the compiled runs only. Everything not listed here
// MUST be accepted by the Lean checker (`Props.C03.std_wrappers_guarded`), so a new or edited public
// coroutine that loses its guard breaks the proof.
var flowSampledOnly = map[string]string{
	"json.decoder.decode_tokens": "bare calls of private coroutines (decode_leading?, decode_inf_nan?, decode_comment?, decode_trailer?) that receive the reader; each tests is_closed() itself",
	"lzw.decoder.transform_io":   "yields $short read depending on this.read_from_return_value, which read_from! sets from is_closed(): data flow through a field",
}

func leanIdent(s string) string {
	r := strings.NewReplacer(".", "_", "-", "_")
	return "w_" + r.Replace(s)
}

func flowGenFile(ffs []flowFunc) string {
	var b strings.Builder
	b.WriteString("/-\nGENERATED by `bin/wvh_c03 -mode gen` (harness/cmd/c03/flow.go) from the working tree's std/*/*.wuffs;\ndo not edit. One `Stmt` per public coroutine that takes an `io_reader`: its status flow.\n-/\n")
	b.WriteString("import WuffsVerif.Model.StatusFlow\n\nnamespace WuffsVerif.Gen.C03\n\nopen WuffsVerif.StatusFlow\n\n")
	var proved, sampled, failed []string
	for _, f := range ffs {
		if f.err != "" {
			failed = append(failed, fmt.Sprintf("-- NOT TRANSLATED %s (%s:%d): %s", f.key(), f.file, f.line, f.err))
			continue
		}
		id := leanIdent(f.key())
		fmt.Fprintf(&b, "/-- `%s` %s:%d — `%s` -/\ndef %s : Stmt :=\n  %s\n\n", f.key(), f.file, f.line, f.compact, id, f.lean)
		entry := fmt.Sprintf("(%q, %s)", f.key(), id)
		if why, ok := flowSampledOnly[f.key()]; ok {
			sampled = append(sampled, entry+" -- "+why)
		} else {
			proved = append(proved, entry)
		}
	}
	wl := func(name, doc string, l []string) {
		fmt.Fprintf(&b, "/-- %s -/\ndef %s : List (String × Stmt) := [", doc, name)
		for i, e := range l {
			c := ""
			if j := strings.Index(e, " -- "); j >= 0 {
				c = e[j:]
				e = e[:j]
			}
			sep := ","
			if i == len(l)-1 {
				sep = ""
			}
			fmt.Fprintf(&b, "\n  %s%s%s", e, sep, c)
		}
		b.WriteString("\n  ]\n\n")
	}
	wl("wrappers", "The public coroutines whose bodies the checker must accept.", proved)
	wl("sampledOnly", "Public coroutines without the wrapper shape: sampled as compiled C only.", sampled)
	for _, l := range failed {
		b.WriteString(l + "\n")
	}
	b.WriteString("\nend WuffsVerif.Gen.C03\n")
	return b.String()
}

// ---- the flow probe: wrappers of every shape around one inner coroutine whose answer is dictated by the
// next input byte ('E' error, 'N' note, 'W' another suspension, anything else ok; no byte: $short read).

const flowProbeStatuses = `pub status "#probe error"
pub status "#truncated input"
pub status "@probe note"
pub status "$probe suspension"

`

const flowProbeWuffs = `
pri func probe.inner?(src: base.io_reader) {
    var c : base.u8
    c = args.src.read_u8?()
    if c == 0x45 {
        return "#probe error"
    } else if c == 0x4E {
        return "@probe note"
    } else if c == 0x57 {
        yield? "$probe suspension"
    }
}

pri func probe.aux!() base.status {
    return ok
}

pub func probe.f_std?(src: base.io_reader) {
    var status : base.status
    while true {
        status =? this.inner?(src: args.src)
        if (status == base."$short read") and args.src.is_closed() {
            return "#truncated input"
        }
        yield? status
    }
}

pub func probe.f_bare?(src: base.io_reader) {
    this.inner?(src: args.src)
    this.inner?(src: args.src)
}

pub func probe.f_twice?(src: base.io_reader) {
    var status : base.status
    status =? this.inner?(src: args.src)
    if (status == base."$short read") and args.src.is_closed() {
        return "#truncated input"
    }
    yield? status
    yield? status
}

pub func probe.f_lzma?(src: base.io_reader) {
    var s : base.status
    var t : base.status
    while true {
        s =? this.inner?(src: args.src)
        if not s.is_suspension() {
            return s
        } else if (s == base."$short read") and args.src.is_closed() {
            return "#truncated input"
        }
        t = this.aux!()
        if t.is_error() {
            return t
        }
        yield? s
    }
}

pub func probe.f_jpeg?(src: base.io_reader) {
    var s : base.status
    while true {
        s =? this.inner?(src: args.src)
        if (s == base."$short read") and args.src.is_closed() {
            s = "#truncated input"
        }
        if s.is_error() {
            return s
        }
        yield? s
    }
}

pub func probe.f_ret?(src: base.io_reader) {
    var s : base.status
    s =? this.inner?(src: args.src)
    return s
}

pub func probe.f_lit?(src: base.io_reader) {
    var s : base.status
    while true {
        s =? this.inner?(src: args.src)
        if s == base."$short read" {
            if args.src.is_closed() {
                return "#truncated input"
            }
            yield? base."$short read"
            continue
        } else if s.is_ok() {
            continue
        }
        yield? s
    }
}
`

// what the Lean checker must say about each probe wrapper (G = accepted, U = refused); for the U ones the
// sampling below must actually observe `$short read` on a closed source in the compiled C (non-vacuity).
var flowProbeFuncs = []struct{ name, verdict string }{
	{"f_std", "G"}, {"f_bare", "U"}, {"f_twice", "U"}, {"f_lzma", "G"}, {"f_jpeg", "G"}, {"f_ret", "G"}, {"f_lit", "G"},
}

// flowProbe translates the probe's wrappers with the same translator as std/ (inner statuses pre-numbered 5).
func flowProbe(src string) (map[string]flowFunc, map[string]string, error) {
	flowPreseed = map[string]int{"ec03probe.#probe error": 5, "e.#probe error": 5, "n.@probe note": 5, "s.$probe suspension": 5}
	defer func() { flowPreseed = nil }()
	ffs, err := flowFile("c03probe", "probe.wuffs", []byte(src))
	if err != nil {
		return nil, nil, err
	}
	out := map[string]flowFunc{}
	names := map[string]string{}
	for _, f := range ffs {
		if f.err != "" {
			return nil, nil, fmt.Errorf("%s: %s", f.name, f.err)
		}
		out[strings.TrimPrefix(f.name, "probe.")] = f
		names[strings.TrimPrefix(f.name, "probe.")] = f.names
	}
	return out, names, nil
}

var flowPreseed map[string]int

// flowOps: `flow <fn> <ast> <names> <script>`; script = comma-separated calls `<hex of new bytes>:<closed>`.
func flowOps(r interface {
	Count(string)
}, rng interface {
	Intn(int) int
}, n int, probes map[string]flowFunc) (ops []string, verdicts []string) {
	alphabet := []byte("EENWWaabc")
	for i := 0; i < n; i++ {
		f := flowProbeFuncs[rng.Intn(len(flowProbeFuncs))]
		p := probes[f.name]
		ncalls := 1 + rng.Intn(6)
		closed := 0
		var items []string
		for c := 0; c < ncalls; c++ {
			nb := rng.Intn(4)
			if rng.Intn(3) == 0 {
				nb = 0
			}
			b := make([]byte, nb)
			for k := range b {
				if rng.Intn(2) == 0 {
					b[k] = 'a'
				} else {
					b[k] = alphabet[rng.Intn(len(alphabet))]
				}
			}
			switch rng.Intn(8) {
			case 0, 1:
				closed = 1
			case 2:
				if rng.Intn(4) == 0 {
					closed = 0 // a caller that re-opens the source: unusual but not excluded
				}
			}
			if c == ncalls-1 && rng.Intn(2) == 0 {
				closed = 1
			}
			h := "-"
			if nb > 0 {
				h = fmt.Sprintf("%x", b)
			}
			items = append(items, fmt.Sprintf("%s:%d", h, closed))
		}
		names := "e0=#base:_cannot_return_a_suspension"
		if p.names != "" {
			names += "," + p.names
		}
		ops = append(ops, fmt.Sprintf("flow %s %s %s %s", f.name, p.compact, names, strings.Join(items, ",")))
		verdicts = append(verdicts, f.verdict)
		r.Count("flow:" + f.name)
	}
	return ops, verdicts
}

// flowShortReadOnClosed: did call k of the script (closed flag 1) answer $short read?
func flowShortReadOnClosed(op, answer string) bool {
	f := strings.Fields(op)
	if len(f) != 5 || !strings.HasPrefix(answer, "[") {
		return false
	}
	items := strings.Split(f[4], ",")
	sts := strings.Split(strings.Trim(answer, "[]"), ",")
	for i, st := range sts {
		if i < len(items) && strings.HasSuffix(items[i], ":1") && strings.HasPrefix(st, "$base:_short_read:") {
			return true
		}
	}
	return false
}
