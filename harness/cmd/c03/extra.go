package main

// More model/implementation op lines (status predicates, match7, limited_copy_u32_from_reader, per-call
// verdicts of the compiled decoders) and the static "no allocator call edge" scan of the gcc build.

import (
	"bufio"
	"bytes"
	"encoding/hex"
	"fmt"
	"os"
	"os/exec"
	"regexp"
	"sort"
	"strconv"
	"strings"

	"wvh/hlib"
)

// ---- match7 / from_reader

func moreHelperOps(r *hlib.Run, rng *hlib.Rand, n int) []string {
	var ops []string
	for i := 0; i < n; i++ {
		if rng.Intn(3) == 0 {
			// from_reader <hexW> <io0W> <iopW> <length> <hexR> <io0R> <iopR>
			sw, sr := rng.Intn(40), rng.Intn(40)
			bw, br := rng.Bytes(sw), rng.Bytes(sr)
			io0w, io0r := 0, 0
			if sw > 0 && rng.Chance(1, 3) {
				io0w = rng.Intn(sw/2 + 1)
			}
			if sr > 0 && rng.Chance(1, 3) {
				io0r = rng.Intn(sr/2 + 1)
			}
			iopw := io0w + rng.Intn(sw-io0w+1)
			iopr := io0r + rng.Intn(sr-io0r+1)
			length := rng.Intn(50)
			switch rng.Intn(4) { // aim at the three clamps
			case 0:
				length = sw - iopw + pick(rng, -1, 0, 1)
			case 1:
				length = sr - iopr + pick(rng, -1, 0, 1)
			}
			if length < 0 {
				length = 0
			}
			ops = append(ops, fmt.Sprintf("from_reader %s %d %d %d %s %d %d", hlib.Hex(bw), io0w, iopw, length, hlib.Hex(br), io0r, iopr))
			r.Count("helper:from_reader")
			continue
		}
		// match7 <hexbuf> <io0> <iop> <closed> <a>
		sz := rng.Intn(20)
		buf := rng.Bytes(sz)
		io0 := 0
		if sz > 0 && rng.Chance(1, 4) {
			io0 = rng.Intn(sz/2 + 1)
		}
		iop := io0 + rng.Intn(sz-io0+1)
		switch rng.Intn(4) { // around the "8 bytes available" fast-path threshold and the empty reader
		case 0:
			if sz-8 >= io0 {
				iop = sz - 8 + pick(rng, -1, 0, 1)
				if iop < io0 {
					iop = io0
				}
				if iop > sz {
					iop = sz
				}
			}
		case 1:
			iop = sz
		}
		np := rng.Intn(8) // prefix length 0..7 (0: the zero-length prefix)
		var a uint64
		for k := 0; k < 7; k++ {
			var b byte
			if k < np && iop+k < sz && !rng.Chance(1, 5) {
				b = buf[iop+k] // matching prefix byte
			} else {
				b = byte(rng.Intn(256))
			}
			a |= uint64(b) << (8 * uint(k+1))
		}
		a |= uint64(np)
		if rng.Chance(1, 3) {
			a |= uint64(rng.Intn(32)) << 3 // bits 3..7 of the low byte are ignored by the helper
		}
		ops = append(ops, fmt.Sprintf("match7 %s %d %d %d %d", hlib.Hex(buf), io0, iop, rng.Intn(2), a))
		r.Count(fmt.Sprintf("helper:match7:n=%d", np))
	}
	return ops
}

// ---- slice helpers of the public header (what cgen emits for s[i ..], s[.. j], s[i .. j])

func subsliceOps(r *hlib.Run, rng *hlib.Rand, n int) []string {
	ops := []string{"subslice i NULL 0 0", "subslice j NULL 0 0", "subslice ij NULL 0 0", "subslice i NULL 1 0", "subslice ij 0 0 0"}
	for i := 0; i < n; i++ {
		kind := []string{"i", "j", "ij"}[rng.Intn(3)]
		ln := fmt.Sprint(rng.Intn(20))
		if rng.Chance(1, 6) {
			ln = "NULL"
		}
		l, _ := strconv.Atoi(ln)
		a, b := rng.Intn(24), rng.Intn(24)
		switch rng.Intn(4) { // at the bounds
		case 0:
			a, b = l, l
		case 1:
			a, b = 0, l
		case 2:
			b = l + 1
		}
		ops = append(ops, fmt.Sprintf("subslice %s %s %d %d", kind, ln, a, b))
		r.Count("helper:subslice_" + kind)
	}
	return ops
}

// ---- status predicates

var statusDefRe = regexp.MustCompile(`(?m)^const char (wuffs_[a-z0-9_]+__(error|note|suspension)__[a-z0-9_]+)\[\] = "((?:[^"\\]|\\.)*)";`)

// libraryStatuses lists every status string the regenerated library defines (name -> text).
func libraryStatuses(snapshot string) (map[string]string, error) {
	b, err := os.ReadFile(snapshot)
	if err != nil {
		return nil, err
	}
	out := map[string]string{}
	for _, m := range statusDefRe.FindAllSubmatch(b, -1) {
		s, err := strconv.Unquote(`"` + string(m[3]) + `"`)
		if err != nil {
			s = string(m[3])
		}
		out[string(m[1])] = s
	}
	return out, nil
}

func statusOps(r *hlib.Run, rng *hlib.Rand, lib map[string]string, nRandom int) []string {
	ops := []string{"status NULL", "status -"}
	names := make([]string, 0, len(lib))
	for n := range lib {
		names = append(names, n)
	}
	sort.Strings(names)
	internal := 0
	for _, n := range names {
		s := lib[n]
		ops = append(ops, "status "+hlib.Hex([]byte(s)))
		r.Count("status:library-defined")
		kind := strings.Split(n, "__")
		want := map[string]byte{"error": '#', "note": '@', "suspension": '$'}[kind[len(kind)-2]]
		if s == "" || s[0] != want {
			r.Fail("status-sigil:"+n, fmt.Sprintf("the library defines %s = %q, which does not start with %q", n, s, string(want)), "status "+hlib.Hex([]byte(s)))
		}
		if strings.Contains(s, "internal error") {
			internal++
		}
	}
	r.Extra("library_statuses", len(names))
	r.Extra("library_internal_error_statuses", internal)
	for _, s := range []string{"$", "#", "@", "x", "#a: truncated input", "#: truncated input", "#truncated input", "#a:b: truncated input",
		"#a: truncated input ", "@a: truncated input", "$a: truncated input", "#x: internal error", "@x: internal error", "#internal erro",
		"# truncated input: truncated input", "#a::", "#:"} {
		ops = append(ops, "status "+hlib.Hex([]byte(s)))
	}
	sig := []byte("$#@:$#@: abint")
	for i := 0; i < nRandom; i++ {
		var s []byte
		if len(names) > 0 && rng.Chance(1, 2) { // a library status, mutated
			s = []byte(lib[names[rng.Intn(len(names))]])
			for k := 0; k < 1+rng.Intn(2) && len(s) > 0; k++ {
				j := rng.Intn(len(s))
				switch rng.Intn(3) {
				case 0:
					s[j] = sig[rng.Intn(len(sig))]
				case 1:
					s = append(s[:j], s[j+1:]...)
				default:
					s = append(s[:j], append([]byte{sig[rng.Intn(len(sig))]}, s[j:]...)...)
				}
			}
		} else {
			s = make([]byte, rng.Intn(12))
			for k := range s {
				if rng.Chance(1, 2) {
					s[k] = sig[rng.Intn(len(sig))]
				} else {
					s[k] = byte(1 + rng.Intn(255))
				}
			}
		}
		for k := range s {
			if s[k] == 0 {
				s[k] = 1
			}
		}
		ops = append(ops, "status "+hlib.Hex(s))
		r.Count("status:random")
	}
	return ops
}

// ---- per-call records of the compiled decoders (cdrv calllog=)

const shortReadHex = "24626173653a2073686f72742072656164"
const shortWriteHex = "24626173653a2073686f7274207772697465"

// callrecOps turns `calllog=<n>:rec;rec…` into op lines for Model/StdCall.lean and the answer the C side
// gave: the class by the library's own status predicates and the driver's per-call flag bits.
func callrecOps(calllog string, ample int) (ops, impl []string) {
	i := strings.IndexByte(calllog, ':')
	if i < 0 || calllog[i+1:] == "-" {
		return nil, nil
	}
	for _, rec := range strings.Split(calllog[i+1:], ";") {
		f := strings.Split(rec, "/")
		if len(f) != 10 {
			ops = append(ops, "callrec malformed "+rec)
			impl = append(impl, "malformed")
			continue
		}
		st, cls, closed := f[0], f[1], f[2]
		bits, _ := strconv.Atoi(f[9])
		ops = append(ops, fmt.Sprintf("callrec %d %s %s %s %s %s %s %s %s", ample, st, closed, f[3], f[4], f[5], f[6], f[7], f[8]))
		var v string
		switch {
		case bits&16 != 0:
			v = "V:index-order"
		case bits&1 != 0:
			v = "V:internal-error"
		case cls == "o":
			v = "ok"
		case cls == "e":
			v = "error"
		case cls == "s" && st == shortReadHex:
			v = "short-read"
			if bits&2 != 0 {
				v = "V:short-read-on-closed"
			}
		case cls == "s" && st == shortWriteHex:
			v = "short-write"
			if bits&4 != 0 {
				v = "V:short-write-empty-ample"
			}
		case cls == "s":
			v = "other-suspension"
		case cls == "n" && strings.HasPrefix(st, "40"):
			v = "note"
		default:
			v = "V:not-a-status"
		}
		impl = append(impl, v)
	}
	return ops, impl
}

func statusTextOfHex(h string) string {
	b, err := hex.DecodeString(h)
	if err != nil {
		return h
	}
	return string(b)
}

// ---- static scan: which functions of the gcc build reference the allocator?

var objFnRe = regexp.MustCompile(`^[0-9a-f]+ <([^>]+)>:$`)
var objCallRe = regexp.MustCompile(`\s(?:call|jmp)\w*\s+[0-9a-f]+ <([^>+]+)(?:\+0x[0-9a-f]+)?>`)
var allocFnRe = regexp.MustCompile(`^wuffs_[a-z0-9]+__[a-z0-9_]+__alloc(_as__wuffs_base__[a-z0-9_]+)?$|^wuffs_base__malloc_slice_`)
var allocatorSym = regexp.MustCompile(`^(__wrap_|__real_|__libc_)?(malloc|calloc|realloc|free|aligned_alloc|posix_memalign|memalign|valloc|mmap|mmap64|sbrk|brk|strdup|strndup)(@plt)?$`)

// allocScan disassembles the driver binary of the gcc -O2 build and reports every library function
// (symbol wuffs_*) outside the alloc helpers from which an allocator entry point is reachable through
// direct calls/jumps. Returns (violations, number of library functions seen, error).
func allocScan(bin string) ([]string, int, error) {
	if _, err := exec.LookPath("objdump"); err != nil {
		return nil, 0, err
	}
	cmd := exec.Command("objdump", "-d", "--no-show-raw-insn", bin)
	out, err := cmd.StdoutPipe()
	if err != nil {
		return nil, 0, err
	}
	if err := cmd.Start(); err != nil {
		return nil, 0, err
	}
	norm := func(s string) string {
		if i := strings.IndexByte(s, '.'); i > 0 {
			s = s[:i]
		}
		return s
	}
	calls := map[string]map[string]bool{}
	cur := ""
	sc := bufio.NewScanner(out)
	sc.Buffer(make([]byte, 1<<20), 1<<20)
	for sc.Scan() {
		line := sc.Bytes()
		if m := objFnRe.FindSubmatch(line); m != nil {
			cur = norm(string(m[1]))
			if calls[cur] == nil {
				calls[cur] = map[string]bool{}
			}
			continue
		}
		if cur == "" || !bytes.Contains(line, []byte("<")) {
			continue
		}
		if m := objCallRe.FindSubmatch(line); m != nil {
			t := string(m[1])
			if !allocatorSym.MatchString(t) {
				t = norm(t)
			}
			if t != cur {
				calls[cur][t] = true
			}
		}
	}
	cmd.Wait()
	// taint: functions from which an allocator symbol is reachable
	taint := map[string]string{}
	for f, cs := range calls {
		for c := range cs {
			if allocatorSym.MatchString(c) {
				taint[f] = c
			}
		}
	}
	for changed := true; changed; {
		changed = false
		for f, cs := range calls {
			if _, ok := taint[f]; ok {
				continue
			}
			for c := range cs {
				if _, ok := taint[c]; ok && strings.HasPrefix(c, "wuffs_") {
					taint[f] = "via " + c
					changed = true
					break
				}
			}
		}
	}
	var bad []string
	nlib := 0
	for f := range calls {
		if !strings.HasPrefix(f, "wuffs_") {
			continue
		}
		nlib++
		if why, ok := taint[f]; ok && !allocFnRe.MatchString(f) {
			bad = append(bad, f+" -> "+why)
		}
	}
	sort.Strings(bad)
	return bad, nlib, nil
}
