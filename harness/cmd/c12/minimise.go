package main

// Replay minimisation for the Wuffs formatter half: given a source on which the
// oracle fails with some key, greedily delete line ranges (delta debugging on
// lines) while the same key keeps failing. The reduced source is what goes
// into the replay (the original is kept too).

import (
	"bytes"
)

func wuffsFailKey(w **worker, src []byte) string {
	resp := call(w, []byte("W"), src)
	if len(resp) >= 4 && string(resp[0]) == "ok" {
		return string(resp[2])
	}
	if s := string(resp[0]); s == "panic" || s == "timeout" || s == "crash" {
		return s + ":wuffsfmt"
	}
	return ""
}

func minimiseWuffs(src []byte, key string) []byte {
	var w *worker
	defer func() {
		if w != nil {
			w.kill()
		}
	}()
	lines := bytes.SplitAfter(src, []byte{'\n'})
	budget := 400
	for chunk := len(lines) / 2; chunk >= 1 && budget > 0; {
		removed := false
		for i := 0; i+chunk <= len(lines) && budget > 0; {
			cand := append(append([][]byte{}, lines[:i]...), lines[i+chunk:]...)
			budget--
			if wuffsFailKey(&w, bytes.Join(cand, nil)) == key {
				lines = cand
				removed = true
			} else {
				i += chunk
			}
		}
		if !removed || chunk > len(lines) {
			chunk /= 2
		}
		if chunk > len(lines) {
			chunk = len(lines)
		}
	}
	return bytes.Join(lines, nil)
}
