// C12 harness: lib/dumbindent (C indenter) and lang/render (Wuffs formatter)
// vs the Lean models (Model/Indent.lean, Model/Render*.lean), plus the
// property's own oracle evaluated on the implementation:
//
//	indenter: terminates (watchdog + memory cap, in a child process), output
//	  equals input modulo per-line leading/trailing blanks and trailing blank
//	  lines, re-indenting is the identity;
//	formatter: output re-tokenizes to the same tokens (numbers up to grouping /
//	  hex case) and comments, parses, and formatting again is the identity.
//
// The real code is only ever run in child processes (this binary re-executed
// with `-child`): a regression to the infinite, output-growing loop of the
// unpatched FormatBytes must not take the harness (or the machine) down.
package main

import (
	"bufio"
	"bytes"
	"encoding/binary"
	"fmt"
	"io"
	"os"
	"os/exec"
	"runtime"
	"sync"
	"sync/atomic"
	"syscall"
	"time"

	"wvh/hlib"
)

// ---- framing: a frame is a list of byte strings

func writeFrame(w *bufio.Writer, parts ...[]byte) error {
	var hdr [4]byte
	binary.LittleEndian.PutUint32(hdr[:], uint32(len(parts)))
	if _, err := w.Write(hdr[:]); err != nil {
		return err
	}
	for _, p := range parts {
		binary.LittleEndian.PutUint32(hdr[:], uint32(len(p)))
		if _, err := w.Write(hdr[:]); err != nil {
			return err
		}
		if _, err := w.Write(p); err != nil {
			return err
		}
	}
	return w.Flush()
}

func readFrame(r *bufio.Reader) ([][]byte, error) {
	var hdr [4]byte
	if _, err := io.ReadFull(r, hdr[:]); err != nil {
		return nil, err
	}
	n := binary.LittleEndian.Uint32(hdr[:])
	if n > 4096 {
		return nil, fmt.Errorf("bad frame")
	}
	parts := make([][]byte, n)
	for i := range parts {
		if _, err := io.ReadFull(r, hdr[:]); err != nil {
			return nil, err
		}
		l := binary.LittleEndian.Uint32(hdr[:])
		if l > 1<<30 {
			return nil, fmt.Errorf("bad frame")
		}
		parts[i] = make([]byte, l)
		if _, err := io.ReadFull(r, parts[i]); err != nil {
			return nil, err
		}
	}
	return parts, nil
}

// ---- child: runs the real code

const childMemLimit = 1536 << 20 // bytes of address space

func childMain() {
	lim := syscall.Rlimit{Cur: childMemLimit, Max: childMemLimit}
	syscall.Setrlimit(syscall.RLIMIT_AS, &lim)
	in := bufio.NewReaderSize(os.Stdin, 1<<20)
	out := bufio.NewWriterSize(os.Stdout, 1<<20)
	for {
		req, err := readFrame(in)
		if err != nil {
			return
		}
		var resp [][]byte
		if string(req[0]) == "B" {
			resp = [][]byte{[]byte("B")}
			for _, e := range req[1:] {
				sub, err := decodeParts(e)
				if err != nil {
					resp = append(resp, encodeParts([][]byte{[]byte("bad-request")}))
					continue
				}
				resp = append(resp, encodeParts(childOne(sub)))
			}
		} else {
			resp = childOne(req)
		}
		if writeFrame(out, resp...) != nil {
			return
		}
	}
}

func childOne(req [][]byte) (resp [][]byte) {
	defer func() {
		if e := recover(); e != nil {
			resp = [][]byte{[]byte("panic"), []byte(fmt.Sprint(e))}
		}
	}()
	switch string(req[0]) {
	case "I":
		return childIndent(req)
	case "W":
		return childWuffs(req)
	}
	return [][]byte{[]byte("bad-request")}
}

func encodeParts(parts [][]byte) []byte {
	var b bytes.Buffer
	w := bufio.NewWriter(&b)
	writeFrame(w, parts...)
	return b.Bytes()
}

func decodeParts(b []byte) ([][]byte, error) {
	return readFrame(bufio.NewReader(bytes.NewReader(b)))
}

// ---- parent side: a pool of children with a per-request watchdog

type worker struct {
	cmd *exec.Cmd
	in  *bufio.Writer
	inC io.Closer
	out *bufio.Reader
}

func startWorker() *worker {
	exe, err := os.Executable()
	if err != nil {
		panic(err)
	}
	cmd := exec.Command(exe, "-child")
	cmd.Env = append(os.Environ(), "GOMAXPROCS=2", "GOGC=50")
	stdin, _ := cmd.StdinPipe()
	stdout, _ := cmd.StdoutPipe()
	cmd.Stderr = nil
	if err := cmd.Start(); err != nil {
		panic(err)
	}
	return &worker{cmd: cmd, in: bufio.NewWriterSize(stdin, 1<<20), inC: stdin, out: bufio.NewReaderSize(stdout, 1<<20)}
}

func (w *worker) kill() {
	w.cmd.Process.Kill()
	w.inC.Close()
	w.cmd.Wait()
}

const watchdog = 30 * time.Second

// call sends one request; the first part of the answer is a status word:
// whatever the child says, or "timeout" / "crash" (out of memory, fatal error).
func call(wp **worker, parts ...[]byte) [][]byte { return callT(wp, watchdog, parts...) }

func callT(wp **worker, limit time.Duration, parts ...[]byte) [][]byte {
	if *wp == nil {
		*wp = startWorker()
	}
	w := *wp
	type res struct {
		parts [][]byte
		err   error
	}
	ch := make(chan res, 1)
	go func() {
		if err := writeFrame(w.in, parts...); err != nil {
			ch <- res{nil, err}
			return
		}
		p, err := readFrame(w.out)
		ch <- res{p, err}
	}()
	select {
	case r := <-ch:
		if r.err != nil {
			w.kill()
			*wp = nil
			return [][]byte{[]byte("crash")}
		}
		return r.parts
	case <-time.After(limit):
		w.kill()
		*wp = nil
		return [][]byte{[]byte("timeout")}
	}
}

// runAll evaluates reqs on nWorkers children; results keep the order of reqs.
func runAll(nWorkers int, reqs [][][]byte) [][][]byte {
	t0 := time.Now()
	defer func() {
		if os.Getenv("C12_TIMING") != "" {
			fmt.Fprintf(os.Stderr, "runAll: %d requests, %d workers, %v\n", len(reqs), nWorkers, time.Since(t0))
		}
	}()
	out := make([][][]byte, len(reqs))
	// batches of consecutive requests (fewer round trips); a batch that does not come
	// back (watchdog, crash) is re-run one request at a time to find the culprit.
	type batch struct{ lo, hi int }
	var batches []batch
	for lo := 0; lo < len(reqs); {
		hi, size := lo, 0
		for hi < len(reqs) && hi-lo < 64 && (size < 1<<18 || hi == lo) {
			for _, p := range reqs[hi] {
				size += len(p)
			}
			hi++
		}
		batches = append(batches, batch{lo, hi})
		lo = hi
	}
	var wg sync.WaitGroup
	var mu sync.Mutex
	var bad int32
	next := 0
	for k := 0; k < nWorkers; k++ {
		wg.Add(1)
		go func() {
			defer wg.Done()
			var w *worker
			for {
				mu.Lock()
				i := next
				next++
				mu.Unlock()
				if i >= len(batches) {
					break
				}
				b := batches[i]
				if atomic.LoadInt32(&bad) >= 3 {
					// circuit breaker: the implementation hangs or crashes; three witnesses are
					// enough, do not spend a watchdog period on each of thousands of cases
					for j := b.lo; j < b.hi; j++ {
						out[j] = [][]byte{[]byte("skipped")}
					}
					continue
				}
				parts := [][]byte{[]byte("B")}
				for j := b.lo; j < b.hi; j++ {
					parts = append(parts, encodeParts(reqs[j]))
				}
				resp := call(&w, parts...)
				ok := string(resp[0]) == "B" && len(resp) == 1+b.hi-b.lo
				if ok {
					for j := b.lo; j < b.hi; j++ {
						sub, err := decodeParts(resp[1+j-b.lo])
						if err != nil || len(sub) == 0 {
							ok = false
							break
						}
						out[j] = sub
					}
				}
				if !ok {
					for j := b.lo; j < b.hi; j++ {
						if atomic.LoadInt32(&bad) >= 3 {
							out[j] = [][]byte{[]byte("skipped")}
							continue
						}
						out[j] = call(&w, reqs[j]...)
						if st := string(out[j][0]); st == "timeout" || st == "crash" {
							atomic.AddInt32(&bad, 1)
						}
					}
				}
			}
			if w != nil {
				w.kill()
			}
		}()
	}
	wg.Wait()
	return out
}

func nWorkers(r *hlib.Run) int {
	n := runtime.NumCPU()
	if !r.Thorough && n > 6 {
		n = 6
	}
	if n > 16 {
		n = 16
	}
	if n < 1 {
		n = 1
	}
	return n
}

var totalOracleCases int
var failSeen = map[string]int{}

// failK records an oracle failure and counts it per key (hlib keeps only the first 200 records).
func failK(r *hlib.Run, key, desc, replay string) {
	r.Count("fail:" + key)
	if failSeen[key] < 3 { // a frequent (known) key must not crowd out the others
		failSeen[key]++
		r.Fail(key, desc, replay)
	}
}

func main() {
	if len(os.Args) > 1 && os.Args[1] == "-child" {
		childMain()
		return
	}
	r := hlib.Start("C12")
	if r.IsGen() {
		genTables(r)
		return
	}
	only := os.Getenv("C12_ONLY") // debugging aid: "indent" or "wuffs"
	if only != "wuffs" {
		runIndent(r)
	}
	if only != "indent" {
		runWuffs(r)
	}
	r.Extra("oracle_cases", totalOracleCases)
	r.Finish("indenter: texts from a C-like grammar (strings/escapes, char literals, same-line and multi-line /* */ and back-tick raw strings followed by more code/comments, //, #define continuations, extern/namespace, nested braces/parens, hanging '=' lines, blank-line runs) x options {tabs, spaces n}, plus line chunks of release/c and internal/cgen/base; distinct = distinct (options, text) that is lexically closed and has at least one of: string, comment, raw string, preprocessor line, brace. formatter: std/*.wuffs and token-preserving perturbations (respacing, line breaks, blank lines, comments, explicit semicolons, digit regrouping / hex case); distinct = distinct accepted source text")
}
