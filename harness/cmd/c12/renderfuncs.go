package main

// Per-function correspondence for lang/render (round 2): the helper functions of Render are
// called one by one through lang/render/verif_export_c12.go and compared with the Lean model's
// functions of the same name (ops `mvl`, `cmt`, `tabs`, `tflags`).  They run in this process,
// inside hlib.Guard: none of them loops.

import (
	"fmt"
	"strings"

	"github.com/google/wuffs/lang/render"
	t "github.com/google/wuffs/lang/token"
	"wvh/hlib"
)

// lineGroups splits tokens as Render does: maximal runs of equal Line.
func lineGroups(tokens []t.Token) [][2]int {
	var out [][2]int
	for i := 0; i < len(tokens); {
		j := i + 1
		for j < len(tokens) && tokens[j].Line == tokens[i].Line {
			j++
		}
		out = append(out, [2]int{i, j})
		i = j
	}
	return out
}

func b2s(b bool) string {
	if b {
		return "1"
	}
	return "0"
}

func runRenderFuncs(r *hlib.Run, srcs [][]byte) {
	rnd := r.Rand.Fork()

	// mvl <group index> <hex source>: measureVarNameLength and findColon on one line of a source,
	// with the tokens that follow it (trailing semicolons of the line stripped, as Render does)
	nMvl := 1500
	if r.Thorough {
		nMvl = 20000
	}
	aligned := []string{
		"var a : base.u8\nvar bcd : base.u32\nvar ef : base.u8\n\nvar ghij : base.u8\n",
		"pub struct foo?(\n        a : base.u8,\n        bcd : base.u32,\n        // c\n        efghi : array[4] base.u8,\n)\n",
		"pri const A : base.u8 = 1\npri const BCD : base.u32 = 2\npub const EF : base.u64 = 3\n",
		"var a : base.u8\nx = y[1000000 : 2]\nvar bcd : base.u8\n",
		"var a : base.u8; var bcd : base.u8\nvar ef : base.u8\n",
		"a : b\n: c\nd e : f\ng : h\n",
		"var a : base.u8\nvar bcd base.u32 :\nvar ef : base.u8\n",
		"var a :\nvar bcd : base.u32\n",
	}
	for i := 0; i < nMvl; i++ {
		var src []byte
		if i < len(aligned)*6 {
			src = []byte(aligned[i%len(aligned)])
		} else if len(srcs) > 0 {
			src = srcs[rnd.Intn(len(srcs))]
			if len(src) > 6000 {
				lo := rnd.Intn(len(src) - 6000)
				for lo > 0 && src[lo-1] != '\n' {
					lo--
				}
				src = src[lo : lo+6000]
			}
		} else {
			continue
		}
		tm := &t.Map{}
		tokens, _, err := t.Tokenize(tm, "f.wuffs", src)
		if err != nil || len(tokens) == 0 {
			continue
		}
		groups := lineGroups(tokens)
		gi := rnd.Intn(len(groups))
		if i < len(aligned)*6 {
			gi = (i / len(aligned)) % len(groups)
		}
		g := groups[gi]
		lineTokens := tokens[g[0]:g[1]]
		for len(lineTokens) > 0 && lineTokens[len(lineTokens)-1].ID == t.IDSemicolon {
			lineTokens = lineTokens[:len(lineTokens)-1]
		}
		remaining := tokens[g[1]:]
		out := hlib.Guard(func() string {
			if len(lineTokens) == 0 {
				return "empty"
			}
			return fmt.Sprintf("%d %d", render.VerifMeasureVarNameLength(tm, lineTokens, remaining), render.VerifFindColon(lineTokens))
		})
		r.Op(fmt.Sprintf("mvl %d %s", gi, hlib.Hex(src)), out)
		r.Count("wuffs:mvl-op")
		if !strings.HasPrefix(out, "0 ") && out != "empty" {
			r.Count("wuffs:mvl-op:nonzero")
		}
	}

	// cmt <line> <indent> <otherwiseEmpty> <hex of the comments joined by \n>: appendComment
	texts := []string{"", "", "// x", "//", "// trailing   ", "//\t", "// a // b  ", "   ", "x"}
	for i := 0; i < 600; i++ {
		n := rnd.Intn(6)
		comments := make([]string, n)
		for k := range comments {
			comments[k] = texts[rnd.Intn(len(texts))]
		}
		line := uint32(rnd.Intn(n + 2))
		indent := []int{0, 1, 2, 3, 7, 64, 65, 130, -1, -5}[rnd.Intn(10)]
		oe := rnd.Bool()
		out := hlib.Guard(func() string {
			return "ok " + hlib.Hex([]byte(render.VerifAppendComment(comments, line, indent, oe)))
		})
		r.Op(fmt.Sprintf("cmt %d %d %s %s", line, indent, b2s(oe), hlib.Hex([]byte(strings.Join(comments, "\n")))+fmt.Sprintf(" %d", n)), out)
		r.Count("wuffs:cmt-op")
	}

	// tabs <n>: appendTabs (length and "all spaces")
	for _, n := range []int{-70000, -1, 0, 1, 2, 63, 64, 65, 127, 128, 129, 1000, 65535, 65537} {
		out := hlib.Guard(func() string {
			s := render.VerifAppendTabs(n)
			return fmt.Sprintf("%d %s", len(s), b2s(strings.Trim(s, " ") == ""))
		})
		r.Op(fmt.Sprintf("tabs %d", n), out)
		r.Count("wuffs:tabs-op")
	}

	// tflags <hex text>: the classification of a token text that Render's spacing rule reads
	var tflagTexts []string
	{
		tm := &t.Map{}
		for id := t.ID(1); id < 1024; id++ {
			if s := tm.ByID(id); s != "" && s[0] < 0x80 {
				tflagTexts = append(tflagTexts, s)
			}
		}
	}
	tflagTexts = append(tflagTexts, "x", "foo_bar", "X1", "_", "0", "1", "00", "0x1F", "12_3", "\"str\"", "\"\"", "'a'", "'ab'be", "'\\n'", "zzz9", "If", "iff", "base2", "9a")
	for _, s := range tflagTexts {
		s := s
		out := hlib.Guard(func() string {
			tm := &t.Map{}
			id, err := tm.Insert(s)
			if err != nil {
				return "err"
			}
			return strings.Join([]string{
				b2s(id.IsClose()), b2s(id.IsTightLeft()), b2s(id.IsTightRight()), b2s(id.IsUnaryOp() && id.IsBinaryOp()),
				b2s(id.IsIdent(tm)), b2s(id.IsLiteral(tm)), b2s(id.IsDQStrLiteral(tm)), b2s(id.IsSQStrLiteral(tm)),
				b2s(render.VerifIsCloseIdentLiteral(tm, id)), b2s(render.VerifIsCloseIdentStrLiteralQuestion(tm, id)),
				b2s(id.IsImplicitSemicolon(tm)), b2s(id == t.IDOpenParen), b2s(id == t.IDEq),
			}, "")
		})
		r.Op("tflags "+hlib.Hex([]byte(s)), out)
		r.Count("wuffs:tflags-op")
	}
}
