package main

import "wvh/hlib"

func genTables(r *hlib.Run) {
}
