package main

// The C indenter half of C12.

import (
	"bytes"
	"fmt"
	"os"
	"path/filepath"
	"sort"
	"strconv"
	"strings"

	"github.com/google/wuffs/lib/dumbindent"
	"wvh/hlib"
)

// childIndent: request ["I", "<tabs> <spaces>", src] -> ["ok", out1, out2]
// where out1 = FormatBytes(nil, src, opts), out2 = FormatBytes(nil, out1, opts).
func childIndent(req [][]byte) [][]byte {
	f := strings.Fields(string(req[1]))
	tabs := f[0] == "1"
	spaces, _ := strconv.Atoi(f[1])
	opts := &dumbindent.Options{Spaces: spaces, Tabs: tabs}
	out1 := dumbindent.FormatBytes(nil, req[2], opts)
	out2 := dumbindent.FormatBytes(nil, out1, opts)
	return [][]byte{[]byte("ok"), out1, out2}
}

func isBlank(c byte) bool { return c == ' ' || c == '\t' }

// normalise: the property's observation of a text — every line stripped of
// leading and trailing blanks (space, tab), then trailing blank lines dropped.
func normalise(b []byte) []byte {
	lines := bytes.Split(b, []byte{'\n'})
	for i, l := range lines {
		for len(l) > 0 && isBlank(l[0]) {
			l = l[1:]
		}
		for len(l) > 0 && isBlank(l[len(l)-1]) {
			l = l[:len(l)-1]
		}
		lines[i] = l
	}
	for len(lines) > 0 && len(lines[len(lines)-1]) == 0 {
		lines = lines[:len(lines)-1]
	}
	return bytes.Join(lines, []byte{'\n'})
}

// dropLeadingBlankLines removes the lines before the first non-blank line.
func dropLeadingBlankLines(b []byte) []byte {
	for {
		i := 0
		for i < len(b) && isBlank(b[i]) {
			i++
		}
		if i < len(b) && b[i] == '\n' {
			b = b[i+1:]
			continue
		}
		return b
	}
}

// Lexical classification of a text, written independently of dumbindent.
// "closed": every string, character literal, raw (back-tick) string and
// comment is terminated, under the lexical classes the package documents:
// preprocessor directives (a line whose first non-blank is '#', continued by a
// trailing backslash) are opaque; elsewhere "…" and '…' (backslash escapes) end
// on their line, `…` and /*…*/ end anywhere later, // runs to the end of line.
// "ambiguous": a construct on which a C lexer and that reading could disagree
// (comment or string left open inside a directive, blank line inside a
// continued directive); such texts are not used for the oracle.
type lexInfo struct {
	closed, ambiguous                             bool
	nStr, nCom, nMulti, nRaw, nPre, nBrace, nLine int
	rawThenMore                                   bool // code/comment/raw after the end of a multi-line region, same line
}

func lexScan(src []byte) (li lexInfo) {
	n := len(src)
	i := 0
	preCont := false
	atLineStart := true
	afterMulti := false
	for i < n {
		if atLineStart {
			li.nLine++
			afterMulti = false
			e := bytes.IndexByte(src[i:], '\n')
			if e < 0 {
				e = n
			} else {
				e += i
			}
			j := i
			for j < e && isBlank(src[j]) {
				j++
			}
			if j == e {
				if preCont {
					li.ambiguous = true
					return
				}
				i = e + 1
				continue
			}
			if preCont || src[j] == '#' {
				li.nPre++
				if !selfContained(src[j:e]) {
					li.ambiguous = true
					return
				}
				k := e
				for k > j && isBlank(src[k-1]) {
					k--
				}
				preCont = src[k-1] == '\\'
				i = e + 1
				continue
			}
			i = j
			atLineStart = false
		}
		c := src[i]
		switch {
		case c == '\n':
			i++
			atLineStart = true
		case c == '/' && i+1 < n && src[i+1] == '/':
			li.nCom++
			if afterMulti {
				li.rawThenMore = true
			}
			e := bytes.IndexByte(src[i:], '\n')
			if e < 0 {
				i = n
			} else {
				i += e
			}
		case c == '/' && i+1 < n && src[i+1] == '*':
			if afterMulti {
				li.rawThenMore = true
			}
			e := bytes.Index(src[i+2:], []byte("*/"))
			if e < 0 {
				return
			}
			if bytes.IndexByte(src[i+2:i+2+e], '\n') >= 0 {
				li.nMulti++
				afterMulti = true
			}
			li.nCom++
			i += 2 + e + 2
		case c == '`':
			if afterMulti {
				li.rawThenMore = true
			}
			e := bytes.IndexByte(src[i+1:], '`')
			if e < 0 {
				return
			}
			if bytes.IndexByte(src[i+1:i+1+e], '\n') >= 0 {
				li.nMulti++
				afterMulti = true
			}
			li.nRaw++
			i += 1 + e + 1
		case c == '"' || c == '\'':
			if afterMulti {
				li.rawThenMore = true
			}
			j := i + 1
			ok := false
			for j < n && src[j] != '\n' {
				if src[j] == c {
					ok = true
					break
				} else if src[j] == '\\' {
					if j+1 >= n || src[j+1] == '\n' {
						break
					}
					j += 2
				} else {
					j++
				}
			}
			if !ok || j >= n {
				return
			}
			li.nStr++
			i = j + 1
		default:
			if c == '{' || c == '}' {
				li.nBrace++
			}
			if afterMulti && !isBlank(c) {
				li.rawThenMore = true
			}
			i++
		}
	}
	li.closed = true
	return
}

// selfContained: a directive line, lexed as C, opens nothing it does not close.
func selfContained(l []byte) bool {
	n := len(l)
	for i := 0; i < n; {
		c := l[i]
		switch {
		case c == '/' && i+1 < n && l[i+1] == '/':
			return true
		case c == '/' && i+1 < n && l[i+1] == '*':
			e := bytes.Index(l[i+2:], []byte("*/"))
			if e < 0 {
				return false
			}
			i += 2 + e + 2
		case c == '`':
			e := bytes.IndexByte(l[i+1:], '`')
			if e < 0 {
				return false
			}
			i += 1 + e + 1
		case c == '"' || c == '\'':
			j := i + 1
			ok := false
			for j < n {
				if l[j] == c {
					ok = true
					break
				} else if l[j] == '\\' {
					j += 2
				} else {
					j++
				}
			}
			if !ok || j >= n {
				return false
			}
			i = j + 1
		default:
			i++
		}
	}
	return true
}

// ---- generators

type cgen struct {
	rnd   *hlib.Rand
	depth int
	paren int
}

var idents = []string{"x", "y", "foo", "i", "len", "wuffs_base__u32", "a1", "ptr", "n", "self", "v", "status"}
var ops = []string{"=", "+", "-", "*", "/", "%", "<", ">", "!", "&", "|", ";", ",", ":", ".", "?", "==", "<<", "->", "+=", "/ ", " /", "*/", "* /", "\\", "=", ";"}
var strBits = []string{"a", "b c", "{", "}", "(", ")", "/*", "*/", "//", "'", "`", "\\\"", "\\\\", "\\n", "%d", " ", "\t", "=", "#", "\\'", "\\x41"}
var chrBits = []string{"a", "\"", "{", "}", "(", ")", "\\'", "\\\\", "\\n", "`", "/", "*", "=", "\\0", " "}
var comBits = []string{"a", "todo", "don't", "{", "}", "(", ")", "\"", "'", "`", "//", "/*", "* ", " ", "\t", "=", "\\", "#", "x = y;", "\"str\"", "e.g. `f`"}

func (g *cgen) pick(l []string) string { return l[g.rnd.Intn(len(l))] }

func (g *cgen) blanks(max int) string {
	n := g.rnd.Intn(max + 1)
	var b strings.Builder
	for i := 0; i < n; i++ {
		if g.rnd.Chance(1, 4) {
			b.WriteByte('\t')
		} else {
			b.WriteByte(' ')
		}
	}
	return b.String()
}

func (g *cgen) str() string {
	var b strings.Builder
	b.WriteByte('"')
	for k := g.rnd.Intn(5); k > 0; k-- {
		b.WriteString(g.pick(strBits))
	}
	b.WriteByte('"')
	return b.String()
}

func (g *cgen) chr() string {
	return "'" + g.pick(chrBits) + "'"
}

// comment text that cannot close itself early
func (g *cgen) comText(multi bool) string {
	var b strings.Builder
	for k := g.rnd.Intn(5); k > 0; k-- {
		b.WriteString(g.pick(comBits))
		if multi && g.rnd.Chance(1, 3) {
			b.WriteString(g.blanks(2))
			b.WriteByte('\n')
			b.WriteString(g.blanks(4))
			if g.rnd.Chance(1, 3) {
				b.WriteString("* ")
			}
			if g.rnd.Chance(1, 8) {
				b.WriteString("\n")
			}
			if g.rnd.Chance(1, 8) {
				b.WriteString("#if 0")
			}
		}
	}
	s := b.String()
	s = strings.ReplaceAll(s, "*/", "* /")
	if strings.HasSuffix(s, "*") { // "…*" + "/" would close early — harmless, but keep the text as planned
		s += " "
	}
	return s
}

func (g *cgen) blockComment() string {
	multi := g.rnd.Chance(1, 3)
	s := g.comText(multi)
	if multi && !strings.Contains(s, "\n") {
		s += "\n" + g.blanks(3) + "z"
	}
	return "/*" + s + "*/"
}

func (g *cgen) rawString() string {
	multi := g.rnd.Chance(1, 2)
	s := strings.ReplaceAll(g.comText(multi), "`", "'")
	if multi && !strings.Contains(s, "\n") {
		s += "\n" + g.blanks(3) + "{"
	}
	return "`" + s + "`"
}

func (g *cgen) atom() string {
	switch k := g.rnd.Intn(40); {
	case k < 10:
		return g.pick(idents)
	case k < 14:
		return strconv.Itoa(g.rnd.Intn(300))
	case k < 22:
		return g.pick(ops)
	case k < 25:
		g.depth++
		return "{"
	case k < 28:
		g.depth--
		return "}"
	case k < 31:
		g.paren++
		return "("
	case k < 34:
		g.paren--
		return ")"
	case k < 36:
		return g.str()
	case k < 37:
		return g.chr()
	case k < 38:
		return g.blockComment()
	case k < 39:
		return g.rawString()
	default:
		return "R\"x(" + g.pick([]string{"a", "{", ")", "( /* `", "// '"}) + ")x\"" // R"…" on one line is just a cooked string here
	}
}

func (g *cgen) codeLine() string {
	var b strings.Builder
	if g.rnd.Chance(1, 6) {
		for k := g.rnd.Range(1, 3); k > 0; k-- {
			b.WriteByte('}')
			g.depth--
		}
		if g.rnd.Chance(1, 3) {
			b.WriteString(g.pick([]string{";", " else {", ")", " // end", ","}))
		}
	}
	for k := g.rnd.Intn(7); k > 0; k-- {
		b.WriteString(g.atom())
		if g.rnd.Chance(2, 3) {
			b.WriteString(g.blanks(2))
		}
	}
	switch g.rnd.Intn(12) {
	case 0:
		b.WriteString(" =")
	case 1:
		b.WriteString(" \\")
	case 2:
		b.WriteString(" {")
		g.depth++
	case 3:
		b.WriteString(";")
	case 4:
		b.WriteString(" (")
	case 5:
		b.WriteString(" /")
	}
	if g.rnd.Chance(1, 5) {
		b.WriteString(g.blanks(2) + "//" + strings.ReplaceAll(g.comText(false), "\n", " "))
		if g.rnd.Chance(1, 4) {
			b.WriteString(g.pick([]string{" =", " \\", "{", "/*"}))
		}
	}
	return b.String()
}

func (g *cgen) line() string {
	switch k := g.rnd.Intn(100); {
	case k < 8:
		return "" // blank (possibly with blanks added by the caller)
	case k < 14:
		// preprocessor, maybe with continuation lines
		var b strings.Builder
		b.WriteString(g.pick([]string{"#define X", "#if 0", "#endif", "#include <a.h>", "#pragma { (", "#  define Y(a) {a}", "#define S \"{\"", "#else  // }"}))
		for g.rnd.Chance(1, 3) {
			b.WriteString(g.pick([]string{" \\", "\\", " \\ ", "  \\\t"}))
			b.WriteByte('\n')
			b.WriteString(g.blanks(4))
			b.WriteString(g.pick([]string{"x + y", "{ (", "} )", "\"s\"", "foo(a, b)", "'c' = ", "z", "// c", "/* d */"}))
		}
		return b.String()
	case k < 18:
		return g.pick([]string{"extern \"C\" {", "extern \"C\" int f();", "extern \"C\"{ {", "namespace foo {", "namespace {", "namespace a { namespace b {", "extern int x;", "namespace x = y;", "extern  \"C\" {", "extern \"C\" // {", "namespace /*{*/ q", "e {", "n {"})
	case k < 21:
		return g.pick([]string{"}  // extern \"C\"", "}  // namespace foo", "}}", "};", "})"})
	case k < 24:
		return g.pick(idents) + ":"
	case k < 27:
		return g.pick([]string{"case 0:", "default:", "switch (x) {", "if (a) {", "} else {", "for (i = 0; i < n; i++) {", "do {", "} while (0);", "return (a +", "b);", "x =", "y;"})
	case k < 32:
		// multi-line region followed by more code / another region on its last line
		var b strings.Builder
		b.WriteString(g.pick([]string{"int x; ", "", "a = ", "{ "}))
		if g.rnd.Bool() {
			b.WriteString("/*" + g.comText(true) + "\n" + g.blanks(3) + g.comText(false) + "*/")
		} else {
			b.WriteString("`" + strings.ReplaceAll(g.comText(true), "`", ".") + "\n" + g.blanks(3) + "`")
		}
		for k := g.rnd.Intn(4); k > 0; k-- {
			b.WriteString(g.blanks(2))
			b.WriteString(g.pick([]string{"int y;", "/* c */", "`r`", "\"s\"", "'c'", "{", "}", "(", "// t", g.blockComment(), g.rawString(), "x =", "#", "yyyyyyyyyyyyyyyyyyyyyyyyyyyyyyyyyyyyyy"}))
		}
		return b.String()
	default:
		return g.codeLine()
	}
}

// text builds a lexically closed text of about nLines lines.
func (g *cgen) text(nLines int) []byte {
	var b bytes.Buffer
	// first line: initial indent matters (countInitialOccurrences)
	switch g.rnd.Intn(40) {
	case 0, 4, 5:
		b.WriteString(strings.Repeat(" ", g.rnd.Range(1, 40)))
	case 1, 6, 7:
		b.WriteString(strings.Repeat("\t", g.rnd.Range(1, 20)))
	case 2, 8:
		b.WriteString(" \t ")
	case 3:
		b.WriteString("  \n ") // blanks, then a blank first line: initial indent is counted, first line is dropped
	}
	started := false
	for i := 0; i < nLines; i++ {
		l := g.line()
		if strings.TrimSpace(l) == "" && !started {
			continue // leading blank lines only where planned (they are a known finding)
		}
		started = true
		if l == "" {
			// runs of blank lines (the newLines table has 16 entries)
			k := 1
			if g.rnd.Chance(1, 6) {
				k = g.rnd.Range(2, 20)
			}
			for ; k > 0; k-- {
				b.WriteString(g.blanks(3))
				b.WriteByte('\n')
			}
			continue
		}
		if i > 0 || b.Len() == 0 {
			b.WriteString(g.blanks(6))
		}
		b.WriteString(l)
		b.WriteString(g.blanks(2))
		if i+1 < nLines || g.rnd.Chance(4, 5) {
			b.WriteByte('\n')
		}
	}
	for g.rnd.Chance(1, 4) {
		b.WriteString(g.blanks(3))
		b.WriteByte('\n')
	}
	return b.Bytes()
}

// deep nesting: more than 16 tabs / 32 spaces of indent (appendRepeatedBytes chunks).
func (g *cgen) deepText() []byte {
	var b bytes.Buffer
	n := g.rnd.Range(10, 40)
	for i := 0; i < n; i++ {
		b.WriteString(g.blanks(3) + g.pick([]string{"if (x) {", "{", "f(", "a = {", "while (1) { // {"}) + "\n")
	}
	b.WriteString("x = (1 +\n2);\ny =\n3;\n")
	for i := 0; i < n+2; i++ {
		b.WriteString(g.pick([]string{"}", "}}", ")", "} /* } */"}) + g.blanks(2) + "\n")
	}
	return b.Bytes()
}

// mangle: break a closed text so that something is left open (malformed input;
// correspondence with the model only).
func mangle(rnd *hlib.Rand, s []byte) []byte {
	s = append([]byte(nil), s...)
	switch rnd.Intn(5) {
	case 0:
		return append(s, []byte(" /* open {\n\n  \n")...)
	case 1:
		return append(s, []byte(" `raw (\n x \n\n")...)
	case 2:
		return append(s, []byte("\"str\\")...)
	case 3:
		if len(s) > 0 {
			return s[:rnd.Intn(len(s))]
		}
		return s
	default:
		for k := rnd.Range(1, 4); k > 0 && len(s) > 0; k-- {
			s[rnd.Intn(len(s))] = mangleBytes[rnd.Intn(len(mangleBytes))]
		}
		return s
	}
}

const mangleBytes = "\"'`/*\\\n{}()# \t=exn"

var optChoices = [][2]int{{0, 0}, {0, 2}, {1, 0}, {0, 4}, {0, 1}, {0, 3}, {0, 8}, {0, -1}, {0, 33}, {1, 5}, {0, 40}}

func pickOpts(rnd *hlib.Rand) (tabs int, spaces int) {
	k := rnd.Intn(20)
	if k >= len(optChoices) {
		k = k % 3
	}
	return optChoices[k][0], optChoices[k][1]
}

// ---- corpus: C files of the repository, cut into chunks at lexically safe lines

func cFiles(repo string) []string {
	var out []string
	for _, pat := range []string{"release/c/*.c", "internal/cgen/base/*.c", "internal/cgen/base/*.h"} {
		m, _ := filepath.Glob(filepath.Join(repo, pat))
		out = append(out, m...)
	}
	sort.Strings(out)
	return out
}

// safeLineStarts returns offsets of line starts at which a lexer that started
// at the top of the file is in plain code (not inside a comment/raw/directive).
func safeLineStarts(src []byte) []int {
	var starts []int
	n := len(src)
	i := 0
	preCont := false
	for i < n {
		// at a line start, in code
		e := bytes.IndexByte(src[i:], '\n')
		if e < 0 {
			e = n
		} else {
			e += i
		}
		j := i
		for j < e && isBlank(src[j]) {
			j++
		}
		if !preCont {
			starts = append(starts, i)
		}
		if j < e && (preCont || src[j] == '#') {
			k := e
			for k > j && isBlank(src[k-1]) {
				k--
			}
			preCont = src[k-1] == '\\'
			i = e + 1
			continue
		}
		preCont = false
		// scan the line; a block comment may carry us over several lines
		k := j
		for k < n && src[k] != '\n' {
			c := src[k]
			if c == '/' && k+1 < n && src[k+1] == '/' {
				for k < n && src[k] != '\n' {
					k++
				}
				break
			} else if c == '/' && k+1 < n && src[k+1] == '*' {
				x := bytes.Index(src[k+2:], []byte("*/"))
				if x < 0 {
					return starts
				}
				k += 2 + x + 2
			} else if c == '"' || c == '\'' {
				k++
				for k < n && src[k] != '\n' && src[k] != c {
					if src[k] == '\\' {
						k++
					}
					k++
				}
				if k < n && src[k] == c {
					k++
				}
			} else {
				k++
			}
		}
		i = k + 1
	}
	return starts
}

type icase struct {
	tabs, spaces int
	src          []byte
	origin       string
}

func (c icase) op() string {
	return fmt.Sprintf("format %d %d %s", c.tabs, c.spaces, hlib.Hex(c.src))
}

func runIndent(r *hlib.Run) {
	rnd := r.Rand.Fork()
	nGen, nChunk, nMal := 9000, 300, 1200
	if r.Thorough {
		nGen, nChunk, nMal = 260000, 6000, 30000
	}
	var cases []icase
	add := func(origin string, src []byte, tabs, spaces int) {
		cases = append(cases, icase{tabs, spaces, src, origin})
	}

	// 0. corpus of past failures (run first), and fixed seeds of known shapes
	corpus, _ := filepath.Glob("corpus/C12/*.c")
	sort.Strings(corpus)
	for _, f := range corpus {
		if b, err := os.ReadFile(f); err == nil {
			for _, o := range optChoices[:3] {
				add("corpus", b, o[0], o[1])
			}
		}
	}
	for _, s := range []string{
		"int x; /* a\nb */ int y; /* c */",
		"int x; /* a\nb */ int yyyyyyyyyyyyyyyyyyyyyyyyyy; /* c */\n",
		"a = `q\nr` z; `s` /* t */ // u\n{\nb\n}\n",
		"{\n/* a\n*/ } /* b\n*/ x; `c\n` y\n}\n",
		"", " ", "\n", "\t\n \n", "x", "  x", "}", "{", "#", "\\", "=", "/", "//", "'", "\"", "`", "/*",
	} {
		for _, o := range optChoices[:3] {
			add("fixed", []byte(s), o[0], o[1])
		}
	}

	// 1. grammar texts
	g := &cgen{rnd: rnd}
	for i := 0; i < nGen; i++ {
		g.depth, g.paren = 0, 0
		var src []byte
		switch k := rnd.Intn(40); {
		case k == 0:
			src = g.deepText()
		case k < 4:
			src = g.text(rnd.Range(20, 60))
		default:
			src = g.text(rnd.Range(1, 12))
		}
		if rnd.Chance(1, 60) {
			src = append([]byte(strings.Repeat("\n", rnd.Range(1, 3))), src...) // leading blank lines
		}
		t, s := pickOpts(rnd)
		add("grammar", src, t, s)
	}

	// 2. chunks of real C files
	files := cFiles(r.Repo)
	type fileInfo struct {
		name   string
		src    []byte
		starts []int
	}
	var fis []fileInfo
	for _, f := range files {
		b, err := os.ReadFile(f)
		if err != nil {
			continue
		}
		fis = append(fis, fileInfo{filepath.Base(f), b, safeLineStarts(b)})
	}
	for i := 0; i < nChunk && len(fis) > 0; i++ {
		fi := fis[rnd.Intn(len(fis))]
		if len(fi.starts) < 2 {
			continue
		}
		a := rnd.Intn(len(fi.starts))
		for a+1 < len(fi.starts) && len(bytes.TrimSpace(fi.src[fi.starts[a]:fi.starts[a+1]])) == 0 {
			a++ // do not start a chunk with a blank line
		}
		b := a + rnd.Range(1, 120)
		end := len(fi.src)
		if b < len(fi.starts) {
			end = fi.starts[b]
		}
		t, s := pickOpts(rnd)
		add("chunk:"+fi.name, fi.src[fi.starts[a]:end], t, s)
	}

	// 3. malformed: something left open, random bytes
	for i := 0; i < nMal; i++ {
		var src []byte
		if rnd.Chance(1, 5) {
			src = rnd.Bytes(rnd.Intn(40))
			for j := range src {
				if rnd.Chance(1, 2) {
					src[j] = mangleBytes[rnd.Intn(len(mangleBytes))]
				}
			}
		} else {
			g.depth, g.paren = 0, 0
			src = mangle(rnd, g.text(rnd.Range(1, 8)))
		}
		t, s := pickOpts(rnd)
		add("malformed", src, t, s)
	}

	// whole files: implementation only (too long for an op line to be useful)
	nWhole := 0
	for _, fi := range fis {
		if !r.Thorough && len(fi.src) > 600000 && fi.name != "wuffs-unsupported-snapshot.c" {
			continue
		}
		cases = append(cases, icase{0, 2, fi.src, "whole:" + fi.name})
		nWhole++
	}

	// thorough: the C that the working tree's `wuffs gen` emits for base + std/ (the generated
	// parts have been through dumbindent in internal/cgen) as further whole-file inputs
	nGenC := 0
	if r.Thorough {
		if sb, err := hlib.GenStd(r.Repo); err != nil {
			r.Note("GenStd failed, generated-C fixed-point check skipped: " + err.Error())
		} else {
			m, _ := filepath.Glob(filepath.Join(sb.Scratch, "gen", "c", "*", "*.c"))
			m2, _ := filepath.Glob(filepath.Join(sb.Scratch, "gen", "c", "*.c"))
			m = append(m, m2...)
			sort.Strings(m)
			for _, f := range m {
				if b, err := os.ReadFile(f); err == nil {
					cases = append(cases, icase{0, 2, b, "gen:" + filepath.Base(f)})
					nGenC++
				}
			}
			sb.Cleanup()
		}
	}
	r.Extra("indent_generated_c_files", nGenC)

	// evaluate
	reqs := make([][][]byte, len(cases))
	for i, c := range cases {
		reqs[i] = [][]byte{[]byte("I"), []byte(fmt.Sprintf("%d %d", c.tabs, c.spaces)), c.src}
	}
	resps := runAll(nWorkers(r), reqs)

	oracleCases := 0
	for i, c := range cases {
		resp := resps[i]
		status := string(resp[0])
		if status == "skipped" {
			r.Count("indent:skipped-after-hangs")
			continue
		}
		whole := strings.HasPrefix(c.origin, "whole:") || strings.HasPrefix(c.origin, "gen:")
		li := lexScan(c.src)
		r.Count("indent:origin:" + strings.SplitN(c.origin, ":", 2)[0])
		replay := c.op()
		if whole {
			replay = "format 0 2 <contents of " + c.origin + ">"
		}
		if status != "ok" {
			// the indenter must terminate (on every input: FormatBytes has no error path)
			key := "hang:format"
			if status == "crash" {
				key = "crash:format-out-of-memory-or-fatal"
			} else if status == "panic" {
				key = "panic:format"
			}
			extra := ""
			if len(resp) > 1 {
				extra = " (" + string(resp[1]) + ")"
			}
			failK(r, key, "dumbindent.FormatBytes did not return normally: "+status+extra+"; lexically closed="+fmt.Sprint(li.closed), replay)
			if !whole {
				r.Op(c.op(), "err "+status)
			}
			continue
		}
		out1, out2 := resp[1], resp[2]
		if !whole {
			r.Op(c.op(), "ok "+hlib.Hex(out1))
		}
		if li.ambiguous {
			r.Count("indent:lex:ambiguous-skipped")
			continue
		}
		if !li.closed {
			r.Count("indent:lex:open-no-oracle")
			continue
		}
		r.Count("indent:lex:closed")
		oracleCases++
		if !whole {
			// the hypothesis of the model's idempotence theorem (ghost Indent.lexClosed) must
			// hold for every text this harness classifies as lexically closed
			r.Op(fmt.Sprintf("closed %d %d %s", c.tabs, c.spaces, hlib.Hex(c.src)), "1")
			// … and so must the predicate on the text alone from which the theorem
			// indent_idempotent_terminated derives it (Indent.delimitersTerminated)
			r.Op("term "+hlib.Hex(c.src), "11")
			r.Count("indent:term-op")
		}
		if li.nMulti > 0 {
			r.Count("indent:has-multiline-region")
		}
		if li.rawThenMore {
			r.Count("indent:has-code-after-multiline-region")
		}
		if li.nPre > 0 {
			r.Count("indent:has-preproc")
		}
		if li.nStr > 0 {
			r.Count("indent:has-string")
		}
		if li.nStr+li.nCom+li.nRaw+li.nPre+li.nBrace > 0 {
			if whole {
				r.Nontrivial(c.origin)
			} else {
				r.Nontrivial(fmt.Sprintf("%d %d %x", c.tabs, c.spaces, c.src))
			}
		}
		if bytes.Equal(out1, c.src) {
			r.Count("indent:already-formatted")
		} else if strings.HasPrefix(c.origin, "gen:") {
			// not a failure: wuffs-base.c embeds the hand-written, clang-formatted base code
			r.Count("indent:generated-c-not-a-fixed-point:" + c.origin[4:])
		}
		// (a) white space only
		if !bytes.Equal(normalise(out1), normalise(c.src)) {
			if bytes.Equal(normalise(out1), normalise(dropLeadingBlankLines(c.src))) {
				failK(r, "ws:leading-blank-lines-dropped", "FormatBytes removes blank lines at the START of the input too (trimLeadingWhiteSpaceAndNewLines); the property only allows trailing blank lines to go", replay)
			} else {
				failK(r, "ws:non-blank-bytes-changed", "normalise(FormatBytes(src)) != normalise(src): "+firstDiff(normalise(out1), normalise(c.src)), replay)
			}
		}
		// (b) idempotent
		if !bytes.Equal(out1, out2) {
			failK(r, "idem:second-pass-differs", "FormatBytes(FormatBytes(src)) != FormatBytes(src): "+firstDiff(out2, out1), replay)
		}
		if i < 3 {
			r.Sample(c.op())
		}
	}
	r.Extra("indent_oracle_cases", oracleCases)
	totalOracleCases += oracleCases
	r.Extra("indent_whole_files", nWhole)
}

func firstDiff(a, b []byte) string {
	i := 0
	for i < len(a) && i < len(b) && a[i] == b[i] {
		i++
	}
	lo := i - 20
	if lo < 0 {
		lo = 0
	}
	ha, hb := i+20, i+20
	if ha > len(a) {
		ha = len(a)
	}
	if hb > len(b) {
		hb = len(b)
	}
	return fmt.Sprintf("first difference at byte %d: got …%q, want …%q", i, a[lo:ha], b[lo:hb])
}
