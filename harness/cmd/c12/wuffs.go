package main

// The Wuffs formatter half of C12: token.Tokenize + parse.Parse + render.Render,
// driven exactly like cmd/wuffsfmt's `do`.

import (
	"bytes"
	"fmt"
	"math/big"
	"os"
	"path/filepath"
	"sort"
	"strings"
	"time"

	"github.com/google/wuffs/lang/parse"
	"github.com/google/wuffs/lang/render"
	t "github.com/google/wuffs/lang/token"
	"wvh/hlib"
)

// ---- child side

type item struct {
	comment bool
	text    string
}

// items: the interleaved sequence of tokens and comments in source order.
func items(tm *t.Map, tokens []t.Token, comments []string) []item {
	var out []item
	ci := 0
	flush := func(upto int) { // emit comments of lines < upto
		for ; ci < upto && ci < len(comments); ci++ {
			if comments[ci] != "" {
				out = append(out, item{true, strings.TrimRight(comments[ci], " ")})
			}
		}
	}
	for _, tok := range tokens {
		flush(int(tok.Line)) // a comment on the token's own line follows the line's tokens
		out = append(out, item{false, tm.ByID(tok.ID)})
	}
	flush(len(comments))
	return out
}

func isNum(s string) bool { return s != "" && '0' <= s[0] && s[0] <= '9' }

func numValue(s string) *big.Int {
	s = strings.ReplaceAll(s, "_", "")
	base := 10
	if len(s) >= 2 && s[0] == '0' {
		switch s[1] {
		case 'x', 'X':
			base, s = 16, s[2:]
		case 'b', 'B':
			base, s = 2, s[2:]
		}
	}
	if s == "" && base != 10 {
		return new(big.Int) // "0x" / "0B": a prefix without digits is a token; it has no digit to change
	}
	v, ok := new(big.Int).SetString(s, base)
	if !ok {
		return nil
	}
	return v
}

func sameItem(a, b item) bool {
	if a.comment != b.comment {
		return false
	}
	if a.text == b.text {
		return true
	}
	if !a.comment && isNum(a.text) && isNum(b.text) {
		x, y := numValue(a.text), numValue(b.text)
		return x != nil && y != nil && x.Cmp(y) == 0
	}
	return false
}

func parseOpts() *parse.Options { return &parse.Options{AllowDoubleUnderscoreNames: true} }

// childWuffs: ["W", src] -> [status, out, failKey, failDesc, fmtLine]
// status: reject-tokenize | reject-parse | reject-render | ok
// fmtLine: what Tokenize+Render alone (no parse gate) make of src — "ok <hex>" or "reject" —
// for the correspondence with the Lean model, which has no parser.
func childWuffs(req [][]byte) [][]byte {
	src := req[1]
	tm := &t.Map{}
	tokens, comments, err := t.Tokenize(tm, "f.wuffs", src)
	if err != nil {
		return [][]byte{[]byte("reject-tokenize"), nil, nil, nil, []byte("reject")}
	}
	buf := &bytes.Buffer{}
	rerr := render.Render(buf, tm, tokens, comments)
	fmtLine := []byte("reject")
	if rerr == nil {
		fmtLine = []byte("ok " + hlib.Hex(buf.Bytes()))
	}
	if _, err := parse.Parse(tm, "f.wuffs", tokens, parseOpts()); err != nil {
		return [][]byte{[]byte("reject-parse"), nil, nil, nil, fmtLine}
	}
	if rerr != nil {
		return [][]byte{[]byte("reject-render"), nil, nil, nil, fmtLine}
	}
	out := append([]byte(nil), buf.Bytes()...)
	fail := func(key, desc string) [][]byte {
		return [][]byte{[]byte("ok"), out, []byte(key), []byte(desc), fmtLine}
	}

	// 1. the output re-tokenizes to the same tokens and comments
	tm2 := &t.Map{}
	tokens2, comments2, err := t.Tokenize(tm2, "f.wuffs", out)
	if err != nil {
		if strings.Contains(err.Error(), "too many lines") {
			return fail("retok:too-many-lines", "token.Tokenize(render output): "+err.Error())
		}
		return fail("retok:output-does-not-tokenize", "token.Tokenize(render output): "+err.Error())
	}
	a, b := items(tm, tokens, comments), items(tm2, tokens2, comments2)
	for i := 0; i < len(a) || i < len(b); i++ {
		if i >= len(a) || i >= len(b) || !sameItem(a[i], b[i]) {
			x, y := "<end>", "<end>"
			if i < len(a) {
				x = a[i].text
			}
			if i < len(b) {
				y = b[i].text
			}
			kind := "token"
			if (i < len(a) && a[i].comment) || (i < len(b) && b[i].comment) {
				kind = "comment"
			}
			return fail("retok:"+kind+"-differs", fmt.Sprintf("item %d of the token/comment sequence: input has %q, output has %q", i, x, y))
		}
	}
	// 2. it parses
	if _, err := parse.Parse(tm2, "f.wuffs", tokens2, parseOpts()); err != nil {
		return fail("reparse:output-does-not-parse", "parse.Parse(render output): "+err.Error())
	}
	// 3. formatting again changes nothing
	buf2 := &bytes.Buffer{}
	if err := render.Render(buf2, tm2, tokens2, comments2); err != nil {
		return fail("idem:second-render-fails", "render.Render(render output): "+err.Error())
	}
	if !bytes.Equal(buf2.Bytes(), out) {
		return fail("idem:second-render-differs", "wuffsfmt(wuffsfmt(src)) != wuffsfmt(src): "+firstDiff(buf2.Bytes(), out))
	}
	return [][]byte{[]byte("ok"), out, nil, nil, fmtLine}
}

// ---- parent side: lexemes of a Wuffs source, for perturbation

type lexKind int

const (
	lxWs lexKind = iota
	lxNl
	lxComment
	lxStr
	lxWord
	lxPunct
)

type lexeme struct {
	kind lexKind
	text string
}

var punctTable []string // multi-byte operators, longest first

func initPunct() {
	tm := &t.Map{}
	seen := map[string]bool{}
	for id := t.ID(1); id < 0xB0; id++ {
		s := tm.ByID(id)
		if s == "" || isAlpha(s[0]) || seen[s] {
			continue
		}
		seen[s] = true
		punctTable = append(punctTable, s)
	}
	sort.Slice(punctTable, func(i, j int) bool {
		if len(punctTable[i]) != len(punctTable[j]) {
			return len(punctTable[i]) > len(punctTable[j])
		}
		return punctTable[i] < punctTable[j]
	})
}

func isAlpha(c byte) bool { return c == '_' || ('a' <= c && c <= 'z') || ('A' <= c && c <= 'Z') }
func isAlnum(c byte) bool { return isAlpha(c) || ('0' <= c && c <= '9') }

func wlex(src []byte) []lexeme {
	var out []lexeme
	n := len(src)
	for i := 0; i < n; {
		c := src[i]
		j := i + 1
		kind := lxPunct
		switch {
		case c == '\n':
			kind = lxNl
		case c <= ' ':
			kind = lxWs
			for j < n && src[j] <= ' ' && src[j] != '\n' {
				j++
			}
		case c == '/' && j < n && src[j] == '/':
			kind = lxComment
			for j < n && src[j] != '\n' {
				j++
			}
		case c == '"' || c == '\'':
			kind = lxStr
			for j < n && src[j] != '\n' {
				if src[j] == c {
					j++
					break
				}
				if src[j] == '\\' && j+1 < n && src[j+1] != '\n' {
					j++
				}
				j++
			}
			if c == '\'' && j+1 < n && (src[j] == 'b' || src[j] == 'l') && src[j+1] == 'e' {
				j += 2
			}
		case isAlnum(c):
			kind = lxWord
			for j < n && isAlnum(src[j]) {
				j++
			}
		default:
			for _, p := range punctTable {
				if bytes.HasPrefix(src[i:], []byte(p)) {
					j = i + len(p)
					break
				}
			}
		}
		out = append(out, lexeme{kind, string(src[i:j])})
		i = j
	}
	return out
}

func unlex(ls []lexeme) []byte {
	var b bytes.Buffer
	for _, l := range ls {
		b.WriteString(l.text)
	}
	return b.Bytes()
}

// endsStatement: would a newline after this lexeme insert an implicit semicolon?
func endsStatement(l lexeme) bool {
	switch l.kind {
	case lxWord, lxStr:
		return true
	case lxPunct:
		return l.text == ")" || l.text == "]" || l.text == "}" || l.text == "}}"
	}
	return false
}

func randWs(rnd *hlib.Rand, max int) string {
	n := rnd.Range(1, max)
	var b strings.Builder
	for i := 0; i < n; i++ {
		if rnd.Chance(1, 5) {
			b.WriteByte('\t')
		} else {
			b.WriteByte(' ')
		}
	}
	return b.String()
}

var commentTexts = []string{"//", "// x", "//x", "// trailing spaces   ", "// tab\t", "// a // b", "// \"quote", "// { ( [", "//\tx", "// ~mod+ 0xFF", "// été", "///"}

func regroup(rnd *hlib.Rand, s string) string {
	prefix := ""
	body := s
	hex := false
	if len(s) >= 2 && s[0] == '0' && (s[1] == 'x' || s[1] == 'X' || s[1] == 'b' || s[1] == 'B') {
		hex = s[1] == 'x' || s[1] == 'X'
		prefix = s[:2]
		body = s[2:]
		if rnd.Bool() {
			if prefix[1] >= 'a' {
				prefix = "0" + string(prefix[1]-32)
			} else {
				prefix = "0" + string(prefix[1]+32)
			}
		}
	}
	body = strings.ReplaceAll(body, "_", "")
	if body == "" {
		return s
	}
	var b strings.Builder
	b.WriteString(prefix)
	if prefix != "" && rnd.Chance(1, 4) {
		b.WriteByte('_')
	}
	for i := 0; i < len(body); i++ {
		c := body[i]
		if hex && rnd.Bool() {
			if 'a' <= c && c <= 'f' {
				c -= 32
			} else if 'A' <= c && c <= 'F' {
				c += 32
			}
		}
		b.WriteByte(c)
		if i+1 < len(body) && rnd.Chance(1, 3) {
			b.WriteByte('_')
		}
	}
	return b.String()
}

// thresholdNum: a numeric literal where the tokenizer's rules bite: a leading zero kept apart
// from more digits by an underscore ("0_1": without the underscore it is the rejected legacy
// octal "01"), and literals whose text, or whose re-grouped text (one more byte per 6 decimal /
// 4 hex or binary digits), is about maxTokenSize = 1023 bytes long.
func thresholdNum(rnd *hlib.Rand) string {
	digits := func(set string, n int) string {
		var b strings.Builder
		for i := 0; i < n; i++ {
			c := set[rnd.Intn(len(set))]
			if i == 0 && c == '0' {
				c = '1'
			}
			b.WriteByte(c)
		}
		return b.String()
	}
	switch rnd.Intn(8) {
	case 0:
		return "0_" + digits("0123456789", rnd.Range(1, 8))
	case 1:
		return "0_0" + []string{"", "_0", "_1_2"}[rnd.Intn(3)]
	case 2: // decimal: n + (n-1)/6 crosses 1023 at n = 877 / 878
		return digits("0123456789", rnd.Range(874, 881))
	case 3: // hex: 2 + n + (n-1)/4 crosses 1023 at n = 817 / 818
		return []string{"0x", "0X"}[rnd.Intn(2)] + digits("0123456789abcdefABCDEF", rnd.Range(814, 821))
	case 4:
		return []string{"0b", "0B"}[rnd.Intn(2)] + digits("01", rnd.Range(814, 821))
	case 5: // as long as a token may be (and one more: rejected by the tokenizer)
		return digits("0123456789", rnd.Range(1020, 1024))
	case 6:
		return "0x" + digits("0123456789abcdef", rnd.Range(1018, 1022))
	default: // maximal raw length, mostly underscores: the re-grouped text is shorter
		var b strings.Builder
		for b.Len() < 1021 {
			b.WriteString(digits("123456789", 1))
			b.WriteByte('_')
		}
		b.WriteString("7")
		return b.String()
	}
}

// perturb applies a few token-preserving (in intent) edits to a source.
func perturb(rnd *hlib.Rand, src []byte, r *hlib.Run) []byte {
	ls := wlex(src)
	nEdits := rnd.Range(1, 4)
	for e := 0; e < nEdits; e++ {
		kind := rnd.Intn(12)
		r.Count(fmt.Sprintf("wuffs:perturb:%d", kind))
		var out []lexeme
		lineStart := true
		hasCommentOnLine := func(i int) bool {
			for j := i; j < len(ls) && ls[j].kind != lxNl; j++ {
				if ls[j].kind == lxComment {
					return true
				}
			}
			return false
		}
		var prev lexeme // previous non-ws lexeme on this line
		prev.kind = lxNl
		for i := 0; i < len(ls); i++ {
			l := ls[i]
			p := func(num, den int) bool { return rnd.Chance(num, den) }
			switch kind {
			case 0: // respace between lexemes
				if l.kind == lxWs && !lineStart && p(1, 2) {
					l.text = randWs(rnd, 3)
				}
			case 1: // re-indent lines
				if l.kind == lxWs && lineStart && p(1, 2) {
					l.text = randWs(rnd, 9)
				} else if lineStart && l.kind != lxWs && l.kind != lxNl && p(1, 6) {
					out = append(out, lexeme{lxWs, randWs(rnd, 9)})
				}
			case 2: // trailing blanks
				if l.kind == lxNl && p(1, 4) {
					out = append(out, lexeme{lxWs, randWs(rnd, 3)})
				}
			case 3: // blank lines: add / remove
				if l.kind == lxNl && p(1, 10) {
					for k := rnd.Range(1, 3); k > 0; k-- {
						out = append(out, lexeme{lxNl, "\n"})
					}
				} else if l.kind == lxNl && lineStart && p(1, 2) {
					lineStart = true
					continue
				}
			case 4: // full-line comments
				if lineStart && l.kind != lxNl && p(1, 12) {
					out = append(out, lexeme{lxWs, strings.Repeat(" ", rnd.Intn(9))}, lexeme{lxComment, commentTexts[rnd.Intn(len(commentTexts))]}, lexeme{lxNl, "\n"})
				}
			case 5: // trailing comments
				if l.kind == lxNl && !lineStart && !hasCommentBefore(out) && p(1, 8) {
					out = append(out, lexeme{lxWs, strings.Repeat(" ", rnd.Intn(4))}, lexeme{lxComment, commentTexts[rnd.Intn(len(commentTexts))]})
				}
			case 6: // insert a space where there was none / remove one between word and punct
				if !lineStart && l.kind != lxWs && l.kind != lxNl && prev.kind != lxNl && i > 0 && ls[i-1].kind != lxWs && p(1, 10) {
					out = append(out, lexeme{lxWs, " "})
				} else if l.kind == lxWs && !lineStart && i+1 < len(ls) && ((prev.kind == lxWord && ls[i+1].kind == lxPunct) || (prev.kind == lxPunct && ls[i+1].kind == lxWord)) && p(1, 10) {
					continue
				}
			case 7: // break a line after a token that cannot end a statement
				if l.kind == lxWs && !lineStart && prev.kind == lxPunct && !endsStatement(prev) && i+1 < len(ls) && ls[i+1].kind != lxComment && ls[i+1].kind != lxNl && p(1, 8) {
					l = lexeme{lxNl, "\n"}
					out = append(out, l)
					lineStart = true
					prev = lexeme{kind: lxNl}
					continue
				}
			case 8: // join lines (explicit ';' where the newline stood for one)
				if l.kind == lxNl && !lineStart && !hasCommentBefore(out) && i+1 < len(ls) && ls[i+1].kind != lxNl && !hasCommentOnLine(i+1) && p(1, 10) {
					if endsStatement(prev) {
						out = append(out, lexeme{lxPunct, ";"})
					}
					out = append(out, lexeme{lxWs, " "})
					// drop the next line's indentation
					if i+1 < len(ls) && ls[i+1].kind == lxWs {
						i++
					}
					continue
				}
			case 9: // explicit semicolons
				if l.kind == lxNl && !lineStart && endsStatement(prev) && !hasCommentBefore(out) && p(1, 6) {
					out = append(out, lexeme{lxPunct, ";"})
					if p(1, 4) {
						out = append(out, lexeme{lxPunct, ";"})
					}
				}
			case 10: // numeric literals
				if l.kind == lxWord && '0' <= l.text[0] && l.text[0] <= '9' && p(1, 2) {
					l.text = regroup(rnd, l.text)
				}
			case 11: // numeric literals at the tokenizer's thresholds (leading "0_", maximal length)
				if l.kind == lxWord && '0' <= l.text[0] && l.text[0] <= '9' && p(1, 3) {
					l.text = thresholdNum(rnd)
				}
			}
			out = append(out, l)
			if l.kind == lxNl {
				lineStart = true
				prev = lexeme{kind: lxNl}
			} else if l.kind != lxWs {
				lineStart = false
				prev = l
			}
		}
		ls = out
	}
	b := unlex(ls)
	switch rnd.Intn(30) {
	case 0:
		b = bytes.ReplaceAll(b, []byte("\n"), []byte("\r\n"))
	case 1:
		b = bytes.TrimRight(b, "\n")
	case 2:
		b = append(b, []byte("// last, no newline")...)
	case 3:
		b = append([]byte("\n\n// first\n\n\n"), b...)
	}
	return b
}

func hasCommentBefore(out []lexeme) bool {
	for j := len(out) - 1; j >= 0 && out[j].kind != lxNl; j-- {
		if out[j].kind == lxComment {
			return true
		}
	}
	return false
}

// topLevelDecls cuts a formatted std source at lines that start a top-level
// declaration (column 0 `pub`/`pri`/`use`), keeping leading comments with the
// declaration that follows.
func topLevelDecls(src []byte) [][]byte {
	lines := bytes.SplitAfter(src, []byte{'\n'})
	var decls [][]byte
	var cur []byte
	started := false
	for _, l := range lines {
		isStart := bytes.HasPrefix(l, []byte("pub ")) || bytes.HasPrefix(l, []byte("pri ")) || bytes.HasPrefix(l, []byte("use "))
		if isStart && started {
			decls = append(decls, cur)
			cur = nil
		}
		if isStart {
			started = true
		}
		cur = append(cur, l...)
	}
	if len(cur) > 0 {
		decls = append(decls, cur)
	}
	return decls
}

var handWritten = []string{
	"pub struct foo?(\n        a : base.u8,\n        bcd : base.u32,\n        ef : array[4] base.u8,\n)\n",
	"pri const A : base.u8 = 1\npri const BCD : base.u32 = 0x_ff_FF\npub const EF : base.u64 = 0b1010_10101\n",
	"pub func foo.bar!(x: base.u32) base.u32 {\n    var a : base.u32\n    var bcd : base.u32[..= 10]\n\n    var e : base.u8\n    a = args.x ~mod+ 1_0 ; bcd = 1\n    if a < 2 { return 0 } else if a > 3 { return 1 }\n    return a - -this.bcd + (+1)\n}\n",
	"pub func foo.baz?(src: base.io_reader) {\n    var c : base.u8\n    while true,\n            inv this.x > 0,\n    {\n        c = args.src.read_u8?()\n        assert c < 10 via \"a < b: a < c; c <= b\"(c: 10)\n    } endwhile\n}\n",
	"pub status \"#bad\"\npri status \"@note\"\nuse \"std/crc32\"\n",
	"pub func foo.q() {\n    iterate (p = args.p)(length: 8, advance: 8, unroll: 1) {\n        x = p[0] as base.u32\n    } else (length: 1, advance: 1, unroll: 1) {\n    }\n    choose f = [a, b]\n    this.t[0 .. 4].copy_from_slice!(s: this.u[.. 2])\n    io_bind (io: w, data: b[1 ..], history_position: 0) {\n    }\n}\n",
	"pub func foo.r() {\n    if ((a == 1) and (b <> 2)) or (not c) {\n        x =\n                1 +\n                2\n        y = f(\n                a: 1,\n                b: 2)\n    }\n    {{\n    z = 1\n    }}\n}\n",
	"// only a comment",
	"",
	"\n\n",
	"}\n",
	"{ }\n}\n",
	"pub func foo.bar() {\n}\n}\n",
	"pub const X : base.u32 = 00x1\n",
	"pub const X : base.u32 = 0_1\npub const Y : base.u32 = 0_0\npub const Z : base.u32 = 0X\n",
	"pub const X : base.u32 = " + strings.Repeat("1", 877) + "\npub const Y : base.u32 = " + strings.Repeat("2", 878) + "\n",
	"pub const X : base.u32 = 0X" + strings.Repeat("a", 817) + "\npub const Y : base.u32 = 0x" + strings.Repeat("b", 818) + "\npub const Y : base.u32 = 0B" + strings.Repeat("1", 818) + "\n",
	"pub const X : base.u32 = " + strings.Repeat("9", 1023) + "\n",
	"pub const X : base.u32 = 1234567\npub const YY : base.u32 = 0xabcdef0123\n// c\npub const Z : base.u32 = 0b1\n",
}

type wcase struct {
	src    []byte
	origin string
}

// maxLinesSource: as many lines as the tokenizer allows (maxLine = 1048575), none of them blank,
// the last one ended by an explicit ";" instead of a newline.  The formatter accepts it; its
// output ends with a newline, which token.Tokenize counts as one line too many.
const maxLinesDesc = "1048574 lines `use \"x\"` and a last line `use \"x\";` without a newline (python3 -c 'import sys; sys.stdout.write(\"use \\\"x\\\"\\n\"*1048574 + \"use \\\"x\\\";\")' | wuffsfmt | wuffsfmt)"

func maxLinesSource() []byte {
	const maxLine = 1048575
	var b bytes.Buffer
	for i := 0; i < maxLine-1; i++ {
		b.WriteString("use \"x\"\n")
	}
	b.WriteString("use \"x\";")
	return b.Bytes()
}

func runWuffs(r *hlib.Run) {
	initPunct()
	rnd := r.Rand.Fork()
	// the one huge case runs beside the others, on a worker of its own with a long watchdog;
	// if the machine is too busy for it, it is skipped and counted, not failed
	maxLinesCh := make(chan [][]byte, 1)
	go func() {
		var w *worker
		resp := callT(&w, 15*time.Minute, []byte("W"), maxLinesSource())
		if w != nil {
			w.kill()
		}
		maxLinesCh <- resp
	}()
	var files []string
	for _, pat := range []string{"std/*/*.wuffs", "test/*.wuffs", "hello-wuffs-c/*.wuffs", "lang/*/*.wuffs", "test/data/*.wuffs"} {
		m, _ := filepath.Glob(filepath.Join(r.Repo, pat))
		files = append(files, m...)
	}
	sort.Strings(files)
	var srcs [][]byte
	var decls [][]byte
	var cases []wcase
	for _, f := range files {
		b, err := os.ReadFile(f)
		if err != nil {
			continue
		}
		srcs = append(srcs, b)
		decls = append(decls, topLevelDecls(b)...)
		cases = append(cases, wcase{b, "file:" + strings.TrimPrefix(f, r.Repo+"/")})
	}
	corpus, _ := filepath.Glob("corpus/C12/*.wuffs")
	sort.Strings(corpus)
	for _, f := range corpus {
		if b, err := os.ReadFile(f); err == nil {
			cases = append(cases, wcase{b, "corpus"})
		}
	}
	for _, s := range handWritten {
		cases = append(cases, wcase{[]byte(s), "hand"})
		decls = append(decls, []byte(s))
	}
	nFile, nDecl := 40, 2200
	if r.Thorough {
		nFile, nDecl = 600, 50000
	}
	for i := 0; i < nFile && len(srcs) > 0; i++ {
		cases = append(cases, wcase{perturb(rnd, srcs[rnd.Intn(len(srcs))], r), "perturbed-file"})
	}
	for i := 0; i < nDecl && len(decls) > 0; i++ {
		var b []byte
		for k := rnd.Range(1, 3); k > 0; k-- {
			b = append(b, decls[rnd.Intn(len(decls))]...)
			if len(b) > 0 && b[len(b)-1] != '\n' {
				b = append(b, '\n')
			}
		}
		cases = append(cases, wcase{perturb(rnd, b, r), "perturbed-decls"})
	}

	// numeric literal texts: ops for the model (appendNum)
	numCases := []string{"0", "1", "12", "123456", "1234567", "1_2_3", "0x0", "0xff", "0XFF", "0xabcdef012", "0b1", "0B10101", "0b_1", "0x_f", "999999999999", "0xdead_beef", "1_", "0x", "0b", "00", "0xg", "1__2"}
	for i := 0; i < 3000; i++ {
		base := []string{"", "0x", "0X", "0b", "0B"}[rnd.Intn(5)]
		digits := "0123456789"
		if base == "0x" || base == "0X" {
			digits = "0123456789abcdefABCDEF"
		} else if base != "" {
			digits = "01"
		}
		var sb strings.Builder
		sb.WriteString(base)
		n := rnd.Range(1, 26)
		if base == "" {
			sb.WriteByte("123456789"[rnd.Intn(9)])
		}
		for k := 0; k < n; k++ {
			if rnd.Chance(1, 5) {
				sb.WriteByte('_')
			}
			sb.WriteByte(digits[rnd.Intn(len(digits))])
		}
		numCases = append(numCases, sb.String())
	}
	for _, s := range numCases {
		out := hlib.Guard(func() string { return "ok " + hlib.Hex([]byte(render.VerifAppendNum(s))) })
		r.Op("num "+hlib.Hex([]byte(s)), out)
		r.Count("wuffs:num-op")
		// own oracle: grouping preserves the value (when the text is a well-formed literal)
		if v := numValue(s); v != nil && strings.HasPrefix(out, "ok ") {
			w := numValue(string(hlib.UnHex(out[3:])))
			if w == nil || w.Cmp(v) != 0 {
				failK(r, "num:value-changed", "appendNum changed the value of a numeric literal", "num "+hlib.Hex([]byte(s))+"  ("+s+")")
			}
		}
	}

	runRenderFuncs(r, srcs)

	reqs := make([][][]byte, len(cases))
	for i, c := range cases {
		reqs[i] = [][]byte{[]byte("W"), c.src}
	}
	resps := runAll(nWorkers(r), reqs)
	accepted := 0
	for i, c := range cases {
		resp := resps[i]
		status := string(resp[0])
		o := strings.SplitN(c.origin, ":", 2)[0]
		r.Count("wuffs:origin:" + o)
		r.Count("wuffs:status:" + status)
		replay := "wuffsfmt " + hlib.Hex(c.src) + "\n--- source (" + c.origin + ") ---\n" + string(c.src)
		if len(resp) >= 5 && len(c.src) <= 48<<10 {
			r.Op("fmt "+hlib.Hex(c.src), string(resp[4]))
			r.Count("wuffs:fmt-op")
		}
		switch status {
		case "ok":
		case "reject-tokenize", "reject-parse", "reject-render", "skipped":
			continue
		default: // panic, timeout, crash: wuffsfmt must reject or format, not die
			extra := ""
			if len(resp) > 1 {
				extra = " (" + string(resp[1]) + ")"
			}
			failK(r, status+":wuffsfmt", "Tokenize/Parse/Render did not return normally: "+status+extra, replay)
			continue
		}
		accepted++
		r.Nontrivial(string(c.src))
		if len(c.src) <= 48<<10 {
			// the hypotheses of Props.C12.render_retokenizes_partial and render_idempotent (streamOK, and
			// numColonFree: no numeric literal directly before a ":") must hold for whatever the real
			// Tokenize + Parse + Render accept (evaluated by the Lean driver on Tokenize's model)
			r.Op("rok "+hlib.Hex(c.src), "1")
			r.Count("wuffs:rok-op")
		}
		if bytes.Equal(resp[1], c.src) {
			r.Count("wuffs:already-formatted")
		}
		if strings.HasPrefix(c.origin, "file:") && !bytes.Equal(resp[1], c.src) {
			r.Count("wuffs:repo-file-not-a-fixed-point")
		}
		if len(resp) >= 4 && len(resp[2]) > 0 {
			key := string(resp[2])
			if failSeen[key] < 3 && len(c.src) > 300 {
				// shrink the replay: delete line ranges while the same key keeps failing
				small := minimiseWuffs(c.src, key)
				replay = "wuffsfmt " + hlib.Hex(small) + "\n--- reduced source ---\n" + string(small) +
					"\n--- original (" + c.origin + "), hex ---\n" + hlib.Hex(c.src)
			}
			failK(r, key, string(resp[3]), replay)
		}
	}
	if resp := <-maxLinesCh; string(resp[0]) == "ok" {
		accepted++
		r.Count("wuffs:max-lines:accepted")
		if len(resp) >= 4 && len(resp[2]) > 0 {
			failK(r, string(resp[2]), string(resp[3]), "wuffsfmt-generated "+maxLinesDesc)
		}
	} else {
		r.Count("wuffs:max-lines:" + string(resp[0]))
	}
	r.Extra("wuffs_oracle_cases", accepted)
	totalOracleCases += accepted
}
