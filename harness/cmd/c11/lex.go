package main

// A small lexeme splitter used only by the mutators (it never decides
// anything about the property): it cuts Wuffs source text into lexemes —
// white space, newlines, comments, strings, words, numbers, operators — such
// that joining them gives the text back.

import (
	"sort"
	"strings"

	t "github.com/google/wuffs/lang/token"
)

type lexKind uint8

const (
	lkSpace lexKind = iota
	lkNewline
	lkComment
	lkString
	lkWord
	lkNumber
	lkOp
	lkOther
)

type lexeme struct {
	s string
	k lexKind
}

var (
	opStrings   []string // operator spellings, longest first
	keywords    []string // alphabetic built-ins in the keyword / operator-word ranges
	typeWords   []string // base type names
	builtinIdts []string // other built-in identifiers
	allBuiltins []string
)

func isAlpha(c byte) bool { return ('A' <= c && c <= 'Z') || ('a' <= c && c <= 'z') || c == '_' }
func isDigit(c byte) bool { return '0' <= c && c <= '9' }

func initVocabulary() {
	r := t.VerifRanges()
	for id, name := range t.VerifBuiltInsByID() {
		if name == "" {
			continue
		}
		allBuiltins = append(allBuiltins, name)
		switch {
		case !isAlpha(name[0]) && !isDigit(name[0]):
			opStrings = append(opStrings, name)
		case uint32(id) < r["BuiltInIdent"][0]:
			keywords = append(keywords, name)
		case r["NumType"][0] <= uint32(id) && uint32(id) <= r["NumType"][1]:
			typeWords = append(typeWords, name)
		default:
			builtinIdts = append(builtinIdts, name)
		}
	}
	sort.SliceStable(opStrings, func(i, j int) bool { return len(opStrings[i]) > len(opStrings[j]) })
	typeWords = append(typeWords, "bool", "io_reader", "io_writer", "status", "empty_struct", "utility", "range_ie_u32", "rect_ie_u32", "token_reader", "token_writer")
}

func splitLexemes(src string) []lexeme {
	out := make([]lexeme, 0, len(src)/3+1)
	for i := 0; i < len(src); {
		c := src[i]
		j := i + 1
		k := lkOther
		switch {
		case c == '\n':
			k = lkNewline
		case c <= ' ':
			for j < len(src) && src[j] <= ' ' && src[j] != '\n' {
				j++
			}
			k = lkSpace
		case c == '/' && j < len(src) && src[j] == '/':
			for j < len(src) && src[j] != '\n' {
				j++
			}
			k = lkComment
		case c == '"' || c == '\'':
			for j < len(src) && src[j] != c && src[j] != '\n' {
				j++
			}
			if j < len(src) && src[j] == c {
				j++
			}
			if c == '\'' && j+1 < len(src) && (src[j] == 'b' || src[j] == 'l') && src[j+1] == 'e' {
				j += 2
			}
			k = lkString
		case isAlpha(c):
			for j < len(src) && (isAlpha(src[j]) || isDigit(src[j])) {
				j++
			}
			k = lkWord
		case isDigit(c):
			for j < len(src) && (isAlpha(src[j]) || isDigit(src[j])) {
				j++
			}
			k = lkNumber
		default:
			for _, op := range opStrings {
				if strings.HasPrefix(src[i:], op) {
					j = i + len(op)
					k = lkOp
					break
				}
			}
		}
		out = append(out, lexeme{src[i:j], k})
		i = j
	}
	return out
}

func joinLexemes(l []lexeme) string {
	n := 0
	for _, x := range l {
		n += len(x.s)
	}
	b := strings.Builder{}
	b.Grow(n)
	for _, x := range l {
		b.WriteString(x.s)
	}
	return b.String()
}
