package main

// The implementation side of the C11 check: one source "case" is pushed
// through the real toolchain packages in-process, the way cmd/wuffsfmt
// (Tokenize → Parse → Render) and cmd/wuffs-c gen (generate.Do: Tokenize →
// Parse → check.Check → cgen) call them, every stage under recover().
// This code runs in a child process (see worker.go) so that a fatal error
// (stack overflow, out of memory) or a hang cannot take the run down.

import (
	"fmt"
	"path/filepath"
	"runtime"
	"strings"
	"syscall"

	"github.com/google/wuffs/lang/check"
	"github.com/google/wuffs/lang/parse"
	"github.com/google/wuffs/lang/render"
	"github.com/google/wuffs/lang/verifc11"

	a "github.com/google/wuffs/lang/ast"
	t "github.com/google/wuffs/lang/token"
)

type SrcFile struct {
	Name string
	Src  []byte
}

type Case struct {
	ID         int
	Gen        string // generator label (statistics)
	Pkg        string
	Files      []SrcFile
	Primary    int  // index of the file that goes through the wuffsfmt path and the model tie
	Tie        bool // compute the tok/parse tie lines
	Expr       bool // also push the primary file through parse.ParseExpr (tie line `pexpr`)
	KeepC      bool // return the generated C (for gcc)
	TimeoutSec int  // watchdog override (0 = default)
}

type Stage struct {
	Name   string // fmt.tokenize fmt.parse fmt.render gen.tokenize gen.parse gen.check gen.cgen
	Status string // ok | err | panic
	Msg    string // error text / panic text (first line, truncated)
	Site   string // panic site: file.go:func of the top /repo frame
	Class  string // panic message class
	CPUms  int64
}

type Result struct {
	ID          int
	Stages      []Stage
	TokLine     string
	ParseLine   string
	ParseLine0  string // parse with nil options (the wuffs-c path), single-file cases
	ExprLine    string // parse.ParseExpr on the primary file's tokens
	ASTHeight   int    // nodes on the longest root-to-leaf path of the parsed primary file (0 = not parsed)
	Accepted    bool
	C           []byte
	NTokens     int
	RenderBytes int64
}

type countWriter struct{ n int64 }

func (w *countWriter) Write(p []byte) (int, error) {
	w.n += int64(len(p))
	return len(p), nil
}

func cpuMillis() int64 {
	var ru syscall.Rusage
	if err := syscall.Getrusage(syscall.RUSAGE_SELF, &ru); err != nil {
		return 0
	}
	return (ru.Utime.Sec+ru.Stime.Sec)*1000 + int64(ru.Utime.Usec+ru.Stime.Usec)/1000
}

func firstLine(s string, max int) string {
	if i := strings.IndexByte(s, '\n'); i >= 0 {
		s = s[:i]
	}
	if len(s) > max {
		s = s[:max]
	}
	return s
}

// panicClass maps a panic value's text to a small stable word.
func panicClass(msg string) string {
	switch {
	case strings.Contains(msg, "nil pointer dereference"):
		return "nil-deref"
	case strings.Contains(msg, "index out of range"):
		return "index-out-of-range"
	case strings.Contains(msg, "slice bounds out of range"):
		return "slice-out-of-range"
	case strings.Contains(msg, "interface conversion"):
		return "interface-conversion"
	case strings.Contains(msg, "divide by zero"):
		return "divide-by-zero"
	case strings.Contains(msg, "makeslice"):
		return "makeslice"
	case strings.Contains(msg, "assignment to entry in nil map"):
		return "nil-map"
	}
	b := []byte(firstLine(msg, 40))
	for i, c := range b {
		if !(('a' <= c && c <= 'z') || ('A' <= c && c <= 'Z') || ('0' <= c && c <= '9')) {
			b[i] = '-'
		}
	}
	return "msg-" + strings.Trim(string(b), "-")
}

// panicSite must be called from a deferred function while panicking: it
// returns file.go:func of the innermost frame that belongs to /repo.
func panicSite() string {
	pcs := make([]uintptr, 64)
	n := runtime.Callers(2, pcs)
	frames := runtime.CallersFrames(pcs[:n])
	helper := ""
	for {
		f, more := frames.Next()
		if strings.HasPrefix(f.Function, "github.com/google/wuffs/") {
			fn := f.Function[strings.LastIndexByte(f.Function, '/')+1:]
			pkg := fn
			if i := strings.IndexByte(fn, '.'); i >= 0 {
				pkg = fn[:i]
			}
			// "parse.(*parser).parseIterateAssignNode" -> "parseIterateAssignNode"
			if i := strings.LastIndexByte(fn, '.'); i >= 0 {
				fn = fn[i+1:]
			}
			site := filepath.Base(f.File) + ":" + fn
			// An accessor of lang/ast or lang/token (e.g. (*Expr).Operator on a nil
			// node) is not the culprit: name its caller too.
			if (pkg == "ast" || pkg == "token") && helper == "" && more {
				helper = site
				continue
			}
			if helper != "" {
				return site + "(" + helper + ")"
			}
			return site
		}
		if !more {
			break
		}
	}
	if helper != "" {
		return helper
	}
	return "unknown"
}

// astHeight is Props/C11.lean's `Parse.height` on the real tree: the number of nodes on the
// longest root-to-leaf path (computed with an explicit stack: the point is that recursion
// over an arbitrarily deep tree is what must not be needed).
func astHeight(root *a.Node) int {
	type item struct {
		n *a.Node
		d int
	}
	best := 0
	stack := []item{{root, 1}}
	for len(stack) > 0 {
		it := stack[len(stack)-1]
		stack = stack[:len(stack)-1]
		if it.n == nil {
			continue
		}
		if it.d > best {
			best = it.d
		}
		r := it.n.AsRaw()
		for _, o := range r.SubNodes() {
			if o != nil {
				stack = append(stack, item{o, it.d + 1})
			}
		}
		for _, l := range r.SubLists() {
			for _, o := range l {
				if o != nil {
					stack = append(stack, item{o, it.d + 1})
				}
			}
		}
	}
	return best
}

type progressFunc func(stage string)

func runStage(name string, res *Result, progress progressFunc, f func() error) (ok bool) {
	progress(name)
	st := Stage{Name: name}
	t0 := cpuMillis()
	func() {
		defer func() {
			if e := recover(); e != nil {
				st.Status = "panic"
				st.Msg = firstLine(fmt.Sprint(e), 300)
				st.Class = panicClass(st.Msg)
				st.Site = panicSite()
			}
		}()
		if err := f(); err != nil {
			st.Status = "err"
			st.Msg = firstLine(err.Error(), 300)
		} else {
			st.Status = "ok"
		}
	}()
	st.CPUms = cpuMillis() - t0
	res.Stages = append(res.Stages, st)
	return st.Status == "ok"
}

// useFiles maps "std/crc32.wuffs" to the text `wuffs gen` wrote under
// gen/wuffs/ (what generate.resolveUse reads from $WUFFSROOT/gen/wuffs).
var useFiles = map[string][]byte{}

func resolveUse(usePath string) ([]byte, error) {
	if b, ok := useFiles[usePath]; ok {
		return b, nil
	}
	return nil, fmt.Errorf("open gen/wuffs/%s: no such file or directory", usePath)
}

func runCase(c *Case, progress progressFunc) *Result {
	res := &Result{ID: c.ID}

	// ---- cmd/wuffsfmt's do(): Tokenize, Parse (double underscores allowed), Render.
	if c.Primary >= 0 && c.Primary < len(c.Files) {
		f := c.Files[c.Primary]
		tm := &t.Map{}
		var tokens []t.Token
		var comments []string
		var terr error
		tokOK := runStage("fmt.tokenize", res, progress, func() error {
			tokens, comments, terr = t.Tokenize(tm, f.Name, f.Src)
			return terr
		})
		if c.Tie {
			if res.Stages[len(res.Stages)-1].Status == "panic" {
				res.TokLine = "panic"
			} else {
				res.TokLine = tokLine(tm, tokens, comments, terr, len(f.Src))
			}
		}
		res.NTokens = len(tokens)
		if tokOK && c.Expr {
			// parse.ParseExpr: the package's other entry point (an expression on its own).
			var e *a.Expr
			var eerr error
			runStage("expr.parse", res, progress, func() error {
				e, eerr = parse.ParseExpr(tm, f.Name, tokens, nil)
				return eerr
			})
			if res.Stages[len(res.Stages)-1].Status == "panic" {
				res.ExprLine = "panic"
			} else {
				res.ExprLine = exprLine(e, eerr, f.Name)
			}
		}
		if tokOK {
			var file *a.File
			var perr error
			parseOK := runStage("fmt.parse", res, progress, func() error {
				file, perr = parse.Parse(tm, f.Name, tokens, &parse.Options{AllowDoubleUnderscoreNames: true})
				return perr
			})
			if c.Tie {
				if res.Stages[len(res.Stages)-1].Status == "panic" {
					res.ParseLine = "panic"
				} else {
					res.ParseLine = parseLine(tm, file, perr, f.Name)
				}
			}
			if parseOK {
				res.ASTHeight = astHeight(file.AsNode())
			}
			if parseOK {
				// cmd/wuffsfmt renders into a bytes.Buffer; here the bytes are only
				// counted (deep nesting makes the output quadratic in the input:
				// 4 spaces per level per line), which keeps the children small.
				cw := &countWriter{}
				runStage("fmt.render", res, progress, func() error {
					return render.Render(cw, tm, tokens, comments)
				})
				res.RenderBytes = cw.n
			}
		} else if c.Tie {
			res.ParseLine = "notok"
		}
	}

	// ---- cmd/wuffs-c gen: generate.Do → ParseFiles, check.Check, cgen's generator.
	tm := &t.Map{}
	files := []*a.File(nil)
	for _, f := range c.Files {
		var tokens []t.Token
		if !runStage("gen.tokenize", res, progress, func() (err error) {
			tokens, _, err = t.Tokenize(tm, f.Name, f.Src)
			return err
		}) {
			return res
		}
		var file *a.File
		var perr error
		parseOK := runStage("gen.parse", res, progress, func() error {
			file, perr = parse.Parse(tm, f.Name, tokens, nil)
			return perr
		})
		if c.Tie && len(c.Files) == 1 && res.Stages[len(res.Stages)-1].Status != "panic" {
			// a single file: the map is fresh, so IDs are comparable with the model's
			res.ParseLine0 = parseLine(tm, file, perr, f.Name)
		}
		if !parseOK {
			return res
		}
		files = append(files, file)
	}
	if !runStage("gen.check", res, progress, func() error {
		_, err := check.Check(tm, files, resolveUse)
		return err
	}) {
		return res
	}
	var csrc []byte
	if !runStage("gen.cgen", res, progress, func() (err error) {
		csrc, err = verifc11.Generate(c.Pkg, tm, files, false)
		return err
	}) {
		return res
	}
	res.Accepted = true
	if c.KeepC {
		res.C = csrc
	}
	return res
}
