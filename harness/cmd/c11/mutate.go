package main

// Token-, line- and tree-level mutations of Wuffs source text.

import (
	"strings"

	"wvh/hlib"
)

var interestingNumbers = []string{
	"0", "1", "2", "7", "8", "255", "256", "257", "0xFF", "0x100", "65535", "65536", "0xFFFF_FFFF",
	"0x1_0000_0000", "0xFFFF_FFFF_FFFF_FFFF", "0x1_0000_0000_0000_0000", "4294967296",
	"18446744073709551616", "99999999999999999999999999999999999999", "0b101", "0x_1", "1_", "00", "0x", "63", "64", "31", "32",
}

var interestingStrings = []string{
	`"#bad"`, `"$short read"`, `"@note"`, `"ok"`, `""`, `"#"`, `"x"`, `'a'`, `'ab'be`, `'ab'le`, `'\x00'`, `'\n'`, `''`, `'abcd'le`,
	`"std/crc32"`, `"a < b: a < c; c <= b"`, `"a < (b + c): a < c; 0 <= b"`,
}

func nonSpaceIdx(l []lexeme) []int {
	idx := make([]int, 0, len(l))
	for i, x := range l {
		if x.k != lkSpace && x.k != lkNewline && x.k != lkComment {
			idx = append(idx, i)
		}
	}
	return idx
}

func pick(r *hlib.Rand, l []string) string { return l[r.Intn(len(l))] }

func wordsOf(l []lexeme, k lexKind) []string {
	seen := map[string]bool{}
	out := []string(nil)
	for _, x := range l {
		if x.k == k && !seen[x.s] {
			seen[x.s] = true
			out = append(out, x.s)
		}
	}
	return out
}

// randomWord returns a replacement lexeme, by default of the same category as old.
func randomWord(r *hlib.Rand, l []lexeme, old lexeme) string {
	cat := old.k
	if r.Chance(1, 5) {
		cat = []lexKind{lkWord, lkNumber, lkOp, lkString}[r.Intn(4)]
	}
	switch cat {
	case lkNumber:
		if r.Chance(1, 3) {
			if ws := wordsOf(l, lkNumber); len(ws) > 0 {
				return pick(r, ws)
			}
		}
		return pick(r, interestingNumbers)
	case lkString:
		if r.Chance(1, 2) {
			if ws := wordsOf(l, lkString); len(ws) > 0 {
				return pick(r, ws)
			}
		}
		return pick(r, interestingStrings)
	case lkOp:
		return pick(r, opStrings)
	default:
		switch r.Intn(6) {
		case 0:
			return pick(r, keywords)
		case 1:
			return pick(r, typeWords)
		case 2:
			return pick(r, builtinIdts)
		default:
			if ws := wordsOf(l, lkWord); len(ws) > 0 {
				return pick(r, ws)
			}
			return pick(r, allBuiltins)
		}
	}
}

func without(l []lexeme, i, j int) []lexeme { // remove [i, j)
	out := make([]lexeme, 0, len(l)-(j-i))
	out = append(out, l[:i]...)
	return append(out, l[j:]...)
}

func insertAt(l []lexeme, i int, ins ...lexeme) []lexeme {
	out := make([]lexeme, 0, len(l)+len(ins))
	out = append(out, l[:i]...)
	out = append(out, ins...)
	return append(out, l[i:]...)
}

var sp = lexeme{" ", lkSpace}

func mutateToken(r *hlib.Rand, l []lexeme) ([]lexeme, string) {
	idx := nonSpaceIdx(l)
	if len(idx) == 0 {
		return insertAt(l, 0, lexeme{pick(r, allBuiltins), lkWord}), "tok-insert"
	}
	i := idx[r.Intn(len(idx))]
	switch r.Intn(6) {
	case 0:
		return without(l, i, i+1), "tok-delete"
	case 1:
		return insertAt(l, i, l[i], sp), "tok-duplicate"
	case 2:
		p := r.Intn(len(idx))
		q := p + 1
		if q >= len(idx) {
			q = p
		}
		out := append([]lexeme(nil), l...)
		out[idx[p]], out[idx[q]] = out[idx[q]], out[idx[p]]
		return out, "tok-swap"
	case 3:
		return insertAt(l, i, lexeme{randomWord(r, l, lexeme{"", []lexKind{lkWord, lkNumber, lkOp, lkString}[r.Intn(4)]}), lkOther}, sp), "tok-insert"
	default:
		out := append([]lexeme(nil), l...)
		out[i] = lexeme{randomWord(r, l, l[i]), l[i].k}
		return out, "tok-replace"
	}
}

func lineStarts(l []lexeme) []int { // lexeme index where each line starts
	st := []int{0}
	for i, x := range l {
		if x.k == lkNewline && i+1 < len(l) {
			st = append(st, i+1)
		}
	}
	return st
}

func mutateLine(r *hlib.Rand, l []lexeme) ([]lexeme, string) {
	st := lineStarts(l)
	if len(st) < 2 {
		return mutateToken(r, l)
	}
	end := func(i int) int {
		if i+1 < len(st) {
			return st[i+1]
		}
		return len(l)
	}
	i := r.Intn(len(st))
	switch r.Intn(6) {
	case 0:
		return without(l, st[i], end(i)), "line-delete"
	case 1:
		seg := append([]lexeme(nil), l[st[i]:end(i)]...)
		return insertAt(l, st[i], seg...), "line-duplicate"
	case 2:
		if i+1 >= len(st) {
			i = 0
		}
		a := append([]lexeme(nil), l[st[i]:end(i)]...)
		b := append([]lexeme(nil), l[st[i+1]:end(i+1)]...)
		out := append([]lexeme(nil), l[:st[i]]...)
		out = append(out, b...)
		out = append(out, a...)
		return append(out, l[end(i+1):]...), "line-swap"
	case 3:
		seg := append([]lexeme(nil), l[st[i]:end(i)]...)
		out := without(l, st[i], end(i))
		st2 := lineStarts(out)
		return insertAt(out, st2[r.Intn(len(st2))], seg...), "line-move"
	case 4:
		return append([]lexeme(nil), l[:st[i]]...), "line-truncate"
	default:
		// join with the next line
		e := end(i)
		if e > 0 && l[e-1].k == lkNewline {
			out := append([]lexeme(nil), l[:e-1]...)
			out = append(out, sp)
			return append(out, l[e:]...), "line-join"
		}
		return without(l, st[i], end(i)), "line-delete"
	}
}

type group struct{ open, close int } // lexeme indexes of a matched bracket pair

func openerOf(s string) string {
	switch s {
	case ")":
		return "("
	case "]":
		return "["
	case "}":
		return "{"
	case "}}":
		return "{{"
	}
	return ""
}

func findGroups(l []lexeme) []group {
	var stack []int
	var out []group
	for i, x := range l {
		if x.k != lkOp {
			continue
		}
		switch x.s {
		case "(", "[", "{", "{{":
			stack = append(stack, i)
		case ")", "]", "}", "}}":
			if n := len(stack); n > 0 && l[stack[n-1]].s == openerOf(x.s) {
				out = append(out, group{stack[n-1], i})
				stack = stack[:n-1]
			}
		}
	}
	return out
}

func mutateTree(r *hlib.Rand, l []lexeme) ([]lexeme, string) {
	gs := findGroups(l)
	if len(gs) == 0 {
		return mutateLine(r, l)
	}
	g := gs[r.Intn(len(gs))]
	switch r.Intn(8) {
	case 0: // delete the whole group
		return without(l, g.open, g.close+1), "tree-delete"
	case 1: // empty the group
		return without(l, g.open+1, g.close), "tree-empty"
	case 2: // duplicate the group right after itself
		seg := append([]lexeme(nil), l[g.open:g.close+1]...)
		return insertAt(l, g.close+1, seg...), "tree-duplicate"
	case 3: // replace by another group with the same bracket
		cands := []group(nil)
		for _, h := range gs {
			if h != g && l[h.open].s == l[g.open].s {
				cands = append(cands, h)
			}
		}
		if len(cands) == 0 {
			return without(l, g.open+1, g.close), "tree-empty"
		}
		h := cands[r.Intn(len(cands))]
		seg := append([]lexeme(nil), l[h.open:h.close+1]...)
		out := append([]lexeme(nil), l[:g.open]...)
		out = append(out, seg...)
		return append(out, l[g.close+1:]...), "tree-replace"
	case 4: // nest the group's content n levels deeper
		n := []int{1, 2, 3, 10, 70, 300}[r.Intn(6)]
		o, c := l[g.open], l[g.close]
		out := append([]lexeme(nil), l[:g.open]...)
		for i := 0; i < n; i++ {
			out = append(out, o)
		}
		out = append(out, l[g.open:g.close+1]...)
		for i := 0; i < n; i++ {
			out = append(out, c)
		}
		return append(out, l[g.close+1:]...), "tree-nest"
	case 5: // unwrap: drop the brackets, keep the content
		out := without(l, g.close, g.close+1)
		return without(out, g.open, g.open+1), "tree-unwrap"
	case 6: // delete the statement(s) the group's line range covers
		a, b := g.open, g.close
		for a > 0 && l[a-1].k != lkNewline {
			a--
		}
		for b < len(l) && l[b].k != lkNewline {
			b++
		}
		if b < len(l) {
			b++
		}
		return without(l, a, b), "tree-delete-stmt"
	default: // move the group somewhere else
		seg := append([]lexeme(nil), l[g.open:g.close+1]...)
		out := without(l, g.open, g.close+1)
		idx := nonSpaceIdx(out)
		if len(idx) == 0 {
			return out, "tree-delete"
		}
		return insertAt(out, idx[r.Intn(len(idx))], seg...), "tree-move"
	}
}

// mutate applies 1–3 mutations and returns the new text and the labels.
func mutate(r *hlib.Rand, src string) (string, string) {
	l := splitLexemes(src)
	n := []int{1, 1, 1, 1, 2, 2, 3}[r.Intn(7)]
	labels := []string(nil)
	for i := 0; i < n; i++ {
		var lab string
		switch r.Intn(11) {
		case 0, 1, 2, 3, 4:
			l, lab = mutateToken(r, l)
		case 5, 6:
			l, lab = mutateLine(r, l)
		case 7:
			var txt string
			txt, lab = mutateBytes(r, joinLexemes(l))
			l = splitLexemes(txt)
		default:
			l, lab = mutateTree(r, l)
		}
		labels = append(labels, lab)
	}
	return joinLexemes(l), strings.Join(labels, "+")
}
