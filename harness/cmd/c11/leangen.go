package main

func genLeanTables() string { return "-- placeholder\n" }
