package main

// Child workers: the harness re-executes itself with "-child <genroot>"; the
// child reads gob-encoded Cases on stdin and answers with progress markers
// and Results on stdout. The parent keeps a pool of children, notices a dead
// child (fatal error: stack overflow / out of memory) or a stuck one
// (watchdog) and attributes it to the case in flight.

import (
	"bufio"
	"encoding/gob"
	"fmt"
	"io"
	"os"
	"os/exec"
	"path/filepath"
	"runtime/debug"
	"strconv"
	"strings"
	"sync"
	"syscall"
	"time"
)

// maxStackForRun is what the children's debug.SetMaxStack gets (set in main).
var maxStackForRun = defaultMaxStack

type childMsg struct {
	Kind   string // "progress" | "result"
	Stage  string
	Result *Result
}

const (
	childMemLimit = 6 << 30 // RLIMIT_AS of a child
	// Go's default maximum stack (1 GB on 64-bit) is what cmd/wuffs-c and
	// cmd/wuffsfmt run with: the thorough tier keeps exactly that (and nests
	// 3 000 000 deep). The quick tier gives the children 1/8 of it and nests
	// 800 000 deep instead: recursion that is proportional to the input size
	// overflows either way (≥ 160 bytes of stack per level there, ≥ 333 here),
	// recursion bounded by the ast.Max…Depth constants never does, and the
	// inputs are a quarter of the size.
	defaultMaxStack = 1000000000
	quickMaxStack   = 125000000
)

// childMaxStack is set by the parent through C11_MAXSTACK.
func childMaxStack() int {
	if v, err := strconv.Atoi(os.Getenv("C11_MAXSTACK")); err == nil && v > 0 {
		return v
	}
	return defaultMaxStack
}

func loadUseFiles(genroot string) {
	dir := filepath.Join(genroot, "gen", "wuffs")
	filepath.Walk(dir, func(path string, info os.FileInfo, err error) error {
		if err != nil || info.IsDir() {
			return nil
		}
		rel, _ := filepath.Rel(dir, path)
		if b, err := os.ReadFile(path); err == nil {
			useFiles[filepath.ToSlash(rel)] = b
		}
		return nil
	})
}

func childMain(genroot string) {
	debug.SetMaxStack(childMaxStack())
	lim := syscall.Rlimit{Cur: childMemLimit, Max: childMemLimit}
	syscall.Setrlimit(syscall.RLIMIT_AS, &lim)
	loadUseFiles(genroot)
	in := gob.NewDecoder(bufio.NewReaderSize(os.Stdin, 1<<20))
	w := bufio.NewWriterSize(os.Stdout, 1<<20)
	out := gob.NewEncoder(w)
	for {
		c := &Case{}
		if err := in.Decode(c); err != nil {
			return
		}
		res := runCase(c, func(stage string) {
			out.Encode(&childMsg{Kind: "progress", Stage: stage})
			w.Flush()
		})
		out.Encode(&childMsg{Kind: "result", Result: res})
		w.Flush()
	}
}

// Crash describes a case that killed or wedged its child.
type Crash struct {
	Kind   string // "hang" | "fatal"
	Stage  string // stage in progress
	Class  string // stack-overflow | out-of-memory | other
	Site   string
	Detail string
}

type tailBuf struct {
	mu   sync.Mutex
	head []byte
	tail []byte
}

func (b *tailBuf) Write(p []byte) (int, error) {
	b.mu.Lock()
	defer b.mu.Unlock()
	if room := 6000 - len(b.head); room > 0 {
		if room > len(p) {
			room = len(p)
		}
		b.head = append(b.head, p[:room]...)
	}
	b.tail = append(b.tail, p...)
	if len(b.tail) > 4000 {
		b.tail = b.tail[len(b.tail)-4000:]
	}
	return len(p), nil
}

func (b *tailBuf) String() string {
	b.mu.Lock()
	defer b.mu.Unlock()
	return string(b.head)
}

type child struct {
	cmd    *exec.Cmd
	enc    *gob.Encoder
	stdin  io.WriteCloser
	w      *bufio.Writer
	msgs   chan *childMsg
	stderr *tailBuf
}

func startChild(genroot string) (*child, error) {
	exe, err := os.Executable()
	if err != nil {
		return nil, err
	}
	cmd := exec.Command(exe, "-child", genroot)
	cmd.Env = append(os.Environ(), "GOTRACEBACK=single", "GOMAXPROCS=2", "C11_MAXSTACK="+strconv.Itoa(maxStackForRun))
	stdin, err := cmd.StdinPipe()
	if err != nil {
		return nil, err
	}
	stdout, err := cmd.StdoutPipe()
	if err != nil {
		return nil, err
	}
	c := &child{cmd: cmd, stdin: stdin, stderr: &tailBuf{}, msgs: make(chan *childMsg, 16)}
	cmd.Stderr = c.stderr
	if err := cmd.Start(); err != nil {
		return nil, err
	}
	c.w = bufio.NewWriterSize(stdin, 1<<20)
	c.enc = gob.NewEncoder(c.w)
	go func() {
		dec := gob.NewDecoder(bufio.NewReaderSize(stdout, 1<<20))
		for {
			m := &childMsg{}
			if err := dec.Decode(m); err != nil {
				close(c.msgs)
				return
			}
			c.msgs <- m
		}
	}()
	return c, nil
}

func (c *child) kill() {
	c.cmd.Process.Kill()
	c.stdin.Close()
	for range c.msgs {
	}
	c.cmd.Wait()
}

func classifyFatal(stderr string) (class, site string) {
	class = "other"
	switch {
	case strings.Contains(stderr, "stack overflow") || strings.Contains(stderr, "stack exceeds"):
		class = "stack-overflow"
	case strings.Contains(stderr, "out of memory") || strings.Contains(stderr, "cannot allocate memory"):
		class = "out-of-memory"
	case strings.Contains(stderr, "concurrent map"):
		class = "concurrent-map"
	}
	site = "unknown"
	for _, line := range strings.Split(stderr, "\n") {
		if strings.HasPrefix(line, "github.com/google/wuffs/") {
			fn := line[strings.LastIndexByte(line, '/')+1:]
			if i := strings.IndexByte(fn, '('); i >= 0 && !strings.HasPrefix(fn[i:], "(*") {
				fn = fn[:i]
			} else if j := strings.LastIndexByte(fn, '('); j > 0 {
				fn = fn[:j]
			}
			if i := strings.LastIndexByte(fn, '.'); i >= 0 {
				fn = fn[i+1:]
			}
			site = fn
			break
		}
	}
	return class, site
}

// caseTimeout is the wall-clock watchdog for one case: generous (machine is
// shared); the CPU-time oracle (10 s per 64 KiB) is evaluated separately.
func caseTimeout(c *Case) time.Duration {
	if c.TimeoutSec > 0 {
		return time.Duration(c.TimeoutSec) * time.Second
	}
	n := 0
	for _, f := range c.Files {
		n += len(f.Src)
	}
	return time.Duration(120+60*(n/65536)) * time.Second
}

// runOne runs c in ch; a non-nil Crash means the child is gone (caller restarts).
func runOne(ch *child, c *Case) (*Result, *Crash) {
	if err := ch.enc.Encode(c); err != nil {
		return nil, &Crash{Kind: "fatal", Stage: "send", Class: "other", Site: "unknown", Detail: err.Error() + "\n" + ch.stderr.String()}
	}
	if err := ch.w.Flush(); err != nil {
		return nil, &Crash{Kind: "fatal", Stage: "send", Class: "other", Site: "unknown", Detail: err.Error() + "\n" + ch.stderr.String()}
	}
	stage := "start"
	timer := time.NewTimer(caseTimeout(c))
	defer timer.Stop()
	for {
		select {
		case m, ok := <-ch.msgs:
			if !ok {
				ch.cmd.Wait()
				se := ch.stderr.String()
				class, site := classifyFatal(se)
				return nil, &Crash{Kind: "fatal", Stage: stage, Class: class, Site: site, Detail: firstLines(se, 12)}
			}
			if m.Kind == "progress" {
				stage = m.Stage
				continue
			}
			return m.Result, nil
		case <-timer.C:
			ch.kill()
			return nil, &Crash{Kind: "hang", Stage: stage, Class: "watchdog", Site: "unknown",
				Detail: fmt.Sprintf("no answer within %v", caseTimeout(c))}
		}
	}
}

func firstLines(s string, n int) string {
	l := strings.Split(s, "\n")
	if len(l) > n {
		l = l[:n]
	}
	return strings.Join(l, "\n")
}

// pool runs cases over nWorkers children; handle is called (serialised) once per case.
type pool struct {
	genroot  string
	nWorkers int
}

func (p *pool) run(cases []*Case, handle func(c *Case, r *Result, cr *Crash)) {
	var mu sync.Mutex
	next := 0
	var wg sync.WaitGroup
	for w := 0; w < p.nWorkers; w++ {
		wg.Add(1)
		go func() {
			defer wg.Done()
			var ch *child
			defer func() {
				if ch != nil {
					ch.kill()
				}
			}()
			for {
				mu.Lock()
				i := next
				next++
				mu.Unlock()
				if i >= len(cases) {
					return
				}
				if ch == nil {
					var err error
					ch, err = startChild(p.genroot)
					if err != nil {
						fmt.Fprintln(os.Stderr, "c11: cannot start child:", err)
						os.Exit(2)
					}
				}
				r, cr := runOne(ch, cases[i])
				if cr != nil {
					if cr.Kind != "hang" {
						ch.kill()
					}
					ch = nil
				}
				mu.Lock()
				handle(cases[i], r, cr)
				mu.Unlock()
			}
		}()
	}
	wg.Wait()
}

// single is a one-child runner used by the minimiser.
type single struct {
	genroot string
	ch      *child
}

func (s *single) run(c *Case) (*Result, *Crash) {
	if s.ch == nil {
		var err error
		s.ch, err = startChild(s.genroot)
		if err != nil {
			fmt.Fprintln(os.Stderr, "c11: cannot start child:", err)
			os.Exit(2)
		}
	}
	r, cr := runOne(s.ch, c)
	if cr != nil {
		if cr.Kind != "hang" {
			s.ch.kill()
		}
		s.ch = nil
	}
	return r, cr
}

func (s *single) close() {
	if s.ch != nil {
		s.ch.kill()
		s.ch = nil
	}
}
