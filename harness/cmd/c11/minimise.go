package main

// Delta debugging of a failing case: other files dropped, then lines, then
// lexemes of the primary file, keeping the same failure key.

import (
	"strings"
	"time"
)

type minimiser struct {
	h        *harness
	s        *single
	deadline time.Duration
	runs     int
	stop     time.Time
}

func (m *minimiser) keyOf(c *Case) string {
	m.runs++
	cc := *c
	cc.Tie = false
	cc.KeepC = true
	res, cr := m.s.run(&cc)
	if key, _ := verdict(&cc, res, cr); key != "" {
		return key
	}
	if res != nil && res.Accepted && res.C != nil {
		key, _ := m.h.compile(1000000000+m.runs, res.C)
		return key
	}
	return ""
}

func withPrimary(c *Case, src string) *Case {
	cc := *c
	cc.Files = append([]SrcFile(nil), c.Files...)
	cc.Files[c.Primary] = SrcFile{Name: c.Files[c.Primary].Name, Src: []byte(src)}
	return &cc
}

// ddmin over a list of parts (joined by concatenation).
func (m *minimiser) ddmin(c *Case, key string, parts []string) []string {
	n := 2
	for len(parts) >= 2 && time.Now().Before(m.stop) {
		chunk := (len(parts) + n - 1) / n
		reduced := false
		for i := 0; i < len(parts) && time.Now().Before(m.stop); i += chunk {
			j := i + chunk
			if j > len(parts) {
				j = len(parts)
			}
			cand := append(append([]string(nil), parts[:i]...), parts[j:]...)
			if m.keyOf(withPrimary(c, strings.Join(cand, ""))) == key {
				parts = cand
				if n > 2 {
					n--
				}
				reduced = true
				break
			}
		}
		if !reduced {
			if n >= len(parts) {
				break
			}
			n *= 2
			if n > len(parts) {
				n = len(parts)
			}
		}
	}
	return parts
}

func (m *minimiser) minimise(c *Case, key string) *Case {
	m.runs = 0
	m.stop = time.Now().Add(m.deadline)
	if m.keyOf(c) != key {
		return nil // not reproducible in isolation (e.g. a timing failure)
	}
	cur := c
	if len(c.Files) > 1 {
		one := *c
		one.Files = []SrcFile{c.Files[c.Primary]}
		one.Primary = 0
		if m.keyOf(&one) == key {
			cur = &one
		}
	}
	src := string(cur.Files[cur.Primary].Src)
	lines := strings.SplitAfter(src, "\n")
	lines = m.ddmin(cur, key, lines)
	src = strings.Join(lines, "")
	lx := splitLexemes(src)
	parts := make([]string, len(lx))
	for i, x := range lx {
		parts[i] = x.s
	}
	parts = m.ddmin(cur, key, parts)
	out := withPrimary(cur, strings.Join(parts, ""))
	out.Gen = c.Gen + " (minimised)"
	return out
}
