package main

// A library of small valid Wuffs declarations: the "small generated programs"
// stream assembles packages from them (then mutates), and the statement
// stream deletes / duplicates every single lexeme of every statement kind.

const progPrelude = `pri status "#bad input"
pri status "#too large"
pri status "$short read"
pub status "@note"

pri const TABLE : roarray[8] base.u8 = [1, 2, 3, 4, 5, 6, 7, 8]
pri const WIDE : roarray[2] roarray[4] base.u32 = [[1, 2, 3, 4], [0xFFFF_FFFF, 6, 7, 8]]
pub const LIMIT : base.u32 = 1000
pri const SMALL : base.u8[..= 7] = 5

pub struct foo? implements base.hasher_u32(
        state : base.u32,
        val   : base.u32,
        idx   : base.u32[..= 7],
        small : base.u8,
        wide  : base.u64,
        flag  : base.bool,
        arr   : array[8] base.u8,
        tab   : array[4] array[16] base.u16,
        util  : base.utility,
) + (
        buf : array[256] base.u8,
)

pri struct bar(
        x : base.i32,
        y : base.u16[1 ..= 100],
)

pub func foo.get_quirk(key: base.u32) base.u64 {
    return 0
}

pub func foo.set_quirk!(key: base.u32, value: base.u64) base.status {
    return base."#unsupported option"
}

pub func foo.update!(x: roslice base.u8) {
    this.up!(x: args.x)
}

pub func foo.update_u32!(x: roslice base.u8) base.u32 {
    this.update!(x: args.x)
    return this.state
}

pub func foo.checksum_u32() base.u32 {
    return this.state
}

pri func foo.up!(x: roslice base.u8) {
    var p : roslice base.u8
    var s : base.u32
    s = this.state
    iterate (p = args.x)(length: 4, advance: 4, unroll: 2) {
        s ~mod+= (p[0] as base.u32) | ((p[3] as base.u32) << 8)
    } else (length: 1, advance: 1, unroll: 1) {
        s ~mod+= p[0] as base.u32
    }
    this.state = s
}
`

// Each snippet is one extra method of foo (names are distinct).
var snippetFuncs = []string{
	`pri func foo.arith!(a: base.u32, b: base.u8) base.u32 {
    var x : base.u32
    var y : base.u64
    var z : base.u8
    x = args.a ~mod+ 1
    x = x ~mod* 3
    x = x ~sat+ 5
    x ~sat-= 2
    x ~mod-= args.a
    x = (x >> 3) | (x << 29)
    x = x & 0xFF
    x ^= 0x55
    y = (x as base.u64) * 1000
    y = y / 7
    y %= 100
    z = (y & 0x7F) as base.u8
    z += 1
    x = (z as base.u32) + (args.b as base.u32)
    this.val = x
    return x
}
`,
	`pri func foo.cond!(a: base.u32) base.u32 {
    var x : base.u32
    if args.a < 10 {
        x = args.a + 1
    } else if args.a < 100 {
        x = args.a - 10
    } else if (args.a == 100) or (args.a > 1000) {
        x = 0
    } else {
        x = 7
    }
    if.likely x <> 0 {
        x = 1
    }
    if.unlikely not this.flag {
        x = 2
    }
    return x
}
`,
	`pri func foo.loops!(n: base.u32[..= 1000]) base.u32 {
    var i : base.u32
    var sum : base.u32
    i = 0
    while i < args.n,
            inv sum <= 0xFFFF_FFFF,
    {
        sum ~mod+= i
        i += 1
    }
    while.outer true {
        while.inner true,
                inv i >= 0,
        {
            if sum > 10 {
                break.outer
            }
            sum ~sat+= 1
            if sum == 5 {
                continue.outer
            }
            break.inner
        }.inner
        break
    }.outer
    return sum
}
`,
	`pri func foo.refined!(i: base.u32[..= 7], j: base.u8[1 ..= 3]) base.u8 {
    var k : base.u32[..= 15]
    var v : base.u8
    k = args.i + 8
    v = this.arr[args.i]
    v = this.arr[k & 7]
    this.arr[args.j] = v
    this.tab[args.j][k] = (v as base.u16) << 2
    this.idx = args.i
    v = TABLE[this.idx]
    if k > 8 {
        assert k > 7 via "a > b: a > c; c >= b"(c: 8)
    }
    return v
}
`,
	`pri func foo.slices!(s: slice base.u8, r: roslice base.u8) base.u64 {
    var n : base.u64
    var t : slice base.u8
    var c : base.u8
    n = args.s.length()
    if n > 4 {
        t = args.s[2 .. 4]
        c = t[0]
        args.s[1] = c
        t = args.s[.. 3]
        t = args.s[1 ..]
    }
    if args.r.length() >= 2 {
        c = args.r[1]
    }
    n = args.s.copy_from_slice!(s: args.r)
    n = this.arr[..].copy_from_slice!(s: args.r)
    n ~sat+= this.buf[16 ..].length()
    if args.r.length() >= 4 {
        n ~mod+= args.r.peek_u32le() as base.u64
    }
    return n
}
`,
	`pri func foo.readone?(src: base.io_reader) {
    var c : base.u8
    var w : base.u32
    while true {
        c = args.src.read_u8?()
        if c == 0 {
            return ok
        } else if c > 0x7F {
            return "#bad input"
        }
        w = args.src.read_u32le?()
        this.val = w
        if args.src.length() > 8 {
            this.wide = args.src.peek_u64le()
            args.src.skip_u32_fast!(actual: 8, worst_case: 8)
        }
        args.src.skip_u32?(n: 3)
        yield? base."$short read"
    }
}
`,
	`pri func foo.writeone?(dst: base.io_writer, src: base.io_reader) {
    var n : base.u32
    var mark : base.u64
    var status : base.status
    args.dst.write_u8?(a: 0x41)
    args.dst.write_u32be?(a: this.val)
    if args.dst.length() >= 8 {
        args.dst.write_u64le_fast!(a: this.wide)
    }
    n = args.dst.limited_copy_u32_from_reader!(up_to: 5, r: args.src)
    mark = args.src.mark()
    io_limit (io: args.src, limit: 10) {
        status =? this.readone?(src: args.src)
    }
    this.wide = args.src.count_since(mark: mark)
    if status.is_error() {
        return status
    } else if status.is_suspension() {
        yield? status
    }
    return ok
}
`,
	`pri func foo.bind?(data: roslice base.u8) {
    var r : base.io_reader
    var status : base.status
    io_bind (io: r, data: args.data, history_position: 0) {
        status =? this.readone?(src: r)
    }
    return status
}
`,
	`pri func foo.status_ops!(n: base.u32) base.status {
    var s : base.status
    s = ok
    if args.n == 1 {
        return "#bad input"
    } else if args.n == 2 {
        return base."@end of data"
    } else if args.n == 3 {
        s = "@note"
    }
    if s.is_ok() or s.is_note() {
        return s
    }
    return "#too large"
}
`,
	`pri func foo.minmax!(a: base.u32, b: base.u32) base.u32 {
    var x : base.u32
    var y : base.u8
    x = args.a.min(no_more_than: args.b)
    x = x.max(no_less_than: 3)
    y = (x.low_bits(n: 5) as base.u8)
    x = args.b.high_bits(n: 8)
    x = this.util.sign_extend_convert_u8_u32(a: y)
    return x + (y as base.u32)
}
`,
	`pri func foo.consts!() base.u32 {
    var x : base.u32
    x = WIDE[1][0]
    x = x ~mod+ (TABLE[SMALL] as base.u32)
    x = x ~mod+ LIMIT
    x = x ~mod+ ('AB'le as base.u32)
    x = x ~mod+ ('ABCD'be as base.u32)
    x = x ~mod+ ('A' as base.u32)
    return x
}
`,
	`pri func foo.callers!(s: slice base.u8) base.u32 {
    var x : base.u32
    var st : base.status
    x = this.arith!(a: 1, b: 2)
    x = this.cond2(a: x)
    this.update!(x: args.s)
    st = this.set_quirk!(key: 1, value: 2)
    return x
}

pri func foo.cond2(a: base.u32) base.u32 {
    if args.a > 3 {
        return 3
    }
    return args.a
}
`,
	`pri func foo.nested_if!(a: base.u32, b: base.u32) base.u32 {
    var x : base.u32
    if args.a < args.b {
        if args.a < 5 {
            if args.b > 7 {
                x = 1
            } else {
                x = 2
            }
        }
    } else if args.a == args.b {
        while x < 3 {
            x += 1
        }
    }
    return x
}
`,
	`pri func foo.choosy_caller!(x: roslice base.u8) {
    if this.state == 0 {
        choose chosen = [chosen_alt]
    }
    this.chosen!(x: args.x)
}

pri func foo.chosen!(x: roslice base.u8),
        choosy,
{
    this.state = 1
}

pri func foo.chosen_alt!(x: roslice base.u8) {
    this.state = 2
}
`,
	`pri func foo.asserts!(a: base.u32[..= 100], b: base.u32[..= 100]) base.u32 {
    var x : base.u32[..= 300]
    if args.a < args.b {
        assert args.a < 100 via "a < b: a < c; c <= b"(c: args.b)
        x = args.a + 1
    }
    assert x <= 300
    x = args.a + args.b
    return x
}
`,
	`pri func foo.while_goto!() base.u32 {
    var x : base.u32
    while.goto_done true {{
    x = 1
    if this.flag {
        break.goto_done
    }
    x = 2
    break.goto_done
    }}.goto_done
    return x
}
`,
	`pri func foo.ptrs!(p: nptr bar, q: ptr bar) base.i32 {
    var x : base.i32
    x = args.q.x
    if args.p <> nullptr {
        x = args.p.x
    }
    return x
}
`,
	`pri func foo.bigargs!(a: base.u64, b: base.u16, c: base.bool, d: base.i8, e: base.i64[-5 ..= 5]) base.i64 {
    var r : base.i64
    r = args.e * 2
    if args.c {
        r = args.d as base.i64
    }
    if args.a > 0xFFFF_FFFF_FFFF_FFF0 {
        r = -1
    }
    return r
}
`,
	`pub func foo.pubcoro?(dst: base.io_writer, src: base.io_reader, workbuf: slice base.u8) {
    var status : base.status
    while true {
        status =? this.readone?(src: args.src)
        if status.is_ok() {
            break
        }
        yield? status
    }
}
`,
	`pub func foo.pubrefined!(i: base.u32[..= 10]) {
    this.val = args.i
}
`,
	`pub func foo.pubstatus!(i: base.u32[2 ..= 10], j: base.u8[..= 3]) base.status {
    this.val = args.i + (args.j as base.u32)
    return ok
}
`,
	`pri func foo.forget?(dst: base.io_writer, src: base.io_reader) {
    var status : base.status
    io_forget_history (io: args.dst) {
        status =? this.writeone?(dst: args.dst, src: args.src)
    }
    return status
}
`,
	`pri func foo.arrays!() {
    var a : array[4] base.u32
    var b : array[2] array[3] base.u8
    var i : base.u32
    a[0] = 1
    a[3] = a[0] + 2
    b[1][2] = 7
    i = 0
    while i < 4 {
        assert i < 4 via "a < b: a < c; c <= b"(c: 4)
        a[i] = i
        i += 1
    }
    this.arr[..].bulk_memset!(byte_value: 0)
    this.val = a[2]
}
`,
}

// Statement templates for the "every statement kind with missing/extra
// parts" stream; each is the body of foo.stmt? below (a coroutine taking
// dst/src/x so that every kind is legal somewhere). %S is replaced.
const stmtWrapCoro = `pri status "#bad"
pri status "$susp"
pri struct foo?(
        val : base.u32,
        arr : array[8] base.u8,
)
pri func foo.other?(src: base.io_reader) {
}
pri func foo.alt!(x: roslice base.u8) {
}
pri func foo.stmt?(dst: base.io_writer, src: base.io_reader, x: roslice base.u8) {
    var i : base.u32
    var c : base.u8
    var s : slice base.u8
    var r : base.io_reader
    var st : base.status
%S
}
`

const stmtWrapPlain = `pri struct foo?(
        val : base.u32,
        arr : array[8] base.u8,
)
pri func foo.alt!(x: roslice base.u8) {
}
pri func foo.chosen!(x: roslice base.u8),
        choosy,
{
}
pri func foo.stmt!(x: roslice base.u8, n: base.u32[..= 7]) base.u32 {
    var i : base.u32
    var c : base.u8
    var p : roslice base.u8
%S
    return i
}
`

var stmtTemplatesCoro = []string{
	`    c = args.src.read_u8?()`,
	`    st =? this.other?(src: args.src)`,
	`    yield? base."$short read"`,
	`    return "#bad"`,
	`    return ok`,
	`    io_bind (io: r, data: args.x, history_position: 0) {
        i = 1
    }`,
	`    io_limit (io: args.src, limit: 10) {
        i = 2
    }`,
	`    io_forget_history (io: args.dst) {
        i = 3
    }`,
	`    args.dst.write_u8?(a: c)`,
	`    i = args.dst.limited_copy_u32_from_reader!(up_to: 5, r: args.src)`,
}

var stmtTemplatesPlain = []string{
	`    iterate (p = args.x)(length: 2, advance: 1, unroll: 1) {
        c = p[0]
    }`,
	`    iterate.lbl (p = args.x)(length: 4, advance: 4, unroll: 2),
            inv i >= 0,
    {
        c = p[3]
    } else (length: 1, advance: 1, unroll: 1) {
        c = p[0]
    }`,
	`    choose chosen = [alt]`,
	`    if args.n < 3 {
        i = 1
    } else if args.n < 5 {
        i = 2
    } else {
        i = 3
    }`,
	`    if.likely args.n == 0 {
        i = 1
    }`,
	`    while.lbl i < 10,
            pre i >= 0,
            inv i >= 0,
            post i >= 10,
    {
        i += 1
        continue.lbl
    }.lbl`,
	`    while true {{
    i = 4
    break
    }}`,
	`    while i < 3 {
        break
    }`,
	`    assert args.n < 8 via "a < b: a < c; c <= b"(c: 8)`,
	`    assert true`,
	`    i = (args.n + 1) * 2`,
	`    i ~mod+= this.arr[args.n] as base.u32`,
	`    this.arr[args.n] = c`,
	`    this.arr[1 .. 3][0] = c`,
	`    i = this.val.min(no_more_than: 4)`,
	`    this.alt!(x: args.x)`,
	`    i = -(-(+(args.n))) as base.u32`,
	`    i = [1, 2][0]`,
	`    c = 'a'`,
}

// Whole small programs in corners of the language the std library does not
// visit (methods on structs without "?", receiver-less functions, pure public
// methods with checked arguments, …); every lexeme deleted / duplicated too.
var cornerPrograms = []string{
	`pub struct foo(
        x : base.u8,
)

pub func foo.get() base.u8 {
    return this.x
}
`,
	`pri struct foo(
        x : base.u8,
)

pri func foo.set!(v: base.u8) {
    this.x = args.v
}

pub struct baz?(
        f : foo,
        g : array[2] foo,
)

pub func baz.q!() {
    this.f.set!(v: 1)
}
`,
	`pub struct foo?(
        x : base.u8,
)

pub func foo.bar(i: base.u32[..= 5], p: ptr foo) base.u8 {
    return this.x
}
`,
	`pub struct foo?(
        x : base.u8,
)

pub func foo.flag!() base.bool {
    return true
}

pub func foo.rng!() base.range_ie_u32 {
    return this.util.make_range_ie_u32(min_incl: 0, max_excl: 1)
}
`,
	`pub func free(i: base.u32[..= 10], r: base.io_reader) base.u32 {
    return args.i
}

pri func helper!(s: slice base.u8) base.u64 {
    return args.s.length()
}
`,
	`pub struct foo?(
        x : base.u8,
)

pub func foo.bar!(i: base.u32[..= 10]) base.u32 {
    return args.i
}

pub func foo.baz!(j: base.u8[1 ..= 3], w: base.io_writer) base.status {
    return ok
}

pub func foo.qux!(s: ptr foo) base.u64 {
    return 0
}
`,
	`pri status "#e"

pub struct foo?(
        x : base.u8,
)

pub func foo.tell?(dst: base.io_writer, src: base.io_reader) {
    var c : base.u8
    c = args.src.read_u8?()
    args.dst.write_u8?(a: c)
    return "#e"
}

pub func foo.restart!(p: base.u64) base.status {
    return base."#bad argument"
}
`,
	// Structs without "?" (no magic value, no coroutine state, no choosy
	// function pointers): as fields of either field list, containing a struct
	// with "?", reset, public without methods (repaired: every struct has an
	// initializer); with a coroutine / a choosy method (now rejected).
	`pri struct foo(
        x : base.u8,
)

pri struct bar?(
        y : base.u8,
)

pri struct mid(
        b : bar,
)

pub struct plain(
        w : base.u8,
)

pub struct baz?(
        f : foo,
        m : mid,
        k : bar,
) + (
        g : foo,
        h : bar,
)

pub func baz.r!() {
    this.f.reset!()
    this.g.reset!()
    this.m.b.y = this.k.y
}
`,
	`pri struct foo(
        x : base.u8,
)

pri func foo.bar?(src: base.io_reader) {
    this.x = args.src.read_u8?()
}
`,
	`pri struct foo(
        x : base.u8,
)

pri func foo.up!() {
    choose bar = [alt]
}

pri func foo.bar!(),
        choosy,
{
    this.x = 1
}

pri func foo.alt!() {
    this.x = 2
}
`,
}

// Top-level declaration templates (every lexeme deleted / duplicated too).
var declTemplates = []string{
	`use "std/crc32"
`,
	`pri status "#bad"
`,
	`pub const C : base.u32[..= 4] = 3
`,
	`pri const T : roarray[2] roarray[2] base.u8 = [[1, 2], [3, 4]]
`,
	`pub struct s? implements base.hasher_u32, base.io_transformer(
        a : base.u32,
        b : array[2] base.u8,
) + (
        c : array[4] base.u64,
)
`,
	`pri func f(a: base.u32[1 ..= 2], b: ptr s) base.u32[..= 3],
        pre args.a > 0,
        post true,
{
    return 1
}
`,
	`pri func s.g!(x: roslice base.u8),
        choose cpu_arch >= x86_sse42,
{
}
`,
	`pri func s.h!(x: roslice base.u8),
        choosy,
{
}
`,
}
