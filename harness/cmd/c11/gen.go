package main

// Case generators. Every random choice comes from the *hlib.Rand passed in.

import (
	"fmt"
	"os"
	"path/filepath"
	"sort"
	"strings"

	"wvh/hlib"
)

type corpusPkg struct {
	Name  string // package name given to wuffs-c (-package_name)
	Dir   string
	Files []SrcFile
	Size  int
}

func loadCorpus(repo string) []*corpusPkg {
	var pkgs []*corpusPkg
	add := func(dir, name string) {
		ents, err := os.ReadDir(dir)
		if err != nil {
			return
		}
		p := &corpusPkg{Name: name, Dir: dir}
		names := []string(nil)
		for _, e := range ents {
			if !e.IsDir() && strings.HasSuffix(e.Name(), ".wuffs") && !strings.HasPrefix(e.Name(), ".") {
				names = append(names, e.Name())
			}
		}
		sort.Strings(names)
		for _, n := range names {
			b, err := os.ReadFile(filepath.Join(dir, n))
			if err != nil {
				continue
			}
			// The file name the toolchain is given: relative, as `wuffs gen` passes it.
			p.Files = append(p.Files, SrcFile{Name: filepath.Join(filepath.Base(filepath.Dir(dir)), filepath.Base(dir), n), Src: b})
			p.Size += len(b)
		}
		if len(p.Files) > 0 {
			pkgs = append(pkgs, p)
		}
	}
	std, _ := os.ReadDir(filepath.Join(repo, "std"))
	for _, e := range std {
		if e.IsDir() {
			add(filepath.Join(repo, "std", e.Name()), e.Name())
		}
	}
	add(filepath.Join(repo, "hello-wuffs-c"), "demo")
	sort.Slice(pkgs, func(i, j int) bool { return pkgs[i].Dir < pkgs[j].Dir })
	return pkgs
}

func (p *corpusPkg) asCase(gen string) *Case {
	return &Case{Gen: gen, Pkg: p.Name, Files: append([]SrcFile(nil), p.Files...), Primary: 0, Tie: true, KeepC: true}
}

func singleFile(gen, src string) *Case {
	return &Case{Gen: gen, Pkg: "foo", Files: []SrcFile{{Name: "test.wuffs", Src: []byte(src)}}, Primary: 0, Tie: true, KeepC: true}
}

// ---- stream 1: random bytes / random lexeme soup

const soupAlphabet = " \n\t(){}[]<>=!?:;,.+-*/%&|^~\"'\\#$@_0129axXbBezZmodsat"

func genRandomBytes(r *hlib.Rand) *Case {
	n := []int{0, 1, 2, 3, 8, 30, 100, 400, 2000}[r.Intn(9)]
	n = r.Intn(n + 1)
	b := make([]byte, n)
	switch r.Intn(3) {
	case 0:
		copy(b, r.Bytes(n))
	case 1:
		for i := range b {
			b[i] = soupAlphabet[r.Intn(len(soupAlphabet))]
		}
	default:
		for i := range b {
			b[i] = byte(0x20 + r.Intn(0x60))
			if r.Chance(1, 12) {
				b[i] = '\n'
			}
		}
	}
	return singleFile("random-bytes", string(b))
}

func genSoup(r *hlib.Rand, idents []string) *Case {
	n := r.Intn(60) + 1
	b := strings.Builder{}
	for i := 0; i < n; i++ {
		switch r.Intn(8) {
		case 0:
			b.WriteString(pick(r, keywords))
		case 1:
			b.WriteString(pick(r, typeWords))
		case 2:
			b.WriteString(pick(r, interestingNumbers))
		case 3:
			b.WriteString(pick(r, interestingStrings))
		case 4, 5:
			b.WriteString(pick(r, opStrings))
		case 6:
			b.WriteString(pick(r, idents))
		default:
			b.WriteString(pick(r, builtinIdts))
		}
		if r.Chance(1, 6) {
			b.WriteByte('\n')
		} else if r.Chance(4, 5) {
			b.WriteByte(' ')
		}
	}
	return singleFile("token-soup", b.String())
}

// ---- stream 2: mutations of the corpus (whole package, one file mutated)

func genCorpusMutant(r *hlib.Rand, pkgs []*corpusPkg, maxPkgSize int) *Case {
	var p *corpusPkg
	for tries := 0; ; tries++ {
		p = pkgs[r.Intn(len(pkgs))]
		if p.Size <= maxPkgSize || tries > 20 {
			break
		}
	}
	i := r.Intn(len(p.Files))
	src, label := mutate(r, string(p.Files[i].Src))
	c := &Case{Gen: "corpus:" + label, Pkg: p.Name, Files: append([]SrcFile(nil), p.Files...), Primary: i, KeepC: true}
	c.Files[i] = SrcFile{Name: p.Files[i].Name, Src: []byte(src)}
	c.Tie = len(src) <= 24*1024
	return c
}

// ---- stream 3: small generated programs (snippet packages), plain and mutated

func genProgram(r *hlib.Rand) (string, []int) {
	n := 1 + r.Intn(5)
	perm := make([]int, len(snippetFuncs))
	for i := range perm {
		perm[i] = i
	}
	for i := len(perm) - 1; i > 0; i-- {
		j := r.Intn(i + 1)
		perm[i], perm[j] = perm[j], perm[i]
	}
	chosen := perm[:n]
	b := strings.Builder{}
	b.WriteString(progPrelude)
	for _, i := range chosen {
		b.WriteByte('\n')
		b.WriteString(snippetFuncs[i])
	}
	return b.String(), chosen
}

// fixDeps appends snippets that a chosen snippet calls (by name) when absent.
func fixDeps(src string) string {
	deps := map[string]int{"this.arith!": 0, "this.readone?": 5, "this.writeone?": 6, "this.cond2(": 11}
	for changed := true; changed; {
		changed = false
		for call, idx := range deps {
			if !strings.Contains(src, call) {
				continue
			}
			name := call[len("this."):]
			name = strings.TrimRight(name, "!?(")
			if strings.Contains(src, "func foo."+name+"!") || strings.Contains(src, "func foo."+name+"?") || strings.Contains(src, "func foo."+name+"(") {
				continue
			}
			src += "\n" + snippetFuncs[idx]
			changed = true
		}
	}
	return src
}

func genProgramCase(r *hlib.Rand, mutated bool) *Case {
	src, _ := genProgram(r)
	src = fixDeps(src)
	if !mutated {
		return singleFile("program", src)
	}
	m, label := mutate(r, src)
	return singleFile("program:"+label, m)
}

// ---- stream 4: every statement / declaration kind with one part missing or doubled

func stmtCases() []*Case {
	var out []*Case
	emit := func(kind, wrap, tmpl string) {
		whole := strings.Replace(wrap, "%S", tmpl, 1)
		off := 0
		if wrap != "%S" {
			off = strings.Index(wrap, "%S")
		}
		out = append(out, singleFile(kind+":whole", whole))
		lx := splitLexemes(tmpl)
		for i, x := range lx {
			if x.k == lkSpace || x.k == lkNewline || x.k == lkComment {
				continue
			}
			del := joinLexemes(without(lx, i, i+1))
			dup := joinLexemes(insertAt(lx, i, x, sp))
			out = append(out, singleFile(kind+":missing", whole[:off]+del+whole[off+len(tmpl):]))
			out = append(out, singleFile(kind+":extra", whole[:off]+dup+whole[off+len(tmpl):]))
		}
	}
	for _, s := range stmtTemplatesCoro {
		emit("stmt", stmtWrapCoro, s)
	}
	for _, s := range stmtTemplatesPlain {
		emit("stmt", stmtWrapPlain, s)
	}
	for _, s := range declTemplates {
		emit("decl", "%S", s)
	}
	for _, s := range cornerPrograms {
		emit("corner", "%S", s)
	}
	return out
}

// ---- stream 5: deep nesting and long flat constructs

func rep(s string, n int) string { return strings.Repeat(s, n) }

func inPlain(stmt string) string { return strings.Replace(stmtWrapPlain, "%S", stmt, 1) }

func nestCases(depths []int) []*Case {
	var out []*Case
	add := func(name string, d int, src string) {
		c := singleFile(fmt.Sprintf("deep:%s", name), src)
		c.Tie = len(src) <= 64*1024
		_ = d
		out = append(out, c)
	}
	for _, d := range depths {
		add("parens", d, inPlain("    i = "+rep("(", d)+"1"+rep(")", d)))
		add("unary-minus", d, inPlain("    i = (0 - "+rep("- ", d)+"1) as base.u32"))
		add("unary-plus", d, inPlain("    i = "+rep("+", d)+"1"))
		add("unary-not", d, inPlain("    if "+rep("not ", d)+"true {\n    }"))
		add("index", d, inPlain("    c = "+rep("this.arr[", d)+"0"+rep("]", d)))
		add("call", d, inPlain("    i = "+rep("this.val.min(no_more_than: ", d)+"1"+rep(")", d)))
		add("binary-right", d, inPlain("    i = "+rep("(1 ~mod+ ", d)+"1"+rep(")", d)))
		add("binary-left", d, inPlain("    i = "+rep("(", d)+"1"+rep(" ~mod+ 1)", d)))
		add("assoc-chain", d, inPlain("    i = 1"+rep(" | 1", d)))
		add("selector-chain", d, inPlain("    i = this"+rep(".val", d)))
		add("as-refine", d, inPlain("    i = "+rep("(1 as base.u32[..= ", d)+"1"+rep("])", d)))
		add("slice-chain", d, inPlain("    c = this.arr"+rep("[..]", d)+"[0]"))
		// Deep LEFT spines: postfix chains are built by a loop in parseOperand, so the
		// parser's recursion guards do not see them, but every later recursive pass
		// over the Expr (ast.Node.Walk, Str, lang/check, cgen) does.
		add("index-chain", d, inPlain("    c = this.tab"+rep("[0]", d)))
		add("call-chain", d, inPlain("    this.up"+rep("!()", d)))
		add("pure-call-chain", d, inPlain("    i = this.get"+rep("()", d)))
		add("mixed-postfix-chain", d, inPlain("    i = this"+rep(".val[0]!(a: 1)[..]", d/4+1)))
		add("selector-chain-in-assert", d, inPlain("    assert this"+rep(".val", d)+" == 0"))
		add("selector-chain-in-const", d, "pri const X : base.u32 = Y"+rep(".z", d)+"\n")
		add("selector-chain-in-array-len", d, "pri struct bar(\nx : array[Y"+rep(".z", d)+"] base.u8,\n)\n")
		add("assoc-and-chain", d, inPlain("    if true"+rep(" and true", d)+" {\n    }"))
		add("assoc-plus-chain-of-selectors", d, inPlain("    i = this.val"+rep(" + this.val", d)))
		add("list", d, "pri const X : roarray[1] base.u8 = "+rep("[", d)+"1"+rep("]", d)+"\n")
		add("type-ptr", d, "pri struct bar(x: base.u8)\npri func f(a: "+rep("ptr ", d)+"bar) {\n}\n")
		add("type-nptr", d, "pri struct bar(x: base.u8)\npri func f(a: "+rep("nptr ", d)+"bar) {\n}\n")
		add("type-array", d, "pri struct bar(\nx : "+rep("array[1] ", d)+"base.u8,\n)\n")
		add("type-slice", d, "pri func f(a: "+rep("slice ", d)+"base.u8) {\n}\n")
		add("type-table", d, "pri func f(a: "+rep("table ", d)+"base.u8) {\n}\n")
		add("type-array-len", d, "pri struct bar(\nx : array["+rep("(", d)+"1"+rep(")", d)+"] base.u8,\n)\n")
		add("type-array-len-as", d, "pri struct bar(\nx : "+rep("array[1 as base.u32[..= ", d)+"1"+rep("]] base.u8", d)+",\n)\n")
		add("if-nest", d, inPlain(rep("if true {\n", d)+"i = 1\n"+rep("}\n", d)))
		add("else-if-chain", d, inPlain("if i == 1 {\n"+rep("} else if i == 2 {\n", d)+"}"))
		add("else-nest", d, inPlain(rep("if i == 1 {\n} else {\n", d)+rep("}\n", d)))
		add("while-nest", d, inPlain(rep("while i < 1 {\n", d)+"i = 1\n"+rep("}\n", d)))
		{
			b := strings.Builder{}
			for i := 0; i < d; i++ {
				fmt.Fprintf(&b, "while.l%d true {\n", i)
			}
			b.WriteString("break.l0\n")
			for i := d - 1; i >= 0; i-- {
				fmt.Fprintf(&b, "}.l%d\n", i)
			}
			add("while-label-nest", d, inPlain(b.String()))
		}
		add("while-double-curly-nest", d, inPlain(rep("while true {{\n", d)+"break\n"+rep("}}\n", d)))
		add("iterate-nest", d, inPlain(rep("iterate (p = args.x)(length: 1, advance: 1, unroll: 1) {\n", d)+"c = p[0]\n"+rep("}\n", d)))
		add("iterate-else-chain", d, inPlain("iterate (p = args.x)(length: 1, advance: 1, unroll: 1) {\n"+rep("} else (length: 1, advance: 1, unroll: 1) {\n", d)+"}"))
		add("io-limit-nest", d, strings.Replace(stmtWrapCoro, "%S", rep("io_limit (io: args.src, limit: 1) {\n", d)+"i = 1\n"+rep("}\n", d), 1))
		add("assert-args", d, inPlain("    assert true via \"a < b: a < c; c <= b\"(c: "+rep("(", d)+"1"+rep(")", d)+")"))
		add("flat-statements", d, inPlain(rep("    i = 1\n", d)))
		add("flat-vars", d, func() string {
			b := strings.Builder{}
			b.WriteString("pri func f() {\n")
			for i := 0; i < d; i++ {
				fmt.Fprintf(&b, "var v%d : base.u8\n", i)
			}
			b.WriteString("}\n")
			return b.String()
		}())
		add("flat-fields", d, func() string {
			b := strings.Builder{}
			b.WriteString("pri struct s(\n")
			for i := 0; i < d; i++ {
				fmt.Fprintf(&b, "f%d : base.u8,\n", i)
			}
			b.WriteString(")\n")
			return b.String()
		}())
		add("flat-args", d, func() string {
			b := strings.Builder{}
			b.WriteString("pri func f(")
			for i := 0; i < d; i++ {
				fmt.Fprintf(&b, "a%d: base.u8, ", i)
			}
			b.WriteString(") {\n}\n")
			return b.String()
		}())
		add("flat-funcs", d, func() string {
			b := strings.Builder{}
			for i := 0; i < d; i++ {
				fmt.Fprintf(&b, "pri func f%d() {\n}\n", i)
			}
			return b.String()
		}())
		add("flat-list", d, fmt.Sprintf("pri const X : roarray[%d] base.u8 = [", d)+rep("1, ", d)+"]\n")
		add("flat-implements", d, "pri struct s? implements "+rep("base.hasher_u32, ", d)+"(\n)\n")
		add("flat-choose", d, inPlain("    choose chosen = ["+rep("alt, ", d)+"]"))
		add("blank-lines", d, rep("\n", d)+"pri status \"#x\"\n")
		add("comments", d, rep("// c\n", d)+"pri status \"#x\"\n")
	}
	return out
}

// boundaryCases: token-size and line-count limits of the tokenizer.
func boundaryCases(thorough bool) []*Case {
	var out []*Case
	add := func(name, src string) {
		c := singleFile("limit:"+name, src)
		c.Tie = len(src) <= 64*1024
		out = append(out, c)
	}
	for _, n := range []int{1022, 1023, 1024, 1025, 5000} {
		add("ident", "pri const "+rep("A", n)+" : base.u8 = 1\n")
		add("number", "pri const A : base.u8 = "+rep("1", n)+"\n")
		add("hex", "pri const A : base.u8 = 0x"+rep("F", n-2)+"\n")
		add("binary", "pri const A : base.u8 = 0b"+rep("1", n-2)+"\n")
		add("dqstring", "pri status \"#"+rep("a", n-3)+"\"\n")
		add("sqstring", "pri const A : base.u8 = '"+rep("a", n-4)+"'be\n")
		add("comment", "//"+rep("c", n)+"\n")
	}
	add("unterminated-dq-eof", "pri status \"#abc")
	add("unterminated-sq-eof", "pri const A : base.u8 = 'a")
	add("unterminated-dq-nl", "pri status \"#abc\n")
	add("sq-escapes", "pri const A : base.u64 = '\\x00\\xFF\\u1234\\U0010FFFF\\n\\t\\\\\\''be\n")
	add("sq-bad-escape", "pri const A : base.u8 = '\\q'\n")
	add("sq-endian-at-eof", "pri const A : base.u16 = 'ab'be")
	add("sq-endian-then-one", "pri const A : base.u16 = 'ab'bex")
	add("lines-max-minus", rep("\n", 1048573)+"pri status \"#x\"\n")
	add("lines-max", rep("\n", 1048574)+"pri status \"#x\"\n")
	add("lines-over", rep("\n", 1048576)+"pri status \"#x\"\n")
	// Recursion depth proportional to the input size, far beyond 64 KiB: without depth
	// limits in the parser these overflow Go's 1 GB stack (fatal error, not a panic).
	huge := []int{800000} // with quickMaxStack (worker.go)
	if thorough {
		huge = []int{1000000, 3000000}
	}
	for _, d := range huge {
		add("huge-parens", inPlain("    i = "+rep("(", d)+"1"+rep(")", d)))
		add("huge-unary", inPlain("    i = "+rep("+", d)+"1"))
		add("huge-type-ptr", "pri func f(a: "+rep("ptr ", d)+"bar) {\n}\n")
		add("huge-list", "pri const X : roarray[1] base.u8 = "+rep("[", d)+"1"+rep("]", d)+"\n")
		add("huge-if-nest", inPlain(rep("if true {\n", d/3)+rep("}\n", d/3)))
		add("huge-else-if", inPlain("if i == 1 {\n"+rep("} else if i == 2 {\n", d/3)+"}"))
		add("huge-selector-chain", inPlain("    i = this"+rep(".val", d)))
		add("huge-index-chain", inPlain("    c = this.tab"+rep("[0]", d)))
		add("huge-slice-chain", inPlain("    c = this.arr"+rep("[..]", d)+"[0]"))
		add("huge-call-chain", inPlain("    this.up"+rep("!()", d)))
		add("huge-assoc-chain", inPlain("    i = 1"+rep(" | 1", d)))
		add("huge-list-flat", "pri const X : roarray[1] base.u8 = ["+rep("1, ", d)+"]\n")
	}
	if thorough {
		b := strings.Builder{}
		for i := 0; i < 1048576-1024+10; i++ {
			fmt.Fprintf(&b, "i%x ", i)
		}
		add("too-many-distinct-tokens", b.String())
	}
	return out
}
