package main

// More generators (round 2): struct dependency graphs, '-string literals built
// from (possibly truncated) escape atoms, byte-level damage of valid sources.

import (
	"fmt"
	"strings"

	"wvh/hlib"
)

// ---- stream 6: packages of structs that contain each other (directly, in
// arrays, in arrays of arrays), declared in a random order. The checker must
// sort them (ast.TopologicalSortStructs) or report a cycle; the generated C
// must declare an element type before the array that uses it.

func genStructGraph(r *hlib.Rand) *Case {
	n := 2 + r.Intn(4)
	names := []string{"alpha", "beta", "gamma", "delta", "epsilon"}[:n]
	// deps[i] lists (j, shape) with j > i in "dependency order"; a back edge
	// (cycle) is added now and then.
	type dep struct {
		to    int
		shape int // 0 plain, 1 array, 2 array of array
	}
	deps := make([][]dep, n)
	cyclic := false
	for i := 0; i < n; i++ {
		for j := i + 1; j < n; j++ {
			if r.Chance(1, 2) {
				deps[i] = append(deps[i], dep{j, r.Intn(3)})
			}
		}
	}
	if r.Chance(1, 8) {
		i := 1 + r.Intn(n-1)
		deps[i] = append(deps[i], dep{r.Intn(i + 1), r.Intn(3)})
		cyclic = true
	}
	order := make([]int, n)
	for i := range order {
		order[i] = i
	}
	for i := n - 1; i > 0; i-- {
		j := r.Intn(i + 1)
		order[i], order[j] = order[j], order[i]
	}
	b := strings.Builder{}
	for _, i := range order {
		vis := "pri"
		if i == 0 || r.Chance(1, 3) {
			vis = "pub"
		}
		fmt.Fprintf(&b, "%s struct %s?(\n        x : base.u%d,\n", vis, names[i], []int{8, 16, 32, 64}[r.Intn(4)])
		if r.Chance(1, 3) {
			fmt.Fprintf(&b, "        a : array[%d] base.u8,\n", 1+r.Intn(5))
		}
		b.WriteString(")")
		if len(deps[i]) > 0 {
			b.WriteString(" + (\n")
			for k, d := range deps[i] {
				typ := names[d.to]
				switch d.shape {
				case 1:
					typ = fmt.Sprintf("array[%d] %s", 1+r.Intn(4), typ)
				case 2:
					typ = fmt.Sprintf("array[%d] array[%d] %s", 1+r.Intn(3), 1+r.Intn(3), typ)
				}
				fmt.Fprintf(&b, "        f%d : %s,\n", k, typ)
			}
			b.WriteString(")")
		}
		b.WriteString("\n\n")
		fmt.Fprintf(&b, "%s func %s.get() base.u64 {\n    return this.x as base.u64\n}\n\n", vis, names[i])
	}
	label := "struct-graph"
	if cyclic {
		label = "struct-graph:cyclic"
	}
	return singleFile(label, b.String())
}

// ---- stream 7: '-string (and "-string) literals assembled from escape atoms,
// complete and cut short, at the end of the literal and in the middle.

var sqAtoms = []string{
	"a", "Z", "0", " ", "~", "\"", "\\\\", "\\'", "\\\"", "\\n", "\\t", "\\r", "\\0", "\\a", "\\b", "\\e", "\\f", "\\v", "\\?",
	"\\x00", "\\x41", "\\xFF", "\\xfF", "\\x4", "\\x", "\\xG0", "\\x0G", "\\x4\\x41",
	"\\u0041", "\\u1234", "\\uFFFF", "\\uD800", "\\uDFFF", "\\uE000", "\\u123", "\\u12", "\\u1", "\\u", "\\u12G4",
	"\\U00000041", "\\U0010FFFF", "\\U00110000", "\\U7FFFFFFF", "\\U80000000", "\\UFFFFFFFF", "\\U0000004", "\\U000000", "\\U00000", "\\U0000", "\\U000", "\\U00", "\\U0", "\\U",
	"\\q", "\\", "\\8", "\x7f", "\x80", "\xff", "\t", "\x01",
}

func genQuotedLiteral(r *hlib.Rand) *Case {
	n := r.Intn(4)
	if r.Chance(1, 3) {
		n = 1
	}
	b := strings.Builder{}
	quote := "'"
	if r.Chance(1, 8) {
		quote = "\""
	}
	b.WriteString(quote)
	for i := 0; i < n; i++ {
		b.WriteString(pick(r, sqAtoms))
	}
	if !r.Chance(1, 12) {
		b.WriteString(quote)
	}
	switch r.Intn(6) {
	case 0:
		b.WriteString("be")
	case 1:
		b.WriteString("le")
	case 2:
		b.WriteString("b")
	case 3:
		b.WriteString("bee")
	}
	lit := b.String()
	var src string
	switch r.Intn(4) {
	case 0:
		src = lit // the literal is the whole file (no byte after it)
	case 1:
		src = "pri const A : base.u64 = " + lit
	case 2:
		src = "pri const A : base.u64 = " + lit + "\n"
	default:
		src = "pri const A : base.u64 = " + lit + " + 1\n"
	}
	return singleFile("quoted-literal", src)
}

// ---- byte-level damage: what a stray keystroke or a truncated download does.

func mutateBytes(r *hlib.Rand, src string) (string, string) {
	if len(src) == 0 {
		return "x", "byte-insert"
	}
	b := []byte(src)
	i := r.Intn(len(b))
	switch r.Intn(5) {
	case 0:
		return string(append(b[:i:i], b[i+1:]...)), "byte-delete"
	case 1:
		c := soupAlphabet[r.Intn(len(soupAlphabet))]
		out := append(append(append([]byte(nil), b[:i]...), c), b[i:]...)
		return string(out), "byte-insert"
	case 2:
		b[i] = soupAlphabet[r.Intn(len(soupAlphabet))]
		return string(b), "byte-replace"
	case 3:
		b[i] ^= 1 << uint(r.Intn(8))
		return string(b), "byte-bitflip"
	default:
		return string(b[:i]), "byte-truncate"
	}
}

// ---- stream 8: expressions on their own, through parse.ParseExpr (the
// parser's second entry point) — and, as the body of a statement, through
// the whole pipeline.

func genExprText(r *hlib.Rand, depth int) string {
	leaf := func() string {
		switch r.Intn(8) {
		case 0:
			return pick(r, interestingNumbers)
		case 1:
			return pick(r, interestingStrings)
		case 2:
			return "true"
		case 3:
			return "args." + pick(r, []string{"x", "n", "src"})
		case 4:
			return "this." + pick(r, []string{"val", "arr", "tab"})
		default:
			return pick(r, []string{"i", "c", "p", "this", "args", "x", "base"})
		}
	}
	if depth <= 0 {
		return leaf()
	}
	sub := func() string { return genExprText(r, depth-1-r.Intn(2)) }
	unary := []string{"+", "-", "not "}
	binary := []string{"+", "-", "*", "/", "<<", ">>", "&", "|", "^", "%", "~mod+", "~mod-", "~mod*", "~mod<<", "~sat+", "~sat-", "<>", "<", "<=", "==", ">=", ">", "and", "or"}
	assoc := []string{"+", "*", "&", "|", "^", "and", "or"}
	types := []string{"base.u8", "base.u32", "base.u32[..= 7]", "base.u64[1 ..= 2]", "slice base.u8", "array[4] base.u8", "ptr foo", "nptr foo", "roslice base.u8", "table base.u16", "foo"}
	switch r.Intn(12) {
	case 0:
		return leaf()
	case 1:
		return pick(r, unary) + sub()
	case 2:
		return sub() + " " + pick(r, binary) + " " + sub()
	case 3:
		op := pick(r, assoc)
		n := 2 + r.Intn(4)
		parts := make([]string, n)
		for i := range parts {
			parts[i] = sub()
		}
		return strings.Join(parts, " "+op+" ")
	case 4:
		return "(" + sub() + ")"
	case 5:
		return sub() + " as " + pick(r, types)
	case 6: // call
		args := []string(nil)
		for i, n := 0, r.Intn(3); i < n; i++ {
			args = append(args, pick(r, []string{"a", "x", "src", "up_to", "n"})+": "+sub())
		}
		return leaf() + "." + pick(r, []string{"get", "min", "max", "length", "read_u8", "up"}) + pick(r, []string{"", "!", "?"}) + "(" + strings.Join(args, ", ") + ")"
	case 7: // index
		return leaf() + "[" + sub() + "]"
	case 8: // slice
		switch r.Intn(4) {
		case 0:
			return leaf() + "[..]"
		case 1:
			return leaf() + "[" + sub() + " ..]"
		case 2:
			return leaf() + "[.. " + sub() + "]"
		default:
			return leaf() + "[" + sub() + " .. " + sub() + "]"
		}
	case 9: // selector chain, possibly with a status literal
		if r.Chance(1, 4) {
			return "base." + pick(r, []string{`"#bad"`, `"$short read"`, `"@note"`})
		}
		return leaf() + "." + pick(r, []string{"val", "x", "y"}) + "." + pick(r, []string{"val", "x", "y"})
	case 10: // postfix chain of random links
		s := leaf()
		for i, n := 0, 1+r.Intn(5); i < n; i++ {
			s += pick(r, []string{".val", "[0]", "[..]", "()", "!()", "[1 .. 2]", "(a: 1)"})
		}
		return s
	default:
		return "(" + sub() + ") " + pick(r, binary) + " (" + sub() + ")"
	}
}

func genExprCase(r *hlib.Rand) *Case {
	e := genExprText(r, r.Intn(5))
	label := "expr"
	if r.Chance(1, 3) {
		e, label = mutate(r, e)
		label = "expr:" + label
	}
	if r.Chance(2, 3) {
		c := singleFile(label, e) // the expression is the whole file: parse.ParseExpr
		c.Expr = true
		return c
	}
	return singleFile(label, inPlain("    i = "+e)) // … a statement: the whole pipeline
}
