package main

// Load-independent confirmation of "slow" and "hang" verdicts. The machine is
// shared and can be 20× slower than idle, so absolute limits only nominate a
// case; it is then re-run alone, bracketed by a calibration workload (the
// whole pipeline on an unmutated std package) in the same child, and the
// limit is scaled by how slow the calibration ran.

import (
	"fmt"
	"time"
)

const (
	// CPU time of the calibration workload on an idle machine (ms), measured
	// once; only the ratio matters.
	nominalCalibMs = 400
	slowLimitMs    = 10000 // per 64 KiB of input (render: input + output)
)

func totalCPU(res *Result) int64 {
	t := int64(0)
	for _, st := range res.Stages {
		t += st.CPUms
	}
	return t
}

func stageUnits(c *Case, res *Result, stage string) int64 {
	n := int64(caseSize(c))
	if stage == "fmt.render" {
		n += res.RenderBytes
	}
	return 1 + n/65536
}

// slowStage returns the first stage over limit(ms per unit).
func slowStage(c *Case, res *Result, limit int64) (string, int64, int64) {
	for _, st := range res.Stages {
		if u := stageUnits(c, res, st.Name); st.CPUms > limit*u {
			return st.Name, st.CPUms, limit * u
		}
	}
	return "", 0, 0
}

func (h *harness) calibrate(s *single) (cpu int64, wall time.Duration, ok bool) {
	cc := *h.calib
	cc.Tie, cc.KeepC = false, false
	t0 := time.Now()
	res, cr := s.run(&cc)
	if cr != nil || res == nil {
		return 0, 0, false
	}
	return totalCPU(res), time.Since(t0), true
}

// confirm returns the confirmed key ("" if the suspicion was load).
func (h *harness) confirm(c *Case, key string) (string, string) {
	s := &single{genroot: h.std.Scratch}
	defer s.close()
	cal1, wall1, ok := h.calibrate(s) // also warms the child up
	cal1, wall1, ok = h.calibrate(s)
	if !ok {
		return key, "calibration failed; verdict unconfirmed"
	}
	cc := *c
	cc.Tie, cc.KeepC = false, false
	// Watchdog scaled by the calibration's wall time: nominally 0.5 s → 150 s.
	to := 300 * wall1
	if to < 150*time.Second {
		to = 150 * time.Second
	}
	cc.TimeoutSec = int(to/time.Second) * int(1+caseSize(c)/65536)
	res, cr := s.run(&cc)
	if cr != nil {
		k, d := verdict(&cc, nil, cr)
		return k, d + fmt.Sprintf(" (confirmed alone; calibration workload took %v wall, %d ms CPU)", wall1, cal1)
	}
	cal2, _, ok2 := h.calibrate(s)
	cal := cal1
	if ok2 && cal2 < cal {
		cal = cal2
	}
	limit := int64(slowLimitMs)
	if scaled := slowLimitMs * cal / nominalCalibMs; scaled > limit {
		limit = scaled
	}
	if st, ms, lim := slowStage(&cc, res, limit); st != "" {
		return "slow:" + st, fmt.Sprintf("stage %s used %d ms of CPU (limit %d ms = 10 s per 64 KiB, scaled by the calibration workload: %d ms now vs %d ms nominal)", st, ms, lim, cal, nominalCalibMs)
	}
	if k, d := verdict(&cc, res, nil); k != "" && k[:5] != "slow:" {
		return k, d
	}
	return "", ""
}
