// C11 harness: the toolchain (tokenizer, parser, checker, formatter, C
// generator) never crashes or hangs whatever source text it is given, and for
// every accepted program the emitted C is accepted by the C compiler.
//
// Implementation side: pipeline.go (runs in child processes, worker.go).
// Oracle: panic (recover), fatal error / stack overflow (child dies), hang
// (watchdog) or > 10 s CPU per 64 KiB in any stage; gcc -fsyntax-only on the
// C emitted for accepted programs. Tie with the Lean model: tie.go.
package main

import (
	"crypto/sha256"
	"fmt"
	"os"
	"path/filepath"
	"regexp"
	"runtime"
	"sort"
	"strings"
	"sync"
	"time"
	"unicode/utf8"

	"wvh/hlib"
)

type failure struct {
	key, desc string
	c         *Case
}

type harness struct {
	r        *hlib.Run
	std      *hlib.StdBuild
	genC     string // <scratch>/repo/gen/c
	ccDir    string
	pool     *pool
	nextID   int
	fails    []failure // in case order
	seenKey  map[string]int
	cpuByFam map[string]int64
	calib    *Case

	ccMu     sync.Mutex
	ccSeen   map[[32]byte]bool
	ccJobs   chan ccJob
	ccWG     sync.WaitGroup
	ccFails  []failure
	ccRuns   int
	ccCached int
	ccPCH    int    // cases accepted through the precompiled-header fast path
	pchDir   string // "" = no precompiled wuffs-base.c
}

type ccJob struct {
	c   *Case
	src []byte
	n   int
}

var gccErrRe = regexp.MustCompile(`(?m)^[^\n]*\berror: ([^\n]*)$`)

var (
	gccQuotedRe  = regexp.MustCompile(`'[^']*'|‘[^’]*’`)
	gccSpecific  = regexp.MustCompile(`\b(wuffs_[A-Za-z0-9_]*|WUFFS_[A-Za-z0-9_]*|(a|v|f|t|i|o|u|p|s|iop|io0|io1|io2)_[A-Za-z0-9_]*)\b`)
	gccDigitsRe  = regexp.MustCompile(`[0-9]+`)
	gccNonWordRe = regexp.MustCompile(`[^A-Za-z_N]+`)
)

// gccKey turns the first gcc error into a stable signature: program-specific
// identifiers (wuffs_pkg__name, a_arg, v_var, …) are dropped, generic ones
// ('magic', 'self', 'private_data', types) are kept so that the key names the
// defect and not merely the message class.
func gccKey(out string) string {
	m := gccErrRe.FindStringSubmatch(out)
	msg := "no-error-line"
	if m != nil {
		msg = m[1]
	}
	msg = gccQuotedRe.ReplaceAllStringFunc(msg, func(q string) string {
		return gccSpecific.ReplaceAllString(q, "X")
	})
	msg = gccDigitsRe.ReplaceAllString(msg, "N")
	msg = gccNonWordRe.ReplaceAllString(msg, "-")
	msg = strings.Trim(msg, "-")
	if len(msg) > 90 {
		msg = msg[:90]
	}
	return "gcc:" + msg
}

// compile runs gcc -fsyntax-only on csrc; returns "" or the failure key + output.
func (h *harness) compile(n int, csrc []byte) (key, out string) {
	path := filepath.Join(h.ccDir, fmt.Sprintf("c%d.c", n))
	if err := os.WriteFile(path, csrc, 0o644); err != nil {
		return "gcc:cannot-write", err.Error()
	}
	defer os.Remove(path)
	t0 := time.Now()
	defer func() {
		if d := time.Since(t0); debugSlow && d > 2*time.Second {
			fmt.Fprintf(os.Stderr, "slow gcc case %d: %v (%d bytes of C)\n", n, d, len(csrc))
		}
	}()
	// Fast path: the same translation unit with wuffs-base.c (24 000 lines,
	// 3–5 s of gcc per case) read from a precompiled header. The three macros
	// the generated prologue would define are given on the command line so
	// that they are the same as when the header was precompiled. Only an
	// acceptance is taken from this run; anything else is re-run the plain way.
	if h.pchDir != "" {
		head := csrc
		if len(head) > 1024 {
			head = head[:1024]
		}
		if m := moduleDefRe.FindSubmatch(head); m != nil {
			_, _, err := hlib.RunCmd(5*time.Minute, h.ccDir, nil, nil, "gcc", "-fsyntax-only", "-x", "c",
				"-DWUFFS_IMPLEMENTATION", "-DWUFFS_CONFIG__MODULES", "-D"+string(m[1]), "-DWUFFS_NONMONOLITHIC",
				"-I", h.pchDir, "-I", h.genC, path)
			if err == nil {
				h.ccMu.Lock()
				h.ccPCH++
				h.ccMu.Unlock()
				return "", ""
			}
		}
	}
	o, e, err := hlib.RunCmd(5*time.Minute, h.ccDir, nil, nil, "gcc", "-fsyntax-only", "-x", "c", "-DWUFFS_IMPLEMENTATION", "-I", h.genC, path)
	if err == nil {
		return "", ""
	}
	txt := string(o) + string(e)
	if strings.Contains(err.Error(), "timeout") {
		return "gcc:timeout", txt
	}
	return gccKey(txt), firstLines(txt, 8)
}

// moduleDefRe finds the package's own module macro in the generated prologue
// (internal/cgen genIncludes).
var moduleDefRe = regexp.MustCompile(`(?m)^#define (WUFFS_CONFIG__MODULE__[A-Za-z0-9_]+)[ \t]*$`)

// buildPCH precompiles gen/c/wuffs-base.c as the generated packages include
// it; on any failure the plain (slow) compile is used for every case.
func (h *harness) buildPCH() {
	dir := filepath.Join(h.ccDir, "pch")
	if err := os.MkdirAll(dir, 0o755); err != nil {
		return
	}
	b, err := os.ReadFile(filepath.Join(h.genC, "wuffs-base.c"))
	if err != nil || os.WriteFile(filepath.Join(dir, "wuffs-base.c"), b, 0o644) != nil {
		return
	}
	_, _, err = hlib.RunCmd(5*time.Minute, dir, nil, nil, "gcc", "-x", "c-header",
		"-DWUFFS_IMPLEMENTATION", "-DWUFFS_CONFIG__MODULES", "-DWUFFS_NONMONOLITHIC",
		"wuffs-base.c", "-o", "wuffs-base.c.gch")
	if err == nil {
		h.pchDir = dir
	}
}

func (h *harness) startCC(n int) {
	h.buildPCH()
	h.ccJobs = make(chan ccJob, 256)
	for i := 0; i < n; i++ {
		h.ccWG.Add(1)
		go func() {
			defer h.ccWG.Done()
			for j := range h.ccJobs {
				key, out := h.compile(j.n, j.src)
				h.ccMu.Lock()
				h.ccRuns++
				if key != "" {
					h.ccFails = append(h.ccFails, failure{key, "the C generated for an accepted program is rejected by gcc -fsyntax-only:\n" + out, j.c})
				}
				h.ccMu.Unlock()
			}
		}()
	}
}

func (h *harness) queueCC(c *Case, csrc []byte) {
	sum := sha256.Sum256(csrc)
	h.ccMu.Lock()
	if h.ccSeen[sum] {
		h.ccCached++
		h.ccMu.Unlock()
		return
	}
	h.ccSeen[sum] = true
	h.ccMu.Unlock()
	h.ccJobs <- ccJob{c, csrc, c.ID}
}

func caseSize(c *Case) int {
	n := 0
	for _, f := range c.Files {
		n += len(f.Src)
	}
	return n
}

func showSrc(b []byte) string {
	if utf8.Valid(b) && !strings.ContainsAny(string(b), "\x00\r") {
		return string(b)
	}
	return fmt.Sprintf("(Go-quoted) %q", string(b))
}

func replayText(c *Case, extra string) string {
	b := strings.Builder{}
	fmt.Fprintf(&b, "generator: %s\npackage_name: %s\n%s\n", c.Gen, c.Pkg, extra)
	for i, f := range c.Files {
		if i == c.Primary || len(c.Files) == 1 {
			src := f.Src
			note := ""
			if len(src) > 200000 {
				note = fmt.Sprintf(" (first 2000 of %d bytes; regenerate with the seed)", len(src))
				src = src[:2000]
			}
			fmt.Fprintf(&b, "--- file %s%s ---\n%s\n--- end ---\n", f.Name, note, showSrc(src))
		} else {
			fmt.Fprintf(&b, "--- file %s: unchanged from /repo ---\n", f.Name)
		}
	}
	return b.String()
}

// verdict evaluates the property's oracle on one case's outcome.
func verdict(c *Case, res *Result, cr *Crash) (key, desc string) {
	if cr != nil {
		if cr.Kind == "hang" {
			return "hang:" + cr.Stage, fmt.Sprintf("stage %s did not finish: %s", cr.Stage, cr.Detail)
		}
		return "fatal:" + cr.Class + ":" + cr.Stage + ":" + cr.Site, fmt.Sprintf("the process died in stage %s (%s):\n%s", cr.Stage, cr.Class, cr.Detail)
	}
	for _, st := range res.Stages {
		if st.Status == "panic" {
			return "panic:" + st.Site + ":" + st.Class, fmt.Sprintf("stage %s panicked at %s: %s", st.Name, st.Site, st.Msg)
		}
	}
	// Props/C11.lean parse_height_bounded, on the real parser's output.
	if res.ASTHeight > maxASTHeight {
		return "ast-height:exceeds-bound", fmt.Sprintf("parse.Parse returned a tree %d nodes high (the model's bound, theorem parse_height_bounded, is %d): recursive passes over it recurse that deep", res.ASTHeight, maxASTHeight)
	}
	// "promptly": at most 10 s of CPU per 64 KiB of input (for the formatter:
	// of input plus output, its output being legitimately larger than its
	// input). This only nominates the case; see confirm.go.
	if st, ms, lim := slowStage(c, res, slowLimitMs); st != "" {
		return "slow:" + st, fmt.Sprintf("stage %s used %d ms of CPU (limit %d ms)", st, ms, lim)
	}
	return "", ""
}

func furthest(res *Result) string {
	if res == nil || len(res.Stages) == 0 {
		return "none"
	}
	if res.Accepted {
		return "accepted"
	}
	st := res.Stages[len(res.Stages)-1]
	return st.Name + ":" + st.Status
}

// runBatch pushes cases through the children and processes outcomes in case order.
func (h *harness) runBatch(cases []*Case) {
	if onlyFam != "" {
		kept := cases[:0:0]
		for _, c := range cases {
			if strings.HasPrefix(c.Gen, onlyFam) {
				kept = append(kept, c)
			}
		}
		cases = kept
	}
	for _, c := range cases {
		c.ID = h.nextID
		h.nextID++
	}
	type outcome struct {
		res *Result
		cr  *Crash
	}
	outs := make(map[int]outcome, len(cases))
	h.pool.run(cases, func(c *Case, res *Result, cr *Crash) {
		outs[c.ID] = outcome{res, cr}
		if res != nil && res.Accepted && res.C != nil {
			csrc := res.C
			res.C = nil
			h.queueCC(c, csrc)
		}
	})
	r := h.r
	for _, c := range cases {
		o := outs[c.ID]
		fam := c.Gen
		if i := strings.IndexByte(fam, ':'); i >= 0 {
			fam = fam[:i]
		}
		r.Count("gen:" + fam)
		r.Count("outcome:" + furthest(o.res))
		if o.res != nil {
			for _, st := range o.res.Stages {
				r.Count("stage:" + st.Name + ":" + st.Status)
			}
			if o.res.ASTHeight > 0 {
				hb := "1-9"
				switch h := o.res.ASTHeight; {
				case h >= 100000:
					hb = "100000+"
				case h >= 1000:
					hb = "1000-99999"
				case h >= 100:
					hb = "100-999"
				case h >= 10:
					hb = "10-99"
				}
				r.Count("ast-height:" + hb)
			}
			if o.res.NTokens > 0 {
				sum := sha256.Sum256(c.Files[c.Primary].Src)
				r.Nontrivial(string(sum[:12]))
			}
		}
		if c.Tie {
			hexsrc := hlib.Hex(c.Files[c.Primary].Src)
			tok, par := "crash", "crash"
			if o.res != nil {
				tok, par = o.res.TokLine, o.res.ParseLine
			}
			r.Op("tok "+hexsrc, tok)
			if tieParse && par != "" && par != "notok" {
				r.Op("parse 1 "+hexsrc, par)
			}
			if tieParse && o.res != nil && o.res.ParseLine0 != "" {
				r.Op("parse 0 "+hexsrc, o.res.ParseLine0)
			}
			if c.Expr && o.res != nil && o.res.ExprLine != "" {
				r.Op("pexpr "+hexsrc, o.res.ExprLine)
			}
		}
		if o.res != nil {
			tot := int64(0)
			for _, st := range o.res.Stages {
				tot += st.CPUms
				h.cpuByFam[fam+"/"+st.Name] += st.CPUms
			}
			if debugSlow && tot > 1500 {
				fmt.Fprintf(os.Stderr, "slow case %d %s size=%d:", c.ID, c.Gen, caseSize(c))
				for _, st := range o.res.Stages {
					fmt.Fprintf(os.Stderr, " %s=%dms", st.Name, st.CPUms)
				}
				fmt.Fprintln(os.Stderr)
			}
		}
		if key, desc := verdict(c, o.res, o.cr); key != "" {
			if strings.HasPrefix(key, "slow:") || strings.HasPrefix(key, "hang:") {
				r.Count("suspect:" + key)
				key, desc = h.confirm(c, key)
			}
			if key != "" {
				h.fails = append(h.fails, failure{key, desc, c})
			}
		}
	}
}

// maxASTHeight is the constant of theorem parse_height_bounded (Props/C11.lean).
const maxASTHeight = 149764

var debugSlow = os.Getenv("C11_DEBUG") != ""
var onlyFam = os.Getenv("C11_ONLY") // debugging aid: run only generator families with this prefix

// tieParse: emit `parse` op lines (the Lean parser model covers whole files).
const tieParse = true

func main() {
	if len(os.Args) >= 3 && os.Args[1] == "-child" {
		childMain(os.Args[2])
		return
	}
	if len(os.Args) >= 3 && os.Args[1] == "-tiefile" {
		// debugging aid: print the tie lines of one source file
		b, err := os.ReadFile(os.Args[2])
		if err != nil {
			fmt.Println(err)
			os.Exit(2)
		}
		c := singleFile("tiefile", string(b))
		res := runCase(c, func(string) {})
		fmt.Println("tok " + hlib.Hex(b))
		fmt.Println(res.TokLine)
		fmt.Println("parse 1 " + hlib.Hex(b))
		fmt.Println(res.ParseLine)
		for _, st := range res.Stages {
			fmt.Println("#", st.Name, st.Status, st.Msg)
		}
		return
	}
	r := hlib.Start("C11")
	initVocabulary()
	if r.IsGen() {
		r.WriteGen("C11_Tables.lean", genLeanTables())
		return
	}

	std, err := hlib.GenStd(r.Repo)
	if err != nil {
		// `wuffs gen` over the unmodified std/ failed: the toolchain itself
		// panicked or rejected a valid program (or the tree does not build).
		msg := err.Error()
		key := "std-gen:error"
		if strings.Contains(msg, "panic:") || strings.Contains(msg, "goroutine ") {
			key = "std-gen:panic"
			if m := regexp.MustCompile(`github.com/google/wuffs/[a-z/]+\.\(?\*?[A-Za-z]*\)?\.?([A-Za-z0-9_]+)\(`).FindStringSubmatch(msg); m != nil {
				key += ":" + m[1]
			}
		}
		kept := []string(nil)
		for _, l := range strings.Split(msg, "\n") {
			if !strings.HasPrefix(l, "gen wrote:") && !strings.HasPrefix(l, "gen unchanged:") {
				kept = append(kept, l)
			}
		}
		// keep the head (panic message, first frames) and the tail (the failing command)
		if len(kept) > 60 {
			kept = append(append(kept[:40:40], "…"), kept[len(kept)-12:]...)
		}
		msg = strings.Join(kept, "\n")
		r.Fail(key, "running `wuffs gen` (cmd/wuffs + cmd/wuffs-c built from the working tree) over std/ failed", msg)
		r.Finish("std/ could not be generated; nothing else was run")
		return
	}
	defer std.Cleanup()
	h := &harness{r: r, std: std, genC: filepath.Join(std.Scratch, "gen", "c"), seenKey: map[string]int{}, cpuByFam: map[string]int64{}, ccSeen: map[[32]byte]bool{}}
	h.ccDir = filepath.Join(filepath.Dir(std.Scratch), "cc")
	os.MkdirAll(h.ccDir, 0o755)
	nw := runtime.NumCPU() / 2
	if nw > 8 {
		nw = 8
	}
	if nw < 2 {
		nw = 2
	}
	if !r.Thorough {
		maxStackForRun = quickMaxStack
	}
	r.Extra("child_max_stack_bytes", maxStackForRun)
	h.pool = &pool{genroot: std.Scratch, nWorkers: nw}
	ncc := nw
	if r.Thorough {
		ncc = runtime.NumCPU()
	}
	h.startCC(ncc)

	// The regenerated snapshot must equal the committed one (evidence; any
	// repair made under this property has to keep it so).
	if a, e1 := os.ReadFile(std.Snapshot); e1 == nil {
		if b, e2 := os.ReadFile(filepath.Join(r.Repo, "release", "c", "wuffs-unsupported-snapshot.c")); e2 == nil {
			if string(a) == string(b) {
				r.Count("snapshot:identical")
			} else {
				r.Count("snapshot:differs")
				r.Note("regenerated release/c/wuffs-unsupported-snapshot.c differs from the committed file")
			}
		}
	}

	phaseWall := map[string]float64{}
	phaseT0, phaseName := time.Now(), "setup"
	phase := func(next string) {
		phaseWall[phaseName] += time.Since(phaseT0).Seconds()
		phaseT0, phaseName = time.Now(), next
	}
	pkgs := loadCorpus(r.Repo)
	idents := []string{"foo", "bar", "x", "y", "args", "this", "src", "dst"}

	// 0. corpus of past failures, then the unmutated sources (must all be accepted and compile).
	var batch []*Case
	ents, _ := os.ReadDir("corpus/C11")
	for _, e := range ents {
		if b, err := os.ReadFile(filepath.Join("corpus/C11", e.Name())); err == nil && strings.HasSuffix(e.Name(), ".wuffs") {
			batch = append(batch, singleFile("corpus-file", string(b)))
		}
	}
	ents, _ = os.ReadDir("findings/C11")
	for _, e := range ents {
		if b, err := os.ReadFile(filepath.Join("findings/C11", e.Name())); err == nil && strings.HasSuffix(e.Name(), ".wuffs") {
			batch = append(batch, singleFile("finding-file", string(b)))
		}
	}
	for _, p := range pkgs {
		for i := range p.Files {
			c := p.asCase("std")
			c.Primary = i
			c.KeepC = i == 0
			batch = append(batch, c)
		}
	}
	for _, p := range pkgs {
		if p.Name == "png" {
			h.calib = p.asCase("calibration")
		}
	}
	if h.calib == nil {
		h.calib = pkgs[0].asCase("calibration")
	}
	nBaseline := len(batch)
	phase("baseline")
	h.runBatch(batch)
	_ = nBaseline

	// 1. every statement / declaration kind with one part missing or doubled; limits; deep nesting.
	phase("stmt")
	h.runBatch(stmtCases())
	phase("boundary")
	h.runBatch(boundaryCases(r.Thorough))
	depths := []int{3, 62, 63, 64, 65, 254, 255, 256, 257, 1000, 8000}
	if r.Thorough {
		depths = append(depths, 16000, 30000)
	}
	phase("nest")
	h.runBatch(nestCases(depths))
	phase("random")

	// 2. random streams.
	nRandom, nProgram, nCorpus, maxPkg := 1000, 1000, 800, 200_000
	if r.Thorough {
		nRandom, nProgram, nCorpus, maxPkg = 8000, 10000, 4000, 1_000_000
	}
	for done := 0; done < nRandom; done += 500 {
		batch = batch[:0]
		for i := 0; i < 500 && done+i < nRandom; i++ {
			if r.Rand.Chance(1, 2) {
				batch = append(batch, genRandomBytes(r.Rand))
			} else {
				batch = append(batch, genSoup(r.Rand, idents))
			}
		}
		h.runBatch(batch)
	}
	nStruct, nQuoted, nExpr := 120, 500, 1500
	if r.Thorough {
		nStruct, nQuoted, nExpr = 800, 4000, 12000
	}
	phase("expr")
	batch = batch[:0]
	for i := 0; i < nExpr; i++ {
		batch = append(batch, genExprCase(r.Rand))
	}
	h.runBatch(batch)
	phase("struct-graph")
	batch = batch[:0]
	for i := 0; i < nStruct; i++ {
		batch = append(batch, genStructGraph(r.Rand))
	}
	h.runBatch(batch)
	phase("quoted")
	batch = batch[:0]
	for i := 0; i < nQuoted; i++ {
		batch = append(batch, genQuotedLiteral(r.Rand))
	}
	h.runBatch(batch)
	phase("program")
	for done := 0; done < nProgram; done += 500 {
		batch = batch[:0]
		for i := 0; i < 500 && done+i < nProgram; i++ {
			batch = append(batch, genProgramCase(r.Rand, !r.Rand.Chance(1, 10)))
		}
		h.runBatch(batch)
	}
	phase("corpus")
	for done := 0; done < nCorpus; done += 300 {
		batch = batch[:0]
		for i := 0; i < 300 && done+i < nCorpus; i++ {
			batch = append(batch, genCorpusMutant(r.Rand, pkgs, maxPkg))
		}
		h.runBatch(batch)
	}

	phase("gcc-drain")
	close(h.ccJobs)
	h.ccWG.Wait()
	phase("minimise")
	sort.SliceStable(h.ccFails, func(i, j int) bool { return h.ccFails[i].c.ID < h.ccFails[j].c.ID })
	all := append(append([]failure(nil), h.fails...), h.ccFails...)
	sort.SliceStable(all, func(i, j int) bool { return all[i].c.ID < all[j].c.ID })

	// Report: first (minimised) case per key.
	mini := &minimiser{h: h, s: &single{genroot: std.Scratch}, deadline: 25 * time.Second}
	defer mini.s.close()
	nMin := 0
	for _, f := range all {
		h.seenKey[f.key]++
		r.Count("failure:" + f.key)
		if h.seenKey[f.key] > 1 {
			continue
		}
		c := f.c
		note := ""
		if nMin < 4 {
			nMin++
			if m := mini.minimise(c, f.key); m != nil {
				note = fmt.Sprintf("minimised from %d to %d bytes (%d runs)", len(c.Files[c.Primary].Src), len(m.Files[m.Primary].Src), mini.runs)
				c = m
			}
		}
		r.Fail(f.key, f.desc, replayText(c, note))
	}

	phase("end")
	if debugSlow {
		fmt.Fprintf(os.Stderr, "wall seconds by phase: %v\n", phaseWall)
	}
	r.Extra("cpu_ms_by_family_and_stage", h.cpuByFam)
	r.Extra("oracle_cases", h.nextID)
	r.Extra("gcc_runs", h.ccRuns)
	r.Extra("gcc_skipped_identical_c", h.ccCached)
	r.Extra("gcc_accepted_with_precompiled_base", h.ccPCH)
	r.Extra("workers", nw)
	r.Finish("sources: unmutated std/ + hello-wuffs-c packages; every lexeme of every statement/declaration template deleted or doubled; " +
		"tokenizer limits; nesting depth ladders of every recursive construct; random bytes and token soup; snippet programs and corpus packages under 1–3 " +
		"token/line/tree/byte mutations; packages of structs containing each other (plain, arrays) in random declaration order; " +
		"quoted literals assembled from complete and truncated escape atoms; random expressions (plain and mutated) through parse.ParseExpr. Non-trivial = tokenizes (reaches the parser); distinct by SHA-256 of the primary file.")
}
