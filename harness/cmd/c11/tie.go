package main

// Canonical one-line renderings of what token.Tokenize and parse.Parse
// answered, compared byte for byte with the Lean model's lines (Driver/C11).

import (
	"fmt"
	"strconv"
	"strings"

	a "github.com/google/wuffs/lang/ast"
	t "github.com/google/wuffs/lang/token"
)

// ---- FNV-1a 64 over 32-bit little-endian words / raw bytes (the Lean driver does the same).

type fnv uint64

const fnvInit = fnv(0xcbf29ce484222325)

func (h *fnv) byte(b byte) { *h = (*h ^ fnv(b)) * 0x100000001b3 }
func (h *fnv) u32(x uint32) {
	h.byte(byte(x))
	h.byte(byte(x >> 8))
	h.byte(byte(x >> 16))
	h.byte(byte(x >> 24))
}
func (h *fnv) bytes(s string) {
	for i := 0; i < len(s); i++ {
		h.byte(s[i])
	}
}

const listingLimit = 160 // sources up to this size also get a full listing

var tokErrClasses = []struct{ sub, class string }{
	{"too many lines", "lines"},
	{"backslash in", "backslash"},
	{"expected final", "unterminated"},
	{"control character", "control"},
	{"string too long", "strlong"},
	{"invalid '-string", "sqinvalid"},
	{"multi-byte '-string", "sqmulti"},
	{"identifier too long", "identlong"},
	{"legacy octal", "octal"},
	{"constant too long", "constlong"},
	{"invalid numeric", "numeric"},
	{"unrecognized", "unrecognized"},
	{"too many distinct tokens", "toomany"},
}

func errLineSuffix(msg string) string {
	i := strings.LastIndexByte(msg, ':')
	if i < 0 {
		return "-"
	}
	if _, err := strconv.ParseUint(msg[i+1:], 10, 32); err != nil {
		return "-"
	}
	return msg[i+1:]
}

func tokLine(tm *t.Map, tokens []t.Token, comments []string, err error, srcLen int) string {
	if err != nil {
		msg := err.Error()
		class := "other"
		for _, c := range tokErrClasses {
			if strings.Contains(msg, c.sub) {
				class = c.class
				break
			}
		}
		line := errLineSuffix(msg)
		if class == "lines" || class == "toomany" {
			line = "-"
		}
		return "err " + class + " " + line
	}
	h := fnvInit
	for _, tk := range tokens {
		h.u32(uint32(tk.ID))
		h.u32(tk.Line)
	}
	h.byte(0xFF)
	names := []string(nil)
	for id := t.ID(t.VerifNBuiltInIDs); ; id++ {
		s := tm.ByID(id)
		if s == "" {
			break
		}
		names = append(names, s)
		h.bytes(s)
		h.byte(0)
	}
	h.byte(0xFF)
	for _, c := range comments {
		h.bytes(c)
		h.byte('\n')
	}
	s := fmt.Sprintf("ok n=%d u=%d c=%d h=%016x", len(tokens), len(names), len(comments), uint64(h))
	if srcLen <= listingLimit {
		b := strings.Builder{}
		b.WriteString(s)
		b.WriteString(" t=")
		for i, tk := range tokens {
			if i > 0 {
				b.WriteByte(',')
			}
			fmt.Fprintf(&b, "%d:%d", tk.ID, tk.Line)
		}
		s = b.String()
	}
	return s
}

// dumpNode appends the generic pre-order dump of n: 0 for nil, else
// 1 kind flags id0 id1 id2 line lhs mhs rhs len(list0) list0… len(list1) … len(list2) …
func dumpNode(out *[]uint32, n *a.Node) {
	if n == nil {
		*out = append(*out, 0)
		return
	}
	r := n.AsRaw()
	ids := r.VerifIDs()
	_, line := r.FilenameLine()
	*out = append(*out, 1, uint32(n.Kind()), uint32(r.Flags()), uint32(ids[0]), uint32(ids[1]), uint32(ids[2]), line)
	for _, o := range r.SubNodes() {
		dumpNode(out, o)
	}
	for _, l := range r.SubLists() {
		*out = append(*out, uint32(len(l)))
		for _, o := range l {
			dumpNode(out, o)
		}
	}
}

func exprLine(e *a.Expr, err error, filename string) string {
	if err != nil {
		return parseLine(nil, nil, err, filename)
	}
	return dumpLine(e.AsNode())
}

func parseLine(tm *t.Map, file *a.File, err error, filename string) string {
	if err != nil {
		msg := err.Error()
		suffix := " at " + filename + ":"
		if i := strings.LastIndex(msg, suffix); i >= 0 {
			if _, e := strconv.ParseUint(msg[i+len(suffix):], 10, 32); e == nil {
				return "err " + msg[i+len(suffix):]
			}
		}
		return "err -"
	}
	return dumpLine(file.AsNode())
}

func dumpLine(n *a.Node) string {
	dump := make([]uint32, 0, 1024)
	dumpNode(&dump, n)
	h := fnvInit
	for _, x := range dump {
		h.u32(x)
	}
	s := fmt.Sprintf("ok n=%d h=%016x", len(dump), uint64(h))
	if len(dump) <= 400 {
		b := strings.Builder{}
		b.WriteString(s)
		b.WriteString(" d=")
		for i, x := range dump {
			if i > 0 {
				b.WriteByte(',')
			}
			b.WriteString(strconv.FormatUint(uint64(x), 10))
		}
		s = b.String()
	}
	return s
}
