package main

// C02, facts half: the REAL Wuffs front end in-process (token.Tokenize,
// parse.Parse, check.Check - what cmd/wuffs-c runs) and the documented
// `assert false` probe (doc/note/facts.md "Debugging Facts"): the compile error
// of a program with an `assert false` line carries the checker's situation at
// that line (check.Error.Facts).  No hook is needed.

import (
	"errors"
	"fmt"
	"strings"

	a "github.com/google/wuffs/lang/ast"
	"github.com/google/wuffs/lang/check"
	"github.com/google/wuffs/lang/parse"
	t "github.com/google/wuffs/lang/token"
)

const flowSrcName = "flow.wuffs"

type flowChecked struct {
	tm   *t.Map
	file *a.File
}

// flowCheck runs the front end exactly as the compiler does.  tm may be shared
// between the runs on one program and its probed variants, so that identifiers
// have the same token IDs in all of them (nil: a fresh map).
func flowCheck(tm *t.Map, src string) (ck *flowChecked, err error) {
	defer func() {
		if e := recover(); e != nil {
			ck, err = nil, fmt.Errorf("check: internal error: front end panicked: %v", e)
		}
	}()
	if tm == nil {
		tm = &t.Map{}
	}
	tokens, _, err := t.Tokenize(tm, flowSrcName, []byte(src))
	if err != nil {
		return nil, err
	}
	file, err := parse.Parse(tm, flowSrcName, tokens, nil)
	if err != nil {
		return nil, err
	}
	if _, err := check.Check(tm, []*a.File{file}, nil); err != nil {
		return nil, err
	}
	return &flowChecked{tm, file}, nil
}

// withProbeLine inserts an `assert false` line before line `before` (1-based)
// of src.
func withProbeLine(src string, before int) string {
	lines := strings.Split(src, "\n")
	if before < 1 || before > len(lines)+1 {
		return src
	}
	out := make([]string, 0, len(lines)+1)
	out = append(out, lines[:before-1]...)
	out = append(out, "assert false")
	out = append(out, lines[before-1:]...)
	return strings.Join(out, "\n")
}

// flowProbe returns the rendered facts the real checker holds where the probe
// stands. ok = false: the checker failed for another reason (unreachable code,
// ...). The facts are returned as source text (Expr.Str), to be re-parsed in
// the context of the unprobed program by the caller.
func flowProbe(src string, before int) (facts []string, ok bool) {
	_, err := flowCheck(nil, withProbeLine(src, before))
	var ce *check.Error
	if err == nil || !errors.As(err, &ce) {
		return nil, false
	}
	if ce.Err == nil || !strings.Contains(ce.Err.Error(), `cannot prove "false"`) {
		return nil, false
	}
	if int(ce.Line) != before {
		return nil, false
	}
	for _, f := range ce.Facts {
		facts = append(facts, f.Str(ce.TMap))
	}
	return facts, true
}

// flowProbeExprs is flowProbe returning the fact nodes themselves (typed by the
// checker run that produced them) together with their token map.
func flowProbeExprs(tm *t.Map, src string, before int) (facts []*a.Expr, ok bool) {
	_, err := flowCheck(tm, withProbeLine(src, before))
	var ce *check.Error
	if err == nil || !errors.As(err, &ce) {
		return nil, false
	}
	if ce.Err == nil || !strings.Contains(ce.Err.Error(), `cannot prove "false"`) {
		return nil, false
	}
	if int(ce.Line) != before {
		return nil, false
	}
	return append([]*a.Expr(nil), ce.Facts...), true
}

func firstLineOf(s string) string {
	if i := strings.IndexByte(s, '\n'); i >= 0 {
		return s[:i]
	}
	return s
}

// flowFront is the fast variant: the parsed built-in declarations are shared
// between calls (hook check.VerifBase of /repo/lang/check/verif_export_c01.go);
// one token map for all programs checked through it. Not for concurrent use.
// Verdicts that matter are confirmed with flowCheck (the plain check.Check).
type flowFront struct {
	tm   *t.Map
	base *check.VerifBase
	uses int
}

func newFlowFront() *flowFront {
	tm := &t.Map{}
	b, err := check.VerifNewBase(tm)
	if err != nil {
		panic("c02: VerifNewBase: " + err.Error())
	}
	return &flowFront{tm: tm, base: b}
}

func (f *flowFront) check(src string) (ck *flowChecked, err error) {
	defer func() {
		if e := recover(); e != nil {
			ck, err = nil, fmt.Errorf("check: internal error: front end panicked: %v", e)
		}
	}()
	f.uses++
	tokens, _, err := t.Tokenize(f.tm, flowSrcName, []byte(src))
	if err != nil {
		return nil, err
	}
	file, err := parse.Parse(f.tm, flowSrcName, tokens, nil)
	if err != nil {
		return nil, err
	}
	if _, err := f.base.Check([]*a.File{file}, nil); err != nil {
		return nil, err
	}
	return &flowChecked{f.tm, file}, nil
}

// probe returns the fact nodes the real checker holds where an `assert false`
// inserted before line `before` stands.
func (f *flowFront) probe(src string, before int) (facts []*a.Expr, ok bool) {
	_, err := f.check(withProbeLine(src, before))
	var ce *check.Error
	if err == nil || !errors.As(err, &ce) {
		return nil, false
	}
	if ce.Err == nil || !strings.Contains(ce.Err.Error(), `cannot prove "false"`) {
		return nil, false
	}
	if int(ce.Line) != before {
		return nil, false
	}
	return append([]*a.Expr(nil), ce.Facts...), true
}


// checkKeepAST is check, but also returns the (type-checked up to the error) AST when
// the checker fails.
func (f *flowFront) checkKeepAST(src string) (ck *flowChecked, err error) {
	defer func() {
		if e := recover(); e != nil {
			ck, err = nil, fmt.Errorf("check: internal error: front end panicked: %v", e)
		}
	}()
	f.uses++
	tokens, _, err := t.Tokenize(f.tm, flowSrcName, []byte(src))
	if err != nil {
		return nil, err
	}
	file, err := parse.Parse(f.tm, flowSrcName, tokens, nil)
	if err != nil {
		return nil, err
	}
	_, err = f.base.Check([]*a.File{file}, nil)
	return &flowChecked{f.tm, file}, err
}
