package main

import (
	"fmt"
	"os"

	"github.com/google/wuffs/lang/check"
	"github.com/google/wuffs/lang/parse"
	t "github.com/google/wuffs/lang/token"
	a "github.com/google/wuffs/lang/ast"
)

func main() {
	src, _ := os.ReadFile(os.Args[1])
	tm := &t.Map{}
	tokens, _, err := t.Tokenize(tm, "x.wuffs", src)
	if err != nil { fmt.Println("tokenize:", err); return }
	f, err := parse.Parse(tm, "x.wuffs", tokens, nil)
	if err != nil { fmt.Println("parse:", err); return }
	_, err = check.Check(tm, []*a.File{f}, nil)
	fmt.Println("check:", err)
}
