package main

// The axioms as the REAL checker applies them: for every listed axiom a Wuffs
// function is generated whose `if` conditions establish the requirements as
// facts and which then asserts the claim `via` the axiom.  lang/check must
// accept it; with one (non type-provable) requirement left out, or with the
// claim's comparison replaced by another one, it must reject it.  This runs
// data.go's reason functions, parseBinaryOp, argValue and
// proveReasonRequirement themselves (in-process).

import (
	"fmt"
	"os"
	"path/filepath"
	"sort"
	"strings"
	"time"

	a "github.com/google/wuffs/lang/ast"
	"github.com/google/wuffs/lang/check"
	"github.com/google/wuffs/lang/parse"
	t "github.com/google/wuffs/lang/token"

	"wvh/cmd/c02/ax"
	"wvh/hlib"
)

func wuffsExpr(n *ax.Node, top bool) string {
	if n.IsLeaf() {
		if c := n.Op[0]; '0' <= c && c <= '9' {
			return n.Op
		}
		return "args." + n.Op
	}
	op := n.Op
	if op == "!=" {
		op = "<>"
	}
	s := wuffsExpr(n.Lhs, false) + " " + op + " " + wuffsExpr(n.Rhs, false)
	if top {
		return s
	}
	return "(" + s + ")"
}

// subGuards collects `L >= R` for every subtraction `(L - R)` so that the
// expression itself passes the bounds checker.
func subGuards(n *ax.Node, out *[]string) {
	if n.IsLeaf() {
		return
	}
	subGuards(n.Lhs, out)
	subGuards(n.Rhs, out)
	if n.Op == "-" {
		*out = append(*out, wuffsExpr(n.Lhs, false)+" >= "+wuffsExpr(n.Rhs, false))
	}
}

func typeProvable(n *ax.Node) bool {
	// `0 <= v` holds for every base.u32 value: the checker proves it from the type
	return n.Op == "<=" && n.Lhs.IsLeaf() && n.Lhs.Op == "0" && n.Rhs.IsLeaf()
}

func vars(n *ax.Node, m map[string]bool) {
	if n.IsLeaf() {
		if c := n.Op[0]; 'a' <= c && c <= 'z' {
			m[n.Op] = true
		}
		return
	}
	vars(n.Lhs, m)
	vars(n.Rhs, m)
}

// program renders the test function; skip = index of the requirement to leave
// out (-1: none); claimOp overrides the claim's comparison ("" = as listed).
func program(x *ax.Axiom, skip int, claimOp string) string {
	var b strings.Builder
	b.WriteString("pub struct foo?(\n        unused : base.u8,\n)\n\npub func foo.bar!(")
	for i, v := range x.Vars {
		if i > 0 {
			b.WriteString(", ")
		}
		fmt.Fprintf(&b, "%s: base.u32[..= 1000]", v)
	}
	b.WriteString(") {\n")
	var conds []string
	subGuards(x.Claim, &conds)
	for _, r := range x.Reqs {
		subGuards(r, &conds)
	}
	for i, r := range x.Reqs {
		if i == skip || typeProvable(r) {
			continue
		}
		conds = append(conds, wuffsExpr(r, true))
	}
	for _, c := range conds {
		b.WriteString("    if " + c + " {\n")
	}
	claim := *x.Claim
	if claimOp != "" {
		claim.Op = claimOp
	}
	inClaim := map[string]bool{}
	vars(x.Claim, inClaim)
	var args []string
	for _, v := range x.Vars {
		if !inClaim[v] {
			args = append(args, v+": args."+v)
		}
	}
	fmt.Fprintf(&b, "    assert %s via \"%s\"(%s)\n", wuffsExpr(&claim, true), x.Text, strings.Join(args, ", "))
	for range conds {
		b.WriteString("    }\n")
	}
	b.WriteString("}\n")
	return b.String()
}

func runChecker(src string) string {
	out, ok := hlib.WithTimeout(60*time.Second, func() string {
		tm := &t.Map{}
		tokens, _, err := t.Tokenize(tm, "axiom.wuffs", []byte(src))
		if err != nil {
			return "tokenize-error: " + err.Error()
		}
		f, err := parse.Parse(tm, "axiom.wuffs", tokens, nil)
		if err != nil {
			return "parse-error: " + err.Error()
		}
		if _, err := check.Check(tm, []*a.File{f}, nil); err != nil {
			return "rejected: " + strings.ReplaceAll(err.Error(), "\n", " ")
		}
		return "accepted"
	})
	if !ok {
		return "timeout"
	}
	return out
}

func realCheckerPart(r *hlib.Run, l *loaded) {
	n := 0
	// corpus first: programs that misuse an axiom and must be rejected
	// (corpus/C02/reject-*.wuffs; past defects of the generated reason functions)
	if files, _ := filepath.Glob(filepath.Join("corpus", "C02", "reject-*.wuffs")); len(files) > 0 {
		sort.Strings(files)
		for _, f := range files {
			src, err := os.ReadFile(f)
			if err != nil {
				continue
			}
			out := runChecker(string(src))
			n++
			r.Count("realcheck:corpus:" + strings.SplitN(out, ":", 2)[0])
			if !strings.HasPrefix(out, "rejected") {
				r.Fail("corpus-accepted:"+filepath.Base(f), "lang/check accepts a program of the reject corpus (each holds an assertion / fact that is false at run time for some input, see the comment at its top): "+out, string(src))
			}
		}
	}
	for i, x := range l.md {
		if x == nil || len(x.Vars) == 0 || len(x.Vars) > 8 {
			continue
		}
		// positive use
		src := program(x, -1, "")
		out := runChecker(src)
		n++
		r.Count("realcheck:positive:" + strings.SplitN(out, ":", 2)[0])
		if out != "accepted" {
			r.Fail("reason-rejects-valid-use:"+x.Text, fmt.Sprintf("lang/check refuses a use of axiom %d %q although every requirement is an established fact: %s", i, x.Text, out), src)
			continue
		}
		r.Nontrivial("realcheck:" + x.Text)
		// one requirement missing
		for j, q := range x.Reqs {
			if typeProvable(q) {
				continue
			}
			src := program(x, j, "")
			out := runChecker(src)
			n++
			r.Count("realcheck:missing-premise:" + strings.SplitN(out, ":", 2)[0])
			if out == "accepted" {
				r.Fail("reason-accepts-without-premise:"+x.Text, fmt.Sprintf("lang/check accepts `assert … via %q` although the requirement %q is not established (no fact, not provable from the types)", x.Text, q.String()), src)
			} else if !strings.HasPrefix(out, "rejected") {
				r.Fail("reason-checker-breaks:"+x.Text, "lang/check: "+out, src)
			}
		}
		// wrong claim shape: another comparison than the axiom's
		for _, op := range []string{"<", "<=", "==", ">=", ">", "!="} {
			if op == x.Claim.Op {
				continue
			}
			// if the other comparison follows from the requirements anyway (e.g. `a == b`
			// from the fact `a == b`) the checker may rightly accept it without the axiom
			wrong := &ax.Axiom{Claim: &ax.Node{Op: op, Lhs: x.Claim.Lhs, Rhs: x.Claim.Rhs}, Reqs: x.Reqs, Vars: x.Vars}
			if _, refutable := wrong.CounterExample(3); !refutable {
				r.Count("realcheck:wrong-claim:skipped-implied")
				continue
			}
			src := program(x, -1, op)
			out := runChecker(src)
			n++
			r.Count("realcheck:wrong-claim:" + strings.SplitN(out, ":", 2)[0])
			if out == "accepted" {
				r.Fail("reason-accepts-wrong-claim:"+x.Text, fmt.Sprintf("lang/check accepts the claim %q via axiom %q, whose claim is %q", wuffsExpr(&ax.Node{Op: op, Lhs: x.Claim.Lhs, Rhs: x.Claim.Rhs}, true), x.Text, x.Claim.String()), src)
			}
		}
	}
	r.Extra("oracle_cases", n)
}
