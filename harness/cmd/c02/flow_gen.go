package main

// C02, facts half: checker-guided generator of small Wuffs packages that are
// dense in (a) ways to ESTABLISH facts (if / while conditions, assignments,
// asserts, I/O pre-conditions) over every kind of storage (locals, arguments,
// fields, array elements, slice elements and lengths, local slices aliasing
// arguments or fields, io_reader length / can_undo_byte / peeked bytes) and
// (b) ways to INVALIDATE them (assignment, op-assignment, element stores incl.
// through an alias, impure calls with and without by-reference arguments,
// coroutine suspension by yield? and by calling a coroutine, I/O advances and
// undo, loops, if-else reconciliation).  A candidate statement is appended and
// withdrawn again when the real checker rejects the program.

import (
	"fmt"
	"strings"

	"wvh/cmd/c02/ax"
	"wvh/hlib"
)

type flowProg struct {
	Coroutine bool     // thing.run is a coroutine (`run?`) rather than `run!`
	Scalar    bool     // only constructs of the Lean model's fragment (Model/Flow.lean)
	Body      []string // lines of thing.run's body (after the var lines), indented
	open      int      // blocks currently open in Body
	HasIO     bool
	HasData   bool
}

const flowStructText = `pub struct thing?(
        f0 : base.u32[..= 100],
        f1 : base.u8,
        tab : array[4] base.u8,
        buf : array[8] base.u8,
)

pri func thing.poke!(v: base.u8) {
    this.f1 = args.v
}

pri func thing.bump!() {
    this.f0 = 7
    this.tab[0] = 9
}

pri func thing.fill!(v: base.u8) {
    this.buf[0] = args.v
    this.buf[1] = args.v
}

pri func thing.scribble!(dst: slice base.u8, v: base.u8) {
    if args.dst.length() >= 1 {
        args.dst[0] = args.v
    }
    if args.dst.length() >= 2 {
        args.dst[1] = args.v
    }
}

pri func thing.get() base.u8 {
    return this.f1
}

pri func thing.first() base.u8 {
    return this.buf[0]
}

pri func thing.take!() base.u8 {
    this.f1 = this.f1 ~mod+ 3
    return this.f1
}

pri func thing.nap?() {
    yield? base."$short read"
}

pub func thing.tweak!(v: base.u8) {
    this.f1 = args.v
    this.buf[0] = args.v
    this.tab[0] = args.v
    if args.v <= 100 {
        this.f0 = args.v as base.u32
    }
}
`

func (p *flowProg) header() string {
	eff := "!"
	if p.Coroutine {
		eff = "?"
	}
	return flowStructText + "\npub func thing.run" + eff +
		"(n: base.u32[..= 7], v: base.u8, data: slice base.u8, src: base.io_reader) {\n" +
		"    var x : base.u32\n    var y : base.u8\n" + p.sliceVar() + "    var c : base.u32[..= 16]\n"
}

func (p *flowProg) sliceVar() string {
	if p.Scalar {
		return ""
	}
	return "    var s : slice base.u8\n"
}

// render: the program, plus the candidate lines, with every open block closed.
func (p *flowProg) render(extra ...string) string {
	q := &flowProg{Coroutine: p.Coroutine, Scalar: p.Scalar, Body: append([]string(nil), p.Body...), open: p.open}
	for _, l := range extra {
		q.push(l)
	}
	for q.open > 0 {
		q.push("}")
	}
	return q.header() + strings.Join(q.Body, "\n") + "\n}\n"
}

func (p *flowProg) push(line string) {
	tl := strings.TrimSpace(line)
	if strings.HasPrefix(tl, "}") {
		p.open--
	}
	p.Body = append(p.Body, strings.Repeat("    ", p.open+1)+tl)
	if strings.HasSuffix(tl, "{") {
		p.open++
	}
}

type flowGen struct {
	rd    *hlib.Rand
	fr    *flowFront
	p     *flowProg
	tries int
	stats map[string]int
	lastErr error
	curKind string
	l     *loaded  // the axiom listing
	rej   []string // sources of candidate programs the bounds checker rejected (scalar mode)
}

var flowConsts = []string{"0", "1", "2", "3", "4", "5", "7", "8", "100", "200"}
var flowRel = []string{"<", "<=", "==", ">=", ">", "<>"}
var flowInverseRel = map[string]string{"<": ">=", "<=": ">", "==": "<>", ">=": "<", ">": "<=", "<>": "=="}

func (g *flowGen) pick(xs ...string) string { return xs[g.rd.Intn(len(xs))] }

func (g *flowGen) smallConst() string { return flowConsts[g.rd.Intn(5)] }
func (g *flowGen) anyConst() string   { return flowConsts[g.rd.Intn(len(flowConsts))] }

// atomU8 / atomU32: readable places of the two scalar types used.
func (g *flowGen) atomU8() string {
	k := fmt.Sprint(g.rd.Intn(3))
	if g.p.Scalar {
		return g.pick("y", "args.v", "this.f1", "this.tab["+k+"]", "this.buf["+k+"]", "y", "this.f1")
	}
	switch g.rd.Intn(12) {
	case 0:
		return "y"
	case 1:
		return "args.v"
	case 2:
		return "this.f1"
	case 3:
		return "this.tab[" + k + "]"
	case 4:
		return "this.buf[" + k + "]"
	case 5, 6:
		return "args.data[" + k + "]"
	case 7, 8:
		return "s[" + k + "]"
	case 9:
		return "args.src.peek_u8()"
	case 10:
		return g.pick("this.get()", "this.first()")
	}
	return "y"
}

func (g *flowGen) atomU32() string {
	switch g.rd.Intn(4) {
	case 0:
		return "x"
	case 1:
		return "args.n"
	case 2:
		return "this.f0"
	}
	return "c"
}

// loopAtom: a place a loop body can change
func (g *flowGen) loopAtom() string { return g.pick("x", "c", "y", "x", "this.f0", "this.f1") }

func (g *flowGen) atomU64() string {
	return g.pick("args.data.length()", "s.length()", "args.src.length()", "args.src.length()")
}

func (g *flowGen) cond() string {
	if g.p.Scalar {
		switch g.rd.Intn(8) {
		case 0, 1, 2:
			return g.atomU8() + " " + g.pick(flowRel...) + " " + g.anyConst()
		case 3, 4, 5:
			return g.atomU32() + " " + g.pick(flowRel...) + " " + g.anyConst()
		case 6:
			a, b := g.atomU8(), g.atomU8()
			return a + " " + g.pick(flowRel...) + " " + b
		}
		a, b := g.atomU32(), g.atomU32()
		if g.rd.Chance(1, 4) {
			return "(" + a + " " + g.pick(flowRel...) + " " + g.anyConst() + ") " + g.pick("and", "or") + " (" + b + " " + g.pick(flowRel...) + " " + g.anyConst() + ")"
		}
		return a + " " + g.pick(flowRel...) + " " + b
	}
	switch g.rd.Intn(10) {
	case 0, 1, 2:
		return g.atomU8() + " " + g.pick(flowRel...) + " " + g.anyConst()
	case 3, 4:
		return g.atomU32() + " " + g.pick(flowRel...) + " " + g.anyConst()
	case 5, 6:
		return g.atomU64() + " " + g.pick(">=", ">=", ">", "==", "<>", "<") + " " + g.smallConst()
	case 7:
		return "args.src.can_undo_byte()"
	case 8:
		a, b := g.atomU8(), g.atomU8()
		return a + " " + g.pick(flowRel...) + " " + b
	}
	a, b := g.atomU32(), g.atomU32()
	return a + " " + g.pick(flowRel...) + " " + b
}

func (g *flowGen) exprU8() string {
	switch g.rd.Intn(4) {
	case 0:
		return g.anyConst()
	case 1:
		return g.atomU8() + " " + g.pick("~mod+", "~sat+", "&") + " " + g.smallConst()
	}
	return g.atomU8()
}

func (g *flowGen) exprU32() string {
	switch g.rd.Intn(5) {
	case 0:
		return g.anyConst()
	case 1:
		return g.atomU32() + " + " + g.smallConst()
	case 2:
		return "(" + g.atomU8() + " as base.u32)"
	}
	return g.atomU32()
}

func (g *flowGen) sliceExpr() string {
	switch g.rd.Intn(8) {
	case 0, 1:
		return "args.data[..]"
	case 2:
		return "args.data[" + g.smallConst() + " ..]"
	case 3:
		return "args.data[.. " + g.smallConst() + "]"
	case 4:
		return "this.buf[..]"
	case 5:
		return "this.buf[" + g.pick("0", "1", "2") + " .. " + g.pick("4", "6", "8") + "]"
	case 6:
		return "s[" + g.pick("0", "1") + " ..]"
	}
	return "this.tab[..]"
}

func (g *flowGen) sliceArg() string {
	return g.pick("args.data", "s", "args.data", "s", "this.buf[..]", "this.tab[..]", "args.data[1 ..]")
}

// staleProbe: establish a fact, invalidate it, then `assert` it again.  The assertion is
// not provable any more, so the real checker must reject the candidate (it is then
// withdrawn; in scalar mode the Lean model must reject it too).  A checker that forgets
// an invalidation accepts it, and the assertion is then evaluated at run time.
func (g *flowGen) staleProbe() (kind string, lines []string) {
	k := g.pick("3", "4", "5")
	wrap := func(cond string, mid ...string) []string {
		out := []string{"if " + cond + " {"}
		out = append(out, mid...)
		return append(out, "assert "+cond, "}")
	}
	n := 7
	if !g.p.Scalar {
		n = 13
	}
	if g.p.Coroutine {
		switch g.rd.Intn(4) {
		case 0:
			return "stale-violating:arg-after-yield", wrap("args.n < "+k, `yield? base."$short read"`)
		case 1:
			return "stale-violating:field-after-coroutine-call", wrap("this.f1 < "+k, "this.nap?()")
		}
	}
	switch g.rd.Intn(n) {
	case 0:
		return "stale-violating:field-after-impure-call", wrap("this.f1 < "+k, "this.poke!(v: 9)")
	case 1:
		return "stale-violating:local-after-assign", wrap("x < "+k, "x = args.n")
	case 2:
		return "stale-violating:local-after-op-assign", wrap("x < "+k, "x += 1")
	case 3:
		return "stale-violating:field-after-store", wrap("this.f0 < "+k, "this.f0 = args.n")
	case 4:
		return "stale-violating:local-after-if-join", []string{"if args.n < 2 {", "y = 1", "} else {", "y = args.v", "}", "assert y == 1"}
	case 5:
		return "stale-violating:local-after-loop", []string{"y = 1", "while c < args.n {", "c += 1", "y = 2", "}", "assert y == 1"}
	case 6:
		return "stale-violating:field-after-call-result", wrap("this.f1 < "+k, "y = this.take!()")
	case 7:
		return "stale-violating:array-elem-after-store", wrap("this.tab[0] < "+k, "this.tab[args.n & 3] = 9")
	case 8:
		return "stale-violating:slice-elem-after-alias-store", []string{"s = args.data[..]", "if args.data.length() >= 1 {", "if s.length() >= 1 {",
			"if args.data[0] < " + k + " {", "s[0] = 9", "assert args.data[0] < " + k, "}", "}", "}"}
	case 9:
		return "stale-violating:slice-elem-after-call", []string{"if args.data.length() >= 1 {", "if args.data[0] < " + k + " {",
			"this.scribble!(dst: " + g.pick("args.data", "args.data[..]", "args.data[0 ..]") + ", v: 9)", "assert args.data[0] < " + k, "}", "}"}
	case 10:
		return "stale-violating:io-length-after-skip", []string{"if args.src.length() >= 2 {", "args.src.skip_u32_fast!(actual: 2, worst_case: 2)",
			"assert args.src.length() >= 2", "}"}
	case 11:
		return "stale-violating:can-undo-after-maybe-zero-skip", []string{"if args.src.length() >= 1 {", "args.src.skip_u32_fast!(actual: args.n & 1, worst_case: 1)",
			"assert args.src.can_undo_byte()", "}"}
	}
	return "stale-violating:pure-call-after-store", wrap("this.get() < "+k, "this.f1 = 9")
}

// invalidator: one statement that changes state.
func (g *flowGen) invalidator() (kind, line string) {
	k := fmt.Sprint(g.rd.Intn(3))
	if g.p.Scalar {
		n := 8
		if g.p.Coroutine {
			n = 11
		}
		switch g.rd.Intn(n) {
		case 0, 1:
			return "assign-local", g.pick("x = "+g.exprU32(), "y = "+g.exprU8(), "c = "+g.exprU32())
		case 2, 3:
			return "op-assign", g.pick("x", "c", "y", "this.f0") + " " + g.pick("+=", "-=") + " " + g.pick("1", "2", "1")
		case 4, 5:
			return "store-field", g.pick("this.f0 = "+g.exprU32(), "this.f1 = "+g.exprU8())
		case 6:
			return "call-impure", g.pick("this.poke!(v: "+g.exprU8()+")", "this.bump!()", "this.fill!(v: "+g.exprU8()+")")
		case 7:
			return "assign-from-impure-call", g.pick("y = this.take!()", "this.f1 = this.take!()")
		case 8, 9:
			return "yield", `yield? base."$short read"`
		}
		return "coroutine-call", "this.nap?()"
	}
	n := 16
	if g.p.Coroutine {
		n = 20
	}
	switch g.rd.Intn(n) {
	case 0:
		return "assign-local", g.pick("x = "+g.exprU32(), "y = "+g.exprU8(), "c = "+g.exprU32())
	case 1:
		return "op-assign", g.pick("x", "c", "y") + " " + g.pick("+=", "-=") + " " + g.pick("1", "2", "1")
	case 2:
		return "store-field", g.pick("this.f0 = "+g.exprU32(), "this.f1 = "+g.exprU8())
	case 3:
		return "store-array-elem", g.pick("this.tab[", "this.buf[") + g.pick(k, "x", "args.n", "c") + "] = " + g.exprU8()
	case 4, 5:
		return "store-slice-elem", g.pick("args.data[", "s[") + g.pick(k, k, "x") + "] = " + g.exprU8()
	case 6:
		return "assign-slice", "s = " + g.sliceExpr()
	case 7:
		return "call-impure", g.pick("this.poke!(v: "+g.exprU8()+")", "this.bump!()", "this.fill!(v: "+g.exprU8()+")")
	case 8, 9:
		return "call-impure-slice", "this.scribble!(dst: " + g.sliceArg() + ", v: " + g.exprU8() + ")"
	case 10, 11:
		return "io-skip", "args.src.skip_u32_fast!(actual: " + g.pick("args.n", "c", "1", "2", "0", g.smallConst()) + ", worst_case: " + g.pick("1", "2", "4", "7", "8") + ")"
	case 12:
		return "io-undo", "args.src.undo_byte!()"
	case 13:
		return "assign-from-io", g.pick("y = args.src.peek_u8()", "x = args.src.peek_u16le_as_u32()", "y = args.src.peek_undo_byte()")
	case 14:
		return "assign-from-call", g.pick("y = this.get()", "y = this.first()", "y = this.take!()")
	case 15:
		return "assign-length", g.pick("c = (args.data.length() & 15) as base.u32", "c = (s.length() & 15) as base.u32", "c = (args.src.length() & 15) as base.u32")
	case 16, 17:
		return "yield", `yield? base."$short read"`
	case 18:
		return "coroutine-call", "this.nap?()"
	case 19:
		return "io-read", g.pick("y = args.src.read_u8?()", "x = args.src.read_u8_as_u32?()")
	}
	return "assign-local", "x = 0"
}

func (g *flowGen) accepts(extra ...string) bool {
	g.tries++
	src := g.p.render(extra...)
	_, err := g.fr.check(src)
	g.lastErr = err
	if err != nil && g.p.Scalar && (len(g.rej) < 8 || strings.Contains(g.curKind, "violating")) && flowBoundsPhaseError(err) {
		g.rej = append(g.rej, src)
	}
	return err == nil
}

// flowErrClass: a small stable word for a front-end error (for the histograms)
func flowErrClass(err error) string {
	s := err.Error()
	for _, w := range []string{"cannot prove", "is not within bounds", "inconsistent with fact", "unreachable code",
		"could not prove", "parse:", "tokenize", "internal error"} {
		if strings.Contains(s, w) {
			return strings.ReplaceAll(strings.TrimSuffix(w, ":"), " ", "-")
		}
	}
	return "type-or-other"
}

// flowBoundsPhaseError: the program passed the type checker and was rejected by the
// bounds / facts phase (the part that the Lean model mirrors).
func flowBoundsPhaseError(err error) bool {
	s := err.Error()
	for _, w := range []string{"cannot prove", "is not within bounds", "inconsistent with fact", "unreachable code"} {
		if strings.Contains(s, "check: "+w) {
			return true
		}
	}
	return false
}

// axiomUse: `if <requirement> { … assert <claim> via "<axiom>"(<args>) … }` for a listed
// axiom instantiated with u32 atoms.
func (g *flowGen) axiomUse() []string {
	if g.l == nil || len(g.l.md) == 0 {
		return nil
	}
	x := g.l.md[g.rd.Intn(len(g.l.md))]
	if x == nil || len(x.Vars) == 0 || len(x.Vars) > 6 {
		return nil
	}
	m := map[string]string{}
	for _, v := range x.Vars {
		m[v] = g.pick("x", "c", "args.n", "this.f0", "x", "c")
	}
	var expr func(n *ax.Node, top bool) string
	expr = func(n *ax.Node, top bool) string {
		if n.IsLeaf() {
			if a, ok := m[n.Op]; ok {
				return a
			}
			return n.Op
		}
		op := n.Op
		if op == "!=" {
			op = "<>"
		}
		s := expr(n.Lhs, false) + " " + op + " " + expr(n.Rhs, false)
		if top {
			return s
		}
		return "(" + s + ")"
	}
	var guards func(n *ax.Node, out *[]string)
	guards = func(n *ax.Node, out *[]string) {
		if n.IsLeaf() {
			return
		}
		guards(n.Lhs, out)
		guards(n.Rhs, out)
		if n.Op == "-" {
			*out = append(*out, expr(n.Lhs, false)+" >= "+expr(n.Rhs, false))
		}
	}
	var conds []string
	guards(x.Claim, &conds)
	for _, r := range x.Reqs {
		guards(r, &conds)
	}
	skip := -1
	if g.rd.Chance(1, 4) {
		skip = g.rd.Intn(len(x.Reqs)) // a requirement left out: the use should be rejected
	}
	for i, r := range x.Reqs {
		if i == skip || typeProvable(r) {
			continue
		}
		conds = append(conds, expr(r, true))
	}
	inClaim := map[string]bool{}
	vars(x.Claim, inClaim)
	var args []string
	for _, v := range x.Vars {
		if !inClaim[v] {
			args = append(args, v+": "+m[v])
		}
	}
	var lines []string
	for _, c := range conds {
		lines = append(lines, "if "+c+" {")
	}
	lines = append(lines, fmt.Sprintf("assert %s via \"%s\"(%s)", expr(x.Claim, true), x.Text, strings.Join(args, ", ")))
	for range conds {
		lines = append(lines, "}")
	}
	return lines
}

func (g *flowGen) try(kind string, lines ...string) bool {
	g.curKind = kind
	defer func() { g.curKind = "" }()
	if g.accepts(lines...) {
		for _, l := range lines {
			g.p.push(l)
		}
		g.stats["gen:accepted:"+kind]++
		return true
	}
	g.stats["gen:withdrawn:"+kind]++
	if g.lastErr != nil && (strings.Contains(kind, "continue") || strings.Contains(kind, "break") || kind == "while") {
		g.stats["gen:withdrawn-why:"+kind+":"+flowErrClass(g.lastErr)]++
	}
	return false
}

// block generates statements at the end of the currently open block.
func (g *flowGen) block(depth, budget int) {
	n := g.rd.Range(1, 5)
	for i := 0; i < n && len(g.p.Body) < budget; i++ {
		switch r := g.rd.Intn(20); {
		case r < 7 && depth < 5:
			// establish a fact by a guard
			for a := 0; a < 4; a++ {
				if g.try("if", "if "+g.cond()+" {") {
					g.block(depth+1, budget)
					if g.rd.Chance(1, 3) {
						if g.try("else", "} else {") {
							g.block(depth+1, budget)
						}
					}
					g.p.push("}")
					break
				}
			}
		case r < 8 && depth < 4:
			// a loop: the situation is reset to the invariants; jumps must re-prove them
			la, lop, lk := g.loopAtom(), g.pick("<", "<=", "<>", ">", ">="), g.anyConst()
			head := "while " + la + " " + lop + " " + lk
			counter := ""
			switch {
			case g.rd.Chance(3, 5):
				// a counting loop: `v = 0; while v < K, inv v <= K [, post v >= K] { …; v += 1 }`
				la, lop, lk = g.pick("x", "c", "y"), "<", g.pick("3", "4", "5", "7")
				if !g.try("assign-local", la+" = 0") {
					break
				}
				counter = la
				head = "while " + la + " < " + lk + ", inv " + la + " <= " + lk
				if g.rd.Chance(1, 2) {
					head += ", post " + la + " >= " + lk
				}
			case g.rd.Chance(1, 3):
				head = "while " + g.cond()
				lop = ""
				if g.rd.Chance(1, 2) {
					head += ", inv " + g.cond()
				}
			default:
				if g.rd.Chance(2, 3) {
					head += ", inv " + g.pick(la+" "+g.pick("<=", "<", ">=", "<>")+" "+g.anyConst(), g.cond())
				}
				if g.rd.Chance(1, 3) {
					head += ", post " + la + " " + flowInverseRel[lop] + " " + lk
				}
			}
			if strings.Contains(head, ", inv ") || strings.Contains(head, ", post ") {
				head += "," // the assertion list of a loop ends with a comma
			}
			if g.try("while", head+" {") {
				for j := g.rd.Range(0, 2); j > 0; j-- {
					// a jump right after a state change: accepted only if the loop's conditions
					// are re-proved there
					_, inval := g.invalidator()
					if g.rd.Chance(1, 2) && lop != "" {
						inval = la + " " + g.pick("+=", "-=", "=") + " " + g.pick("1", "2", lk)
					}
					jump := g.pick("continue", "continue", "break")
					switch g.rd.Intn(3) {
					case 0:
						g.try(jump+"-after-change", "if "+g.cond()+" {", inval, jump, "}")
					case 1:
						g.try(jump+"-in-if", "if "+g.cond()+" {", jump, "}")
					default:
						g.try("change-in-loop", inval)
					}
				}
				if counter != "" && g.rd.Chance(2, 3) {
					// a jump where a loop condition is plainly false: must be rejected
					// (inv `v <= K` after `v = K + 2`; post `v >= K` after `v = 0`)
					guard := g.pick("args.n >= 0", "args.v <> 3", "args.n < 6", "this.f1 <> 77")
					if g.rd.Chance(1, 2) {
						g.try("continue-violating-inv", "if "+guard+" {", counter+" = "+lk+" + 2", "continue", "}")
					} else {
						g.try("break-violating-inv", "if "+guard+" {", counter+" = "+lk+" + 2", "break", "}")
					}
					if strings.Contains(head, ", post ") && g.rd.Chance(1, 2) {
						g.try("break-violating-post", "if "+guard+" {", counter+" = 0", "break", "}")
					}
				}
				g.block(depth+1, budget)
				if g.rd.Chance(1, 3) {
					g.try("continue-in-if", "if "+g.cond()+" {", "continue", "}")
				}
				if g.rd.Chance(1, 3) {
					g.try("break", "break")
				}
				if counter != "" {
					g.try("op-assign", counter+" += 1")
				}
				// the body must be closable (invariant provable at the implicit continue)
				if !g.accepts("}") {
					// make it so: end the body with a break
					if !g.try("break", "break") {
						g.p.push("break")
					}
				}
				g.p.push("}")
			}
		case r < 9:
			g.try("assert", "assert "+g.cond())
		case r < 11 && g.p.Scalar:
			if lines := g.axiomUse(); lines != nil {
				g.try("axiom-use", lines...)
			}
		case r < 12:
			kind, lines := g.staleProbe()
			g.try(kind, lines...)
		default:
			for a := 0; a < 3; a++ {
				kind, line := g.invalidator()
				if g.try(kind, line) {
					break
				}
			}
		}
	}
}

func flowGenerate(rd *hlib.Rand, fr *flowFront, stats map[string]int, l *loaded, scalar bool) (*flowProg, []string) {
	p := &flowProg{Coroutine: rd.Chance(1, 2), Scalar: scalar}
	g := &flowGen{rd: rd, fr: fr, p: p, stats: stats, l: l}
	budget := rd.Range(10, 28)
	if scalar {
		for len(p.Body) < budget && g.tries < 300 {
			g.block(0, budget)
		}
		for p.open > 0 {
			p.push("}")
		}
		return p, g.rej
	}
	// preamble: a local slice (an alias of an argument or of a field) and length guards, so that
	// element reads / stores and I/O operations are accepted further down
	if rd.Chance(2, 3) {
		g.try("assign-slice", "s = "+g.sliceExpr())
	}
	if rd.Chance(3, 4) {
		g.try("if", "if args.data.length() >= "+g.pick("2", "3", "4")+" {")
	}
	if rd.Chance(1, 2) {
		g.try("if", "if s.length() >= "+g.pick("1", "2", "3")+" {")
	}
	if rd.Chance(2, 3) {
		g.try("if", "if args.src.length() >= "+g.pick("2", "4", "8", "9")+" {")
	}
	budget += len(p.Body)
	for len(p.Body) < budget && g.tries < 300 {
		g.block(p.open, budget)
	}
	for p.open > 0 {
		p.push("}")
	}
	return p, nil
}
