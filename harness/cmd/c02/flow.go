package main

// C02, facts half: driver.  For every generated (and corpus) program that the
// REAL checker accepts: read the checker's situation at every line boundary of
// every function body (the `assert false` probe), then execute call histories
// (argument extremes; for coroutines: suspension / resumption patterns in which
// the caller changes the arguments, the slice contents and the I/O buffers, and
// may call another public method in between) with the reference interpreter,
// which evaluates at each reached boundary every fact held there and every
// accepted assert / loop condition list.  A false one is the failing input.

import (
	"fmt"
	"math/big"
	"os"
	"path/filepath"
	"runtime"
	"sort"
	"strings"
	"sync"

	a "github.com/google/wuffs/lang/ast"
	t "github.com/google/wuffs/lang/token"

	"wvh/hlib"
)

// ---- block structure of the rendered text

// flowBraces maps the line (1-based) of every block-opening `{` to the line of
// its closing `}` (one statement per line; `} else {` closes and opens).
func flowBraces(src string) map[int]int {
	m := map[int]int{}
	var stack []int
	for i, l := range strings.Split(src, "\n") {
		tl := strings.TrimSpace(l)
		if strings.HasPrefix(tl, "//") {
			continue
		}
		if strings.HasPrefix(tl, "}") {
			if len(stack) > 0 {
				m[stack[len(stack)-1]] = i + 1
				stack = stack[:len(stack)-1]
			}
		}
		if strings.HasSuffix(tl, "{") {
			stack = append(stack, i+1)
		}
	}
	return m
}

// flowBodyLines: the lines inside function bodies (where a probe can stand).
func flowBodyLines(src string) []int {
	var out []int
	depth := 0
	for i, l := range strings.Split(src, "\n") {
		tl := strings.TrimSpace(l)
		closes := strings.HasPrefix(tl, "}")
		if closes {
			depth--
		}
		if depth >= 1 || (closes && depth == 0) {
			if tl != "" && !strings.HasPrefix(tl, "var ") && !strings.HasPrefix(tl, "//") {
				out = append(out, i+1)
			}
		}
		if strings.HasSuffix(tl, "{") {
			depth++
		}
	}
	return out
}

// ---- argument values

type flowArgs struct {
	N, V   int64
	Data   []byte // contents of the data slice
	Alias  bool   // resume: keep the previous backing cells (contents rewritten)
	Buf    []byte
	Ri, Wi int
	Closed bool
	SameIO bool // resume: same io buffer object, grown / compacted
}

func (x flowArgs) String() string {
	return fmt.Sprintf("n=%d v=%d data=%v src={buf=%v ri=%d wi=%d closed=%v}", x.N, x.V, x.Data, x.Buf[:x.Wi], x.Ri, x.Wi, x.Closed)
}

var flowBytes = []byte{0, 1, 2, 3, 4, 5, 7, 9, 100, 200, 255}

func flowRandArgs(rd *hlib.Rand) flowArgs {
	x := flowArgs{}
	x.N = int64(rd.Intn(8))
	x.V = int64(flowBytes[rd.Intn(len(flowBytes))])
	dl := []int{0, 1, 2, 3, 4, 8}[rd.Intn(6)]
	if rd.Chance(2, 3) {
		dl = []int{3, 4, 8}[rd.Intn(3)]
	}
	x.Data = make([]byte, dl)
	small := rd.Chance(1, 2)
	for i := range x.Data {
		if small {
			x.Data[i] = byte(rd.Intn(5))
		} else {
			x.Data[i] = flowBytes[rd.Intn(len(flowBytes))]
		}
	}
	x.Ri = []int{0, 0, 1, 3}[rd.Intn(4)]
	avail := []int{0, 1, 2, 3, 8, 9, 16}[rd.Intn(7)]
	if rd.Chance(1, 2) {
		avail = []int{8, 9, 16}[rd.Intn(3)]
	}
	x.Wi = x.Ri + avail
	x.Buf = make([]byte, x.Wi+rd.Intn(3))
	small = rd.Chance(1, 2)
	for i := range x.Buf {
		if small {
			x.Buf[i] = byte(rd.Intn(5))
		} else {
			x.Buf[i] = flowBytes[rd.Intn(len(flowBytes))]
		}
	}
	x.Closed = rd.Chance(1, 4)
	x.Alias = rd.Chance(1, 2)
	x.SameIO = rd.Chance(1, 2)
	return x
}

type flowCall struct {
	Kind string // "run" (call or start), "resume", "tweak"
	Args flowArgs
}

type flowHistory []flowCall

func (h flowHistory) String() string {
	var q []string
	for _, c := range h {
		switch c.Kind {
		case "tweak":
			q = append(q, fmt.Sprintf("tweak!(v=%d)", c.Args.V))
		default:
			q = append(q, c.Kind+"("+c.Args.String()+")")
		}
	}
	return strings.Join(q, "\n    ")
}

func flowRandHistory(rd *hlib.Rand, coroutine bool) flowHistory {
	var h flowHistory
	if rd.Chance(1, 3) {
		h = append(h, flowCall{"tweak", flowRandArgs(rd)})
	}
	h = append(h, flowCall{"run", flowRandArgs(rd)})
	if coroutine {
		for i := rd.Range(1, 5); i > 0; i-- {
			if rd.Chance(1, 3) {
				h = append(h, flowCall{"tweak", flowRandArgs(rd)})
			}
			h = append(h, flowCall{"resume", flowRandArgs(rd)})
		}
	} else if rd.Chance(1, 3) {
		h = append(h, flowCall{"run", flowRandArgs(rd)})
	}
	return h
}

// ---- one program

type flowResult struct {
	Idx      int
	Origin   string
	Src      string
	Accepted bool
	RejErr   string
	Notes    []string
	Stats    map[string]int
	Fails    []hlib.Failure
	Points   int
	FactsN   int
	Eval     int
	Done     int // histories completed
	Ops      []opLine
	factsAt  map[int][]*a.Expr
	ck       *flowChecked

	Coroutine bool
	Hists     []flowHistory
	HistDone  []bool     // completed by the interpreter without failure
	Obs       [][]string // per history: one observation line per call
}

type opLine struct{ op, impl string }

func (in *flowInterp) mkArgs(x flowArgs, prevData *fval, prevIO *fio) (map[t.ID]*fval, *fval, *fio) {
	args := map[t.ID]*fval{}
	id := func(s string) t.ID { return in.tm.ByName(s) }
	args[id("n")] = &fval{I: big.NewInt(x.N)}
	args[id("v")] = &fval{I: big.NewInt(x.V)}
	var data *fval
	if prevData != nil && x.Alias {
		// the caller rewrites the same memory and passes the same slice again
		for i, c := range prevData.Sl {
			if i < len(x.Data) {
				c.I = big.NewInt(int64(x.Data[i]))
			} else {
				c.I = big.NewInt(int64(flowBytes[(i*7+int(x.V))%len(flowBytes)]))
			}
		}
		data = prevData
	} else {
		data = &fval{isSl: true}
		for _, b := range x.Data {
			data.Sl = append(data.Sl, &fval{I: big.NewInt(int64(b))})
		}
	}
	args[id("data")] = data
	var io *fio
	if prevIO != nil && x.SameIO {
		// the caller compacts the buffer and appends more data
		io = prevIO
		rest := append([]byte(nil), io.buf[io.ri:io.wi]...)
		io.buf = append(rest, x.Buf[:x.Wi]...)
		io.ri, io.wi = 0, len(io.buf)
		io.closed = io.closed || x.Closed
	} else {
		io = &fio{buf: append([]byte(nil), x.Buf...), ri: x.Ri, wi: x.Wi, closed: x.Closed}
	}
	args[id("src")] = &fval{IO: io}
	return args, data, io
}

func flowStatusWord(s string, coroutine bool) string {
	switch {
	case !coroutine:
		return "-"
	case strings.Contains(s, "$short read"):
		return "short read"
	case strings.Contains(s, "$short write"):
		return "short write"
	case s == "ok":
		return "ok"
	}
	return s
}

func (in *flowInterp) runHistory(h flowHistory, coroutine bool) (status string, fail *fAbort, obs []string) {
	in.reset()
	in.fuel = 4000
	var data *fval
	var io *fio
	defer in.killCoroutine()
	for _, c := range h {
		var res flowCallResult
		switch c.Kind {
		case "tweak":
			res = in.callPublic("tweak", map[t.ID]*fval{in.tm.ByName("v"): {I: big.NewInt(c.Args.V)}})
			if res.Fail == nil && res.Status == "ok" {
				obs = append(obs, in.observe("-", nil, nil))
			}
		case "run":
			var args map[t.ID]*fval
			args, data, io = in.mkArgs(c.Args, nil, nil)
			if coroutine {
				res = in.startCoroutine("run", args)
			} else {
				res = in.callPublic("run", args)
			}
		case "resume":
			if !in.suspended {
				return "ok", nil, obs
			}
			var args map[t.ID]*fval
			args, data, io = in.mkArgs(c.Args, data, io)
			res = in.resumeCoroutine(args)
		}
		if res.Fail != nil {
			return "abort", res.Fail, obs
		}
		if res.Status == "error-status" {
			return "ok", nil, obs // the object is disabled from here on
		}
		if res.Status != "ok" && !strings.HasPrefix(res.Status, "suspended:") {
			return res.Status, nil, obs
		}
		if c.Kind != "tweak" {
			obs = append(obs, in.observe(flowStatusWord(res.Status, coroutine), data, io))
		}
	}
	return "ok", nil, obs
}

func flowCulpritOfKey(key string) string {
	if i := strings.LastIndex(key, ":after-"); i >= 0 {
		return key[i+len(":after-"):]
	}
	return ""
}

// flowRunProgram: probe + execute one accepted program.
func flowRunProgram(fr *flowFront, rd *hlib.Rand, res *flowResult, coroutine bool, nHist int) {
	src := res.Src
	ck, err := fr.check(src)
	if err != nil {
		res.Accepted, res.RejErr = false, firstLineOf(err.Error())
		return
	}
	// the verdict that matters comes from the plain check.Check
	if _, err := flowCheck(nil, src); err != nil {
		res.Accepted, res.RejErr = false, "fast front end accepts but check.Check rejects: "+firstLineOf(err.Error())
		res.Notes = append(res.Notes, res.RejErr)
		return
	}
	res.Accepted = true
	in := newFlowInterp(ck)
	in.closeLine = flowBraces(src)
	in.factsAt = map[int][]*a.Expr{}
	res.factsAt, res.ck = in.factsAt, ck
	for _, line := range flowBodyLines(src) {
		facts, ok := fr.probe(src, line)
		if !ok {
			continue
		}
		res.Points++
		res.FactsN += len(facts)
		if facts == nil {
			facts = []*a.Expr{}
		}
		in.factsAt[line] = facts
	}
	seen := map[string]bool{}
	res.Coroutine = coroutine
	for hi := 0; hi < nHist; hi++ {
		h := flowRandHistory(rd, coroutine)
		status, fail, obs := in.runHistory(h, coroutine)
		res.Hists = append(res.Hists, h)
		res.Obs = append(res.Obs, obs)
		res.HistDone = append(res.HistDone, fail == nil && status == "ok")
		switch {
		case fail != nil:
			res.Stats["hist:abort"]++
			if !seen[fail.key] {
				seen[fail.key] = true
				res.Fails = append(res.Fails, hlib.Failure{Key: fail.key, Desc: fail.desc,
					Replay: "// C02 facts half: program accepted by lang/check; call history (fresh object, then):\n//     " +
						strings.ReplaceAll(h.String(), "\n", "\n//") + "\n// failure: " + fail.desc + "\n" + src})
			}
		case status == "ok":
			res.Done++
			res.Stats["hist:completed"]++
		case status == "fuel":
			res.Stats["hist:fuel"]++
		default:
			res.Stats["hist:"+strings.SplitN(status, " ", 2)[0]]++
			if len(res.Notes) < 3 {
				res.Notes = append(res.Notes, status)
			}
		}
	}
	res.Eval = in.nFactsEval
	res.Stats["facts-evaluated"] += in.nFactsEval
	res.Stats["facts-unevaluable"] += in.nFactsUneval
	res.Stats["asserts-evaluated"] += in.nAsserts
	for k, v := range in.pairs {
		res.Stats["held: "+k] += v
	}
	for k, v := range in.culprits {
		res.Stats["executed:"+k] += v
	}
}

func flowCorpus() (names []string, srcs []string) {
	for _, pat := range []string{filepath.Join("corpus", "C02", "flow-*.wuffs"), filepath.Join("findings", "C02", "flow-*.wuffs")} {
		files, _ := filepath.Glob(pat)
		sort.Strings(files)
		for _, f := range files {
			b, err := os.ReadFile(f)
			if err != nil {
				continue
			}
			names = append(names, f)
			srcs = append(srcs, string(b))
		}
	}
	return
}

func flowPart(r *hlib.Run, l *loaded) {
	nProg, nHist := 128, 16
	if r.Thorough {
		nProg, nHist = 1600, 32
	}
	cnames, csrcs := flowCorpus()
	total := len(csrcs) + nProg
	results := make([]*flowResult, total)
	seeds := make([]uint64, total)
	for i := range seeds {
		seeds[i] = r.Rand.Uint64()
	}
	workers := runtime.NumCPU()
	if workers > 12 {
		workers = 12
	}
	var wg sync.WaitGroup
	next := make(chan int, total)
	for i := 0; i < total; i++ {
		next <- i
	}
	close(next)
	for w := 0; w < workers; w++ {
		wg.Add(1)
		go func() {
			defer wg.Done()
			fr := newFlowFront()
			for i := range next {
				if fr.uses > 20000 {
					fr = newFlowFront()
				}
				rd := hlib.NewRand(seeds[i])
				res := &flowResult{Idx: i, Stats: map[string]int{}}
				results[i] = res
				func() {
					defer func() {
						if e := recover(); e != nil {
							res.Notes = append(res.Notes, fmt.Sprintf("harness panic: %v", e))
						}
					}()
					coroutine := false
					if i < len(csrcs) {
						res.Origin, res.Src = cnames[i], csrcs[i]
						coroutine = strings.Contains(res.Src, "func thing.run?")
						flowRunProgram(fr, rd, res, coroutine, 4*nHist)
						flowCorrOps(fr, l, res, nil)
					} else {
						scalar := (i-len(csrcs))%2 == 0
						p, rej := flowGenerate(rd.Fork(), fr, res.Stats, l, scalar)
						res.Origin, res.Src = "generated", p.render()
						if scalar {
							res.Origin = "generated-scalar"
						}
						coroutine = p.Coroutine
						flowRunProgram(fr, rd, res, coroutine, nHist)
						flowCorrOps(fr, l, res, rej)
					}
				}()
			}
		}()
	}
	wg.Wait()

	accepted, points, factsN := 0, 0, 0
	for _, res := range results {
		if res == nil {
			continue
		}
		for k, v := range res.Stats {
			r.CountN("flow:"+k, v)
		}
		for _, n := range res.Notes {
			r.Note("flow program " + fmt.Sprint(res.Idx) + " (" + res.Origin + "): " + n)
		}
		if !res.Accepted {
			r.Count("flow:programs-rejected")
			if res.Origin != "generated" {
				r.Note("flow corpus program rejected: " + res.Origin + ": " + res.RejErr)
			}
			continue
		}
		accepted++
		points += res.Points
		factsN += res.FactsN
		for _, o := range res.Ops {
			r.Op(o.op, o.impl)
		}
		if res.Done > 0 && res.Eval > 0 {
			r.Nontrivial("flow:" + res.Src)
		}
		for _, f := range res.Fails {
			r.Fail(f.Key, f.Desc, f.Replay)
		}
	}
	// the interpreter against the generated C (a sample of the programs)
	nC := 8
	if r.Thorough {
		nC = 64
	}
	flowCCompare(r, results, nC)
	r.Extra("flow_programs_accepted", accepted)
	r.Extra("flow_probe_points", points)
	r.Extra("flow_facts_probed", factsN)
}


// flowCorrOps: the correspondence ops with the Lean model for one program: for every
// function whose body lies in the model's fragment, `case flow <body>` (the model must
// accept it too and count the same points) and, for every probed point, `pt k` (the
// model's situation there must be the real checker's, fact by fact, in order); for the
// candidate programs that the real bounds checker rejected during generation, the
// model must reject the `run` body as well.
func flowCorrOps(fr *flowFront, l *loaded, res *flowResult, rejected []string) {
	emit := func(ck *flowChecked, src string, accepted bool, factsAt map[int][]*a.Expr, only string) {
		funcs := map[t.ID]*a.Func{}
		for _, n := range ck.file.TopLevelDecls() {
			if n.Kind() == a.KFunc {
				funcs[n.AsFunc().FuncName()] = n.AsFunc()
			}
		}
		braces := flowBraces(src)
		for _, n := range ck.file.TopLevelDecls() {
			if n.Kind() != a.KFunc {
				continue
			}
			fn := n.AsFunc()
			name := fn.FuncName().Str(ck.tm)
			if only != "" && name != only {
				continue
			}
			z := &flowSer{tm: ck.tm, l: l, funcs: funcs, braces: braces}
			body := z.block(fn.Body())
			if z.bad != "" {
				res.Stats["corr:func-outside-fragment"]++
				res.Stats["corr:outside:"+strings.SplitN(z.bad, " ", 2)[0]]++
				continue
			}
			if !accepted {
				res.Stats["corr:reject-ops"]++
				res.Ops = append(res.Ops, opLine{"case flow " + body, "reject"})
				continue
			}
			_, fline := fn.AsNode().AsRaw().FilenameLine()
			open := int(fline)
			for ; open < int(fline)+8; open++ {
				if _, ok := braces[open]; ok {
					break
				}
			}
			pts := z.points(fn.Body(), braces[open])
			res.Stats["corr:flow-ops"]++
			res.Ops = append(res.Ops, opLine{"case flow " + body, fmt.Sprintf("accept %d", len(pts))})
			for k, line := range pts {
				if line == 0 {
					continue
				}
				facts, ok := factsAt[line]
				if !ok {
					continue
				}
				fstr, ok := z.facts(facts)
				if !ok {
					res.Stats["corr:point-facts-outside-fragment"]++
					continue
				}
				res.Stats["corr:point-ops"]++
				res.Ops = append(res.Ops, opLine{fmt.Sprintf("pt %d", k), fstr})
			}
		}
	}
	if res.Accepted && res.ck != nil {
		emit(res.ck, res.Src, true, res.factsAt, "")
	}
	for _, src := range rejected {
		// the rejected candidate still passes the type checker: parse + type-check only is
		// not exposed, so serialise from the AST of the failed run (types are set by then)
		ck, err := fr.checkKeepAST(src)
		if err == nil || ck == nil {
			continue
		}
		emit(ck, src, false, nil, "run")
	}
}
