package main

import (
	"fmt"
	"os"
	"strings"
	"testing"
)

// Debug helper: C02_TRY=<file.wuffs> go test -tags verif -run TestFlowTry ./cmd/c02
// prints the real checker's verdict and, for an accepted program, the facts at
// every line boundary inside function bodies.
func TestFlowTry(t *testing.T) {
	p := os.Getenv("C02_TRY")
	if p == "" {
		t.Skip("C02_TRY not set")
	}
	b, err := os.ReadFile(p)
	if err != nil {
		t.Fatal(err)
	}
	src := string(b)
	if _, err := flowCheck(nil, src); err != nil {
		fmt.Println("REJECTED:", err)
		return
	}
	fmt.Println("ACCEPTED")
	lines := strings.Split(src, "\n")
	for i := range lines {
		fs, ok := flowProbe(src, i+1)
		if ok {
			fmt.Printf("%3d | %-60s | %s\n", i+1, lines[i], strings.Join(fs, " ; "))
		} else {
			fmt.Printf("%3d | %s\n", i+1, lines[i])
		}
	}
}

func BenchmarkFlowCheck(b *testing.B) {
	src, err := os.ReadFile(os.Getenv("C02_TRY"))
	if err != nil {
		b.Skip("C02_TRY not set")
	}
	for i := 0; i < b.N; i++ {
		flowCheck(nil, string(src))
	}
}

func BenchmarkFlowCheckBase(b *testing.B) {
	src, err := os.ReadFile(os.Getenv("C02_TRY"))
	if err != nil {
		b.Skip("C02_TRY not set")
	}
	fr := newFlowFront()
	for i := 0; i < b.N; i++ {
		if _, err := fr.check(string(src)); err != nil {
			b.Fatal(err)
		}
	}
}
