package main

// C02, facts half: reference interpreter for the flow fragment, run over the
// REAL typed AST that the front end produced.  It is the property's own oracle:
// at every statement boundary it reaches it evaluates, in ideal integers on the
// concrete state, every fact the real checker holds there (obtained with the
// `assert false` probe) and every accepted assert / pre / inv / post.
//
// Fragment: scalars (locals, args, fields), arrays, slices (args, locals made
// by slicing; element stores alias), io_reader arguments (length, peek_u8,
// peek_u16le, can_undo_byte, undo_byte!, skip_u32_fast!, read_u8?), method calls
// on `this` (pure / impure / coroutine), if / while / break / continue / return,
// yield? with resumption (the caller may change every argument, the contents
// of argument slices and the I/O buffers between suspension and resumption;
// see doc/note/coroutines.md).
//
// Adapted from harness/cmd/c01/interp.go (same evaluation rules for the scalar
// operators).

import (
	"fmt"
	"math/big"
	"strings"

	a "github.com/google/wuffs/lang/ast"
	t "github.com/google/wuffs/lang/token"
)

type fio struct {
	buf    []byte
	ri, wi int
	closed bool
}

type fval struct {
	I    *big.Int
	Arr  []*fval // array cells (by reference)
	Sl   []*fval // slice window; shares cells with its backing array
	isSl bool
	IO   *fio
	St   string // status: "" = not a status
	isSt bool
}

func (v *fval) isScalar() bool { return v != nil && v.I != nil }

type fAbort struct{ key, desc string }
type fFuelOut struct{}
type fUnsupported struct{ what string }
type fUneval struct{}
type fKilled struct{}
type fErrorStatus struct{ status string }

type fctlKind int

const (
	fctlNone fctlKind = iota
	fctlBreak
	fctlContinue
	fctlReturn
)

type fctl struct {
	k      fctlKind
	target *a.While
	ret    *fval
}

type fframe struct {
	fn       *a.Func
	args     map[t.ID]*fval
	locals   map[t.ID]*fval
	io1      map[*fio]int // read index at entry / resumption: can_undo_byte() is ri > io1
	callArgs []*a.Node    // the call site's argument nodes in the caller's frame
	isCallee bool         // false for the public entry
	last     string       // class of the statement of this frame executed last
	lastText string
	lastNode *a.Node
}

// suspension hand-shake between the coroutine goroutine and the driver
type fresume struct {
	args map[t.ID]*fval
	kill bool
}

type fyield struct {
	done   bool   // the call has returned
	status string // suspension or final status
	err    interface{}
	ret    *fval
}

type flowInterp struct {
	tm     *t.Map
	file   *a.File
	strukt *a.Struct
	funcs  map[t.ID]*a.Func
	fields map[t.ID]*fval
	order  []t.ID

	fuel  int
	pure  int
	depth int

	factsAt    map[int][]*a.Expr // line -> facts held before that line
	closeLine  map[int]int       // line of a block's opening `{` -> line of its closing `}`
	openOfNode func(n *a.Node, which int) int

	stack []*fframe // the active call chain (top = last)

	// coroutine state
	inCoro    bool
	yieldCh   chan fyield
	resumeCh  chan fresume
	suspended bool
	suspFn    t.ID

	nFactsEval, nFactsUneval, nAsserts int
	pairs                            map[string]int // "<fact class> after <culprit>" evaluated true
	culprits                         map[string]int
}

func newFlowInterp(ck *flowChecked) *flowInterp {
	in := &flowInterp{tm: ck.tm, file: ck.file, funcs: map[t.ID]*a.Func{}, pairs: map[string]int{}, culprits: map[string]int{}}
	for _, n := range ck.file.TopLevelDecls() {
		switch n.Kind() {
		case a.KStruct:
			in.strukt = n.AsStruct()
		case a.KFunc:
			in.funcs[n.AsFunc().FuncName()] = n.AsFunc()
		}
	}
	in.reset()
	return in
}

func (in *flowInterp) zeroValue(typ *a.TypeExpr) *fval {
	switch {
	case typ.IsEitherArrayType():
		n := int(typ.ArrayLength().ConstValue().Int64())
		v := &fval{Arr: make([]*fval, n)}
		for i := range v.Arr {
			v.Arr[i] = in.zeroValue(typ.Inner())
		}
		return v
	case typ.IsEitherSliceType():
		return &fval{isSl: true}
	case typ.IsStatus():
		return &fval{isSt: true}
	case typ.IsBool() || typ.IsNumType():
		return &fval{I: big.NewInt(0)}
	}
	panic(&fUnsupported{"zero value of type " + typ.Str(in.tm)})
}

// reset models wuffs_pkg__foo__initialize: all fields zero.
func (in *flowInterp) reset() {
	in.fields = map[t.ID]*fval{}
	in.order = in.order[:0]
	for _, f := range in.strukt.Fields() {
		f := f.AsField()
		in.fields[f.Name()] = in.zeroValue(f.XType())
		in.order = append(in.order, f.Name())
	}
}

func (in *flowInterp) fail(key, format string, args ...interface{}) {
	panic(&fAbort{key, fmt.Sprintf(format, args...)})
}

func fBaseBounds(name string) (lo, hi *big.Int, bits int, ok bool) {
	type bi struct {
		bits   int
		signed bool
	}
	m := map[string]bi{"u8": {8, false}, "u16": {16, false}, "u32": {32, false}, "u64": {64, false},
		"i8": {8, true}, "i16": {16, true}, "i32": {32, true}, "i64": {64, true}, "bool": {1, false}}
	b, ok := m[name]
	if !ok {
		return nil, nil, 0, false
	}
	if name == "bool" {
		return big.NewInt(0), big.NewInt(1), 1, true
	}
	if b.signed {
		lo = new(big.Int).Lsh(big.NewInt(-1), uint(b.bits-1))
		hi = new(big.Int).Lsh(big.NewInt(1), uint(b.bits-1))
		hi.Sub(hi, big.NewInt(1))
		return lo, hi, b.bits, true
	}
	hi = new(big.Int).Lsh(big.NewInt(1), uint(b.bits))
	hi.Sub(hi, big.NewInt(1))
	return big.NewInt(0), hi, b.bits, true
}

func (in *flowInterp) numBaseBounds(typ *a.TypeExpr) (lo, hi *big.Int, bits int, ok bool) {
	if typ == nil || typ.Decorator() != 0 {
		return nil, nil, 0, false
	}
	qid := typ.QID()
	if qid[0] != t.IDBase {
		return nil, nil, 0, false
	}
	return fBaseBounds(qid[1].Str(in.tm))
}

// typeBounds: base bounds narrowed by the refinement's constant values; from the
// type's name and literals, not from the checker's MBounds.
func (in *flowInterp) typeBounds(typ *a.TypeExpr) (lo, hi *big.Int, ok bool) {
	lo, hi, _, ok = in.numBaseBounds(typ)
	if !ok {
		return nil, nil, false
	}
	if typ.IsRefined() {
		if x := typ.Min(); x != nil && x.ConstValue() != nil {
			lo = x.ConstValue()
		}
		if x := typ.Max(); x != nil && x.ConstValue() != nil {
			hi = x.ConstValue()
		}
	}
	return lo, hi, true
}

func fInRange(v, lo, hi *big.Int) bool { return v.Cmp(lo) >= 0 && v.Cmp(hi) <= 0 }

func fb2i(b bool) *big.Int {
	if b {
		return big.NewInt(1)
	}
	return big.NewInt(0)
}

func (in *flowInterp) top() *fframe { return in.stack[len(in.stack)-1] }

// lookupRef evaluates an l-value / container expression to the value cell.
func (in *flowInterp) lookupRef(fr *fframe, n *a.Expr) *fval {
	switch n.Operator() {
	case 0:
		if v, ok := fr.locals[n.Ident()]; ok {
			return v
		}
		panic(&fUnsupported{"ident " + n.Str(in.tm)})
	case t.IDDot:
		if id := n.IsArgsDotFoo(); id != 0 {
			if v, ok := fr.args[id]; ok {
				return v
			}
		}
		if id := n.IsThisDotFoo(); id != 0 {
			if v, ok := in.fields[id]; ok {
				return v
			}
		}
		panic(&fUnsupported{"selector " + n.Str(in.tm)})
	case t.IDOpenBracket:
		c := in.lookupRef(fr, n.LHS().AsExpr())
		cells := c.Arr
		if c.isSl {
			cells = c.Sl
		} else if c.Arr == nil {
			panic(&fUnsupported{"index of non-container " + n.Str(in.tm)})
		}
		idx := in.eval(fr, n.RHS().AsExpr())
		if idx.Sign() < 0 || idx.Cmp(big.NewInt(int64(len(cells)))) >= 0 {
			if in.pure > 0 {
				panic(&fUneval{})
			}
			in.fail("oob-index", "index %v out of range for %q (length %d)", idx, n.Str(in.tm), len(cells))
		}
		return cells[idx.Int64()]
	case t.IDDotDot:
		c := in.lookupRef(fr, n.LHS().AsExpr())
		cells := c.Arr
		if c.isSl {
			cells = c.Sl
		} else if c.Arr == nil {
			panic(&fUnsupported{"slice of non-container " + n.Str(in.tm)})
		}
		lo, hi := 0, len(cells)
		if m := n.MHS(); m != nil {
			v := in.eval(fr, m.AsExpr())
			if !v.IsInt64() || v.Sign() < 0 || v.Int64() > int64(len(cells)) {
				if in.pure > 0 {
					panic(&fUneval{})
				}
				in.fail("oob-slice", "slice bound %v out of range in %q (length %d)", v, n.Str(in.tm), len(cells))
			}
			lo = int(v.Int64())
		}
		if r := n.RHS(); r != nil {
			v := in.eval(fr, r.AsExpr())
			if !v.IsInt64() || v.Sign() < 0 || v.Int64() > int64(len(cells)) {
				if in.pure > 0 {
					panic(&fUneval{})
				}
				in.fail("oob-slice", "slice bound %v out of range in %q (length %d)", v, n.Str(in.tm), len(cells))
			}
			hi = int(v.Int64())
		}
		if lo > hi {
			if in.pure > 0 {
				panic(&fUneval{})
			}
			in.fail("oob-slice", "slice bounds %d > %d in %q", lo, hi, n.Str(in.tm))
		}
		return &fval{isSl: true, Sl: cells[lo:hi:hi]}
	}
	panic(&fUnsupported{"ref " + n.Str(in.tm)})
}

func (in *flowInterp) eval(fr *fframe, n *a.Expr) *big.Int {
	if cv := n.ConstValue(); cv != nil {
		return cv
	}
	op := n.Operator()
	switch {
	case op == 0 || op == t.IDDot || op == t.IDOpenBracket:
		v := in.lookupRef(fr, n)
		if v.I == nil {
			panic(&fUnsupported{"non-scalar " + n.Str(in.tm)})
		}
		return v.I
	case op == t.IDOpenParen:
		v := in.call(fr, n)
		if v == nil || v.I == nil {
			panic(&fUnsupported{"call without scalar value " + n.Str(in.tm)})
		}
		return v.I
	case op.IsXUnaryOp():
		r := in.eval(fr, n.RHS().AsExpr())
		switch op {
		case t.IDXUnaryPlus:
			return r
		case t.IDXUnaryMinus:
			return in.arith(n, "-", new(big.Int).Neg(r))
		case t.IDXUnaryNot:
			return fb2i(r.Sign() == 0)
		}
	case op == t.IDXBinaryAs:
		v := in.eval(fr, n.LHS().AsExpr())
		if in.pure == 0 {
			if lo, hi, ok := in.typeBounds(n.RHS().AsTypeExpr()); ok && !fInRange(v, lo, hi) {
				in.fail("as-outside-type", "conversion %q of value %v outside [%v ..= %v]", n.Str(in.tm), v, lo, hi)
			}
		}
		return v
	case op.IsXBinaryOp():
		if op == t.IDXBinaryAnd || op == t.IDXBinaryOr {
			l := in.eval(fr, n.LHS().AsExpr())
			if (op == t.IDXBinaryAnd) == (l.Sign() == 0) {
				return l
			}
			return in.eval(fr, n.RHS().AsExpr())
		}
		l := in.eval(fr, n.LHS().AsExpr())
		r := in.eval(fr, n.RHS().AsExpr())
		return in.binop(n, op, n.LHS().AsExpr(), l, n.RHS().AsExpr(), r, true)
	case op.IsXAssociativeOp():
		bop := op.AmbiguousForm().BinaryForm()
		args := n.Args()
		acc := in.eval(fr, args[0].AsExpr())
		for _, o := range args[1:] {
			if bop == t.IDXBinaryAnd || bop == t.IDXBinaryOr {
				if (bop == t.IDXBinaryAnd) == (acc.Sign() == 0) {
					return acc
				}
				acc = in.eval(fr, o.AsExpr())
				continue
			}
			r := in.eval(fr, o.AsExpr())
			acc = in.binop(n, bop, nil, acc, o.AsExpr(), r, false)
		}
		if bop != t.IDXBinaryAnd && bop != t.IDXBinaryOr {
			return in.arith(n, op.AmbiguousForm().Str(in.tm), acc)
		}
		return acc
	}
	panic(&fUnsupported{"expr " + n.Str(in.tm)})
}

func (in *flowInterp) arith(n *a.Expr, opn string, v *big.Int) *big.Int {
	if in.pure > 0 {
		return v
	}
	if typ := n.MType(); typ != nil && !typ.IsIdeal() {
		if lo, hi, _, ok := in.numBaseBounds(typ); ok && !fInRange(v, lo, hi) {
			in.fail("overflow:"+opn, "result %v of %q does not fit its type %s", v, n.Str(in.tm), typ.Str(in.tm))
		}
	}
	return v
}

func (in *flowInterp) binop(n *a.Expr, op t.ID, lhs *a.Expr, l *big.Int, rhs *a.Expr, r *big.Int, checkResult bool) *big.Int {
	opn := op.AmbiguousForm().Str(in.tm)
	z := new(big.Int)
	res := func(v *big.Int) *big.Int {
		if checkResult {
			return in.arith(n, opn, v)
		}
		return v
	}
	opType := func() (lo, hi *big.Int, bits int) {
		typ := n.MType()
		if lhs != nil && lhs.MType() != nil && !lhs.MType().IsIdeal() {
			typ = lhs.MType()
		} else if rhs != nil && op != t.IDXBinaryShiftL && op != t.IDXBinaryShiftR && op != t.IDXBinaryTildeModShiftL && rhs.MType() != nil && !rhs.MType().IsIdeal() {
			typ = rhs.MType()
		}
		lo, hi, bits, ok := in.numBaseBounds(typ)
		if !ok {
			panic(&fUnsupported{"op type of " + n.Str(in.tm)})
		}
		return lo, hi, bits
	}
	switch op {
	case t.IDXBinaryPlus:
		return res(z.Add(l, r))
	case t.IDXBinaryMinus:
		return res(z.Sub(l, r))
	case t.IDXBinaryStar:
		return res(z.Mul(l, r))
	case t.IDXBinarySlash, t.IDXBinaryPercent:
		if r.Sign() == 0 {
			if in.pure > 0 {
				panic(&fUneval{})
			}
			in.fail("div-by-zero", "division by zero in %q", n.Str(in.tm))
		}
		if op == t.IDXBinarySlash {
			return res(z.Quo(l, r))
		}
		return res(z.Rem(l, r))
	case t.IDXBinaryShiftL, t.IDXBinaryTildeModShiftL, t.IDXBinaryShiftR:
		_, hi, bits := opType()
		if r.Sign() < 0 || r.Cmp(big.NewInt(int64(bits))) >= 0 {
			if in.pure > 0 {
				if r.Sign() < 0 || r.Cmp(big.NewInt(4096)) > 0 {
					panic(&fUneval{})
				}
			} else {
				in.fail("shift-amount", "shift amount %v out of range for a %d-bit operand in %q", r, bits, n.Str(in.tm))
			}
		}
		k := uint(r.Int64())
		switch op {
		case t.IDXBinaryShiftL:
			return res(z.Lsh(l, k))
		case t.IDXBinaryTildeModShiftL:
			z.Lsh(l, k)
			return z.And(z, hi)
		default:
			return res(z.Rsh(l, k))
		}
	case t.IDXBinaryAmp, t.IDXBinaryPipe, t.IDXBinaryHat:
		if l.Sign() < 0 || r.Sign() < 0 {
			if in.pure > 0 {
				panic(&fUneval{})
			}
			in.fail("bitwise-negative", "bitwise op on a negative operand in %q", n.Str(in.tm))
		}
		switch op {
		case t.IDXBinaryAmp:
			return res(z.And(l, r))
		case t.IDXBinaryPipe:
			return res(z.Or(l, r))
		default:
			return res(z.Xor(l, r))
		}
	case t.IDXBinaryTildeModPlus, t.IDXBinaryTildeModMinus, t.IDXBinaryTildeModStar:
		_, hi, _ := opType()
		switch op {
		case t.IDXBinaryTildeModPlus:
			z.Add(l, r)
		case t.IDXBinaryTildeModMinus:
			z.Sub(l, r)
		default:
			z.Mul(l, r)
		}
		m := new(big.Int).Add(hi, big.NewInt(1))
		z.Mod(z, m)
		return z
	case t.IDXBinaryTildeSatPlus, t.IDXBinaryTildeSatMinus:
		lo, hi, _ := opType()
		if op == t.IDXBinaryTildeSatPlus {
			z.Add(l, r)
		} else {
			z.Sub(l, r)
		}
		if z.Cmp(lo) < 0 {
			return lo
		}
		if z.Cmp(hi) > 0 {
			return hi
		}
		return z
	case t.IDXBinaryNotEq:
		return fb2i(l.Cmp(r) != 0)
	case t.IDXBinaryLessThan:
		return fb2i(l.Cmp(r) < 0)
	case t.IDXBinaryLessEq:
		return fb2i(l.Cmp(r) <= 0)
	case t.IDXBinaryEqEq:
		return fb2i(l.Cmp(r) == 0)
	case t.IDXBinaryGreaterEq:
		return fb2i(l.Cmp(r) >= 0)
	case t.IDXBinaryGreaterThan:
		return fb2i(l.Cmp(r) > 0)
	}
	panic(&fUnsupported{"binary op " + opn})
}

// evalValue evaluates an argument expression of any supported type.
func (in *flowInterp) evalValue(fr *fframe, n *a.Expr) *fval {
	typ := n.MType()
	switch {
	case typ != nil && (typ.IsEitherSliceType() || typ.IsEitherArrayType() || typ.IsIOTokenType()):
		if n.Operator() == t.IDOpenParen {
			return in.call(fr, n)
		}
		return in.lookupRef(fr, n)
	}
	return &fval{I: in.eval(fr, n)}
}

func (in *flowInterp) ioOf(fr *fframe, recv *a.Expr) *fio {
	v := in.lookupRef(fr, recv)
	if v.IO == nil {
		panic(&fUnsupported{"not an I/O value " + recv.Str(in.tm)})
	}
	return v.IO
}

func (in *flowInterp) io1(fr *fframe, io *fio) int {
	if m, ok := fr.io1[io]; ok {
		return m
	}
	// first use in this frame: the mark is the read index now (no byte consumed yet in this frame)
	fr.io1[io] = io.ri
	return io.ri
}

func (in *flowInterp) call(fr *fframe, n *a.Expr) *fval {
	recv, meth, args, ok := n.IsMethodCall()
	if !ok {
		panic(&fUnsupported{"call " + n.Str(in.tm)})
	}
	mname := meth.Str(in.tm)
	if recv.Operator() == 0 && recv.Ident() == t.IDThis {
		fn := in.funcs[meth]
		if fn == nil {
			panic(&fUnsupported{"unknown method " + n.Str(in.tm)})
		}
		if in.pure > 0 && !fn.Effect().Pure() {
			panic(&fUnsupported{"impure call inside a fact"})
		}
		vals := in.evalArgs(fr, fn, args)
		return in.invoke(fn, vals, args, true)
	}
	rt := recv.MType()
	switch {
	case rt != nil && rt.IsNumType():
		x := in.eval(fr, recv)
		switch meth {
		case t.IDMin, t.IDMax:
			y := in.eval(fr, args[0].AsArg().Value())
			if (meth == t.IDMin) == (x.Cmp(y) <= 0) {
				return &fval{I: x}
			}
			return &fval{I: y}
		}
	case rt != nil && rt.IsEitherSliceType():
		c := in.lookupRef(fr, recv)
		switch mname {
		case "length":
			return &fval{I: big.NewInt(int64(len(c.Sl)))}
		}
	case rt != nil && rt.IsIOTokenType():
		io := in.ioOf(fr, recv)
		m1 := in.io1(fr, io)
		need := func(k int) {
			if io.wi-io.ri < k {
				if in.pure > 0 {
					panic(&fUneval{})
				}
				in.fail("io-read-past-end", "%q needs %d bytes but only %d are available (ri=%d wi=%d): out-of-bounds read of the I/O buffer",
					n.Str(in.tm), k, io.wi-io.ri, io.ri, io.wi)
			}
		}
		switch mname {
		case "length":
			return &fval{I: big.NewInt(int64(io.wi - io.ri))}
		case "can_undo_byte":
			return &fval{I: fb2i(io.ri > m1)}
		case "is_closed":
			return &fval{I: fb2i(io.closed)}
		case "peek_u8", "peek_u8_as_u32":
			need(1)
			return &fval{I: big.NewInt(int64(io.buf[io.ri]))}
		case "peek_u16le", "peek_u16le_as_u32":
			need(2)
			return &fval{I: big.NewInt(int64(io.buf[io.ri]) | int64(io.buf[io.ri+1])<<8)}
		case "peek_undo_byte":
			if io.ri <= m1 {
				if in.pure > 0 {
					panic(&fUneval{})
				}
				in.fail("io-undo-before-start", "%q with no byte consumed since the function was entered / resumed (ri=%d): reads before the start of the I/O buffer", n.Str(in.tm), io.ri)
			}
			return &fval{I: big.NewInt(int64(io.buf[io.ri-1]))}
		case "undo_byte":
			if in.pure > 0 {
				panic(&fUnsupported{"impure call inside a fact"})
			}
			if io.ri <= m1 {
				in.fail("io-undo-before-start", "%q with no byte consumed since the function was entered / resumed (ri=%d): the read pointer moves before the start of the I/O buffer", n.Str(in.tm), io.ri)
			}
			io.ri--
			return &fval{}
		case "skip_u32_fast":
			if in.pure > 0 {
				panic(&fUnsupported{"impure call inside a fact"})
			}
			actual := in.eval(fr, args[0].AsArg().Value())
			worst := in.eval(fr, args[1].AsArg().Value())
			if actual.Cmp(worst) > 0 {
				in.fail("io-skip-actual-above-worst", "%q: actual %v > worst_case %v", n.Str(in.tm), actual, worst)
			}
			if big.NewInt(int64(io.wi-io.ri)).Cmp(worst) < 0 {
				in.fail("io-read-past-end", "%q with worst_case %v but only %d bytes available: the read pointer can move past the end of the I/O buffer", n.Str(in.tm), worst, io.wi-io.ri)
			}
			io.ri += int(actual.Int64())
			return &fval{}
		case "read_u8", "read_u8_as_u32":
			if in.pure > 0 {
				panic(&fUnsupported{"coroutine call inside a fact"})
			}
			for io.ri >= io.wi {
				// the generated C suspends with "$short read" whether or not the reader is
				// closed (the caller decides what an empty closed reader means)
				in.suspend("$short read")
				io = in.ioOf(fr, recv) // the caller may have passed another buffer
			}
			b := io.buf[io.ri]
			io.ri++
			return &fval{I: big.NewInt(int64(b))}
		}
	}
	panic(&fUnsupported{"call " + n.Str(in.tm)})
}

func (in *flowInterp) evalArgs(fr *fframe, fn *a.Func, args []*a.Node) map[t.ID]*fval {
	fields := fn.In().Fields()
	vals := map[t.ID]*fval{}
	for i, o := range args {
		ve := o.AsArg().Value()
		v := in.evalValue(fr, ve)
		if v.I != nil && in.pure == 0 {
			if lo, hi, ok := in.typeBounds(fields[i].AsField().XType()); ok && !fInRange(v.I, lo, hi) {
				in.fail("arg-outside-type", "argument %q = %v outside parameter type [%v ..= %v]", ve.Str(in.tm), v.I, lo, hi)
			}
			v = &fval{I: v.I}
		}
		vals[fields[i].AsField().Name()] = v
	}
	return vals
}

func (in *flowInterp) invoke(fn *a.Func, args map[t.ID]*fval, callArgs []*a.Node, isCallee bool) *fval {
	in.depth++
	defer func() { in.depth-- }()
	if in.depth > 32 {
		in.fail("recursion", "call depth exceeds 32 in %s", fn.QQID().Str(in.tm))
	}
	fr := &fframe{fn: fn, args: args, locals: map[t.ID]*fval{}, io1: map[*fio]int{}, callArgs: callArgs, isCallee: isCallee, last: "entry"}
	for _, v := range args {
		if v.IO != nil {
			fr.io1[v.IO] = v.IO.ri
		}
	}
	in.stack = append(in.stack, fr)
	defer func() { in.stack = in.stack[:len(in.stack)-1] }()
	_, fline := fn.AsNode().AsRaw().FilenameLine()
	c := in.execBlock(fr, fn.Body(), in.closeLine[in.openLineFrom(int(fline))])
	if c.k == fctlReturn {
		return c.ret
	}
	if fn.Effect().Coroutine() {
		return &fval{isSt: true}
	}
	if fn.Out() != nil {
		panic(&fUnsupported{"fell off the end of a non-void function"})
	}
	return &fval{}
}

// openLineFrom: the first line >= from that opens a block (ends with `{`).
func (in *flowInterp) openLineFrom(from int) int {
	for l := from; l < from+64; l++ {
		if _, ok := in.closeLine[l]; ok {
			return l
		}
	}
	return -1
}

// suspend is a coroutine suspension point: hand the status to the driver and
// wait for the resumption, which brings new arguments for the public entry;
// the arguments of the nested coroutine calls in progress are re-evaluated
// top-down (the generated C re-enters every call on the chain).
func (in *flowInterp) suspend(status string) {
	if !in.inCoro {
		panic(&fUnsupported{"suspension outside a coroutine driver"})
	}
	in.yieldCh <- fyield{status: status}
	r := <-in.resumeCh
	if r.kill {
		panic(&fKilled{})
	}
	in.stack[0].args = r.args
	for i, fr := range in.stack {
		if i > 0 {
			if !fr.isCallee {
				panic(&fUnsupported{"resumption through a non-call frame"})
			}
			fr.args = in.evalArgs(in.stack[i-1], fr.fn, fr.callArgs)
		}
		fr.io1 = map[*fio]int{}
		for _, v := range fr.args {
			if v.IO != nil {
				fr.io1[v.IO] = v.IO.ri
			}
		}
		// pointer-typed locals (slices) are not saved across a suspension
		// (cgen writeResumeSuspend1 skips HasPointers types): they are empty again
		for id, v := range fr.locals {
			if v.isSl {
				fr.locals[id] = &fval{isSl: true}
			}
		}
	}
}

// ---- facts and asserts

func (in *flowInterp) evalPure(fr *fframe, n *a.Expr) (v *big.Int, ok bool) {
	in.pure++
	defer func() {
		in.pure--
		if e := recover(); e != nil {
			switch e.(type) {
			case *fUneval, *fUnsupported:
				v, ok = nil, false
			default:
				panic(e)
			}
		}
	}()
	return in.eval(fr, n), true
}

func fMentions(tm *t.Map, n *a.Expr, pred func(*a.Expr) bool) bool {
	found := false
	n.AsNode().Walk(func(o *a.Node) error {
		if o.Kind() == a.KExpr && pred(o.AsExpr()) {
			found = true
		}
		return nil
	})
	return found
}

// factClass: what the fact talks about (most specific first); used in failure keys.
func (in *flowInterp) factClass(f *a.Expr) string {
	tm := in.tm
	isCall := func(name string) func(*a.Expr) bool {
		return func(e *a.Expr) bool {
			if e.Operator() != t.IDOpenParen {
				return false
			}
			_, m, _, ok := e.IsMethodCall()
			return ok && m.Str(tm) == name
		}
	}
	ioRecv := func(e *a.Expr) bool {
		if e.Operator() != t.IDOpenParen {
			return false
		}
		r, _, _, ok := e.IsMethodCall()
		return ok && r.MType() != nil && r.MType().IsIOTokenType()
	}
	switch {
	case fMentions(tm, f, isCall("can_undo_byte")):
		return "io-can-undo"
	case fMentions(tm, f, func(e *a.Expr) bool { return ioRecv(e) && isCall("length")(e) }):
		return "io-length"
	case fMentions(tm, f, ioRecv):
		return "io-contents"
	case fMentions(tm, f, func(e *a.Expr) bool {
		return e.Operator() == t.IDOpenBracket && e.LHS().AsExpr().MType() != nil && e.LHS().AsExpr().MType().IsEitherSliceType()
	}):
		return "slice-elem"
	case fMentions(tm, f, isCall("length")):
		return "slice-length"
	case fMentions(tm, f, func(e *a.Expr) bool { return e.Operator() == t.IDOpenBracket }):
		return "array-elem"
	case fMentions(tm, f, func(e *a.Expr) bool { return e.Operator() == t.IDOpenParen }):
		return "method-call"
	case fMentions(tm, f, func(e *a.Expr) bool { return e.IsThisDotFoo() != 0 }):
		return "field"
	case fMentions(tm, f, func(e *a.Expr) bool { return e.IsArgsDotFoo() != 0 }):
		return "arg"
	}
	return "local"
}

// relation: how the false fact f relates to what the statement executed last in
// the frame writes.  "direct": f syntactically Mentions a place the statement
// stores to, passes by reference, calls a method on, or (suspension) `args` /
// `this` - the checker's own invalidation rule covers it; "minted-direct" /
// "minted-alias": f is the `lhs == rhs` fact recorded by that very assignment
// (rhs mentions lhs / does not); "alias": anything else (the state changed
// through a syntactically different path); "flow": the last event is not a
// state change (loop entry / exit, branch).
func (in *flowInterp) relation(fr *fframe, f *a.Expr) string {
	o := fr.lastNode
	if o == nil || strings.HasPrefix(fr.last, "while-") {
		return "flow"
	}
	var written []*a.Expr
	switch o.Kind() {
	case a.KAssign:
		n := o.AsAssign()
		lhs, rhs := n.LHS(), n.RHS()
		if lhs != nil {
			written = append(written, lhs)
			if n.Operator() == t.IDEq && f.Operator() == t.IDXBinaryEqEq &&
				f.LHS().AsExpr().Eq(lhs) && f.RHS().AsExpr().Eq(rhs) {
				if rhs.Mentions(lhs) {
					return "minted-direct"
				}
				return "minted-alias"
			}
		}
		if rhs.Operator() == t.IDOpenParen && !rhs.Effect().Pure() {
			recv, _, args, ok := rhs.IsMethodCall()
			if ok {
				written = append(written, recv)
				for _, arg := range args {
					v := arg.AsArg().Value()
					if typ := v.MType(); typ != nil && (typ.IsBool() || typ.IsNumTypeOrIdeal() || typ.IsStatus() || typ.IsNullptr()) {
						continue
					}
					written = append(written, v)
				}
			}
			if rhs.Effect().Coroutine() && n.Operator() != t.IDEqQuestion {
				if fMentions(in.tm, f, func(e *a.Expr) bool {
					return e.Operator() == 0 && (e.Ident() == t.IDArgs || e.Ident() == t.IDThis)
				}) {
					return "direct"
				}
			}
		}
	case a.KRet:
		if o.AsRet().Keyword() == t.IDYield {
			if fMentions(in.tm, f, func(e *a.Expr) bool {
				return (e.Operator() == 0 && (e.Ident() == t.IDArgs || e.Ident() == t.IDThis)) ||
					(e.MType() != nil && e.MType().HasPointers())
			}) {
				return "direct"
			}
			return "alias"
		}
		return "flow"
	default:
		return "flow"
	}
	for _, w := range written {
		if f.Mentions(w) {
			return "direct"
		}
	}
	return "alias"
}

// culpritGroup: the culprit part of a failure key.  For the "alias" relations the
// statement classes are collapsed into the few ways of changing state through
// another path (the key then names the defect family, not the program shape).
func culpritGroup(last, rel string) string {
	if rel != "alias" && rel != "minted-alias" {
		return last + ":" + rel
	}
	g := last
	switch {
	case strings.Contains(last, "-elem-of-"):
		g = "elem-store"
	case strings.HasSuffix(last, "-field"):
		g = "field-store"
	case strings.HasSuffix(last, "-local-slice"):
		g = "slice-var-assign"
	case strings.HasSuffix(last, "-local"):
		g = "local-assign"
	case strings.HasPrefix(last, "impure-call") || strings.HasPrefix(last, "coroutine-call"):
		g = "call"
		if strings.Contains(last, "+slice-arg") {
			g = "call-with-slice-arg"
		}
	case strings.HasPrefix(last, "io-"):
		g = "io-op"
	}
	return g + ":" + rel
}

func (in *flowInterp) checkFacts(fr *fframe, line int) {
	if in.pure > 0 {
		return
	}
	facts, ok := in.factsAt[line]
	if !ok {
		return
	}
	for _, f := range facts {
		v, ok := in.evalPure(fr, f)
		if !ok {
			in.nFactsUneval++
			continue
		}
		in.nFactsEval++
		cls := in.factClass(f)
		if v.Sign() == 0 {
			in.fail("false-fact:"+cls+":after-"+culpritGroup(fr.last, in.relation(fr, f)),
				"the checker holds the fact %q before line %d of %s, but it is false there (statement executed last in this function: %s %q)",
				f.Str(in.tm), line, fr.fn.FuncName().Str(in.tm), fr.last, fr.lastText)
		}
		in.pairs[cls+" after "+fr.last]++
	}
}

func (in *flowInterp) checkAssert(fr *fframe, as *a.Assert, where string) {
	if in.pure > 0 {
		return
	}
	v, ok := in.evalPure(fr, as.Condition())
	if !ok {
		in.nFactsUneval++
		return
	}
	in.nAsserts++
	if v.Sign() == 0 {
		why := "proved"
		if r := as.Reason(); r != 0 {
			why = "via:" + strings.ReplaceAll(strings.Trim(r.Str(in.tm), `"`), " ", "")
		}
		in.fail("false-assert:"+as.Keyword().Str(in.tm)+":"+why+":"+in.factClass(as.Condition())+":after-"+culpritGroup(fr.last, in.relation(fr, as.Condition())),
			"accepted %s %q is false %s (statement executed last in this function: %s %q)",
			as.Keyword().Str(in.tm), as.Condition().Str(in.tm), where, fr.last, fr.lastText)
	}
}

func (in *flowInterp) checkAsserts(fr *fframe, asserts []*a.Node, skip t.ID, where string) {
	for _, o := range asserts {
		if o.AsAssert().Keyword() == skip {
			continue
		}
		in.checkAssert(fr, o.AsAssert(), where)
	}
}

// ---- statements

func (in *flowInterp) execBlock(fr *fframe, block []*a.Node, closeLine int) fctl {
	for _, o := range block {
		_, line := o.AsRaw().FilenameLine()
		if o.Kind() != a.KVar {
			in.checkFacts(fr, int(line))
		}
		if c := in.execStmt(fr, o); c.k != fctlNone {
			return c
		}
	}
	if closeLine > 0 {
		in.checkFacts(fr, closeLine)
	}
	return fctl{}
}

func (in *flowInterp) containerKind(n *a.Expr) string {
	switch {
	case n.IsThisDotFoo() != 0:
		return "field"
	case n.IsArgsDotFoo() != 0:
		return "arg"
	case n.Operator() == 0:
		return "local"
	case n.Operator() == t.IDDotDot:
		return "subslice"
	}
	return "other"
}

// stmtClass: the kind of state change a statement makes (the "culprit" part of
// failure keys).
func (in *flowInterp) stmtClass(o *a.Node) string {
	switch o.Kind() {
	case a.KAssign:
		n := o.AsAssign()
		lhs, rhs := n.LHS(), n.RHS()
		callClass := ""
		if rhs.Operator() == t.IDOpenParen && !rhs.Effect().Pure() {
			recv, meth, args, _ := rhs.IsMethodCall()
			switch {
			case recv != nil && recv.MType() != nil && recv.MType().IsIOTokenType():
				callClass = "io-" + meth.Str(in.tm)
			case rhs.Effect().Coroutine():
				callClass = "coroutine-call"
			default:
				callClass = "impure-call"
			}
			if recv != nil && (recv.MType() == nil || !recv.MType().IsIOTokenType()) {
				kinds := map[string]bool{}
				for _, o := range args {
					if typ := o.AsArg().Value().MType(); typ != nil {
						switch {
						case typ.IsEitherSliceType():
							kinds["slice"] = true
						case typ.IsEitherArrayType():
							kinds["array"] = true
						case typ.IsIOTokenType():
							kinds["io"] = true
						}
					}
				}
				for _, k := range []string{"array", "io", "slice"} {
					if kinds[k] {
						callClass += "+" + k + "-arg"
					}
				}
			}
			if n.Operator() == t.IDEqQuestion {
				callClass += "=?"
			}
		}
		if lhs == nil {
			if callClass == "" {
				return "expr-stmt"
			}
			return callClass
		}
		op := "assign"
		if n.Operator() != t.IDEq && n.Operator() != t.IDEqQuestion {
			op = "op-assign"
		}
		dst := ""
		switch lhs.Operator() {
		case 0:
			dst = "local"
			if lhs.MType() != nil && lhs.MType().IsEitherSliceType() {
				dst = "local-slice"
			}
		case t.IDDot:
			dst = "field"
		case t.IDOpenBracket:
			c := lhs.LHS().AsExpr()
			k := "array"
			if c.MType() != nil && c.MType().IsEitherSliceType() {
				k = "slice"
			}
			dst = "elem-of-" + in.containerKind(c) + "-" + k
		default:
			dst = "other"
		}
		if callClass != "" {
			return callClass + "-into-" + dst
		}
		return op + "-" + dst
	case a.KRet:
		if o.AsRet().Keyword() == t.IDYield {
			return "yield"
		}
		return "return"
	case a.KIf:
		return "if"
	case a.KWhile:
		return "while"
	case a.KJump:
		return "jump"
	case a.KAssert:
		return "assert"
	case a.KVar:
		return "var"
	case a.KIOManip:
		return "io-manip"
	}
	return o.Kind().String()
}

func (in *flowInterp) stmtText(o *a.Node) string {
	switch o.Kind() {
	case a.KAssign:
		n := o.AsAssign()
		if n.LHS() == nil {
			return n.RHS().Str(in.tm)
		}
		return n.LHS().Str(in.tm) + " " + n.Operator().Str(in.tm) + " " + n.RHS().Str(in.tm)
	case a.KRet:
		return o.AsRet().Keyword().Str(in.tm) + " " + o.AsRet().Value().Str(in.tm)
	case a.KIf:
		return "if " + o.AsIf().Condition().Str(in.tm)
	case a.KWhile:
		return "while " + o.AsWhile().Condition().Str(in.tm)
	case a.KAssert:
		return "assert " + o.AsAssert().Condition().Str(in.tm)
	}
	return o.Kind().String()
}

func (in *flowInterp) store(fr *fframe, lhs *a.Expr, v *big.Int, what string) {
	if lo, hi, ok := in.typeBounds(lhs.MType()); ok && !fInRange(v, lo, hi) {
		in.fail("store-outside-type", "%s stores %v into %q of type %s", what, v, lhs.Str(in.tm), lhs.MType().Str(in.tm))
	}
	ref := in.lookupRef(fr, lhs)
	if ref.I == nil {
		panic(&fUnsupported{"store to non-scalar"})
	}
	ref.I = v
}

func (in *flowInterp) execStmt(fr *fframe, o *a.Node) fctl {
	in.fuel--
	if in.fuel < 0 {
		panic(&fFuelOut{})
	}
	if o.Kind() != a.KVar && o.Kind() != a.KAssert {
		fr.last, fr.lastText, fr.lastNode = in.stmtClass(o), in.stmtText(o), o
		in.culprits[fr.last]++
	}
	_, line := o.AsRaw().FilenameLine()
	switch o.Kind() {
	case a.KVar:
		n := o.AsVar()
		fr.locals[n.Name()] = in.zeroValue(n.XType())
		return fctl{}

	case a.KAssert:
		in.checkAssert(fr, o.AsAssert(), fmt.Sprintf("at line %d", line))
		return fctl{}

	case a.KAssign:
		n := o.AsAssign()
		lhs, rhs, op := n.LHS(), n.RHS(), n.Operator()
		if lhs == nil {
			if rhs.Operator() != t.IDOpenParen {
				panic(&fUnsupported{"expression statement"})
			}
			in.call(fr, rhs)
			return fctl{}
		}
		lt := lhs.MType()
		if lt.IsEitherSliceType() {
			if op != t.IDEq {
				panic(&fUnsupported{"slice op-assignment"})
			}
			v := in.evalValue(fr, rhs)
			if !v.isSl {
				panic(&fUnsupported{"slice assignment from non-slice"})
			}
			if lhs.Operator() != 0 {
				panic(&fUnsupported{"slice assignment to non-local"})
			}
			fr.locals[lhs.Ident()] = &fval{isSl: true, Sl: v.Sl}
			return fctl{}
		}
		if !(lt.IsNumType() || lt.IsBool()) {
			panic(&fUnsupported{"assignment of type " + lt.Str(in.tm)})
		}
		if op == t.IDEq || op == t.IDEqQuestion {
			if op == t.IDEqQuestion {
				panic(&fUnsupported{"=? assignment"})
			}
			v := in.eval(fr, rhs)
			in.store(fr, lhs, v, "assignment")
			return fctl{}
		}
		cur := in.eval(fr, lhs)
		r := in.eval(fr, rhs)
		tmp := a.NewExpr(0, op.BinaryForm(), 0, lhs.AsNode(), nil, rhs.AsNode(), nil)
		tmp.SetMType(lhs.MType().Unrefined())
		v := in.binop(tmp, op.BinaryForm(), lhs, cur, rhs, r, true)
		in.store(fr, lhs, v, "op-assignment")
		return fctl{}

	case a.KIf:
		open := int(line)
		for n := o.AsIf(); n != nil; n = n.ElseIf() {
			c := in.eval(fr, n.Condition())
			closeT := in.closeLine[open]
			if c.Sign() != 0 {
				return in.execBlock(fr, n.BodyIfTrue(), closeT)
			}
			// the else part opens on the line that closes the then part
			if n.ElseIf() == nil {
				if len(n.BodyIfFalse()) == 0 {
					return fctl{}
				}
				return in.execBlock(fr, n.BodyIfFalse(), in.closeLine[closeT])
			}
			open = closeT
		}
		return fctl{}

	case a.KWhile:
		n := o.AsWhile()
		open := in.openLineFrom(int(line))
		in.checkAsserts(fr, n.Asserts(), t.IDPost, fmt.Sprintf("on entry to the loop at line %d", line))
		for {
			in.fuel--
			if in.fuel < 0 {
				panic(&fFuelOut{})
			}
			c := in.eval(fr, n.Condition())
			if c.Sign() == 0 {
				in.checkAsserts(fr, n.Asserts(), t.IDPre, fmt.Sprintf("on exit from the loop at line %d", line))
				fr.last, fr.lastText = "while-exit", in.stmtText(o)
				return fctl{}
			}
			fr.last, fr.lastText = "while-iteration", in.stmtText(o)
			r := in.execBlock(fr, n.Body(), in.closeLine[open])
			switch {
			case r.k == fctlNone, r.k == fctlContinue && r.target == n:
				in.checkAsserts(fr, n.Asserts(), t.IDPost, fmt.Sprintf("at a continue of the loop at line %d", line))
			case r.k == fctlBreak && r.target == n:
				in.checkAsserts(fr, n.Asserts(), t.IDPre, fmt.Sprintf("at a break of the loop at line %d", line))
				fr.last, fr.lastText = "while-exit", in.stmtText(o)
				return fctl{}
			default:
				return r
			}
		}

	case a.KJump:
		n := o.AsJump()
		w, _ := n.JumpTarget().(*a.While)
		if w == nil {
			panic(&fUnsupported{"jump target"})
		}
		if n.Keyword() == t.IDBreak {
			return fctl{k: fctlBreak, target: w}
		}
		return fctl{k: fctlContinue, target: w}

	case a.KRet:
		n := o.AsRet()
		if n.Keyword() == t.IDYield {
			in.suspend(strings.Trim(n.Value().Str(in.tm), `"`))
			return fctl{}
		}
		if fr.fn.Out() == nil || fr.fn.Effect().Coroutine() {
			return fctl{k: fctlReturn, ret: &fval{isSt: true}}
		}
		v := in.eval(fr, n.Value())
		if lo, hi, ok := in.typeBounds(fr.fn.Out()); ok && !fInRange(v, lo, hi) {
			in.fail("ret-outside-type", "return value %v outside %s", v, fr.fn.Out().Str(in.tm))
		}
		return fctl{k: fctlReturn, ret: &fval{I: v}}
	}
	panic(&fUnsupported{"statement kind " + o.Kind().String()})
}

// ---- public entry points (what a C caller does)

type flowCallResult struct {
	Status string // "ok", "suspended:<status>", "fuel", "unsupported:<what>"
	Fail   *fAbort
}

// runGuarded runs f, turning the interpreter's panics into a result.
func (in *flowInterp) runGuarded(f func() *fval) (res flowCallResult) {
	defer func() {
		if e := recover(); e != nil {
			switch x := e.(type) {
			case *fAbort:
				res = flowCallResult{Status: "abort", Fail: x}
			case *fFuelOut:
				res = flowCallResult{Status: "fuel"}
			case *fUnsupported:
				res = flowCallResult{Status: "unsupported:" + x.what}
			case *fUneval:
				res = flowCallResult{Status: "unsupported:uneval outside a fact"}
			case *fKilled:
				res = flowCallResult{Status: "killed"}
			case *fErrorStatus:
				res = flowCallResult{Status: "error-status"}
			default:
				panic(e)
			}
		}
	}()
	f()
	return flowCallResult{Status: "ok"}
}

// callPublic performs one call of a non-coroutine public function.
func (in *flowInterp) callPublic(name string, args map[t.ID]*fval) flowCallResult {
	fn := in.funcs[in.tm.ByName(name)]
	if fn == nil {
		return flowCallResult{Status: "unsupported:no such func " + name}
	}
	// a coroutine may be suspended meanwhile: keep its call chain
	savedStack, savedDepth, savedCoro := in.stack, in.depth, in.inCoro
	in.stack, in.depth, in.inCoro = nil, 0, false
	defer func() { in.stack, in.depth, in.inCoro = savedStack, savedDepth, savedCoro }()
	return in.runGuarded(func() *fval { return in.invoke(fn, args, nil, false) })
}

// startCoroutine starts a coroutine call in its own goroutine; it returns when the
// call suspends or finishes.
func (in *flowInterp) startCoroutine(name string, args map[t.ID]*fval) flowCallResult {
	fn := in.funcs[in.tm.ByName(name)]
	if fn == nil {
		return flowCallResult{Status: "unsupported:no such func " + name}
	}
	in.stack = nil
	in.depth = 0
	in.inCoro = true
	in.yieldCh = make(chan fyield)
	in.resumeCh = make(chan fresume)
	go func() {
		res := in.runGuarded(func() *fval { return in.invoke(fn, args, nil, false) })
		in.yieldCh <- fyield{done: true, status: res.Status, err: res.Fail}
	}()
	return in.waitCoroutine()
}

func (in *flowInterp) waitCoroutine() flowCallResult {
	y := <-in.yieldCh
	if y.done {
		in.inCoro, in.suspended = false, false
		res := flowCallResult{Status: y.status}
		if f, ok := y.err.(*fAbort); ok && f != nil {
			res.Fail = f
		}
		return res
	}
	in.suspended = true
	return flowCallResult{Status: "suspended:" + y.status}
}

// resumeCoroutine calls the suspended coroutine again, with new arguments.
func (in *flowInterp) resumeCoroutine(args map[t.ID]*fval) flowCallResult {
	if !in.suspended {
		return flowCallResult{Status: "unsupported:not suspended"}
	}
	in.resumeCh <- fresume{args: args}
	return in.waitCoroutine()
}

// killCoroutine abandons a suspended coroutine (end of a history).
func (in *flowInterp) killCoroutine() {
	if in.suspended {
		in.resumeCh <- fresume{kill: true}
		<-in.yieldCh
		in.suspended, in.inCoro = false, false
	}
}
