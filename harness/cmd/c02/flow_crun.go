package main

// C02, facts half: validation of the reference interpreter (the oracle's notion of
// "at run time") against the code the working tree's wuffs-c generates: for a sample
// of the accepted programs the same call histories — including suspension /
// resumption with changed arguments, rewritten slice memory and compacted I/O
// buffers — are performed by a generated C main (clang, ASan + UBSan) and the
// status, the receiver's fields, the reader's ri and the slice contents after
// every call must equal the interpreter's. A sanitizer report is an oracle failure
// of its own (an accepted program went out of bounds). Skipped and counted when
// clang is not available.

import (
	"fmt"
	"os"
	"path/filepath"
	"sort"
	"strings"
	"sync"
	"time"

	t "github.com/google/wuffs/lang/token"

	"wvh/hlib"
)

// observation of one call, as both sides print it
func flowObsLine(status string, f0 uint64, f1 uint8, tab [4]uint8, buf [8]uint8, withIO bool, ri int, data []uint8) string {
	var b strings.Builder
	fmt.Fprintf(&b, "%s | %d %d |", status, f0, f1)
	for _, v := range tab {
		fmt.Fprintf(&b, " %d", v)
	}
	b.WriteString(" |")
	for _, v := range buf {
		fmt.Fprintf(&b, " %d", v)
	}
	if withIO {
		fmt.Fprintf(&b, " | ri=%d | data", ri)
		for _, v := range data {
			fmt.Fprintf(&b, " %d", v)
		}
	}
	return b.String()
}

func (in *flowInterp) observe(status string, data *fval, io *fio) string {
	id := func(s string) t.ID { return in.tm.ByName(s) }
	u := func(v *fval) uint64 {
		if v == nil || v.I == nil {
			return 0
		}
		return v.I.Uint64()
	}
	var tab [4]uint8
	var buf [8]uint8
	if v := in.fields[id("tab")]; v != nil {
		for i := range tab {
			if i < len(v.Arr) {
				tab[i] = uint8(u(v.Arr[i]))
			}
		}
	}
	if v := in.fields[id("buf")]; v != nil {
		for i := range buf {
			if i < len(v.Arr) {
				buf[i] = uint8(u(v.Arr[i]))
			}
		}
	}
	var d []uint8
	ri := 0
	if data != nil {
		for _, c := range data.Sl {
			d = append(d, uint8(u(c)))
		}
	}
	if io != nil {
		ri = io.ri
	}
	return flowObsLine(status, u(in.fields[id("f0")]), uint8(u(in.fields[id("f1")])), tab, buf, io != nil, ri, d)
}

// ---- C text

func cBytes(bs []byte) string {
	q := make([]string, len(bs))
	for i, b := range bs {
		q[i] = fmt.Sprint(b)
	}
	return strings.Join(q, ", ")
}

// flowCMain renders run_<pkg>(hist): the histories of one program.
func flowCMain(pkg string, coroutine bool, hists []flowHistory, use []bool) string {
	var b strings.Builder
	st := "wuffs_" + pkg + "__thing"
	fmt.Fprintf(&b, "static void obs_%s(%s* f, const char* status, int with_io, wuffs_base__io_buffer* src, wuffs_base__slice_u8 data) {\n", pkg, st)
	b.WriteString("  printf(\"%s | %llu %d |\", status, (unsigned long long)f->private_impl.f_f0, (int)f->private_impl.f_f1);\n")
	b.WriteString("  for (int i = 0; i < 4; i++) printf(\" %d\", (int)f->private_impl.f_tab[i]);\n  printf(\" |\");\n")
	b.WriteString("  for (int i = 0; i < 8; i++) printf(\" %d\", (int)f->private_impl.f_buf[i]);\n")
	b.WriteString("  if (with_io) { printf(\" | ri=%d | data\", (int)src->meta.ri); for (size_t i = 0; i < data.len; i++) printf(\" %d\", (int)data.ptr[i]); }\n")
	b.WriteString("  printf(\"\\n\"); fflush(stdout);\n}\n")
	fmt.Fprintf(&b, "static int run_%s(int hist) {\n", pkg)
	for hi, h := range hists {
		if !use[hi] {
			continue
		}
		fmt.Fprintf(&b, "  if (hist == %d) {\n    %s f;\n", hi, st)
		fmt.Fprintf(&b, "    if (%s__initialize(&f, sizeof f, WUFFS_VERSION, 0).repr) { printf(\"init-failed\\n\"); return 3; }\n", st)
		b.WriteString("    uint8_t dmem[64]; size_t dlen = 0; uint8_t bmem[256]; wuffs_base__io_buffer src; memset(&src, 0, sizeof src);\n")
		b.WriteString("    wuffs_base__slice_u8 data; data.ptr = dmem; data.len = 0; int suspended = 0; (void)suspended; (void)dlen;\n")
		for _, c := range h {
			a := c.Args
			switch c.Kind {
			case "tweak":
				fmt.Fprintf(&b, "    %s__tweak(&f, %d); obs_%s(&f, \"-\", 0, &src, data);\n", st, a.V, pkg)
				continue
			case "resume":
				b.WriteString("    if (!suspended) return 0;\n    {\n")
				if a.Alias {
					// the same memory, rewritten
					fmt.Fprintf(&b, "      { static const uint8_t nd[] = {%s 0}; for (size_t i = 0; i < data.len; i++) { dmem[i] = (i < %d) ? nd[i] : flow_bytes[(i * 7 + %d) %% 11]; } }\n",
						cBytes(a.Data)+func() string {
							if len(a.Data) > 0 {
								return ","
							}
							return ""
						}(), len(a.Data), a.V)
				} else {
					fmt.Fprintf(&b, "      { static const uint8_t nd[] = {%s 0}; memcpy(dmem, nd, %d); data.ptr = dmem; data.len = %d; }\n",
						cBytes(a.Data)+func() string {
							if len(a.Data) > 0 {
								return ","
							}
							return ""
						}(), len(a.Data), len(a.Data))
				}
				if a.SameIO {
					// compact, then append the new data
					fmt.Fprintf(&b, "      { size_t rest = src.meta.wi - src.meta.ri; memmove(bmem, bmem + src.meta.ri, rest); static const uint8_t nb[] = {%s 0}; memcpy(bmem + rest, nb, %d); src.data.ptr = bmem; src.data.len = rest + %d; src.meta.ri = 0; src.meta.wi = rest + %d; src.meta.closed = src.meta.closed || %d; }\n",
						cBytes(a.Buf[:a.Wi])+func() string {
							if a.Wi > 0 {
								return ","
							}
							return ""
						}(), a.Wi, a.Wi, a.Wi, b2int(a.Closed))
				} else {
					fmt.Fprintf(&b, "      { static const uint8_t nb[] = {%s 0}; memcpy(bmem, nb, %d); src.data.ptr = bmem; src.data.len = %d; src.meta.ri = %d; src.meta.wi = %d; src.meta.closed = %d; }\n",
						cBytes(a.Buf)+func() string {
							if len(a.Buf) > 0 {
								return ","
							}
							return ""
						}(), len(a.Buf), len(a.Buf), a.Ri, a.Wi, b2int(a.Closed))
				}
			case "run":
				fmt.Fprintf(&b, "    {\n      { static const uint8_t nd[] = {%s 0}; memcpy(dmem, nd, %d); data.ptr = dmem; data.len = %d; }\n",
					cBytes(a.Data)+func() string {
						if len(a.Data) > 0 {
							return ","
						}
						return ""
					}(), len(a.Data), len(a.Data))
				fmt.Fprintf(&b, "      { static const uint8_t nb[] = {%s 0}; memcpy(bmem, nb, %d); src.data.ptr = bmem; src.data.len = %d; src.meta.ri = %d; src.meta.wi = %d; src.meta.closed = %d; }\n",
					cBytes(a.Buf)+func() string {
						if len(a.Buf) > 0 {
							return ","
						}
						return ""
					}(), len(a.Buf), len(a.Buf), a.Ri, a.Wi, b2int(a.Closed))
			}
			if coroutine {
				fmt.Fprintf(&b, "      wuffs_base__status s = %s__run(&f, %d, %d, data, &src);\n", st, a.N, a.V)
				fmt.Fprintf(&b, "      suspended = wuffs_base__status__is_suspension(&s);\n")
				fmt.Fprintf(&b, "      obs_%s(&f, s.repr ? (strncmp(s.repr, \"$base: \", 7) ? s.repr : s.repr + 7) : \"ok\", 1, &src, data);\n", pkg)
				b.WriteString("      if (wuffs_base__status__is_error(&s)) return 0;\n")
			} else {
				fmt.Fprintf(&b, "      %s__run(&f, %d, %d, data, &src);\n", st, a.N, a.V)
				fmt.Fprintf(&b, "      obs_%s(&f, \"-\", 1, &src, data);\n", pkg)
			}
			b.WriteString("    }\n")
		}
		b.WriteString("    return 0;\n  }\n")
	}
	b.WriteString("  return 2;\n}\n")
	return b.String()
}

func b2int(b bool) int {
	if b {
		return 1
	}
	return 0
}

type flowCTools struct {
	dir     string
	wuffsC  string
	baseC   string
	baseO   string
	cleanup func()
}

var flowSanRuntimeDir string

func flowPrepareC(repo string) (*flowCTools, error) {
	if _, _, err := hlib.RunCmd(time.Minute, "", nil, nil, "clang", "--version"); err != nil {
		return nil, fmt.Errorf("clang not available")
	}
	dir, cleanup := hlib.NewScratchDir("c02c")
	if err := hlib.BuildTools(repo, dir, "wuffs-c"); err != nil {
		cleanup()
		return nil, err
	}
	if o, _, err := hlib.RunCmd(time.Minute, "", nil, nil, "clang", "-print-file-name=libclang_rt.asan-x86_64.so"); err == nil {
		if p := strings.TrimSpace(string(o)); filepath.IsAbs(p) {
			if _, err := os.Stat(p); err == nil {
				flowSanRuntimeDir = filepath.Dir(p)
			}
		}
	}
	ct := &flowCTools{dir: dir, wuffsC: filepath.Join(dir, "wuffs-c"), baseC: filepath.Join(dir, "wuffs-base.c"), cleanup: cleanup}
	out, stderr, err := hlib.RunCmd(5*time.Minute, "", nil, nil, ct.wuffsC, "gen", "-package_name", "base")
	if err != nil {
		cleanup()
		return nil, fmt.Errorf("wuffs-c gen -package_name base: %v: %s", err, firstLineOf(string(stderr)))
	}
	if err := os.WriteFile(ct.baseC, out, 0o644); err != nil {
		cleanup()
		return nil, err
	}
	core := filepath.Join(dir, "basecore.c")
	os.WriteFile(core, []byte("#define WUFFS_IMPLEMENTATION\n#define WUFFS_CONFIG__MODULES\n#define WUFFS_CONFIG__MODULE__BASE__CORE\n#include \"wuffs-base.c\"\n"), 0o644)
	ct.baseO = filepath.Join(dir, "basecore.o")
	if err := hlib.CC("clang", "-O0", "-g0", "-w", "-fsanitize=address,undefined", "-fno-sanitize-recover=all", "-c", "-o", ct.baseO, core); err != nil {
		cleanup()
		return nil, err
	}
	return ct, nil
}

const flowMarkAbove = "// ¡ WUFFS MONOLITHIC RELEASE DISCARDS EVERYTHING ABOVE."
const flowMarkBelow = "// ¡ WUFFS MONOLITHIC RELEASE DISCARDS EVERYTHING BELOW."

// flowCCompare compiles and runs the sampled programs and compares the observations.
func flowCCompare(r *hlib.Run, results []*flowResult, maxProgs int) {
	var sample []*flowResult
	for _, res := range results {
		if res == nil || !res.Accepted || len(res.Hists) == 0 || !strings.HasPrefix(res.Origin, "generated") {
			continue
		}
		n := 0
		for _, ok := range res.HistDone {
			if ok {
				n++
			}
		}
		if n == 0 {
			continue
		}
		sample = append(sample, res)
		if len(sample) >= maxProgs {
			break
		}
	}
	if len(sample) == 0 {
		return
	}
	ct, err := flowPrepareC(r.Repo)
	if err != nil {
		r.Count("flow:c-compare:skipped-no-toolchain")
		r.Note("flow C comparison skipped: " + firstLineOf(err.Error()))
		return
	}
	defer ct.cleanup()
	const perBatch = 8
	type job struct{ lo, hi int }
	var jobs []job
	for lo := 0; lo < len(sample); lo += perBatch {
		hi := lo + perBatch
		if hi > len(sample) {
			hi = len(sample)
		}
		jobs = append(jobs, job{lo, hi})
	}
	var mu sync.Mutex
	var wg sync.WaitGroup
	nullPlusZeroNoted := false
	type ordered struct {
		order int
		f     hlib.Failure
	}
	var fails []ordered
	var nullNote string
	nullOrder := 1 << 60
	sem := make(chan struct{}, 3)
	for bi, jb := range jobs {
		wg.Add(1)
		go func(bi int, jb job) {
			defer wg.Done()
			sem <- struct{}{}
			defer func() { <-sem }()
			batch := sample[jb.lo:jb.hi]
			var b strings.Builder
			b.WriteString("#define WUFFS_IMPLEMENTATION\n#define WUFFS_CONFIG__MODULES\n")
			pkgs := make([]string, len(batch))
			bodies := make([]string, len(batch))
			for i, res := range batch {
				pkgs[i] = fmt.Sprintf("q%d", jb.lo+i)
				path := filepath.Join(ct.dir, pkgs[i]+".wuffs")
				os.WriteFile(path, []byte(res.Src), 0o644)
				out, stderr, err := hlib.GenPkg(ct.wuffsC, pkgs[i], path)
				if err != nil {
					mu.Lock()
					fails = append(fails, ordered{(jb.lo + i) * 1000, hlib.Failure{Key: "flow-c:wuffs-c-rejects-accepted-program", Desc: "wuffs-c gen fails on a program that lang/check accepts: " + firstLineOf(string(stderr)), Replay: res.Src}})
					mu.Unlock()
					continue
				}
				s := string(out)
				x, y := strings.Index(s, flowMarkAbove), strings.Index(s, flowMarkBelow)
				if x < 0 || y < 0 {
					continue
				}
				bodies[i] = s[x:y]
				fmt.Fprintf(&b, "#define WUFFS_CONFIG__MODULE__%s\n", strings.ToUpper(pkgs[i]))
			}
			fmt.Fprintf(&b, "#include %q\n#include <stdio.h>\n#include <stdlib.h>\n#include <string.h>\n", ct.baseC)
			b.WriteString("static const uint8_t flow_bytes[11] = {0, 1, 2, 3, 4, 5, 7, 9, 100, 200, 255};\n")
			for i, res := range batch {
				if bodies[i] == "" {
					continue
				}
				b.WriteString(bodies[i])
				b.WriteString("\n")
				b.WriteString(flowCMain(pkgs[i], res.Coroutine, res.Hists, res.HistDone))
			}
			b.WriteString("int main(int argc, char** argv) {\n  if (argc < 3) return 2;\n  int which = atoi(argv[1]), hist = atoi(argv[2]);\n  switch (which) {\n")
			for i := range batch {
				if bodies[i] != "" {
					fmt.Fprintf(&b, "    case %d: return run_%s(hist);\n", i, pkgs[i])
				}
			}
			b.WriteString("  }\n  return 2;\n}\n")
			cfile := filepath.Join(ct.dir, fmt.Sprintf("batch%d.c", bi))
			exe := filepath.Join(ct.dir, fmt.Sprintf("batch%d.exe", bi))
			os.WriteFile(cfile, []byte(b.String()), 0o644)
			args := []string{"-O0", "-g0", "-w", "-fsanitize=address,undefined", "-fno-sanitize-recover=all"}
			if flowSanRuntimeDir != "" {
				args = append(args, "-shared-libsan", "-Wl,-rpath,"+flowSanRuntimeDir)
			}
			if err := hlib.CC("clang", append(args, "-o", exe, cfile, ct.baseO)...); err != nil {
				mu.Lock()
				r.Count("flow:c-compare:batch-does-not-compile")
				r.Note("flow C comparison: batch does not compile: " + firstLineOf(err.Error()))
				mu.Unlock()
				return
			}
			env := []string{"ASAN_OPTIONS=detect_leaks=0:abort_on_error=0", "UBSAN_OPTIONS=print_stacktrace=0"}
			for i, res := range batch {
				if bodies[i] == "" {
					continue
				}
				for hi := range res.Hists {
					if !res.HistDone[hi] {
						continue
					}
					stdout, stderr, err := hlib.RunCmd(60*time.Second, "", env, nil, exe, fmt.Sprint(i), fmt.Sprint(hi))
					got := strings.Split(strings.TrimRight(string(stdout), "\n"), "\n")
					want := res.Obs[hi]
					replay := "// history:\n//     " + strings.ReplaceAll(res.Hists[hi].String(), "\n", "\n//") + "\n" + res.Src
					mu.Lock()
					r.Count("flow:c-compare:histories")
					switch {
					case err != nil:
						msg := firstLineOf(string(stderr))
						for _, ln := range strings.Split(string(stderr), "\n") {
							if strings.Contains(ln, "runtime error") || strings.Contains(ln, "AddressSanitizer") {
								msg = strings.TrimSpace(ln)
								break
							}
						}
						if strings.Contains(msg, "applying zero offset to null pointer") {
							// NULL + 0 in a base helper (e.g. wuffs_base__slice_u8__subslice_i on the
							// zero-valued slice): undefined behaviour in C, but the subject of C03 /
							// C08 (reported there), not a false fact
							r.Count("flow:c-compare:ubsan-null-plus-zero(reported-to-C03)")
							nullPlusZeroNoted = true
							if o := (jb.lo+i)*1000 + hi; o < nullOrder {
								nullOrder = o
								nullNote = "flow C comparison: UBSan `applying zero offset to null pointer` in generated C of an accepted program (C03's family): " + msg + "\n" + replay
							}
						} else {
							fails = append(fails, ordered{(jb.lo+i)*1000 + hi, hlib.Failure{Key: "flow-c:trap-in-accepted-program", Desc: "the C generated for an accepted program traps under ASan/UBSan: " + msg, Replay: replay}})
						}
					case strings.Join(got, "\n") != strings.Join(want, "\n"):
						k := 0
						for k < len(got) && k < len(want) && got[k] == want[k] {
							k++
						}
						g, w := "<none>", "<none>"
						if k < len(got) {
							g = got[k]
						}
						if k < len(want) {
							w = want[k]
						}
						fails = append(fails, ordered{(jb.lo+i)*1000 + hi, hlib.Failure{Key: "flow-c:interpreter-differs-from-generated-c",
							Desc: fmt.Sprintf("call %d of the history: generated C gives %q, the reference interpreter %q", k, g, w), Replay: replay}})
					default:
						r.Count("flow:c-compare:agree")
					}
					mu.Unlock()
				}
			}
		}(bi, jb)
	}
	wg.Wait()
	sort.Slice(fails, func(i, j int) bool { return fails[i].order < fails[j].order })
	for _, x := range fails {
		r.Fail(x.f.Key, x.f.Desc, x.f.Replay)
	}
	if nullPlusZeroNoted {
		r.Note(nullNote)
	}
}
