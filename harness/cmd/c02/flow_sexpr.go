package main

// C02, facts half: serialisation of a type-checked function body for the Lean
// model (Model/Flow.lean, driver ops `case flow` / `pt`, see lean/Driver/C02Flow.lean)
// and the enumeration of the program points in the order the model lists them.
// Expressions as in the C01 correspondence (harness/cmd/c01/sexpr.go).  Anything
// outside the model's fragment makes the whole function unserialisable (counted).

import (
	"fmt"
	"strings"

	a "github.com/google/wuffs/lang/ast"
	t "github.com/google/wuffs/lang/token"
)

var flowBinOpNames = map[t.ID]string{
	t.IDXBinaryPlus: "plus", t.IDXBinaryMinus: "minus", t.IDXBinaryStar: "star", t.IDXBinarySlash: "slash",
	t.IDXBinaryPercent: "percent", t.IDXBinaryShiftL: "shl", t.IDXBinaryShiftR: "shr", t.IDXBinaryAmp: "amp",
	t.IDXBinaryPipe: "pipe", t.IDXBinaryHat: "hat", t.IDXBinaryTildeModPlus: "modplus",
	t.IDXBinaryTildeModMinus: "modminus", t.IDXBinaryTildeModStar: "modstar", t.IDXBinaryTildeModShiftL: "modshl",
	t.IDXBinaryTildeSatPlus: "satplus", t.IDXBinaryTildeSatMinus: "satminus",
	t.IDXBinaryNotEq: "ne", t.IDXBinaryLessThan: "lt", t.IDXBinaryLessEq: "le", t.IDXBinaryEqEq: "eq",
	t.IDXBinaryGreaterEq: "ge", t.IDXBinaryGreaterThan: "gt", t.IDXBinaryAnd: "and", t.IDXBinaryOr: "or",
}

var flowAssocOpNames = map[t.ID]string{
	t.IDXAssociativePlus: "plus", t.IDXAssociativeStar: "star", t.IDXAssociativeAmp: "amp",
	t.IDXAssociativePipe: "pipe", t.IDXAssociativeHat: "hat", t.IDXAssociativeAnd: "and", t.IDXAssociativeOr: "or",
}

var flowUnOpNames = map[t.ID]string{t.IDXUnaryPlus: "pos", t.IDXUnaryMinus: "neg", t.IDXUnaryNot: "not"}

var flowOpAssignNames = map[t.ID]string{
	t.IDPlusEq: "plus", t.IDMinusEq: "minus", t.IDStarEq: "star", t.IDSlashEq: "slash", t.IDPercentEq: "percent",
	t.IDShiftLEq: "shl", t.IDShiftREq: "shr", t.IDAmpEq: "amp", t.IDPipeEq: "pipe", t.IDHatEq: "hat",
	t.IDTildeModPlusEq: "modplus", t.IDTildeModMinusEq: "modminus", t.IDTildeModStarEq: "modstar",
	t.IDTildeModShiftLEq: "modshl", t.IDTildeSatPlusEq: "satplus", t.IDTildeSatMinusEq: "satminus",
}

type flowSer struct {
	tm     *t.Map
	l      *loaded // the axiom listing (for `via` reasons)
	funcs  map[t.ID]*a.Func
	bad    string // first reason why the function is outside the fragment
	loops  []*a.While
	braces map[int]int
}

func (z *flowSer) fail(why string) string {
	if z.bad == "" {
		z.bad = why
	}
	return "?"
}

func (z *flowSer) typ(typ *a.TypeExpr) string {
	if typ == nil {
		return z.fail("nil type")
	}
	if typ.IsIdeal() {
		return "ideal _ _"
	}
	if typ.Decorator() != 0 || typ.QID()[0] != t.IDBase {
		return z.fail("type " + typ.Str(z.tm))
	}
	base := typ.QID()[1].Str(z.tm)
	if _, _, _, ok := fBaseBounds(base); !ok {
		return z.fail("type " + typ.Str(z.tm))
	}
	lo, hi := "_", "_"
	if typ.IsRefined() {
		if x := typ.Min(); x != nil {
			if x.ConstValue() == nil {
				return z.fail("non-constant refinement")
			}
			lo = x.ConstValue().String()
		}
		if x := typ.Max(); x != nil {
			if x.ConstValue() == nil {
				return z.fail("non-constant refinement")
			}
			hi = x.ConstValue().String()
		}
	}
	return base + " " + lo + " " + hi
}

func (z *flowSer) expr(n *a.Expr) string {
	if n == nil {
		return z.fail("nil expression")
	}
	if cv := n.ConstValue(); cv != nil {
		if typ := n.MType(); typ != nil && !typ.IsIdeal() && !typ.IsBool() {
			return z.fail("typed constant")
		}
		return "c " + cv.String()
	}
	op := n.Operator()
	switch {
	case op == 0:
		if n.MType() == nil || n.MType().IsIdeal() {
			return z.fail("untyped identifier")
		}
		return "v " + n.Ident().Str(z.tm) + " " + z.typ(n.MType())
	case op == t.IDDot:
		if id := n.IsArgsDotFoo(); id != 0 {
			return "v args." + id.Str(z.tm) + " " + z.typ(n.MType())
		}
		if id := n.IsThisDotFoo(); id != 0 {
			return "v this." + id.Str(z.tm) + " " + z.typ(n.MType())
		}
		return z.fail("selector " + n.Str(z.tm))
	case op == t.IDOpenBracket:
		arr := n.LHS().AsExpr()
		aTyp := arr.MType()
		if aTyp == nil || !aTyp.IsEitherArrayType() {
			return z.fail("index of a non-array")
		}
		cv := aTyp.ArrayLength().ConstValue()
		if cv == nil || !cv.IsInt64() || cv.Sign() < 0 {
			return z.fail("array length")
		}
		name := ""
		if arr.Operator() == 0 && arr.ConstValue() == nil {
			name = arr.Ident().Str(z.tm)
		} else if id := arr.IsThisDotFoo(); id != 0 {
			name = "this." + id.Str(z.tm)
		} else {
			return z.fail("array operand " + arr.Str(z.tm))
		}
		return "ix " + name + " " + cv.String() + " " + z.typ(aTyp.Inner()) + " " + z.expr(n.RHS().AsExpr())
	case op.IsXUnaryOp():
		return "u " + flowUnOpNames[op] + " " + z.expr(n.RHS().AsExpr())
	case op == t.IDXBinaryAs:
		return "as " + z.typ(n.RHS().AsTypeExpr()) + " " + z.expr(n.LHS().AsExpr())
	case op.IsXBinaryOp():
		nm, ok := flowBinOpNames[op]
		if !ok {
			return z.fail("binary operator")
		}
		return "b " + nm + " " + z.expr(n.LHS().AsExpr()) + " " + z.expr(n.RHS().AsExpr())
	case op.IsXAssociativeOp():
		nm, ok := flowAssocOpNames[op]
		if !ok {
			return z.fail("associative operator")
		}
		parts := []string{"a", nm, fmt.Sprint(len(n.Args()))}
		for _, o := range n.Args() {
			parts = append(parts, z.expr(o.AsExpr()))
		}
		return strings.Join(parts, " ")
	}
	return z.fail("expression " + n.Str(z.tm))
}

// facts renders a probed fact list; ok = false if a fact is outside the fragment.
func (z *flowSer) facts(fs []*a.Expr) (string, bool) {
	saved := z.bad
	z.bad = ""
	parts := []string{fmt.Sprint(len(fs))}
	for _, f := range fs {
		parts = append(parts, z.expr(f))
	}
	ok := z.bad == ""
	z.bad = saved
	return strings.Join(parts, " "), ok
}

func (z *flowSer) block(nodes []*a.Node) string {
	if len(nodes) == 0 {
		return "skip"
	}
	return "seq " + z.stmt(nodes[0]) + " " + z.block(nodes[1:])
}

func (z *flowSer) callArgs(fn *a.Func, args []*a.Node) string {
	fields := fn.In().Fields()
	parts := []string{fmt.Sprint(len(args))}
	for i, o := range args {
		v := o.AsArg().Value()
		if typ := v.MType(); typ == nil || !(typ.IsNumTypeOrIdeal() || typ.IsBool()) {
			return z.fail("non-scalar call argument")
		}
		parts = append(parts, z.expr(v), z.typ(fields[i].AsField().XType()))
	}
	return strings.Join(parts, " ")
}

func (z *flowSer) reason(n *a.Assert) string {
	id := n.Reason()
	if id == 0 {
		return "none"
	}
	text := strings.Trim(id.Str(z.tm), `"`)
	for i, s := range z.l.mdText {
		if s != text || z.l.md[i] == nil {
			continue
		}
		x := z.l.md[i]
		parts := []string{"via", fmt.Sprint(i), fmt.Sprint(len(n.Args()))}
		for _, o := range n.Args() {
			name := o.AsArg().Name().Str(z.tm)
			idx := -1
			for j, v := range x.Vars {
				if v == name {
					idx = j
				}
			}
			if idx < 0 {
				return z.fail("via argument " + name + " is not a variable of the axiom")
			}
			parts = append(parts, fmt.Sprint(idx), z.expr(o.AsArg().Value()))
		}
		return strings.Join(parts, " ")
	}
	return z.fail("unlisted reason " + text)
}

func (z *flowSer) stmt(o *a.Node) string {
	switch o.Kind() {
	case a.KVar:
		n := o.AsVar()
		if typ := n.XType(); !(typ.IsNumType() || typ.IsBool()) {
			return z.fail("variable of type " + typ.Str(z.tm))
		}
		// "var x T" has an implicit "= 0" (bcheckVar)
		return "assign v " + n.Name().Str(z.tm) + " " + z.typ(n.XType()) + " c 0"
	case a.KAssert:
		n := o.AsAssert()
		return "assert " + z.expr(n.Condition()) + " " + z.reason(n)
	case a.KAssign:
		n := o.AsAssign()
		lhs, rhs, op := n.LHS(), n.RHS(), n.Operator()
		if rhs.Operator() == t.IDOpenParen {
			recv, meth, args, ok := rhs.IsMethodCall()
			if !ok || recv.Operator() != 0 || recv.Ident() != t.IDThis {
				return z.fail("call " + rhs.Str(z.tm))
			}
			fn := z.funcs[meth]
			if fn == nil {
				return z.fail("call of an unknown method")
			}
			if lhs != nil {
				// `x = this.m!(args)`: the value of an impure, non-coroutine call
				if op != t.IDEq || lhs.Operator() == t.IDOpenBracket || !fn.Effect().Impure() || fn.Effect().Coroutine() || fn.Out() == nil {
					return z.fail("call " + rhs.Str(z.tm))
				}
				return "callassign " + z.expr(lhs) + " " + z.typ(fn.Out()) + " " + z.callArgs(fn, args)
			}
			switch {
			case fn.Effect().Coroutine():
				return "cocall " + z.callArgs(fn, args)
			case fn.Effect().Impure():
				return "call " + z.callArgs(fn, args)
			}
			return z.fail("pure call statement")
		}
		if lhs == nil {
			return z.fail("expression statement")
		}
		if lhs.Operator() == t.IDOpenBracket {
			return z.fail("element store")
		}
		if op == t.IDEq {
			return "assign " + z.expr(lhs) + " " + z.expr(rhs)
		}
		nm, ok := flowOpAssignNames[op]
		if !ok {
			return z.fail("assignment operator " + op.Str(z.tm))
		}
		return "opassign " + nm + " " + z.expr(lhs) + " " + z.expr(rhs)
	case a.KIf:
		n := o.AsIf()
		if n.ElseIf() != nil {
			return z.fail("else-if chain")
		}
		return "if " + z.expr(n.Condition()) + " " + z.block(n.BodyIfTrue()) + " " + z.block(n.BodyIfFalse())
	case a.KWhile:
		n := o.AsWhile()
		parts := []string{"while", fmt.Sprint(len(n.Asserts()))}
		for _, as := range n.Asserts() {
			as := as.AsAssert()
			if as.Reason() != 0 {
				return z.fail("loop condition with a via reason")
			}
			parts = append(parts, as.Keyword().Str(z.tm), z.expr(as.Condition()))
		}
		parts = append(parts, z.expr(n.Condition()))
		z.loops = append(z.loops, n)
		parts = append(parts, z.block(n.Body()))
		z.loops = z.loops[:len(z.loops)-1]
		return strings.Join(parts, " ")
	case a.KJump:
		n := o.AsJump()
		w, _ := n.JumpTarget().(*a.While)
		depth := -1
		for i := len(z.loops) - 1; i >= 0; i-- {
			if z.loops[i] == w {
				depth = len(z.loops) - 1 - i
			}
		}
		if depth < 0 {
			return z.fail("jump target")
		}
		k := "c"
		if n.Keyword() == t.IDBreak {
			k = "b"
		}
		return fmt.Sprintf("jump %s %d", k, depth)
	case a.KRet:
		n := o.AsRet()
		if n.Keyword() == t.IDYield {
			return "yield"
		}
		if v := n.Value(); v != nil && v.MType() != nil && (v.MType().IsNumType() || v.MType().IsBool()) {
			return z.fail("return of a value")
		}
		return "ret0"
	}
	return z.fail("statement " + o.Kind().String())
}

// points lists the probe lines of a block in the model's order of points (0: a
// point the harness cannot probe, e.g. before a `var` line).
func (z *flowSer) points(nodes []*a.Node, closeLine int) []int {
	var out []int
	for _, o := range nodes {
		_, line := o.AsRaw().FilenameLine()
		if o.Kind() == a.KVar {
			out = append(out, 0)
		} else {
			out = append(out, int(line))
		}
		switch o.Kind() {
		case a.KIf:
			n := o.AsIf()
			closeT := z.braces[int(line)]
			out = append(out, z.points(n.BodyIfTrue(), closeT)...)
			if len(n.BodyIfFalse()) > 0 {
				out = append(out, z.points(n.BodyIfFalse(), z.braces[closeT])...)
			}
		case a.KWhile:
			open := int(line)
			for ; open < int(line)+64; open++ {
				if _, ok := z.braces[open]; ok {
					break
				}
			}
			out = append(out, z.points(o.AsWhile().Body(), z.braces[open])...)
		}
	}
	return append(out, closeLine)
}
