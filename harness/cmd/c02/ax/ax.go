// Package ax reads the axiom listing of /repo/lang/check the way the repo's
// own generator does (lang/check/gen.go: loadReasons / parse), reads what is
// actually compiled into the checker (lang/check/data.go: the reasons[] table,
// both the name strings and the generated function bodies), evaluates axioms
// over integers and translates them to Lean.  Used by the C02 and C20 harnesses.
package ax

import (
	"bytes"
	"fmt"
	"go/ast"
	"go/parser"
	"go/token"
	"os"
	"sort"
	"strconv"
	"strings"
)

// ---- axioms.md (same quoting rule as gen.go loadReasons)

func LoadMd(path string) ([]string, error) {
	s, err := os.ReadFile(path)
	if err != nil {
		return nil, err
	}
	dashes := []byte("\n\n---\n\n")
	i := bytes.Index(s, dashes)
	if i < 0 {
		return nil, fmt.Errorf("could not parse axioms.md")
	}
	s = s[i+len(dashes):]
	ret := []string(nil)
	lq, rq := []byte("`\""), []byte("\"`")
	for {
		i := bytes.Index(s, lq)
		if i < 0 {
			break
		}
		s = s[i+len(lq):]
		i = bytes.Index(s, rq)
		if i < 0 {
			break
		}
		ret = append(ret, string(s[:i]))
		s = s[i+len(rq):]
	}
	return ret, nil
}

// ---- the axiom string grammar (gen.go parse / parseExpr / parseOperand)

type Node struct {
	Op       string // operator, variable name or constant
	Lhs, Rhs *Node
}

func isConstant(s string) bool { return s != "" && '0' <= s[0] && s[0] <= '9' }
func isOp(s string) bool       { return s != "" && isOpByte(s[0]) }
func isParen(s string) bool    { return s != "" && '(' == s[0] }
func isVariable(s string) bool { return s != "" && 'a' <= s[0] && s[0] <= 'z' }
func isOpByte(b byte) bool {
	return ('<' <= b && b <= '>') || '+' == b || '-' == b || '!' == b
}
func isAlphaNumByte(b byte) bool { return ('0' <= b && b <= '9') || ('a' <= b && b <= 'z') }
func trim(s string) string {
	for ; len(s) > 0 && s[0] == ' '; s = s[1:] {
	}
	return s
}

// RelOps / ArithOps: the operators gen.go's `keys` table accepts.
var RelOps = map[string]bool{"!=": true, "<": true, "<=": true, "==": true, ">=": true, ">": true}
var ArithOps = map[string]bool{"+": true, "-": true}

func parseNode(s string) (*Node, error) {
	n, s, err := parseExpr(s)
	if err != nil {
		return nil, err
	}
	if s != "" {
		return nil, fmt.Errorf("parse error")
	}
	return n, nil
}

func parseExpr(s string) (*Node, string, error) {
	lhs, s, err := parseOperand(s)
	if err != nil {
		return nil, "", err
	}
	s = trim(s)
	if !isOp(s) {
		return nil, "", fmt.Errorf("parseExpr error")
	}
	i := 1
	for ; i < len(s) && isOpByte(s[i]); i++ {
	}
	op, s := s[:i], s[i:]
	s = trim(s)
	rhs, s, err := parseOperand(s)
	if err != nil {
		return nil, "", err
	}
	s = trim(s)
	return &Node{Op: op, Lhs: lhs, Rhs: rhs}, s, nil
}

func parseOperand(s string) (*Node, string, error) {
	switch {
	case isConstant(s), isVariable(s):
		i := 1
		for ; i < len(s) && isAlphaNumByte(s[i]); i++ {
		}
		return &Node{Op: s[:i]}, s[i:], nil
	case isParen(s):
		n, s, err := parseExpr(s[1:])
		if err != nil {
			return nil, "", err
		}
		if len(s) > 0 && s[0] == ')' {
			return n, s[1:], nil
		}
	}
	return nil, "", fmt.Errorf("parseOperand error")
}

func (n *Node) IsLeaf() bool { return n.Lhs == nil }

// String renders with the spacing/parenthesisation used in axioms.md.
func (n *Node) String() string { return n.str(true) }
func (n *Node) str(top bool) string {
	if n.IsLeaf() {
		if isConstant(n.Op) {
			if v, err := strconv.ParseInt(n.Op, 10, 32); err == nil {
				return strconv.FormatInt(v, 10)
			}
		}
		return n.Op
	}
	s := n.Lhs.str(false) + " " + n.Op + " " + n.Rhs.str(false)
	if top {
		return s
	}
	return "(" + s + ")"
}

type Axiom struct {
	Text  string
	Claim *Node
	Reqs  []*Node
	Vars  []string // sorted
}

// Parse follows gen.go gen(): claim ':' req (';' req)*.
func Parse(reason string) (*Axiom, error) {
	for i := 0; i < len(reason); i++ {
		if b := reason[i]; b < 0x20 || 0x7F <= b {
			return nil, fmt.Errorf("bad reason %q", reason)
		}
	}
	i := strings.IndexByte(reason, ':')
	if i < 0 {
		return nil, fmt.Errorf("bad reason %q", reason)
	}
	x := &Axiom{Text: reason}
	var err error
	if x.Claim, err = parseNode(strings.TrimSpace(reason[:i])); err != nil {
		return nil, fmt.Errorf("bad claim in %q: %v", reason, err)
	}
	for _, req := range strings.Split(reason[i+1:], ";") {
		n, err := parseNode(strings.TrimSpace(req))
		if err != nil {
			return nil, fmt.Errorf("bad req %q in %q: %v", req, reason, err)
		}
		x.Reqs = append(x.Reqs, n)
	}
	seen := map[string]bool{}
	for _, n := range append([]*Node{x.Claim}, x.Reqs...) {
		if err := wellFormed(n, true, seen); err != nil {
			return nil, fmt.Errorf("%q: %v", reason, err)
		}
	}
	for v := range seen {
		x.Vars = append(x.Vars, v)
	}
	sort.Strings(x.Vars)
	return x, nil
}

// wellFormed: top level is a relation, below it only + and -, leaves are
// variables or decimal constants.
func wellFormed(n *Node, top bool, vars map[string]bool) error {
	if n.IsLeaf() {
		if top {
			return fmt.Errorf("bare operand %q where a comparison is expected", n.Op)
		}
		if isVariable(n.Op) {
			vars[n.Op] = true
			return nil
		}
		if _, err := strconv.ParseInt(n.Op, 10, 32); err != nil {
			return fmt.Errorf("bad constant %q", n.Op)
		}
		return nil
	}
	if top && !RelOps[n.Op] {
		return fmt.Errorf("top-level operator %q is not a comparison", n.Op)
	}
	if !top && !ArithOps[n.Op] {
		return fmt.Errorf("nested operator %q is not + or -", n.Op)
	}
	if err := wellFormed(n.Lhs, false, vars); err != nil {
		return err
	}
	return wellFormed(n.Rhs, false, vars)
}

// Canon is the canonical text (what axioms.md would hold for this axiom).
func (x *Axiom) Canon() string {
	parts := []string{}
	for _, r := range x.Reqs {
		parts = append(parts, r.String())
	}
	return x.Claim.String() + ": " + strings.Join(parts, "; ")
}

// ---- evaluation over the integers

func (n *Node) evalInt(env map[string]int64) int64 {
	if n.IsLeaf() {
		if isVariable(n.Op) {
			return env[n.Op]
		}
		v, _ := strconv.ParseInt(n.Op, 10, 32)
		return v
	}
	l, r := n.Lhs.evalInt(env), n.Rhs.evalInt(env)
	if n.Op == "+" {
		return l + r
	}
	return l - r
}

func (n *Node) EvalRel(env map[string]int64) bool {
	l, r := n.Lhs.evalInt(env), n.Rhs.evalInt(env)
	switch n.Op {
	case "!=":
		return l != r
	case "<":
		return l < r
	case "<=":
		return l <= r
	case "==":
		return l == r
	case ">=":
		return l >= r
	case ">":
		return l > r
	}
	panic("bad rel op " + n.Op)
}

// Eval returns "premise-false", "holds" or "VIOLATED" for vals given in the
// order of x.Vars.
func (x *Axiom) Eval(vals []int64) string {
	env := map[string]int64{}
	for i, v := range x.Vars {
		env[v] = vals[i]
	}
	for _, r := range x.Reqs {
		if !r.EvalRel(env) {
			return "premise-false"
		}
	}
	if x.Claim.EvalRel(env) {
		return "holds"
	}
	return "VIOLATED"
}

// CounterExample searches [-k,k]^n.
func (x *Axiom) CounterExample(k int64) ([]int64, bool) {
	n := len(x.Vars)
	vals := make([]int64, n)
	for i := range vals {
		vals[i] = -k
	}
	for {
		if x.Eval(vals) == "VIOLATED" {
			return vals, true
		}
		i := 0
		for ; i < n; i++ {
			if vals[i] < k {
				vals[i]++
				break
			}
			vals[i] = -k
		}
		if i == n {
			return nil, false
		}
	}
}

// ---- data.go

type DataEntry struct {
	Name string // the reasons[i].s string with the inner quotes removed
	Raw  string // as written (with the quotes)
	Body string // canonical axiom text reconstructed from the function body, or "ERR: …"
}

// LoadDataGo parses data.go with go/parser and returns, for every element of
// `var reasons`, its name string and the axiom its function body implements.
func LoadDataGo(path string) ([]DataEntry, error) {
	fset := token.NewFileSet()
	f, err := parser.ParseFile(fset, path, nil, 0)
	if err != nil {
		return nil, err
	}
	var lit *ast.CompositeLit
	for _, d := range f.Decls {
		gd, ok := d.(*ast.GenDecl)
		if !ok || gd.Tok != token.VAR {
			continue
		}
		for _, sp := range gd.Specs {
			vs := sp.(*ast.ValueSpec)
			for i, nm := range vs.Names {
				if nm.Name == "reasons" && i < len(vs.Values) {
					lit, _ = vs.Values[i].(*ast.CompositeLit)
				}
			}
		}
	}
	if lit == nil {
		return nil, fmt.Errorf("data.go: no composite literal `var reasons`")
	}
	var out []DataEntry
	for _, e := range lit.Elts {
		cl, ok := e.(*ast.CompositeLit)
		if !ok || len(cl.Elts) != 2 {
			return nil, fmt.Errorf("data.go: unexpected reasons element")
		}
		bl, ok := cl.Elts[0].(*ast.BasicLit)
		if !ok || bl.Kind != token.STRING {
			return nil, fmt.Errorf("data.go: reasons element name is not a string literal")
		}
		raw, err := strconv.Unquote(bl.Value)
		if err != nil {
			return nil, err
		}
		name := raw
		if u, err := strconv.Unquote(raw); err == nil {
			name = u
		}
		de := DataEntry{Name: name, Raw: raw}
		if fl, ok := cl.Elts[1].(*ast.FuncLit); ok {
			if s, err := reconstruct(fl); err != nil {
				de.Body = "ERR: " + err.Error()
			} else {
				de.Body = s
			}
		} else {
			de.Body = "ERR: not a func literal"
		}
		out = append(out, de)
	}
	return out, nil
}

var idToOp = map[string]string{
	"IDXBinaryPlus": "+", "IDXBinaryMinus": "-", "IDXBinaryNotEq": "!=", "IDXBinaryLessThan": "<",
	"IDXBinaryLessEq": "<=", "IDXBinaryEqEq": "==", "IDXBinaryGreaterEq": ">=", "IDXBinaryGreaterThan": ">",
}

// reconstruct reads a generated reason function:
//
//	op, L, R := parseBinaryOp(E)          E has shape (L op' R) with
//	if op != t.IDX… { return errFailed }    op' the IDX of the following `if`
//	if !D.Eq(X) { return errFailed }      D and X are the same expression
//	xc := argValue(q.tm, n.Args(), "c")   xc is the variable c
//	tN := a.NewExpr(0, t.IDX…, 0, L.AsNode(), nil, R.AsNode(), nil)
//	if err := proveReasonRequirement(q, t.IDX…, L, R); err != nil { return err }
//
// and returns "claim: req; req" in the axioms.md notation: the rule the
// compiled checker really applies.  Go semantics are followed: a name bound a
// second time (`op, xa, xb := …` after `op, xa, t0 := …`) SHADOWS the first
// binding, which is then an unconstrained operand of the claim pattern and is
// rendered as a fresh variable (`az1`); a name bound by parseBinaryOp and never
// tied by an Eq test is a fresh variable too.  Anything else in the body (other
// than `_ = x` and `return nil`) is an error.
func reconstruct(fl *ast.FuncLit) (string, error) {
	type shape struct{ op, l, r string }
	cur := map[string]int{}      // Go name -> current version
	shapes := map[string]shape{} // versioned expression name -> its shape
	alias := map[string]string{} // versioned name -> versioned name it must Eq
	var reqs []*Node
	var pending string // name whose parseBinaryOp awaits its `if op != …`
	var pendL, pendR string
	ref := func(nm string) string { return fmt.Sprintf("%s#%d", nm, cur[nm]) }
	bind := func(nm string) string { cur[nm]++; return ref(nm) }
	name := func(e ast.Expr) (string, error) {
		id, ok := e.(*ast.Ident)
		if !ok {
			return "", fmt.Errorf("operand is not an identifier")
		}
		return id.Name, nil
	}
	selID := func(e ast.Expr) (string, error) {
		se, ok := e.(*ast.SelectorExpr)
		if !ok {
			return "", fmt.Errorf("operator is not t.IDX…")
		}
		op, ok := idToOp[se.Sel.Name]
		if !ok {
			return "", fmt.Errorf("unknown operator %s", se.Sel.Name)
		}
		return op, nil
	}
	var operand func(id string, depth int) (*Node, error)
	operand = func(id string, depth int) (*Node, error) {
		if depth > 64 {
			return nil, fmt.Errorf("cyclic definition")
		}
		if a, ok := alias[id]; ok {
			return operand(a, depth+1)
		}
		if sh, ok := shapes[id]; ok {
			l, err := operand(sh.l, depth+1)
			if err != nil {
				return nil, err
			}
			r, err := operand(sh.r, depth+1)
			if err != nil {
				return nil, err
			}
			return &Node{Op: sh.op, Lhs: l, Rhs: r}, nil
		}
		h := strings.IndexByte(id, '#')
		nm, ver := id[:h], id[h+1:]
		if nm == "zeroExpr" && ver == "0" {
			return &Node{Op: "0"}, nil
		}
		v := nm
		if strings.HasPrefix(nm, "x") && len(nm) > 1 {
			v = nm[1:]
		}
		if !isVariable(v) {
			return nil, fmt.Errorf("unknown operand %s", nm)
		}
		if ver != strconv.Itoa(cur[nm]) {
			v += "z" + ver // shadowed binding: unconstrained
		}
		return &Node{Op: v}, nil
	}
	for _, st := range fl.Body.List {
		switch st := st.(type) {
		case *ast.AssignStmt:
			if len(st.Rhs) != 1 {
				return "", fmt.Errorf("unexpected assignment")
			}
			if len(st.Lhs) == 1 {
				if id, ok := st.Lhs[0].(*ast.Ident); ok && id.Name == "_" {
					continue
				}
			}
			call, ok := st.Rhs[0].(*ast.CallExpr)
			if !ok {
				return "", fmt.Errorf("unexpected assignment")
			}
			fn := ""
			switch f := call.Fun.(type) {
			case *ast.Ident:
				fn = f.Name
			case *ast.SelectorExpr:
				fn = f.Sel.Name
			}
			switch {
			case fn == "parseBinaryOp" && len(st.Lhs) == 3 && len(call.Args) == 1:
				if pending != "" {
					return "", fmt.Errorf("parseBinaryOp not followed by an operator test")
				}
				arg := "$claim#0"
				if id, ok := call.Args[0].(*ast.Ident); ok {
					arg = ref(id.Name)
				}
				l, err := name(st.Lhs[1])
				if err != nil {
					return "", err
				}
				r, err := name(st.Lhs[2])
				if err != nil {
					return "", err
				}
				pending, pendL, pendR = arg, bind(l), bind(r)
			case fn == "argValue" && len(st.Lhs) == 1 && len(call.Args) == 3:
				l, err := name(st.Lhs[0])
				if err != nil {
					return "", err
				}
				bl, ok := call.Args[2].(*ast.BasicLit)
				if !ok {
					return "", fmt.Errorf("argValue name is not a literal")
				}
				v, _ := strconv.Unquote(bl.Value)
				if l != "x"+v {
					return "", fmt.Errorf("argValue %q bound to %s", v, l)
				}
				bind(l)
			case fn == "NewExpr" && len(st.Lhs) == 1 && len(call.Args) == 7:
				l, err := name(st.Lhs[0])
				if err != nil {
					return "", err
				}
				op, err := selID(call.Args[1])
				if err != nil {
					return "", err
				}
				if !ArithOps[op] {
					return "", fmt.Errorf("NewExpr with operator %s", op)
				}
				sub := func(e ast.Expr) (string, error) {
					c, ok := e.(*ast.CallExpr)
					if !ok {
						return "", fmt.Errorf("NewExpr operand is not X.AsNode()")
					}
					se, ok := c.Fun.(*ast.SelectorExpr)
					if !ok || se.Sel.Name != "AsNode" {
						return "", fmt.Errorf("NewExpr operand is not X.AsNode()")
					}
					nm, err := name(se.X)
					if err != nil {
						return "", err
					}
					return ref(nm), nil
				}
				ln, err := sub(call.Args[3])
				if err != nil {
					return "", err
				}
				rn, err := sub(call.Args[5])
				if err != nil {
					return "", err
				}
				shapes[bind(l)] = shape{op, ln, rn}
			default:
				return "", fmt.Errorf("unexpected call %s", fn)
			}
		case *ast.IfStmt:
			if st.Init == nil {
				// if !D.Eq(X) { return errFailed }
				if ue, ok := st.Cond.(*ast.UnaryExpr); ok && ue.Op == token.NOT {
					c, ok := ue.X.(*ast.CallExpr)
					if !ok || len(c.Args) != 1 {
						return "", fmt.Errorf("unexpected if")
					}
					se, ok := c.Fun.(*ast.SelectorExpr)
					if !ok || se.Sel.Name != "Eq" {
						return "", fmt.Errorf("unexpected if")
					}
					d, err := name(se.X)
					if err != nil {
						return "", err
					}
					x, err := name(c.Args[0])
					if err != nil {
						return "", err
					}
					if ref(d) == ref(x) {
						return "", fmt.Errorf("Eq test of %s with itself", d)
					}
					alias[ref(d)] = ref(x)
					continue
				}
				// if op != t.IDX… { return errFailed }   or   if xc == nil { return errFailed }
				be, ok := st.Cond.(*ast.BinaryExpr)
				if !ok {
					return "", fmt.Errorf("unexpected if")
				}
				if id, ok := be.X.(*ast.Ident); ok && id.Name == "op" && be.Op == token.NEQ {
					if pending == "" {
						return "", fmt.Errorf("operator test without parseBinaryOp")
					}
					op, err := selID(be.Y)
					if err != nil {
						return "", err
					}
					shapes[pending] = shape{op, pendL, pendR}
					pending = ""
					continue
				}
				if y, ok := be.Y.(*ast.Ident); ok && y.Name == "nil" && be.Op == token.EQL {
					continue
				}
				return "", fmt.Errorf("unexpected if")
			}
			as, ok := st.Init.(*ast.AssignStmt)
			if !ok || len(as.Rhs) != 1 {
				return "", fmt.Errorf("unexpected if-init")
			}
			call, ok := as.Rhs[0].(*ast.CallExpr)
			if !ok || len(call.Args) != 4 {
				return "", fmt.Errorf("unexpected if-init")
			}
			if id, ok := call.Fun.(*ast.Ident); !ok || id.Name != "proveReasonRequirement" {
				return "", fmt.Errorf("unexpected call in if-init")
			}
			op, err := selID(call.Args[1])
			if err != nil {
				return "", err
			}
			if !RelOps[op] {
				return "", fmt.Errorf("requirement with operator %s", op)
			}
			ln, err := name(call.Args[2])
			if err != nil {
				return "", err
			}
			rn, err := name(call.Args[3])
			if err != nil {
				return "", err
			}
			shapes[fmt.Sprintf("$req%d#0", len(reqs))] = shape{op, ref(ln), ref(rn)}
			reqs = append(reqs, nil)
		case *ast.ReturnStmt:
			continue
		default:
			return "", fmt.Errorf("unexpected statement")
		}
	}
	if pending != "" {
		return "", fmt.Errorf("parseBinaryOp not followed by an operator test")
	}
	if _, ok := shapes["$claim#0"]; !ok {
		return "", fmt.Errorf("claim shape never tested")
	}
	claim, err := operand("$claim#0", 0)
	if err != nil {
		return "", err
	}
	for i := range reqs {
		if reqs[i], err = operand(fmt.Sprintf("$req%d#0", i), 0); err != nil {
			return "", err
		}
	}
	x := &Axiom{Claim: claim, Reqs: reqs}
	return x.Canon(), nil
}

// ---- Lean

var leanOp = map[string]string{"!=": "≠", "<": "<", "<=": "≤", "==": "=", ">=": "≥", ">": ">", "+": "+", "-": "-"}

var leanKeywords = map[string]bool{"at": true, "do": true, "in": true, "fun": true, "if": true, "then": true,
	"else": true, "let": true, "have": true, "show": true, "from": true, "by": true, "with": true, "open": true,
	"end": true, "def": true, "match": true, "where": true, "for": true, "return": true, "mut": true, "try": true}

func LeanVar(v string) string {
	if leanKeywords[v] {
		return "«" + v + "»"
	}
	return v
}

func (n *Node) Lean() string {
	if n.IsLeaf() {
		if isVariable(n.Op) {
			return LeanVar(n.Op)
		}
		v, _ := strconv.ParseInt(n.Op, 10, 32)
		return strconv.FormatInt(v, 10)
	}
	l, r := n.Lhs.Lean(), n.Rhs.Lean()
	if !n.Lhs.IsLeaf() {
		l = "(" + l + ")"
	}
	if !n.Rhs.IsLeaf() {
		r = "(" + r + ")"
	}
	return l + " " + leanOp[n.Op] + " " + r
}

// LeanTerm renders the axiom as data for Model/Axioms.lean, variables by index.
func (x *Axiom) leanTerm(n *Node) string {
	if n.IsLeaf() {
		if isVariable(n.Op) {
			for i, v := range x.Vars {
				if v == n.Op {
					return fmt.Sprintf(".var %d", i)
				}
			}
		}
		v, _ := strconv.ParseInt(n.Op, 10, 32)
		return fmt.Sprintf(".const %d", v)
	}
	c := ".add"
	if n.Op == "-" {
		c = ".sub"
	}
	return fmt.Sprintf("%s (%s) (%s)", c, x.leanTerm(n.Lhs), x.leanTerm(n.Rhs))
}

var relCtor = map[string]string{"!=": ".ne", "<": ".lt", "<=": ".le", "==": ".eq", ">=": ".ge", ">": ".gt"}

func (x *Axiom) LeanRel(n *Node) string {
	return fmt.Sprintf("⟨%s, %s, %s⟩", relCtor[n.Op], x.leanTerm(n.Lhs), x.leanTerm(n.Rhs))
}

var slugOp = map[string]string{"!=": "ne", "<": "lt", "<=": "le", "==": "eq", ">=": "ge", ">": "gt", "+": "plus", "-": "minus"}

func (n *Node) slug() string {
	if n.IsLeaf() {
		return n.Op
	}
	return n.Lhs.slug() + "_" + slugOp[n.Op] + "_" + n.Rhs.slug()
}

func (x *Axiom) Slug() string {
	s := x.Claim.slug() + "_if"
	for _, r := range x.Reqs {
		s += "_" + r.slug()
	}
	return s
}

func LeanString(s string) string {
	var b strings.Builder
	b.WriteByte('"')
	for _, c := range []byte(s) {
		switch {
		case c == '"' || c == '\\':
			b.WriteByte('\\')
			b.WriteByte(c)
		case c < 0x20 || c >= 0x7f:
			fmt.Fprintf(&b, "\\x%02x", c)
		default:
			b.WriteByte(c)
		}
	}
	b.WriteByte('"')
	return b.String()
}

func LeanStringList(ss []string) string {
	if len(ss) == 0 {
		return "[]"
	}
	q := make([]string, len(ss))
	for i, s := range ss {
		q[i] = LeanString(s)
	}
	return "[\n  " + strings.Join(q, ",\n  ") + "]"
}
