// C01 harness (also serves the FACTS clause of C02).
//
// Search / oracle on the implementation:
//   - checker-guided generator of small Wuffs packages (gen.go) + near-miss
//     mutants of accepted programs + the corpus of known-unsound patterns;
//   - the REAL front end in-process decides accepted / rejected;
//   - accepted programs are executed on call histories (argument extremes)
//     (a) by a monitored reference interpreter over the real typed AST
//     (interp.go): index / shift / divisor / overflow / store / argument /
//     return monitors, every accepted assert / pre / inv / post, and every
//     fact the real checker holds at each reached statement boundary
//     (obtained with the documented `assert false` probe, check.Error.Facts);
//     (b) as generated C under ASan + UBSan (crun.go), whose outputs must also
//     equal the interpreter's.
//
// Correspondence with the Lean model (ops.txt / impl.txt): type bounds,
// per-node expression bounds (MBounds) under the facts in force, statement
// layer verdicts — see sexpr.go; whole function bodies with control flow
// (verdict, number of program points, the fact list at every probed point;
// the model of Props.C01.check_sound_flow) — see flowtie.go.
package main

import (
	"fmt"
	"math/big"
	"os"
	"path/filepath"
	"regexp"
	"runtime"
	"sort"
	"strings"
	"sync"
	"time"

	a "github.com/google/wuffs/lang/ast"
	t "github.com/google/wuffs/lang/token"
	"wvh/hlib"
)

type histFailure struct {
	Key, Desc string
}

type opLine struct{ op, impl string }

type ProgResult struct {
	Idx      int
	Origin   string
	Src      string
	Accepted bool
	RejClass string
	RealErr  string
	Fields   []Var
	Funcs    []*Func
	Hists    [][]Call
	Expected [][]string     // per history: interpreter's output lines (nil: not completed)
	IFail    []*histFailure // per history
	Dropped  []string       // per history: "" | "fuel" | "unsupported:…"
	Stats    map[string]int
	Ops      []opLine
	FactsN   int
	Notes    []string
}

// ---- AST -> generator-level descriptions (for the C main and the histories)

func tyFromAST(tm *t.Map, typ *a.TypeExpr) (Ty, bool) {
	ty := Ty{}
	if typ.IsEitherArrayType() {
		cv := typ.ArrayLength().ConstValue()
		if cv == nil || !cv.IsInt64() {
			return ty, false
		}
		ty.ArrLen = int(cv.Int64())
		typ = typ.Inner()
	}
	if typ.Decorator() != 0 || typ.QID()[0] != t.IDBase {
		return ty, false
	}
	ty.Base = typ.QID()[1].Str(tm)
	if _, ok := baseInfo[ty.Base]; !ok {
		return ty, false
	}
	if typ.IsRefined() {
		if x := typ.Min(); x != nil {
			ty.Lo = x.ConstValue()
		}
		if x := typ.Max(); x != nil {
			ty.Hi = x.ConstValue()
		}
	}
	return ty, true
}

func describe(ck *Checked) (fields []Var, funcs []*Func, ok bool) {
	ok = true
	for _, n := range ck.file.TopLevelDecls() {
		switch n.Kind() {
		case a.KStruct:
			for _, f := range n.AsStruct().Fields() {
				ty, k := tyFromAST(ck.tm, f.AsField().XType())
				ok = ok && k
				fields = append(fields, Var{f.AsField().Name().Str(ck.tm), ty})
			}
		case a.KFunc:
			fn := n.AsFunc()
			f := &Func{Name: fn.FuncName().Str(ck.tm), Pub: fn.Public()}
			if fn.Effect().Impure() {
				f.Effect = "!"
			}
			for _, p := range fn.In().Fields() {
				ty, k := tyFromAST(ck.tm, p.AsField().XType())
				ok = ok && k
				f.Params = append(f.Params, Var{p.AsField().Name().Str(ck.tm), ty})
			}
			if fn.Out() != nil {
				ty, k := tyFromAST(ck.tm, fn.Out())
				ok = ok && k
				f.Ret = &ty
			}
			funcs = append(funcs, f)
		}
	}
	return fields, funcs, ok
}

// ---- probe points from the text (one statement per line, braces at line ends)

type probePoint struct {
	InsertBefore int // 1-based line
	End          bool
	Key          int // line of the statement / of the block's first statement
}

func scanPoints(src string) (pts []probePoint) {
	lines := strings.Split(src, "\n")
	type blk struct{ first int }
	var stack []*blk
	for i, raw := range lines {
		ln := i + 1
		s := strings.TrimSpace(raw)
		if len(stack) == 0 {
			if (strings.HasPrefix(s, "pub func") || strings.HasPrefix(s, "pri func")) && strings.HasSuffix(s, "{") {
				stack = append(stack, &blk{})
			}
			continue
		}
		switch {
		case s == "" || strings.HasPrefix(s, "//") || strings.HasPrefix(s, "var "):
			continue
		case s == "}" || strings.HasPrefix(s, "} else"):
			top := stack[len(stack)-1]
			if top.first != 0 {
				pts = append(pts, probePoint{ln, true, top.first})
			}
			stack = stack[:len(stack)-1]
			if strings.HasPrefix(s, "} else") {
				stack = append(stack, &blk{})
			}
		default:
			top := stack[len(stack)-1]
			pts = append(pts, probePoint{ln, false, ln})
			if top.first == 0 {
				top.first = ln
			}
			if strings.HasSuffix(s, "{") {
				stack = append(stack, &blk{})
			}
		}
	}
	return pts
}

func withProbe(src string, before int) string {
	lines := strings.Split(src, "\n")
	out := append([]string(nil), lines[:before-1]...)
	out = append(out, "assert false")
	out = append(out, lines[before-1:]...)
	return strings.Join(out, "\n")
}

// ---- running one program

const fuelPerHistory = 4000

func runProgram(fr *Front, g *Gen, idx int, origin, src string, corpusHists []string, nHist int) *ProgResult {
	res := &ProgResult{Idx: idx, Origin: origin, Src: src, Stats: map[string]int{}}
	ck, err := fr.Fast(src)
	_, rerr := Real(src)
	if (err == nil) != (rerr == nil) {
		res.Notes = append(res.Notes, fmt.Sprintf("fast path and check.Check disagree: fast=%v real=%v", err, rerr))
		res.Stats["fastpath-disagrees"]++
	}
	if rerr != nil {
		res.RejClass = errClass(rerr)
		res.RealErr = firstLine(rerr.Error())
		return res
	}
	if err != nil {
		res.RejClass = "fastpath-only-reject"
		return res
	}
	res.Accepted = true
	var ok bool
	res.Fields, res.Funcs, ok = describe(ck)
	if !ok {
		res.Notes = append(res.Notes, "program uses a type outside the fragment")
		res.Stats["outside-fragment"]++
		return res
	}

	// the facts the real checker holds at every statement boundary
	in := NewInterp(ck)
	in.factsBefore, in.factsEnd = map[int][]*a.Expr{}, map[int][]*a.Expr{}
	factsAt := map[int][]*a.Expr{} // by the line the probe was inserted before
	for _, pt := range scanPoints(src) {
		facts, ok := fr.ProbeFacts(withProbe(src, pt.InsertBefore))
		if !ok {
			res.Stats["probe-unavailable"]++
			continue
		}
		res.Stats["probe-points"]++
		res.FactsN += len(facts)
		if len(facts) == 0 {
			facts = []*a.Expr{}
		}
		if pt.End {
			in.factsEnd[pt.Key] = facts
		} else {
			in.factsBefore[pt.Key] = facts
		}
		factsAt[pt.InsertBefore] = facts
	}
	res.Ops = corrOps(ck, in, res)
	if len(listingText) > 0 {
		// whole function bodies with control flow against Model/Flow.lean (flowtie.go)
		res.Ops = append(res.Ops, flowOps(ck, src, factsAt, res.Stats)...)
	}

	// histories
	byName := map[string]*Func{}
	for _, f := range res.Funcs {
		byName[f.Name] = f
	}
	for _, hs := range corpusHists {
		if h, ok := parseHistory(hs, byName); ok {
			res.Hists = append(res.Hists, h)
		} else {
			res.Notes = append(res.Notes, "bad corpus history: "+hs)
		}
	}
	p := &Prog{Fields: res.Fields, Funcs: res.Funcs}
	for len(res.Hists) < nHist {
		h := g.History(p)
		if h == nil {
			break
		}
		res.Hists = append(res.Hists, h)
	}

	for _, h := range res.Hists {
		lines, fail, dropped := interpretHistory(in, h)
		res.Expected = append(res.Expected, lines)
		res.IFail = append(res.IFail, fail)
		res.Dropped = append(res.Dropped, dropped)
	}
	res.Stats["facts-evaluated"] += in.nFactsEval
	res.Stats["facts-unevaluable"] += in.nFactsUneval
	res.Stats["asserts-evaluated"] += in.nAsserts
	res.Stats["use-sites-checked"] += in.nUses
	for k, v := range in.opsSeen {
		res.Stats["exec-op:"+k] += v
	}
	return res
}

func interpretHistory(in *Interp, h []Call) (lines []string, fail *histFailure, dropped string) {
	in.Reset()
	in.fuel = fuelPerHistory
	defer func() {
		if e := recover(); e != nil {
			switch x := e.(type) {
			case *abort:
				fail = &histFailure{x.key, x.desc}
				lines = nil
			case *fuelOut:
				dropped, lines = "fuel", nil
			case *unsupported:
				dropped, lines = "unsupported:"+x.what, nil
			case *uneval:
				dropped, lines = "unsupported:uneval", nil
			default:
				panic(e)
			}
		}
	}()
	for _, c := range h {
		r := in.CallPublic(c.Fn.Name, c.Args)
		lines = append(lines, "r "+r.Ret, "s "+r.State)
	}
	return lines, nil, ""
}

var reCall = regexp.MustCompile(`^([a-z0-9_]+)\(([-0-9, ]*)\)$`)

func parseHistory(s string, byName map[string]*Func) ([]Call, bool) {
	var h []Call
	for _, tok := range strings.Fields(s) {
		m := reCall.FindStringSubmatch(tok)
		if m == nil {
			return nil, false
		}
		f := byName[m[1]]
		if f == nil || !f.Pub {
			return nil, false
		}
		c := Call{Fn: f}
		if strings.TrimSpace(m[2]) != "" {
			for _, as := range strings.Split(m[2], ",") {
				v, ok := new(big.Int).SetString(strings.TrimSpace(as), 10)
				if !ok {
					return nil, false
				}
				c.Args = append(c.Args, v)
			}
		}
		if len(c.Args) != len(f.Params) {
			return nil, false
		}
		h = append(h, c)
	}
	return h, len(h) > 0
}

var reSigned = regexp.MustCompile(`base\.i(8|16|32|64)\b`)

func usesSignedTypes(src string) bool { return reSigned.MatchString(src) }

func replayText(res *ProgResult, hi int) string {
	var b strings.Builder
	fmt.Fprintf(&b, "origin: %s (program #%d)\n", res.Origin, res.Idx)
	if hi >= 0 && hi < len(res.Hists) {
		fmt.Fprintf(&b, "// history: %s\n", historyString(res.Hists[hi]))
	}
	b.WriteString(res.Src)
	return b.String()
}

func main() {
	r := hlib.Start("C01")
	if r.IsGen() {
		r.WriteGen("C01_Tables.lean", genTables())
		return
	}
	nProg, nMut, nHist, batchSize := 70, 24, 6, 8
	if r.Thorough {
		nProg, nMut, nHist, batchSize = 900, 300, 10, 12
	}
	if v := os.Getenv("C01_NPROG"); v != "" { // debugging aid only
		fmt.Sscan(v, &nProg)
		nMut = nProg / 3
	}
	debug := os.Getenv("C01_DEBUG") != ""
	if err := loadListing(r.Repo); err != nil {
		r.Note("axioms.md could not be read (" + err.Error() + "): the `case func` correspondence ops are skipped")
	}

	// wuffs-c from the working tree + the base module it generates; the std
	// packages must still be accepted by the working tree's checker (in-process
	// for the 24 packages without `use`; thorough: all of std via `wuffs gen`).
	tStart := time.Now()
	var tStd time.Duration
	var tools *cTools
	var toolsErr error
	var stdRejected []string
	var sbWG sync.WaitGroup
	sbWG.Add(1)
	go func() {
		defer sbWG.Done()
		tools, toolsErr = prepareC(r.Repo)
		stdRejected = checkStd(r.Repo)
		if r.Thorough {
			if sb, err := hlib.GenStd(r.Repo); err != nil {
				stdRejected = append(stdRejected, "wuffs gen (all of std): "+firstLine(err.Error()))
			} else {
				sb.Cleanup()
			}
		}
		tStd = time.Since(tStart)
	}()

	// corpus first
	type job struct {
		idx    int
		origin string
		src    string
		hists  []string
		seed   uint64
		mutate bool
	}
	var jobs []job
	corpusDir := filepath.Join("corpus", "C01")
	if ents, err := os.ReadDir(corpusDir); err == nil {
		var names []string
		for _, e := range ents {
			if strings.HasSuffix(e.Name(), ".wuffs") {
				names = append(names, e.Name())
			}
		}
		sort.Strings(names)
		for _, nm := range names {
			b, _ := os.ReadFile(filepath.Join(corpusDir, nm))
			var hs, body []string
			for _, ln := range strings.Split(string(b), "\n") {
				if strings.HasPrefix(ln, "// history:") {
					hs = append(hs, strings.TrimSpace(strings.TrimPrefix(ln, "// history:")))
				} else if strings.HasPrefix(ln, "// expect:") {
					// informational
				} else {
					body = append(body, ln)
				}
			}
			jobs = append(jobs, job{idx: len(jobs), origin: "corpus:" + nm, src: strings.Join(body, "\n"), hists: hs, seed: r.Rand.Uint64()})
		}
	}
	nCorpus := len(jobs)
	// constant-operand probes: every operator x operand position x constant value x type
	type cpSpec struct {
		base string
		k    *big.Int
	}
	var cps []cpSpec
	for _, base := range []string{"u8", "u16", "u32", "u64"} {
		_, hi := baseBounds(base)
		vals := []int64{1, 255, 0xFFFFFFFF}
		if r.Thorough {
			vals = []int64{0, 1, 2, 255, 256, 65535, 65536, 0x7FFFFFFF, 0x80000000, 0xFFFFFFFF}
		}
		for _, v := range vals {
			k := big.NewInt(v)
			if k.Cmp(hi) <= 0 {
				cps = append(cps, cpSpec{base, k})
			}
		}
		if base != "u64" && base != "u8" {
			cps = append(cps, cpSpec{base, new(big.Int).Set(hi)})
		}
		if base == "u64" {
			cps = append(cps, cpSpec{base, new(big.Int).Set(hi)})
		}
	}
	constProbe := map[int]cpSpec{}
	for _, c := range cps {
		constProbe[len(jobs)] = c
		jobs = append(jobs, job{idx: len(jobs), origin: "constprobe", seed: r.Rand.Uint64()})
	}
	for i := 0; i < nProg; i++ {
		jobs = append(jobs, job{idx: len(jobs), origin: "gen", seed: r.Rand.Uint64()})
	}
	for i := 0; i < nMut; i++ {
		jobs = append(jobs, job{idx: len(jobs), origin: "mutant", seed: r.Rand.Uint64(), mutate: true})
	}

	results := make([]*ProgResult, len(jobs))
	genStats := make([]map[string]int, len(jobs))
	genRejOps := make([][]opLine, len(jobs))
	genRejFlowOps := make([][]opLine, len(jobs))
	nw := runtime.NumCPU()
	if nw > 16 {
		nw = 16
	}
	var wg sync.WaitGroup
	ch := make(chan job)
	for w := 0; w < nw; w++ {
		wg.Add(1)
		go func() {
			defer wg.Done()
			fr := NewFront()
			for j := range ch {
				if fr.uses > 4000 {
					fr = NewFront()
				}
				g := &Gen{rng: hlib.NewRand(j.seed), fr: fr, stats: map[string]int{}}
				src, origin := j.src, j.origin
				if cp, ok := constProbe[j.idx]; ok {
					p, hs := g.ConstProbe(cp.base, cp.k)
					src, _ = p.Render(-1)
					j.hists = hs
					origin = fmt.Sprintf("constprobe:%s:%s", cp.base, cp.k.String())
				}
				if src == "" {
					p := g.NewProgram()
					if j.mutate {
						if q, kind := g.Mutate(p); q != nil {
							p, origin = q, "mutant:"+kind
						}
					}
					src, _ = p.Render(-1)
				}
				if debug {
					fmt.Fprintf(os.Stderr, "program #%d generated (%d bytes)\n", j.idx, len(src))
				}
				results[j.idx] = runProgram(fr, g, j.idx, origin, src, j.hists, nHist)
				if debug {
					fmt.Fprintf(os.Stderr, "program #%d done\n", j.idx)
				}
				genStats[j.idx] = g.stats
				genRejOps[j.idx] = g.rejOps
				genRejFlowOps[j.idx] = g.rejFlowOps
			}
		}()
	}
	for _, j := range jobs {
		ch <- j
	}
	close(ch)
	wg.Wait()

	tGen := time.Since(tStart)
	// ---- C phase
	sbWG.Wait()
	type cOutcome struct {
		res  []CHistResult
		note string
	}
	cOut := make([]*cOutcome, len(jobs))
	for _, sr := range stdRejected {
		r.Fail("std-rejected", "a std package is no longer accepted by the working tree's checker: "+sr, sr)
	}
	r.Extra("std_packages_rejected", len(stdRejected))
	if toolsErr != nil {
		r.Fail("c-tools-not-built", "building wuffs-c / the base module from the working tree failed: "+firstLine(toolsErr.Error()), toolsErr.Error())
	} else {
		defer tools.cleanup()
		dir, cleanup := hlib.NewScratchDir("c01")
		defer cleanup()
		var cands []*ProgResult
		for _, res := range results {
			if res != nil && res.Accepted && len(res.Hists) > 0 && len(res.Fields) > 0 {
				cands = append(cands, res)
			}
		}
		if bs := (len(cands) + nw - 1) / nw; bs < batchSize {
			batchSize = bs // keep every core busy
		}
		if batchSize < 3 {
			batchSize = 3
		}
		var batches [][]*ProgResult
		for i := 0; i < len(cands); i += batchSize {
			j := i + batchSize
			if j > len(cands) {
				j = len(cands)
			}
			batches = append(batches, cands[i:j])
		}
		var mu sync.Mutex
		var cwg sync.WaitGroup
		sem := make(chan struct{}, nw)
		for bi, batch := range batches {
			cwg.Add(1)
			sem <- struct{}{}
			go func(bi int, batch []*ProgResult) {
				defer cwg.Done()
				defer func() { <-sem }()
				var cps []*CProg
				for _, res := range batch {
					skip := make([]bool, len(res.Hists))
					solo := make([]bool, len(res.Hists))
					for hi := range res.Hists {
						skip[hi] = res.Dropped[hi] != ""
						solo[hi] = res.IFail[hi] != nil
					}
					cps = append(cps, &CProg{Pkg: fmt.Sprintf("p%d", res.Idx), Src: res.Src, Fields: res.Fields, Hists: res.Hists, Skip: skip, Solo: solo})
				}
				exe, idx, bad, err := buildBatch(tools.baseC, tools.baseO, tools.wuffsC, dir, fmt.Sprintf("b%d", bi), cps)
				for i, res := range batch {
					o := &cOutcome{}
					if why, isBad := bad[cps[i].Pkg]; isBad {
						o.note = why
					} else if err != nil {
						o.note = "batch: " + err.Error()
					} else {
						o.res = runProg(exe, idx[cps[i].Pkg], len(res.Hists), cps[i].Skip, cps[i].Solo)
					}
					mu.Lock()
					cOut[res.Idx] = o
					mu.Unlock()
				}
			}(bi, batch)
		}
		cwg.Wait()
	}

	// ---- verdicts, in program order (deterministic)
	perKey := map[string]int{}
	fail := func(key, desc, replay string) {
		perKey[key]++
		if perKey[key] <= 3 {
			r.Fail(key, desc, replay)
		} else {
			r.Count("oracle-failure-suppressed-duplicates")
		}
	}
	for _, res := range results {
		if res == nil {
			continue
		}
		kind := strings.SplitN(res.Origin, ":", 2)[0]
		if gs := genStats[res.Idx]; gs != nil {
			for k, v := range gs {
				r.CountN("gen:"+k, v)
			}
		}
		for _, n := range res.Notes {
			r.Note(fmt.Sprintf("program #%d (%s): %s", res.Idx, res.Origin, n))
		}
		for _, o := range genRejOps[res.Idx] {
			r.Op(o.op, o.impl)
			r.Count("corr:reject-ops")
		}
		for _, o := range genRejFlowOps[res.Idx] {
			r.Op(o.op, o.impl)
			r.Count("flow:reject-ops")
		}
		if !res.Accepted {
			r.Count(kind + ":rejected:" + res.RejClass)
			if res.Stats["fastpath-disagrees"] > 0 {
				r.Count("fastpath-disagrees")
			}
			continue
		}
		r.Count(kind + ":accepted")
		for k, v := range res.Stats {
			r.CountN(k, v)
		}
		for _, o := range res.Ops {
			r.Op(o.op, o.impl)
		}
		completed := 0
		for hi := range res.Hists {
			f := res.IFail[hi]
			var c *CHistResult
			if co := cOut[res.Idx]; co != nil && co.res != nil {
				c = &co.res[hi]
			}
			switch {
			case f != nil:
				r.Count("history:oracle-failure")
				desc := f.Desc
				if c != nil && c.Trap != "" {
					desc += " [generated C under sanitizers: " + c.Trap + ": " + c.Msg + "]"
					r.Count("history:failure-confirmed-by-sanitizer")
				}
				fail(f.Key, desc, replayText(res, hi))
			case res.Dropped[hi] != "":
				r.Count("history:dropped:" + strings.SplitN(res.Dropped[hi], ":", 2)[0])
				if strings.HasPrefix(res.Dropped[hi], "unsupported") {
					r.Note(fmt.Sprintf("program #%d: %s", res.Idx, res.Dropped[hi]))
				}
			default:
				completed++
				r.Count("history:completed")
				if c == nil {
					r.Count("history:no-c-run")
					continue
				}
				if c.Trap != "" {
					fail("sanitizer-only:"+c.Trap, "generated C trapped ("+c.Msg+") on a history the reference interpreter finished without any monitor firing", replayText(res, hi))
					continue
				}
				if strings.Join(c.Lines, "\n") != strings.Join(res.Expected[hi], "\n") {
					key := "sem-mismatch:c-vs-interpreter"
					if usesSignedTypes(res.Src) {
						// cgen writes non-negative constants with a `u` suffix, also next to
						// signed operands: a known cgen defect (C04's subject), kept apart.
						key = "sem-mismatch:program-with-signed-types"
					}
					fail(key, fmt.Sprintf("generated C and the reference interpreter disagree: C=%q interpreter=%q", strings.Join(c.Lines, " | "), strings.Join(res.Expected[hi], " | ")), replayText(res, hi))
					continue
				}
				r.Count("history:c-agrees")
			}
		}
		if co := cOut[res.Idx]; co != nil && co.note != "" {
			r.Count("c:" + strings.SplitN(co.note, ":", 2)[0] + "-problem")
			r.Note(fmt.Sprintf("program #%d (%s): %s", res.Idx, res.Origin, co.note))
		}
		if completed > 0 && res.Stats["facts-evaluated"] > 0 {
			r.Nontrivial(res.Src)
		}
		if len(r.Rand.Bytes(0)) == 0 && res.Idx == nCorpus {
			r.Sample(res.Src)
		}
	}
	nNoRec := 300
	if r.Thorough {
		nNoRec = 5000
	}
	runNoRec(r, NewFront(), nNoRec)
	if toolsErr == nil {
		runIOProbes(r, NewFront(), tools)
		runMustReject(r, tools)
	} else {
		runIOProbes(r, NewFront(), nil)
		runMustReject(r, nil)
	}

	nPanic := 0
	PanicSources.Range(func(k, v interface{}) bool {
		nPanic++
		if nPanic == 1 {
			r.Note("the front end PANICKED (" + v.(string) + ") on a candidate program; that is property C11's subject, counted here only. First source:\n" + k.(string))
		}
		return true
	})
	r.Extra("front_end_panics", nPanic)
	r.Extra("seconds_genstd", tStd.Seconds())
	r.Extra("seconds_generate_and_interpret", tGen.Seconds())
	r.Extra("seconds_total", time.Since(tStart).Seconds())
	r.Extra("programs", len(jobs))
	r.Extra("corpus_programs", nCorpus)
	r.Extra("histories_per_program", nHist)
	r.Finish("programs: corpus of known-unsound patterns, then checker-guided random packages (struct with refined scalar fields + arrays, 1-4 methods, assignments/op-assignments, if, while with inv/post, asserts with via reasons, calls), then near-miss mutants; each accepted program is run on call histories with argument extremes by the monitored reference interpreter (facts of the real checker evaluated at every reached statement boundary) and as generated C under ASan+UBSan. correspondence: besides the expression / statement ops, every function body inside the Lean Flow fragment is compared as a whole with the model of check_sound_flow (case func: verdict + number of points; pt: fact list at every probed point; rejected candidates must be rejected). distinct_nontrivial = distinct accepted sources with >= 1 completed history and >= 1 evaluated fact")
}
