package main

// Reference interpreter for the scalar/array fragment, run over the REAL typed
// AST that check.Check produced (so every node carries the checker's MType and
// MBounds). Ideal-integer semantics with MONITORS: this is the property's own
// oracle ("accepted programs never go out of bounds / overflow …"), evaluated
// independently of the Lean model. It also evaluates, at every statement
// boundary it reaches, the facts the real checker holds there (C02 facts
// clause) and every assert / pre / inv / post it passes.

import (
	"fmt"
	"math/big"
	"strings"

	a "github.com/google/wuffs/lang/ast"
	t "github.com/google/wuffs/lang/token"
)

type Value struct {
	I   *big.Int
	Arr []*Value // arrays (by reference)
}

func zeroValue(typ *a.TypeExpr) *Value {
	if typ.IsEitherArrayType() {
		n := int(typ.ArrayLength().ConstValue().Int64())
		v := &Value{Arr: make([]*Value, n)}
		for i := range v.Arr {
			v.Arr[i] = zeroValue(typ.Inner())
		}
		return v
	}
	return &Value{I: big.NewInt(0)}
}

type abort struct {
	key, desc string
}

type fuelOut struct{}
type unsupported struct{ what string }
type uneval struct{}

type ctlKind int

const (
	ctlNone ctlKind = iota
	ctlBreak
	ctlContinue
	ctlReturn
)

type ctl struct {
	k      ctlKind
	target *a.While
	ret    *Value
}

type frame struct {
	fn     *a.Func
	args   map[t.ID]*Value
	locals map[t.ID]*Value
}

type Interp struct {
	ck     *Checked
	tm     *t.Map
	strukt *a.Struct
	funcs  map[t.ID]*a.Func
	fields map[t.ID]*Value
	order  []t.ID // field order

	disabled bool
	fuel     int
	pure     int // >0: evaluating facts/asserts; monitors off
	depth    int

	factsBefore map[int][]*a.Expr
	factsEnd    map[int][]*a.Expr

	lastChange string // class of the last state-changing statement executed
	lastText   string

	// statistics
	nFactsEval, nFactsUneval, nAsserts, nUses int
	opsSeen                                   map[string]int
}

func NewInterp(ck *Checked) *Interp {
	in := &Interp{ck: ck, tm: ck.tm, funcs: map[t.ID]*a.Func{}, fields: map[t.ID]*Value{}, opsSeen: map[string]int{}}
	for _, n := range ck.file.TopLevelDecls() {
		switch n.Kind() {
		case a.KStruct:
			in.strukt = n.AsStruct()
		case a.KFunc:
			in.funcs[n.AsFunc().FuncName()] = n.AsFunc()
		}
	}
	in.Reset()
	return in
}

// Reset models wuffs_pkg__foo__initialize: all fields zero.
func (in *Interp) Reset() {
	in.fields = map[t.ID]*Value{}
	in.order = in.order[:0]
	for _, f := range in.strukt.Fields() {
		f := f.AsField()
		in.fields[f.Name()] = zeroValue(f.XType())
		in.order = append(in.order, f.Name())
	}
	in.disabled = false
	in.lastChange = "init"
	in.lastText = ""
}

func (in *Interp) fail(key, format string, args ...interface{}) {
	panic(&abort{key, fmt.Sprintf(format, args...)})
}

// numBase returns the built-in base type bounds of a numeric/bool type.
func numBaseBounds(typ *a.TypeExpr) (lo, hi *big.Int, bits int, ok bool) {
	if typ == nil || typ.Decorator() != 0 {
		return nil, nil, 0, false
	}
	qid := typ.QID()
	if qid[0] != t.IDBase {
		return nil, nil, 0, false
	}
	name := ""
	switch qid[1] {
	case t.IDI8:
		name = "i8"
	case t.IDI16:
		name = "i16"
	case t.IDI32:
		name = "i32"
	case t.IDI64:
		name = "i64"
	case t.IDU8:
		name = "u8"
	case t.IDU16:
		name = "u16"
	case t.IDU32:
		name = "u32"
	case t.IDU64:
		name = "u64"
	case t.IDBool:
		name = "bool"
	default:
		return nil, nil, 0, false
	}
	lo, hi = baseBounds(name)
	return lo, hi, baseInfo[name].Bits, true
}

// typeBounds: base bounds narrowed by the refinement's constant values.
// Computed here from the type's name and literals, not from the checker's
// MBounds.
func typeBounds(typ *a.TypeExpr) (lo, hi *big.Int, ok bool) {
	lo, hi, _, ok = numBaseBounds(typ)
	if !ok {
		return nil, nil, false
	}
	if typ.IsRefined() {
		if x := typ.Min(); x != nil && x.ConstValue() != nil {
			lo = x.ConstValue()
		}
		if x := typ.Max(); x != nil && x.ConstValue() != nil {
			hi = x.ConstValue()
		}
	}
	return lo, hi, true
}

func inRange(v, lo, hi *big.Int) bool { return v.Cmp(lo) >= 0 && v.Cmp(hi) <= 0 }

// use checks a value at a *use site* (index, shift amount, divisor, stored /
// passed / returned value) against the range the compiler derived for it.
func (in *Interp) use(n *a.Expr, v *big.Int, what string) {
	if in.pure > 0 {
		return
	}
	in.nUses++
	b := n.MBounds()
	if b[0] == nil || b[1] == nil {
		return
	}
	if !inRange(v, b[0], b[1]) {
		in.fail("use-outside-derived-range:"+what, "%s value %v of %q lies outside the compiler-derived range [%v ..= %v]",
			what, v, n.Str(in.tm), b[0], b[1])
	}
}

func b2i(b bool) *big.Int {
	if b {
		return big.NewInt(1)
	}
	return big.NewInt(0)
}

func (in *Interp) lookupRef(fr *frame, n *a.Expr) *Value {
	switch n.Operator() {
	case 0:
		if v, ok := fr.locals[n.Ident()]; ok {
			return v
		}
		panic(&unsupported{"ident " + n.Str(in.tm)})
	case t.IDDot:
		if id := n.IsArgsDotFoo(); id != 0 {
			if v, ok := fr.args[id]; ok {
				return v
			}
		}
		if id := n.IsThisDotFoo(); id != 0 {
			if v, ok := in.fields[id]; ok {
				return v
			}
		}
		panic(&unsupported{"selector " + n.Str(in.tm)})
	case t.IDOpenBracket:
		arr := in.lookupRef(fr, n.LHS().AsExpr())
		if arr.Arr == nil {
			panic(&unsupported{"index of non-array " + n.Str(in.tm)})
		}
		idxE := n.RHS().AsExpr()
		idx := in.eval(fr, idxE)
		in.use(idxE, idx, "index")
		if idx.Sign() < 0 || idx.Cmp(big.NewInt(int64(len(arr.Arr)))) >= 0 {
			if in.pure > 0 {
				panic(&uneval{})
			}
			in.fail("oob-index", "index %v out of range for %q (length %d)", idx, n.Str(in.tm), len(arr.Arr))
		}
		return arr.Arr[idx.Int64()]
	}
	panic(&unsupported{"ref " + n.Str(in.tm)})
}

func opName(tm *t.Map, op t.ID) string {
	return op.AmbiguousForm().Str(tm)
}

func (in *Interp) eval(fr *frame, n *a.Expr) *big.Int {
	if cv := n.ConstValue(); cv != nil {
		return cv
	}
	op := n.Operator()
	switch {
	case op == 0 || op == t.IDDot || op == t.IDOpenBracket:
		v := in.lookupRef(fr, n)
		if v.I == nil {
			panic(&unsupported{"non-scalar " + n.Str(in.tm)})
		}
		return v.I
	case op == t.IDOpenParen:
		v := in.call(fr, n)
		if v == nil || v.I == nil {
			panic(&unsupported{"call without scalar value " + n.Str(in.tm)})
		}
		return v.I
	case op.IsXUnaryOp():
		r := in.eval(fr, n.RHS().AsExpr())
		switch op {
		case t.IDXUnaryPlus:
			return r
		case t.IDXUnaryMinus:
			return in.arith(n, "-", new(big.Int).Neg(r))
		case t.IDXUnaryNot:
			return b2i(r.Sign() == 0)
		}
	case op == t.IDXBinaryAs:
		v := in.eval(fr, n.LHS().AsExpr())
		if in.pure == 0 {
			if lo, hi, ok := typeBounds(n.RHS().AsTypeExpr()); ok && !inRange(v, lo, hi) {
				in.fail("as-outside-type", "conversion %q of value %v outside [%v ..= %v]", n.Str(in.tm), v, lo, hi)
			}
		}
		return v
	case op.IsXBinaryOp():
		// and / or short-circuit, as the generated C does.
		if op == t.IDXBinaryAnd || op == t.IDXBinaryOr {
			l := in.eval(fr, n.LHS().AsExpr())
			if (op == t.IDXBinaryAnd) == (l.Sign() == 0) {
				return l
			}
			return in.eval(fr, n.RHS().AsExpr())
		}
		l := in.eval(fr, n.LHS().AsExpr())
		r := in.eval(fr, n.RHS().AsExpr())
		return in.binop(n, op, n.LHS().AsExpr(), l, n.RHS().AsExpr(), r)
	case op.IsXAssociativeOp():
		bop := op.AmbiguousForm().BinaryForm()
		args := n.Args()
		acc := in.eval(fr, args[0].AsExpr())
		for _, o := range args[1:] {
			if bop == t.IDXBinaryAnd || bop == t.IDXBinaryOr {
				if (bop == t.IDXBinaryAnd) == (acc.Sign() == 0) {
					return acc
				}
				acc = in.eval(fr, o.AsExpr())
				continue
			}
			r := in.eval(fr, o.AsExpr())
			acc = in.binopRaw(n, bop, nil, acc, o.AsExpr(), r, false)
		}
		if bop != t.IDXBinaryAnd && bop != t.IDXBinaryOr {
			return in.arith(n, opName(in.tm, op), acc)
		}
		return acc
	}
	panic(&unsupported{"expr " + n.Str(in.tm)})
}

// arith checks the result of a non-modular operation against the operation
// type's natural range (the monitor for "overflows or underflows").
func (in *Interp) arith(n *a.Expr, opn string, v *big.Int) *big.Int {
	if in.pure > 0 {
		return v
	}
	if typ := n.MType(); typ != nil && !typ.IsIdeal() {
		if lo, hi, _, ok := numBaseBounds(typ); ok && !inRange(v, lo, hi) {
			in.fail("overflow:"+opn, "result %v of %q does not fit its type %s", v, n.Str(in.tm), typ.Str(in.tm))
		}
	}
	return v
}

func (in *Interp) binop(n *a.Expr, op t.ID, lhs *a.Expr, l *big.Int, rhs *a.Expr, r *big.Int) *big.Int {
	return in.binopRaw(n, op, lhs, l, rhs, r, true)
}

func (in *Interp) binopRaw(n *a.Expr, op t.ID, lhs *a.Expr, l *big.Int, rhs *a.Expr, r *big.Int, checkResult bool) *big.Int {
	opn := opName(in.tm, op)
	if in.pure == 0 {
		in.opsSeen[opn]++
	}
	z := new(big.Int)
	res := func(v *big.Int) *big.Int {
		if checkResult {
			return in.arith(n, opn, v)
		}
		return v
	}
	// the type that modular / saturating / shift ops work in
	opType := func() (lo, hi *big.Int, bits int) {
		typ := n.MType()
		if lhs != nil && !lhs.MType().IsIdeal() {
			typ = lhs.MType()
		} else if rhs != nil && op != t.IDXBinaryShiftL && op != t.IDXBinaryShiftR && op != t.IDXBinaryTildeModShiftL && !rhs.MType().IsIdeal() {
			typ = rhs.MType()
		}
		lo, hi, bits, ok := numBaseBounds(typ)
		if !ok {
			panic(&unsupported{"op type of " + n.Str(in.tm)})
		}
		return lo, hi, bits
	}
	switch op {
	case t.IDXBinaryPlus:
		return res(z.Add(l, r))
	case t.IDXBinaryMinus:
		return res(z.Sub(l, r))
	case t.IDXBinaryStar:
		return res(z.Mul(l, r))
	case t.IDXBinarySlash, t.IDXBinaryPercent:
		if rhs != nil {
			in.use(rhs, r, "divisor")
		}
		if r.Sign() == 0 {
			if in.pure > 0 {
				panic(&uneval{})
			}
			in.fail("div-by-zero", "division by zero in %q", n.Str(in.tm))
		}
		if in.pure == 0 && (l.Sign() < 0 || r.Sign() < 0) {
			in.fail("div-negative", "division with a negative operand in %q (%v, %v)", n.Str(in.tm), l, r)
		}
		if op == t.IDXBinarySlash {
			return res(z.Quo(l, r))
		}
		return res(z.Rem(l, r))
	case t.IDXBinaryShiftL, t.IDXBinaryTildeModShiftL, t.IDXBinaryShiftR:
		_, hi, bits := opType()
		if rhs != nil {
			in.use(rhs, r, "shift-amount")
		}
		if r.Sign() < 0 || r.Cmp(big.NewInt(int64(bits))) >= 0 {
			if in.pure > 0 {
				if r.Sign() < 0 || r.Cmp(big.NewInt(4096)) > 0 {
					panic(&uneval{})
				}
			} else {
				in.fail("shift-amount", "shift amount %v out of range for a %d-bit operand in %q", r, bits, n.Str(in.tm))
			}
		}
		k := uint(r.Int64())
		switch op {
		case t.IDXBinaryShiftL:
			return res(z.Lsh(l, k))
		case t.IDXBinaryTildeModShiftL:
			z.Lsh(l, k)
			return z.And(z, hi)
		default:
			return res(z.Rsh(l, k))
		}
	case t.IDXBinaryAmp, t.IDXBinaryPipe, t.IDXBinaryHat:
		if l.Sign() < 0 || r.Sign() < 0 {
			if in.pure > 0 {
				panic(&uneval{})
			}
			in.fail("bitwise-negative", "bitwise op on a negative operand in %q (%v, %v)", n.Str(in.tm), l, r)
		}
		switch op {
		case t.IDXBinaryAmp:
			return res(z.And(l, r))
		case t.IDXBinaryPipe:
			return res(z.Or(l, r))
		default:
			return res(z.Xor(l, r))
		}
	case t.IDXBinaryTildeModPlus, t.IDXBinaryTildeModMinus, t.IDXBinaryTildeModStar:
		_, hi, _ := opType()
		switch op {
		case t.IDXBinaryTildeModPlus:
			z.Add(l, r)
		case t.IDXBinaryTildeModMinus:
			z.Sub(l, r)
		default:
			z.Mul(l, r)
		}
		m := new(big.Int).Add(hi, big.NewInt(1))
		z.Mod(z, m) // Euclidean: result in [0, m)
		return z
	case t.IDXBinaryTildeSatPlus, t.IDXBinaryTildeSatMinus:
		lo, hi, _ := opType()
		if op == t.IDXBinaryTildeSatPlus {
			z.Add(l, r)
		} else {
			z.Sub(l, r)
		}
		if z.Cmp(lo) < 0 {
			return lo
		}
		if z.Cmp(hi) > 0 {
			return hi
		}
		return z
	case t.IDXBinaryNotEq:
		return b2i(l.Cmp(r) != 0)
	case t.IDXBinaryLessThan:
		return b2i(l.Cmp(r) < 0)
	case t.IDXBinaryLessEq:
		return b2i(l.Cmp(r) <= 0)
	case t.IDXBinaryEqEq:
		return b2i(l.Cmp(r) == 0)
	case t.IDXBinaryGreaterEq:
		return b2i(l.Cmp(r) >= 0)
	case t.IDXBinaryGreaterThan:
		return b2i(l.Cmp(r) > 0)
	}
	panic(&unsupported{"binary op " + opn})
}

func (in *Interp) call(fr *frame, n *a.Expr) *Value {
	recv, meth, args, ok := n.IsMethodCall()
	if !ok {
		panic(&unsupported{"call " + n.Str(in.tm)})
	}
	if recv.Operator() == 0 && recv.Ident() == t.IDThis {
		fn := in.funcs[meth]
		if fn == nil {
			panic(&unsupported{"unknown method " + n.Str(in.tm)})
		}
		fields := fn.In().Fields()
		vals := map[t.ID]*Value{}
		for i, o := range args {
			ve := o.AsArg().Value()
			v := in.eval(fr, ve)
			in.use(ve, v, "argument")
			if in.pure == 0 {
				if lo, hi, ok := typeBounds(fields[i].AsField().XType()); ok && !inRange(v, lo, hi) {
					in.fail("arg-outside-type", "argument %q = %v outside parameter type [%v ..= %v] in %q", ve.Str(in.tm), v, lo, hi, n.Str(in.tm))
				}
			}
			vals[fields[i].AsField().Name()] = &Value{I: v}
		}
		if in.pure == 0 && fn.Effect().Impure() {
			in.lastChange, in.lastText = "call-impure", n.Str(in.tm)
		}
		return in.invoke(fn, vals)
	}
	if recv.MType() != nil && recv.MType().IsNumType() {
		x := in.eval(fr, recv)
		switch meth {
		case t.IDMin, t.IDMax:
			y := in.eval(fr, args[0].AsArg().Value())
			if (meth == t.IDMin) == (x.Cmp(y) <= 0) {
				return &Value{I: x}
			}
			return &Value{I: y}
		case t.IDLowBits, t.IDHighBits:
			ne := args[0].AsArg().Value()
			k := in.eval(fr, ne)
			_, _, bits, _ := numBaseBounds(recv.MType())
			in.use(ne, k, "argument")
			if k.Sign() < 0 || k.Cmp(big.NewInt(int64(bits))) > 0 {
				if in.pure > 0 {
					panic(&uneval{})
				}
				in.fail("arg-outside-type", "bit count %v out of range in %q", k, n.Str(in.tm))
			}
			if meth == t.IDLowBits {
				m := new(big.Int).Lsh(big.NewInt(1), uint(k.Int64()))
				m.Sub(m, big.NewInt(1))
				return &Value{I: m.And(m, x)}
			}
			return &Value{I: new(big.Int).Rsh(x, uint(int64(bits)-k.Int64()))}
		}
	}
	panic(&unsupported{"call " + n.Str(in.tm)})
}

func (in *Interp) invoke(fn *a.Func, args map[t.ID]*Value) *Value {
	in.depth++
	defer func() { in.depth-- }()
	if in.depth > 64 {
		in.fail("recursion", "call depth exceeds 64 in %s", fn.QQID().Str(in.tm))
	}
	fr := &frame{fn: fn, args: args, locals: map[t.ID]*Value{}}
	c := in.execBlock(fr, fn.Body())
	if c.k == ctlReturn {
		return c.ret
	}
	if fn.Out() != nil {
		panic(&unsupported{"fell off the end of a non-void function"})
	}
	return &Value{}
}

func (in *Interp) checkFacts(fr *frame, facts []*a.Expr, where string) {
	if in.pure > 0 || len(facts) == 0 {
		return
	}
	for _, f := range facts {
		v, ok := in.evalPure(fr, f)
		if !ok {
			in.nFactsUneval++
			continue
		}
		in.nFactsEval++
		if v.Sign() == 0 {
			in.fail("false-fact:"+factClass(f)+":after-"+in.lastChange,
				"the checker holds the fact %q %s, but it is false there (last state change: %s %q)",
				f.Str(in.tm), where, in.lastChange, in.lastText)
		}
	}
}

// evalPure evaluates a fact / assertion in ideal integers without monitors.
func (in *Interp) evalPure(fr *frame, n *a.Expr) (v *big.Int, ok bool) {
	in.pure++
	defer func() {
		in.pure--
		if e := recover(); e != nil {
			switch e.(type) {
			case *uneval, *unsupported:
				v, ok = nil, false
			default:
				panic(e)
			}
		}
	}()
	return in.eval(fr, n), true
}

func hasOp(n *a.Expr, op t.ID) bool {
	found := false
	n.AsNode().Walk(func(o *a.Node) error {
		if o.Kind() == a.KExpr && o.AsExpr().Operator() == op {
			found = true
		}
		return nil
	})
	return found
}

// factClass: the syntactic shape of a fact, used in failure keys.
func factClass(f *a.Expr) string {
	if f.Operator().IsXBinaryOp() && f.Operator() != t.IDXBinaryAs {
		l, r := f.LHS().AsExpr(), f.RHS().AsExpr()
		if r.ConstValue() == nil && r.Mentions(l) {
			return "rhs-mentions-lhs"
		}
	}
	switch {
	case hasOp(f, t.IDOpenParen):
		return "mentions-call"
	case hasOp(f, t.IDOpenBracket):
		return "mentions-index"
	case hasOp(f, t.IDDotDot):
		return "mentions-slice"
	}
	return "plain"
}

func (in *Interp) checkAsserts(fr *frame, asserts []*a.Node, skip t.ID, where string) {
	if in.pure > 0 {
		return
	}
	for _, o := range asserts {
		as := o.AsAssert()
		if as.Keyword() == skip {
			continue
		}
		in.checkAssert(fr, as, where)
	}
}

func (in *Interp) checkAssert(fr *frame, as *a.Assert, where string) {
	v, ok := in.evalPure(fr, as.Condition())
	if !ok {
		in.nFactsUneval++
		return
	}
	in.nAsserts++
	if v.Sign() == 0 {
		why := "proved"
		if r := as.Reason(); r != 0 {
			why = "via:" + strings.ReplaceAll(strings.Trim(r.Str(in.tm), `"`), " ", "")
		}
		in.fail("false-assert:"+as.Keyword().Str(in.tm)+":"+why,
			"accepted %s %q is false %s (last state change: %s %q)", as.Keyword().Str(in.tm), as.Condition().Str(in.tm), where, in.lastChange, in.lastText)
	}
}

func (in *Interp) execBlock(fr *frame, block []*a.Node) ctl {
	first := 0
	for _, o := range block {
		_, line := o.AsRaw().FilenameLine()
		if first == 0 && o.Kind() != a.KVar {
			first = int(line)
		}
		if fs := in.factsBefore[int(line)]; fs != nil {
			in.checkFacts(fr, fs, fmt.Sprintf("before line %d", line))
		}
		if c := in.execStmt(fr, o); c.k != ctlNone {
			return c
		}
	}
	if first > 0 {
		if fs := in.factsEnd[first]; fs != nil {
			in.checkFacts(fr, fs, fmt.Sprintf("at the end of the block starting at line %d", first))
		}
	}
	return ctl{}
}

func lhsClass(n *a.Expr) string {
	switch n.Operator() {
	case 0:
		return "local"
	case t.IDDot:
		return "field"
	case t.IDOpenBracket:
		return "index"
	}
	return "other"
}

func (in *Interp) store(fr *frame, lhs *a.Expr, v *big.Int, what string) {
	if lo, hi, ok := typeBounds(lhs.MType()); ok && !inRange(v, lo, hi) && in.pure == 0 {
		in.fail("store-outside-type", "%s stores %v into %q of type %s", what, v, lhs.Str(in.tm), lhs.MType().Str(in.tm))
	}
	ref := in.lookupRef(fr, lhs)
	if ref.I == nil {
		panic(&unsupported{"store to non-scalar"})
	}
	ref.I = v
}

func (in *Interp) execStmt(fr *frame, o *a.Node) ctl {
	in.fuel--
	if in.fuel < 0 {
		panic(&fuelOut{})
	}
	switch o.Kind() {
	case a.KVar:
		n := o.AsVar()
		fr.locals[n.Name()] = zeroValue(n.XType())
		return ctl{}

	case a.KAssert:
		if in.pure == 0 {
			in.checkAssert(fr, o.AsAssert(), "where it stands")
		}
		return ctl{}

	case a.KAssign:
		n := o.AsAssign()
		lhs, rhs, op := n.LHS(), n.RHS(), n.Operator()
		if lhs == nil {
			if rhs.Operator() != t.IDOpenParen {
				panic(&unsupported{"expression statement"})
			}
			in.call(fr, rhs)
			return ctl{}
		}
		if lhs.MType().IsEitherArrayType() {
			panic(&unsupported{"array assignment"})
		}
		text := ""
		if in.pure == 0 {
			text = lhs.Str(in.tm) + " " + op.Str(in.tm) + " " + rhs.Str(in.tm)
		}
		if op == t.IDEq {
			v := in.eval(fr, rhs)
			in.use(rhs, v, "stored")
			in.store(fr, lhs, v, "assignment")
			if in.pure == 0 {
				if rhs.Operator() != t.IDOpenParen || !rhs.Effect().Impure() {
					in.lastChange, in.lastText = "store-"+lhsClass(lhs), text
				}
			}
			return ctl{}
		}
		cur := in.eval(fr, lhs)
		r := in.eval(fr, rhs)
		// "x op= e" is "x = x op e", computed in x's type.
		tmp := a.NewExpr(0, op.BinaryForm(), 0, lhs.AsNode(), nil, rhs.AsNode(), nil)
		tmp.SetMType(lhs.MType().Unrefined())
		v := in.binop(tmp, op.BinaryForm(), lhs, cur, rhs, r)
		in.store(fr, lhs, v, "op-assignment")
		if in.pure == 0 {
			in.lastChange, in.lastText = "store-"+lhsClass(lhs), text
		}
		return ctl{}

	case a.KIf:
		for n := o.AsIf(); n != nil; n = n.ElseIf() {
			c := in.eval(fr, n.Condition())
			if c.Sign() != 0 {
				return in.execBlock(fr, n.BodyIfTrue())
			}
			if n.ElseIf() == nil {
				return in.execBlock(fr, n.BodyIfFalse())
			}
		}
		return ctl{}

	case a.KWhile:
		n := o.AsWhile()
		_, line := o.AsRaw().FilenameLine()
		in.checkAsserts(fr, n.Asserts(), t.IDPost, fmt.Sprintf("on entry to the loop at line %d", line))
		for {
			in.fuel--
			if in.fuel < 0 {
				panic(&fuelOut{})
			}
			c := in.eval(fr, n.Condition())
			if c.Sign() == 0 {
				in.checkAsserts(fr, n.Asserts(), t.IDPre, fmt.Sprintf("on exit from the loop at line %d", line))
				return ctl{}
			}
			r := in.execBlock(fr, n.Body())
			switch {
			case r.k == ctlNone, r.k == ctlContinue && r.target == n:
				in.checkAsserts(fr, n.Asserts(), t.IDPost, fmt.Sprintf("at a continue of the loop at line %d", line))
			case r.k == ctlBreak && r.target == n:
				in.checkAsserts(fr, n.Asserts(), t.IDPre, fmt.Sprintf("at a break of the loop at line %d", line))
				return ctl{}
			default:
				return r
			}
		}

	case a.KJump:
		n := o.AsJump()
		w, _ := n.JumpTarget().(*a.While)
		if w == nil {
			panic(&unsupported{"jump target"})
		}
		if n.Keyword() == t.IDBreak {
			return ctl{k: ctlBreak, target: w}
		}
		return ctl{k: ctlContinue, target: w}

	case a.KRet:
		n := o.AsRet()
		if n.Keyword() != t.IDReturn {
			panic(&unsupported{"yield"})
		}
		ve := n.Value()
		if fr.fn.Out() == nil {
			return ctl{k: ctlReturn, ret: &Value{}}
		}
		v := in.eval(fr, ve)
		in.use(ve, v, "returned")
		if lo, hi, ok := typeBounds(fr.fn.Out()); ok && !inRange(v, lo, hi) && in.pure == 0 {
			in.fail("ret-outside-type", "return value %v outside %s", v, fr.fn.Out().Str(in.tm))
		}
		return ctl{k: ctlReturn, ret: &Value{I: v}}
	}
	panic(&unsupported{"statement kind " + o.Kind().String()})
}

// ---- public entry points (what the C main does)

type CallResult struct {
	Ret   string // decimal, or "-" for no value
	State string
}

func (in *Interp) dumpState() string {
	var sb strings.Builder
	for i, id := range in.order {
		if i > 0 {
			sb.WriteByte(' ')
		}
		v := in.fields[id]
		if v.Arr != nil {
			for j, e := range v.Arr {
				if j > 0 {
					sb.WriteByte(',')
				}
				sb.WriteString(e.I.String())
			}
		} else {
			sb.WriteString(v.I.String())
		}
	}
	return sb.String()
}

// CallPublic performs one public call as generated C does: magic / disabled
// checks, run-time argument checks (writeFuncImplArgChecks), then the body.
func (in *Interp) CallPublic(name string, argv []*big.Int) CallResult {
	fn := in.funcs[in.tm.ByName(name)]
	if fn == nil {
		panic(&unsupported{"no such func " + name})
	}
	zeroRet := "-"
	if fn.Out() != nil {
		zeroRet = "0"
	}
	if fn.Effect().Impure() && in.disabled {
		return CallResult{zeroRet, in.dumpState()}
	}
	args := map[t.ID]*Value{}
	for i, f := range fn.In().Fields() {
		f := f.AsField()
		if f.XType().IsRefined() {
			if lo, hi, ok := typeBounds(f.XType()); ok && !inRange(argv[i], lo, hi) {
				in.disabled = true
				return CallResult{zeroRet, in.dumpState()}
			}
		}
		args[f.Name()] = &Value{I: argv[i]}
	}
	ret := in.invoke(fn, args)
	rs := "-"
	if ret != nil && ret.I != nil {
		rs = ret.I.String()
	}
	return CallResult{rs, in.dumpState()}
}
