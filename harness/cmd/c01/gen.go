package main

// Checker-guided, type-directed generator of small Wuffs packages.
//
// A program is grown statement by statement. Every candidate statement is
// rendered into the whole package and given to the REAL front end; a rejected
// candidate is withdrawn (and counted by rejection class), an accepted one
// stays. So every finished program is accepted by the checker by
// construction, is dense in checker-relevant constructs (facts, refinements,
// masks, loops with invariants, `via` reasons, calls), and every rejected
// candidate is a "near miss" the checker was right (or wrong) about: a
// candidate that should have been rejected but was accepted stays in the
// program and is then executed under the monitors.

import (
	"errors"
	"fmt"
	"math/big"
	"regexp"
	"strings"

	a "github.com/google/wuffs/lang/ast"
	"github.com/google/wuffs/lang/check"
	t "github.com/google/wuffs/lang/token"
	"wvh/hlib"
)

var numBases = []string{"u8", "u16", "u32", "u64", "i8", "i16", "i32", "i64"}
var unsignedBases = []string{"u8", "u16", "u32", "u64"}

type Gen struct {
	rng   *hlib.Rand
	fr    *Front
	p     *Prog
	fn    *Func
	stats map[string]int
	nTmp  int
	loopD int

	signed bool // this program may use signed integer types

	rejOps []opLine // rejected candidate assignments, as correspondence ops

	rejFlowOps []opLine // whole function bodies of rejected candidates (`case func … -> reject`, flowtie.go)

	conds []cond // simple comparisons guarding the block under construction
}

type scope struct {
	scalars []Var
	arrays  []Var
	consts  []Const
}

func (g *Gen) count(k string) { g.stats[k]++ }

func (g *Gen) pick(ss []string) string { return ss[g.rng.Intn(len(ss))] }

func bi(i int64) *big.Int { return big.NewInt(i) }

func (g *Gen) randBase() string {
	// unsigned types dominate, as in std/; signed types only in some programs
	if !g.signed {
		switch g.rng.Intn(8) {
		case 0, 1, 2:
			return "u32"
		case 3, 4:
			return "u8"
		case 5:
			return "u16"
		case 6:
			return "u64"
		}
		return g.pick(unsignedBases)
	}
	switch g.rng.Intn(10) {
	case 0:
		return "i32"
	case 1:
		return g.pick(numBases)
	case 2, 3, 4:
		return "u32"
	case 5, 6:
		return "u8"
	case 7:
		return "u16"
	case 8:
		return "u64"
	}
	return g.pick(unsignedBases)
}

var interestingHi = []int64{0, 1, 2, 3, 4, 7, 8, 9, 15, 16, 31, 32, 63, 64, 100, 127, 128, 255, 256, 1000, 4095, 65535}

// randScalarTy returns a scalar type; when zeroOK the range contains 0
// (struct fields and locals are zero-initialised).
func (g *Gen) randScalarTy(zeroOK bool, refineChance int) Ty {
	ty := Ty{Base: g.randBase()}
	if g.rng.Chance(refineChance, 100) {
		lo, hi := baseBounds(ty.Base)
		h := bi(interestingHi[g.rng.Intn(len(interestingHi))])
		if h.Cmp(hi) < 0 && h.Cmp(lo) >= 0 {
			ty.Hi = h
		}
		if !zeroOK && g.rng.Chance(1, 3) {
			l := bi(interestingHi[g.rng.Intn(8)])
			top := hi
			if ty.Hi != nil {
				top = ty.Hi
			}
			if l.Cmp(top) <= 0 {
				ty.Lo = l
			}
		}
	}
	return ty
}

var arrLens = []int{1, 2, 3, 4, 8, 8, 16, 17, 32, 256}

func (g *Gen) scope() *scope {
	sc := &scope{consts: g.p.Consts}
	for _, l := range g.fn.Locals {
		if l.T.ArrLen > 0 {
			sc.arrays = append(sc.arrays, l)
		} else {
			sc.scalars = append(sc.scalars, l)
		}
	}
	for _, a := range g.fn.Params {
		sc.scalars = append(sc.scalars, Var{"args." + a.Name, a.T})
	}
	for _, f := range g.p.Fields {
		v := Var{"this." + f.Name, f.T}
		if f.T.ArrLen > 0 {
			sc.arrays = append(sc.arrays, v)
		} else {
			sc.scalars = append(sc.scalars, v)
		}
	}
	return sc
}

func (sc *scope) scalarsOf(base string) (out []Var) {
	for _, v := range sc.scalars {
		if v.T.Base == base {
			out = append(out, v)
		}
	}
	return out
}

func (sc *scope) numeric() (out []Var) {
	for _, v := range sc.scalars {
		if v.T.Base != "bool" {
			out = append(out, v)
		}
	}
	return out
}

func (g *Gen) literal(base string, sc *scope) string {
	lo, hi := baseBounds(base)
	var v *big.Int
	switch g.rng.Intn(8) {
	case 0:
		v = hi
	case 1:
		v = new(big.Int).Sub(hi, bi(int64(g.rng.Intn(3))))
	case 2:
		if len(sc.arrays) > 0 {
			a := sc.arrays[g.rng.Intn(len(sc.arrays))]
			v = bi(int64(a.T.ArrLen + g.rng.Intn(3) - 1))
		}
	case 3:
		v = bi(int64(g.rng.Intn(10)))
	case 4:
		if lo.Sign() < 0 {
			v = bi(-int64(g.rng.Intn(5)))
		}
	}
	if v == nil {
		v = bi(interestingHi[g.rng.Intn(len(interestingHi))])
	}
	if v.Cmp(hi) > 0 {
		v = hi
	}
	if v.Cmp(lo) < 0 {
		v = lo
	}
	if v.Sign() < 0 {
		return "(" + v.String() + ")"
	}
	return v.String()
}

func isLeaf(s string) bool {
	return !strings.ContainsAny(s, " ")
}

func paren(s string) string {
	if isLeaf(s) || (strings.HasPrefix(s, "(") && strings.HasSuffix(s, ")") && balanced(s[1:len(s)-1])) {
		return s
	}
	return "(" + s + ")"
}

func balanced(s string) bool {
	d := 0
	for _, c := range s {
		switch c {
		case '(':
			d++
		case ')':
			d--
			if d < 0 {
				return false
			}
		}
	}
	return d == 0
}

var arithOps = []string{"+", "-", "*", "/", "%", "<<", ">>", "&", "|", "^", "~mod+", "~mod-", "~mod*", "~mod<<", "~sat+", "~sat-"}

// indexExpr returns an index expression for an array of length n that the
// checker can often (not always) prove in range.
func (g *Gen) indexExpr(sc *scope, n int) string {
	nums := sc.numeric()
	switch k := g.rng.Intn(10); {
	case k < 2 || len(nums) == 0:
		off := 0
		if g.rng.Chance(1, 12) {
			off = 1 // near miss: one past the end
		}
		return fmt.Sprint(g.rng.Intn(n) + off)
	case k < 6:
		return nums[g.rng.Intn(len(nums))].Name
	case k < 7:
		v := nums[g.rng.Intn(len(nums))]
		m := n
		if g.rng.Chance(1, 8) {
			m = n + 1
		}
		return v.Name + " % " + fmt.Sprint(m)
	case k < 8:
		v := nums[g.rng.Intn(len(nums))]
		m := n - 1
		if g.rng.Chance(1, 8) {
			m = n
		}
		return v.Name + " & " + fmt.Sprint(m)
	default:
		v := nums[g.rng.Intn(len(nums))]
		return g.expr(sc, v.T.Base, 1)
	}
}

func (g *Gen) elemRef(sc *scope, a Var) string {
	return a.Name + "[" + g.indexExpr(sc, a.T.ArrLen) + "]"
}

// expr returns a numeric expression of base type `base` (or an ideal constant).
func (g *Gen) expr(sc *scope, base string, depth int) string {
	vars := sc.scalarsOf(base)
	k := g.rng.Intn(100)
	switch {
	case k < 18 || (depth <= 0 && k < 35):
		return g.literal(base, sc)
	case k < 50 || depth <= 0:
		if g.rng.Chance(1, 6) {
			// a named constant of this type (a typed constant-valued leaf)
			var cs []Const
			for _, c := range sc.consts {
				if c.Base == base {
					cs = append(cs, c)
				}
			}
			if len(cs) > 0 {
				return cs[g.rng.Intn(len(cs))].Name
			}
		}
		if len(vars) > 0 {
			return vars[g.rng.Intn(len(vars))].Name
		}
		return g.literal(base, sc)
	case k < 57:
		var cands []Var
		for _, a := range sc.arrays {
			if a.T.Base == base {
				cands = append(cands, a)
			}
		}
		if len(cands) > 0 {
			return g.elemRef(sc, cands[g.rng.Intn(len(cands))])
		}
		fallthrough
	case k < 66:
		// conversion from another numeric type
		others := sc.numeric()
		if len(others) > 0 {
			v := others[g.rng.Intn(len(others))]
			inner := v.Name
			if g.rng.Chance(1, 3) {
				inner = g.expr(sc, v.T.Base, depth-1)
			}
			return paren(inner) + " as base." + base
		}
		return g.literal(base, sc)
	case k < 72:
		x := paren(g.expr(sc, base, depth-1))
		switch g.rng.Intn(4) {
		case 0:
			return x + ".min(no_more_than: " + g.expr(sc, base, depth-1) + ")"
		case 1:
			return x + ".max(no_less_than: " + g.expr(sc, base, depth-1) + ")"
		case 2:
			if !baseInfo[base].Signed {
				return x + ".low_bits(n: " + fmt.Sprint(g.rng.Intn(baseInfo[base].Bits+1)) + ")"
			}
		default:
			if !baseInfo[base].Signed {
				return x + ".high_bits(n: " + fmt.Sprint(g.rng.Intn(baseInfo[base].Bits+1)) + ")"
			}
		}
		return x
	case k < 77:
		// call of an earlier pure method
		for _, f := range g.p.Funcs {
			if f == g.fn {
				break
			}
			if f.Effect == "" && f.Ret != nil && f.Ret.Base == base && g.rng.Chance(1, 2) {
				return g.callText(sc, f, depth-1)
			}
		}
		fallthrough
	default:
		op := g.pick(arithOps)
		if baseInfo[base].Signed && (strings.HasPrefix(op, "~") || op == "<<" || op == ">>" || op == "~mod<<") {
			op = g.pick([]string{"+", "-", "*"})
		}
		l := g.expr(sc, base, depth-1)
		if !baseInfo[base].Signed && baseInfo[base].Bits >= 32 && g.rng.Chance(2, 5) {
			// a narrower operand, widened: keeps non-modular arithmetic within bounds
			var narrow []Var
			for _, v := range sc.numeric() {
				if !baseInfo[v.T.Base].Signed && baseInfo[v.T.Base].Bits < baseInfo[base].Bits {
					narrow = append(narrow, v)
				}
			}
			if len(narrow) > 0 {
				l = narrow[g.rng.Intn(len(narrow))].Name + " as base." + base
			}
		}
		var r string
		switch op {
		case "<<", ">>", "~mod<<":
			if g.rng.Chance(3, 5) {
				r = fmt.Sprint(g.rng.Intn(baseInfo[base].Bits + 1))
			} else {
				nums := sc.numeric()
				// variables whose declared range fits the shift bounds come first: a
				// run-time shift amount up to bits-1 (the constant-operand shifts of
				// the generated C are only exercised that way)
				var fit []Var
				for _, v := range nums {
					if _, hi := v.T.Bounds(); hi != nil && hi.Cmp(bi(int64(baseInfo[base].Bits-1))) <= 0 && !baseInfo[v.T.Base].Signed {
						fit = append(fit, v)
					}
				}
				if len(fit) > 0 && g.rng.Chance(4, 5) {
					r = fit[g.rng.Intn(len(fit))].Name
				} else if len(nums) > 0 {
					r = nums[g.rng.Intn(len(nums))].Name
				} else {
					r = "1"
				}
				if g.rng.Chance(1, 3) {
					// constant (named or literal) shifted by a run-time amount
					var cs []Const
					for _, c := range sc.consts {
						if c.Base == base {
							cs = append(cs, c)
						}
					}
					if len(cs) > 0 && g.rng.Chance(2, 3) {
						l = cs[g.rng.Intn(len(cs))].Name
					} else {
						l = g.literal(base, sc)
					}
				}
			}
		case "/", "%":
			if g.rng.Chance(3, 4) {
				r = fmt.Sprint(g.rng.Intn(20))
			} else {
				r = g.expr(sc, base, depth-1)
			}
		default:
			r = g.expr(sc, base, depth-1)
		}
		if op == "+" && g.rng.Chance(1, 6) {
			// associative form a + b + c
			return paren(l) + " + " + paren(r) + " + " + paren(g.expr(sc, base, depth-1))
		}
		return paren(l) + " " + op + " " + paren(r)
	}
}

func (g *Gen) callText(sc *scope, f *Func, depth int) string {
	args := []string{}
	for _, p := range f.Params {
		args = append(args, p.Name+": "+g.expr(sc, p.T.Base, depth))
	}
	return "this." + f.Name + f.Effect + "(" + strings.Join(args, ", ") + ")"
}

var cmpOps = []string{"<", "<=", "==", "<>", ">=", ">"}

// cond is a simple comparison `l op r` (operands are leaves) that guards a block.
type cond struct{ l, op, r, base string }

func (g *Gen) cmpParts(sc *scope, depth int) (text string, c *cond) {
	nums := sc.numeric()
	if len(nums) == 0 {
		return "true", nil
	}
	v := nums[g.rng.Intn(len(nums))]
	l := v.Name
	if g.rng.Chance(1, 6) {
		l = g.expr(sc, v.T.Base, depth)
	}
	var r string
	if g.rng.Chance(3, 5) {
		r = g.literal(v.T.Base, sc)
	} else {
		r = g.expr(sc, v.T.Base, depth)
	}
	op := g.pick(cmpOps)
	if isLeaf(l) && isLeaf(r) {
		c = &cond{l, op, r, v.T.Base}
	}
	return paren(l) + " " + op + " " + paren(r), c
}

func (g *Gen) cmp(sc *scope, depth int) string {
	s, _ := g.cmpParts(sc, depth)
	return s
}

var invOp = map[string]string{"<": ">=", "<=": ">", "==": "<>", "<>": "==", ">=": "<", ">": "<="}

// two-premise axioms "a CONCL b: a P1 c; c P2 b"
var reasons3 = []struct{ s, concl, p1, p2 string }{
	{"a < b: a < c; c < b", "<", "<", "<"},
	{"a < b: a < c; c == b", "<", "<", "=="},
	{"a < b: a == c; c < b", "<", "==", "<"},
	{"a < b: a < c; c <= b", "<", "<", "<="},
	{"a < b: a <= c; c < b", "<", "<=", "<"},
	{"a <= b: a <= c; c <= b", "<=", "<=", "<="},
	{"a <= b: a <= c; c == b", "<=", "<=", "=="},
	{"a <= b: a == c; c <= b", "<=", "==", "<="},
}

// aimedAssert: an assert whose `via` reason has ONE premise that is a guarding
// condition (so it is a known fact) and one premise about a random operand: it is
// provable only if the checker can also establish the other premise.
func (g *Gen) aimedAssert(sc *scope) *Stmt {
	if len(g.conds) == 0 {
		return nil
	}
	c := g.conds[g.rng.Intn(len(g.conds))]
	var cands []int
	for i, r := range reasons3 {
		if r.p1 == c.op || r.p2 == c.op {
			cands = append(cands, i)
		}
	}
	if len(cands) == 0 {
		return nil
	}
	r := reasons3[cands[g.rng.Intn(len(cands))]]
	other := g.literal(c.base, sc)
	if vs := sc.scalarsOf(c.base); len(vs) > 0 && g.rng.Chance(2, 3) {
		other = vs[g.rng.Intn(len(vs))].Name
	}
	var a, b, cc string
	if r.p1 == c.op && (r.p2 != c.op || g.rng.Bool()) {
		a, cc, b = c.l, c.r, other // premise 1 is the guard
	} else {
		cc, b, a = c.l, c.r, other // premise 2 is the guard
	}
	return &Stmt{Kind: "simple", Text: fmt.Sprintf(`assert %s %s %s via "%s"(c: %s)`, a, r.concl, b, r.s, cc), Tag: "assert-aimed"}
}

func (g *Gen) boolExpr(sc *scope, depth int) string {
	switch k := g.rng.Intn(12); {
	case k < 8 || depth <= 0:
		return g.cmp(sc, depth)
	case k < 9:
		return "not (" + g.boolExpr(sc, depth-1) + ")"
	case k < 11:
		return "(" + g.boolExpr(sc, depth-1) + ") and (" + g.boolExpr(sc, depth-1) + ")"
	default:
		return "(" + g.boolExpr(sc, depth-1) + ") or (" + g.boolExpr(sc, depth-1) + ")"
	}
}

// accepted renders the program under construction and asks the real checker.
func (g *Gen) accepted() bool {
	src, _ := g.p.Render(-1)
	_, err := g.fr.Fast(src)
	cls := errClass(err)
	g.count("cand:" + cls)
	if err != nil && len(g.rejOps) < 12 {
		switch cls {
		case "rej:not-within-bounds", "rej:shift-arg", "rej:div-arg", "rej:bitwise-arg", "rej:inconsistent-fact":
			g.recordReject(src, err)
		case "rej:cannot-prove":
			g.recordRejectedAssert(src, err)
		}
	}
	if err != nil && len(g.rejFlowOps) < 3 {
		switch cls {
		case "rej:not-within-bounds", "rej:shift-arg", "rej:div-arg", "rej:bitwise-arg", "rej:inconsistent-fact", "rej:cannot-prove", "rej:unreachable":
			g.recordRejectedFunc(src, err)
		}
	}
	return err == nil
}

// recordReject: a candidate assignment that the real checker rejected in its
// bounds phase becomes a correspondence op: the model must reject it too, under
// the facts the real checker held just before it.
func (g *Gen) recordReject(src string, err error) {
	var ce *check.Error
	if !errors.As(err, &ce) || g.fr.lastFile == nil || ce.Line == 0 {
		return
	}
	file := g.fr.lastFile
	var stmt *a.Assign
	for _, d := range file.TopLevelDecls() {
		if d.Kind() != a.KFunc {
			continue
		}
		d.Walk(func(o *a.Node) error {
			if o.Kind() == a.KAssign {
				if _, ln := o.AsRaw().FilenameLine(); ln == ce.Line {
					stmt = o.AsAssign()
				}
			}
			return nil
		})
	}
	if stmt == nil || stmt.LHS() == nil || stmt.RHS() == nil || !stmt.RHS().Effect().Pure() {
		return
	}
	lhs, rhs := stmt.LHS(), stmt.RHS()
	if lhs.Operator() != 0 && lhs.IsThisDotFoo() == 0 && lhs.Operator() != t.IDOpenBracket {
		return
	}
	tm := g.fr.tm
	ls, ok1 := exprSexpr(tm, lhs, nil)
	rs, ok2 := exprSexpr(tm, rhs, nil)
	if !ok1 || !ok2 || !(strings.HasPrefix(ls, "v ") || strings.HasPrefix(ls, "ix ")) {
		return
	}
	op := ""
	if stmt.Operator() == t.IDEq {
		op = "assign"
	} else if nm, ok := binOpNames[stmt.Operator().BinaryForm()]; ok {
		op = "opassign " + nm
	} else {
		return
	}
	facts, ok := g.fr.ProbeFacts(withProbe(src, int(ce.Line)))
	if !ok {
		return
	}
	g.rejOps = append(g.rejOps, opLine{"facts " + factsSexpr(tm, facts) + " " + op + " " + ls + " " + rs, "reject"})
}

// recordRejectedAssert: a candidate plain `assert` (no `via`) that the real checker
// could not prove becomes a correspondence op: the model must fail to prove it too,
// under the facts the real checker held just before it.
func (g *Gen) recordRejectedAssert(src string, err error) {
	var ce *check.Error
	if !errors.As(err, &ce) || g.fr.lastFile == nil || ce.Line == 0 || ce.Err == nil {
		return
	}
	var stmt *a.Assert
	for _, d := range g.fr.lastFile.TopLevelDecls() {
		if d.Kind() != a.KFunc {
			continue
		}
		for _, o := range d.AsFunc().Body() {
			o.Walk(func(o *a.Node) error {
				if o.Kind() == a.KAssert {
					if _, ln := o.AsRaw().FilenameLine(); ln == ce.Line && o.AsAssert().Keyword() == t.IDAssert {
						stmt = o.AsAssert()
					}
				}
				return nil
			})
		}
	}
	if stmt == nil || stmt.Reason() != 0 {
		return
	}
	tm := g.fr.tm
	// only the failure of the assert itself (not of an obligation inside its condition)
	if ce.Err.Error() != fmt.Sprintf("check: cannot prove %q", stmt.Condition().Str(tm)) {
		return
	}
	cs, ok := condSexpr(tm, stmt.Condition())
	if !ok {
		return
	}
	facts, ok := g.fr.ProbeFacts(withProbe(src, int(ce.Line)))
	if !ok {
		return
	}
	g.rejOps = append(g.rejOps, opLine{"prove " + factsSexpr(tm, facts) + " " + cs, "fail"})
}

// try appends s to *blk; keeps it iff the checker accepts the program.
func (g *Gen) try(blk *[]*Stmt, s *Stmt) bool {
	*blk = append(*blk, s)
	if g.accepted() {
		g.count("kept:" + s.Tag)
		return true
	}
	*blk = (*blk)[:len(*blk)-1]
	g.count("dropped:" + s.Tag)
	return false
}

func (g *Gen) targets(sc *scope) (out []Var) {
	for _, v := range sc.scalars {
		if !strings.HasPrefix(v.Name, "args.") && (g.fn.Effect == "!" || !strings.HasPrefix(v.Name, "this.")) {
			out = append(out, v)
		}
	}
	return out
}

var opAssigns = []string{"+=", "-=", "*=", "/=", "%=", "<<=", ">>=", "&=", "|=", "^=", "~mod+=", "~mod-=", "~mod*=", "~mod<<=", "~sat+=", "~sat-="}

var reasons = []string{
	"a < b: b > a", "a < b: a < c; c < b", "a < b: a < c; c == b", "a < b: a == c; c < b",
	"a < b: a < c; c <= b", "a < b: a <= c; c < b", "a < b: a <= c; c <= b",
	"a > b: b < a", "a <= b: a == b", "a <= b: b >= a", "a <= b: a <= c; c <= b",
	"a <= b: a <= c; c == b", "a <= b: a == c; c <= b", "a >= b: a == b", "a >= b: b <= a",
	"a >= b: a >= (b + c); 0 <= c",
}

func (g *Gen) simpleStmt(sc *scope) *Stmt {
	tg := g.targets(sc)
	k := g.rng.Intn(100)
	if len(g.conds) > 0 && g.rng.Chance(1, 5) {
		if s := g.aimedAssert(sc); s != nil {
			return s
		}
	}
	if len(g.conds) > 0 && g.rng.Chance(1, 6) {
		// a plain assert derived from a guarding comparison `l op r`: `l op' r` (or the
		// mirrored `r op'' l`) for a random op' — provable iff op implies op'
		// (opImpliesOp, or the bounds); a wrongly accepted one is false at run time.
		c := g.conds[g.rng.Intn(len(g.conds))]
		op := g.pick(cmpOps)
		if g.rng.Bool() {
			return &Stmt{Kind: "simple", Text: "assert " + c.l + " " + op + " " + c.r, Tag: "assert-guard"}
		}
		return &Stmt{Kind: "simple", Text: "assert " + c.r + " " + op + " " + c.l, Tag: "assert-guard"}
	}
	if len(g.conds) > 0 && len(tg) > 0 && g.rng.Chance(1, 6) {
		// a difference of the two sides of a guarding comparison: its bounds come from
		// the facts (bcheckExprXBinaryMinus), `l >= r` gives `l - r >= 0`, `l > r` gives >= 1
		c := g.conds[g.rng.Intn(len(g.conds))]
		var cands []Var
		for _, v := range tg {
			if v.T.Base == c.base {
				cands = append(cands, v)
			}
		}
		if len(cands) > 0 {
			v := cands[g.rng.Intn(len(cands))]
			l, r := c.l, c.r
			if g.rng.Chance(1, 3) {
				l, r = r, l
			}
			e := l + " - " + r
			if g.rng.Chance(1, 3) {
				e = "(" + e + ") - 1"
			}
			return &Stmt{Kind: "simple", Text: v.Name + " = " + e, Tag: "assign-guard-diff"}
		}
	}
	switch {
	case k < 38 && len(tg) > 0:
		v := tg[g.rng.Intn(len(tg))]
		if v.T.IsBool() {
			return &Stmt{Kind: "simple", Text: v.Name + " = " + g.boolExpr(sc, 1), Tag: "assign-bool"}
		}
		d := g.rng.Intn(3)
		e := g.expr(sc, v.T.Base, d)
		if g.rng.Chance(1, 5) {
			// self-referential update
			e = v.Name + " " + g.pick([]string{"+", "-", "~mod+", "~mod-", "*", ">>", "&", "~sat+"}) + " " + paren(g.expr(sc, v.T.Base, 0))
		}
		return &Stmt{Kind: "simple", Text: v.Name + " = " + e, Tag: "assign"}
	case k < 52 && len(tg) > 0:
		v := tg[g.rng.Intn(len(tg))]
		if v.T.IsBool() {
			return nil
		}
		op := g.pick(opAssigns)
		if baseInfo[v.T.Base].Signed && (strings.HasPrefix(op, "~") || strings.Contains(op, "<<") || strings.Contains(op, ">>")) {
			op = g.pick([]string{"+=", "-="})
		}
		var e string
		switch {
		case g.rng.Chance(1, 8):
			e = v.Name // x -= x and friends
		case strings.Contains(op, "<<") || strings.Contains(op, ">>"):
			e = fmt.Sprint(g.rng.Intn(baseInfo[v.T.Base].Bits + 1))
		case g.rng.Chance(1, 2):
			e = fmt.Sprint(g.rng.Intn(9))
		default:
			e = g.expr(sc, v.T.Base, 1)
		}
		return &Stmt{Kind: "simple", Text: v.Name + " " + op + " " + e, Tag: "opassign"}
	case k < 66 && len(sc.arrays) > 0 && g.fn.Effect == "!":
		a := sc.arrays[g.rng.Intn(len(sc.arrays))]
		if g.fn.Effect != "!" && strings.HasPrefix(a.Name, "this.") {
			return nil
		}
		return &Stmt{Kind: "simple", Text: g.elemRef(sc, a) + " = " + g.expr(sc, a.T.Base, 1), Tag: "assign-elem"}
	case k < 80:
		nums := sc.numeric()
		if len(nums) == 0 {
			return nil
		}
		cond := g.cmp(sc, 0)
		txt := "assert " + cond
		if g.rng.Chance(1, 2) {
			r := g.pick(reasons)
			txt += ` via "` + r + `"(`
			if strings.Contains(r, "c") {
				v := nums[g.rng.Intn(len(nums))]
				c := v.Name
				if g.rng.Chance(1, 3) {
					c = g.literal(v.T.Base, sc)
				}
				txt += "c: " + c
			}
			txt += ")"
		}
		return &Stmt{Kind: "simple", Text: txt, Tag: "assert"}
	case k < 92:
		// call of an earlier method as a statement / assignment
		var fs []*Func
		for _, f := range g.p.Funcs {
			if f == g.fn {
				if g.rng.Chance(1, 30) {
					fs = append(fs, f) // recursion: must be rejected
				}
				break
			}
			if f.Effect == "" || g.fn.Effect == "!" {
				fs = append(fs, f)
			}
		}
		if len(fs) == 0 {
			return nil
		}
		f := fs[g.rng.Intn(len(fs))]
		call := g.callText(sc, f, 1)
		if f.Ret != nil {
			var cands []Var
			for _, v := range tg {
				if v.T.Base == f.Ret.Base {
					cands = append(cands, v)
				}
			}
			if len(cands) == 0 {
				return nil
			}
			return &Stmt{Kind: "simple", Text: cands[g.rng.Intn(len(cands))].Name + " = " + call, Tag: "call-assign"}
		}
		return &Stmt{Kind: "simple", Text: call, Tag: "call"}
	}
	return nil
}

func (g *Gen) newLocal(ty Ty) Var {
	g.nTmp++
	v := Var{fmt.Sprintf("t%d", g.nTmp), ty}
	g.fn.Locals = append(g.fn.Locals, v)
	return v
}

// whileStmt builds a loop from a template that makes progress; the body is
// then filled with checked candidates.
func (g *Gen) whileStmt(blk *[]*Stmt, depth int) {
	sc := g.scope()
	var iv Var
	cands := []Var{}
	for _, l := range g.fn.Locals {
		if l.T.ArrLen == 0 && !l.T.IsBool() && !baseInfo[l.T.Base].Signed && l.T.Lo == nil && l.T.Hi == nil {
			cands = append(cands, l)
		}
	}
	if len(cands) == 0 || g.rng.Chance(1, 3) {
		iv = g.newLocal(Ty{Base: g.pick([]string{"u32", "u32", "u8", "u64", "u16"})})
	} else {
		iv = cands[g.rng.Intn(len(cands))]
	}
	n := []int{1, 2, 3, 4, 8, 8, 16, 17, 32, 100, 255, 256}[g.rng.Intn(12)]
	if len(sc.arrays) > 0 && g.rng.Chance(2, 3) {
		n = sc.arrays[g.rng.Intn(len(sc.arrays))].T.ArrLen
	}
	if iv.T.Base == "u8" && n > 255 {
		n = 255
	}
	step := 1
	if g.rng.Chance(1, 5) {
		step = 2 + g.rng.Intn(2)
	}
	i := iv.Name
	tmpl := g.rng.Intn(18)
	if tmpl >= 10 {
		tmpl -= 10 // the free-form condition (tmpl 8, 9) is rarer: it often does not terminate
		if tmpl >= 8 {
			tmpl = 0
		}
	}
	var init, header, incr string
	incrFirst := false
	switch {
	case tmpl < 5: // count up
		init = fmt.Sprintf("%s = %d", i, g.rng.Intn(2))
		header = fmt.Sprintf("%s < %d", i, n)
		if g.rng.Chance(1, 2) {
			header += fmt.Sprintf(", inv %s <= %d", i, n+g.rng.Intn(2)*(step-1)+nearOff(g))
		}
		if g.rng.Chance(1, 3) {
			header += fmt.Sprintf(", post %s >= %d", i, n+nearOff(g))
		}
		incr = fmt.Sprintf("%s += %d", i, step)
		if g.rng.Chance(1, 6) {
			incr = fmt.Sprintf("%s = %s ~mod+ %d", i, i, step)
		}
	case tmpl < 7: // count down
		init = fmt.Sprintf("%s = %d", i, n)
		header = fmt.Sprintf("%s > 0", i)
		if g.rng.Chance(1, 2) {
			header += fmt.Sprintf(", inv %s <= %d", i, n+nearOff(g))
		}
		incr = fmt.Sprintf("%s -= 1", i)
		incrFirst = true
	case tmpl < 8: // while true + break
		init = fmt.Sprintf("%s = 0", i)
		header = "true"
		if g.rng.Chance(1, 2) {
			header += fmt.Sprintf(", inv %s <= %d", i, n+nearOff(g))
		}
		incr = fmt.Sprintf("%s += %d", i, step)
	default: // condition that reads memory / other state
		init = fmt.Sprintf("%s = 0", i)
		header = g.boolExpr(sc, 1)
		if len(sc.arrays) > 0 && g.rng.Chance(1, 2) {
			a := sc.arrays[g.rng.Intn(len(sc.arrays))]
			header = fmt.Sprintf("%s[%s] %s %s", a.Name, i, g.pick(cmpOps), g.literal(a.T.Base, sc))
		}
		incr = fmt.Sprintf("%s = %s ~mod+ 1", i, i)
		if g.rng.Chance(1, 2) {
			incr = fmt.Sprintf("%s += 1", i)
		}
	}
	if !g.try(blk, &Stmt{Kind: "simple", Text: init, Tag: "loop-init"}) {
		return
	}
	if strings.Contains(header, ",") {
		header += "," // the assert list needs a trailing comma
	}
	w := &Stmt{Kind: "while", Text: header, Tag: "while"}
	inc := &Stmt{Kind: "simple", Text: incr, Tag: "loop-step"}
	if header == "true" || strings.HasPrefix(header, "true,") {
		brk := &Stmt{Kind: "if", Text: fmt.Sprintf("%s >= %d", i, n), Body: []*Stmt{{Kind: "simple", Text: "break", Term: true}}, Tag: "loop-break"}
		w.Body = []*Stmt{brk, inc}
	} else {
		w.Body = []*Stmt{inc}
	}
	if !g.try(blk, w) {
		// retry without inv / post
		w.Text = strings.SplitN(header, ",", 2)[0]
		if !g.try(blk, w) {
			return
		}
	}
	// fill the body: candidates are inserted before the step (or after it, for
	// count-down loops)
	savedConds := g.conds
	g.conds = nil
	defer func() { g.conds = savedConds }()
	g.loopD++
	nb := 1 + g.rng.Intn(4)
	for k := 0; k < nb; k++ {
		fixed := len(w.Body)
		var pre, post []*Stmt
		if incrFirst {
			pre, post = w.Body, nil
		} else {
			pre, post = w.Body[:fixed-1], w.Body[fixed-1:]
		}
		post = append([]*Stmt(nil), post...)
		body := append([]*Stmt(nil), pre...)
		w.Body = body
		// grow `body` by one statement, then re-attach the step
		tmp := &w.Body
		before := len(*tmp)
		g.block(tmp, depth+1, 1)
		_ = before
		w.Body = append(*tmp, post...)
		if !g.accepted() {
			// the step no longer checks after the new statement: withdraw it
			w.Body = append(append([]*Stmt(nil), pre...), post...)
			g.count("dropped:loop-body-breaks-step")
		}
	}
	g.loopD--
}

func nearOff(g *Gen) int {
	if g.rng.Chance(1, 10) {
		return -1
	}
	return 0
}

// block appends up to n accepted statements to *blk.
func (g *Gen) block(blk *[]*Stmt, depth int, n int) {
	for i := 0; i < n; i++ {
		for attempt := 0; attempt < 4; attempt++ {
			sc := g.scope()
			k := g.rng.Intn(100)
			switch {
			case k < 14 && depth < 3:
				var guard *cond
				ctext := g.boolExpr(sc, 1)
				if g.rng.Chance(1, 2) {
					ctext, guard = g.cmpParts(sc, 0)
				}
				s := &Stmt{Kind: "if", Text: ctext, Tag: "if"}
				if !g.try(blk, s) {
					continue
				}
				nc := len(g.conds)
				if guard != nil {
					g.conds = append(g.conds, *guard)
				}
				g.block(&s.Body, depth+1, 1+g.rng.Intn(3))
				g.conds = g.conds[:nc]
				if g.rng.Chance(1, 3) {
					if guard != nil {
						g.conds = append(g.conds, cond{guard.l, invOp[guard.op], guard.r, guard.base})
					}
					s.Else = []*Stmt{}
					g.block(&s.Else, depth+1, 1+g.rng.Intn(2))
					g.conds = g.conds[:nc]
					if len(s.Else) == 0 {
						s.Else = nil
					}
				}
				if g.rng.Chance(1, 10) && g.fn.Final != "" || (g.rng.Chance(1, 14) && g.fn.Ret == nil) {
					// early return at the end of the true branch
					ret := "return nothing"
					if g.fn.Ret != nil {
						ret = "return " + g.expr(sc, g.fn.Ret.Base, 1)
					}
					if len(s.Body) == 0 || !s.Body[len(s.Body)-1].Term {
						g.try(&s.Body, &Stmt{Kind: "simple", Text: ret, Term: true, Tag: "early-return"})
					}
				} else if g.loopD > 0 && g.rng.Chance(1, 8) && (len(s.Body) == 0 || !s.Body[len(s.Body)-1].Term) {
					g.try(&s.Body, &Stmt{Kind: "simple", Text: "break", Term: true, Tag: "break"})
				}
			case k < 22 && depth < 2 && g.loopD < 2:
				g.whileStmt(blk, depth)
			default:
				s := g.simpleStmt(sc)
				if s == nil || !g.try(blk, s) {
					continue
				}
			}
			break
		}
	}
}

// NewProgram generates one accepted program.
func (g *Gen) NewProgram() *Prog {
	p := &Prog{}
	g.p = p
	g.nTmp = 0
	g.conds = nil
	g.signed = g.rng.Chance(1, 7)
	if g.rng.Chance(1, 2) {
		// named constants: typed constant-valued leaves (the generated C writes them
		// as bare literals, whose C type depends on the value, not on the Wuffs type)
		vals := []int64{0, 1, 7, 255, 256, 65535, 65536, 0x7FFFFFFF, 0x80000000, 0xFFFFFFFF}
		for i, nc := 0, 1+g.rng.Intn(3); i < nc; i++ {
			base := g.pick([]string{"u64", "u64", "u32", "u16", "u8"})
			_, hi := baseBounds(base)
			v := bi(vals[g.rng.Intn(len(vals))])
			if g.rng.Chance(1, 5) {
				v = hi
			}
			if v.Cmp(hi) > 0 {
				v = hi
			}
			p.Consts = append(p.Consts, Const{fmt.Sprintf("K%d", i), base, v})
		}
	}
	nf := 2 + g.rng.Intn(4)
	for i := 0; i < nf; i++ {
		p.Fields = append(p.Fields, Var{fmt.Sprintf("f%d", i), g.randScalarTy(true, 30)})
	}
	if g.rng.Chance(1, 8) {
		p.Fields = append(p.Fields, Var{"fb", Ty{Base: "bool"}})
	}
	na := 1 + g.rng.Intn(2)
	for i := 0; i < na; i++ {
		ty := Ty{Base: g.pick([]string{"u8", "u8", "u16", "u32", "u64"}), ArrLen: arrLens[g.rng.Intn(len(arrLens))]}
		if g.rng.Chance(1, 4) {
			_, hi := baseBounds(ty.Base)
			h := bi(interestingHi[g.rng.Intn(len(interestingHi))])
			if h.Cmp(hi) < 0 {
				ty.Hi = h
			}
		}
		p.Fields = append(p.Fields, Var{fmt.Sprintf("a%d", i), ty})
	}
	nfn := 1 + g.rng.Intn(4)
	for i := 0; i < nfn; i++ {
		f := &Func{Name: fmt.Sprintf("m%d", i)}
		g.fn = f
		last := i == nfn-1
		f.Pub = last || g.rng.Chance(1, 2)
		if last || g.rng.Chance(3, 5) {
			f.Effect = "!"
		}
		np := g.rng.Intn(4)
		for j := 0; j < np; j++ {
			// public functions: refined parameters only on impure void functions
			// (the generated run-time argument check does not compile otherwise;
			// that defect belongs to C11).
			f.Params = append(f.Params, Var{fmt.Sprintf("p%d", j), g.randScalarTy(false, 35)})
		}
		if g.rng.Chance(1, 2) || f.Effect == "" {
			ty := g.randScalarTy(false, 25)
			f.Ret = &ty
		}
		if f.Pub {
			refined := false
			for _, a := range f.Params {
				if a.T.Lo != nil || a.T.Hi != nil {
					refined = true
				}
			}
			if refined && (f.Ret != nil || f.Effect == "") {
				if f.Effect == "" || g.rng.Chance(1, 2) {
					for j := range f.Params {
						f.Params[j].T.Lo, f.Params[j].T.Hi = nil, nil
					}
				} else {
					f.Ret = nil
				}
			}
		}
		nl := 1 + g.rng.Intn(4)
		for j := 0; j < nl; j++ {
			g.newLocal(g.randScalarTy(true, 35))
		}
		if g.rng.Chance(1, 6) {
			ty := Ty{Base: g.pick([]string{"u8", "u32"}), ArrLen: arrLens[g.rng.Intn(6)]}
			if g.rng.Chance(1, 3) {
				ty.Hi = bi(int64(1 + g.rng.Intn(7)))
				if g.rng.Chance(1, 2) {
					ty.Lo = bi(1) // zero-initialised storage of a type that excludes 0
				}
			}
			g.newLocal(ty)
		}
		if f.Ret != nil {
			lo, hi := f.Ret.Bounds()
			f.Final = "0"
			if lo.Sign() > 0 || hi.Sign() < 0 {
				f.Final = lo.String()
			}
		}
		p.Funcs = append(p.Funcs, f)
		if !g.accepted() {
			// e.g. a local array whose element type excludes zero (after the repair)
			f.Locals = f.Locals[:nl]
			g.nTmp = nl
			if !g.accepted() {
				g.count("skeleton-rejected")
				p.Funcs = p.Funcs[:len(p.Funcs)-1]
				continue
			}
		}
		g.block(&f.Body, 0, 3+g.rng.Intn(8))
		if f.Ret != nil {
			// a more interesting final return, if the checker takes it
			old := f.Final
			f.Final = g.expr(g.scope(), f.Ret.Base, 1)
			if !g.accepted() {
				f.Final = old
			}
		}
	}
	return p
}

// ---- mutation stream ("near-miss" edits of an accepted program)

func cloneStmts(ss []*Stmt) []*Stmt {
	if ss == nil {
		return nil
	}
	out := make([]*Stmt, len(ss))
	for i, s := range ss {
		c := *s
		c.Body = cloneStmts(s.Body)
		c.Else = cloneStmts(s.Else)
		out[i] = &c
	}
	return out
}

func (p *Prog) Clone() *Prog {
	q := &Prog{Consts: append([]Const(nil), p.Consts...), Fields: append([]Var(nil), p.Fields...)}
	for _, f := range p.Funcs {
		c := *f
		c.Params = append([]Var(nil), f.Params...)
		c.Locals = append([]Var(nil), f.Locals...)
		c.Body = cloneStmts(f.Body)
		q.Funcs = append(q.Funcs, &c)
	}
	return q
}

func allStmts(ss []*Stmt, out *[]*Stmt) {
	for _, s := range ss {
		*out = append(*out, s)
		allStmts(s.Body, out)
		allStmts(s.Else, out)
	}
}

var reNum = regexp.MustCompile(`\b[0-9]+\b`)

// Mutate returns a near-miss variant of p (off-by-one constant, flipped
// comparison, swapped operator, dropped guard, changed refinement), or nil.
func (g *Gen) Mutate(p *Prog) (*Prog, string) {
	q := p.Clone()
	var all []*Stmt
	for _, f := range q.Funcs {
		allStmts(f.Body, &all)
	}
	if len(all) == 0 {
		return nil, ""
	}
	for attempt := 0; attempt < 8; attempt++ {
		s := all[g.rng.Intn(len(all))]
		switch g.rng.Intn(6) {
		case 0, 1: // off-by-one in a constant
			locs := reNum.FindAllStringIndex(s.Text, -1)
			if len(locs) == 0 {
				continue
			}
			l := locs[g.rng.Intn(len(locs))]
			n, _ := new(big.Int).SetString(s.Text[l[0]:l[1]], 10)
			if g.rng.Bool() || n.Sign() == 0 {
				n.Add(n, bi(1))
			} else {
				n.Sub(n, bi(1))
			}
			s.Text = s.Text[:l[0]] + n.String() + s.Text[l[1]:]
			return q, "const-off-by-one"
		case 2: // flip a comparison
			for _, pr := range [][2]string{{" < ", " <= "}, {" <= ", " < "}, {" > ", " >= "}, {" >= ", " > "}, {" == ", " <> "}} {
				if strings.Contains(s.Text, pr[0]) {
					s.Text = strings.Replace(s.Text, pr[0], pr[1], 1)
					return q, "cmp-flip"
				}
			}
		case 3: // swap an operator
			for _, pr := range [][2]string{{" + ", " - "}, {" - ", " + "}, {" ~mod+ ", " + "}, {" >> ", " << "}, {" & ", " | "}, {" += ", " -= "}, {" -= ", " += "}, {" ~mod<< ", " << "}} {
				if strings.Contains(s.Text, pr[0]) {
					s.Text = strings.Replace(s.Text, pr[0], pr[1], 1)
					return q, "op-swap"
				}
			}
		case 4: // drop a guard: the condition becomes a tautology on another variable
			if s.Kind == "if" {
				s.Text = "0 == 0"
				return q, "guard-dropped"
			}
		case 5: // widen a refinement of a field / parameter / local
			f := q.Funcs[g.rng.Intn(len(q.Funcs))]
			var vs []*Var
			for i := range f.Params {
				vs = append(vs, &f.Params[i])
			}
			for i := range f.Locals {
				vs = append(vs, &f.Locals[i])
			}
			for i := range q.Fields {
				vs = append(vs, &q.Fields[i])
			}
			var rs []*Var
			for _, v := range vs {
				if v.T.Hi != nil {
					rs = append(rs, v)
				}
			}
			if len(rs) == 0 {
				continue
			}
			v := rs[g.rng.Intn(len(rs))]
			v.T.Hi = new(big.Int).Add(v.T.Hi, bi(1))
			if _, hi := baseBounds(v.T.Base); v.T.Hi.Cmp(hi) > 0 {
				v.T.Hi = nil
			}
			return q, "refinement-widened"
		}
	}
	return nil, ""
}

// ---- call histories

type Call struct {
	Fn   *Func
	Args []*big.Int
}

func (g *Gen) argValue(t Ty) *big.Int {
	lo, hi := baseBounds(t.Base)
	rl, rh := t.Bounds()
	cands := []*big.Int{lo, hi, rl, rh, bi(0), bi(1),
		new(big.Int).Add(rh, bi(1)), new(big.Int).Sub(rl, bi(1)),
		new(big.Int).Sub(hi, bi(1)), bi(interestingHi[g.rng.Intn(len(interestingHi))]),
		bi(int64(g.rng.Intn(300))), new(big.Int).SetUint64(g.rng.Uint64())}
	for {
		v := cands[g.rng.Intn(len(cands))]
		if g.rng.Chance(1, 3) {
			// inside the refinement
			w := new(big.Int).Sub(rh, rl)
			w.Add(w, bi(1))
			v = new(big.Int).SetUint64(g.rng.Uint64())
			v.Mod(v, w)
			v.Add(v, rl)
		}
		if v.Cmp(lo) >= 0 && v.Cmp(hi) <= 0 {
			return v
		}
	}
}

func (g *Gen) History(p *Prog) []Call {
	var pubs []*Func
	for _, f := range p.Funcs {
		if f.Pub {
			pubs = append(pubs, f)
		}
	}
	if len(pubs) == 0 {
		return nil
	}
	n := 1 + g.rng.Intn(5)
	var h []Call
	for i := 0; i < n; i++ {
		f := pubs[g.rng.Intn(len(pubs))]
		c := Call{Fn: f}
		for _, a := range f.Params {
			c.Args = append(c.Args, g.argValue(a.T))
		}
		h = append(h, c)
	}
	return h
}

func historyString(h []Call) string {
	var parts []string
	for _, c := range h {
		as := []string{}
		for _, v := range c.Args {
			as = append(as, v.String())
		}
		parts = append(parts, c.Fn.Name+"("+strings.Join(as, ",")+")")
	}
	return strings.Join(parts, " ")
}

// ConstProbe builds a program that combines ONE named constant K of type `base`
// with a run-time argument through every arithmetic operator, in both operand
// positions: `this.r = K op args.a` / `this.r = args.a op K`, one impure void
// method each (the generated C writes a constant operand as a bare literal whose
// C type depends on the value, not on the Wuffs type: shifts and conversions
// are where that matters). A method is kept iff the checker accepts it; the
// returned histories call every kept method on the extremes of its parameter.
func (g *Gen) ConstProbe(base string, k *big.Int) (*Prog, []string) {
	p := &Prog{Consts: []Const{{"K0", base, k}}, Fields: []Var{{"r", Ty{Base: base}}, {"a0", Ty{Base: "u8", ArrLen: 2}}}}
	g.p = p
	bits := baseInfo[base].Bits
	_, hi := baseBounds(base)
	var hists []string
	add := func(text string, pty Ty) bool {
		f := &Func{Name: fmt.Sprintf("c%d", len(p.Funcs)), Pub: true, Effect: "!", Params: []Var{{"a", pty}}}
		f.Body = []*Stmt{{Kind: "simple", Text: "this.r = " + text, Tag: "const-probe"}}
		g.fn = f
		p.Funcs = append(p.Funcs, f)
		if !g.accepted() {
			p.Funcs = p.Funcs[:len(p.Funcs)-1]
			g.count("constprobe:rejected")
			return false
		}
		g.count("constprobe:kept")
		lo, phi := pty.Bounds()
		mid := new(big.Int).Add(lo, phi)
		mid.Rsh(mid, 1)
		var calls []string
		for _, v := range []*big.Int{lo, phi, mid, new(big.Int).Sub(phi, bi(1))} {
			if v.Cmp(lo) >= 0 && v.Cmp(phi) <= 0 {
				calls = append(calls, fmt.Sprintf("%s(%s)", f.Name, v.String()))
			}
		}
		hists = append(hists, strings.Join(calls, " "))
		return true
	}
	for _, op := range arithOps {
		for pos := 0; pos < 2; pos++ {
			l, r := "K0", "args.a"
			if pos == 1 {
				l, r = r, l
			}
			// parameter types to try, most general first
			var tys []Ty
			shift := op == "<<" || op == ">>" || op == "~mod<<"
			switch {
			case shift && pos == 0:
				tys = []Ty{{Base: "u32", Hi: bi(int64(bits - 1))}, {Base: "u32", Hi: bi(int64(bits / 2))}, {Base: "u32", Hi: bi(1)}}
			case shift:
				tys = nil // `args.a << K`: K would have to be below the width; covered by the generator's literals
				if k.Cmp(bi(int64(bits))) < 0 {
					tys = []Ty{{Base: base}, {Base: base, Hi: bi(1)}}
				}
			case op == "/" || op == "%":
				if pos == 0 {
					tys = []Ty{{Base: base, Lo: bi(1)}}
				} else if k.Sign() > 0 {
					tys = []Ty{{Base: base}}
				}
			case op == "-" && pos == 0:
				tys = []Ty{{Base: base, Hi: k}}
			case op == "-":
				tys = []Ty{{Base: base, Lo: k}}
			default:
				tys = []Ty{{Base: base}, {Base: base, Hi: new(big.Int).Sub(hi, k)}, {Base: base, Hi: bi(3)}, {Base: base, Hi: bi(1)}}
			}
			for _, ty := range tys {
				if ty.Hi != nil && ty.Hi.Sign() < 0 {
					continue
				}
				if ty.Lo != nil && ty.Hi == nil && ty.Lo.Cmp(hi) > 0 {
					continue
				}
				if add(paren(l)+" "+op+" "+paren(r), ty) {
					break
				}
			}
		}
	}
	// conversions of the constant combined with the argument in a wider type
	if base != "u64" {
		add("((K0 as base.u64) >> (args.a as base.u32)) as base."+base, Ty{Base: "u32", Hi: bi(63)})
	}
	return p, hists
}
