package main

// I/O pre-condition probes (property C01, mechanism "pre-conditions of unchecked
// I/O built-ins": bcheckExprCallSpecialCases / ioMethodAdvances / optimizeIOMethodAdvance).
//
// For every unchecked peek / poke / write_fast method the NAME states how many
// bytes it touches (peek_u56le_as_u64: 56 bits = 7 bytes). Two families of tiny
// programs are built for each method and receiver kind (io_reader, io_writer,
// slice base.u8):
//
//   - guarded by `recv.length() >= bytes`: must be ACCEPTED, and the generated C,
//     run under ASan+UBSan on a heap buffer of EXACTLY `bytes` bytes, must not
//     trap and must read / write the documented value;
//   - guarded by `recv.length() >= bytes-1` (near miss): must be REJECTED. One
//     that is accepted is compiled and run on a buffer of bytes-1 bytes, where
//     the sanitizer shows the out-of-bounds access.
//
// The byte counts come from the method names, not from the checker's table, so
// a wrong table row shows up as an accepted near miss with a concrete input.

import (
	"fmt"
	"os"
	"path/filepath"
	"regexp"
	"sort"
	"strconv"
	"strings"
	"time"

	"github.com/google/wuffs/lang/check"
	"wvh/hlib"
)

type ioProbe struct {
	Kind   string // "reader" | "writer" | "slice"
	Method string
	Bytes  int
	Fn     string // wuffs method name of the probe
	Write  bool
	BE     bool
}

var reWidth = regexp.MustCompile(`_u([0-9]+)(be|le)?`)

func ioMethodShape(name string) (bits int, be bool, ok bool) {
	m := reWidth.FindStringSubmatch(name)
	if m == nil {
		return 0, false, false
	}
	bits, _ = strconv.Atoi(m[1])
	return bits, m[2] == "be", bits%8 == 0 && bits >= 8 && bits <= 64
}

func ioPattern(bits int) uint64 {
	v := uint64(0x0807060504030201)
	if bits < 64 {
		v &= (uint64(1) << uint(bits)) - 1
	}
	return v
}

// probeSource renders one probe method (guard = the length the guard demands).
func (p *ioProbe) source(fn string, guard int) string {
	switch {
	case p.Kind == "reader":
		return fmt.Sprintf("pub func foo.%s!(src: base.io_reader) base.u64 {\n    if args.src.length() >= %d {\n        return args.src.%s() as base.u64\n    }\n    return 0\n}\n", fn, guard, p.Method)
	case p.Kind == "slice" && !p.Write:
		return fmt.Sprintf("pub func foo.%s!(s: slice base.u8) base.u64 {\n    if args.s.length() >= %d {\n        return args.s.%s() as base.u64\n    }\n    return 0\n}\n", fn, guard, p.Method)
	case p.Kind == "slice":
		return fmt.Sprintf("pub func foo.%s!(s: slice base.u8) {\n    if args.s.length() >= %d {\n        args.s.%s!(a: %d)\n    }\n}\n", fn, guard, p.Method, ioPattern(p.Bytes*8))
	default:
		return fmt.Sprintf("pub func foo.%s!(dst: base.io_writer) {\n    if args.dst.length() >= %d {\n        args.dst.%s!(a: %d)\n    }\n}\n", fn, guard, p.Method, ioPattern(p.Bytes*8))
	}
}

const ioProbeHeader = "pub struct foo?(\n    x : base.u32,\n)\n\n"

// cCall renders the C driver of one probe: buffer of exactly n bytes on the heap.
func (p *ioProbe) cDriver(pkg, fn string) string {
	f := "wuffs_" + pkg + "__foo"
	var b strings.Builder
	fmt.Fprintf(&b, "static int drv_%s(size_t n) {\n  %s f;\n  if (%s__initialize(&f, sizeof f, WUFFS_VERSION, 0).repr) { printf(\"init-failed\\n\"); return 3; }\n", fn, f, f)
	b.WriteString("  uint8_t* p = (uint8_t*)malloc(n ? n : 1);\n  for (size_t i = 0; i < n; i++) { p[i] = (uint8_t)(i + 1); }\n")
	switch {
	case p.Kind == "reader":
		fmt.Fprintf(&b, "  wuffs_base__io_buffer b = wuffs_base__ptr_u8__reader(p, n, true);\n  uint64_t v = %s__%s(&f, &b);\n  printf(\"v %%llu\\n\", (unsigned long long)v);\n", f, fn)
	case p.Kind == "slice" && !p.Write:
		fmt.Fprintf(&b, "  uint64_t v = %s__%s(&f, wuffs_base__make_slice_u8(p, n));\n  printf(\"v %%llu\\n\", (unsigned long long)v);\n", f, fn)
	case p.Kind == "slice":
		fmt.Fprintf(&b, "  memset(p, 0, n ? n : 1);\n  %s__%s(&f, wuffs_base__make_slice_u8(p, n));\n  printf(\"w\"); for (size_t i = 0; i < n; i++) { printf(\" %%u\", (unsigned)p[i]); } printf(\"\\n\");\n", f, fn)
	default:
		fmt.Fprintf(&b, "  memset(p, 0, n ? n : 1);\n  wuffs_base__io_buffer b = wuffs_base__ptr_u8__writer(p, n);\n  %s__%s(&f, &b);\n  printf(\"w\"); for (size_t i = 0; i < n; i++) { printf(\" %%u\", (unsigned)p[i]); } printf(\" wi %%llu\\n\", (unsigned long long)b.meta.wi);\n", f, fn)
	}
	b.WriteString("  fflush(stdout);\n  free(p);\n  return 0;\n}\n")
	return b.String()
}

// expected output of the driver on a buffer of exactly Bytes bytes.
func (p *ioProbe) expected() string {
	n := p.Bytes
	if !p.Write {
		var v uint64
		for i := 0; i < n; i++ {
			by := uint64(i + 1)
			if p.BE {
				v = v<<8 | by
			} else {
				v |= by << uint(8*i)
			}
		}
		return fmt.Sprintf("v %d", v)
	}
	pat := ioPattern(n * 8)
	out := "w"
	for i := 0; i < n; i++ {
		sh := uint(8 * i)
		if p.BE {
			sh = uint(8 * (n - 1 - i))
		}
		out += fmt.Sprintf(" %d", (pat>>sh)&0xFF)
	}
	if p.Kind == "writer" {
		out += fmt.Sprintf(" wi %d", n)
	}
	return out
}

func buildIOProbeExe(tools *cTools, dir, pkg, src string, probes []*ioProbe, fns []string) (string, error) {
	cp := &CProg{Pkg: pkg, Src: src}
	body, err := genC(tools.wuffsC, dir, cp)
	if err != nil {
		return "", err
	}
	var b strings.Builder
	fmt.Fprintf(&b, "#define WUFFS_IMPLEMENTATION\n#define WUFFS_CONFIG__MODULES\n#define WUFFS_CONFIG__MODULE__%s\n#include %q\n#include <stdio.h>\n#include <stdlib.h>\n#include <string.h>\n", strings.ToUpper(pkg), tools.baseC)
	b.WriteString(body)
	b.WriteString("\n")
	for i, p := range probes {
		b.WriteString(p.cDriver(pkg, fns[i]))
	}
	b.WriteString("int main(int argc, char** argv) {\n  if (argc < 3) return 2;\n  int which = atoi(argv[1]); size_t n = (size_t)atoi(argv[2]);\n  switch (which) {\n")
	for i := range probes {
		fmt.Fprintf(&b, "    case %d: return drv_%s(n);\n", i, fns[i])
	}
	b.WriteString("  }\n  return 2;\n}\n")
	cfile := filepath.Join(dir, pkg+".c")
	exe := filepath.Join(dir, pkg+".exe")
	if err := os.WriteFile(cfile, []byte(b.String()), 0o644); err != nil {
		return "", err
	}
	args := []string{"-O0", "-g0", "-w", "-fsanitize=address,undefined", "-fno-sanitize-recover=all"}
	if sanRuntimeDir != "" {
		args = append(args, "-shared-libsan", "-Wl,-rpath,"+sanRuntimeDir)
	}
	if err := hlib.CC("clang", append(args, "-o", exe, cfile, tools.baseO)...); err != nil {
		return "", fmt.Errorf("cc: %s", ccFirstError(err.Error()))
	}
	return exe, nil
}

func runIOProbeCase(exe string, which, n int) (out, trap, msg string) {
	env := []string{"ASAN_OPTIONS=detect_leaks=0:abort_on_error=0", "UBSAN_OPTIONS=print_stacktrace=0"}
	stdout, stderr, err := hlib.RunCmd(60*time.Second, "", env, nil, exe, fmt.Sprint(which), fmt.Sprint(n))
	out = strings.TrimSpace(string(stdout))
	if err != nil {
		trap, msg = sanitizerClass(string(stderr))
		if strings.Contains(err.Error(), "timeout") {
			trap, msg = "timeout", "probe did not finish"
		}
	}
	return out, trap, msg
}

// runIOProbes is the whole family; ops for the model: `ioadv <method>` -> "<bytes> <update>".
func runIOProbes(r *hlib.Run, fr *Front, tools *cTools) {
	rows := check.VerifIOMethodAdvances()
	var probes []*ioProbe
	for _, row := range rows {
		r.Op("ioadv "+row.Method, fmt.Sprintf("%s %v", row.Advance.String(), row.Update))
		r.Count("ioprobe:table-rows")
		bits, be, ok := ioMethodShape(row.Method)
		if !ok {
			r.Count("ioprobe:method-without-byte-width")
			continue
		}
		kinds := []string{}
		switch {
		case strings.HasPrefix(row.Method, "peek_"):
			kinds = []string{"reader", "slice"}
		case strings.HasPrefix(row.Method, "poke_"):
			kinds = []string{"slice"}
		case strings.HasPrefix(row.Method, "write_") && strings.HasSuffix(row.Method, "_fast"):
			kinds = []string{"writer"}
		}
		for _, k := range kinds {
			probes = append(probes, &ioProbe{Kind: k, Method: row.Method, Bytes: bits / 8, Write: !strings.HasPrefix(row.Method, "peek_"), BE: be})
		}
	}
	sort.SliceStable(probes, func(i, j int) bool { return probes[i].Kind+probes[i].Method < probes[j].Kind+probes[j].Method })

	var good, miss []*ioProbe
	var goodFns, missFns []string
	for i, p := range probes {
		fn := fmt.Sprintf("p%d", i)
		_, err := fr.Fast(ioProbeHeader + p.source(fn, p.Bytes))
		if err != nil {
			if cls := errClass(err); cls == "rej:type" || cls == "rej:parse" {
				r.Count("ioprobe:no-such-method:" + p.Kind) // e.g. slices have no peek_u8_as_u32
				continue
			}
			r.Count("ioprobe:documented-guard-rejected")
			r.Fail("ioprobe:documented-guard-rejected:"+p.Kind+"."+p.Method,
				fmt.Sprintf("%s.%s guarded by length() >= %d (the bytes its name says it touches) is rejected: %s", p.Kind, p.Method, p.Bytes, firstLine(err.Error())),
				ioProbeHeader+p.source(fn, p.Bytes))
			continue
		}
		r.Count("ioprobe:documented-guard-accepted")
		good, goodFns = append(good, p), append(goodFns, fn)
		// near miss: one byte less is demanded
		if _, err := fr.Fast(ioProbeHeader + p.source(fn, p.Bytes-1)); err == nil {
			miss, missFns = append(miss, p), append(missFns, fn)
		} else {
			r.Count("ioprobe:near-miss-rejected")
		}
	}
	r.Extra("ioprobe_programs", len(good))

	dir, cleanup := hlib.NewScratchDir("c01io")
	defer cleanup()
	if tools == nil {
		r.Count("ioprobe:no-c-tools")
		return
	}
	if len(good) > 0 {
		var src strings.Builder
		src.WriteString(ioProbeHeader)
		for i, p := range good {
			src.WriteString(p.source(goodFns[i], p.Bytes))
			src.WriteString("\n")
		}
		exe, err := buildIOProbeExe(tools, dir, "iopg", src.String(), good, goodFns)
		if err != nil {
			r.Fail("ioprobe:build", "the package of accepted I/O probes does not build: "+err.Error(), src.String())
		} else {
			for i, p := range good {
				out, trap, msg := runIOProbeCase(exe, i, p.Bytes)
				replay := fmt.Sprintf("// %s.%s on a buffer of exactly %d bytes\n%s%s", p.Kind, p.Method, p.Bytes, ioProbeHeader, p.source(goodFns[i], p.Bytes))
				switch {
				case trap != "":
					r.Fail("ioprobe:trap:"+p.Kind+"."+p.Method, fmt.Sprintf("accepted %s.%s guarded by length() >= %d trapped on a %d-byte buffer: %s: %s", p.Kind, p.Method, p.Bytes, p.Bytes, trap, msg), replay)
				case out != p.expected():
					r.Fail("ioprobe:value:"+p.Kind+"."+p.Method, fmt.Sprintf("%s.%s on bytes 1..%d: got %q, want %q", p.Kind, p.Method, p.Bytes, out, p.expected()), replay)
				default:
					r.Count("ioprobe:exact-buffer-ok")
				}
			}
		}
	}
	for i, p := range miss {
		one := ioProbeHeader + p.source(missFns[i], p.Bytes-1)
		desc := fmt.Sprintf("%s.%s touches %d bytes but is accepted under the guard length() >= %d", p.Kind, p.Method, p.Bytes, p.Bytes-1)
		if exe, err := buildIOProbeExe(tools, dir, fmt.Sprintf("iopm%d", i), one, []*ioProbe{p}, []string{missFns[i]}); err == nil {
			if _, trap, msg := runIOProbeCase(exe, 0, p.Bytes-1); trap != "" {
				desc += fmt.Sprintf("; generated C on a %d-byte buffer: %s: %s", p.Bytes-1, trap, msg)
			}
		}
		r.Fail("ioprobe:insufficient-guard-accepted:"+p.Kind+"."+p.Method, desc,
			fmt.Sprintf("// run the method on a buffer of exactly %d bytes\n%s", p.Bytes-1, one))
	}
}
