package main

// C side of the oracle: wuffs-c (built from the working tree) generates C for
// each accepted program, a generated main performs the call histories, clang
// builds it with -fsanitize=address,undefined -fno-sanitize-recover=all on top
// of the base module of the regenerated snapshot. Several programs share one
// translation unit (the base module dominates the compile time).

import (
	"fmt"
	"math/big"
	"os"
	"path/filepath"
	"regexp"
	"strings"
	"time"

	"wvh/hlib"
)

// CProg is what the C side needs to know about a program.
type CProg struct {
	Pkg    string // C package name, unique within a batch
	Src    string
	Fields []Var
	Hists  [][]Call
	Skip   []bool // histories the C main leaves out (the interpreter ran out of fuel on them)
	Solo   []bool // histories run only on request (`only` mode): a monitor fired in the interpreter
}

var cTypes = map[string]string{"u8": "uint8_t", "u16": "uint16_t", "u32": "uint32_t", "u64": "uint64_t",
	"i8": "int8_t", "i16": "int16_t", "i32": "int32_t", "i64": "int64_t", "bool": "bool"}

func cLiteral(base string, v *big.Int) string {
	if base == "bool" {
		if v.Sign() != 0 {
			return "true"
		}
		return "false"
	}
	if baseInfo[base].Signed {
		if v.Sign() < 0 {
			w := new(big.Int).Add(v, big.NewInt(1))
			return fmt.Sprintf("((%s)(-INT64_C(%s) - 1))", cTypes[base], new(big.Int).Neg(w).String())
		}
		return fmt.Sprintf("((%s)INT64_C(%s))", cTypes[base], v.String())
	}
	return fmt.Sprintf("((%s)UINT64_C(%s))", cTypes[base], v.String())
}

func cPrint(base string, expr string) string {
	switch {
	case base == "bool":
		return fmt.Sprintf(`"%%d", (int)(%s)`, expr)
	case baseInfo[base].Signed:
		return fmt.Sprintf(`"%%lld", (long long)(%s)`, expr)
	}
	return fmt.Sprintf(`"%%llu", (unsigned long long)(%s)`, expr)
}

const markAbove = "// ¡ WUFFS MONOLITHIC RELEASE DISCARDS EVERYTHING ABOVE."
const markBelow = "// ¡ WUFFS MONOLITHIC RELEASE DISCARDS EVERYTHING BELOW."

// genC runs wuffs-c for one program and returns the package body.
func genC(wuffsC, dir string, cp *CProg) (string, error) {
	path := filepath.Join(dir, cp.Pkg+".wuffs")
	if err := os.WriteFile(path, []byte(cp.Src), 0o644); err != nil {
		return "", err
	}
	out, stderr, err := hlib.GenPkg(wuffsC, cp.Pkg, path)
	if err != nil {
		return "", fmt.Errorf("wuffs-c gen: %v: %s", err, firstLine(string(stderr)))
	}
	s := string(out)
	i, j := strings.Index(s, markAbove), strings.Index(s, markBelow)
	if i < 0 || j < 0 {
		return "", fmt.Errorf("wuffs-c output lacks the monolithic markers")
	}
	return s[i:j], nil
}

func firstLine(s string) string {
	if i := strings.IndexByte(s, '\n'); i >= 0 {
		return s[:i]
	}
	return s
}

func cMainFor(cp *CProg) string {
	var b strings.Builder
	pk := "wuffs_" + cp.Pkg + "__foo"
	fmt.Fprintf(&b, "static void dump_%s(%s* f) {\n  printf(\"s\");\n", cp.Pkg, pk)
	for _, fl := range cp.Fields {
		acc := "f->private_impl.f_" + fl.Name
		if fl.T.ArrLen > 0 {
			fmt.Fprintf(&b, "  for (int i = 0; i < %d; i++) { printf(i ? \",\" : \" \"); printf(%s); }\n", fl.T.ArrLen, cPrint(fl.T.Base, acc+"[i]"))
		} else {
			fmt.Fprintf(&b, "  printf(\" \"); printf(%s);\n", cPrint(fl.T.Base, acc))
		}
	}
	fmt.Fprintf(&b, "  printf(\"\\n\"); fflush(stdout);\n}\n")
	fmt.Fprintf(&b, "static int run_%s(int from, int only) {\n", cp.Pkg)
	for hi, h := range cp.Hists {
		if hi < len(cp.Skip) && cp.Skip[hi] {
			continue
		}
		cond := fmt.Sprintf("only ? (from == %d) : (from <= %d)", hi, hi)
		if hi < len(cp.Solo) && cp.Solo[hi] {
			cond = fmt.Sprintf("only && (from == %d)", hi)
		}
		fmt.Fprintf(&b, "  if (%s) {\n    %s f;\n    printf(\"H %d\\n\"); fflush(stdout);\n", cond, pk, hi)
		fmt.Fprintf(&b, "    if (%s__initialize(&f, sizeof f, WUFFS_VERSION, 0).repr) { printf(\"init-failed\\n\"); return 3; }\n", pk)
		for _, c := range h {
			args := []string{"&f"}
			for i, v := range c.Args {
				args = append(args, cLiteral(c.Fn.Params[i].T.Base, v))
			}
			call := fmt.Sprintf("%s__%s(%s)", pk, c.Fn.Name, strings.Join(args, ", "))
			if c.Fn.Ret == nil {
				fmt.Fprintf(&b, "    %s; printf(\"r -\\n\");", call)
			} else {
				fmt.Fprintf(&b, "    { %s r = %s; printf(\"r \"); printf(%s); printf(\"\\n\"); }", cTypes[c.Fn.Ret.Base], call, cPrint(c.Fn.Ret.Base, "r"))
			}
			fmt.Fprintf(&b, " dump_%s(&f);\n", cp.Pkg)
		}
		fmt.Fprintf(&b, "  }\n")
	}
	fmt.Fprintf(&b, "  return 0;\n}\n")
	return b.String()
}

// buildBatch writes and compiles one translation unit for the batch.
// A program whose C does not compile alone is reported in bad (and left out).
func buildBatch(snapshot, baseO, wuffsC, dir, name string, batch []*CProg) (exe string, idx map[string]int, bad map[string]string, err error) {
	bad = map[string]string{}
	idx = map[string]int{}
	bodies := map[string]string{}
	for _, cp := range batch {
		body, e := genC(wuffsC, dir, cp)
		if e != nil {
			bad[cp.Pkg] = "wuffs-c: " + e.Error()
			continue
		}
		bodies[cp.Pkg] = body
	}
	write := func(file string, progs []*CProg) {
		var b strings.Builder
		b.WriteString("#define WUFFS_IMPLEMENTATION\n#define WUFFS_CONFIG__MODULES\n")
		for _, cp := range progs {
			fmt.Fprintf(&b, "#define WUFFS_CONFIG__MODULE__%s\n", strings.ToUpper(cp.Pkg))
		}
		fmt.Fprintf(&b, "#include %q\n#include <stdio.h>\n#include <stdlib.h>\n", snapshot)
		for _, cp := range progs {
			b.WriteString(bodies[cp.Pkg])
			b.WriteString("\n")
			b.WriteString(cMainFor(cp))
		}
		b.WriteString("int main(int argc, char** argv) {\n  if (argc < 4) return 2;\n  int which = atoi(argv[1]), from = atoi(argv[2]), only = atoi(argv[3]);\n  switch (which) {\n")
		for i, cp := range progs {
			fmt.Fprintf(&b, "    case %d: return run_%s(from, only);\n", i, cp.Pkg)
		}
		b.WriteString("  }\n  return 2;\n}\n")
		os.WriteFile(file, []byte(b.String()), 0o644)
	}
	compile := func(file, out string) error {
		args := []string{"-O0", "-g0", "-w", "-fsanitize=address,undefined", "-fno-sanitize-recover=all"}
		if sanRuntimeDir != "" {
			// dynamic sanitizer runtime: much faster link and process start
			args = append(args, "-shared-libsan", "-Wl,-rpath,"+sanRuntimeDir)
		}
		return hlib.CC("clang", append(args, "-o", out, file, baseO)...)
	}
	var good []*CProg
	for _, cp := range batch {
		if _, ok := bodies[cp.Pkg]; ok {
			good = append(good, cp)
		}
	}
	cfile := filepath.Join(dir, name+".c")
	exe = filepath.Join(dir, name+".exe")
	write(cfile, good)
	if e := compile(cfile, exe); e != nil {
		// isolate the program(s) whose generated C does not compile
		var ok []*CProg
		for _, cp := range good {
			one := filepath.Join(dir, name+"_"+cp.Pkg+".c")
			write(one, []*CProg{cp})
			if e1 := hlib.CC("clang", "-O0", "-g0", "-w", "-fsyntax-only", one); e1 != nil {
				bad[cp.Pkg] = "cc: " + ccFirstError(e1.Error())
			} else {
				ok = append(ok, cp)
			}
		}
		if len(ok) == len(good) {
			return "", idx, bad, fmt.Errorf("batch does not compile although each program does: %s", ccFirstError(e.Error()))
		}
		good = ok
		write(cfile, good)
		if e2 := compile(cfile, exe); e2 != nil {
			return "", idx, bad, fmt.Errorf("batch does not compile: %s", ccFirstError(e2.Error()))
		}
	}
	for i, cp := range good {
		idx[cp.Pkg] = i
	}
	return exe, idx, bad, nil
}

var reCCErr = regexp.MustCompile(`(?m)error: .*$`)

func ccFirstError(s string) string {
	if m := reCCErr.FindString(s); m != "" {
		return m
	}
	return firstLine(s)
}

// CHistResult is what the C run produced for one history.
type CHistResult struct {
	Lines []string // "r …" and "s …" lines
	Trap  string   // "" or a sanitizer / signal class
	Msg   string
}

var reSan = regexp.MustCompile(`runtime error: ([^\n]*)|ERROR: AddressSanitizer: ([a-z-]+)`)

func sanitizerClass(stderr string) (cls, msg string) {
	m := reSan.FindStringSubmatch(stderr)
	if m == nil {
		return "crash", firstLine(stderr)
	}
	if m[2] != "" {
		return "asan:" + m[2], m[0]
	}
	txt := m[1]
	switch {
	case strings.Contains(txt, "out of bounds"):
		return "ubsan:index-out-of-bounds", txt
	case strings.Contains(txt, "shift exponent"):
		return "ubsan:shift-exponent", txt
	case strings.Contains(txt, "division by zero"):
		return "ubsan:division-by-zero", txt
	case strings.Contains(txt, "overflow"):
		return "ubsan:signed-overflow", txt
	case strings.Contains(txt, "left shift"):
		return "ubsan:left-shift", txt
	}
	return "ubsan:other", txt
}

// runProg runs the histories of program `which` of the batch executable: one
// sweep over the histories the interpreter completed (restarted after a trap),
// and one short run for each history on which a monitor fired.
func runProg(exe string, which int, nHist int, skip, solo []bool) []CHistResult {
	res := make([]CHistResult, nHist)
	env := []string{"ASAN_OPTIONS=detect_leaks=0:abort_on_error=0", "UBSAN_OPTIONS=print_stacktrace=0"}
	run := func(from int, only bool, timeout time.Duration) (last int, failed bool) {
		o := "0"
		if only {
			o = "1"
		}
		stdout, stderr, err := hlib.RunCmd(timeout, "", env, nil, exe, fmt.Sprint(which), fmt.Sprint(from), o)
		cur := -1
		for _, ln := range strings.Split(string(stdout), "\n") {
			if strings.HasPrefix(ln, "H ") {
				fmt.Sscanf(ln, "H %d", &cur)
				continue
			}
			if cur >= 0 && cur < nHist && ln != "" {
				res[cur].Lines = append(res[cur].Lines, ln)
			}
		}
		if err == nil {
			return cur, false
		}
		if cur < 0 {
			cur = from
		}
		cls, msg := sanitizerClass(string(stderr))
		if strings.Contains(err.Error(), "timeout") {
			cls, msg = "timeout", fmt.Sprintf("C run did not finish in %v", timeout)
		}
		res[cur].Trap, res[cur].Msg = cls, msg
		return cur, true
	}
	for from := 0; from < nHist; {
		last, failed := run(from, false, 60*time.Second)
		if !failed {
			break
		}
		from = last + 1
	}
	for hi := 0; hi < nHist; hi++ {
		if hi < len(solo) && solo[hi] {
			run(hi, true, 5*time.Second)
		}
	}
	return res
}

// sanRuntimeDir is where clang keeps libclang_rt.asan-x86_64.so ("" = link statically).
var sanRuntimeDir string

type cTools struct {
	wuffsC  string
	baseC   string
	baseO   string
	cleanup func()
}

// prepareC builds wuffs-c from the working tree and lets it generate the base
// module (what `wuffs gen` puts first into the snapshot).
func prepareC(repo string) (*cTools, error) {
	dir, cleanup := hlib.NewScratchDir("c01tools")
	if err := hlib.BuildTools(repo, dir, "wuffs-c"); err != nil {
		cleanup()
		return nil, err
	}
	if o, _, err := hlib.RunCmd(time.Minute, "", nil, nil, "clang", "-print-file-name=libclang_rt.asan-x86_64.so"); err == nil {
		if p := strings.TrimSpace(string(o)); filepath.IsAbs(p) {
			if _, err := os.Stat(p); err == nil {
				sanRuntimeDir = filepath.Dir(p)
			}
		}
	}
	ct := &cTools{wuffsC: filepath.Join(dir, "wuffs-c"), baseC: filepath.Join(dir, "wuffs-base.c"), cleanup: cleanup}
	out, stderr, err := hlib.RunCmd(5*time.Minute, "", nil, nil, ct.wuffsC, "gen", "-package_name", "base")
	if err != nil {
		cleanup()
		return nil, fmt.Errorf("wuffs-c gen -package_name base: %v: %s", err, firstLine(string(stderr)))
	}
	if err := os.WriteFile(ct.baseC, out, 0o644); err != nil {
		cleanup()
		return nil, err
	}
	// The base module's core is compiled once (with the sanitizers); each batch
	// includes the base declarations only and links against this object.
	core := filepath.Join(dir, "basecore.c")
	os.WriteFile(core, []byte("#define WUFFS_IMPLEMENTATION\n#define WUFFS_CONFIG__MODULES\n#define WUFFS_CONFIG__MODULE__BASE__CORE\n#include \"wuffs-base.c\"\n"), 0o644)
	ct.baseO = filepath.Join(dir, "basecore.o")
	if err := hlib.CC("clang", "-O0", "-g0", "-w", "-fsanitize=address,undefined", "-fno-sanitize-recover=all", "-c", "-o", ct.baseO, core); err != nil {
		cleanup()
		return nil, err
	}
	return ct, nil
}
