package main

// Call-graph stream for `checkNoRecursiveFuncs` (lang/check/check.go): random call
// graphs over 1..7 methods, rendered as a package whose method bodies are just
// the calls; the real checker's verdict (accepted / "recursive call chain") is
// compared with the Lean model's DFS (op `norec`), and an accepted graph must be
// acyclic (the property's own oracle, by an independent reachability check).

import (
	"fmt"
	"strings"

	"wvh/hlib"
)

type callGraph [][]int

func randGraph(rng *hlib.Rand) callGraph {
	n := 1 + rng.Intn(7)
	g := make(callGraph, n)
	dense := rng.Intn(4)
	for i := range g {
		k := rng.Intn(dense + 2)
		for j := 0; j < k; j++ {
			c := rng.Intn(n)
			if rng.Chance(3, 4) && c <= i && i+1 < n {
				c = i + 1 + rng.Intn(n-i-1) // mostly forward edges: many graphs stay acyclic
			}
			g[i] = append(g[i], c)
		}
	}
	return g
}

func (g callGraph) source() string {
	var b strings.Builder
	b.WriteString("pub struct foo?(\n    x : base.u32,\n)\n")
	for i, cs := range g {
		fmt.Fprintf(&b, "\npri func foo.g%d!() {\n", i)
		for _, c := range cs {
			fmt.Fprintf(&b, "    this.g%d!()\n", c)
		}
		b.WriteString("}\n")
	}
	return b.String()
}

func (g callGraph) op() string {
	parts := []string{"norec", fmt.Sprint(len(g))}
	for _, cs := range g {
		parts = append(parts, fmt.Sprint(len(cs)))
		for _, c := range cs {
			parts = append(parts, fmt.Sprint(c))
		}
	}
	return strings.Join(parts, " ")
}

// cyclic: independent check (iterated removal of sinks).
func (g callGraph) cyclic() bool {
	n := len(g)
	removed := make([]bool, n)
	for {
		progress := false
		for i := 0; i < n; i++ {
			if removed[i] {
				continue
			}
			sink := true
			for _, c := range g[i] {
				if !removed[c] {
					sink = false
				}
			}
			if sink {
				removed[i], progress = true, true
			}
		}
		if !progress {
			break
		}
	}
	for i := 0; i < n; i++ {
		if !removed[i] {
			return true
		}
	}
	return false
}

func runNoRec(r *hlib.Run, fr *Front, count int) {
	rng := r.Rand.Fork()
	for i := 0; i < count; i++ {
		g := randGraph(rng)
		src := g.source()
		_, err := fr.Fast(src)
		verdict := "ok"
		if err != nil {
			if strings.Contains(err.Error(), "recursive call chain") {
				verdict = "cycle"
			} else {
				verdict = "other-error"
				r.Note("norec: unexpected checker error: " + firstLine(err.Error()))
			}
		}
		r.Op(g.op(), verdict)
		r.Count("norec:" + verdict)
		if verdict == "ok" && g.cyclic() {
			r.Fail("recursion-accepted", "the checker accepted a package whose call graph has a cycle", src)
		}
		if verdict == "cycle" && !g.cyclic() {
			r.Count("norec:acyclic-graph-rejected")
			r.Note("norec: an acyclic call graph was rejected as recursive:\n" + src)
		}
	}
}
