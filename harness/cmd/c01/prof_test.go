package main

import (
	"fmt"
	"os"
	"strings"
	"testing"

	"wvh/hlib"
)

// go test -tags verif -run TestOne ./cmd/c01   with C01_FILE=path
func TestOne(t *testing.T) {
	path := os.Getenv("C01_FILE")
	if path == "" {
		t.Skip()
	}
	b, _ := os.ReadFile(path)
	var hs, body []string
	for _, ln := range strings.Split(string(b), "\n") {
		if strings.HasPrefix(ln, "// history:") {
			hs = append(hs, strings.TrimSpace(strings.TrimPrefix(ln, "// history:")))
		} else if !strings.HasPrefix(ln, "// expect:") && !strings.HasPrefix(ln, "origin:") {
			body = append(body, ln)
		}
	}
	fr := NewFront()
	g := &Gen{rng: hlib.NewRand(1), fr: fr, stats: map[string]int{}}
	res := runProgram(fr, g, 0, "file", strings.Join(body, "\n"), hs, len(hs))
	fmt.Println("accepted:", res.Accepted, res.RejClass, res.RealErr, res.Notes)
	for hi := range res.Hists {
		fmt.Println(historyString(res.Hists[hi]), "->", res.Expected[hi], res.Dropped[hi])
		if res.IFail[hi] != nil {
			fmt.Println("   FAIL", res.IFail[hi].Key, res.IFail[hi].Desc)
		}
	}
	fmt.Println(res.Stats)
	for _, o := range res.Ops {
		fmt.Println(o.op, " => ", o.impl)
	}
}
