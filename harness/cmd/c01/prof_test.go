package main

import (
	"fmt"
	"testing"
	"time"

	"wvh/hlib"
)

func TestGenSpeed(t *testing.T) {
	fr := NewFront()
	for i := 0; i < 5; i++ {
		g := &Gen{rng: hlib.NewRand(uint64(i + 1)), fr: fr, stats: map[string]int{}}
		t0 := time.Now()
		p := g.NewProgram()
		src, _ := p.Render(-1)
		n := 0
		for k, v := range g.stats {
			if len(k) > 5 && k[:5] == "cand:" {
				n += v
			}
		}
		fmt.Printf("prog %d: %v, %d checks, %d lines\n", i, time.Since(t0), n, len(src))
		if i == 0 {
			fmt.Println(src)
			fmt.Println(g.stats)
		}
	}
}
