package main

// Program representation used by the generator: a small tree that renders to
// Wuffs source text, one statement per line, so that (a) a candidate statement
// can be appended and withdrawn again when the real checker rejects it and
// (b) an `assert false` probe can be placed at any statement boundary to read
// the real checker's fact list there (check.Error.Facts).

import (
	"fmt"
	"math/big"
	"strings"
)

type Ty struct {
	Base   string   // u8 u16 u32 u64 i8 i16 i32 i64 bool
	Lo, Hi *big.Int // refinement (nil = none)
	ArrLen int      // >0: array[ArrLen] of the scalar type described by Base/Lo/Hi
}

func (t Ty) Scalar() Ty { return Ty{Base: t.Base, Lo: t.Lo, Hi: t.Hi} }

func (t Ty) IsBool() bool { return t.Base == "bool" }

func (t Ty) scalarString() string {
	s := "base." + t.Base
	if t.Lo != nil || t.Hi != nil {
		s += "["
		if t.Lo != nil {
			s += t.Lo.String() + " "
		}
		s += "..="
		if t.Hi != nil {
			s += " " + t.Hi.String()
		}
		s += "]"
	}
	return s
}

func (t Ty) String() string {
	if t.ArrLen > 0 {
		return fmt.Sprintf("array[%d] %s", t.ArrLen, t.scalarString())
	}
	return t.scalarString()
}

var baseInfo = map[string]struct {
	Bits   int
	Signed bool
}{
	"u8": {8, false}, "u16": {16, false}, "u32": {32, false}, "u64": {64, false},
	"i8": {8, true}, "i16": {16, true}, "i32": {32, true}, "i64": {64, true},
	"bool": {1, false},
}

func baseBounds(base string) (lo, hi *big.Int) {
	bi := baseInfo[base]
	if base == "bool" {
		return big.NewInt(0), big.NewInt(1)
	}
	if bi.Signed {
		lo = new(big.Int).Lsh(big.NewInt(-1), uint(bi.Bits-1))
		hi = new(big.Int).Lsh(big.NewInt(1), uint(bi.Bits-1))
		hi.Sub(hi, big.NewInt(1))
		return lo, hi
	}
	hi = new(big.Int).Lsh(big.NewInt(1), uint(bi.Bits))
	hi.Sub(hi, big.NewInt(1))
	return big.NewInt(0), hi
}

// Bounds of the (scalar part of the) type, refinement applied.
func (t Ty) Bounds() (lo, hi *big.Int) {
	lo, hi = baseBounds(t.Base)
	if t.Lo != nil {
		lo = t.Lo
	}
	if t.Hi != nil {
		hi = t.Hi
	}
	return lo, hi
}

type Var struct {
	Name string // source text that denotes it: "x", "args.a", "this.f"
	T    Ty
}

type Stmt struct {
	Kind string // "simple" | "if" | "while"
	Text string // simple: the line; if: condition; while: "cond, inv …, post …" (header without braces)
	Body []*Stmt
	Else []*Stmt // if only; nil = no else
	Term bool    // simple statement that terminates the block (return/break/continue)
	Tag  string  // generator bookkeeping (what kind of candidate this was)
}

type Func struct {
	Name   string
	Pub    bool
	Effect string // "" or "!"
	Params []Var  // Name without "args."
	Ret    *Ty
	Locals []Var
	Body   []*Stmt
	Final  string // final return expression text ("" for void)
}

// Const is a named package-level constant `pri const NAME : base.T = VALUE`.
type Const struct {
	Name  string
	Base  string
	Value *big.Int
}

type Prog struct {
	Consts []Const
	Fields []Var // Name without "this."
	Funcs  []*Func
}

// Point identifies a statement boundary in the rendered source.
type Point struct {
	End  bool // false: before the statement at Line; true: end of the block whose first statement is at Line
	Line int  // 1-based line in the un-probed rendering
}

type renderer struct {
	lines  []string
	probe  int // index of the point to put `assert false` at (-1: none)
	npts   int
	points []Point // filled when probe == -1
}

func (r *renderer) emit(indent int, s string) {
	r.lines = append(r.lines, strings.Repeat("    ", indent)+s)
}

func (r *renderer) point(indent int, p Point) {
	if r.probe == r.npts {
		r.emit(indent, "assert false")
	}
	if r.probe < 0 {
		r.points = append(r.points, p)
	}
	r.npts++
}

func (r *renderer) block(indent int, ss []*Stmt) {
	first := 0
	for i, s := range ss {
		if i == 0 {
			first = len(r.lines) + 1
		}
		r.point(indent, Point{false, len(r.lines) + 1})
		switch s.Kind {
		case "simple":
			r.emit(indent, s.Text)
		case "if":
			r.emit(indent, "if "+s.Text+" {")
			r.block(indent+1, s.Body)
			if s.Else != nil {
				r.emit(indent, "} else {")
				r.block(indent+1, s.Else)
			}
			r.emit(indent, "}")
		case "while":
			r.emit(indent, "while "+s.Text+" {")
			r.block(indent+1, s.Body)
			r.emit(indent, "}")
		}
	}
	if n := len(ss); n > 0 && !ss[n-1].Term {
		r.point(indent, Point{true, first})
	}
}

// Render returns the source text. probe = -1 renders the program itself and
// reports its statement boundaries; probe = k puts `assert false` at point k.
func (p *Prog) Render(probe int) (src string, points []Point) {
	r := &renderer{probe: probe}
	for _, c := range p.Consts {
		r.emit(0, fmt.Sprintf("pri const %s : base.%s = %s", c.Name, c.Base, c.Value.String()))
	}
	if len(p.Consts) > 0 {
		r.emit(0, "")
	}
	r.emit(0, "pub struct foo?(")
	for _, f := range p.Fields {
		r.emit(1, f.Name+" : "+f.T.String()+",")
	}
	r.emit(0, ")")
	for _, f := range p.Funcs {
		r.emit(0, "")
		vis := "pri"
		if f.Pub {
			vis = "pub"
		}
		params := []string{}
		for _, a := range f.Params {
			params = append(params, a.Name+": "+a.T.String())
		}
		ret := ""
		if f.Ret != nil {
			ret = " " + f.Ret.String()
		}
		r.emit(0, fmt.Sprintf("%s func foo.%s%s(%s)%s {", vis, f.Name, f.Effect, strings.Join(params, ", "), ret))
		for _, l := range f.Locals {
			r.emit(1, "var "+l.Name+" : "+l.T.String())
		}
		// The final return is a statement of the top-level block.
		body := f.Body
		if f.Final != "" {
			body = append(append([]*Stmt(nil), body...), &Stmt{Kind: "simple", Text: "return " + f.Final, Term: true})
		}
		r.block(1, body)
		r.emit(0, "}")
	}
	return strings.Join(r.lines, "\n") + "\n", r.points
}
