package main

// Correspondence for the control-flow soundness theorems (Props.C01.check_sound_flow,
// check_sound_flow_hist): whole function bodies WITH control flow.
//
//	case func <n> (<param> <type>)*n <stmt>  -> accept <npoints> | reject
//	        the model (`wfMethod` + `checkS [] []` of Model/Flow.lean, the function the
//	        theorems are about) must accept every function body the real checker accepted
//	        and count the same program points; `ill-formed` (the computable hypothesis of
//	        the theorems fails) or `reject` is a mismatch.  For a candidate that the real
//	        bounds phase rejected during generation the model must reject too.
//	pt <k>                                    -> <m> <fact>*m
//	        the model's situation at point k must be the real checker's (the `assert false`
//	        probe at that line), fact by fact, in order.
//
// <stmt> is the grammar of lean/Driver/C02Flow.lean (the parser is shared); expressions,
// types and constants follow the C01 conventions (sexpr.go).  Beyond what C02's own
// `case flow` ops serialise, these ops cover stores to array elements, `return e`,
// typed named constants and array-typed locals.  A function that uses anything outside
// the model's fragment (slices, pure calls in expressions, numeric built-ins, else-if
// chains, constant conditions, …) is left out and counted.

import (
	"errors"
	"fmt"
	"os"
	"path/filepath"
	"strings"

	a "github.com/google/wuffs/lang/ast"
	"github.com/google/wuffs/lang/check"
	t "github.com/google/wuffs/lang/token"

	"wvh/cmd/c02/ax"
)

// the axiom listing (lang/check/axioms.md), for `via` reasons: index in the listing =
// index in the regenerated Gen.C02.axioms; variables are numbered in sorted-name order
var (
	listingText []string
	listingAx   []*ax.Axiom
)

func loadListing(repo string) error {
	var err error
	listingText, err = ax.LoadMd(filepath.Join(repo, "lang", "check", "axioms.md"))
	if err != nil {
		return err
	}
	listingAx = nil
	for _, s := range listingText {
		x, _ := ax.Parse(s)
		listingAx = append(listingAx, x)
	}
	return nil
}

var tieOpAssignNames = map[t.ID]string{
	t.IDPlusEq: "plus", t.IDMinusEq: "minus", t.IDStarEq: "star", t.IDSlashEq: "slash", t.IDPercentEq: "percent",
	t.IDShiftLEq: "shl", t.IDShiftREq: "shr", t.IDAmpEq: "amp", t.IDPipeEq: "pipe", t.IDHatEq: "hat",
	t.IDTildeModPlusEq: "modplus", t.IDTildeModMinusEq: "modminus", t.IDTildeModStarEq: "modstar",
	t.IDTildeModShiftLEq: "modshl", t.IDTildeSatPlusEq: "satplus", t.IDTildeSatMinusEq: "satminus",
}

type flowTie struct {
	tm     *t.Map
	funcs  map[t.ID]*a.Func
	fn     *a.Func
	bad    string // first reason why the function is outside the fragment
	detail string // debugging aid: the text of the offending node

	// `unify` (the join after an if) compares facts by their TEXT, while the model (like
	// ast.Expr.Eq) compares constant-valued nodes by value: `x == K0` and `x == 255`, or
	// `x == (4 - 4)` and `x == 0`, are one fact for the model and two for `unify`.  A
	// function that has both a join and a constant not written as its plain decimal
	// value is left out (counted), so that the tie stays exact.
	nonLiteralConst bool
	hasIf           bool
	loops  []*a.While
	braces map[int]int
}

func (z *flowTie) fail(why string) string {
	if z.bad == "" {
		z.bad = why
	}
	return "?"
}

func (z *flowTie) typ(typ *a.TypeExpr) string {
	s, ok := typeSexpr(z.tm, typ)
	if !ok {
		return z.fail("type")
	}
	return s
}

func (z *flowTie) expr(n *a.Expr) string {
	if n == nil {
		return z.fail("nil-expression")
	}
	n.AsNode().Walk(func(o *a.Node) error {
		if o.Kind() == a.KExpr {
			if e := o.AsExpr(); e.ConstValue() != nil && (e.MType() == nil || !e.MType().IsBool()) &&
				e.Str(z.tm) != e.ConstValue().String() {
				z.nonLiteralConst = true
			}
		}
		return nil
	})
	s, ok := exprSexpr(z.tm, n, nil)
	if !ok {
		if z.bad == "" {
			z.detail = n.Str(z.tm)
		}
		return z.fail("expression " + exprClass(z.tm, n))
	}
	return s
}

// isNumBuiltinCall: `x.min(…)`, `x.max(…)`, `x.low_bits(…)`, `x.high_bits(…)` on a numeric x
// (an expression of the model, not a call statement)
func isNumBuiltinCall(n *a.Expr) bool {
	recv, meth, _, ok := n.IsMethodCall()
	if !ok || recv.MType() == nil || !recv.MType().IsNumType() {
		return false
	}
	_, ok = builtinOpNames[meth]
	return ok
}

// exprClass names why an expression is outside the fragment (for the histogram)
func exprClass(tm *t.Map, n *a.Expr) string {
	cls := "other"
	n.AsNode().Walk(func(o *a.Node) error {
		if o.Kind() != a.KExpr {
			return nil
		}
		e := o.AsExpr()
		if e.Operator() == t.IDOpenParen {
			if _, meth, _, ok := e.IsMethodCall(); ok {
				switch meth.Str(tm) {
				case "min", "max", "low_bits", "high_bits":
					cls = "numeric-builtin"
				default:
					cls = "call"
				}
			}
		}
		return nil
	})
	return cls
}

// cond: a condition (if / while / assert / pre / inv / post).  A constant condition
// (`while true`) has no boolean-typed node in the model: outside the fragment.
func (z *flowTie) cond(n *a.Expr) string {
	if n != nil && n.ConstValue() != nil {
		if z.bad == "" {
			z.detail = n.Str(z.tm)
		}
		return z.fail("constant-condition")
	}
	return z.expr(n)
}

func (z *flowTie) block(nodes []*a.Node) string {
	if len(nodes) == 0 {
		return "skip"
	}
	return "seq " + z.stmt(nodes[0]) + " " + z.block(nodes[1:])
}

func (z *flowTie) callArgs(fn *a.Func, args []*a.Node) string {
	fields := fn.In().Fields()
	if len(fields) != len(args) {
		return z.fail("call-arity")
	}
	parts := []string{fmt.Sprint(len(args))}
	for i, o := range args {
		v := o.AsArg().Value()
		if typ := v.MType(); typ == nil || !(typ.IsNumTypeOrIdeal() || typ.IsBool()) {
			return z.fail("non-scalar-call-argument")
		}
		parts = append(parts, z.expr(v), z.typ(fields[i].AsField().XType()))
	}
	return strings.Join(parts, " ")
}

func (z *flowTie) reason(n *a.Assert) string {
	id := n.Reason()
	if id == 0 {
		return "none"
	}
	text := strings.Trim(id.Str(z.tm), `"`)
	for i, s := range listingText {
		if s != text || listingAx[i] == nil {
			continue
		}
		x := listingAx[i]
		parts := []string{"via", fmt.Sprint(i), fmt.Sprint(len(n.Args()))}
		for _, o := range n.Args() {
			name := o.AsArg().Name().Str(z.tm)
			idx := -1
			for j, v := range x.Vars {
				if v == name {
					idx = j
				}
			}
			if idx < 0 {
				return z.fail("via-argument")
			}
			parts = append(parts, fmt.Sprint(idx), z.expr(o.AsArg().Value()))
		}
		return strings.Join(parts, " ")
	}
	return z.fail("unlisted-reason")
}

func (z *flowTie) stmt(o *a.Node) string {
	switch o.Kind() {
	case a.KVar:
		n := o.AsVar()
		typ := n.XType()
		if typ.IsEitherArrayType() {
			// a local array: zero-initialised, no fact, no statement of the model
			ety, ok := tyFromAST(z.tm, typ)
			if !ok {
				return z.fail("variable-type")
			}
			if lo, hi := ety.Bounds(); lo.Sign() > 0 || hi.Sign() < 0 {
				// rejected by bcheckVar ("default zero value is not within bounds"); the
				// model has no statement that could reject it
				return z.fail("array-variable-without-zero")
			}
			return "skip"
		}
		if !(typ.IsNumType() || typ.IsBool()) {
			return z.fail("variable-type")
		}
		// "var x T" has an implicit "= 0" (bcheckVar)
		return "assign v " + n.Name().Str(z.tm) + " " + z.typ(typ) + " c 0"
	case a.KAssert:
		n := o.AsAssert()
		return "assert " + z.cond(n.Condition()) + " " + z.reason(n)
	case a.KAssign:
		n := o.AsAssign()
		lhs, rhs, op := n.LHS(), n.RHS(), n.Operator()
		if rhs.Operator() == t.IDOpenParen && !isNumBuiltinCall(rhs) {
			recv, meth, args, ok := rhs.IsMethodCall()
			if !ok || recv.Operator() != 0 || recv.Ident() != t.IDThis {
				return z.fail("expression " + exprClass(z.tm, rhs))
			}
			fn := z.funcs[meth]
			if fn == nil {
				return z.fail("call-of-unknown-method")
			}
			if lhs != nil {
				// `x = this.m!(args)`: the value of an impure, non-coroutine call
				if op != t.IDEq || lhs.Operator() == t.IDOpenBracket || !fn.Effect().Impure() || fn.Effect().Coroutine() || fn.Out() == nil {
					return z.fail("expression call")
				}
				return "callassign " + z.expr(lhs) + " " + z.typ(fn.Out()) + " " + z.callArgs(fn, args)
			}
			switch {
			case fn.Effect().Coroutine():
				return "cocall " + z.callArgs(fn, args)
			case fn.Effect().Impure():
				return "call " + z.callArgs(fn, args)
			}
			return z.fail("pure-call-statement")
		}
		if lhs == nil {
			return z.fail("expression-statement")
		}
		if op == t.IDEq {
			return "assign " + z.expr(lhs) + " " + z.expr(rhs)
		}
		nm, ok := tieOpAssignNames[op]
		if !ok {
			return z.fail("assignment-operator")
		}
		return "opassign " + nm + " " + z.expr(lhs) + " " + z.expr(rhs)
	case a.KIf:
		n := o.AsIf()
		if n.ElseIf() != nil {
			return z.fail("else-if-chain")
		}
		z.hasIf = true
		return "if " + z.cond(n.Condition()) + " " + z.block(n.BodyIfTrue()) + " " + z.block(n.BodyIfFalse())
	case a.KWhile:
		n := o.AsWhile()
		parts := []string{"while", fmt.Sprint(len(n.Asserts()))}
		for _, as := range n.Asserts() {
			as := as.AsAssert()
			if as.Reason() != 0 {
				return z.fail("loop-condition-with-via")
			}
			parts = append(parts, as.Keyword().Str(z.tm), z.cond(as.Condition()))
		}
		parts = append(parts, z.cond(n.Condition()))
		z.loops = append(z.loops, n)
		parts = append(parts, z.block(n.Body()))
		z.loops = z.loops[:len(z.loops)-1]
		return strings.Join(parts, " ")
	case a.KJump:
		n := o.AsJump()
		w, _ := n.JumpTarget().(*a.While)
		depth := -1
		for i := len(z.loops) - 1; i >= 0; i-- {
			if z.loops[i] == w {
				depth = len(z.loops) - 1 - i
			}
		}
		if depth < 0 {
			return z.fail("jump-target")
		}
		k := "c"
		if n.Keyword() == t.IDBreak {
			k = "b"
		}
		return fmt.Sprintf("jump %s %d", k, depth)
	case a.KRet:
		n := o.AsRet()
		if n.Keyword() == t.IDYield {
			return "yield"
		}
		v := n.Value()
		if v == nil || v.MType() == nil || v.MType().IsStatus() || z.fn.Out() == nil {
			return "ret0"
		}
		if !(v.MType().IsNumTypeOrIdeal() || v.MType().IsBool()) || z.fn.Out() == nil {
			if z.bad == "" {
				z.detail = v.Str(z.tm) + " : " + v.MType().Str(z.tm)
			}
			return z.fail("return-type")
		}
		// `return e`: bcheckAssignment1(nil, out type, =, e)
		return "ret " + z.expr(v) + " " + z.typ(z.fn.Out())
	}
	return z.fail("statement-" + o.Kind().String())
}

// points lists the probe lines of a block in the model's order of points (0: a
// point the harness cannot probe, e.g. before a `var` line).
func (z *flowTie) points(nodes []*a.Node, closeLine int) []int {
	var out []int
	for _, o := range nodes {
		_, line := o.AsRaw().FilenameLine()
		if o.Kind() == a.KVar {
			out = append(out, 0)
		} else {
			out = append(out, int(line))
		}
		switch o.Kind() {
		case a.KIf:
			n := o.AsIf()
			closeT := z.braces[int(line)]
			out = append(out, z.points(n.BodyIfTrue(), closeT)...)
			if len(n.BodyIfFalse()) > 0 {
				out = append(out, z.points(n.BodyIfFalse(), z.braces[closeT])...)
			}
		case a.KWhile:
			open := int(line)
			for ; open < int(line)+64; open++ {
				if _, ok := z.braces[open]; ok {
					break
				}
			}
			out = append(out, z.points(o.AsWhile().Body(), z.braces[open])...)
		}
	}
	return append(out, closeLine)
}

// tieBraces maps the line (1-based) of every block-opening `{` to the line of its
// closing `}` (one statement per line; `} else {` closes and opens).
func tieBraces(src string) map[int]int {
	m := map[int]int{}
	var stack []int
	for i, l := range strings.Split(src, "\n") {
		tl := strings.TrimSpace(l)
		if strings.HasPrefix(tl, "//") {
			continue
		}
		if strings.HasPrefix(tl, "}") {
			if len(stack) > 0 {
				m[stack[len(stack)-1]] = i + 1
				stack = stack[:len(stack)-1]
			}
		}
		if strings.HasSuffix(tl, "{") {
			stack = append(stack, i+1)
		}
	}
	return m
}

// strictFacts renders a probed fact list; ok = false if a fact is outside the fragment
// (then the point is not compared: the model would hold a different list).
func strictFacts(tm *t.Map, fs []*a.Expr) (string, bool) {
	parts := []string{fmt.Sprint(len(fs))}
	for _, f := range fs {
		s, ok := condSexpr(tm, f)
		if !ok {
			return "", false
		}
		parts = append(parts, s)
	}
	return strings.Join(parts, " "), true
}

func fileFuncs(file *a.File) map[t.ID]*a.Func {
	funcs := map[t.ID]*a.Func{}
	for _, n := range file.TopLevelDecls() {
		if n.Kind() == a.KFunc {
			funcs[n.AsFunc().FuncName()] = n.AsFunc()
		}
	}
	return funcs
}

// funcHeader: `case func <n> (<param> <type>)*n ` of one function
func (z *flowTie) header(fn *a.Func) string {
	fields := fn.In().Fields()
	parts := []string{"case", "func", fmt.Sprint(len(fields))}
	for _, p := range fields {
		parts = append(parts, "args."+p.AsField().Name().Str(z.tm), z.typ(p.AsField().XType()))
	}
	return strings.Join(parts, " ")
}

// flowOps: the `case func` / `pt` ops of one accepted program.  factsAt: the probed fact
// list by the line the `assert false` probe was inserted before.
func flowOps(ck *Checked, src string, factsAt map[int][]*a.Expr, stats map[string]int) (ops []opLine) {
	funcs := fileFuncs(ck.file)
	braces := tieBraces(src)
	for _, n := range ck.file.TopLevelDecls() {
		if n.Kind() != a.KFunc {
			continue
		}
		fn := n.AsFunc()
		if len(fn.Body()) == 0 {
			continue
		}
		z := &flowTie{tm: ck.tm, funcs: funcs, fn: fn, braces: braces}
		head := z.header(fn)
		body := z.block(fn.Body())
		if z.bad == "" && z.hasIf && z.nonLiteralConst {
			z.fail("non-literal-constant with-join")
		}
		if z.bad != "" {
			stats["flow:func-outside-fragment"]++
			if os.Getenv("C01_FLOWDEBUG") != "" {
				fmt.Fprintf(os.Stderr, "FLOWDEBUG outside: %s: func %s: %s\n", z.bad, fn.FuncName().Str(ck.tm), z.detail)
			}
			stats["flow:outside:"+strings.SplitN(z.bad, " ", 3)[0]+":"+lastWord(z.bad)]++
			continue
		}
		_, fline := fn.AsNode().AsRaw().FilenameLine()
		open := int(fline)
		for ; open < int(fline)+8; open++ {
			if _, ok := braces[open]; ok {
				break
			}
		}
		pts := z.points(fn.Body(), braces[open])
		stats["flow:func-ops"]++
		for _, w := range []string{" if ", " while ", " jump ", " call ", " callassign ", " ret ", " assign ix ", " via "} {
			if strings.Contains(body, w) {
				stats["flow:func-with:"+strings.TrimSpace(w)]++
			}
		}
		ops = append(ops, opLine{head + " " + body, fmt.Sprintf("accept %d", len(pts))})
		for k, line := range pts {
			if line == 0 {
				continue
			}
			facts, ok := factsAt[line]
			if !ok {
				continue
			}
			fstr, ok := strictFacts(ck.tm, facts)
			if !ok {
				stats["flow:point-facts-outside-fragment"]++
				continue
			}
			stats["flow:point-ops"]++
			ops = append(ops, opLine{fmt.Sprintf("pt %d", k), fstr})
		}
	}
	return ops
}

func lastWord(s string) string {
	f := strings.Fields(s)
	if len(f) < 2 {
		return ""
	}
	return f[len(f)-1]
}

// recordRejectedFunc: a candidate program that the real BOUNDS phase rejected: the
// function containing the offending line (fully type-checked by then: checkFuncBody runs
// the type checker over the whole body first) must be rejected by the model too.
func (g *Gen) recordRejectedFunc(src string, err error) {
	var ce *check.Error
	if !errors.As(err, &ce) || g.fr.lastFile == nil || ce.Line == 0 || len(listingText) == 0 {
		return
	}
	file := g.fr.lastFile
	braces := tieBraces(src)
	funcs := fileFuncs(file)
	for _, d := range file.TopLevelDecls() {
		if d.Kind() != a.KFunc {
			continue
		}
		fn := d.AsFunc()
		_, fline := fn.AsNode().AsRaw().FilenameLine()
		open := int(fline)
		for ; open < int(fline)+8; open++ {
			if _, ok := braces[open]; ok {
				break
			}
		}
		if cl, ok := braces[open]; !ok || int(ce.Line) <= open || int(ce.Line) >= cl {
			continue
		}
		ok := true
		func() {
			defer func() {
				if recover() != nil {
					ok = false // a node that the type checker did not reach
				}
			}()
			z := &flowTie{tm: g.fr.tm, funcs: funcs, fn: fn, braces: braces}
			head := z.header(fn)
			body := z.block(fn.Body())
			if z.bad == "" && z.hasIf && z.nonLiteralConst {
				z.fail("non-literal-constant with-join")
			}
			if z.bad != "" {
				g.count("flow:rejected-func-outside-fragment")
				return
			}
			g.rejFlowOps = append(g.rejFlowOps, opLine{head + " " + body, "reject"})
		}()
		_ = ok
		return
	}
}
