package main

// The real Wuffs front end, in-process: token.Tokenize, parse.Parse,
// check.Check (exactly what cmd/wuffs-c does, see lang/generate/generate.go).
// The "fast" variant shares the parsed built-in declarations between calls
// (hook check.VerifBase); verdicts that matter are confirmed with check.Check.

import (
	"errors"
	"fmt"
	"os"
	"path/filepath"
	"sort"
	"strings"
	"sync"

	a "github.com/google/wuffs/lang/ast"
	"github.com/google/wuffs/lang/check"
	"github.com/google/wuffs/lang/parse"
	t "github.com/google/wuffs/lang/token"
)

const srcName = "p.wuffs"

type Front struct {
	tm   *t.Map
	base *check.VerifBase
	uses int

	lastFile *a.File // the parsed (and, up to the error, checked) file of the last Fast call
}

func NewFront() *Front {
	tm := &t.Map{}
	b, err := check.VerifNewBase(tm)
	if err != nil {
		panic("c01: VerifNewBase: " + err.Error())
	}
	return &Front{tm: tm, base: b}
}

type Checked struct {
	tm   *t.Map
	file *a.File
	c    *check.Checker
}

func parseSrc(tm *t.Map, src string) (*a.File, error) {
	tokens, _, err := t.Tokenize(tm, srcName, []byte(src))
	if err != nil {
		return nil, err
	}
	return parse.Parse(tm, srcName, tokens, nil)
}

// PanicSources collects sources on which the front end panicked (a defect of
// the compiler, but the subject of property C11, not C01).
var PanicSources sync.Map

// Fast runs the front end with the shared built-ins.
func (f *Front) Fast(src string) (ck *Checked, err error) {
	defer func() {
		if e := recover(); e != nil {
			PanicSources.Store(src, fmt.Sprint(e))
			ck, err = nil, fmt.Errorf("check: internal error: front end panicked: %v", e)
		}
	}()
	f.uses++
	f.lastFile = nil
	file, err := parseSrc(f.tm, src)
	if err != nil {
		return nil, err
	}
	f.lastFile = file
	c, err := f.base.Check([]*a.File{file}, nil)
	if err != nil {
		return nil, err
	}
	return &Checked{f.tm, file, c}, nil
}

// Real runs the front end exactly as the compiler does.
func Real(src string) (ck *Checked, err error) {
	defer func() {
		if e := recover(); e != nil {
			PanicSources.Store(src, fmt.Sprint(e))
			ck, err = nil, fmt.Errorf("check: internal error: front end panicked: %v", e)
		}
	}()
	tm := &t.Map{}
	file, err := parseSrc(tm, src)
	if err != nil {
		return nil, err
	}
	c, err := check.Check(tm, []*a.File{file}, nil)
	if err != nil {
		return nil, err
	}
	return &Checked{tm, file, c}, nil
}

// ProbeFacts returns the facts the real checker holds at the point where src
// has an `assert false` (src must otherwise be an accepted program).
// ok = false when the checker failed for another reason (e.g. unreachable).
func (f *Front) ProbeFacts(src string) (facts []*a.Expr, ok bool) {
	_, err := f.Fast(src)
	var ce *check.Error
	if err == nil || !errors.As(err, &ce) {
		return nil, false
	}
	if ce.Err == nil || !strings.Contains(ce.Err.Error(), `cannot prove "false"`) {
		return nil, false
	}
	return append([]*a.Expr(nil), ce.Facts...), true
}

// errClass maps a checker error to a small stable word (for histograms).
func errClass(err error) string {
	if err == nil {
		return "accepted"
	}
	s := err.Error()
	switch {
	case strings.Contains(s, "is not within bounds"):
		return "rej:not-within-bounds"
	case strings.Contains(s, "inconsistent with fact"):
		return "rej:inconsistent-fact"
	case strings.Contains(s, "cannot prove"), strings.Contains(s, "could not prove"):
		return "rej:cannot-prove"
	case strings.Contains(s, "shift op argument"):
		return "rej:shift-arg"
	case strings.Contains(s, "divide/modulus op argument"):
		return "rej:div-arg"
	case strings.Contains(s, "bitwise op argument"):
		return "rej:bitwise-arg"
	case strings.Contains(s, "recursive call chain"):
		return "rej:recursion"
	case strings.Contains(s, "unreachable code"):
		return "rej:unreachable"
	case strings.Contains(s, "default zero value"):
		return "rej:zero-default"
	case strings.Contains(s, "parse:"):
		return "rej:parse"
	case strings.Contains(s, "front end panicked"):
		return "rej:front-end-panic"
	case strings.Contains(s, "internal error"):
		return "rej:internal-error"
	case strings.Contains(s, "check:"):
		return "rej:type"
	}
	return "rej:other"
}

// checkStd runs the working tree's checker over every std package that has no
// `use` declaration (24 of 30, about 30 k lines) and returns the rejected ones.
func checkStd(repo string) (rejected []string) {
	ents, err := os.ReadDir(filepath.Join(repo, "std"))
	if err != nil {
		return []string{"cannot read std/: " + err.Error()}
	}
	for _, e := range ents {
		if !e.IsDir() {
			continue
		}
		files, _ := filepath.Glob(filepath.Join(repo, "std", e.Name(), "*.wuffs"))
		sort.Strings(files)
		var srcs [][]byte
		uses := false
		for _, f := range files {
			b, err := os.ReadFile(f)
			if err != nil {
				continue
			}
			if strings.Contains(string(b), "\nuse \"") {
				uses = true
			}
			srcs = append(srcs, b)
		}
		if uses || len(srcs) == 0 {
			continue
		}
		func() {
			defer func() {
				if x := recover(); x != nil {
					rejected = append(rejected, fmt.Sprintf("std/%s: checker panicked: %v", e.Name(), x))
				}
			}()
			tm := &t.Map{}
			var asts []*a.File
			for i, b := range srcs {
				tokens, _, err := t.Tokenize(tm, files[i], b)
				if err != nil {
					rejected = append(rejected, fmt.Sprintf("std/%s: %v", e.Name(), err))
					return
				}
				f, err := parse.Parse(tm, files[i], tokens, nil)
				if err != nil {
					rejected = append(rejected, fmt.Sprintf("std/%s: %v", e.Name(), err))
					return
				}
				asts = append(asts, f)
			}
			if _, err := check.Check(tm, asts, nil); err != nil {
				rejected = append(rejected, fmt.Sprintf("std/%s: %s", e.Name(), firstLine(err.Error())))
			}
		}()
	}
	return rejected
}
