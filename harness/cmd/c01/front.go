package main

// The real Wuffs front end, in-process: token.Tokenize, parse.Parse,
// check.Check (exactly what cmd/wuffs-c does, see lang/generate/generate.go).
// The "fast" variant shares the parsed built-in declarations between calls
// (hook check.VerifBase); verdicts that matter are confirmed with check.Check.

import (
	"errors"
	"strings"

	a "github.com/google/wuffs/lang/ast"
	"github.com/google/wuffs/lang/check"
	"github.com/google/wuffs/lang/parse"
	t "github.com/google/wuffs/lang/token"
)

const srcName = "p.wuffs"

type Front struct {
	tm   *t.Map
	base *check.VerifBase
	uses int
}

func NewFront() *Front {
	tm := &t.Map{}
	b, err := check.VerifNewBase(tm)
	if err != nil {
		panic("c01: VerifNewBase: " + err.Error())
	}
	return &Front{tm: tm, base: b}
}

type Checked struct {
	tm   *t.Map
	file *a.File
	c    *check.Checker
}

func parseSrc(tm *t.Map, src string) (*a.File, error) {
	tokens, _, err := t.Tokenize(tm, srcName, []byte(src))
	if err != nil {
		return nil, err
	}
	return parse.Parse(tm, srcName, tokens, nil)
}

// Fast runs the front end with the shared built-ins.
func (f *Front) Fast(src string) (*Checked, error) {
	f.uses++
	file, err := parseSrc(f.tm, src)
	if err != nil {
		return nil, err
	}
	c, err := f.base.Check([]*a.File{file}, nil)
	if err != nil {
		return nil, err
	}
	return &Checked{f.tm, file, c}, nil
}

// Real runs the front end exactly as the compiler does.
func Real(src string) (*Checked, error) {
	tm := &t.Map{}
	file, err := parseSrc(tm, src)
	if err != nil {
		return nil, err
	}
	c, err := check.Check(tm, []*a.File{file}, nil)
	if err != nil {
		return nil, err
	}
	return &Checked{tm, file, c}, nil
}

// ProbeFacts returns the facts the real checker holds at the point where src
// has an `assert false` (src must otherwise be an accepted program).
// ok = false when the checker failed for another reason (e.g. unreachable).
func (f *Front) ProbeFacts(src string) (facts []*a.Expr, ok bool) {
	_, err := f.Fast(src)
	var ce *check.Error
	if err == nil || !errors.As(err, &ce) {
		return nil, false
	}
	if ce.Err == nil || !strings.Contains(ce.Err.Error(), `cannot prove "false"`) {
		return nil, false
	}
	return append([]*a.Expr(nil), ce.Facts...), true
}

// errClass maps a checker error to a small stable word (for histograms).
func errClass(err error) string {
	if err == nil {
		return "accepted"
	}
	s := err.Error()
	switch {
	case strings.Contains(s, "is not within bounds"):
		return "rej:not-within-bounds"
	case strings.Contains(s, "inconsistent with fact"):
		return "rej:inconsistent-fact"
	case strings.Contains(s, "cannot prove"):
		return "rej:cannot-prove"
	case strings.Contains(s, "shift op argument"):
		return "rej:shift-arg"
	case strings.Contains(s, "divide/modulus op argument"):
		return "rej:div-arg"
	case strings.Contains(s, "bitwise op argument"):
		return "rej:bitwise-arg"
	case strings.Contains(s, "recursive call chain"):
		return "rej:recursion"
	case strings.Contains(s, "unreachable code"):
		return "rej:unreachable"
	case strings.Contains(s, "default zero value"):
		return "rej:zero-default"
	case strings.Contains(s, "parse:"):
		return "rej:parse"
	case strings.Contains(s, "internal error"):
		return "rej:internal-error"
	case strings.Contains(s, "check:"):
		return "rej:type"
	}
	return "rej:other"
}
