package main

// Correspondence ops for the Lean model (Model/WCore/*.lean, driver wv_c01).
//
//	tb <type>                      -> lo hi                (bcheckTypeExpr)
//	bounds <n> <fact>*n <expr>     -> lo:hi per node, pre-order | reject <class>
//	                                                          (bcheckExpr: MBounds of every node)
//
// <type> = base min max   (min / max: decimal or _ )
// <expr> = c <int> | v <name> <type> | u <op> e | b <op> l r | as <type> e | a <op> <n> e*n
//          (b min / max / lowbits / highbits l r: the numeric built-in methods of l)
//        | ix <array> <len> <elem-type> e     (element of a local / this.field array of scalars)
//
// Expressions / facts outside the scalar fragment are not serialised (a fact
// with a sub-term outside the fragment can never match an in-fragment
// expression, so leaving it out does not change the checker's result).

import (
	"fmt"
	"math/big"
	"strings"

	a "github.com/google/wuffs/lang/ast"
	"github.com/google/wuffs/lang/check"
	t "github.com/google/wuffs/lang/token"
)

var binOpNames = map[t.ID]string{
	t.IDXBinaryPlus: "plus", t.IDXBinaryMinus: "minus", t.IDXBinaryStar: "star", t.IDXBinarySlash: "slash",
	t.IDXBinaryPercent: "percent", t.IDXBinaryShiftL: "shl", t.IDXBinaryShiftR: "shr", t.IDXBinaryAmp: "amp",
	t.IDXBinaryPipe: "pipe", t.IDXBinaryHat: "hat", t.IDXBinaryTildeModPlus: "modplus",
	t.IDXBinaryTildeModMinus: "modminus", t.IDXBinaryTildeModStar: "modstar", t.IDXBinaryTildeModShiftL: "modshl",
	t.IDXBinaryTildeSatPlus: "satplus", t.IDXBinaryTildeSatMinus: "satminus",
	t.IDXBinaryNotEq: "ne", t.IDXBinaryLessThan: "lt", t.IDXBinaryLessEq: "le", t.IDXBinaryEqEq: "eq",
	t.IDXBinaryGreaterEq: "ge", t.IDXBinaryGreaterThan: "gt", t.IDXBinaryAnd: "and", t.IDXBinaryOr: "or",
}

var assocOpNames = map[t.ID]string{
	t.IDXAssociativePlus: "plus", t.IDXAssociativeStar: "star", t.IDXAssociativeAmp: "amp",
	t.IDXAssociativePipe: "pipe", t.IDXAssociativeHat: "hat", t.IDXAssociativeAnd: "and", t.IDXAssociativeOr: "or",
}

var builtinOpNames = map[t.ID]string{t.IDMin: "min", t.IDMax: "max", t.IDLowBits: "lowbits", t.IDHighBits: "highbits"}

var unOpNames = map[t.ID]string{t.IDXUnaryPlus: "pos", t.IDXUnaryMinus: "neg", t.IDXUnaryNot: "not"}

func typeSexpr(tm *t.Map, typ *a.TypeExpr) (string, bool) {
	if typ == nil {
		return "", false
	}
	if typ.IsIdeal() {
		return "ideal _ _", true
	}
	if typ.Decorator() != 0 || typ.QID()[0] != t.IDBase {
		return "", false
	}
	base := typ.QID()[1].Str(tm)
	if _, ok := baseInfo[base]; !ok {
		return "", false
	}
	lo, hi := "_", "_"
	if typ.IsRefined() {
		if x := typ.Min(); x != nil {
			if x.ConstValue() == nil {
				return "", false
			}
			lo = x.ConstValue().String()
		}
		if x := typ.Max(); x != nil {
			if x.ConstValue() == nil {
				return "", false
			}
			hi = x.ConstValue().String()
		}
	}
	return base + " " + lo + " " + hi, true
}

// exprSexpr serialises n; nodes receives the serialised nodes in pre-order.
func exprSexpr(tm *t.Map, n *a.Expr, nodes *[]*a.Expr) (string, bool) {
	if nodes != nil {
		*nodes = append(*nodes, n)
	}
	if cv := n.ConstValue(); cv != nil {
		// Every constant-valued node is a constant of the model (ast.Expr.Eq compares
		// constant-valued nodes by value only). A typed constant (a named const,
		// `5 as base.u8`) has the type of the operand it is combined with, so its own
		// type never decides the type of its parent — except as the left operand of a
		// shift, which is left out of the fragment below.
		return "c " + cv.String(), true
	}
	op := n.Operator()
	switch {
	case op == 0:
		ts, ok := typeSexpr(tm, n.MType())
		if !ok || n.MType().IsIdeal() {
			return "", false
		}
		return "v " + n.Ident().Str(tm) + " " + ts, true
	case op == t.IDDot:
		ts, ok := typeSexpr(tm, n.MType())
		if !ok {
			return "", false
		}
		if id := n.IsArgsDotFoo(); id != 0 {
			return "v args." + id.Str(tm) + " " + ts, true
		}
		if id := n.IsThisDotFoo(); id != 0 {
			return "v this." + id.Str(tm) + " " + ts, true
		}
		return "", false
	case op == t.IDOpenBracket:
		// element of a fixed-length array of scalars: a local or this.field. The
		// array operand itself is not a node of the model.
		arr := n.LHS().AsExpr()
		aTyp := arr.MType()
		if aTyp == nil || !aTyp.IsEitherArrayType() {
			return "", false
		}
		cv := aTyp.ArrayLength().ConstValue()
		if cv == nil || !cv.IsInt64() || cv.Sign() < 0 {
			return "", false
		}
		ets, ok := typeSexpr(tm, aTyp.Inner())
		if !ok || aTyp.Inner().IsIdeal() {
			return "", false
		}
		name := ""
		if arr.Operator() == 0 && arr.ConstValue() == nil {
			name = arr.Ident().Str(tm)
		} else if id := arr.IsThisDotFoo(); id != 0 {
			name = "this." + id.Str(tm)
		} else {
			return "", false
		}
		e, ok := exprSexpr(tm, n.RHS().AsExpr(), nodes)
		if !ok {
			return "", false
		}
		return "ix " + name + " " + cv.String() + " " + ets + " " + e, true
	case op == t.IDOpenParen:
		// the numeric built-ins `x.min(no_more_than: y)`, `x.max(no_less_than: y)`,
		// `x.low_bits(n: k)`, `x.high_bits(n: k)`: binary operators of the model
		// (receiver, argument); the `x.min` selector node is not a node of the model
		recv, meth, args, ok := n.IsMethodCall()
		if !ok || len(args) != 1 || recv.MType() == nil || !recv.MType().IsNumType() {
			return "", false
		}
		nm, ok := builtinOpNames[meth]
		if !ok {
			return "", false
		}
		if recv.ConstValue() != nil {
			return "", false // typed constant receiver: the type of the constant matters
		}
		l, ok := exprSexpr(tm, recv, nodes)
		if !ok {
			return "", false
		}
		r, ok := exprSexpr(tm, args[0].AsArg().Value(), nodes)
		if !ok {
			return "", false
		}
		return "b " + nm + " " + l + " " + r, true
	case op.IsXUnaryOp():
		e, ok := exprSexpr(tm, n.RHS().AsExpr(), nodes)
		if !ok {
			return "", false
		}
		return "u " + unOpNames[op] + " " + e, true
	case op == t.IDXBinaryAs:
		ts, ok := typeSexpr(tm, n.RHS().AsTypeExpr())
		if !ok {
			return "", false
		}
		e, ok := exprSexpr(tm, n.LHS().AsExpr(), nodes)
		if !ok {
			return "", false
		}
		return "as " + ts + " " + e, true
	case op.IsXBinaryOp():
		nm, ok := binOpNames[op]
		if !ok {
			return "", false
		}
		if op == t.IDXBinaryShiftL || op == t.IDXBinaryShiftR || op == t.IDXBinaryTildeModShiftL {
			if l := n.LHS().AsExpr(); l.ConstValue() != nil && l.MType() != nil && !l.MType().IsIdeal() {
				return "", false // typed constant shifted by a run-time amount: the type of the constant matters
			}
		}
		l, ok := exprSexpr(tm, n.LHS().AsExpr(), nodes)
		if !ok {
			return "", false
		}
		r, ok := exprSexpr(tm, n.RHS().AsExpr(), nodes)
		if !ok {
			return "", false
		}
		return "b " + nm + " " + l + " " + r, true
	case op.IsXAssociativeOp():
		nm, ok := assocOpNames[op]
		if !ok {
			return "", false
		}
		parts := []string{"a", nm, fmt.Sprint(len(n.Args()))}
		for _, o := range n.Args() {
			e, ok := exprSexpr(tm, o.AsExpr(), nodes)
			if !ok {
				return "", false
			}
			parts = append(parts, e)
		}
		return strings.Join(parts, " "), true
	}
	return "", false
}

func factsSexpr(tm *t.Map, facts []*a.Expr) string {
	var out []string
	for _, f := range facts {
		if op := f.Operator(); !op.IsXBinaryOp() || op == t.IDXBinaryAs {
			continue
		}
		if f.ConstValue() != nil {
			// a constant-valued comparison keeps its (constant) operands: the fact loops
			// of proveBinaryOp / proveReasonRequirementForRHSLength look at them
			if nm, ok := binOpNames[f.Operator()]; ok {
				l, r := f.LHS().AsExpr(), f.RHS().AsExpr()
				if l != nil && r != nil && l.ConstValue() != nil && r.ConstValue() != nil {
					out = append(out, "b "+nm+" c "+l.ConstValue().String()+" c "+r.ConstValue().String())
					continue
				}
			}
		}
		if s, ok := exprSexpr(tm, f, nil); ok {
			out = append(out, s)
		}
	}
	if len(out) == 0 {
		return "0"
	}
	return fmt.Sprint(len(out)) + " " + strings.Join(out, " ")
}

// condSexpr serialises an assert condition: like a fact, a constant-valued
// comparison keeps its operands.
func condSexpr(tm *t.Map, c *a.Expr) (string, bool) {
	if c.ConstValue() != nil {
		if nm, ok := binOpNames[c.Operator()]; ok {
			l, r := c.LHS().AsExpr(), c.RHS().AsExpr()
			if l != nil && r != nil && l.ConstValue() != nil && r.ConstValue() != nil {
				return "b " + nm + " c " + l.ConstValue().String() + " c " + r.ConstValue().String(), true
			}
		}
	}
	return exprSexpr(tm, c, nil)
}

func boundsStr(b [2]*big.Int) string {
	if b[0] == nil || b[1] == nil {
		return "nil"
	}
	return b[0].String() + ":" + b[1].String()
}

// corrOps extracts the correspondence ops of one accepted program.
func corrOps(ck *Checked, in *Interp, res *ProgResult) (ops []opLine) {
	tm := ck.tm
	seenT := map[string]bool{}
	addType := func(typ *a.TypeExpr) {
		if typ == nil {
			return
		}
		if typ.IsEitherArrayType() {
			typ = typ.Inner()
		}
		ts, ok := typeSexpr(tm, typ)
		if !ok || seenT[ts] {
			return
		}
		seenT[ts] = true
		b := typ.AsNode().MBounds()
		if b[0] == nil {
			return
		}
		ops = append(ops, opLine{"tb " + ts, b[0].String() + " " + b[1].String()})
	}
	var walk func(block []*a.Node)
	emitExpr := func(line int, e *a.Expr) {
		facts, ok := in.factsBefore[line]
		if !ok || e == nil || e.ConstValue() != nil {
			return
		}
		var nodes []*a.Expr
		s, ok := exprSexpr(tm, e, &nodes)
		if !ok {
			res.Stats["corr:expr-outside-fragment"]++
			return
		}
		var bs []string
		for _, n := range nodes {
			bs = append(bs, boundsStr(n.MBounds()))
		}
		res.Stats["corr:bounds-ops"]++
		ops = append(ops, opLine{"bounds " + factsSexpr(tm, facts) + " " + s, strings.Join(bs, " ")})
	}
	// facts <n> <fact>*n assign <lhs> <rhs> | opassign <op> <lhs> <rhs>  ->  <m> <fact>*m
	emitStmt := func(line int, n *a.Assign, after []*a.Expr, haveAfter bool) {
		before, ok := in.factsBefore[line]
		lhs, rhs := n.LHS(), n.RHS()
		if !ok || !haveAfter || lhs == nil || rhs == nil || !rhs.Effect().Pure() {
			return
		}
		if lhs.Operator() != 0 && lhs.IsThisDotFoo() == 0 && lhs.Operator() != t.IDOpenBracket {
			return
		}
		ls, ok1 := exprSexpr(tm, lhs, nil)
		rs, ok2 := exprSexpr(tm, rhs, nil)
		if !ok1 || !ok2 || !(strings.HasPrefix(ls, "v ") || strings.HasPrefix(ls, "ix ")) {
			res.Stats["corr:stmt-outside-fragment"]++
			return
		}
		if strings.HasPrefix(ls, "ix ") {
			res.Stats["corr:facts-ops-element-store"]++
		}
		op := ""
		if n.Operator() == t.IDEq {
			op = "assign"
		} else if nm, ok := binOpNames[n.Operator().BinaryForm()]; ok {
			op = "opassign " + nm
		} else {
			return
		}
		res.Stats["corr:facts-ops"]++
		ops = append(ops, opLine{"facts " + factsSexpr(tm, before) + " " + op + " " + ls + " " + rs, factsSexpr(tm, after)})
	}
	walk = func(block []*a.Node) {
		first := 0
		for i, o := range block {
			_, ln := o.AsRaw().FilenameLine()
			line := int(ln)
			if first == 0 && o.Kind() != a.KVar {
				first = line
			}
			switch o.Kind() {
			case a.KVar:
				addType(o.AsVar().XType())
			case a.KAssign:
				n := o.AsAssign()
				if n.Operator() == t.IDEq && n.LHS() != nil {
					emitExpr(line, n.RHS())
				}
				if l := n.LHS(); l != nil && l.Operator() == t.IDOpenBracket {
					emitExpr(line, l) // the index obligations of the store target
				}
				var after []*a.Expr
				haveAfter := false
				if i+1 < len(block) {
					_, ln2 := block[i+1].AsRaw().FilenameLine()
					after, haveAfter = in.factsBefore[int(ln2)]
				} else {
					after, haveAfter = in.factsEnd[first]
				}
				emitStmt(line, n, after, haveAfter)
			case a.KAssert:
				// prove <n> <fact>*n <cond> -> ok : an accepted plain `assert` (no `via`)
				n := o.AsAssert()
				if n.Keyword() != t.IDAssert || n.Reason() != 0 {
					break
				}
				if before, ok := in.factsBefore[line]; ok {
					if cs, ok := condSexpr(tm, n.Condition()); ok {
						res.Stats["corr:prove-ops"]++
						ops = append(ops, opLine{"prove " + factsSexpr(tm, before) + " " + cs, "ok"})
					} else {
						res.Stats["corr:assert-outside-fragment"]++
					}
				}
			case a.KIf:
				n := o.AsIf()
				emitExpr(line, n.Condition())
				for ; n != nil; n = n.ElseIf() {
					walk(n.BodyIfTrue())
					walk(n.BodyIfFalse())
				}
			case a.KWhile:
				walk(o.AsWhile().Body())
			case a.KRet:
				if v := o.AsRet().Value(); v != nil {
					emitExpr(line, v)
				}
			}
		}
	}
	for _, d := range ck.file.TopLevelDecls() {
		switch d.Kind() {
		case a.KStruct:
			for _, f := range d.AsStruct().Fields() {
				addType(f.AsField().XType())
			}
		case a.KFunc:
			fn := d.AsFunc()
			for _, f := range fn.In().Fields() {
				addType(f.AsField().XType())
			}
			addType(fn.Out())
			walk(fn.Body())
		}
	}
	return ops
}

// genTables renders the checker's tables as Lean (Gen/C01_Tables.lean).
func genTables() string {
	tm := &t.Map{}
	var b strings.Builder
	b.WriteString("/- REGENERATED by `wvh_c01 -mode gen` from lang/check/bounds.go (numTypeBounds,\nnumShiftBounds, minIdeal/maxIdeal) of the working tree. Do not edit. -/\nnamespace WuffsVerif.Gen.C01\n\n")
	row := func(r [3]*big.Int) string {
		return fmt.Sprintf("(%q, (%s : Int), (%s : Int))", t.ID(r[0].Int64()).Str(tm), r[1].String(), r[2].String())
	}
	b.WriteString("def numTypeBounds : List (String × Int × Int) := [\n")
	rows := check.VerifNumTypeBounds()
	for i, r := range rows {
		sep := ","
		if i == len(rows)-1 {
			sep = ""
		}
		b.WriteString("  " + row(r) + sep + "\n")
	}
	b.WriteString("]\n\ndef numShiftBounds : List (String × Int × Int) := [\n")
	rows = check.VerifNumShiftBounds()
	for i, r := range rows {
		sep := ","
		if i == len(rows)-1 {
			sep = ""
		}
		b.WriteString("  " + row(r) + sep + "\n")
	}
	lo, hi := check.VerifMinMaxIdeal()
	fmt.Fprintf(&b, "]\n\n/-- bit length of -minIdeal and of maxIdeal (both are ±2^k) -/\ndef minIdealLog2 : Nat := %d\ndef maxIdealLog2 : Nat := %d\ndef minIdealIsNegPow2 : Bool := %v\ndef maxIdealIsPow2 : Bool := %v\n",
		new(big.Int).Neg(lo).BitLen()-1, hi.BitLen()-1,
		new(big.Int).Neg(lo).Cmp(new(big.Int).Lsh(big.NewInt(1), uint(new(big.Int).Neg(lo).BitLen()-1))) == 0,
		hi.Cmp(new(big.Int).Lsh(big.NewInt(1), uint(hi.BitLen()-1))) == 0)
	b.WriteString("\n/-- bitMask n for the widths the checker special-cases, and a few others -/\ndef bitMasks : List (Nat × Int) := [\n")
	ws := []int{0, 1, 2, 7, 8, 9, 16, 31, 32, 33, 63, 64, 65}
	for i, w := range ws {
		sep := ","
		if i == len(ws)-1 {
			sep = ""
		}
		fmt.Fprintf(&b, "  (%d, (%s : Int))%s\n", w, check.VerifBitMask(w).String(), sep)
	}
	b.WriteString("]\n\n/-- ioMethodAdvances (bounds.go): method, bytes the checker demands as `length() >= n`\nbefore the unchecked call, whether the call consumes them -/\ndef ioMethodAdvances : List (String × Nat × Bool) := [\n")
	adv := check.VerifIOMethodAdvances()
	for i, r := range adv {
		sep := ","
		if i == len(adv)-1 {
			sep = ""
		}
		fmt.Fprintf(&b, "  (%q, %s, %v)%s\n", r.Method, r.Advance.String(), r.Update, sep)
	}
	b.WriteString("]\n\nend WuffsVerif.Gen.C01\n")
	return b.String()
}
