package main

// Negative corpus: corpus/C01/reject/*.wuffs are small programs outside the
// generator's fragment (slices, I/O, coroutine suspension) that the checker MUST
// reject, each for one mechanism of the property. A program that is accepted
// is a failure; its `//C` lines (the body of a C main, with `f` the initialised
// object and FN(name) the method's C name) are then compiled against the
// generated C and run under ASan+UBSan to show the violation at run time.

import (
	"fmt"
	"os"
	"path/filepath"
	"sort"
	"strings"

	"wvh/hlib"
)

func runMustReject(r *hlib.Run, tools *cTools) {
	dirIn := filepath.Join("corpus", "C01", "reject")
	ents, err := os.ReadDir(dirIn)
	if err != nil {
		r.Count("mustreject:no-corpus")
		return
	}
	var names []string
	for _, e := range ents {
		if strings.HasSuffix(e.Name(), ".wuffs") {
			names = append(names, e.Name())
		}
	}
	sort.Strings(names)
	dir, cleanup := hlib.NewScratchDir("c01mr")
	defer cleanup()
	for i, nm := range names {
		b, err := os.ReadFile(filepath.Join(dirIn, nm))
		if err != nil {
			continue
		}
		var why string
		var drv, body []string
		for _, ln := range strings.Split(string(b), "\n") {
			switch {
			case strings.HasPrefix(ln, "// must-reject:"):
				why = strings.TrimSpace(strings.TrimPrefix(ln, "// must-reject:"))
			case strings.HasPrefix(ln, "//C "):
				drv = append(drv, strings.TrimPrefix(ln, "//C "))
			default:
				body = append(body, ln)
			}
		}
		src := strings.Join(body, "\n")
		_, rerr := Real(src)
		if rerr != nil {
			cls := errClass(rerr)
			r.Count("mustreject:rejected:" + cls)
			if cls == "rej:parse" || cls == "rej:type" || cls == "rej:front-end-panic" || cls == "rej:internal-error" {
				// the program must fail in the BOUNDS phase, else it tests nothing
				r.Fail("mustreject:corpus-program-ill-formed:"+nm, "the negative corpus program is rejected for the wrong reason: "+firstLine(rerr.Error()), src)
			}
			continue
		}
		desc := "a program that must be rejected is accepted: " + why
		if tools != nil && len(drv) > 0 {
			pkg := fmt.Sprintf("mr%d", i)
			if trap, msg, out, err := runMustRejectC(tools, dir, pkg, src, drv); err != nil {
				desc += " [C driver not run: " + err.Error() + "]"
			} else if trap != "" {
				desc += fmt.Sprintf(" [generated C under sanitizers: %s: %s]", trap, msg)
			} else {
				desc += fmt.Sprintf(" [generated C ran without a sanitizer report; output %q]", out)
			}
		}
		r.Fail("mustreject:accepted:"+strings.TrimSuffix(nm, ".wuffs"), desc, "// C driver:\n//   "+strings.Join(drv, "\n//   ")+"\n"+src)
	}
	r.Extra("mustreject_programs", len(names))
}

func runMustRejectC(tools *cTools, dir, pkg, src string, drv []string) (trap, msg, out string, err error) {
	body, err := genC(tools.wuffsC, dir, &CProg{Pkg: pkg, Src: src})
	if err != nil {
		return "", "", "", err
	}
	var b strings.Builder
	fmt.Fprintf(&b, "#define WUFFS_IMPLEMENTATION\n#define WUFFS_CONFIG__MODULES\n#define WUFFS_CONFIG__MODULE__%s\n#include %q\n#include <stdio.h>\n#include <stdlib.h>\n#include <string.h>\n", strings.ToUpper(pkg), tools.baseC)
	b.WriteString(body)
	fmt.Fprintf(&b, "\n#define FN(name) wuffs_%s__foo__##name\nint main(void) {\n  wuffs_%s__foo f;\n  if (wuffs_%s__foo__initialize(&f, sizeof f, WUFFS_VERSION, 0).repr) { printf(\"init-failed\\n\"); return 3; }\n", pkg, pkg, pkg)
	for _, ln := range drv {
		b.WriteString("  " + ln + "\n")
	}
	b.WriteString("  fflush(stdout);\n  return 0;\n}\n")
	cfile := filepath.Join(dir, pkg+".c")
	exe := filepath.Join(dir, pkg+".exe")
	if err := os.WriteFile(cfile, []byte(b.String()), 0o644); err != nil {
		return "", "", "", err
	}
	args := []string{"-O0", "-g0", "-w", "-fsanitize=address,undefined", "-fno-sanitize-recover=all"}
	if sanRuntimeDir != "" {
		args = append(args, "-shared-libsan", "-Wl,-rpath,"+sanRuntimeDir)
	}
	if err := hlib.CC("clang", append(args, "-o", exe, cfile, tools.baseO)...); err != nil {
		return "", "", "", fmt.Errorf("cc: %s", ccFirstError(err.Error()))
	}
	o, trap, msg := runIOProbeCase(exe, 0, 0)
	return trap, msg, o, nil
}
