package main

// Independent reference decoder (strict, stored-blocks-only subset of PNG) and a
// small PNG builder for crafted streams.  Uses only the Go standard library's
// hash/crc32 and hash/adler32 — no code from lib/uncompng.

import (
	"bytes"
	"encoding/binary"
	"hash/adler32"
	"hash/crc32"
)

type refImage struct {
	w, h, depth, ct int
	pix             []byte
	nIDAT           int
	blockLens       []int
}

type refChunk struct {
	typ  string
	data []byte
}

var pngSig = []byte{0x89, 'P', 'N', 'G', 0x0D, 0x0A, 0x1A, 0x0A}

func refChannels(ct int) int {
	switch ct {
	case 0:
		return 1
	case 2:
		return 3
	case 4:
		return 2
	case 6:
		return 4
	}
	return 0
}

// refChunks walks the chunk structure, checking lengths and CRCs.
func refChunks(b []byte) ([]refChunk, string) {
	if len(b) < 8 || !bytes.Equal(b[:8], pngSig) {
		return nil, "signature"
	}
	var cs []refChunk
	pos := 8
	for pos < len(b) {
		if len(b)-pos < 12 {
			return nil, "chunk-short"
		}
		l := int(binary.BigEndian.Uint32(b[pos:]))
		if l >= 1<<31 || len(b)-pos < 12+l {
			return nil, "chunk-length"
		}
		typ := b[pos+4 : pos+8]
		data := b[pos+8 : pos+8+l]
		crc := binary.BigEndian.Uint32(b[pos+8+l:])
		if crc32.ChecksumIEEE(b[pos+4:pos+8+l]) != crc {
			return nil, "chunk-crc"
		}
		cs = append(cs, refChunk{string(typ), data})
		pos += 12 + l
	}
	return cs, ""
}

// refDecode returns the image or the name of the first violated rule.
func refDecode(b []byte) (*refImage, string) {
	cs, why := refChunks(b)
	if why != "" {
		return nil, why
	}
	if len(cs) == 0 || cs[0].typ != "IHDR" || len(cs[0].data) != 13 {
		return nil, "ihdr"
	}
	d := cs[0].data
	w := int(binary.BigEndian.Uint32(d[0:]))
	h := int(binary.BigEndian.Uint32(d[4:]))
	depth, ct := int(d[8]), int(d[9])
	if w == 0 || h == 0 || w >= 1<<31 || h >= 1<<31 {
		return nil, "dims"
	}
	if d[10] != 0 || d[11] != 0 || d[12] != 0 {
		return nil, "ihdr-methods"
	}
	if depth != 8 && depth != 16 {
		return nil, "depth"
	}
	ch := refChannels(ct)
	if ch == 0 {
		return nil, "colortype"
	}
	var z []byte
	i := 1
	for i < len(cs) && cs[i].typ == "IDAT" {
		z = append(z, cs[i].data...)
		i++
	}
	nIDAT := i - 1
	if nIDAT == 0 {
		return nil, "no-idat"
	}
	if i != len(cs)-1 || cs[i].typ != "IEND" || len(cs[i].data) != 0 {
		return nil, "chunk-order"
	}
	if len(z) < 2 {
		return nil, "zlib-header"
	}
	cmf, flg := z[0], z[1]
	if cmf&0x0F != 8 || cmf>>4 > 7 || (int(cmf)*256+int(flg))%31 != 0 || flg&0x20 != 0 {
		return nil, "zlib-header"
	}
	z = z[2:]
	var raw []byte
	var blockLens []int
	for {
		if len(z) < 5 {
			return nil, "deflate-short"
		}
		hdr := z[0]
		if hdr&6 != 0 {
			return nil, "deflate-btype"
		}
		l := int(z[1]) | int(z[2])<<8
		nl := int(z[3]) | int(z[4])<<8
		if l+nl != 65535 {
			return nil, "deflate-nlen"
		}
		z = z[5:]
		if len(z) < l {
			return nil, "deflate-short"
		}
		raw = append(raw, z[:l]...)
		blockLens = append(blockLens, l)
		z = z[l:]
		if hdr&1 == 1 {
			break
		}
	}
	if len(z) != 4 {
		return nil, "zlib-trailer"
	}
	if binary.BigEndian.Uint32(z) != adler32.Checksum(raw) {
		return nil, "adler"
	}
	rb := w * ch * (depth / 8)
	pix := make([]byte, 0, len(raw))
	for y := 0; y < h; y++ {
		if len(raw) < 1 || raw[0] != 0 || len(raw)-1 < rb {
			return nil, "scanline"
		}
		pix = append(pix, raw[1:1+rb]...)
		raw = raw[1+rb:]
	}
	if len(raw) != 0 {
		return nil, "scanline-length"
	}
	return &refImage{w, h, depth, ct, pix, nIDAT, blockLens}, ""
}

// ---- builder for crafted streams

func mkChunk(typ string, data []byte) []byte {
	out := make([]byte, 0, 12+len(data))
	var l [4]byte
	binary.BigEndian.PutUint32(l[:], uint32(len(data)))
	out = append(out, l[:]...)
	out = append(out, typ...)
	out = append(out, data...)
	binary.BigEndian.PutUint32(l[:], crc32.ChecksumIEEE(out[4:]))
	return append(out, l[:]...)
}

func mkIHDR(w, h uint32, depth, ct, comp, filt, ilace byte) []byte {
	d := make([]byte, 13)
	binary.BigEndian.PutUint32(d[0:], w)
	binary.BigEndian.PutUint32(d[4:], h)
	d[8], d[9], d[10], d[11], d[12] = depth, ct, comp, filt, ilace
	return d
}

// mkStored frames raw as stored DEFLATE blocks cut at the given lengths (the rest in a last block).
func mkStored(raw []byte, cuts []int, hdrJunk byte) []byte {
	var out []byte
	for {
		n := len(raw)
		final := true
		if len(cuts) > 0 {
			if cuts[0] < n {
				n = cuts[0]
				final = false
			}
			cuts = cuts[1:]
		}
		if n > 65535 {
			n = 65535
			final = false
		}
		h := hdrJunk &^ 7
		if final {
			h |= 1
		}
		out = append(out, h, byte(n), byte(n>>8), ^byte(n), ^byte(n>>8))
		out = append(out, raw[:n]...)
		raw = raw[n:]
		if final {
			return out
		}
	}
}

func mkZlib(raw []byte, cuts []int, hdrJunk byte) []byte {
	z := []byte{0x78, 0x01}
	z = append(z, mkStored(raw, cuts, hdrJunk)...)
	var a [4]byte
	binary.BigEndian.PutUint32(a[:], adler32.Checksum(raw))
	return append(z, a[:]...)
}

// mkPNG assembles signature, IHDR, the zlib stream split into IDAT chunks at the given cut lengths, IEND.
func mkPNG(ihdr []byte, z []byte, idatCuts []int) []byte {
	out := append([]byte(nil), pngSig...)
	out = append(out, mkChunk("IHDR", ihdr)...)
	for {
		n := len(z)
		last := true
		if len(idatCuts) > 0 {
			if idatCuts[0] < n {
				n = idatCuts[0]
				last = false
			}
			idatCuts = idatCuts[1:]
		}
		out = append(out, mkChunk("IDAT", z[:n])...)
		z = z[n:]
		if last {
			break
		}
	}
	return append(out, mkChunk("IEND", nil)...)
}
