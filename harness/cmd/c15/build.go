// File builders for the C15 harness: an independent RAC index-node encoder, a
// random index-tree generator (multi-level, CBiasing, mixed leaf/branch nodes,
// long codecs, empty elements), writer-made files, and an independent index
// parser used to aim mutations at nodes.
package main

import (
	"bytes"
	"hash/adler32"
	"hash/crc32"

	"github.com/google/wuffs/lib/rac"
	"github.com/google/wuffs/lib/raczlib"
	"wvh/hlib"
)

func put48(b []byte, v uint64) {
	for i := 0; i < 6; i++ {
		b[i] = byte(v >> (8 * uint(i)))
	}
}

func get48(b []byte) uint64 {
	v := uint64(0)
	for i := 5; i >= 0; i-- {
		v = v<<8 | uint64(b[i])
	}
	return v
}

// fixSum repairs the checksum of the node at b[0:], if it fits.
func fixSum(b []byte) bool {
	if len(b) < 4 {
		return false
	}
	size := 16*int(b[3]) + 16
	if b[3] == 0 || size > len(b) {
		return false
	}
	c := crc32.ChecksumIEEE(b[6:size])
	c ^= c >> 16
	b[4] = byte(c)
	b[5] = byte(c >> 8)
	return true
}

// elem is one element of a branch node, as encoded.
type elem struct {
	dsize uint64
	ttag  byte
	stag  byte
	clen  byte
	cptr  uint64 // for a 0xFD element: the low 6 bytes of the long codec
}

// encodeNode encodes a branch node. dptrs are the running sum of dsize.
func encodeNode(es []elem, codecByte byte, cPtrMax uint64, version byte) []byte {
	a := len(es)
	b := make([]byte, 16*a+16)
	copy(b, "\x72\xC3\x63")
	b[3] = byte(a)
	d := uint64(0)
	for i, e := range es {
		if i > 0 {
			put48(b[8*i:], d)
		}
		b[8*i+7] = e.ttag
		d += e.dsize
	}
	put48(b[8*a:], d)
	b[8*a+7] = codecByte
	base := 8*a + 8
	for i, e := range es {
		put48(b[base+8*i:], e.cptr)
		b[base+8*i+6] = e.clen
		b[base+8*i+7] = e.stag
	}
	put48(b[base+8*a:], cPtrMax)
	b[base+8*a+6] = version
	b[base+8*a+7] = byte(a)
	fixSum(b)
	return b
}

// nodeInfo locates an index node inside a file.
type nodeInfo struct {
	off   int
	arity int
	cbias uint64
	depth int
}

// ---- random index trees ----

type tkind int

const (
	kLeaf   tkind = iota // a chunk (possibly empty: dsize 0)
	kBranch              // a child branch node
	kCodec               // a 0xFD codec element
	kMeta                // an empty leaf holding metadata / a CBias anchor
)

type telem struct {
	kind    tkind
	dsize   uint64
	child   *tnode
	payload []byte // leaf: primary data
	off     int    // leaf payload offset (assigned)
	clen    byte
	biasing bool // branch: CBiasing through a kMeta anchor element
	anchor  int  // index of the anchor element (biasing)
}

type tnode struct {
	elems     []telem
	codecByte byte
	longCodec uint64 // low 56 bits, if codecByte&0x80
	version   byte
	off       int
	cbias     uint64
	depth     int
	dsize     uint64
	anchorIdx int
	anchorOff uint64
}

type treeCfg struct {
	codec     int // 0 zeroes, 1 zlib, 2 long zeroes, 3 long other
	maxDepth  int
	maxArity  int
	emptyProb int  // percent
	budget    *int // remaining branch nodes
}

type builtFile struct {
	data    []byte
	nodes   []nodeInfo
	content []byte // expected decompressed bytes, nil if unknown
	desc    string
}

// zlibOf wraps p in a zlib stream of stored (uncompressed) deflate blocks, as in
// the spec's "More!" example. No compress/flate writer: they cost ~1 MB each.
func zlibOf(p []byte) []byte {
	out := []byte{0x78, 0x9c}
	for first := true; first || len(p) > 0; first = false {
		n := len(p)
		if n > 0xFFFF {
			n = 0xFFFF
		}
		final := byte(0)
		if n == len(p) {
			final = 1
		}
		out = append(out, final, byte(n), byte(n>>8), byte(^n), byte(^n>>8))
		out = append(out, p[:n]...)
		p = p[n:]
	}
	a := adler32.Checksum(pAll(out))
	return append(out, byte(a>>24), byte(a>>16), byte(a>>8), byte(a))
}

// pAll recovers the payload bytes of the stored blocks written by zlibOf.
func pAll(z []byte) []byte {
	var p []byte
	for i := 2; i < len(z); {
		n := int(z[i+1]) | int(z[i+2])<<8
		p = append(p, z[i+5:i+5+n]...)
		i += 5 + n
	}
	return p
}

func genContent(rng *hlib.Rand, n int) []byte {
	b := make([]byte, n)
	words := []string{"sheep ", "One ", "Two ", "\x00\x00\x00\x00", "rac", "\n"}
	for i := 0; i < n; {
		w := words[rng.Intn(len(words))]
		if rng.Chance(1, 5) {
			w = string(rng.Bytes(1 + rng.Intn(3)))
		}
		i += copy(b[i:], w)
	}
	return b
}

// genTree builds a random tree; content accumulates the expected decoding.
func genTree(rng *hlib.Rand, cfg treeCfg, depth int, content *[]byte) *tnode {
	n := &tnode{version: 1, depth: depth}
	arity := 1 + rng.Intn(cfg.maxArity)
	if rng.Chance(1, 40) {
		arity = 200 + rng.Intn(56)
	}
	long := cfg.codec >= 2
	switch cfg.codec {
	case 0:
		n.codecByte = 0
	case 1:
		n.codecByte = 1
	case 2:
		n.longCodec = 0
	case 3:
		n.longCodec = 0x326F646D
	}
	if rng.Chance(1, 3) {
		n.codecByte |= 0x40
	}
	codecPos := -1
	if long {
		if arity < 2 {
			arity = 2
		}
		codecPos = rng.Intn(arity)
		if rng.Chance(1, 2) {
			codecPos = 0
		}
		n.codecByte = 0x80 | (n.codecByte & 0x40) | byte(codecPos&0x3F)
		// an earlier c64+64j position must not be another 0xFD element: we only
		// ever place one 0xFD element, and lower j are checked first, so put it
		// where the lowest matching index is codecPos itself.
		if codecPos >= 64 {
			codecPos &= 0x3F
			n.codecByte = 0x80 | (n.codecByte & 0x40) | byte(codecPos)
		}
	}
	haveChild := false
	for i := 0; i < arity; i++ {
		var e telem
		switch {
		case i == codecPos:
			e.kind = kCodec
		case depth < cfg.maxDepth && *cfg.budget > 0 && rng.Chance(2, 5):
			*cfg.budget--
			e.kind = kBranch
			e.child = genTree(rng, cfg, depth+1, content)
			e.dsize = e.child.dsize
			e.biasing = rng.Chance(1, 4)
			haveChild = true
		case rng.Intn(100) < cfg.emptyProb:
			if rng.Bool() {
				e.kind = kMeta
				e.payload = rng.Bytes(rng.Intn(8))
			} else {
				e.kind = kLeaf // empty leaf
			}
			haveChild = true
		default:
			e.kind = kLeaf
			sz := 1 + rng.Intn(40)
			if rng.Chance(1, 10) {
				sz = 1 + rng.Intn(3000)
			}
			e.dsize = uint64(sz)
			if cfg.codec == 1 {
				c := genContent(rng, sz)
				k := sz
				if rng.Chance(1, 4) {
					k = rng.Intn(sz + 1) // the rest is implicit zeroes
					for j := k; j < sz; j++ {
						c[j] = 0
					}
				}
				e.payload = zlibOf(c[:k])
				*content = append(*content, c...)
			} else {
				e.payload = rng.Bytes(rng.Intn(6))
				*content = append(*content, make([]byte, sz)...)
			}
			if rng.Chance(1, 3) {
				e.clen = byte((len(e.payload) + 1023) / 1024)
				if e.clen == 0 {
					e.clen = 1
				}
			}
			haveChild = true
		}
		n.dsize += e.dsize
		n.elems = append(n.elems, e)
	}
	if !haveChild {
		// all elements are codec elements (arity 2 long codec can do that): add a leaf
		n.elems = append(n.elems, telem{kind: kLeaf})
	}
	if len(n.elems) > 255 {
		n.elems = n.elems[:255]
		n.dsize = 0
		for _, e := range n.elems {
			n.dsize += e.dsize
		}
	}
	// CBiasing branches need an anchor element in this node
	for i := range n.elems {
		if n.elems[i].kind == kBranch && n.elems[i].biasing {
			a := -1
			for j := range n.elems {
				if n.elems[j].kind == kMeta {
					a = j
					break
				}
			}
			if a < 0 && len(n.elems) < 255 {
				n.elems = append(n.elems, telem{kind: kMeta})
				a = len(n.elems) - 1
			}
			if a < 0 {
				n.elems[i].biasing = false
			}
			n.elems[i].anchor = a
		}
	}
	return n
}

func collect(n *tnode, out *[]*tnode) {
	*out = append(*out, n)
	for i := range n.elems {
		if n.elems[i].kind == kBranch {
			collect(n.elems[i].child, out)
		}
	}
}

func collectPost(n *tnode, out *[]*tnode) {
	for i := range n.elems {
		if n.elems[i].kind == kBranch {
			collectPost(n.elems[i].child, out)
		}
	}
	*out = append(*out, n)
}

// layout assigns offsets and serialises. order: 0 post-order (children before
// parents), 1 pre-order, 2 shuffled. rootAtEnd puts the root last.
func layout(rng *hlib.Rand, root *tnode, order int, rootAtEnd bool) builtFile {
	var nodes []*tnode
	switch order {
	case 0:
		collectPost(root, &nodes)
		nodes = nodes[:len(nodes)-1]
	default:
		collect(root, &nodes)
		nodes = nodes[1:]
		if order == 2 {
			for i := len(nodes) - 1; i > 0; i-- {
				j := rng.Intn(i + 1)
				nodes[i], nodes[j] = nodes[j], nodes[i]
			}
		}
	}
	var all []*tnode
	collect(root, &all)
	pos := 0
	if rootAtEnd {
		pos = 4 // "\x72\xC3\x63\x00"
	} else {
		root.off = 0
		pos = 16*len(root.elems) + 16
	}
	// interleave: payloads of a node right before/after it, some padding
	place := func(n *tnode) {
		for i := range n.elems {
			e := &n.elems[i]
			if e.kind == kLeaf || e.kind == kMeta {
				if rng.Chance(1, 6) {
					pos += rng.Intn(5)
				}
				e.off = pos
				pos += len(e.payload)
			}
		}
	}
	if !rootAtEnd {
		place(root)
	}
	for _, n := range nodes {
		if rng.Bool() {
			place(n)
			n.off = pos
			pos += 16*len(n.elems) + 16
		} else {
			n.off = pos
			pos += 16*len(n.elems) + 16
			place(n)
		}
	}
	if rootAtEnd {
		place(root)
		root.off = pos
		pos += 16*len(root.elems) + 16
	}
	size := pos
	data := make([]byte, size)
	if rootAtEnd {
		copy(data, "\x72\xC3\x63\x00")
	}
	// biases: top-down. A node has at most one anchor element (kMeta), shared by
	// all its CBiasing children; the anchor's COff is ≤ everything they point at.
	var setBias func(n *tnode, cbias uint64)
	setBias = func(n *tnode, cbias uint64) {
		n.cbias = cbias
		n.anchorIdx, n.anchorOff = -1, 0
		lim := uint64(size)
		for i := range n.elems {
			e := &n.elems[i]
			if e.kind == kBranch && e.biasing {
				n.anchorIdx = e.anchor
				if m := uint64(minOffset(e.child)); m < lim {
					lim = m
				}
			}
		}
		if n.anchorIdx >= 0 && lim >= cbias {
			n.anchorOff = cbias + uint64(rng.Intn(int(lim-cbias)+1))
		} else {
			n.anchorIdx = -1
		}
		for i := range n.elems {
			e := &n.elems[i]
			if e.kind != kBranch {
				continue
			}
			if e.biasing && n.anchorIdx >= 0 {
				setBias(e.child, n.anchorOff)
			} else {
				e.biasing = false
				setBias(e.child, cbias)
			}
		}
	}
	setBias(root, 0)
	var infos []nodeInfo
	for _, n := range all {
		es := make([]elem, len(n.elems))
		for i := range n.elems {
			e := &n.elems[i]
			switch e.kind {
			case kLeaf:
				es[i] = elem{dsize: e.dsize, ttag: 0xFF, stag: 0xFF, clen: e.clen, cptr: uint64(e.off) - n.cbias}
				copy(data[e.off:], e.payload)
			case kMeta:
				off := uint64(e.off)
				if i == n.anchorIdx {
					off = n.anchorOff
				}
				es[i] = elem{ttag: 0xFF, stag: 0xFF, cptr: off - n.cbias}
				copy(data[e.off:], e.payload)
			case kCodec:
				es[i] = elem{ttag: 0xFD, stag: 0xFF, clen: byte(n.longCodec >> 48), cptr: n.longCodec & 0xFFFFFFFFFFFF}
			case kBranch:
				st := byte(0xFF)
				if e.biasing {
					st = byte(n.anchorIdx)
				}
				es[i] = elem{dsize: e.dsize, ttag: 0xFE, stag: st, cptr: uint64(e.child.off) - n.cbias}
			}
		}
		enc := encodeNode(es, n.codecByte, uint64(size)-n.cbias, n.version)
		copy(data[n.off:], enc)
		infos = append(infos, nodeInfo{off: n.off, arity: len(n.elems), cbias: n.cbias, depth: n.depth})
	}
	return builtFile{data: data, nodes: infos}
}

func minOffset(n *tnode) int {
	m := n.off
	for i := range n.elems {
		e := &n.elems[i]
		switch e.kind {
		case kLeaf, kMeta:
			if e.off < m {
				m = e.off
			}
		case kBranch:
			if x := minOffset(e.child); x < m {
				m = x
			}
		}
	}
	return m
}

func buildTreeFile(rng *hlib.Rand) builtFile {
	budget := 1 + rng.Intn(12)
	if rng.Chance(1, 10) {
		budget = 40 + rng.Intn(60)
	}
	cfg := treeCfg{codec: rng.Intn(4), maxDepth: rng.Intn(6), maxArity: 1 + rng.Intn(7), emptyProb: rng.Intn(40), budget: &budget}
	if rng.Chance(1, 2) {
		cfg.codec = rng.Intn(2)
	}
	var content []byte
	root := genTree(rng, cfg, 0, &content)
	order := 0
	if rng.Chance(2, 5) {
		order = 1 + rng.Intn(2)
	}
	atEnd := rng.Bool()
	bf := layout(rng, root, order, atEnd)
	// children before parents and the root last: COffsets descend, so the anti-loop
	// rule holds whatever the DPtrMax values are, and the file is well-formed
	if (cfg.codec == 0 || cfg.codec == 1 || cfg.codec == 2) && order == 0 && atEnd {
		bf.content = content
	}
	bf.desc = "tree"
	return bf
}

// ---- writer-made files ----

func buildChunkWriterFile(rng *hlib.Rand) builtFile {
	var out, tmp bytes.Buffer
	w := &rac.ChunkWriter{Writer: &out}
	if rng.Bool() {
		w.IndexLocation = rac.IndexLocationAtStart
		w.TempFile = &tmp
	}
	codec := rac.CodecZeroes
	switch rng.Intn(4) {
	case 1:
		codec = rac.Codec(1 << 63)
	case 2:
		codec = rac.Codec(0x8000000000000000 | (rng.Uint64() & 0x00FFFFFFFFFFFFFF))
	}
	n := 1 + rng.Intn(12)
	switch rng.Intn(16) {
	case 0:
		n = 250 + rng.Intn(12)
	case 1:
		n = 80 + rng.Intn(300)
	case 2:
		n = 500 + rng.Intn(40)
	case 3, 4:
		n = 12 + rng.Intn(60)
	}
	if rng.Chance(1, 3) {
		w.CPageSize = uint64(1) << uint(2+rng.Intn(8))
		if n > 40 {
			w.CPageSize = uint64(1) << uint(2+rng.Intn(3))
		}
	}
	var res []rac.OptResource
	nres := 0
	if rng.Chance(1, 2) {
		nres = 1 + rng.Intn(4)
	}
	manyRes := rng.Chance(1, 6)
	total := 0
	for i := 0; i < n; i++ {
		if len(res) < nres || (manyRes && rng.Chance(1, 2)) {
			id, err := w.AddResource(rng.Bytes(rng.Intn(12)))
			if err == nil {
				res = append(res, id)
			}
		}
		var s, t rac.OptResource
		if len(res) > 0 && rng.Chance(1, 2) {
			s = res[rng.Intn(len(res))]
			if manyRes {
				s = res[len(res)-1]
			}
		}
		if len(res) > 0 && rng.Chance(1, 4) {
			t = res[rng.Intn(len(res))]
		}
		d := 1 + rng.Intn(30)
		total += d
		p := rng.Bytes(rng.Intn(6))
		if rng.Chance(1, 30) && n < 40 {
			p = make([]byte, 1000+rng.Intn(3000))
		}
		if err := w.AddChunk(uint64(d), codec, p, s, t); err != nil {
			break
		}
	}
	if err := w.Close(); err != nil {
		return builtFile{data: append([]byte(nil), rac_empty...), desc: "cw-empty"}
	}
	bf := builtFile{data: append([]byte(nil), out.Bytes()...), desc: "chunkwriter"}
	if codec == rac.CodecZeroes || codec == rac.Codec(1<<63) {
		bf.content = make([]byte, total)
	}
	bf.nodes = parseIndex(bf.data)
	return bf
}

var rac_empty = []byte{
	0x72, 0xC3, 0x63, 0x01, 0x0D, 0xF8, 0x00, 0xFF,
	0x00, 0x00, 0x00, 0x00, 0x00, 0x00, 0x00, 0x00,
	0x20, 0x00, 0x00, 0x00, 0x00, 0x00, 0x01, 0xFF,
	0x20, 0x00, 0x00, 0x00, 0x00, 0x00, 0x01, 0x01,
}

func buildZlibWriterFile(rng *hlib.Rand) builtFile {
	var out, tmp bytes.Buffer
	w := &rac.Writer{Writer: &out, CodecWriter: &raczlib.CodecWriter{}}
	if rng.Bool() {
		w.IndexLocation = rac.IndexLocationAtStart
		w.TempFile = &tmp
	}
	if rng.Bool() {
		w.DChunkSize = uint64(16 + rng.Intn(600))
	} else {
		w.CChunkSize = uint64(64 + rng.Intn(400))
	}
	if rng.Chance(1, 3) {
		w.CPageSize = uint64(1) << uint(3+rng.Intn(6))
	}
	if rng.Chance(1, 3) {
		nr := 1 + rng.Intn(3)
		for i := 0; i < nr; i++ {
			w.ResourcesData = append(w.ResourcesData, genContent(rng, 20+rng.Intn(200)))
		}
	}
	n := rng.Intn(1500)
	if rng.Chance(1, 12) {
		n = 4000 + rng.Intn(6000)
	}
	content := genContent(rng, n)
	for i := 0; i < n; {
		k := 1 + rng.Intn(500)
		if i+k > n {
			k = n - i
		}
		if _, err := w.Write(content[i : i+k]); err != nil {
			return builtFile{data: append([]byte(nil), rac_empty...), desc: "zw-err"}
		}
		i += k
	}
	if err := w.Close(); err != nil {
		return builtFile{data: append([]byte(nil), rac_empty...), desc: "zw-err"}
	}
	bf := builtFile{data: append([]byte(nil), out.Bytes()...), content: content, desc: "zlibwriter"}
	bf.nodes = parseIndex(bf.data)
	return bf
}

// ---- independent index parser (no rac package code) ----

// parseIndex finds the root (start, else end) by magic/arity consistency only and
// walks 0xFE elements. It never loops: each offset is visited once.
func parseIndex(data []byte) []nodeInfo {
	n := len(data)
	if n < 32 {
		return nil
	}
	okAt := func(off int) (int, bool) {
		if off < 0 || off+4 > n || data[off] != 0x72 || data[off+1] != 0xC3 || data[off+2] != 0x63 {
			return 0, false
		}
		a := int(data[off+3])
		if a == 0 || off+16*a+16 > n || data[off+16*a+15] != byte(a) {
			return 0, false
		}
		return a, true
	}
	rootOff := -1
	if a, ok := okAt(0); ok && get48(data[16*a+8:]) == uint64(n) {
		rootOff = 0
	} else {
		a := int(data[n-1])
		off := n - 16*a - 16
		if a2, ok := okAt(off); ok && a2 == a {
			rootOff = off
		}
	}
	if rootOff < 0 {
		return nil
	}
	var out []nodeInfo
	seen := map[int]bool{}
	var walk func(off int, cbias uint64, depth int)
	walk = func(off int, cbias uint64, depth int) {
		a, ok := okAt(off)
		if !ok || seen[off] || len(out) > 2000 {
			return
		}
		seen[off] = true
		out = append(out, nodeInfo{off: off, arity: a, cbias: cbias, depth: depth})
		base := off + 8*a + 8
		for i := 0; i < a; i++ {
			if data[off+8*i+7] != 0xFE {
				continue
			}
			cptr := get48(data[base+8*i:])
			cb := cbias
			if st := int(data[base+8*i+7]); st < a {
				cb = cbias + get48(data[base+8*st:])
			}
			co := cbias + cptr
			if co < uint64(n) {
				walk(int(co), cb, depth+1)
			}
		}
	}
	walk(rootOff, 0, 0)
	return out
}
