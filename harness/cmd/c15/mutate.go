// Hostile-file generators for the C15 harness: index-node mutations (checksum
// repaired), size lies, truncations, directed constructions, random blobs.
package main

import (
	"encoding/binary"
	"encoding/hex"
	"hash/crc32"
	"strings"

	"wvh/hlib"
)

type hostile struct {
	data    []byte
	claimed int64
	kind    string // generator + mutation kinds, for the histogram
	content []byte // expected decoding, nil if unknown / not expected to decode
}

func clone(b []byte) []byte { return append([]byte(nil), b...) }

// mutateNode applies one index-node mutation in place and repairs the checksum
// (except for the checksum-break kind). It returns the kind.
func mutateNode(rng *hlib.Rand, data []byte, nodes []nodeInfo) string {
	nd := nodes[rng.Intn(len(nodes))]
	if len(nodes) > 1 && nd.depth == 0 && rng.Chance(2, 3) {
		nd = nodes[rng.Intn(len(nodes))] // the root less often: most edits there just lose the root
	}
	a := nd.arity
	off := nd.off
	if off+16*a+16 > len(data) {
		return "node-gone"
	}
	b := data[off:]
	base := 8*a + 8
	i := rng.Intn(a)
	kind := ""
	switch rng.Intn(16) {
	case 0: // make element i a branch that points at this very node
		kind = "cptr-self"
		b[8*i+7] = 0xFE
		if uint64(off) >= nd.cbias {
			put48(b[base+8*i:], uint64(off)-nd.cbias)
		}
		if rng.Bool() {
			b[base+8*i+7] = 0xFF
		}
	case 1: // point at another node (parent, root, sibling, ...)
		kind = "cptr-other-node"
		o := nodes[rng.Intn(len(nodes))]
		b[8*i+7] = 0xFE
		if uint64(o.off) >= nd.cbias {
			put48(b[base+8*i:], uint64(o.off)-nd.cbias)
		}
	case 2:
		kind = "cptr-random"
		put48(b[base+8*i:], uint64(rng.Intn(len(data)+40)))
	case 3:
		kind = "cptr-oob"
		v := uint64(len(data)) + uint64(rng.Intn(3))
		if rng.Bool() {
			v = rng.Uint64() & 0xFFFFFFFFFFFF
		}
		put48(b[base+8*i:], v)
	case 4:
		kind = "dptr-edit"
		j := 1 + rng.Intn(a)
		v := get48(b[8*j:])
		switch rng.Intn(5) {
		case 0:
			v++
		case 1:
			if v > 0 {
				v--
			}
		case 2:
			v = uint64(rng.Intn(64))
		case 3:
			v = rng.Uint64() & 0xFFFFFFFFFFFF
		case 4:
			if j > 1 {
				w := get48(b[8*(j-1):])
				put48(b[8*(j-1):], v)
				v = w
			}
		}
		put48(b[8*j:], v)
	case 5:
		kind = "ttag-edit"
		tags := []byte{0xFD, 0xFE, 0xC0, 0xFC, 0xFF, 0x00, 0xBF, byte(rng.Intn(256)), byte(rng.Intn(a + 1))}
		b[8*i+7] = tags[rng.Intn(len(tags))]
	case 6:
		kind = "stag-edit"
		b[base+8*i+7] = byte(rng.Intn(256))
		if rng.Bool() {
			b[base+8*i+7] = byte(rng.Intn(a + 1))
		}
	case 7:
		kind = "clen-edit"
		b[base+8*i+6] = byte(rng.Intn(256))
	case 8:
		kind = "arity-edit"
		d := byte(1)
		if rng.Bool() {
			d = 0xFF
		}
		switch rng.Intn(3) {
		case 0:
			b[3] += d
		case 1:
			b[16*a+15] += d
		case 2:
			b[3] += d
			b[16*a+15] += d
		}
	case 9:
		kind = "version-edit"
		b[16*a+14] = []byte{0, 2, 255}[rng.Intn(3)]
	case 10:
		kind = "codec-edit"
		switch rng.Intn(4) {
		case 0:
			b[8*a+7] ^= 0x40
		case 1:
			b[8*a+7] ^= 0x80
		case 2:
			b[8*a+7] = byte(rng.Intn(256))
		case 3:
			b[8*a+7] = (b[8*a+7] & 0xC0) | byte(rng.Intn(4))
		}
	case 11:
		kind = "reserved-edit"
		b[8*rng.Intn(a+1)+6] = byte(1 + rng.Intn(255))
	case 12:
		kind = "cptrmax-edit"
		v := get48(b[16*a+8:])
		switch rng.Intn(4) {
		case 0:
			v++
		case 1:
			v--
		case 2:
			v = 0
		case 3:
			v = uint64(rng.Intn(len(data) + 1))
		}
		put48(b[16*a+8:], v&0xFFFFFFFFFFFF)
	case 13:
		kind = "magic-edit"
		b[rng.Intn(3)] ^= byte(1 << uint(rng.Intn(8)))
	case 14:
		kind = "checksum-break"
		b[4+rng.Intn(2)] ^= byte(1 << uint(rng.Intn(8)))
		return kind
	case 15:
		kind = "node-byte-flip"
		b[6+rng.Intn(16*a+10)] ^= byte(1 << uint(rng.Intn(8)))
	}
	fixSum(data[off:])
	return kind
}

// mutateFile derives a hostile file from a valid one.
func mutateFile(rng *hlib.Rand, bf builtFile) hostile {
	h := hostile{data: clone(bf.data), claimed: int64(len(bf.data)), kind: bf.desc}
	nm := 1
	if rng.Chance(1, 4) {
		nm = 2 + rng.Intn(2)
	}
	for k := 0; k < nm; k++ {
		m := rng.Intn(20)
		switch {
		case m < 15 && len(bf.nodes) > 0:
			h.kind += "+" + mutateNode(rng, h.data, bf.nodes)
		case m == 15 || (m < 15 && len(bf.nodes) == 0):
			h.kind += "+truncate"
			k := rng.Intn(len(h.data) + 1)
			if len(bf.nodes) > 0 && rng.Bool() {
				nd := bf.nodes[rng.Intn(len(bf.nodes))]
				k = nd.off + []int{0, 1, 3, 4, 5, 16*nd.arity + 15, 16*nd.arity + 16}[rng.Intn(7)]
			}
			if rng.Chance(1, 8) {
				k = rng.Intn(6)
			}
			if k < len(h.data) {
				h.data = h.data[:k]
			}
		case m == 16:
			h.kind += "+claimed"
			n := int64(len(h.data))
			opts := []int64{n - 1, n + 1, n - 16, n + 16, n - 32, 0, 31, 32, 33, -1, -1 << 62, 1 << 50, (1 << 48) - 1, 1 << 48, int64(rng.Intn(len(h.data) + 1))}
			h.claimed = opts[rng.Intn(len(opts))]
		case m == 17:
			h.kind += "+extend"
			h.data = append(h.data, rng.Bytes(1+rng.Intn(40))...)
			h.claimed = int64(len(h.data))
		default:
			h.kind += "+flip-any"
			if len(h.data) > 0 {
				h.data[rng.Intn(len(h.data))] ^= byte(1 << uint(rng.Intn(8)))
			}
			for _, nd := range bf.nodes {
				if nd.off < len(h.data) {
					fixSum(h.data[nd.off:])
				}
			}
		}
	}
	return h
}

// randomBlob: 32..4096 bytes with valid magic, three levels of plausibility.
func randomBlob(rng *hlib.Rand) hostile {
	n := 32 + rng.Intn(4065)
	if rng.Bool() {
		n = 32 + rng.Intn(200)
	}
	b := rng.Bytes(n)
	copy(b, "\x72\xC3\x63")
	kind := "blob-random"
	switch rng.Intn(3) {
	case 1: // consistent arity, reserved zeros, checksum: gets deep into valid()
		kind = "blob-consistent"
		a := 1 + rng.Intn((n-16)/16)
		if a > 255 {
			a = 255
		}
		atEnd := rng.Bool()
		off := 0
		if atEnd {
			off = n - 16*a - 16
			if off < 4 {
				off = 0
			} else {
				b[3] = 0
			}
		}
		nb := b[off:]
		copy(nb, "\x72\xC3\x63")
		nb[3] = byte(a)
		nb[16*a+15] = byte(a)
		for i := 0; i <= a; i++ {
			nb[8*i+6] = 0
		}
		if rng.Bool() {
			put48(nb[16*a+8:], uint64(n))
		}
		if rng.Bool() {
			nb[16*a+14] = 1
		}
		fixSum(nb)
	case 2: // a random but well-formed node with small values
		kind = "blob-node"
		a := 1 + rng.Intn((n-16)/16)
		if a > 255 {
			a = 255
		}
		if rng.Chance(3, 4) && a > 6 {
			a = 1 + rng.Intn(6)
		}
		es := make([]elem, a)
		for i := range es {
			es[i] = elem{dsize: uint64(rng.Intn(4)), ttag: []byte{0xFF, 0xFF, 0xFE, 0xFD, 0x00, byte(rng.Intn(256))}[rng.Intn(6)],
				stag: byte(rng.Intn(256)), clen: byte(rng.Intn(3)), cptr: uint64(rng.Intn(n + 2))}
		}
		cb := byte(rng.Intn(4))
		if rng.Chance(1, 4) {
			cb = byte(rng.Intn(256))
		}
		nb := encodeNode(es, cb, uint64(n), byte(1+rng.Intn(8)/7))
		off := 0
		if rng.Bool() && n-len(nb) >= 4 {
			off = n - len(nb)
			b[3] = 0
		}
		copy(b[off:], nb)
	}
	return hostile{data: b, claimed: int64(n), kind: kind}
}

// ---- directed constructions (each reproduces one way the unrepaired reader fails) ----

func leaf(d uint64, cptr uint64) elem   { return elem{dsize: d, ttag: 0xFF, stag: 0xFF, cptr: cptr} }
func branch(d uint64, cptr uint64) elem { return elem{dsize: d, ttag: 0xFE, stag: 0xFF, cptr: cptr} }

func cat(parts ...[]byte) []byte {
	var out []byte
	for _, p := range parts {
		out = append(out, p...)
	}
	return out
}

func unhexSpec(s string) []byte {
	b, err := hex.DecodeString(strings.Join(strings.Fields(s), ""))
	if err != nil {
		panic(err)
	}
	return b
}

var specMore = unhexSpec(`72 c3 63 00 78 9c 01 06  00 f9 ff 4d 6f 72 65 21 0a 07 42 01 bf 72 c3 63  01 65 a9 00 ff 06 00 00
 00 00 00 00 01 04 00 00  00 00 00 01 ff 35 00 00 00 00 00 01 01`)

var specSheep = unhexSpec(`72 c3 63 04 37 39 00 ff  00 00 00 00 00 00 00 ff 0b 00 00 00 00 00 00 ff  16 00 00 00 00 00 00 ff
 23 00 00 00 00 00 00 01  50 00 00 00 00 00 01 ff 60 00 00 00 00 00 01 00  75 00 00 00 00 00 01 00
 8a 00 00 00 00 00 01 00  a1 00 00 00 00 00 01 04 08 00 00 00 20 73 68 65  65 70 2e 0a d0 8d 7a 47
 78 f9 0b e0 02 6e f2 cf  4b 85 31 01 01 00 00 ff ff 17 21 03 90 78 f9 0b  e0 02 6e 0a 29 cf 87 31
 01 01 00 00 ff ff 18 0c  03 a8 78 f9 0b e0 02 6e 0a c9 28 4a 4d 85 71 00  01 00 00 ff ff 21 6e 04 66`)

var specConcatRoot = unhexSpec(`72 c3 63 03 83 16 00 ff 00 00 00 00 00 00 00 fe 23 00 00 00 00 00 00 fe 29 00
 00 00 00 00 00 01 a1 00 00 00 00 00 00 ff 00 00 00 00 00 00 04 01 b6 00 00 00 00 00 04 00 16 01 00 00 00 00 01 03`)

// directed returns the i'th directed construction (i taken modulo their number).
func directed(rng *hlib.Rand, i int) hostile {
	const N = 17
	switch i % N {
	case 0: // 32-byte root that lists itself as its only (branch) child
		d := uint64(1 + rng.Intn(200))
		b := encodeNode([]elem{branch(d, 0)}, 0, 32, 1)
		return hostile{data: b, claimed: 32, kind: "directed-selfloop32"}
	case 1: // cycle of k nodes with equal DPtrMax (ascending, descending or mixed offsets)
		k := 2 + rng.Intn(5)
		d := uint64(1 + rng.Intn(50))
		size := uint64(32 * k)
		// node 0 is the root: slot 0 (start) or slot k-1 (end); the others are shuffled
		perm := make([]int, k)
		rootSlot := 0
		if rng.Bool() {
			rootSlot = k - 1
		}
		var rest []int
		for j := 0; j < k; j++ {
			if j != rootSlot {
				rest = append(rest, j)
			}
		}
		for j := len(rest) - 1; j > 0; j-- {
			x := rng.Intn(j + 1)
			rest[j], rest[x] = rest[x], rest[j]
		}
		perm[0] = rootSlot
		copy(perm[1:], rest)
		data := make([]byte, size)
		// node j lives at slot perm[j] and points to node (j+1)%k
		for j := 0; j < k; j++ {
			next := perm[(j+1)%k]
			copy(data[32*perm[j]:], encodeNode([]elem{branch(d, uint64(32*next))}, 0, size, 1))
		}
		return hostile{data: data, claimed: int64(size), kind: "directed-cycle"}
	case 2: // chain of k single-child branches, descending offsets, equal DPtrMax: VALID per the spec
		k := 1 + rng.Intn(60)
		if rng.Chance(1, 10) {
			k = 100 + rng.Intn(150)
		}
		d := uint64(1 + rng.Intn(50))
		size := uint64(4 + 32*(k+1))
		data := make([]byte, size)
		copy(data, "\x72\xC3\x63\x00")
		copy(data[4:], encodeNode([]elem{leaf(d, 0)}, 0, size, 1))
		for j := 1; j <= k; j++ {
			copy(data[4+32*j:], encodeNode([]elem{branch(d, uint64(4+32*(j-1)))}, 0, size, 1))
		}
		return hostile{data: data, claimed: int64(size), kind: "directed-desc-chain", content: make([]byte, d)}
	case 3: // the same chain ascending from a root at the start: violates the anti-loop rule
		k := 1 + rng.Intn(20)
		d := uint64(1 + rng.Intn(50))
		size := uint64(32 * (k + 1))
		data := make([]byte, size)
		for j := 0; j < k; j++ {
			copy(data[32*j:], encodeNode([]elem{branch(d, uint64(32*(j+1)))}, 0, size, 1))
		}
		copy(data[32*k:], encodeNode([]elem{leaf(d, 0)}, 0, size, 1))
		return hostile{data: data, claimed: int64(size), kind: "directed-asc-chain"}
	case 4: // stale currNode bytes: an end "root" whose byte 3 is not the file's last byte
		csize := uint64(4096 + 64 + 32)
		C := encodeNode([]elem{leaf(5, 100), leaf(5, 200), leaf(5, 300)}, 0, csize, 1)
		es := make([]elem, 255)
		es[0] = branch(15, 4096)
		for j := 1; j < 255; j++ {
			es[j] = elem{dsize: 1, ttag: 0xFF, stag: 0xFF, clen: 1, cptr: uint64(j)}
		}
		es[3].ttag = 1 // byte 31 of the node = the file's last byte = arity 1
		H := encodeNode(es, 0, csize, 1)
		S := clone(H)
		S[4] ^= byte(1 + rng.Intn(255))
		return hostile{data: cat(S, C, H[:32]), claimed: int64(csize), kind: "directed-stale-root"}
	case 5: // a 0xFD codec element with a non-empty DRange after an empty element
		es := []elem{leaf(0, 64), {dsize: 10, ttag: 0xFD, stag: 0xFF, cptr: 0xFFFFFFFFFFFF}, leaf(10, 64)}
		cb := byte(0)
		if rng.Bool() {
			cb = 0x81
		}
		return hostile{data: encodeNode(es, cb, 64, 1), claimed: 64, kind: "directed-fd-nonempty"}
	case 6: // short underlying file: a child node lies beyond the real end
		claimed := uint64(64 + rng.Intn(100))
		root := encodeNode([]elem{branch(100, 32), leaf(7, 40)}, 0, claimed, 1)
		child := encodeNode([]elem{leaf(100, 0)}, 0, claimed, 1)
		data := cat(root, child)[:48+rng.Intn(17)]
		if rng.Bool() {
			// root at the end of the claimed size is not there at all
			return hostile{data: []byte("\x72\xC3\x63\x00"), claimed: int64(claimed), kind: "directed-short-file"}
		}
		return hostile{data: data, claimed: int64(claimed), kind: "directed-short-file"}
	case 7: // no valid root: CPtrMax != CompressedSize, but a decent-looking node is in the buffer
		b := encodeNode([]elem{leaf(100, 40), leaf(5, 41)}, 0, 50, 1)
		b = append(b, make([]byte, 16)...)
		return hostile{data: b, claimed: int64(len(b)), kind: "directed-missing-root"}
	case 8: // mixed node: a leaf followed by a branch (spec-valid)
		codec := byte(rng.Intn(2)) // zeroes or zlib
		mk := func(p []byte) []byte {
			if codec == 1 {
				return zlibOf(p)
			}
			return nil
		}
		c0, c1, c2 := genContent(rng, 10), genContent(rng, 4), genContent(rng, 6)
		if codec == 0 {
			c0, c1, c2 = make([]byte, 10), make([]byte, 4), make([]byte, 6)
		}
		p0, p1, p2 := mk(c0), mk(c1), mk(c2)
		o0 := uint64(48 + 48)
		o1 := o0 + uint64(len(p0))
		o2 := o1 + uint64(len(p1))
		size := o2 + uint64(len(p2))
		root := encodeNode([]elem{leaf(10, o0), branch(10, 48)}, codec, size, 1)
		child := encodeNode([]elem{leaf(4, o1), leaf(6, o2)}, codec, size, 1)
		return hostile{data: cat(root, child, p0, p1, p2), claimed: int64(size), kind: "directed-mixed-node", content: cat(c0, c1, c2)}
	case 9:
		return hostile{data: clone(specMore), claimed: int64(len(specMore)), kind: "directed-spec-more", content: []byte("More!\n")}
	case 10:
		return hostile{data: clone(specSheep), claimed: int64(len(specSheep)), kind: "directed-spec-sheep", content: []byte("One sheep.\nTwo sheep.\nThree sheep.\n")}
	case 11:
		d := cat(specSheep, specMore, specConcatRoot)
		return hostile{data: d, claimed: int64(len(d)), kind: "directed-spec-concat", content: []byte("One sheep.\nTwo sheep.\nThree sheep.\nMore!\n")}
	case 12: // anti-loop satisfied alternately by COffset and by DPtrMax
		// root(end, d=20) -> A(off 4, d=20) [COffset smaller] -> B(off 100.., d=10) [DPtrMax smaller] -> leaf
		size := uint64(4 + 48 + 48 + 32 + 32)
		offA, offB, offR := uint64(4), uint64(4+48+32), uint64(4+48+32+48)
		_ = offR
		A := encodeNode([]elem{branch(10, offB), leaf(10, 0)}, 0, size, 1)
		pad := make([]byte, 32)
		B := encodeNode([]elem{leaf(4, 1), leaf(6, 2)}, 0, size, 1)
		R := encodeNode([]elem{branch(20, offA)}, 0, size, 1)
		d := cat([]byte("\x72\xC3\x63\x00"), A, pad, B, R)
		return hostile{data: d, claimed: int64(len(d)), kind: "directed-alternating", content: make([]byte, 20)}
	case 13: // long codec found at c64+64j for j = 0..3 (and at no lower j), up to 255 elements
		j := rng.Intn(4)
		c64 := rng.Intn(63)
		pos := c64 + 64*j
		a := pos + 2 + rng.Intn(8)
		if a > 255 {
			a = 255
		}
		if pos >= a {
			pos, j = c64, 0
		}
		es := make([]elem, a)
		for k := range es {
			es[k] = elem{dsize: 1, ttag: 0xFF, stag: 0xFF, cptr: 10}
		}
		es[pos] = elem{ttag: 0xFD, stag: 0xFF, cptr: 0}
		size := uint64(16*a + 16)
		return hostile{data: encodeNode(es, 0x80|byte(c64), size, 1), claimed: int64(size), kind: "directed-long-codec", content: make([]byte, a-1)}
	case 14: // empty branch elements and empty leaves around real ones
		size := uint64(96 + 32)
		child := encodeNode([]elem{leaf(0, 0)}, 0, size, 1)
		if rng.Bool() { // the empty branch points at a node that need not even be valid
			child[7] = 0xC5
		}
		root := encodeNode([]elem{leaf(0, 1), branch(0, 96), leaf(5, 2), branch(0, 96), leaf(0, 3)}, 0, size, 1)
		return hostile{data: cat(root, child), claimed: int64(size), kind: "directed-empty-branch", content: make([]byte, 5)}
	case 15: // two chunks share one CSecondary (a wrapped dictionary); the second has a TTag that is
		// not 0xFF and names an element with an empty CRange: invalid for RAC+Zlib, but accepted
		// from the dictionary cache when the first chunk was loaded just before (C15-dict-cache-ttag)
		ca, cb := genContent(rng, 1+rng.Intn(30)), genContent(rng, 1+rng.Intn(30))
		a, b := zlibOf(ca), zlibOf(cb)
		dict := genContent(rng, rng.Intn(40))
		wrapped := make([]byte, 4, 8+len(dict))
		binary.LittleEndian.PutUint32(wrapped, uint32(len(dict)))
		wrapped = append(wrapped, dict...)
		wrapped = binary.LittleEndian.AppendUint32(wrapped, crc32.ChecksumIEEE(dict))
		offA := uint64(16*4 + 16)
		offB := offA + uint64(len(a))
		offD := offB + uint64(len(b))
		size := offD + uint64(len(wrapped))
		tt := byte(3)
		if rng.Chance(1, 3) {
			tt = 0xFF // the valid variant
		}
		root := encodeNode([]elem{
			{dsize: uint64(len(ca)), ttag: 0xFF, stag: 2, cptr: offA},
			{dsize: uint64(len(cb)), ttag: tt, stag: 2, cptr: offB},
			{ttag: 0xFF, stag: 0xFF, cptr: offD},
			{ttag: 0xFF, stag: 0xFF, cptr: size},
		}, 1, size, 1)
		h := hostile{data: cat(root, a, b, wrapped), claimed: int64(size), kind: "directed-dict-cache-ttag"}
		if tt == 0xFF {
			h.content = append(append([]byte{}, ca...), cb...)
		}
		return h
	default: // child COffMax just above / at the parent's
		size := uint64(48 + 32)
		delta := uint64(rng.Intn(2))
		child := encodeNode([]elem{leaf(7, 0)}, 0, size+delta, 1)
		root := encodeNode([]elem{branch(7, 48), leaf(3, 1)}, 0, size, 1)
		h := hostile{data: cat(root, child), claimed: int64(size), kind: "directed-coffmax"}
		if delta == 0 {
			h.content = make([]byte, 10)
		}
		return h
	}
}
