// C15 harness: rac.ChunkReader / rac.Reader on hostile files vs the Lean model
// (Model/Rac/ChunkReader.lean), plus the property's own oracle evaluated on the
// implementation: no panic, bounded reads, well-formed in-file chunks, ascending
// contiguous DRanges that end at DecompressedSize, sticky errors, walk == seek,
// and decoding is repeatable.
package main

import (
	"bytes"
	"fmt"
	"hash/fnv"
	"io"
	"os"
	"runtime"
	"runtime/pprof"
	"strings"
	"sync"
	"time"

	"github.com/google/wuffs/lib/rac"
	"github.com/google/wuffs/lib/raczlib"
	"wvh/hlib"
)

// ---- a counting, budgeted io.ReaderAt ----

type budgetExceeded struct{}

type countingRA struct {
	data   []byte
	calls  int
	budget int
	pos    int64
}

func (c *countingRA) ReadAt(p []byte, off int64) (int, error) {
	c.calls++
	if c.calls > c.budget {
		panic(budgetExceeded{})
	}
	if off < 0 {
		return 0, fmt.Errorf("negative offset")
	}
	if off >= int64(len(c.data)) {
		return 0, io.EOF
	}
	n := copy(p, c.data[off:])
	if n < len(p) {
		return n, io.EOF
	}
	return n, nil
}

// Read and Seek make it an io.ReadSeeker; the rac package prefers ReadAt.
func (c *countingRA) Read(p []byte) (int, error) {
	n, err := c.ReadAt(p, c.pos)
	c.pos += int64(n)
	return n, err
}

func (c *countingRA) Seek(off int64, whence int) (int64, error) {
	switch whence {
	case io.SeekCurrent:
		off += c.pos
	case io.SeekEnd:
		off += int64(len(c.data))
	}
	if off < 0 {
		return 0, fmt.Errorf("negative seek")
	}
	c.pos = off
	return off, nil
}

// readBudget is the number of ReadAt calls one ChunkReader method may make.
// Props/C15 resolve_terminates: one descent makes fewer loadAndValidate calls (two
// ReadAt calls each: the 4-byte header, then the node) than there are offsets in
// the file that carry the three magic bytes with room for a 32-byte node before
// CompressedSize (Lean: nodeStarts); plus the root load, and initialize's four reads.
func readBudget(data []byte, claimed int64) int {
	starts := 0
	for c := 0; c+2 < len(data) && int64(c)+32 <= claimed; c++ {
		if data[c] == 0x72 && data[c+1] == 0xC3 && data[c+2] == 0x63 {
			starts++
		}
	}
	return 2*starts + 8
}

// ---- canonical outputs ----

func errWord(err error) string {
	if err == io.EOF {
		return "eof"
	}
	if err == io.ErrUnexpectedEOF {
		return "ueof"
	}
	switch err.Error() {
	case "rac: invalid CompressedSize":
		return "bad-csize"
	case "rac: invalid input: missing magic bytes":
		return "no-magic"
	case "rac: invalid input: missing root node":
		return "no-root"
	case "rac: invalid index node":
		return "bad-node"
	case "rac: unsupported RAC file version":
		return "bad-version"
	case "rac: seek to negative position":
		return "neg-seek"
	case "rac: internal error: inconsistent arity":
		return "internal-arity"
	}
	return "other:" + strings.ReplaceAll(err.Error(), " ", "_")
}

func chunkLine(c rac.Chunk) string {
	return fmt.Sprintf("chunk %d %d %d %d %d %d %d %d %d %d %d", c.DRange[0], c.DRange[1],
		c.CPrimary[0], c.CPrimary[1], c.CSecondary[0], c.CSecondary[1], c.CTertiary[0], c.CTertiary[1],
		c.STag, c.TTag, uint64(c.Codec))
}

// guard runs f; a panic becomes "panic", an exhausted read budget "spin".
func guard(f func() string) (out string, msg string) {
	defer func() {
		if e := recover(); e != nil {
			if _, ok := e.(budgetExceeded); ok {
				out, msg = "spin", "read budget exceeded"
				return
			}
			out, msg = "panic", fmt.Sprint(e)
		}
	}()
	return f(), ""
}

// ---- per-case result (cases run in parallel, are emitted in order) ----

type failure struct{ key, desc string }

type caseOut struct {
	ops    [][2]string
	dsize  int64
	fails  []failure
	counts map[string]int
	sig    string
}

func (o *caseOut) op(op, out string) { o.ops = append(o.ops, [2]string{op, out}) }
func (o *caseOut) count(k string)    { o.counts[k]++ }
func (o *caseOut) fail(key, desc string) {
	o.fails = append(o.fails, failure{key, desc})
}

// ---- the ChunkReader case ----

func runReaderCase(idx int, rng *hlib.Rand, h hostile, thorough bool) *caseOut {
	o := &caseOut{counts: map[string]int{}}
	o.count("gen:" + strings.Split(h.kind, "+")[0])
	for _, part := range strings.Split(h.kind, "+")[1:] {
		o.count("mutation:" + part)
	}
	label := fmt.Sprintf("%d:%s", idx, h.kind)
	cra := &countingRA{data: h.data}
	budget := readBudget(h.data, h.claimed)
	r := &rac.ChunkReader{ReadSeeker: cra, CompressedSize: h.claimed}

	sticky := "" // error class that every later call must repeat
	dsize := int64(-1)
	pos := int64(0) // where the next chunk must start / which offset it must contain
	exact := true   // true: DRange[0] must equal pos (a walk); false: must contain pos (after a seek)
	var chunks []rac.Chunk
	maxReads := 0

	run := func(opLine string, opName string, f func() string) string {
		cra.calls, cra.budget = 0, budget
		out, msg := guard(f)
		o.op(opLine, out)
		if cra.calls > maxReads {
			maxReads = cra.calls
		}
		switch out {
		case "panic":
			o.fail("panic:"+opName, "run-time panic ("+msg+") in "+opName)
		case "spin":
			o.fail("unbounded-work:"+opName, fmt.Sprintf("%s made more than %d reads of a %d-byte file (claimed size %d) with %d possible node offsets: work is not bounded by the file", opName, budget, len(h.data), h.claimed, (budget-8)/2))
		}
		if strings.HasPrefix(out, "err ") {
			w := out[4:]
			if w == "eof" {
				o.fail("eof-as-error:"+opName, opName+" returned io.EOF for a read failure: callers take that as a clean end of the chunk stream")
			}
			if sticky != "" && w != sticky {
				o.fail("error-not-sticky", fmt.Sprintf("%s returned %q after an earlier %q", opName, w, sticky))
			}
			sticky = w
		} else if sticky != "" && out != "panic" && out != "spin" {
			o.fail("error-not-sticky", fmt.Sprintf("%s succeeded (%s) after an earlier error %q", opName, out, sticky))
		}
		return out
	}

	open := run(fmt.Sprintf("case %s %d %s", label, h.claimed, hlib.Hex(h.data)), "open", func() string {
		n, err := r.DecompressedSize()
		if err != nil {
			return "err " + errWord(err)
		}
		dsize = n
		return fmt.Sprintf("ok dsize=%d", n)
	})
	o.count("open:" + strings.SplitN(strings.TrimPrefix(open, "err "), " ", 2)[0])
	if dsize < 0 && !strings.HasPrefix(open, "err ") && open != "panic" && open != "spin" {
		dsize = 0
	}
	if dsize > 0 && (dsize >= 1<<48) {
		o.fail("dsize-range", "DecompressedSize exceeds 2^48-1")
	}

	doNext := func() string {
		var got rac.Chunk
		gotChunk := false
		out := run("next", "NextChunk", func() string {
			c, err := r.NextChunk()
			if err == io.EOF {
				return "eof"
			}
			if err != nil {
				return "err " + errWord(err)
			}
			got, gotChunk = c, true
			return chunkLine(c)
		})
		if gotChunk {
			c := got
			if !(c.DRange[0] < c.DRange[1]) {
				o.fail("chunk:empty-drange", fmt.Sprintf("chunk with DRange %v returned without error", c.DRange))
			}
			if !(0 <= c.CPrimary[0] && c.CPrimary[0] <= c.CPrimary[1] && c.CPrimary[1] <= h.claimed) {
				o.fail("chunk:cprimary", fmt.Sprintf("chunk with CPrimary %v (CompressedSize %d) returned without error", c.CPrimary, h.claimed))
			}
			if c.DRange[1] > dsize {
				o.fail("chunk:beyond-dsize", fmt.Sprintf("chunk DRange %v beyond DecompressedSize %d", c.DRange, dsize))
			}
			if exact && c.DRange[0] != pos {
				o.fail("walk:not-contiguous", fmt.Sprintf("chunk DRange %v does not start at %d where the previous one ended", c.DRange, pos))
			}
			if !exact && !(c.DRange[0] <= pos && pos < c.DRange[1]) {
				o.fail("seek:not-containing", fmt.Sprintf("chunk DRange %v does not contain the seek position %d", c.DRange, pos))
			}
			pos, exact = c.DRange[1], true
			chunks = append(chunks, c)
		} else if out == "eof" {
			if sticky == "" && pos < dsize {
				o.fail("walk:early-eof", fmt.Sprintf("io.EOF at DSpace position %d before DecompressedSize %d", pos, dsize))
			}
			if sticky == "" && exact && pos > dsize {
				o.fail("walk:beyond-dsize", fmt.Sprintf("walk ended at %d beyond DecompressedSize %d", pos, dsize))
			}
		}
		return out
	}
	doSeek := func(d int64) string {
		out := run(fmt.Sprintf("seek %d", d), "SeekToChunkContaining", func() string {
			if err := r.SeekToChunkContaining(d); err != nil {
				return "err " + errWord(err)
			}
			return "ok"
		})
		if out == "ok" {
			pos, exact = d, false
		}
		return out
	}
	doDSize := func() {
		run("dsize", "DecompressedSize", func() string {
			n, err := r.DecompressedSize()
			if err != nil {
				return "err " + errWord(err)
			}
			if n != dsize {
				return fmt.Sprintf("ok dsize=%d CHANGED", n)
			}
			return fmt.Sprintf("ok dsize=%d", n)
		})
	}

	// script: walk, then seeks, with extra calls after any error
	maxWalk := 10 + rng.Intn(12)
	if thorough || rng.Chance(1, 10) {
		maxWalk = 80
	}
	afterErr := 0
	step := func(out string) bool { // false: stop this phase
		if strings.HasPrefix(out, "err ") || out == "panic" || out == "spin" {
			afterErr++
			return afterErr <= 2
		}
		return true
	}
	ended := "cap"
	for i := 0; i < maxWalk; i++ {
		out := doNext()
		if !step(out) {
			ended = "err"
			break
		}
		if out == "eof" {
			ended = "eof"
			if rng.Bool() {
				doNext() // EOF is repeatable
			}
			break
		}
		if strings.HasPrefix(out, "err ") {
			ended = "err"
		}
	}
	o.count("walk-ended:" + ended)
	if rng.Chance(1, 4) {
		doDSize()
	}
	nSeek := rng.Intn(4)
	for s := 0; s < nSeek && afterErr <= 2; s++ {
		var d int64
		switch rng.Intn(9) {
		case 0:
			d = 0
		case 1:
			d = dsize - 1
		case 2:
			d = dsize
		case 3:
			d = dsize + 1
		case 4:
			if len(chunks) > 0 {
				c := chunks[rng.Intn(len(chunks))]
				d = c.DRange[rng.Intn(2)] - int64(rng.Intn(2))
			}
		case 5:
			d = 1<<62 + int64(rng.Intn(5))
		case 6:
			if rng.Chance(1, 3) {
				d = -1 - int64(rng.Intn(3))
			}
		default:
			if dsize > 0 {
				d = int64(rng.Uint64() % uint64(dsize))
			}
		}
		if !step(doSeek(d)) {
			break
		}
		for k, nn := 0, 1+rng.Intn(3); k < nn; k++ {
			out := doNext()
			if !step(out) || out == "eof" {
				break
			}
		}
	}

	// walk == seek: a fresh reader sought to a chunk's first / last byte yields that chunk
	if sticky == "" && len(chunks) > 0 {
		for k := 0; k < 2 && k < len(chunks); k++ {
			c := chunks[rng.Intn(len(chunks))]
			for _, d := range []int64{c.DRange[0], c.DRange[1] - 1} {
				cra2 := &countingRA{data: h.data, budget: 3 * budget}
				out, _ := guard(func() string {
					r2 := &rac.ChunkReader{ReadSeeker: cra2, CompressedSize: h.claimed}
					if err := r2.SeekToChunkContaining(d); err != nil {
						return "err " + errWord(err)
					}
					c2, err := r2.NextChunk()
					if err != nil {
						return "err " + errWord(err)
					}
					return chunkLine(c2)
				})
				if c.DRange[0] < c.DRange[1] && out != chunkLine(c) {
					key := "nondeterministic:walk-vs-seek"
					if c.TTag == 0xFE {
						key = "nondeterministic:branch-as-chunk"
					}
					o.fail(key, fmt.Sprintf("walking returned %q but a fresh reader sought to %d returned %q", chunkLine(c), d, out))
				}
			}
		}
	}

	// the shared-dictionary loader (racdict.Loader behind raczlib), against Model/Rac/Dict.lean
	if len(chunks) > 0 && h.claimed <= 1<<22 && rng.Chance(1, 2) {
		runDictLevel(rng, h, o, chunks)
	}

	// the Reader layer above the ChunkReader, against the byte-level model
	if dsize <= readerCaseCap && rng.Chance(2, 3) && os.Getenv("C15_NO_READER") == "" {
		d := dsize
		if d < 0 {
			d = 0
		}
		runReaderLevel(rng, h, o, chunks, d)
	}

	o.dsize = dsize
	o.count(fmt.Sprintf("chunks-seen:%s", bucket(len(chunks))))
	o.count(fmt.Sprintf("max-reads-per-call:%s", bucket(maxReads)))
	if dsize >= 0 && open != "panic" && open != "spin" && !strings.HasPrefix(open, "err ") {
		hh := fnv.New64a()
		hh.Write(h.data)
		o.sig = fmt.Sprintf("%x:%d", hh.Sum64(), h.claimed)
	}
	return o
}

func bucket(n int) string {
	switch {
	case n == 0:
		return "0"
	case n <= 2:
		return "1-2"
	case n <= 6:
		return "3-6"
	case n <= 20:
		return "7-20"
	case n <= 100:
		return "21-100"
	}
	return ">100"
}

// ---- decode oracle (rac.Reader + raczlib): no panic, no hang, repeatable ----

const decodeCap = 1 << 18

func decodeOnce(data []byte, claimed int64, seekTo int64, want int, conc int) (string, []byte) {
	cra := &countingRA{data: data, budget: 4096 + 64*len(data)}
	var got []byte
	out, ok := hlib.WithTimeout(60*time.Second, func() string {
		s, _ := guard(func() string {
			r := &rac.Reader{ReadSeeker: cra, CompressedSize: claimed, CodecReaders: []rac.CodecReader{&raczlib.CodecReader{}}, Concurrency: conc}
			defer r.Close()
			if seekTo > 0 {
				if _, err := r.Seek(seekTo, io.SeekStart); err != nil {
					return "err " + errWord(err)
				}
			}
			buf := make([]byte, want)
			n, err := io.ReadFull(r, buf)
			got = buf[:n]
			if err == nil || err == io.EOF || err == io.ErrUnexpectedEOF {
				if err == nil {
					return "ok-more"
				}
				return "ok-end"
			}
			return "err " + errWord(err)
		})
		return s
	})
	if !ok {
		return "timeout", nil
	}
	return out, got
}

func runDecodeOracle(rng *hlib.Rand, h hostile, o *caseOut) {
	want := int64(decodeCap)
	if o.dsize+1 < want {
		want = o.dsize + 1
	}
	if want < 1 {
		want = 1
	}
	s1, b1 := decodeOnce(h.data, h.claimed, 0, int(want), 0)
	s2, b2 := decodeOnce(h.data, h.claimed, 0, int(want), 0)
	o.count("decode:" + strings.SplitN(s1, ":", 2)[0])
	switch {
	case s1 == "panic" || s2 == "panic":
		o.fail("panic:Reader.Read", "rac.Reader panicked while decoding")
		return
	case s1 == "timeout" || s2 == "timeout" || s1 == "spin" || s2 == "spin":
		o.fail("unbounded-work:Reader.Read", "rac.Reader did not finish decoding (timeout / read budget)")
		return
	}
	if s1 != s2 || !bytes.Equal(b1, b2) {
		o.fail("nondeterministic:decode", fmt.Sprintf("two decodings of the same file differ: %s/%d bytes vs %s/%d bytes", s1, len(b1), s2, len(b2)))
		return
	}
	// sanity of the generators (not part of C15's statement, so counted, not failed):
	// files built to be well-formed should decode to the expected bytes
	pristine := h.content != nil && h.claimed == int64(len(h.data)) && !strings.Contains(h.kind, "+")
	if strings.HasPrefix(s1, "err ") {
		if pristine {
			o.count("sanity:wellformed-file-rejected")
		}
		return
	}
	if pristine {
		want := h.content
		if len(want) > decodeCap {
			want = want[:decodeCap]
		}
		if bytes.Equal(b1, want) {
			o.count("sanity:wellformed-file-decodes-as-expected")
		} else {
			o.count("sanity:wellformed-file-misdecoded")
		}
	}
	// random access agrees with the sequential decoding
	if len(b1) > 0 {
		for k := 0; k < 2; k++ {
			off := int64(rng.Intn(len(b1)))
			n := 1 + rng.Intn(len(b1)-int(off))
			if n > 4096 {
				n = 4096
			}
			s3, b3 := decodeOnce(h.data, h.claimed, off, n, 0)
			if s3 == "panic" {
				o.fail("panic:Reader.Seek", "rac.Reader panicked after Seek")
			} else if strings.HasPrefix(s3, "err ") || !bytes.Equal(b3, b1[off:int(off)+n]) {
				key := "nondeterministic:seek-vs-sequential"
				o.fail(key, fmt.Sprintf("reading %d bytes after Seek(%d) gives %s/%d bytes, not the bytes of the sequential decoding", n, off, s3, len(b3)))
			}
		}
	}
}

// ---- node-level ops through the verif hooks ----

func runNodeCase(idx int, rng *hlib.Rand, node []byte, kind string) *caseOut {
	o := &caseOut{counts: map[string]int{}}
	o.count("gen:nodeops-" + kind)
	hx := hlib.Hex(node)
	o.op(fmt.Sprintf("case n%d 0 -", idx), "err bad-csize") // resets the model state
	v, _ := guard(func() string { return fmt.Sprint(rac.VerifNodeValid(node)) })
	o.op("valid "+hx, v)
	o.count("node-valid:" + v)
	if v == "panic" {
		o.fail("panic:valid", "rNode.valid panicked")
	}
	c, _ := guard(func() string { return fmt.Sprint(uint64(rac.VerifNodeCodec(node))) })
	o.op("codec "+hx, c)
	a := int(node[3])
	full := make([]byte, 4096+8)
	copy(full, node)
	for k := 0; k < 3; k++ {
		i := rng.Intn(256)
		if a > 0 && rng.Chance(3, 4) {
			i = rng.Intn(a)
		}
		cb, db := int64(rng.Intn(1000)), int64(rng.Intn(1000))
		out, _ := guard(func() string { return chunkLine(rac.VerifNodeChunk(node, i, cb, db)) })
		o.op(fmt.Sprintf("chunk %s %d %d %d", hx, i, cb, db), out)
		if out == "panic" {
			o.fail("panic:chunk", "rNode.chunk panicked")
		}
	}
	dmax := int64(0)
	if a > 0 {
		dmax = int64(get48(full[8*a:]))
	}
	for k := 0; k < 4; k++ {
		db := int64(rng.Intn(50))
		d := db
		if dmax > 0 {
			d = db + int64(rng.Uint64()%uint64(dmax))
		}
		switch rng.Intn(6) {
		case 0:
			d = db
		case 1:
			d = db + dmax - 1
		case 2:
			if a > 0 {
				j := rng.Intn(a + 1)
				if j > 0 {
					d = db + int64(get48(full[8*j:])) - int64(rng.Intn(2))
				}
			}
		}
		if d < 0 {
			d = 0
		}
		out, _ := guard(func() string { return fmt.Sprint(rac.VerifNodeFind(node, d, db)) })
		o.op(fmt.Sprintf("find %s %d %d", hx, d, db), out)
		// oracle, for valid nodes and in-range positions: the largest i < arity with DOff[i] <= d
		if v == "true" && d >= db && d < db+dmax {
			want := -1
			for i := 0; i < a; i++ {
				di := int64(0)
				if i > 0 {
					di = int64(get48(full[8*i:]))
				}
				if db+di <= d {
					want = i
				}
			}
			if out != fmt.Sprint(want) {
				o.fail("find:wrong-index", fmt.Sprintf("findChunkContaining(%d, %d) = %s, want %d", d, db, out, want))
			}
		}
	}
	return o
}

// ---- main ----

func genCase(idx int, seed int64, thorough bool) *caseOut {
	rng := hlib.NewRand(uint64(seed)*1000003 + uint64(idx)*7919 + 17)
	sel := rng.Intn(100)
	var h hostile
	switch {
	case idx < 51: // every directed construction, three times, first
		h = directed(rng, idx)
	case sel < 8:
		h = directed(rng, rng.Intn(1000))
	case sel < 20:
		h = randomBlob(rng)
	case sel < 26:
		// node-level ops
		var node []byte
		kind := "built"
		switch rng.Intn(3) {
		case 0:
			b := randomBlob(rng)
			node, kind = b.data, b.kind
		default:
			bf := buildTreeFile(rng)
			nd := bf.nodes[rng.Intn(len(bf.nodes))]
			node = clone(bf.data[nd.off : nd.off+16*nd.arity+16])
			if rng.Bool() {
				kind = "built+" + mutateNode(rng, node, []nodeInfo{{off: 0, arity: nd.arity}})
			}
		}
		if len(node) > 4096 {
			node = node[:4096]
		}
		return runNodeCase(idx, rng, node, kind)
	default:
		var bf builtFile
		switch g := rng.Intn(10); {
		case g < 6:
			bf = buildTreeFile(rng)
		case g < 9:
			bf = buildChunkWriterFile(rng)
		default:
			bf = buildZlibWriterFile(rng)
		}
		if rng.Chance(1, 4) {
			h = hostile{data: bf.data, claimed: int64(len(bf.data)), kind: bf.desc, content: bf.content}
		} else {
			h = mutateFile(rng, bf)
		}
	}
	o := runReaderCase(idx, rng, h, thorough)
	if rng.Chance(1, 3) || h.content != nil && !strings.Contains(h.kind, "+") || strings.HasPrefix(h.kind, "directed") {
		runDecodeOracle(rng, h, o)
	}
	return o
}

func main() {
	if d := os.Getenv("C15_STRESS"); d != "" {
		dur, err := time.ParseDuration(d)
		if err != nil {
			dur = 3 * time.Second
		}
		stressChild(dur)
		return
	}
	r := hlib.Start("C15")
	if r.IsGen() {
		text, err := genRacLean(r.Repo)
		if err != nil {
			fmt.Fprintln(os.Stderr, "C15 translator:", err)
			os.Exit(2)
		}
		r.WriteGen("C15_Rac.lean", text)
		return
	}
	if pf := os.Getenv("C15_PROF"); pf != "" {
		f, _ := os.Create(pf)
		pprof.StartCPUProfile(f)
		defer pprof.StopCPUProfile()
	}
	nCases := 5000
	if r.Thorough {
		nCases = 150000
	}
	workers := runtime.NumCPU()
	if workers > 16 {
		workers = 16
	}
	if !r.Thorough && workers > 8 {
		workers = 8
	}
	const batch = 512
	decodeCases := 0
	for base := 0; base < nCases; base += batch {
		n := batch
		if base+n > nCases {
			n = nCases - base
		}
		outs := make([]*caseOut, n)
		var wg sync.WaitGroup
		sem := make(chan struct{}, workers)
		for i := 0; i < n; i++ {
			wg.Add(1)
			sem <- struct{}{}
			go func(i int) {
				defer wg.Done()
				defer func() { <-sem }()
				outs[i] = genCase(base+i, r.Seed, r.Thorough)
			}(i)
		}
		wg.Wait()
		for _, o := range outs {
			for _, p := range o.ops {
				r.Op(p[0], p[1])
			}
			for k, v := range o.counts {
				r.CountN(k, v)
				if strings.HasPrefix(k, "decode:") {
					decodeCases += v
				}
			}
			if o.sig != "" {
				r.Nontrivial(o.sig)
			}
			if len(o.fails) > 0 {
				var sb strings.Builder
				for _, p := range o.ops {
					sb.WriteString(p[0])
					sb.WriteString("\n")
				}
				replay := sb.String()
				if len(replay) > 200000 {
					replay = replay[:200000] + "…"
				}
				seen := map[string]bool{}
				for _, f := range o.fails {
					if !seen[f.key] {
						seen[f.key] = true
						r.Fail(f.key, f.desc, replay)
					}
				}
			}
		}
	}
	runStress(r)
	r.Extra("cases", nCases)
	r.Extra("decode_oracle_cases", decodeCases)
	r.Finish("files: random index trees (own encoder; multi-level, CBiasing, mixed nodes, long codecs, empty elements, three layouts), rac.ChunkWriter and rac.Writer+raczlib outputs (both index locations, page sizes, resources), each unmodified or with 1-3 mutations (index-node field edits with the checksum repaired, truncation, wrong claimed size, extension, bit flips); 16 directed constructions (self/mutual loops, chains, stale root buffer, 0xFD element, short file, missing root, mixed node, spec examples); random blobs with magic; node-level ops through the verif hooks; for 2/3 of the files with DecompressedSize <= 65536 a random Read/Seek/SeekRange/Close script on the real rac.Reader with the toy codec (offsets aimed at chunk boundaries, int64 wrap-around, invalid whence, reads of 0..4200 bytes, a full sequential pass). One child process decodes valid raczlib files under back-to-back garbage collections and watches the decompressor for Go pointers stored in Go memory by C. A case is non-trivial when its root node is found (open succeeds); distinct = distinct (file bytes, claimed size).")
}
