// C15 translator: regenerates lean/WuffsVerif/Gen/C15_Rac.lean from the Go source
// of lib/rac on every run (`-mode gen`).
//
//  1. every package-level constant of rac.go (magic, MaxSize, the Codec values,
//     the mix / long-zeroes bits, …) is evaluated from its Go expression;
//  2. the rNode accessor methods of chunk_reader.go (arity, cPtrMax, dPtrMax,
//     version, cLen, cOff, cOffRange, dOff, dOffRange, dSize, sTag, tTag, isLeaf,
//     codecHasMixBit) and nodeSize are translated, statement by statement, from
//     their Go AST to Lean definitions over the model's Node (b[e] -> b.rd e,
//     u48LE(b[e:]) -> b.u48 e);
//  3. the integer literals that the hand-written model copies out of bigger
//     functions are extracted where they occur: the smallest CompressedSize
//     (checkParameters), the supported version (initialize), the reserved TTag
//     range and the 0xFD / 0xFE tags (valid, isLeaf), the long-codec loop bound
//     and masks (codec).
//
// Props/C15Gen.lean proves that the hand-written model agrees with all of it; a
// change of any of these in the Go source changes the generated file and breaks
// an obligation.
package main

import (
	"fmt"
	"go/ast"
	"go/parser"
	"go/token"
	"math/big"
	"path/filepath"
	"sort"
	"strconv"
	"strings"
)

type genCtx struct {
	consts map[string]*big.Int
	strs   map[string]string
	funcs  map[string]*ast.FuncDecl // "rNode.arity", "nodeSize", "ChunkReader.initialize", …
}

func parseRac(repo string) (*genCtx, error) {
	g := &genCtx{consts: map[string]*big.Int{}, strs: map[string]string{}, funcs: map[string]*ast.FuncDecl{}}
	fset := token.NewFileSet()
	var files []*ast.File
	for _, name := range []string{"rac.go", "chunk_reader.go", "reader.go"} {
		f, err := parser.ParseFile(fset, filepath.Join(repo, "lib", "rac", name), nil, 0)
		if err != nil {
			return nil, err
		}
		files = append(files, f)
	}
	for _, f := range files {
		for _, d := range f.Decls {
			switch d := d.(type) {
			case *ast.FuncDecl:
				key := d.Name.Name
				if d.Recv != nil && len(d.Recv.List) == 1 {
					t := d.Recv.List[0].Type
					if s, ok := t.(*ast.StarExpr); ok {
						t = s.X
					}
					if id, ok := t.(*ast.Ident); ok {
						key = id.Name + "." + key
					}
				}
				g.funcs[key] = d
			case *ast.GenDecl:
				if d.Tok != token.CONST {
					continue
				}
				for _, sp := range d.Specs {
					vs := sp.(*ast.ValueSpec)
					for i, nm := range vs.Names {
						if i >= len(vs.Values) {
							continue
						}
						if lit, ok := vs.Values[i].(*ast.BasicLit); ok && lit.Kind == token.STRING {
							s, err := strconv.Unquote(lit.Value)
							if err != nil {
								return nil, err
							}
							g.strs[nm.Name] = s
							continue
						}
						v, err := g.evalConst(vs.Values[i])
						if err != nil {
							return nil, fmt.Errorf("const %s: %v", nm.Name, err)
						}
						g.consts[nm.Name] = v
					}
				}
			}
		}
	}
	return g, nil
}

func (g *genCtx) evalConst(e ast.Expr) (*big.Int, error) {
	switch e := e.(type) {
	case *ast.BasicLit:
		if e.Kind != token.INT {
			return nil, fmt.Errorf("unsupported literal %s", e.Value)
		}
		v, ok := new(big.Int).SetString(strings.ReplaceAll(e.Value, "_", ""), 0)
		if !ok {
			return nil, fmt.Errorf("bad int %s", e.Value)
		}
		return v, nil
	case *ast.ParenExpr:
		return g.evalConst(e.X)
	case *ast.Ident:
		if v, ok := g.consts[e.Name]; ok {
			return v, nil
		}
		return nil, fmt.Errorf("unknown constant %s", e.Name)
	case *ast.CallExpr: // a conversion such as Codec(1 << 63)
		if len(e.Args) == 1 {
			return g.evalConst(e.Args[0])
		}
	case *ast.BinaryExpr:
		x, err := g.evalConst(e.X)
		if err != nil {
			return nil, err
		}
		y, err := g.evalConst(e.Y)
		if err != nil {
			return nil, err
		}
		switch e.Op {
		case token.SHL:
			return new(big.Int).Lsh(x, uint(y.Uint64())), nil
		case token.SUB:
			return new(big.Int).Sub(x, y), nil
		case token.ADD:
			return new(big.Int).Add(x, y), nil
		case token.MUL:
			return new(big.Int).Mul(x, y), nil
		case token.OR:
			return new(big.Int).Or(x, y), nil
		case token.AND:
			return new(big.Int).And(x, y), nil
		}
	}
	return nil, fmt.Errorf("unsupported constant expression %T", e)
}

// ---- statement / expression translation of the rNode accessors ----

type trans struct {
	g    *genCtx
	recv string // receiver name ("b")
	err  error
}

func (t *trans) fail(format string, a ...interface{}) string {
	if t.err == nil {
		t.err = fmt.Errorf(format, a...)
	}
	return "sorry_untranslated"
}

func intLit(v string) string {
	n, ok := new(big.Int).SetString(strings.ReplaceAll(v, "_", ""), 0)
	if !ok {
		return "0"
	}
	return n.String()
}

// expr translates a value expression.
func (t *trans) expr(e ast.Expr) string {
	switch e := e.(type) {
	case *ast.BasicLit:
		if e.Kind == token.INT {
			return intLit(e.Value)
		}
	case *ast.Ident:
		if v, ok := t.g.consts[e.Name]; ok {
			return v.String()
		}
		return e.Name
	case *ast.ParenExpr:
		return "(" + t.expr(e.X) + ")"
	case *ast.IndexExpr:
		if id, ok := e.X.(*ast.Ident); ok && id.Name == t.recv {
			return "(" + t.recv + ".rd " + t.atom(e.Index) + ")"
		}
	case *ast.CompositeLit: // Range{a, b}
		if len(e.Elts) == 2 {
			return "(" + t.expr(e.Elts[0]) + ", " + t.expr(e.Elts[1]) + ")"
		}
	case *ast.CallExpr:
		switch f := e.Fun.(type) {
		case *ast.Ident:
			switch f.Name {
			case "int", "int64", "uint8", "uint64", "int32":
				if len(e.Args) == 1 {
					return t.expr(e.Args[0])
				}
			case "u48LE":
				if len(e.Args) == 1 {
					if sl, ok := e.Args[0].(*ast.SliceExpr); ok && sl.High == nil && sl.Low != nil {
						if id, ok := sl.X.(*ast.Ident); ok && id.Name == t.recv {
							return "(" + t.recv + ".u48 " + t.atom(sl.Low) + ")"
						}
					}
				}
			}
		case *ast.SelectorExpr:
			if id, ok := f.X.(*ast.Ident); ok && id.Name == t.recv {
				s := "(" + f.Sel.Name + " " + t.recv
				for _, a := range e.Args {
					s += " " + t.atom(a)
				}
				return s + ")"
			}
		}
	case *ast.BinaryExpr:
		x, y := t.atom(e.X), t.atom(e.Y)
		switch e.Op {
		case token.ADD:
			return x + " + " + y
		case token.SUB:
			return x + " - " + y
		case token.MUL:
			return x + " * " + y
		case token.AND:
			return x + " &&& " + y
		case token.NEQ:
			return x + " != " + y
		case token.EQL:
			return x + " == " + y
		}
	}
	return t.fail("unsupported expression %T", e)
}

func (t *trans) atom(e ast.Expr) string {
	s := t.expr(e)
	if strings.ContainsAny(s, " ") && !(strings.HasPrefix(s, "(") && balanced(s)) {
		return "(" + s + ")"
	}
	return s
}

// balanced: s starts with "(" and that parenthesis closes at the very end.
func balanced(s string) bool {
	d := 0
	for i, c := range s {
		switch c {
		case '(':
			d++
		case ')':
			d--
			if d == 0 && i != len(s)-1 {
				return false
			}
		}
	}
	return d == 0
}

// cond translates a condition to a decidable Prop.
func (t *trans) cond(e ast.Expr) string {
	if p, ok := e.(*ast.ParenExpr); ok {
		return t.cond(p.X)
	}
	if b, ok := e.(*ast.BinaryExpr); ok {
		op := map[token.Token]string{token.EQL: "=", token.NEQ: "≠", token.LSS: "<", token.GTR: ">", token.LEQ: "≤", token.GEQ: "≥"}[b.Op]
		if op != "" {
			return t.atom(b.X) + " " + op + " " + t.atom(b.Y)
		}
	}
	return t.fail("unsupported condition %T", e)
}

func assigned(stmts []ast.Stmt, out map[string]bool) {
	for _, s := range stmts {
		switch s := s.(type) {
		case *ast.AssignStmt:
			if s.Tok == token.ASSIGN {
				for _, l := range s.Lhs {
					if id, ok := l.(*ast.Ident); ok {
						out[id.Name] = true
					}
				}
			}
		case *ast.IfStmt:
			assigned(s.Body.List, out)
		}
	}
}

// stmts translates a statement list that ends in (or falls through to) `tail`.
func (t *trans) stmts(list []ast.Stmt, tail string, ind string) string {
	if len(list) == 0 {
		return tail
	}
	rest := func() string { return t.stmts(list[1:], tail, ind) }
	switch s := list[0].(type) {
	case *ast.ReturnStmt:
		if len(s.Results) == 1 {
			return t.expr(s.Results[0])
		}
	case *ast.AssignStmt:
		if len(s.Lhs) == 1 && len(s.Rhs) == 1 {
			if id, ok := s.Lhs[0].(*ast.Ident); ok {
				return "let " + id.Name + " := " + t.expr(s.Rhs[0]) + "\n" + ind + rest()
			}
		}
	case *ast.IfStmt:
		if s.Else != nil {
			return t.fail("if with else")
		}
		pre := ""
		if s.Init != nil {
			if a, ok := s.Init.(*ast.AssignStmt); ok && len(a.Lhs) == 1 && len(a.Rhs) == 1 {
				pre = "let " + a.Lhs[0].(*ast.Ident).Name + " := " + t.expr(a.Rhs[0]) + "\n" + ind
			} else {
				return t.fail("unsupported if-init")
			}
		}
		body := s.Body.List
		if n := len(body); n > 0 {
			if _, ok := body[n-1].(*ast.ReturnStmt); ok {
				return pre + "if " + t.cond(s.Cond) + " then\n" + ind + "  " + t.stmts(body, "", ind+"  ") + "\n" + ind + "else\n" + ind + "  " + t.stmts(list[1:], tail, ind+"  ")
			}
		}
		vars := map[string]bool{}
		assigned(body, vars)
		var names []string
		for v := range vars {
			names = append(names, v)
		}
		sort.Strings(names)
		if len(names) != 1 {
			return t.fail("if body must assign exactly one variable")
		}
		v := names[0]
		return pre + "let " + v + " := if " + t.cond(s.Cond) + " then\n" + ind + "    " + t.stmts(body, v, ind+"    ") + "\n" + ind + "  else " + v + "\n" + ind + rest()
	}
	return t.fail("unsupported statement %T", list[0])
}

func leanType(e ast.Expr) string {
	switch e := e.(type) {
	case *ast.Ident:
		switch e.Name {
		case "bool":
			return "Bool"
		case "Range":
			return "Nat × Nat"
		}
	}
	return "Nat"
}

func (g *genCtx) accessor(key string) (string, error) {
	fd := g.funcs[key]
	if fd == nil {
		return "", fmt.Errorf("function %s not found", key)
	}
	t := &trans{g: g}
	sig := "def " + fd.Name.Name
	if fd.Recv != nil {
		if len(fd.Recv.List[0].Names) == 1 {
			t.recv = fd.Recv.List[0].Names[0].Name
		}
		sig += " (" + t.recv + " : Node)"
	}
	for _, p := range fd.Type.Params.List {
		for _, nm := range p.Names {
			sig += " (" + nm.Name + " : Nat)"
		}
	}
	ret := "Nat"
	if fd.Type.Results != nil && len(fd.Type.Results.List) == 1 {
		ret = leanType(fd.Type.Results.List[0].Type)
	}
	body := t.stmts(fd.Body.List, "", "  ")
	if t.err != nil {
		return "", fmt.Errorf("%s: %v", key, t.err)
	}
	return "/-- `" + key + "` -/\n" + sig + " : " + ret + " :=\n  " + body + "\n", nil
}

// literals returns the integer literals of a function body, in source order.
func (g *genCtx) literals(key string) ([]string, error) {
	fd := g.funcs[key]
	if fd == nil {
		return nil, fmt.Errorf("function %s not found", key)
	}
	var out []string
	ast.Inspect(fd.Body, func(n ast.Node) bool {
		if l, ok := n.(*ast.BasicLit); ok && l.Kind == token.INT {
			out = append(out, intLit(l.Value))
		}
		return true
	})
	return out, nil
}

func genRacLean(repo string) (string, error) {
	g, err := parseRac(repo)
	if err != nil {
		return "", err
	}
	var sb strings.Builder
	sb.WriteString("/-\nGENERATED by harness/cmd/c15 (`wvh_c15 -mode gen`) from lib/rac/{rac.go,chunk_reader.go,reader.go}.\nDo not edit: the file is rewritten on every `./check C15`.  Props/C15Gen.lean proves that the\nhand-written model (Model/Rac/ChunkReader.lean, Model/Rac/ByteReader.lean) agrees with it.\n-/\nimport WuffsVerif.Model.Rac.ChunkReader\n\nnamespace WuffsVerif.Gen.C15\nopen WuffsVerif.Rac.ChunkReader\n\n/-! ## package-level constants of rac.go -/\n\n")
	var names []string
	for k := range g.consts {
		names = append(names, k)
	}
	sort.Strings(names)
	for _, k := range names {
		fmt.Fprintf(&sb, "def c_%s : Nat := %s\n", k, g.consts[k].String())
	}
	var snames []string
	for k := range g.strs {
		snames = append(snames, k)
	}
	sort.Strings(snames)
	for _, k := range snames {
		var bs []string
		for _, c := range []byte(g.strs[k]) {
			bs = append(bs, strconv.Itoa(int(c)))
		}
		fmt.Fprintf(&sb, "def s_%s : List Nat := [%s]\n", k, strings.Join(bs, ", "))
	}
	sb.WriteString("\n/-! ## rNode accessors of chunk_reader.go, translated from the Go AST -/\n\n")
	for _, key := range []string{"nodeSize", "rNode.arity", "rNode.codecHasMixBit", "rNode.cPtrMax", "rNode.dPtrMax", "rNode.version",
		"rNode.cLen", "rNode.cOff", "rNode.cOffRange", "rNode.dOff", "rNode.dOffRange", "rNode.dSize", "rNode.sTag", "rNode.tTag", "rNode.isLeaf"} {
		s, err := g.accessor(key)
		if err != nil {
			return "", err
		}
		sb.WriteString(s + "\n")
	}
	sb.WriteString("/-! ## integer literals of the functions the model mirrors by hand, in source order -/\n\n")
	for _, key := range []string{"ChunkReader.checkParameters", "ChunkReader.initialize", "rNode.valid", "rNode.codec", "rNode.findChunkContaining",
		"ChunkReader.tryRootNode", "ChunkReader.loadAndValidate", "ChunkReader.findRootNode", "u48LE", "Codec.Valid"} {
		ls, err := g.literals(key)
		if err != nil {
			return "", err
		}
		fmt.Fprintf(&sb, "/-- `%s` -/\ndef lits_%s : List Nat := [%s]\n", key, strings.ReplaceAll(key, ".", "_"), strings.Join(ls, ", "))
	}
	sb.WriteString("\nend WuffsVerif.Gen.C15\n")
	return sb.String(), nil
}
