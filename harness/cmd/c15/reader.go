// rac.Reader (lib/rac/reader.go) on hostile files vs the byte-level Lean model
// (Model/Rac/ByteReader.lean): the real Reader runs on the real ChunkReader with
// a toy CodecReader whose Lean twin is ByteReader.toyCodec, so every Read / Seek /
// SeekRange / Close result is compared byte for byte. The property's own oracle
// at this level: no panic, bounded reads, every DSpace byte is the same whenever
// and however it is read, errors are sticky.
package main

import (
	"errors"
	"fmt"
	"io"
	"strings"

	"github.com/google/wuffs/lib/rac"
	"wvh/hlib"
)

// ---- the toy codec (twin of ByteReader.toyCodec) ----

var errToyMake = errors.New("toy: MakeDecompressor failed")

type toyCodecReader struct{}

func (toyCodecReader) Close() error             { return nil }
func (toyCodecReader) Clone() rac.CodecReader   { return toyCodecReader{} }
func (toyCodecReader) Accepts(c rac.Codec) bool { return c != rac.CodecZstandard }

// toyDecompressor hands out min(len(p), remaining) bytes per Read and reports
// io.EOF (or, for a "truncated" stream, io.ErrUnexpectedEOF) together with the
// Read that exhausts it: the convention of Model/Rac/Reader.lean.
type toyDecompressor struct {
	data  []byte
	trunc bool
}

func (d *toyDecompressor) Read(p []byte) (int, error) {
	n := copy(p, d.data)
	d.data = d.data[n:]
	if len(d.data) == 0 {
		if d.trunc {
			return n, io.ErrUnexpectedEOF
		}
		return n, io.EOF
	}
	return n, nil
}

func (toyCodecReader) MakeDecompressor(racFile io.ReadSeeker, c rac.Chunk) (io.Reader, error) {
	lo, hi := c.CPrimary[0], c.CPrimary[1]
	// (the harness's files are far below 1 MB: a longer CPrimary cannot be read in full)
	if lo < 0 || lo > hi || hi-lo > 1<<20 {
		return nil, errToyMake
	}
	buf := make([]byte, hi-lo)
	if _, err := racFile.Seek(lo, io.SeekStart); err != nil {
		return nil, errToyMake
	}
	if _, err := io.ReadFull(racFile, buf); err != nil {
		return nil, errToyMake
	}
	if len(buf) == 0 {
		return &toyDecompressor{}, nil
	}
	h := buf[0]
	if h/32 == 7 {
		return nil, errToyMake
	}
	data := buf[1:]
	if int(h%32) < len(data) {
		data = data[:h%32]
	}
	return &toyDecompressor{data: data, trunc: h/32 == 6}, nil
}

func readerErrWord(err error) string {
	if err == nil {
		return "ok"
	}
	if err == errToyMake {
		return "codec-make"
	}
	switch s := err.Error(); {
	case s == "rac: seek to invalid whence":
		return "whence"
	case s == "rac: seek to negative position":
		return "negpos"
	case s == "rac: seek to negative range":
		return "negrange"
	case s == "rac: already closed":
		return "closed"
	case s == "rac: invalid chunk (too large)":
		return "toolarge"
	case s == "rac: invalid chunk (truncated)":
		return "truncated"
	case s == "rac: invalid chunk":
		return "invalid-chunk"
	case s == "rac: internal error: inconsistent position":
		return "inconsistent"
	case strings.HasPrefix(s, "rac: no matching CodecReader"):
		return "no-codec"
	}
	return errWord(err)
}

// readerCaseCap: the Lean model materialises a Zeroes chunk as a list, so the
// byte-level comparison is made for files whose DecompressedSize is at most this.
const readerCaseCap = 1 << 16

// runReaderLevel appends Reader ops for the file of o's `case` line.
func runReaderLevel(rng *hlib.Rand, h hostile, o *caseOut, chunks []rac.Chunk, dsize int64) {
	o.count("reader-level:cases")
	cra := &countingRA{data: h.data}
	// one Read(p) makes at most len(p) NextChunk calls (Props/C15Bytes read_work), each
	// within the ChunkReader budget, plus one MakeDecompressor read per chunk
	perFetch := readBudget(h.data, h.claimed) + 4
	r := &rac.Reader{ReadSeeker: cra, CompressedSize: h.claimed, CodecReaders: []rac.CodecReader{toyCodecReader{}}}

	seen := map[int64]byte{} // DSpace position -> the byte some Read returned for it
	sticky := ""
	pos := int64(0) // the Reader's position, tracked independently
	posKnown := true

	run := func(opLine, opName string, budget int, f func() string) string {
		cra.calls, cra.budget = 0, budget
		out, msg := guard(f)
		o.op(opLine, out)
		switch out {
		case "panic":
			o.fail("panic:Reader."+opName, "run-time panic ("+msg+") in Reader."+opName)
		case "spin":
			o.fail("unbounded-work:Reader."+opName, fmt.Sprintf("Reader.%s made more than %d reads of a %d-byte file (claimed size %d)", opName, budget, len(h.data), h.claimed))
		}
		return out
	}
	noteErr := func(opName, w string) {
		// w: error word, "ok" or "eof"
		if w == "ok" || w == "eof" {
			if sticky != "" {
				o.fail("reader:error-not-sticky", fmt.Sprintf("Reader.%s succeeded after an earlier error %q", opName, sticky))
			}
			return
		}
		if w == "whence" { // errSeekToInvalidWhence is returned but not stored (Concurrency = 0)
			if sticky != "" {
				o.fail("reader:error-not-sticky", fmt.Sprintf("Reader.%s returned %q after an earlier %q", opName, w, sticky))
			}
			return
		}
		if w == "inconsistent" || w == "invalid-chunk" {
			o.fail("reader:internal-error", fmt.Sprintf("Reader.%s returned the internal error %q", opName, w))
		}
		if sticky != "" && w != sticky {
			o.fail("reader:error-not-sticky", fmt.Sprintf("Reader.%s returned %q after an earlier %q", opName, w, sticky))
		}
		if sticky == "" {
			o.count("reader-err:" + w)
		}
		sticky = w
	}

	doSeek := func(off int64, whence int) {
		var got int64
		out := run(fmt.Sprintf("rseek %d %d", off, whence), "Seek", perFetch, func() string {
			p, err := r.Seek(off, whence)
			if err != nil {
				return "err " + readerErrWord(err)
			}
			got = p
			return fmt.Sprintf("ok %d", p)
		})
		if strings.HasPrefix(out, "ok ") {
			noteErr("Seek", "ok")
			pos, posKnown = got, true
		} else if strings.HasPrefix(out, "err ") {
			noteErr("Seek", out[4:])
		}
	}
	doRange := func(lo, hi int64) {
		out := run(fmt.Sprintf("rrange %d %d", lo, hi), "SeekRange", perFetch, func() string {
			if err := r.SeekRange(lo, hi); err != nil {
				return "err " + readerErrWord(err)
			}
			return "ok"
		})
		if out == "ok" {
			noteErr("SeekRange", "ok")
			pos, posKnown = lo, true
		} else if strings.HasPrefix(out, "err ") {
			noteErr("SeekRange", out[4:])
		}
	}
	doRead := func(n int) string {
		var got []byte
		w := ""
		out := run(fmt.Sprintf("rread %d", n), "Read", (n+2)*perFetch, func() string {
			buf := make([]byte, n)
			k, err := r.Read(buf)
			got = buf[:k]
			w = readerErrWord(err)
			return fmt.Sprintf("read %s %s", hlib.Hex(got), w)
		})
		if !strings.HasPrefix(out, "read ") {
			return out
		}
		noteErr("Read", w)
		if posKnown {
			for i, b := range got {
				p := pos + int64(i)
				if old, ok := seen[p]; ok && old != b {
					o.fail("nondeterministic:reader-byte", fmt.Sprintf("DSpace byte %d was read as %#02x before and as %#02x now (toy codec)", p, old, b))
					break
				}
				seen[p] = b
			}
			pos += int64(len(got))
			if pos > dsize && len(got) > 0 {
				o.fail("reader:beyond-dsize", fmt.Sprintf("Read returned bytes up to DSpace position %d beyond DecompressedSize %d", pos, dsize))
			}
		}
		o.count("reader-read:" + bucket(len(got)))
		return w
	}

	// open (initialize runs inside the first call)
	open := run("ropen", "Seek", perFetch, func() string {
		p, err := r.Seek(0, io.SeekCurrent)
		if err != nil {
			return "err " + readerErrWord(err)
		}
		return fmt.Sprintf("ok %d", p)
	})
	if strings.HasPrefix(open, "err ") {
		noteErr("Seek", open[4:])
	}

	pick := func() int64 { // an interesting DSpace offset
		switch rng.Intn(6) {
		case 0:
			return 0
		case 1:
			return dsize - int64(rng.Intn(3))
		case 2, 3:
			if len(chunks) > 0 {
				c := chunks[rng.Intn(len(chunks))]
				return c.DRange[rng.Intn(2)] + int64(rng.Intn(5)) - 2
			}
		}
		if dsize > 0 {
			return int64(rng.Uint64() % uint64(dsize))
		}
		return 0
	}
	nOps := 4 + rng.Intn(10)
	afterErr := 0
	for i := 0; i < nOps && afterErr < 3; i++ {
		if sticky != "" {
			afterErr++
		}
		switch k := rng.Intn(20); {
		case k < 10:
			n := 1 + rng.Intn(48)
			switch rng.Intn(6) {
			case 0:
				n = 0
			case 1:
				n = 1
			case 2:
				n = 200 + rng.Intn(4000)
			}
			doRead(n)
		case k < 15:
			d := pick()
			if d < 0 && !rng.Chance(1, 8) {
				d = 0
			}
			doSeek(d, io.SeekStart)
		case k < 16:
			doSeek(int64(rng.Intn(41))-8, io.SeekCurrent)
		case k < 17:
			doSeek(-int64(rng.Intn(int(min64(dsize, 60))+2)), io.SeekEnd)
		case k < 18:
			if rng.Chance(1, 3) {
				doSeek(int64(rng.Intn(10)), 3+rng.Intn(3)) // invalid whence
			} else {
				switch rng.Intn(3) {
				case 0:
					doSeek(1<<62+int64(rng.Intn(3)), io.SeekStart) // far beyond the end
				case 1:
					doSeek(int64(1<<63-1)-int64(rng.Intn(3)), io.SeekCurrent) // int64 wrap-around
				default:
					doSeek(int64(1<<63-1)-int64(rng.Intn(3)), io.SeekEnd)
				}
			}
		case k < 19:
			lo := pick()
			if lo < 0 {
				lo = 0
			}
			hi := lo + int64(rng.Intn(80)) - 4
			if rng.Chance(1, 5) {
				hi = dsize + int64(rng.Intn(5))
			}
			doRange(lo, hi)
		default:
			// a full sequential pass from the start, in pieces
			doSeek(0, io.SeekStart)
			for j := 0; j < 40 && sticky == ""; j++ {
				if w := doRead(64 + rng.Intn(2000)); w != "ok" {
					break
				}
			}
		}
	}
	if rng.Chance(1, 3) {
		out := run("rclose", "Close", perFetch, func() string {
			if err := r.Close(); err != nil {
				return "err " + readerErrWord(err)
			}
			return "ok"
		})
		want := "ok"
		if sticky != "" {
			want = "err " + sticky
		}
		if out != want && out != "panic" && out != "spin" {
			o.fail("reader:close", fmt.Sprintf("Close returned %q, want %q", out, want))
		}
		// after Close every call fails
		w := doReadAfterClose(r, o, run)
		if sticky == "" && w != "closed" || sticky != "" && w != sticky {
			o.fail("reader:use-after-close", fmt.Sprintf("Read after Close returned %q", w))
		}
	} else {
		r.Close()
	}
}

func doReadAfterClose(r *rac.Reader, o *caseOut, run func(string, string, int, func() string) string) string {
	w := ""
	run("rread 3", "Read", 64, func() string {
		buf := make([]byte, 3)
		k, err := r.Read(buf)
		w = readerErrWord(err)
		return fmt.Sprintf("read %s %s", hlib.Hex(buf[:k]), w)
	})
	return w
}

func min64(a, b int64) int64 {
	if a < b {
		return a
	}
	return b
}
