// racdict.Loader.Load (the shared-dictionary loader behind raczlib.CodecReader, through the
// hook lib/raczlib/verif_export_c15.go) vs Model/Rac/Dict.lean, on the chunks of hostile files
// and on variations of them. Oracle: what Load answers never depends on what was loaded before
// (Props/C15Dict load_transparent): every answer is compared with a fresh loader's.
package main

import (
	"fmt"
	"io"
	"strings"

	"github.com/google/wuffs/lib/rac"
	"github.com/google/wuffs/lib/raczlib"
	"github.com/google/wuffs/lib/readerat"
	"wvh/hlib"
)

func dictOut(d []byte, err error) string {
	if err == nil {
		return "ok " + hlib.Hex(d)
	}
	switch {
	case err == io.EOF:
		return "err eof"
	case err == io.ErrUnexpectedEOF:
		return "err ueof"
	case err.Error() == "racdict: invalid dictionary":
		return "err invalid"
	}
	return "err other:" + strings.ReplaceAll(err.Error(), " ", "_")
}

func runDictLevel(rng *hlib.Rand, h hostile, o *caseOut, chunks []rac.Chunk) {
	o.count("dict-level:cases")
	warm := &raczlib.VerifDictLoader{}
	load := func(l *raczlib.VerifDictLoader, c rac.Chunk) string {
		out, _ := guard(func() string {
			rs := &readerat.ReadSeeker{ReaderAt: &countingRA{data: h.data, budget: 1 << 20}, Size: h.claimed}
			return dictOut(l.Load(rs, c))
		})
		return out
	}
	var withDict []rac.Chunk
	for _, c := range chunks {
		if !c.CSecondary.Empty() {
			withDict = append(withDict, c)
		}
	}
	n := 3 + rng.Intn(6)
	var prev rac.Chunk
	for i := 0; i < n; i++ {
		c := chunks[rng.Intn(len(chunks))]
		if i < len(chunks) && rng.Chance(2, 3) {
			c = chunks[i] // walk order: consecutive chunks often share a dictionary
		}
		if len(withDict) > 0 && rng.Chance(3, 4) {
			c = withDict[rng.Intn(len(withDict))]
		}
		switch rng.Intn(8) {
		case 0: // the previous chunk's secondary range with another TTag
			c.CSecondary = prev.CSecondary
			c.TTag = byte(rng.Intn(4))
		case 1:
			c.TTag = byte(rng.Intn(256))
		case 2: // a random secondary range inside (or just outside) the file
			lo := int64(rng.Intn(len(h.data) + 1))
			c.CSecondary = rac.Range{lo, lo + int64(rng.Intn(80))}
		case 3: // a non-empty tertiary range
			c.CTertiary = rac.Range{c.CPrimary[0], c.CPrimary[0] + int64(rng.Intn(3))}
		case 4: // the secondary range clipped / extended by a few bytes
			c.CSecondary[1] += int64(rng.Intn(7)) - 3
		}
		if c.CSecondary[0] < 0 || c.CSecondary[1] < 0 || c.CTertiary[0] < 0 || c.CTertiary[1] < 0 {
			continue
		}
		prev = c
		out := load(warm, c)
		o.op(fmt.Sprintf("dict %d %d %d %d %d", c.CSecondary[0], c.CSecondary[1], c.CTertiary[0], c.CTertiary[1], c.TTag), out)
		o.count("dict:" + strings.SplitN(out, " ", 3)[0] + ":" + map[bool]string{true: "dictionary", false: "none-or-error"}[strings.HasPrefix(out, "ok ") && out != "ok -"])
		if out == "panic" {
			o.fail("panic:dict-load", "racdict.Loader.Load panicked")
			continue
		}
		if fresh := load(&raczlib.VerifDictLoader{}, c); fresh != out {
			o.fail("nondeterministic:dict-cache", fmt.Sprintf("racdict.Loader.Load answers %q after earlier loads but %q on its own (CSecondary %v, TTag %d): whether the chunk decodes depends on what was read before", out, fresh, c.CSecondary, c.TTag))
		}
	}
}
