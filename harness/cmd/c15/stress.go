// "Never panic" under the garbage collector: rac.Reader + raczlib decode a valid
// file in several goroutines, into buffers that are exactly one allocation slot
// long, while collections run back to back. Run in a child process (the same
// binary with C15_STRESS set), because the failure this looks for is a fatal
// runtime error ("found pointer to free object", "pointer to unallocated span")
// that recover() cannot catch: lib/cgozlib kept its z_stream in Go memory and
// zlib stored one-past-the-end Go pointers there (fixes/C15-cgozlib-gc-pointer.patch).
package main

import (
	"bytes"
	"fmt"
	"io"
	"os"
	"os/exec"
	"runtime"
	"strings"
	"sync"
	"time"

	"github.com/google/wuffs/lib/rac"
	"github.com/google/wuffs/lib/raczlib"
	"wvh/hlib"
)

// small slots (the pointer one past a buffer is the next slot, possibly free) and whole
// spans (one past a 40 KiB / 64 KiB buffer is the next span, possibly unallocated)
var stressSizes = []int{16, 48, 80, 224, 4096, 40960, 65536}

func stressFile(chunk int) ([]byte, []byte) {
	var out bytes.Buffer
	w := &rac.Writer{Writer: &out, CodecWriter: &raczlib.CodecWriter{}, DChunkSize: uint64(chunk)}
	content := make([]byte, 8*chunk)
	for i := range content {
		content[i] = byte(i*7 + i/251)
	}
	w.Write(content)
	w.Close()
	return out.Bytes(), content
}

// stressChild is the child process: exits 0 if nothing crashed, 3 on a wrong decode.
func stressChild(d time.Duration) {
	type fc struct{ file, content []byte }
	var files []fc
	for _, n := range stressSizes {
		f, c := stressFile(n)
		files = append(files, fc{f, c})
	}
	stop := time.Now().Add(d)
	go func() {
		for {
			runtime.GC()
		}
	}()
	var wg sync.WaitGroup
	for g := 0; g < 32; g++ {
		wg.Add(1)
		go func(g int) {
			defer wg.Done()
			var keep [][]byte
			// one long-lived Reader (hence one long-lived decompressor object) per file
			var readers []*rac.Reader
			for k := range files {
				readers = append(readers, &rac.Reader{ReadSeeker: bytes.NewReader(files[k].file), CompressedSize: int64(len(files[k].file)),
					CodecReaders: []rac.CodecReader{&raczlib.CodecReader{}}})
			}
			for it := 0; time.Now().Before(stop); it++ {
				k := (g + it) % len(files)
				r := readers[k]
				if _, err := r.Seek(0, io.SeekStart); err != nil {
					fmt.Println("seek:", err)
					os.Exit(3)
				}
				for off := 0; off < len(files[k].content); off += stressSizes[k] {
					buf := make([]byte, stressSizes[k]) // one slot: the stream ends one past it
					if _, err := io.ReadFull(r, buf); err != nil || !bytes.Equal(buf, files[k].content[off:off+stressSizes[k]]) {
						fmt.Println("wrong decode:", err)
						os.Exit(3)
					}
					if (it+off)%3 == 0 {
						keep = append(keep, buf) // leave holes in the spans
						if len(keep) > 1000 {
							keep = keep[500:]
						}
					}
				}
			}
			for _, r := range readers {
				r.Close()
			}
		}(g)
	}
	wg.Wait()
	os.Exit(0)
}

// runStress runs the child and reports a crash as an oracle failure.
func runStress(r *hlib.Run) {
	d := "3s"
	if r.Thorough {
		d = "20s"
	}
	cmd := exec.Command(os.Args[0], "-out", r.OutDir)
	cmd.Env = append(os.Environ(), "C15_STRESS="+d)
	var errb bytes.Buffer
	cmd.Stderr = &errb
	cmd.Stdout = &errb
	done := make(chan error, 1)
	if err := cmd.Start(); err != nil {
		r.Count("gc-stress:not-run")
		return
	}
	go func() { done <- cmd.Wait() }()
	select {
	case err := <-done:
		if err == nil {
			r.Count("gc-stress:ok")
			return
		}
		msg := errb.String()
		if i := strings.Index(msg, "\ngoroutine "); i > 0 {
			msg = msg[:i]
		}
		if len(msg) > 1500 {
			msg = msg[:1500]
		}
		r.Count("gc-stress:crash")
		r.Fail("crash:reader-under-gc", "rac.Reader + raczlib crashed the process while decoding a valid file under back-to-back garbage collections: "+strings.ReplaceAll(msg, "\n", " | "),
			"run harness/cmd/c15 with C15_STRESS="+d+" (32 goroutines decode writer-made files with DChunkSize 16/48/80/224/4096/40960/65536 into exact-size buffers while runtime.GC() loops)")
	case <-time.After(5 * time.Minute):
		cmd.Process.Kill()
		r.Count("gc-stress:timeout")
		r.Fail("hang:reader-under-gc", "the GC stress child did not finish", "C15_STRESS="+d)
	}
}
