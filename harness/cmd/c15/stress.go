// "Never panic" under the garbage collector: rac.Reader + raczlib decode a valid
// file in several goroutines, into buffers that are exactly one allocation slot
// long, while collections run back to back. Run in a child process (the same
// binary with C15_STRESS set), because the failure this looks for is a fatal
// runtime error ("found pointer to free object", "pointer to unallocated span")
// that recover() cannot catch: lib/cgozlib kept its z_stream in Go memory and
// zlib stored one-past-the-end Go pointers there (fixes/C15-cgozlib-gc-pointer.patch).
package main

import (
	"bytes"
	"fmt"
	"io"
	"os"
	"os/exec"
	"reflect"
	"runtime"
	"strings"
	"sync"
	"sync/atomic"
	"time"
	"unsafe"

	"github.com/google/wuffs/lib/rac"
	"github.com/google/wuffs/lib/raczlib"
	"wvh/hlib"
)

// chunk sizes that are exactly one allocation slot (the pointer one past such a buffer is
// the next slot, possibly free, or the next span, possibly unallocated); the heap is kept
// small so that collections are short and every live object is scanned thousands of times
// per second
var stressSizes = []int{16, 48, 80, 224, 4096}

func stressFile(chunk int) ([]byte, []byte) {
	var out bytes.Buffer
	w := &rac.Writer{Writer: &out, CodecWriter: &raczlib.CodecWriter{}, DChunkSize: uint64(chunk)}
	content := make([]byte, 8*chunk)
	for i := range content {
		content[i] = byte(i*7+i/251) | 1 // never NUL: the writer trims trailing NULs of a chunk
	}
	w.Write(content)
	w.Close()
	return out.Bytes(), content
}

// observeDecompressor is the deterministic witness of the same defect. The crash needs the
// collector to scan the decompressor object during the few microseconds in which zlib's
// next_out holds a pointer one past the output buffer, so whether it happens depends on the
// load of the machine. The cause does not: cgo's rule is that C code "must not store any Go
// pointers in Go memory, even temporarily". While one goroutine decodes, another polls the
// z_stream's next_out field; if the z_stream lives in Go memory (reflect: a struct field of the
// decompressor, not a pointer to C memory) and a Go heap address shows up there, the rule is
// broken and the collector can see a dangling one-past pointer. Exit code 4.
func observeDecompressor(file []byte, d time.Duration) {
	cr := &rac.ChunkReader{ReadSeeker: bytes.NewReader(file), CompressedSize: int64(len(file))}
	chunk, err := cr.NextChunk()
	if err != nil {
		return
	}
	codec := &raczlib.CodecReader{}
	if _, err := codec.MakeDecompressor(bytes.NewReader(file), chunk); err != nil {
		return
	}
	cached := reflect.ValueOf(codec).Elem().FieldByName("cachedReader")
	if !cached.IsValid() || cached.Kind() != reflect.Interface || cached.IsNil() {
		return
	}
	ptr := cached.Elem()
	if ptr.Kind() != reflect.Ptr || ptr.Elem().Kind() != reflect.Struct {
		return
	}
	z := ptr.Elem().FieldByName("z")
	if !z.IsValid() || z.Kind() != reflect.Struct { // a pointer: the z_stream is in C memory (or not cgo at all)
		return
	}
	nextOut := z.FieldByName("next_out")
	if !nextOut.IsValid() || !nextOut.CanAddr() {
		return
	}
	slot := (*uintptr)(unsafe.Pointer(nextOut.UnsafeAddr()))
	var stop int32
	var seen uintptr
	done := make(chan struct{})
	go func() {
		defer close(done)
		for atomic.LoadInt32(&stop) == 0 {
			if v := atomic.LoadUintptr(slot); v>>32 == 0xc0 { // the Go heap arena on linux/amd64
				seen = v
				return
			}
		}
	}()
	buf := make([]byte, chunk.DRange.Size())
	for end := time.Now().Add(d); time.Now().Before(end) && seen == 0; {
		select {
		case <-done:
		default:
		}
		dec, err := codec.MakeDecompressor(bytes.NewReader(file), chunk)
		if err != nil {
			break
		}
		io.ReadFull(dec, buf)
	}
	atomic.StoreInt32(&stop, 1)
	<-done
	if seen != 0 {
		fmt.Printf("cgo rule broken: during inflate, C code stored the Go pointer %#x in Go memory (the z_stream embedded in %s); a concurrent garbage collection that scans it while it points one past the output buffer dies with \"found pointer to free object\"\n", seen, ptr.Elem().Type())
		os.Exit(4)
	}
}

// stressChild is the child process: exits 0 if nothing crashed, 3 on a wrong decode.
func stressChild(d time.Duration) {
	type fc struct{ file, content []byte }
	var files []fc
	for _, n := range stressSizes {
		f, c := stressFile(n)
		files = append(files, fc{f, c})
	}
	observeDecompressor(files[len(files)-1].file, time.Second)
	stop := time.Now().Add(d)
	go func() {
		for {
			runtime.GC()
		}
	}()
	var wg sync.WaitGroup
	for g := 0; g < 32; g++ {
		wg.Add(1)
		go func(g int) {
			defer wg.Done()
			var keep [][]byte
			hold := func(buf []byte, it int) {
				if it%3 == 0 {
					keep = append(keep, buf) // leave holes in the spans
					if len(keep) > 1000 {
						keep = keep[500:]
					}
				}
			}
			if g%4 == 0 {
				// through rac.Reader: one long-lived Reader (hence one long-lived decompressor) per file
				var readers []*rac.Reader
				for k := range files {
					readers = append(readers, &rac.Reader{ReadSeeker: bytes.NewReader(files[k].file), CompressedSize: int64(len(files[k].file)),
						CodecReaders: []rac.CodecReader{&raczlib.CodecReader{}}})
				}
				for it := 0; time.Now().Before(stop); it++ {
					k := (g + it) % len(files)
					r := readers[k]
					if _, err := r.Seek(0, io.SeekStart); err != nil {
						fmt.Println("seek:", err)
						os.Exit(3)
					}
					for off := 0; off < len(files[k].content); off += stressSizes[k] {
						buf := make([]byte, stressSizes[k]) // one slot: the stream ends one past it
						if _, err := io.ReadFull(r, buf); err != nil || !bytes.Equal(buf, files[k].content[off:off+stressSizes[k]]) {
							fmt.Println("wrong decode:", err)
							os.Exit(3)
						}
						hold(buf, it+off)
					}
				}
				for _, r := range readers {
					r.Close()
				}
				return
			}
			// the codec alone, as rac.Reader.nextChunk drives it: MakeDecompressor per chunk, then
			// one Read that fills the buffer exactly
			type job struct {
				rs    *bytes.Reader
				chunk rac.Chunk
				want  []byte
			}
			var jobs []job
			for k := range files {
				cr := &rac.ChunkReader{ReadSeeker: bytes.NewReader(files[k].file), CompressedSize: int64(len(files[k].file))}
				for {
					c, err := cr.NextChunk()
					if err != nil {
						break
					}
					jobs = append(jobs, job{bytes.NewReader(files[k].file), c, files[k].content[c.DRange[0]:c.DRange[1]]})
				}
			}
			codec := &raczlib.CodecReader{}
			for it := 0; time.Now().Before(stop); it++ {
				j := jobs[(g+it)%len(jobs)]
				dec, err := codec.MakeDecompressor(j.rs, j.chunk)
				if err != nil {
					fmt.Println("MakeDecompressor:", err)
					os.Exit(3)
				}
				buf := make([]byte, len(j.want))
				if n, err := io.ReadFull(dec, buf); err != nil || !bytes.Equal(buf, j.want) {
					fmt.Println("wrong decode (codec alone):", n, len(buf), err, j.chunk)
					os.Exit(3)
				}
				hold(buf, it)
			}
		}(g)
	}
	wg.Wait()
	os.Exit(0)
}

// runStress runs the child and reports a crash as an oracle failure.
func runStress(r *hlib.Run) {
	d := "3s"
	if r.Thorough {
		d = "20s"
	}
	cmd := exec.Command(os.Args[0], "-out", r.OutDir)
	cmd.Env = append(os.Environ(), "C15_STRESS="+d)
	var errb bytes.Buffer
	cmd.Stderr = &errb
	cmd.Stdout = &errb
	done := make(chan error, 1)
	if err := cmd.Start(); err != nil {
		r.Count("gc-stress:not-run")
		return
	}
	go func() { done <- cmd.Wait() }()
	select {
	case err := <-done:
		if err == nil {
			r.Count("gc-stress:ok")
			return
		}
		msg := errb.String()
		if i := strings.Index(msg, "\ngoroutine "); i > 0 {
			msg = msg[:i]
		}
		if len(msg) > 1500 {
			msg = msg[:1500]
		}
		r.Count("gc-stress:crash")
		r.Fail("crash:reader-under-gc", "rac.Reader + raczlib crashed the process while decoding a valid file under back-to-back garbage collections: "+strings.ReplaceAll(msg, "\n", " | "),
			"run harness/cmd/c15 with C15_STRESS="+d+" (32 goroutines decode writer-made files with DChunkSize 16/48/80/224/4096 into exact-size buffers while runtime.GC() loops)")
	case <-time.After(5 * time.Minute):
		cmd.Process.Kill()
		r.Count("gc-stress:timeout")
		r.Fail("hang:reader-under-gc", "the GC stress child did not finish", "C15_STRESS="+d)
	}
}
