// C13 harness: rac.Writer / rac.ChunkWriter (lib/rac/writer.go, chunk_writer.go)
// vs the Lean model (Model/Rac/*.lean), plus the property's own oracles
// evaluated on the implementation: round trip through rac.Reader, structural
// validation by an independent walker written from doc/spec/rac-spec.md
// (specwalk.go), sticky errors under injected faults.
package main

import (
	"bytes"
	"fmt"
	"hash/crc32"
	"io"
	"os"
	"sort"
	"strings"
	"sync"
	"time"

	"github.com/google/wuffs/lib/rac"
	"github.com/google/wuffs/lib/raclz4"
	"github.com/google/wuffs/lib/raczlib"
	"github.com/google/wuffs/lib/raczstd"
	"wvh/hlib"
)

type H struct {
	r             *hlib.Run
	rng           *hlib.Rand
	notedResOnly  bool
	files         [][]byte // small valid files, seeds for the malformed-file section
	notedZlibDict bool
}

func errWord(err error) string {
	switch err {
	case nil:
		return "nil"
	case errFault:
		return "fault"
	case errHCut1:
		return "codec-error-1"
	case errHCut2:
		return "codec-error-2"
	case errHFailClose:
		return "codec-error-3"
	}
	if w := rac.VerifErrWord(err); w != "" {
		return w
	}
	return "other:" + strings.ReplaceAll(err.Error(), " ", "_")
}

func resStr(err error, okExtra string) string {
	if err == nil {
		return "ok" + okExtra
	}
	return "err " + errWord(err)
}

// ---------------------------------------------------------------- generators

func (h *H) zeroHeavy(n int, maxRun int) []byte {
	b := make([]byte, n)
	for i := 0; i < n; {
		run := h.rng.Range(1, maxRun)
		zero := h.rng.Bool()
		for j := 0; j < run && i < n; j++ {
			if !zero {
				b[i] = byte(h.rng.Range(1, 255))
			}
			i++
		}
	}
	return b
}

var words = []string{"sheep", "One ", "Two ", "Three ", "wuffs", "random access", " compression.\n", "\x00\x00\x00\x00", "the quick brown fox", "0123456789"}

// payload styles: 0 all-zero, 1 incompressible, 2 zero-heavy runs, 3 zero runs
// placed around multiples of `unit` (the chunk size), 4 text-like, 5 sparse.
func (h *H) payload(n int, style int, unit int) []byte {
	switch style {
	case 0:
		return make([]byte, n)
	case 1:
		b := h.rng.Bytes(n)
		return b
	case 2:
		return h.zeroHeavy(n, 1+h.rng.Intn(300))
	case 3:
		if unit < 1 {
			unit = 1
		}
		b := make([]byte, n)
		for i := range b {
			b[i] = byte(h.rng.Range(1, 255))
		}
		for pos := unit; pos < n+unit; pos += unit * h.rng.Range(1, 3) {
			lo := pos - h.rng.Intn(4) - h.rng.Intn(unit+1)
			hi := pos + h.rng.Intn(4) + h.rng.Intn(2*unit+1)
			for i := lo; i < hi; i++ {
				if i >= 0 && i < n {
					b[i] = 0
				}
			}
		}
		return b
	case 4:
		var sb bytes.Buffer
		for sb.Len() < n {
			sb.WriteString(words[h.rng.Intn(len(words))])
		}
		return sb.Bytes()[:n]
	default:
		b := make([]byte, n)
		for k := 0; k < n/50+1 && n > 0; k++ {
			b[h.rng.Intn(n)] = byte(h.rng.Range(1, 255))
		}
		return b
	}
}

// partition of n bytes into Write sizes
func (h *H) partition(n int, kind int) []int {
	var parts []int
	switch kind {
	case 0:
		return []int{n}
	case 1, 2, 3:
		k := []int{1, 2, 7}[kind-1]
		for i := 0; i < n; i += k {
			if i+k > n {
				parts = append(parts, n-i)
			} else {
				parts = append(parts, k)
			}
		}
	case 9:
		// at most ~40 pieces: CChunkSize mode re-compresses the pending bytes on
		// every Write, so many small writes of a large compressible payload cost
		// quadratic time in the implementation itself
		m := n/h.rng.Range(1, 40) + 1
		for i := 0; i < n; {
			k := h.rng.Range(m/2, m)
			if i+k > n {
				k = n - i
			}
			parts = append(parts, k)
			i += k
		}
	default:
		m := []int{3, 16, 100, 1000, 5000, 70000}[h.rng.Intn(6)]
		for i := 0; i < n; {
			k := h.rng.Range(0, m)
			if h.rng.Chance(1, 20) {
				k = 0
			}
			if i+k > n {
				k = n - i
			}
			parts = append(parts, k)
			i += k
		}
	}
	if h.rng.Chance(1, 10) {
		parts = append(parts, 0)
	}
	return parts
}

const (
	hShort = rac.Codec(0x3E << 56)
	hLong  = rac.Codec(0x8000_0000_326F_646D)
)

// ---------------------------------------------------------------- writeBuffer

func (h *H) zbytes(maxLen int) []byte {
	n := h.rng.Intn(maxLen + 1)
	b := make([]byte, n)
	for i := range b {
		if !h.rng.Chance(3, 5) {
			b[i] = byte(h.rng.Range(1, 3))
		}
	}
	return b
}

func allZero(b []byte) bool {
	for _, x := range b {
		if x != 0 {
			return false
		}
	}
	return true
}

func (h *H) wbufOne(prev, curr []byte, p int, op string, n uint64, ext []byte) {
	r := h.r
	abs := append(append([]byte(nil), prev[p:]...), curr...)
	pre := fmt.Sprintf("wbuf %s %s %d ", hlib.Hex(prev), hlib.Hex(curr), p)
	b := rac.VerifNewWriteBuffer(append([]byte(nil), prev...), append([]byte(nil), curr...), p)
	st := func() string {
		pp, cc, q := b.State()
		return hlib.Hex(pp[q:]) + " " + hlib.Hex(cc)
	}
	absNow := func() []byte {
		pp, cc, q := b.State()
		return append(append([]byte(nil), pp[q:]...), cc...)
	}
	r.Count("wbuf:" + op)
	switch op {
	case "peek":
		x, y := b.Peek(n)
		line := fmt.Sprintf("%speek %d", pre, n)
		r.Op(line, hlib.Hex(x)+" "+hlib.Hex(y))
		m := int(n)
		if m > len(abs) {
			m = len(abs)
		}
		if !bytes.Equal(append(append([]byte(nil), x...), y...), abs[:m]) {
			r.Fail("wbuf:peek", "peek(n) is not the first min(n,len) bytes of prev[p:]++curr", line)
		}
	case "advance":
		line := fmt.Sprintf("%sadvance %d", pre, n)
		out := hlib.Guard(func() string { b.Advance(n); return st() })
		r.Op(line, out)
		if out != "panic" && !bytes.Equal(absNow(), abs[n:]) {
			r.Fail("wbuf:advance", "advance(n) does not drop exactly n bytes", line)
		}
	case "apz":
		line := pre + "apz"
		k := b.AdvancePastLeadingZeroes()
		r.Op(line, fmt.Sprintf("%d %s", k, st()))
		now := absNow()
		if int(k) > len(abs) || !allZero(abs[:k]) || !bytes.Equal(now, abs[k:]) {
			r.Fail("wbuf:apz-skips-bytes", "advancePastLeadingZeroes does not drop exactly the n leading zeroes it reports", line)
		} else if len(now) > 0 && now[0] == 0 {
			r.Fail("wbuf:apz-not-maximal", "advancePastLeadingZeroes leaves a leading zero", line)
		}
		if len(prev[p:]) > 0 && !allZero(prev[p:]) && len(curr) > 0 && curr[0] == 0 {
			r.Nontrivial(line)
		}
	case "compact":
		b.Compact()
		pp, cc, q := b.State()
		line := pre + "compact"
		r.Op(line, fmt.Sprintf("%s %s %d", hlib.Hex(pp), hlib.Hex(cc), q))
		if !bytes.Equal(absNow(), abs) || len(cc) != 0 || q != 0 {
			r.Fail("wbuf:compact", "compact changes the queue or leaves curr/p", line)
		}
	case "extend":
		line := pre + "extend " + hlib.Hex(ext)
		out := hlib.Guard(func() string { b.Extend(ext); return st() })
		r.Op(line, out)
	case "length":
		r.Op(pre+"length", fmt.Sprint(b.Length()))
	}
}

func (h *H) wbufOps(n int) {
	ops := []string{"peek", "advance", "apz", "apz", "apz", "compact", "extend", "length"}
	for i := 0; i < n; i++ {
		prev, curr := h.zbytes(8), h.zbytes(8)
		p := h.rng.Intn(len(prev) + 1)
		op := ops[h.rng.Intn(len(ops))]
		k := uint64(h.rng.Intn(len(prev) - p + len(curr) + 3))
		h.wbufOne(prev, curr, p, op, k, h.zbytes(3))
	}
}

func (h *H) smallFuncs() {
	r := h.r
	for _, n := range []int{0, 1, 2, 1023, 1024, 1025, 2048, 2049, 255 * 1024, 255*1024 + 1, 256 * 1024, 1 << 20, 1<<31 - 1} {
		r.Op(fmt.Sprintf("clen %d", n), fmt.Sprint(rac.VerifCalcCLength(n)))
	}
	for i := 0; i < 200; i++ {
		n := h.rng.Intn(300 * 1024)
		r.Op(fmt.Sprintf("clen %d", n), fmt.Sprint(rac.VerifCalcCLength(n)))
	}
	for i := 0; i < 300; i++ {
		b := h.zbytes(10)
		out := rac.VerifStripTrailingZeroes(b)
		r.Op("strip "+hlib.Hex(b), hlib.Hex(out))
		if !bytes.Equal(out, b[:len(out)]) || !allZero(b[len(out):]) || (len(out) > 0 && out[len(out)-1] == 0) {
			r.Fail("strip", "stripTrailingZeroes", "strip "+hlib.Hex(b))
		}
	}
}

// ---------------------------------------------------------------- gather / index

func showTree(n *rac.VerifNode, sb *strings.Builder) {
	if len(n.Children) != 0 || len(n.Resources) != 0 {
		fmt.Fprintf(sb, "B(%d,[", n.DRangeSize)
		for i, x := range n.Resources {
			if i > 0 {
				sb.WriteByte(',')
			}
			fmt.Fprint(sb, x)
		}
		fmt.Fprintf(sb, "],%d,%d){", n.COffsetCLength, uint64(n.Codec))
		for i := range n.Children {
			if i > 0 {
				sb.WriteByte(',')
			}
			showTree(&n.Children[i], sb)
		}
		sb.WriteByte('}')
		return
	}
	fmt.Fprintf(sb, "L(%d,%d,%d,%d)", n.DRangeSize, n.Secondary, n.Tertiary, n.COffsetCLength)
}

func hashStr(s string) uint64 {
	h := uint64(14695981039346656037)
	for _, c := range s { // runes, like Lean's String.foldl
		h = h*16777619 + uint64(c)
	}
	return h
}

func showTreeMaybeHashed(n *rac.VerifNode) string {
	var sb strings.Builder
	showTree(n, &sb)
	s := sb.String()
	if len(s) > 20000 {
		return fmt.Sprintf("hash %d %d", len(s), hashStr(s))
	}
	return s
}

func leavesArg(ls []rac.VerifNode) string {
	var sb strings.Builder
	for i, l := range ls {
		if i > 0 {
			sb.WriteByte(',')
		}
		fmt.Fprintf(&sb, "%d:%d:%d:%d", l.DRangeSize, l.Secondary, l.Tertiary, l.COffsetCLength)
	}
	return sb.String()
}

// wellformed is C13's gather oracle on the implementation's tree: arity within
// budget, resources listed (sorted, duplicate-free) cover the leaves' resources,
// resource tags stay out of [0xC0,0xFD], leaves kept in order, DRange sizes add
// up, and no branch has a lone branch child (the spec's anti-loop rule).
func wellformed(n *rac.VerifNode, long bool, isRoot bool, leaves *[]rac.VerifNode) string {
	if len(n.Children) == 0 {
		*leaves = append(*leaves, *n)
		return ""
	}
	arity := len(n.Children) + len(n.Resources)
	if long {
		arity++
	}
	if arity > 255 {
		return "arity>255"
	}
	if len(n.Resources) > 0xC0 {
		return "resource-tag-in-reserved-zone"
	}
	if !sort.IntsAreSorted(n.Resources) {
		return "resources-unsorted"
	}
	for i := 1; i < len(n.Resources); i++ {
		if n.Resources[i] == n.Resources[i-1] {
			return "resources-duplicate"
		}
	}
	sum := uint64(0)
	nb := 0
	for i := range n.Children {
		c := &n.Children[i]
		sum += c.DRangeSize
		if len(c.Children) != 0 {
			nb++
		} else {
			for _, res := range []rac.OptResource{c.Secondary, c.Tertiary} {
				if res != 0 && sort.SearchInts(n.Resources, int(res)) == len(n.Resources) {
					return "leaf-resource-missing-from-parent"
				}
				if res != 0 && n.Resources[sort.SearchInts(n.Resources, int(res))] != int(res) {
					return "leaf-resource-missing-from-parent"
				}
			}
		}
		if s := wellformed(c, long, false, leaves); s != "" {
			return s
		}
	}
	if nb != 0 && nb != len(n.Children) {
		return "mixed-children"
	}
	if nb == 1 && len(n.Children) == 1 {
		return "lone-branch-child"
	}
	if sum != n.DRangeSize {
		return "drange-sum"
	}
	return ""
}

func (h *H) genLeaves(n int, nres int, codec rac.Codec, resProb int) []rac.VerifNode {
	ls := make([]rac.VerifNode, n)
	for i := range ls {
		ls[i] = rac.VerifNode{DRangeSize: uint64(h.rng.Range(1, 9)), COffsetCLength: uint64(h.rng.Intn(1000)) | uint64(h.rng.Range(0, 3))<<48, Codec: codec}
		if nres > 0 && h.rng.Chance(resProb, 10) {
			ls[i].Secondary = rac.OptResource(h.rng.Range(1, nres))
		}
		if nres > 0 && h.rng.Chance(resProb, 20) {
			ls[i].Tertiary = rac.OptResource(h.rng.Range(1, nres))
		}
	}
	return ls
}

func (h *H) gatherOne(ls []rac.VerifNode, codec rac.Codec, what int) {
	r := h.r
	arg := leavesArg(ls)
	long := int64(codec) < 0
	switch what {
	case 0:
		line := fmt.Sprintf("gather %d %s", uint64(codec), arg)
		root := rac.VerifGather(ls, codec)
		r.Op(line, showTreeMaybeHashed(&root))
		var got []rac.VerifNode
		if s := wellformed(&root, long, true, &got); s != "" {
			r.Fail("gather:"+s, "gather builds an ill-formed tree: "+s, line)
		} else if len(got) != len(ls) {
			r.Fail("gather:leaves-lost", "gather loses or duplicates leaves", line)
		} else {
			for i := range ls {
				if got[i].DRangeSize != ls[i].DRangeSize || got[i].Secondary != ls[i].Secondary || got[i].Tertiary != ls[i].Tertiary {
					r.Fail("gather:leaves-reordered", "gather reorders leaves", line)
					break
				}
			}
		}
		r.Count(fmt.Sprintf("gather:levels=%d", depth(&root)))
	case 1:
		atEnd := h.rng.Bool()
		root, size := rac.VerifCalcEncodedSize(ls, codec, atEnd)
		r.Op(fmt.Sprintf("calcsize %d %d %s", uint64(codec), b2i(atEnd), arg), fmt.Sprintf("%d %s", size, showTreeMaybeHashed(&root)))
	case 2:
		atEnd := h.rng.Bool()
		nres := 0
		for _, l := range ls {
			if int(l.Secondary) > nres {
				nres = int(l.Secondary)
			}
			if int(l.Tertiary) > nres {
				nres = int(l.Tertiary)
			}
		}
		rcl := make([]uint64, nres+1)
		for i := 1; i < len(rcl); i++ {
			rcl[i] = uint64(h.rng.Intn(5000)) | uint64(h.rng.Range(0, 2))<<48
		}
		cfs, dco, ico := uint64(h.rng.Intn(1<<20)), uint64(h.rng.Intn(4096)), uint64(h.rng.Intn(1<<16))
		out, err := rac.VerifWriteIndex(ls, codec, atEnd, cfs, dco, ico, rcl)
		var sb strings.Builder
		sb.WriteByte('[')
		for i, x := range rcl {
			if i > 0 {
				sb.WriteByte(',')
			}
			fmt.Fprint(&sb, x)
		}
		sb.WriteByte(']')
		r.Op(fmt.Sprintf("windex %d %d %d %d %d %s %s", uint64(codec), b2i(atEnd), cfs, dco, ico, sb.String(), arg), resStr(err, "")+" "+hlib.Hex(out))
	}
}

func depth(n *rac.VerifNode) int {
	d := 0
	for i := range n.Children {
		if x := depth(&n.Children[i]); x > d {
			d = x
		}
	}
	if len(n.Children) != 0 {
		d++
	}
	return d
}

func b2i(b bool) int {
	if b {
		return 1
	}
	return 0
}

func (h *H) gatherOps(n int) {
	codecs := []rac.Codec{hShort, rac.CodecZlib, hLong}
	sizes := []int{1, 2, 3, 84, 85, 86, 127, 128, 170, 253, 254, 255, 256, 257, 300, 509, 510, 511, 600}
	for i := 0; i < n; i++ {
		codec := codecs[h.rng.Intn(len(codecs))]
		sz := sizes[h.rng.Intn(len(sizes))]
		if h.rng.Chance(1, 3) {
			sz = h.rng.Range(1, 700)
		}
		nres := []int{0, 0, 1, 2, 3, 40, 300}[h.rng.Intn(7)]
		h.gatherOne(h.genLeaves(sz, nres, codec, h.rng.Range(0, 10)), codec, h.rng.Intn(3))
	}
	// three-level trees and the lone-trailing-branch shapes (anti-loop rule)
	big := []int{255 * 255, 255*255 + 1, 255*255 + 256}
	if h.r.Thorough {
		big = append(big, 255*255+255, 255*255+257, 2*255*255+1, 254*254+1)
	}
	for _, sz := range big {
		codec := hShort
		if sz == 254*254+1 {
			codec = hLong
		}
		ls := h.genLeaves(sz, 0, codec, 0)
		for i := range ls {
			ls[i].DRangeSize = 1
			ls[i].COffsetCLength = uint64(i)
		}
		h.gatherOne(ls, codec, 0)
	}
}

// ---------------------------------------------------------------- sinks

type sinks struct {
	ctl  *faultCtl
	w    *fWriter
	t    *fTemp
	ts   *fTempSeek
	temp io.ReadWriter
}

func newSinks(tempKind int, failAt int, pre int) *sinks {
	s := &sinks{ctl: &faultCtl{failAt: failAt}}
	s.w = &fWriter{ctl: s.ctl}
	switch tempKind {
	case 1:
		s.t = &fTemp{ctl: s.ctl}
		s.temp = s.t
	case 2:
		s.ts = newFTempSeek(s.ctl, pre)
		s.temp = s.ts
	}
	return s
}

// deltas returns and clears the bytes handed to Writer / TempFile since the last call.
func (s *sinks) deltas() string {
	dw := s.w.delta
	s.w.delta = nil
	var dt []byte
	if s.t != nil {
		dt, s.t.delta = s.t.delta, nil
	}
	if s.ts != nil {
		dt, s.ts.delta = s.ts.delta, nil
	}
	return hlib.Hex(dw) + " " + hlib.Hex(dt)
}

// ---------------------------------------------------------------- ChunkWriter runs

type cwChunk struct {
	dsize    uint64
	codec    rac.Codec
	primary  []byte
	sec, ter rac.OptResource
}

func (h *H) cwRun(loc int, cps uint64, tempKind int, failAt int, nOps int, mode int) {
	r := h.r
	var trace []string
	op := func(line, out string) {
		r.Op(line, out)
		trace = append(trace, line)
	}
	op("reset", "ok")
	op(fmt.Sprintf("cw %d %d %d %d", loc, cps, tempKind, failAt), "ok")
	s := newSinks(tempKind, failAt, h.rng.Intn(9))
	cw := &rac.ChunkWriter{Writer: s.w, IndexLocation: rac.IndexLocation(loc), TempFile: s.temp, CPageSize: cps}
	codec := []rac.Codec{hShort, hLong, rac.CodecZlib}[h.rng.Intn(3)]
	var resources [][]byte
	var accepted []cwChunk
	var firstErr error
	sticky := func(err error, what string) {
		if firstErr != nil && err != firstErr {
			r.Fail("sticky:chunkwriter", fmt.Sprintf("%s returns %s after an earlier call returned %s", what, errWord(err), errWord(firstErr)), strings.Join(trace, "\n"))
		}
	}
	note := func(err error, stickyKind bool) {
		if err != nil && firstErr == nil && stickyKind {
			firstErr = err
		}
	}
	for i := 0; i < nOps; i++ {
		faultedBefore := s.ctl.faulted
		if h.rng.Chance(1, 8) && mode == 0 {
			res := h.rng.Bytes(h.rng.Intn(40))
			if h.rng.Chance(1, 10) {
				res = h.rng.Bytes(h.rng.Range(1000, 3000))
			}
			id, err := cw.AddResource(res)
			op("addres "+hlib.Hex(res), resStr(err, fmt.Sprintf(" %d", id))+" "+s.deltas())
			sticky(err, "AddResource")
			note(err, true)
			if err == nil {
				resources = append(resources, res)
				if int(id) != len(resources) {
					r.Fail("cw:resource-id", "AddResource ids are not 1,2,3…", strings.Join(trace, "\n"))
				}
			}
			if s.ctl.faulted && !faultedBefore && err == nil {
				r.Fail("fault-swallowed:AddResource", "underlying call failed but AddResource returned nil", strings.Join(trace, "\n"))
			}
			continue
		}
		c := cwChunk{dsize: uint64(h.rng.Range(1, 20)), codec: codec}
		if mode == 1 {
			c.dsize = 1
			c.primary = []byte{byte(i)}
		} else {
			if h.rng.Chance(1, 12) {
				c.dsize = 0
			}
			if h.rng.Chance(1, 60) {
				c.codec = []rac.Codec{rac.Codec(0x40 << 56), rac.CodecLZ4, rac.Codec(1<<63 | 1<<60)}[h.rng.Intn(3)]
			}
			c.primary = h.rng.Bytes(h.rng.Intn(30))
			if h.rng.Chance(1, 15) {
				c.primary = h.rng.Bytes(h.rng.Range(1020, 1030))
			}
			if len(resources) > 0 && h.rng.Chance(1, 2) {
				c.sec = rac.OptResource(h.rng.Range(1, len(resources)))
			}
			if len(resources) > 0 && h.rng.Chance(1, 4) {
				c.ter = rac.OptResource(h.rng.Range(1, len(resources)))
			}
		}
		err := cw.AddChunk(c.dsize, c.codec, c.primary, c.sec, c.ter)
		op(fmt.Sprintf("addchunk %d %d %s %d %d", c.dsize, uint64(c.codec), hlib.Hex(c.primary), c.sec, c.ter), resStr(err, "")+" "+s.deltas())
		if errWord(err) == "invalid-codec" {
			// documented: not sticky (AddChunk returns it without recording it)
			sticky(nil, "")
		} else {
			sticky(err, "AddChunk")
			note(err, true)
		}
		if err == nil && c.dsize > 0 {
			accepted = append(accepted, c)
		}
		if s.ctl.faulted && !faultedBefore && err == nil {
			r.Fail("fault-swallowed:AddChunk", "underlying call failed but AddChunk returned nil", strings.Join(trace, "\n"))
		}
	}
	faultedBefore := s.ctl.faulted
	err := cw.Close()
	op("cwclose", resStr(err, "")+" "+s.deltas())
	sticky(err, "Close")
	if s.ctl.faulted && !faultedBefore && err == nil {
		r.Fail("fault-swallowed:Close", "underlying call failed but ChunkWriter.Close returned nil", strings.Join(trace, "\n"))
	}
	if firstErr != nil && err == nil {
		r.Fail("sticky:chunkwriter-close-nil", "Close returns nil after an earlier error", strings.Join(trace, "\n"))
	}
	r.Count("cw:close=" + errWord(err))
	if err != nil {
		return
	}
	file := s.w.all
	verdict := sVerdict(file)
	op("specself", verdict)
	replay := strings.Join(trace, "\n")
	d, chunks, bad := sChunks(file)
	if bad != "" {
		if len(accepted) == 0 && loc == 0 && bad == "root-cptrmax" {
			// Outside C13's statement (a rac.Writer whose Close returns nil has added a chunk
			// for every resource, and records an AddChunk error), so counted and noted, not
			// failed: ChunkWriter{IndexLocationAtEnd}.Close with no accepted chunk appends the
			// fixed 32-byte empty RAC file although the magic (and any resources) were already
			// written by an earlier AddResource / rejected AddChunk; CPtrMax (32) != CFileSize.
			r.Count("cw:observation:no-chunk-but-initialized-gives-invalid-file")
			if !h.notedResOnly {
				h.notedResOnly = true
				r.Note("observation (outside the property): ChunkWriter{IndexLocationAtEnd}: AddResource (or an AddChunk rejected with errInvalidCodec), then Close with no accepted chunk returns nil but the file is not a valid RAC file (root CPtrMax 32 != CFileSize); inputs findings/C13/resources-without-chunks.ops, findings/C13/rejected-chunk-then-close.ops")
			}
			return
		}
		r.Fail("spec-invalid:chunkwriter:"+string(bad), "ChunkWriter.Close returned nil but the file violates the RAC spec: "+string(bad), replay)
		return
	}
	// the file must describe exactly the chunks that were added
	if len(chunks) != len(accepted) {
		r.Fail("cw:chunk-count", fmt.Sprintf("file lists %d chunks, %d were added", len(chunks), len(accepted)), replay)
		return
	}
	pos := uint64(0)
	for i, c := range accepted {
		g := chunks[i]
		ok := g.d[0] == pos && g.d[1] == pos+c.dsize && g.codec == uint64(c.codec)
		ok = ok && g.p[1] >= g.p[0]+uint64(len(c.primary)) && g.p[1] <= uint64(len(file)) && bytes.Equal(file[g.p[0]:g.p[0]+uint64(len(c.primary))], c.primary)
		chk := func(res rac.OptResource, rg [2]uint64) bool {
			if res == 0 {
				return rg[0] == rg[1]
			}
			want := resources[res-1]
			return rg[1] >= rg[0]+uint64(len(want)) && rg[1] <= uint64(len(file)) && bytes.Equal(file[rg[0]:rg[0]+uint64(len(want))], want)
		}
		ok = ok && chk(c.sec, g.s) && chk(c.ter, g.t)
		if !ok {
			r.Fail("cw:chunk-mismatch", fmt.Sprintf("chunk %d of the file does not describe the %d-th added chunk (ranges/bytes/resources)", i, i), replay)
			return
		}
		pos += c.dsize
	}
	if d != pos {
		r.Fail("cw:dfilesize", "DFileSize is not the sum of the chunk sizes", replay)
	}
	if cps > 0 {
		// page rule: a chunk of at most one page never straddles a page boundary
		for i, c := range accepted {
			g := chunks[i]
			if l := uint64(len(c.primary)); l > 0 && l <= cps && g.p[0]/cps != (g.p[0]+l-1)/cps {
				r.Fail("cw:page-straddle", "a chunk no longer than CPageSize straddles a page boundary", replay)
				break
			}
		}
	}
	r.Nontrivial(fmt.Sprintf("cw %d %d %d n=%d", loc, cps, tempKind, len(accepted)))
}

var pageSizes = []uint64{0, 0, 2, 4, 8, 128, 4096}

func (h *H) cwRuns(n int) {
	for i := 0; i < n; i++ {
		loc := h.rng.Intn(2)
		tempKind := 0
		if loc == 1 {
			tempKind = h.rng.Range(1, 2)
		}
		if h.rng.Chance(1, 25) {
			tempKind = h.rng.Intn(3)
		}
		cps := pageSizes[h.rng.Intn(len(pageSizes))]
		if h.rng.Chance(1, 30) {
			cps = []uint64{3, 12, 1 << 48, 1 << 20}[h.rng.Intn(4)]
		}
		failAt := 0
		if h.rng.Chance(1, 3) {
			failAt = h.rng.Range(1, 40)
		}
		nOps := []int{0, 1, 2, 5, 20, 60, 260, 520}[h.rng.Intn(8)]
		h.cwRun(loc, cps, tempKind, failAt, nOps, 0)
	}
	// every fault position of one fixed medium run, both locations
	for loc := 0; loc < 2; loc++ {
		for k := 1; k <= 50; k++ {
			h.cwRun(loc, 8, loc, k, 30, 0)
		}
	}
	// the chunk counts at which gather's tree gets a lone trailing branch
	counts := []int{255*255 + 1}
	if h.r.Thorough {
		counts = []int{255 * 255, 255*255 + 1, 255*255 + 255, 255*255 + 256, 2*255*255 + 1}
	}
	for _, c := range counts {
		for loc := 0; loc < 2; loc++ {
			h.cwRun(loc, 0, loc, 0, c, 1)
		}
	}
}

// ---------------------------------------------------------------- Writer runs (harness codec)

type wcfg struct {
	loc            int
	cps            uint64
	tempKind       int
	failAt         int
	cchunk, dchunk uint64
	codec          rac.Codec
	oob, cancut    bool
	nilw           bool
	nilcw          bool // nil CodecWriter
	failClose      bool // the CodecWriter's Close fails
	res            [][]byte
}

func (c wcfg) opLine() string {
	rs := "none"
	if len(c.res) > 0 {
		var parts []string
		for _, x := range c.res {
			parts = append(parts, hlib.Hex(x))
		}
		rs = strings.Join(parts, ",")
	}
	nilw := b2i(c.nilw)
	if c.nilcw {
		nilw = 2
	}
	return fmt.Sprintf("w %d %d %d %d %d %d %d %d %d %d %s %d", c.loc, c.cps, c.tempKind, c.failAt, c.cchunk, c.dchunk, uint64(c.codec), b2i(c.oob), b2i(c.cancut), nilw, rs, b2i(c.failClose))
}

func (c wcfg) mode() string {
	if c.dchunk > 0 {
		return "dchunk"
	}
	if c.cchunk > 0 {
		return "cchunk"
	}
	return "default"
}

func (h *H) writerRun(c wcfg, payload []byte, parts []int) {
	r := h.r
	var trace []string
	op := func(line, out string) {
		r.Op(line, out)
		trace = append(trace, line)
	}
	op("reset", "ok")
	op(c.opLine(), "ok")
	s := newSinks(c.tempKind, c.failAt, h.rng.Intn(9))
	hcw := &HCodecWriter{Codec: c.codec, OOB: c.oob, Cut_: c.cancut, FailClose: c.failClose}
	w := &rac.Writer{
		CodecWriter:   hcw,
		IndexLocation: rac.IndexLocation(c.loc), TempFile: s.temp, CPageSize: c.cps,
		CChunkSize: c.cchunk, DChunkSize: c.dchunk, ResourcesData: c.res,
	}
	if !c.nilw {
		w.Writer = s.w
	}
	if c.nilcw {
		w.CodecWriter = nil
	}
	var firstErr error
	replay := func() string { return strings.Join(trace, "\n") }
	check := func(err error, what string) {
		if firstErr != nil && err != firstErr {
			r.Fail("sticky:writer", fmt.Sprintf("%s returns %s after an earlier call returned %s", what, errWord(err), errWord(firstErr)), replay())
		}
		if err != nil && firstErr == nil {
			firstErr = err
		}
	}
	pos := 0
	accepted := 0
	for _, k := range parts {
		faultedBefore := s.ctl.faulted
		chunk := payload[pos : pos+k]
		pos += k
		var n int
		var err error
		out := hlib.Guard(func() string {
			n, err = w.Write(chunk)
			return resStr(err, fmt.Sprintf(" %d", n))
		})
		op("write "+hlib.Hex(chunk), out+" "+s.deltas())
		if out == "panic" {
			r.Fail("panic:Writer.Write", "rac.Writer.Write panics", replay())
			return
		}
		check(err, "Write")
		if err == nil {
			accepted += n
			if n != k {
				r.Fail("write:short", "Write returns n != len(p) with a nil error", replay())
			}
		}
		if s.ctl.faulted && !faultedBefore && err == nil {
			r.Fail("fault-swallowed:Write", "an underlying Write/Seek failed during Writer.Write, which returned nil", replay())
		}
	}
	faultedBefore := s.ctl.faulted
	var err error
	out := hlib.Guard(func() string { err = w.Close(); return resStr(err, "") })
	op("close", out+" "+s.deltas())
	if out == "panic" {
		r.Fail("panic:Writer.Close", "rac.Writer.Close panics", replay())
		return
	}
	if firstErr != nil && err != firstErr {
		r.Fail("sticky:writer-close", fmt.Sprintf("Close returns %s after an earlier call returned %s", errWord(err), errWord(firstErr)), replay())
	}
	if s.ctl.faulted && !faultedBefore && err == nil {
		r.Fail("fault-swallowed:Close", "an underlying call failed during Writer.Close, which returned nil", replay())
	}
	if s.ctl.faulted && err == nil {
		r.Fail("fault-lost", "an underlying call failed at some point but Close returned nil", replay())
	}
	// a second Close and a late Write must keep reporting
	err2 := w.Close()
	op("close", resStr(err2, "")+" "+s.deltas())
	_, err3 := w.Write([]byte{1})
	op("write 01", resStr(err3, " 1")+" "+s.deltas())
	if err != nil && (err2 != err || err3 != err) {
		r.Fail("sticky:after-close", "calls after a failed Close do not return the same error", replay())
	}
	if err == nil && (err2 == nil || err3 == nil) {
		r.Fail("closed-writer-accepts-calls", "calls after a successful Close return nil", replay())
	}
	r.Count("w:" + c.mode() + ":close=" + errWord(err))
	if c.failAt > 0 {
		r.Count(fmt.Sprintf("w:fault-fired=%v", s.ctl.faulted))
	}
	if err != nil {
		return
	}
	file := s.w.all
	op("specself", sVerdict(file))
	if _, _, bad := sChunks(file); bad != "" {
		r.Fail("spec-invalid:writer:"+c.mode()+":"+string(bad), "Writer.Close returned nil but the file violates the RAC spec: "+string(bad), replay())
		return
	}
	got, rerr := readAll(file, &HCodecReader{Codec: c.codec, OOB: c.oob, Resources: c.res})
	if rerr != nil {
		op("decodeself", "bad reader:"+strings.ReplaceAll(rerr.Error(), " ", "_"))
	} else {
		op("decodeself", "ok "+hlib.Hex(got))
	}
	if rerr != nil || !bytes.Equal(got, payload) {
		r.Fail("roundtrip:hcodec:"+c.mode(), fmt.Sprintf("rac.Reader does not return the written bytes (err=%v, %d vs %d bytes)", rerr, len(got), len(payload)), replay())
		return
	}
	if len(payload) > 0 {
		r.Nontrivial(fmt.Sprintf("%s|%d|%d", c.opLine(), len(payload), len(parts)))
	}
	if len(file) <= 1500 && len(h.files) < 400 {
		h.files = append(h.files, append([]byte(nil), file...))
	}
}

func readAll(file []byte, cr rac.CodecReader) (got []byte, err error) {
	out, ok := hlib.WithTimeout(60*time.Second, func() string {
		rd := &rac.Reader{ReadSeeker: bytes.NewReader(file), CompressedSize: int64(len(file)), CodecReaders: []rac.CodecReader{cr}}
		got, err = io.ReadAll(rd)
		rd.Close()
		return "done"
	})
	if !ok {
		return nil, fmt.Errorf("reader timeout")
	}
	if out == "panic" {
		return nil, fmt.Errorf("reader panic")
	}
	return got, err
}

func (h *H) genCfg() wcfg {
	c := wcfg{cancut: true}
	c.loc = h.rng.Intn(2)
	if c.loc == 1 {
		c.tempKind = h.rng.Range(1, 2)
	}
	if h.rng.Chance(1, 40) {
		c.tempKind = h.rng.Intn(3)
	}
	c.cps = pageSizes[h.rng.Intn(len(pageSizes))]
	if h.rng.Chance(1, 40) {
		c.cps = []uint64{3, 12, 1 << 48}[h.rng.Intn(3)]
	}
	c.codec = hShort
	if h.rng.Chance(1, 3) {
		c.codec = hLong
	}
	switch h.rng.Intn(5) {
	case 0, 1, 2:
		c.cchunk = uint64([]int{6, 7, 8, 10, 13, 16, 24, 40, 64, 100, 300}[h.rng.Intn(11)])
		if h.rng.Chance(1, 25) {
			c.cchunk = uint64(h.rng.Range(1, 5))
		}
	case 3:
		c.dchunk = uint64([]int{1, 2, 3, 5, 8, 16, 33, 100, 1000}[h.rng.Intn(9)])
		if h.rng.Chance(1, 4) {
			c.cchunk = 10 // ignored
		}
	}
	if h.rng.Chance(1, 50) {
		c.cancut = false
	}
	c.oob = h.rng.Chance(1, 3)
	c.nilw = h.rng.Chance(1, 100)
	c.nilcw = !c.nilw && h.rng.Chance(1, 100)
	c.failClose = h.rng.Chance(1, 50)
	for i := h.rng.Intn(4); i > 0; i-- {
		c.res = append(c.res, h.rng.Bytes(h.rng.Intn(12)))
	}
	return c
}

func (h *H) writerRuns(n int) {
	for i := 0; i < n; i++ {
		c := h.genCfg()
		unit := int(c.cchunk + c.dchunk)
		if unit == 0 {
			unit = 65536
		}
		size := []int{0, 1, 5, 40, 200, 1000, 3000}[h.rng.Intn(7)]
		if c.dchunk == 0 && c.cchunk == 0 {
			size = []int{0, 100, 65535, 65536, 65537, 140000}[h.rng.Intn(6)]
		}
		if c.dchunk == 1 {
			size = h.rng.Intn(600)
		}
		size += h.rng.Intn(size/4 + 1)
		payload := h.payload(size, h.rng.Intn(6), unit)
		kind := h.rng.Intn(6)
		if size > 5000 && kind >= 1 && kind <= 3 {
			kind = 4
		}
		parts := h.partition(size, kind)
		// The list-based Lean model copies the pending bytes on every Write (and the
		// implementation re-compresses them in CChunkSize mode): bound writes x pending.
		pending := size
		if c.dchunk > 0 && int(c.dchunk) < pending {
			pending = int(c.dchunk)
		} else if c.cchunk == 0 && c.dchunk == 0 && pending > 65536 {
			pending = 65536
		}
		if len(parts)*pending > 3_000_000 {
			parts = h.partition(size, 9)
		}
		if h.rng.Chance(1, 4) {
			c.failAt = h.rng.Range(1, 60)
		}
		h.writerRun(c, payload, parts)
	}
	// every fault position k <= 50 of fixed runs (one per index location / sizing mode)
	base := h.payload(300, 2, 16)
	for _, c := range []wcfg{
		{loc: 0, cps: 8, cchunk: 16, codec: hShort, cancut: true, res: [][]byte{{1, 2}, {3}}},
		{loc: 1, tempKind: 1, cps: 8, dchunk: 33, codec: hLong, cancut: true, res: [][]byte{{1, 2}, {3}}},
		{loc: 1, tempKind: 2, cps: 0, cchunk: 24, codec: hShort, cancut: true},
	} {
		for k := 1; k <= 50; k++ {
			c.failAt = k
			h.writerRun(c, base, h.partition(len(base), 4))
		}
	}
	// large payloads: zero runs far longer than any chunk, 1-byte writes of a medium payload
	bigs := []int{300 * 1024}
	if h.r.Thorough {
		bigs = []int{100 * 1024, 300 * 1024, 300 * 1024}
	}
	for _, sz := range bigs {
		c := h.genCfg()
		c.failAt, c.nilw, c.nilcw, c.failClose, c.cancut, c.cps = 0, false, false, false, true, 4096
		c.cchunk, c.dchunk = 4096, 0
		c.loc, c.tempKind = 1, 2
		h.writerRun(c, h.payload(sz, 5, 4096), h.partition(sz, 9))
		c.cchunk, c.dchunk = 0, 0
		c.loc, c.tempKind = 0, 0
		h.writerRun(c, h.payload(sz, 2, 65536), h.partition(sz, 9))
	}
}

// ---------------------------------------------------------------- malformed files

// fixChecksums recomputes the checksum of everything in file that looks like an
// index node (magic, arity at both ends), so that a mutation inside a node gets
// past the checksum rule and reaches the deeper validation rules.
func fixChecksums(file []byte) {
	for i := 0; i+32 <= len(file); i++ {
		if file[i] != 0x72 || file[i+1] != 0xC3 || file[i+2] != 0x63 || file[i+3] == 0 {
			continue
		}
		size := int(file[i+3])*16 + 16
		if i+size > len(file) || file[i+size-1] != file[i+3] {
			continue
		}
		ck := crc32.ChecksumIEEE(file[i+6 : i+size])
		ck ^= ck >> 16
		file[i+4], file[i+5] = byte(ck), byte(ck>>8)
	}
}

// specMutations feeds corrupted RAC files to the two spec readers (Lean `Spec`,
// Go specwalk.go): they must reach the same verdict, rule by rule. The reader
// the round-trip theorem is stated against must not be more permissive than
// its Go twin, nor reject what the twin accepts.
func (h *H) specMutations(n int) {
	if len(h.files) == 0 {
		return
	}
	special := []byte{0x00, 0x01, 0xBF, 0xC0, 0xFC, 0xFD, 0xFE, 0xFF, 0x80, 0x40, 0x3E}
	for i := 0; i < n; i++ {
		f := append([]byte(nil), h.files[h.rng.Intn(len(h.files))]...)
		kind := h.rng.Intn(8)
		// where the index is: the first or the last 400 bytes
		pos := func() int {
			w := 400
			if w > len(f) {
				w = len(f)
			}
			if h.rng.Bool() {
				return h.rng.Intn(w)
			}
			return len(f) - 1 - h.rng.Intn(w)
		}
		switch kind {
		case 0: // a byte flip anywhere in the index area, checksum left stale
			f[pos()] ^= byte(1 << uint(h.rng.Intn(8)))
		case 1, 2, 3: // a special value somewhere in the index area, checksums repaired
			for k := h.rng.Range(1, 2); k > 0; k-- {
				f[pos()] = special[h.rng.Intn(len(special))]
			}
			fixChecksums(f)
		case 4: // small arithmetic change of a byte, checksums repaired
			f[pos()] += byte(h.rng.Range(1, 3))
			fixChecksums(f)
		case 5: // truncated
			f = f[:len(f)-h.rng.Range(1, 40)%len(f)]
		case 6: // trailing / leading garbage
			if h.rng.Bool() {
				f = append(f, h.rng.Bytes(h.rng.Range(1, 40))...)
			} else {
				f = append(h.rng.Bytes(h.rng.Range(1, 40)), f...)
			}
		case 7: // two 8-byte segments swapped, checksums repaired
			a, b := pos()&^7, pos()&^7
			if a+8 <= len(f) && b+8 <= len(f) {
				for k := 0; k < 8; k++ {
					f[a+k], f[b+k] = f[b+k], f[a+k]
				}
			}
			fixChecksums(f)
		}
		v := sVerdict(f)
		h.r.Op("spec "+hlib.Hex(f), v)
		w := v
		if k := strings.IndexByte(v, ' '); k >= 0 && strings.HasPrefix(v, "ok") {
			w = "ok"
		}
		h.r.Count("specmut:" + w)
	}
}

// ---------------------------------------------------------------- real codecs

const noteZlibDict = "observation (outside the property; the failure is reported): raczlib + CChunkSize + ResourcesData: zlibcut.Cut re-decodes the cut stream without the preset dictionary and fails with 'flate: corrupt input' (findings/C13/zlibcut-preset-dictionary.txt)"

type realCodec struct {
	name   string
	mkW    func() rac.CodecWriter
	mkR    func() rac.CodecReader
	canCut bool
}

var realCodecs = []realCodec{
	{"zlib", func() rac.CodecWriter { return &raczlib.CodecWriter{} }, func() rac.CodecReader { return &raczlib.CodecReader{} }, true},
	{"lz4", func() rac.CodecWriter { return &raclz4.CodecWriter{} }, func() rac.CodecReader { return &raclz4.CodecReader{} }, false},
	{"zstd", func() rac.CodecWriter { return &raczstd.CodecWriter{} }, func() rac.CodecReader { return &raczstd.CodecReader{} }, false},
}

type realCase struct {
	codec          int
	loc            int
	cps            uint64
	tempKind       int // 0 nil, 1 fTemp, 2 fTempSeek, 3 bytes.Buffer, 4 os.File
	failAt         int
	cchunk, dchunk uint64
	res            [][]byte
	payload        []byte
	parts          []int
	// results
	file    []byte
	desc    string
	fails   [][3]string
	closeOK bool
	counts  []string
	// chunks with / without a secondary resource in the written file; longest stored dictionary used
	won, lost, maxWonDict int
	dictSig               string // set by the shared-resource section: signature for Nontrivial
	notes   []string
}

func (c *realCase) describe() string {
	var rs []string
	for _, x := range c.res {
		rs = append(rs, hlib.Hex(x))
	}
	var ps []string
	for _, p := range c.parts {
		ps = append(ps, fmt.Sprint(p))
	}
	return fmt.Sprintf("real codec=%s loc=%d cpagesize=%d temp=%d failAt=%d cchunk=%d dchunk=%d resources=[%s]\nwrite sizes: %s\npayload: %s",
		realCodecs[c.codec].name, c.loc, c.cps, c.tempKind, c.failAt, c.cchunk, c.dchunk, strings.Join(rs, ","), strings.Join(ps, " "), hlib.Hex(c.payload))
}

func (c *realCase) fail(key, desc string) {
	c.fails = append(c.fails, [3]string{key, desc, c.describe()})
}

func (c *realCase) run(scratch string, idx int) {
	rc := realCodecs[c.codec]
	ctl := &faultCtl{failAt: c.failAt}
	fw := &fWriter{ctl: ctl}
	w := &rac.Writer{Writer: fw, CodecWriter: rc.mkW(), IndexLocation: rac.IndexLocation(c.loc), CPageSize: c.cps,
		CChunkSize: c.cchunk, DChunkSize: c.dchunk, ResourcesData: c.res}
	var osf *os.File
	switch c.tempKind {
	case 1:
		w.TempFile = &fTemp{ctl: ctl}
	case 2:
		w.TempFile = newFTempSeek(ctl, 5)
	case 3:
		w.TempFile = &bytes.Buffer{}
	case 4:
		f, err := os.CreateTemp(scratch, fmt.Sprintf("t%d-*", idx))
		if err != nil {
			c.counts = append(c.counts, "real:tempfile-unavailable")
			w.TempFile = &bytes.Buffer{}
		} else {
			osf = f
			f.Write([]byte("garbage before the start position"))
			w.TempFile = f
			defer func() { f.Close(); os.Remove(f.Name()) }()
		}
	}
	_ = osf
	mode := "dchunk"
	if c.dchunk == 0 && c.cchunk > 0 {
		mode = "cchunk"
	} else if c.dchunk == 0 {
		mode = "default"
	}
	var firstErr error
	pos := 0
	for _, k := range c.parts {
		before := ctl.faulted
		n, err := w.Write(c.payload[pos : pos+k])
		pos += k
		if firstErr != nil && err != firstErr {
			c.fail("sticky:writer:"+rc.name, "Write returns a different result after an earlier error")
		}
		if err != nil && firstErr == nil {
			firstErr = err
		}
		if err == nil && n != k {
			c.fail("write:short", "Write returns n != len(p) with a nil error")
		}
		if ctl.faulted && !before && err == nil {
			c.fail("fault-swallowed:Write", "an underlying call failed during Writer.Write, which returned nil")
		}
	}
	err := w.Close()
	if firstErr != nil && err != firstErr {
		c.fail("sticky:writer-close:"+rc.name, "Close does not return the earlier error")
	}
	if ctl.faulted && err == nil {
		c.fail("fault-lost", "an underlying call failed at some point but Close returned nil")
	}
	if err2 := w.Close(); (err != nil && err2 != err) || (err == nil && err2 == nil) {
		c.fail("sticky:after-close", "second Close does not keep reporting")
	}
	c.counts = append(c.counts, "real:"+rc.name+":"+mode+":close="+errWord(err))
	if err != nil {
		if c.failAt == 0 && !(mode == "cchunk" && !rc.canCut) && errWord(err) != "cchunksize-too-small" {
			// not a C13 violation (the failure is reported), but worth a note: e.g. an
			// internal self-check of lib/flatecut (property C16) firing
			if rc.name == "zlib" && mode == "cchunk" && len(c.res) > 0 && strings.HasPrefix(err.Error(), "flate: corrupt input") {
				// zlibcut.Cut re-decodes the cut stream without the preset dictionary that
				// raczlib's Compress used: findings/C13/zlibcut-preset-dictionary.txt
				c.counts = append(c.counts, "real:observation:zlibcut-fails-on-preset-dictionary")
				c.notes = append(c.notes, noteZlibDict)
				return
			}
			c.counts = append(c.counts, "real:error-without-fault:"+rc.name+":"+strings.ReplaceAll(err.Error(), " ", "_"))
			c.notes = append(c.notes, "Close fails without an injected fault: "+err.Error()+"\n"+c.describe())
		}
		return
	}
	c.closeOK = true
	c.file = fw.all
	d, chunks, bad := sChunks(c.file)
	if bad != "" {
		c.fail("spec-invalid:writer:"+rc.name+":"+string(bad), "Writer.Close returned nil but the file violates the RAC spec: "+string(bad))
		return
	}
	if d != uint64(len(c.payload)) {
		c.fail("dfilesize:"+rc.name, "DFileSize differs from the number of bytes written")
	}
	// which chunks were compressed against a shared resource, and how long the stored
	// (codec-refined) dictionary is: the input distribution of the resource dimension
	for _, ch := range chunks {
		if ch.s[0] == ch.s[1] {
			c.lost++
			continue
		}
		c.won++
		cls := "?"
		if ch.s[0]+4 <= uint64(len(c.file)) {
			n := getU32le(c.file[ch.s[0]:])
			cls = fmt.Sprint(n)
			if n >= 2 && n <= 2000 {
				cls = "2..2000"
			}
			if n > c.maxWonDict {
				c.maxWonDict = n
			}
		}
		c.counts = append(c.counts, "real:"+rc.name+":chunk-uses-resource:stored-dict-len="+cls)
	}
	if mode != "cchunk" {
		ds := c.dchunk
		if ds == 0 {
			ds = 65536
		}
		for i, ch := range chunks {
			if sz := ch.d[1] - ch.d[0]; (i+1 < len(chunks) && sz != ds) || sz > ds {
				c.fail("dchunk-size:"+rc.name, "a chunk's DRange size differs from DChunkSize")
				break
			}
		}
	} else {
		for i, ch := range chunks {
			// primary CRange is clamped by CLen*1024 granularity; the chunk itself must not exceed CChunkSize,
			// which shows as the distance to the next chunk's start (no page padding here)
			if c.cps == 0 && i+1 < len(chunks) && chunks[i+1].p[0] > ch.p[0] && chunks[i+1].p[0]-ch.p[0] > c.cchunk && len(c.res) == 0 {
				c.fail("cchunk-size:"+rc.name, "a compressed chunk is longer than CChunkSize")
				break
			}
		}
	}
	got, rerr := readAll(c.file, rc.mkR())
	if rerr != nil || !bytes.Equal(got, c.payload) {
		c.fail("roundtrip:"+rc.name+":"+mode, fmt.Sprintf("rac.Reader does not return the written bytes (err=%v, %d vs %d bytes)", rerr, len(got), len(c.payload)))
	}
}

func (h *H) realRuns(n int) {
	scratch, err := os.MkdirTemp("/var/tmp", "wuffs-verif-c13-")
	if err != nil {
		scratch = ""
	} else {
		defer os.RemoveAll(scratch)
	}
	cases := make([]*realCase, 0, n)
	for i := 0; i < n; i++ {
		c := &realCase{codec: h.rng.Intn(3)}
		if h.rng.Chance(1, 3) {
			c.codec = 0
		}
		c.loc = h.rng.Intn(2)
		if c.loc == 1 {
			c.tempKind = h.rng.Range(1, 4)
			if scratch == "" && c.tempKind == 4 {
				c.tempKind = 3
			}
		}
		c.cps = pageSizes[h.rng.Intn(len(pageSizes))]
		size := []int{0, 1, 100, 3000, 20000, 70000}[h.rng.Intn(6)]
		if i%40 == 7 {
			size = 300 * 1024
		}
		size += h.rng.Intn(size/3 + 1)
		switch h.rng.Intn(5) {
		case 0, 1:
			c.cchunk = uint64([]int{64, 100, 256, 1000, 4096, 20000}[h.rng.Intn(6)])
		case 2, 3:
			c.dchunk = uint64([]int{16, 100, 1000, 4096, 65536, 100000}[h.rng.Intn(6)])
			if size > 20000 && c.dchunk < 100 {
				c.dchunk = 1000
			}
		}
		if size > 100000 && c.cchunk > 0 && c.cchunk < 4096 {
			c.cchunk = 4096
		}
		unit := int(c.cchunk + c.dchunk)
		if unit == 0 {
			unit = 65536
		}
		c.payload = h.payload(size, h.rng.Intn(6), unit)
		kind := h.rng.Intn(6)
		if size > 3000 && kind >= 1 && kind <= 3 {
			kind = 4
		}
		if size > 3000 && c.cchunk > 0 && c.dchunk == 0 {
			kind = 9
		}
		c.parts = h.partition(size, kind)
		for k := h.rng.Intn(4); k > 0 && h.rng.Chance(1, 2); k-- {
			lo := 0
			if size > 0 {
				lo = h.rng.Intn(size)
			}
			hi := lo + h.rng.Intn(2000)
			if hi > size {
				hi = size
			}
			c.res = append(c.res, append([]byte(nil), c.payload[lo:hi]...))
		}
		if h.rng.Chance(1, 4) {
			c.failAt = h.rng.Range(1, 60)
			if c.tempKind >= 3 {
				c.tempKind = h.rng.Range(1, 2)
			}
		}
		cases = append(cases, c)
	}
	h.runRealCases(cases, scratch)
}

// runRealCases runs the cases in parallel (each case is independent) and reports in order.
func (h *H) runRealCases(cases []*realCase, scratch string) {
	var wg sync.WaitGroup
	sem := make(chan struct{}, 12)
	for i, c := range cases {
		wg.Add(1)
		sem <- struct{}{}
		go func(i int, c *realCase) {
			defer wg.Done()
			defer func() { <-sem }()
			defer func() {
				if e := recover(); e != nil {
					c.fail("panic:writer:"+realCodecs[c.codec].name, fmt.Sprint("panic: ", e))
				}
			}()
			t0 := time.Now()
			c.run(scratch, i)
			if os.Getenv("C13_TIMING") != "" {
				fmt.Fprintf(os.Stderr, "real case %d: %.2fs %s payload=%d parts=%d nres=%d d=%d c=%d\n", i, time.Since(t0).Seconds(), realCodecs[c.codec].name, len(c.payload), len(c.parts), len(c.res), c.dchunk, c.cchunk)
			}
		}(i, c)
	}
	wg.Wait()
	for _, c := range cases {
		for _, k := range c.counts {
			h.r.Count(k)
		}
		for _, f := range c.fails {
			h.r.Fail(f[0], f[1], f[2])
		}
		for _, n := range c.notes {
			if n == noteZlibDict {
				if h.notedZlibDict {
					continue
				}
				h.notedZlibDict = true
			}
			if len(n) > 3000 {
				n = n[:3000] + "…"
			}
			h.r.Note(n)
		}
		if c.closeOK {
			// the Lean Spec reader must reach the same verdict as the Go walker on the real file
			h.r.Op("spec "+hlib.Hex(c.file), sVerdict(c.file))
			if len(c.fails) == 0 && len(c.payload) > 0 {
				h.r.Nontrivial(fmt.Sprintf("real|%d|%d|%d|%d|%d|%d|%d|%d", c.codec, c.loc, c.cps, c.tempKind, c.cchunk, c.dchunk, len(c.payload), len(c.parts)))
				if c.dictSig != "" && c.won > 0 {
					h.r.Nontrivial(fmt.Sprintf("realdict|%s|won=%d|lost=%d", c.dictSig, c.won, c.lost))
				}
			}
		}
	}
}

// ---------------------------------------------------------------- fixed cases

// corpus: minimised past failures, run first.
func (h *H) corpus() {
	// advancePastLeadingZeroes skipped curr's zeroes while prev still held non-zero bytes
	h.wbufOne([]byte{0, 1}, []byte{0, 2}, 0, "apz", 0, nil)
	h.wbufOne([]byte{7}, []byte{0, 0, 2}, 1, "apz", 0, nil)
	h.wbufOne([]byte{0, 0}, []byte{0, 3}, 0, "apz", 0, nil)
	// whole-writer form of the same defect
	c := wcfg{cchunk: 8, codec: hShort, cancut: true}
	h.writerRun(c, []byte{1, 2, 3, 4, 0, 5, 6, 7, 8, 9, 10, 11, 12, 13, 14, 15, 0, 16, 17}, []int{5, 11, 3})
	// useResource with the out-of-range "no resource" index len(ResourcesData)
	c = wcfg{dchunk: 4, codec: hShort, cancut: true, oob: true}
	h.writerRun(c, []byte{1, 1, 1, 1}, []int{4})
	// a nil CodecWriter: Write reports errInvalidCodecWriter; Close called the nil interface's Close
	c = wcfg{codec: hShort, cancut: true, nilcw: true}
	h.writerRun(c, []byte{1}, []int{1})
	h.writerRun(c, nil, nil)
	// the CodecWriter's own Close fails: reported by Writer.Close
	c = wcfg{dchunk: 4, codec: hShort, cancut: true, failClose: true}
	h.writerRun(c, []byte{1, 2, 3, 4, 5}, []int{2, 3})
}

func main() {
	r := hlib.Start("C13")
	h := &H{r: r, rng: r.Rand}
	scale := 1
	if r.Thorough {
		scale = 12
	}
	t0 := time.Now()
	section := func(name string, f func()) {
		if only := os.Getenv("C13_ONLY"); only != "" && only != name {
			return
		}
		f()
		r.Extra("wall_"+name, time.Since(t0).Seconds())
		t0 = time.Now()
	}
	section("corpus", h.corpus)
	section("small", h.smallFuncs)
	section("wbuf", func() { h.wbufOps(6000 * scale) })
	section("dict", func() { h.dictOps(150 * scale) })
	section("gather", func() { h.gatherOps(150 * scale) })
	section("cw", func() { h.cwRuns(120 * scale) })
	section("writer", func() { h.writerRuns(700 * scale) })
	section("specmut", func() { h.specMutations(1500 * scale) })
	section("real", func() { h.realRuns(200 * scale) })
	section("realdict", func() { h.realDictRuns(60 * scale) })
	r.Finish("cases: writeBuffer states over {0,1,2,3}-bytes; leaf lists at the arity thresholds (84..86, 254..257, 509..511, 65025..65281); " +
		"ChunkWriter op sequences (resources, zero-size/invalid/mixed-codec chunks, both index locations, page sizes 0/2/4/8/128/4096, temp-file kinds, fault at call k); " +
		"rac.Writer runs with the harness codec (CChunkSize 1..300 forcing Cut, DChunkSize 1..1000, default; payload styles all-zero/random/zero-runs/zero-runs at chunk boundaries/text/sparse, 0..300 KiB; write partitions whole/1/2/7/random/with empty writes; resources 0..3; faults at every call k<=50 and random later) " +
		"and with raczlib/raclz4/raczstd; corrupted copies of small valid files (byte flips, reserved/special tag values, swapped segments with repaired checksums, truncation, garbage) through both spec readers. Non-trivial = a Writer/ChunkWriter run whose Close returned nil with a non-empty payload and passed spec validation + round trip (distinct by configuration, payload length, partition length), or an apz case with non-zero bytes left in prev and a leading zero in curr.")
}
