package main

// The HARNESS codec: Go twin of /verif/lean/WuffsVerif/Model/Rac/HCodec.lean.
// Chunk format: u32le n, then n bytes of tokens; a token is a non-zero literal
// byte, or "00 k" standing for k+1 zero bytes. Resource wrapper: u32le len, raw.

import (
	"bytes"
	"errors"
	"io"

	"github.com/google/wuffs/lib/rac"
)

var (
	errHCut1      = errors.New("hcodec: cut: maxEncodedLen too small")
	errHCut2      = errors.New("hcodec: cut: wrong codec")
	errHBadChunk  = errors.New("hcodec: bad chunk")
	errHBadRes    = errors.New("hcodec: resource CRange does not hold the expected resource")
	errHFailClose = errors.New("hcodec: close")
)

func u32le(n int) []byte { return []byte{byte(n), byte(n >> 8), byte(n >> 16), byte(n >> 24)} }
func getU32le(b []byte) int {
	return int(b[0]) | int(b[1])<<8 | int(b[2])<<16 | int(b[3])<<24
}

func hEncodeTokens(dst []byte, data []byte) []byte {
	z := 0
	flush := func() {
		for z > 0 {
			k := z
			if k > 256 {
				k = 256
			}
			dst = append(dst, 0, byte(k-1))
			z -= k
		}
	}
	for _, x := range data {
		if x == 0 {
			z++
			continue
		}
		flush()
		dst = append(dst, x)
	}
	flush()
	return dst
}

func hDecodeTokens(toks []byte) ([]byte, bool) {
	out := []byte(nil)
	for i := 0; i < len(toks); {
		if toks[i] != 0 {
			out = append(out, toks[i])
			i++
			continue
		}
		if i+1 >= len(toks) {
			return nil, false
		}
		out = append(out, make([]byte, int(toks[i+1])+1)...)
		i += 2
	}
	return out, true
}

func hDecompress(chunk []byte) ([]byte, bool) {
	if len(chunk) < 4 {
		return nil, false
	}
	n := getU32le(chunk)
	if len(chunk)-4 < n {
		return nil, false
	}
	return hDecodeTokens(chunk[4 : 4+n])
}

func hWrap(raw []byte) []byte { return append(u32le(len(raw)), raw...) }

// HCodecWriter implements rac.CodecWriter.
type HCodecWriter struct {
	Codec rac.Codec
	OOB   bool
	Cut_  bool
	// FailClose makes Close return errHFailClose.
	FailClose bool
	buf       []byte
	closed    int
}

func (w *HCodecWriter) Close() error {
	w.closed++
	if w.FailClose {
		return errHFailClose
	}
	return nil
}
func (w *HCodecWriter) Clone() rac.CodecWriter { c := *w; c.buf = nil; return &c }
func (w *HCodecWriter) CanCut() bool           { return w.Cut_ }

func (w *HCodecWriter) resIndex(b byte, nres int) int {
	m := nres + 1
	if w.OOB {
		m = nres + 2
	}
	return int(b)%m - 1
}

func (w *HCodecWriter) Compress(p []byte, q []byte, resourcesData [][]byte) (
	rac.Codec, []byte, int, int, error) {
	w.buf = append(w.buf[:0], 0, 0, 0, 0)
	// tokens of p++q: runs may span the p/q boundary
	data := append(append([]byte(nil), p...), q...)
	w.buf = hEncodeTokens(w.buf, data)
	copy(w.buf, u32le(len(w.buf)-4))
	i2, i3 := -1, -1
	if len(data) > 0 {
		i2 = w.resIndex(data[0], len(resourcesData))
		i3 = w.resIndex(data[0]>>4, len(resourcesData))
	}
	return w.Codec, w.buf, i2, i3, nil
}

func (w *HCodecWriter) Cut(codec rac.Codec, encoded []byte, maxEncodedLen int) (int, int, error) {
	if codec != w.Codec {
		return 0, 0, errHCut2
	}
	if maxEncodedLen < 4 || len(encoded) < 4 {
		return 0, 0, errHCut1
	}
	n := getU32le(encoded)
	toks := encoded[4 : 4+n]
	budget := maxEncodedLen - 4
	e, d := 0, 0
	for e < len(toks) {
		if toks[e] != 0 {
			if budget < 1 {
				break
			}
			budget, e, d = budget-1, e+1, d+1
		} else {
			if e+1 >= len(toks) || budget < 2 {
				break
			}
			budget, d, e = budget-2, d+int(toks[e+1])+1, e+2
		}
	}
	copy(encoded, u32le(e))
	return 4 + e, d, nil
}

func (w *HCodecWriter) WrapResource(raw []byte) ([]byte, error) { return hWrap(raw), nil }

// HCodecReader implements rac.CodecReader. It also checks that the secondary
// and tertiary CRanges hold exactly the resources that HCodecWriter.Compress
// named for the chunk's data (so the resource plumbing of the writer is part
// of the round-trip oracle).
type HCodecReader struct {
	Codec     rac.Codec
	OOB       bool
	Resources [][]byte
}

func (r *HCodecReader) Close() error             { return nil }
func (r *HCodecReader) Accepts(c rac.Codec) bool { return c == r.Codec }
func (r *HCodecReader) Clone() rac.CodecReader   { c := *r; return &c }

func readRange(rs io.ReadSeeker, rg rac.Range) ([]byte, error) {
	if _, err := rs.Seek(rg[0], io.SeekStart); err != nil {
		return nil, err
	}
	b := make([]byte, rg.Size())
	if _, err := io.ReadFull(rs, b); err != nil {
		return nil, err
	}
	return b, nil
}

func (r *HCodecReader) MakeDecompressor(racFile io.ReadSeeker, c rac.Chunk) (io.Reader, error) {
	prim, err := readRange(racFile, c.CPrimary)
	if err != nil {
		return nil, err
	}
	data, ok := hDecompress(prim)
	if !ok {
		return nil, errHBadChunk
	}
	w := &HCodecWriter{Codec: r.Codec, OOB: r.OOB}
	check := func(idx int, rg rac.Range) error {
		if idx < 0 || idx >= len(r.Resources) {
			if !rg.Empty() {
				return errHBadRes
			}
			return nil
		}
		got, err := readRange(racFile, rg)
		if err != nil {
			return err
		}
		want := hWrap(r.Resources[idx])
		if len(got) < len(want) || !bytes.Equal(got[:len(want)], want) {
			return errHBadRes
		}
		return nil
	}
	if len(data) > 0 {
		if err := check(w.resIndex(data[0], len(r.Resources)), c.CSecondary); err != nil {
			return nil, err
		}
		if err := check(w.resIndex(data[0]>>4, len(r.Resources)), c.CTertiary); err != nil {
			return nil, err
		}
	} else if !c.CSecondary.Empty() || !c.CTertiary.Empty() {
		return nil, errHBadRes
	}
	return bytes.NewReader(data), nil
}
