package main

// Fault-injecting io.Writer / TempFile twins of the Lean `IOSt`: one shared call
// counter; the failAt-th underlying call (Write / Read / Seek on either object)
// fails ONCE with errFault and has no effect; later calls succeed again, so a
// writer that forgets its sticky error would go on to produce a wrong file.

import (
	"errors"
	"io"
)

var errFault = errors.New("c13: injected fault")

type faultCtl struct {
	calls, failAt int
	faulted       bool
}

func (c *faultCtl) tick() bool {
	c.calls++
	if c.calls == c.failAt {
		c.faulted = true
		return false
	}
	return true
}

type fWriter struct {
	ctl   *faultCtl
	all   []byte
	delta []byte
}

func (w *fWriter) Write(p []byte) (int, error) {
	if !w.ctl.tick() {
		return 0, errFault
	}
	w.all = append(w.all, p...)
	w.delta = append(w.delta, p...)
	return len(p), nil
}

// fTemp is a TempFile with separate read and write positions (like a
// bytes.Buffer) that is neither an io.Seeker nor an io.WriterTo, so io.Copy
// drives it with Read calls of 32 KiB.
type fTemp struct {
	ctl   *faultCtl
	data  []byte
	delta []byte
	rpos  int
}

func (t *fTemp) Write(p []byte) (int, error) {
	if !t.ctl.tick() {
		return 0, errFault
	}
	t.data = append(t.data, p...)
	t.delta = append(t.delta, p...)
	return len(p), nil
}

func (t *fTemp) Read(p []byte) (int, error) {
	if !t.ctl.tick() {
		return 0, errFault
	}
	if t.rpos >= len(t.data) {
		return 0, io.EOF
	}
	n := copy(p, t.data[t.rpos:])
	t.rpos += n
	return n, nil
}

// fTempSeek is an os.File-like TempFile: one position, io.Seeker, and `pre`
// bytes of unrelated content before the starting position.
type fTempSeek struct {
	ctl   *faultCtl
	buf   []byte
	pos   int64
	delta []byte
}

func newFTempSeek(ctl *faultCtl, pre int) *fTempSeek {
	t := &fTempSeek{ctl: ctl}
	for i := 0; i < pre; i++ {
		t.buf = append(t.buf, 0xA5)
	}
	t.pos = int64(pre)
	return t
}

func (t *fTempSeek) Write(p []byte) (int, error) {
	if !t.ctl.tick() {
		return 0, errFault
	}
	for int64(len(t.buf)) < t.pos+int64(len(p)) {
		t.buf = append(t.buf, 0)
	}
	copy(t.buf[t.pos:], p)
	t.pos += int64(len(p))
	t.delta = append(t.delta, p...)
	return len(p), nil
}

func (t *fTempSeek) Read(p []byte) (int, error) {
	if !t.ctl.tick() {
		return 0, errFault
	}
	if t.pos >= int64(len(t.buf)) {
		return 0, io.EOF
	}
	n := copy(p, t.buf[t.pos:])
	t.pos += int64(n)
	return n, nil
}

func (t *fTempSeek) Seek(offset int64, whence int) (int64, error) {
	if !t.ctl.tick() {
		return 0, errFault
	}
	switch whence {
	case io.SeekStart:
		t.pos = offset
	case io.SeekCurrent:
		t.pos += offset
	case io.SeekEnd:
		t.pos = int64(len(t.buf)) + offset
	}
	return t.pos, nil
}
