// Shared resources (dictionaries) with the real codecs: the "shared resources"
// dimension of C13's quantifier. lib/internal/racdict's Saver.Compress tries
// every entry of Writer.ResourcesData as a dictionary (refined by the codec:
// raczlib keeps the last 32 KiB, raczstd the last 1 GiB - 1, raclz4 uses none)
// and keeps it only if the result is below 63/64 of a baseline of >= 256
// bytes; WrapResource stores the refined form. The generic real-codec runs use
// resources of at most 2000 bytes; here the resources straddle raczlib's 32 KiB
// limit and the payload is cut from the resources so that they actually win.
package main

import (
	"fmt"
	"os"
	"strings"
)

// resource lengths around raczlib's refine limit (32768); raczstd's limit
// (2^30 - 1 bytes) is not reachable in a check of this size
var dictResLens = []int{0, 1, 100, 32767, 32768, 32769, 40000, 100000}

// slicesOf fills n bytes with pieces (50..1500 bytes) of src[lo:hi].
func (h *H) slicesOf(n int, src []byte, lo, hi int) []byte {
	out := make([]byte, 0, n)
	if hi-lo < 1 {
		return h.rng.Bytes(n)
	}
	for len(out) < n {
		k := h.rng.Range(50, 1500)
		if k > hi-lo {
			k = hi - lo
		}
		off := lo + h.rng.Intn(hi-lo-k+1)
		out = append(out, src[off:off+k]...)
	}
	return out[:n]
}

// dictChunk builds one chunk's worth of payload. kinds: 0 pieces of the tail of
// one resource (inside every codec's window: the resource wins), 1 pieces of
// its head (outside raczlib's window when the resource is longer than 32 KiB +
// 8000: it loses there), 2 fresh noise (every resource loses), 3 text (baseline
// below 256 bytes: resources are not even tried), 4 zeroes with a few bytes,
// 5 pieces of two resources alternately, 6 tail pieces with 2% of the bytes
// changed, 7 the exact tail of the resource.
func (h *H) dictChunk(n int, kind int, res [][]byte) []byte {
	pick := func() []byte {
		if len(res) == 0 {
			return nil
		}
		// prefer a resource long enough to matter
		for try := 0; try < 4; try++ {
			if r := res[h.rng.Intn(len(res))]; len(r) >= 100 {
				return r
			}
		}
		return res[h.rng.Intn(len(res))]
	}
	tail := func(r []byte) (int, int) {
		lo := len(r) - h.rng.Range(2000, 30000)
		if lo < 0 {
			lo = 0
		}
		return lo, len(r)
	}
	switch kind {
	case 0:
		r := pick()
		lo, hi := tail(r)
		return h.slicesOf(n, r, lo, hi)
	case 1:
		r := pick()
		hi := 8000
		if hi > len(r) {
			hi = len(r)
		}
		return h.slicesOf(n, r, 0, hi)
	case 2:
		return h.rng.Bytes(n)
	case 3:
		return h.payload(n, 4, n)
	case 4:
		return h.payload(n, 5, n)
	case 5:
		a, b := pick(), pick()
		out := make([]byte, 0, n)
		for len(out) < n {
			k := h.rng.Range(200, 1200)
			la, ha := tail(a)
			out = append(out, h.slicesOf(k, a, la, ha)...)
			lb, hb := tail(b)
			out = append(out, h.slicesOf(k, b, lb, hb)...)
		}
		return out[:n]
	case 6:
		r := pick()
		lo, hi := tail(r)
		out := h.slicesOf(n, r, lo, hi)
		for i := 0; i < n/50; i++ {
			out[h.rng.Intn(n)] ^= byte(h.rng.Range(1, 255))
		}
		return out
	default:
		r := pick()
		if len(r) >= n {
			return append([]byte(nil), r[len(r)-n:]...)
		}
		return h.slicesOf(n, r, 0, len(r))
	}
}

func (h *H) dictCase(codec int, resLens []int, kinds []int, forceD uint64) *realCase {
	c := &realCase{codec: codec}
	c.loc = h.rng.Intn(2)
	if c.loc == 1 {
		c.tempKind = h.rng.Range(1, 4)
	}
	c.cps = pageSizes[h.rng.Intn(len(pageSizes))]
	for _, n := range resLens {
		c.res = append(c.res, h.rng.Bytes(n))
	}
	unit := 65536
	switch h.rng.Intn(6) {
	case 0, 1, 2:
		c.dchunk = 4096
	case 3:
		c.dchunk = uint64([]int{1000, 2048, 8192, 20000, 40000}[h.rng.Intn(5)])
	case 4:
		// default sizing: 64 KiB chunks
	case 5:
		if realCodecs[codec].canCut {
			// CChunkSize + a winning dictionary: zlibcut.Cut has no dictionary (observation
			// findings/C13/zlibcut-preset-dictionary.txt, a reported error); without a Cut
			// (chunk below the limit) it must round-trip
			c.cchunk = uint64([]int{4096, 20000, 70000}[h.rng.Intn(3)])
		} else {
			c.dchunk = 4096
		}
	}
	if forceD > 0 {
		c.cchunk, c.dchunk = 0, forceD
	}
	if c.dchunk > 0 {
		unit = int(c.dchunk)
	} else if c.cchunk > 0 {
		unit = int(c.cchunk)
	}
	nchunks := h.rng.Range(2, 8)
	if unit > 20000 {
		nchunks = h.rng.Range(1, 3)
	}
	if codec == 2 && nchunks > 3 {
		// cgozstd reloads the dictionary (at its high "small" level) for every candidate
		// compression: tens of milliseconds per chunk and resource
		nchunks = 3
	}
	for k := 0; k < nchunks; k++ {
		n := unit
		if k == nchunks-1 && h.rng.Bool() {
			n = h.rng.Range(1, unit)
		}
		kind := kinds[h.rng.Intn(len(kinds))]
		c.payload = append(c.payload, h.dictChunk(n, kind, c.res)...)
	}
	kind := []int{0, 0, 4, 9}[h.rng.Intn(4)]
	if c.cchunk > 0 {
		kind = []int{0, 9}[h.rng.Intn(2)]
	}
	c.parts = h.partition(len(c.payload), kind)
	if len(c.parts)*unit > 20_000_000 {
		// Writer.Write compacts the pending bytes (up to one chunk) on every call
		c.parts = h.partition(len(c.payload), 9)
	}
	var ls []string
	for _, n := range resLens {
		ls = append(ls, fmt.Sprint(n))
	}
	c.dictSig = fmt.Sprintf("%s|res=%s|d=%d|c=%d|loc=%d", realCodecs[codec].name, strings.Join(ls, ","), c.dchunk, c.cchunk, c.loc)
	return c
}

func (h *H) realDictRuns(n int) {
	scratch, err := os.MkdirTemp("/var/tmp", "wuffs-verif-c13-")
	if err != nil {
		scratch = ""
	} else {
		defer os.RemoveAll(scratch)
	}
	var cases []*realCase
	// systematic: every resource length alone, payload cut from its tail, for the two codecs
	// that use dictionaries (and once for lz4, whose WrapResource returns nil)
	for _, codec := range []int{0, 2} {
		for _, n := range dictResLens {
			cases = append(cases, h.dictCase(codec, []int{n}, []int{0, 0, 7}, 4096))
		}
	}
	cases = append(cases, h.dictCase(1, []int{40000}, []int{0}, 0))
	// several resources: some win for some chunks and lose for others
	allKinds := []int{0, 0, 0, 1, 2, 3, 4, 5, 5, 6, 7}
	for i := 0; i < n; i++ {
		codec := []int{0, 0, 0, 0, 0, 2, 2, 1}[h.rng.Intn(8)]
		var lens []int
		for k := h.rng.Range(1, 4); k > 0; k-- {
			l := dictResLens[h.rng.Intn(len(dictResLens))]
			if h.rng.Chance(1, 4) {
				l = []int{300, 5000, 32768 - 9, 32768 + 9, 33000, 65536, 70000}[h.rng.Intn(7)]
			}
			lens = append(lens, l)
		}
		c := h.dictCase(codec, lens, allKinds, 0)
		if h.rng.Chance(1, 8) {
			c.failAt = h.rng.Range(1, 40)
			if c.tempKind >= 3 {
				c.tempKind = h.rng.Range(1, 2)
			}
		}
		cases = append(cases, c)
	}
	for _, c := range cases {
		if scratch == "" && c.tempKind == 4 {
			c.tempKind = 3
		}
	}
	h.runRealCases(cases, scratch)
	// how often the property's interesting corner was actually reached
	wonLong := map[string]int{}
	for _, c := range cases {
		if !c.closeOK || c.won == 0 {
			continue
		}
		for _, r := range c.res {
			// a stored dictionary of exactly 32768 bytes from a longer resource: refine cut it
			if len(r) > 32768 && c.maxWonDict >= 32768 {
				wonLong[realCodecs[c.codec].name]++
				break
			}
		}
	}
	h.r.Extra("dict_cases", len(cases))
	h.r.Extra("dict_cases_where_a_resource_longer_than_32KiB_won_zlib", wonLong["zlib"])
	h.r.Extra("dict_cases_where_a_resource_longer_than_32KiB_won_zstd", wonLong["zstd"])
	if wonLong["zlib"] == 0 {
		h.r.Note("generator weakness: no raczlib chunk was compressed against a resource longer than 32 KiB in this run")
	}
}
