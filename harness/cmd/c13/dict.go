// Shared resources (dictionaries) with the real codecs: the "shared resources"
// dimension of C13's quantifier. lib/internal/racdict's Saver.Compress tries
// every entry of Writer.ResourcesData as a dictionary (refined by the codec:
// raczlib keeps the last 32 KiB, raczstd the last 1 GiB - 1, raclz4 uses none)
// and keeps it only if the result is below 63/64 of a baseline of >= 256
// bytes; WrapResource stores the refined form. The generic real-codec runs use
// resources of at most 2000 bytes; here the resources straddle raczlib's 32 KiB
// limit and the payload is cut from the resources so that they actually win.
package main

import (
	"bytes"
	"fmt"
	"os"
	"strings"

	"github.com/google/wuffs/lib/rac"
	"github.com/google/wuffs/lib/raczlib"
	"github.com/google/wuffs/lib/raczstd"
	"wvh/hlib"
)

// resource lengths around raczlib's refine limit (32768); raczstd's limit
// (2^30 - 1 bytes) is not reachable in a check of this size
var dictResLens = []int{0, 1, 100, 32767, 32768, 32769, 40000, 100000}

// slicesOf fills n bytes with pieces (50..1500 bytes) of src[lo:hi].
func (h *H) slicesOf(n int, src []byte, lo, hi int) []byte {
	out := make([]byte, 0, n)
	if hi-lo < 1 {
		return h.rng.Bytes(n)
	}
	for len(out) < n {
		k := h.rng.Range(50, 1500)
		if k > hi-lo {
			k = hi - lo
		}
		off := lo + h.rng.Intn(hi-lo-k+1)
		out = append(out, src[off:off+k]...)
	}
	return out[:n]
}

// dictChunk builds one chunk's worth of payload. kinds: 0 pieces of the tail of
// one resource (inside every codec's window: the resource wins), 1 pieces of
// its head (outside raczlib's window when the resource is longer than 32 KiB +
// 8000: it loses there), 2 fresh noise (every resource loses), 3 text (baseline
// below 256 bytes: resources are not even tried), 4 zeroes with a few bytes,
// 5 pieces of two resources alternately, 6 tail pieces with 2% of the bytes
// changed, 7 the exact tail of the resource.
func (h *H) dictChunk(n int, kind int, res [][]byte) []byte {
	pick := func() []byte {
		if len(res) == 0 {
			return nil
		}
		// prefer a resource long enough to matter
		for try := 0; try < 4; try++ {
			if r := res[h.rng.Intn(len(res))]; len(r) >= 100 {
				return r
			}
		}
		return res[h.rng.Intn(len(res))]
	}
	tail := func(r []byte) (int, int) {
		lo := len(r) - h.rng.Range(2000, 30000)
		if lo < 0 {
			lo = 0
		}
		return lo, len(r)
	}
	switch kind {
	case 0:
		r := pick()
		lo, hi := tail(r)
		return h.slicesOf(n, r, lo, hi)
	case 1:
		r := pick()
		hi := 8000
		if hi > len(r) {
			hi = len(r)
		}
		return h.slicesOf(n, r, 0, hi)
	case 2:
		return h.rng.Bytes(n)
	case 3:
		return h.payload(n, 4, n)
	case 4:
		return h.payload(n, 5, n)
	case 5:
		a, b := pick(), pick()
		out := make([]byte, 0, n)
		for len(out) < n {
			k := h.rng.Range(200, 1200)
			la, ha := tail(a)
			out = append(out, h.slicesOf(k, a, la, ha)...)
			lb, hb := tail(b)
			out = append(out, h.slicesOf(k, b, lb, hb)...)
		}
		return out[:n]
	case 6:
		r := pick()
		lo, hi := tail(r)
		out := h.slicesOf(n, r, lo, hi)
		for i := 0; i < n/50; i++ {
			out[h.rng.Intn(n)] ^= byte(h.rng.Range(1, 255))
		}
		return out
	default:
		r := pick()
		if len(r) >= n {
			return append([]byte(nil), r[len(r)-n:]...)
		}
		return h.slicesOf(n, r, 0, len(r))
	}
}

func (h *H) dictCase(codec int, resLens []int, kinds []int, forceD uint64) *realCase {
	c := &realCase{codec: codec}
	c.loc = h.rng.Intn(2)
	if c.loc == 1 {
		c.tempKind = h.rng.Range(1, 4)
	}
	c.cps = pageSizes[h.rng.Intn(len(pageSizes))]
	for _, n := range resLens {
		c.res = append(c.res, h.rng.Bytes(n))
	}
	unit := 65536
	switch h.rng.Intn(6) {
	case 0, 1, 2:
		c.dchunk = 4096
	case 3:
		c.dchunk = uint64([]int{1000, 2048, 8192, 20000, 40000}[h.rng.Intn(5)])
	case 4:
		// default sizing: 64 KiB chunks
	case 5:
		if realCodecs[codec].canCut {
			// CChunkSize + a winning dictionary: zlibcut.Cut has no dictionary (observation
			// findings/C13/zlibcut-preset-dictionary.txt, a reported error); without a Cut
			// (chunk below the limit) it must round-trip
			c.cchunk = uint64([]int{4096, 20000, 70000}[h.rng.Intn(3)])
		} else {
			c.dchunk = 4096
		}
	}
	if forceD > 0 {
		c.cchunk, c.dchunk = 0, forceD
	}
	if c.dchunk > 0 {
		unit = int(c.dchunk)
	} else if c.cchunk > 0 {
		unit = int(c.cchunk)
	}
	nchunks := h.rng.Range(2, 8)
	if unit > 20000 {
		nchunks = h.rng.Range(1, 3)
	}
	if codec == 2 && nchunks > 3 {
		// cgozstd reloads the dictionary (at its high "small" level) for every candidate
		// compression: tens of milliseconds per chunk and resource
		nchunks = 3
	}
	for k := 0; k < nchunks; k++ {
		n := unit
		if k == nchunks-1 && h.rng.Bool() {
			n = h.rng.Range(1, unit)
		}
		kind := kinds[h.rng.Intn(len(kinds))]
		c.payload = append(c.payload, h.dictChunk(n, kind, c.res)...)
	}
	kind := []int{0, 0, 4, 9}[h.rng.Intn(4)]
	if c.cchunk > 0 {
		kind = []int{0, 9}[h.rng.Intn(2)]
	}
	c.parts = h.partition(len(c.payload), kind)
	if len(c.parts)*unit > 20_000_000 {
		// Writer.Write compacts the pending bytes (up to one chunk) on every call
		c.parts = h.partition(len(c.payload), 9)
	}
	var ls []string
	for _, n := range resLens {
		ls = append(ls, fmt.Sprint(n))
	}
	c.dictSig = fmt.Sprintf("%s|res=%s|d=%d|c=%d|loc=%d", realCodecs[codec].name, strings.Join(ls, ","), c.dchunk, c.cchunk, c.loc)
	return c
}

func (h *H) realDictRuns(n int) {
	scratch, err := os.MkdirTemp("/var/tmp", "wuffs-verif-c13-")
	if err != nil {
		scratch = ""
	} else {
		defer os.RemoveAll(scratch)
	}
	var cases []*realCase
	// systematic: every resource length alone, payload cut from its tail, for the two codecs
	// that use dictionaries (and once for lz4, whose WrapResource returns nil)
	for _, codec := range []int{0, 2} {
		for _, n := range dictResLens {
			cases = append(cases, h.dictCase(codec, []int{n}, []int{0, 0, 7}, 4096))
		}
	}
	cases = append(cases, h.dictCase(1, []int{40000}, []int{0}, 0))
	// several resources: some win for some chunks and lose for others
	allKinds := []int{0, 0, 0, 1, 2, 3, 4, 5, 5, 6, 7}
	for i := 0; i < n; i++ {
		codec := []int{0, 0, 0, 0, 0, 2, 2, 1}[h.rng.Intn(8)]
		var lens []int
		for k := h.rng.Range(1, 4); k > 0; k-- {
			l := dictResLens[h.rng.Intn(len(dictResLens))]
			if h.rng.Chance(1, 4) {
				l = []int{300, 5000, 32768 - 9, 32768 + 9, 33000, 65536, 70000}[h.rng.Intn(7)]
			}
			lens = append(lens, l)
		}
		c := h.dictCase(codec, lens, allKinds, 0)
		if h.rng.Chance(1, 8) {
			c.failAt = h.rng.Range(1, 40)
			if c.tempKind >= 3 {
				c.tempKind = h.rng.Range(1, 2)
			}
		}
		cases = append(cases, c)
	}
	for _, c := range cases {
		if scratch == "" && c.tempKind == 4 {
			c.tempKind = 3
		}
	}
	h.runRealCases(cases, scratch)
	// how often the property's interesting corner was actually reached
	wonLong := map[string]int{}
	for _, c := range cases {
		if !c.closeOK || c.won == 0 {
			continue
		}
		for _, r := range c.res {
			// a stored dictionary of exactly 32768 bytes from a longer resource: refine cut it
			if len(r) > 32768 && c.maxWonDict >= 32768 {
				wonLong[realCodecs[c.codec].name]++
				break
			}
		}
	}
	h.r.Extra("dict_cases", len(cases))
	h.r.Extra("dict_cases_where_a_resource_longer_than_32KiB_won_zlib", wonLong["zlib"])
	h.r.Extra("dict_cases_where_a_resource_longer_than_32KiB_won_zstd", wonLong["zstd"])
	if wonLong["zlib"] == 0 {
		h.r.Note("generator weakness: no raczlib chunk was compressed against a resource longer than 32 KiB in this run")
	}
}

// ---------------------------------------------------------------- racdict, function by function

// genBytes is the byte generator shared with the Lean driver (`genBytes` in Driver/C13.lean).
func genBytes(seed uint64, n int) []byte {
	x := seed
	out := make([]byte, n)
	for i := range out {
		x = x*6364136223846793005 + 1442695040888963407
		out[i] = byte(x >> 56)
	}
	return out
}

func hashBytes(b []byte) uint64 {
	h := uint64(14695981039346656037)
	for _, c := range b {
		h = h*16777619 + uint64(c)
	}
	return h
}

func dictErrWord(err error) string {
	if err == errHCut1 {
		return "codec-error"
	}
	if w := raczlib.VerifDictErrWord(err); w != "" {
		return w
	}
	return "other:" + strings.ReplaceAll(err.Error(), " ", "_")
}

func wrapWith(codec string, raw []byte) ([]byte, error) {
	if codec == "z" {
		return (&raczlib.CodecWriter{}).WrapResource(raw)
	}
	return (&raczstd.CodecWriter{}).WrapResource(raw)
}

func refineWith(codec string, raw []byte) []byte {
	if codec == "z" {
		return raczlib.VerifRefine(raw)
	}
	return raczstd.VerifRefine(raw)
}

// loadSec runs a fresh racdict.Loader on a file that holds sec at a random offset.
func (h *H) loadSec(sec []byte, ter bool, ttag uint8) ([]byte, error) {
	pre := h.rng.Bytes(h.rng.Intn(7))
	file := append(append(append([]byte(nil), pre...), sec...), h.rng.Bytes(h.rng.Intn(7))...)
	chunk := rac.Chunk{TTag: ttag}
	chunk.CSecondary = rac.Range{int64(len(pre)), int64(len(pre) + len(sec))}
	if ter {
		chunk.CTertiary = rac.Range{0, 1}
	}
	d, err := raczlib.VerifLoaderLoad(raczlib.VerifNewLoader(), bytes.NewReader(file), chunk)
	return append([]byte(nil), d...), err
}

// dictWrapOne: WrapResource on raw (model: Dict.wrapResource with the codec's refine), and the
// implementation-side agreement of the two ends: what the Loader extracts from the wrapped bytes
// (followed by unrelated bytes) is what refine hands to the compressor.
func (h *H) dictWrapOne(codec string, line string, raw []byte, hashed bool) {
	wrapped, err := wrapWith(codec, raw)
	if err != nil {
		h.r.Op(line, "err "+dictErrWord(err))
		return
	}
	if hashed {
		h.r.Op(line, fmt.Sprintf("ok %d %d", len(wrapped), hashBytes(wrapped)))
	} else {
		h.r.Op(line, "ok "+hlib.Hex(wrapped))
	}
	sec := append(append([]byte(nil), wrapped...), h.rng.Bytes(h.rng.Intn(5))...)
	got, lerr := h.loadSec(sec, false, 0xFF)
	if lerr != nil || !bytes.Equal(got, refineWith(codec, raw)) {
		h.r.Fail("dict:load-wrap-mismatch:"+codec, fmt.Sprintf("racdict.Loader.Load(WrapResource(raw)) is not refine(raw) (err=%v, %d vs %d bytes)", lerr, len(got), len(refineWith(codec, raw))), line)
	}
	h.r.Count("dictwrap:" + codec)
}

func fakeCompress(base int, buf *[]byte) func(p, q, dict []byte) ([]byte, error) {
	return func(p, q, dict []byte) ([]byte, error) {
		n, m := 0, byte(0)
		switch len(dict) {
		case 0:
			n, m = base, 0xAA
		case 1:
			n, m = int(dict[0]), dict[0]
		default:
			n, m = int(dict[0])+256*int(dict[1]), dict[len(dict)-1]
			if n == 0xFFFF {
				return nil, errHCut1
			}
		}
		// one shared buffer: every call clobbers what the previous call returned
		b := (*buf)[:0]
		for i := 0; i < n; i++ {
			b = append(b, m)
		}
		*buf = b
		return b, nil
	}
}

func (h *H) dictOps(n int) {
	r := h.r
	// WrapResource / refine at the codecs' limits
	for _, codec := range []string{"z", "s"} {
		for _, l := range []int{0, 1, 2, 100, 32767, 32768, 32769, 40000, 65536, 100000} {
			seed := h.rng.Uint64()
			h.dictWrapOne(codec, fmt.Sprintf("dictwrap %s %d %d", codec, seed, l), genBytes(seed, l), true)
		}
		for i := 0; i < n/10; i++ {
			l := h.rng.Range(32768-3, 32768+3)
			if h.rng.Bool() {
				l = h.rng.Intn(70000)
			}
			seed := h.rng.Uint64()
			h.dictWrapOne(codec, fmt.Sprintf("dictwrap %s %d %d", codec, seed, l), genBytes(seed, l), true)
		}
		for i := 0; i < n/4; i++ {
			raw := h.rng.Bytes(h.rng.Intn(20))
			h.dictWrapOne(codec, "dictwraph "+codec+" "+hlib.Hex(raw), raw, false)
		}
	}
	// Loader.Load on valid and damaged wrappings
	for i := 0; i < n; i++ {
		raw := h.rng.Bytes(h.rng.Intn(12))
		if h.rng.Chance(1, 10) {
			raw = h.rng.Bytes(h.rng.Range(250, 260))
		}
		sec, _ := wrapWith("z", raw)
		sec = append([]byte(nil), sec...)
		ttag, ter := uint8(0xFF), false
		kind := h.rng.Intn(10)
		switch kind {
		case 0: // as written, possibly followed by unrelated bytes (CLength granularity)
			sec = append(sec, h.rng.Bytes(h.rng.Intn(6))...)
		case 1: // one bit flipped: length, payload or checksum
			sec[h.rng.Intn(len(sec))] ^= byte(1 << uint(h.rng.Intn(8)))
		case 2: // truncated
			sec = sec[:len(sec)-h.rng.Range(1, len(sec))]
		case 3: // reserved high bits of the length
			sec[3] |= []byte{0x40, 0x80, 0xC0}[h.rng.Intn(3)]
		case 4: // length field off by a little
			sec[0] += byte(h.rng.Range(1, 9))
		case 5:
			ttag = []uint8{0x00, 0x01, 0xFE, 0xC0}[h.rng.Intn(4)]
		case 6:
			ter = true
		case 7: // shorter than the 8 bytes of an empty wrapping, or empty
			sec = h.rng.Bytes(h.rng.Intn(8))
		case 8: // a shorter dictionary with a matching checksum inside a longer range
			if len(raw) > 0 {
				inner, _ := wrapWith("z", raw[:len(raw)-1])
				sec = append(append([]byte(nil), inner...), h.rng.Bytes(h.rng.Intn(4))...)
			}
		case 9: // random bytes
			sec = h.rng.Bytes(h.rng.Range(8, 20))
			sec[1], sec[2], sec[3] = 0, 0, 0
		}
		line := fmt.Sprintf("dictload %d %d %s", ttag, b2i(ter), hlib.Hex(sec))
		got, err := h.loadSec(sec, ter, ttag)
		if err != nil {
			r.Op(line, "err "+dictErrWord(err))
		} else {
			r.Op(line, "ok "+hlib.Hex(got))
		}
		r.Count(fmt.Sprintf("dictload:kind=%d:%v", kind, err == nil))
	}
	// Saver.Compress: which resource wins, against which (refined) bytes, and that the winner's
	// bytes survive the later compress calls
	for i := 0; i < 4*n; i++ {
		k := h.rng.Intn(7)
		base := []int{0, 100, 255, 256, 257, 300, 640, 1000, 5000}[h.rng.Intn(9)]
		threshold := (base / 64) * 63
		var res [][]byte
		best := base
		for j := h.rng.Intn(5); j > 0; j-- {
			l := []int{threshold - 1, threshold, threshold + 1, base - 1, base, best - 1, best, best + 1, 3, h.rng.Intn(base + 2)}[h.rng.Intn(10)]
			if l < 0 {
				l = 0
			}
			if l > 0xFFFE {
				l = 0xFFFE
			}
			if h.rng.Chance(1, 40) {
				l = 0xFFFF // the codec's compress fails
			}
			if l < threshold && l < best {
				best = l
			}
			tail := []byte{byte(l), byte(l >> 8)}
			for len(tail) < k {
				tail = append(tail, byte(h.rng.Range(1, 255)))
			}
			if k >= 2 {
				tail[k-1] = byte(0x10 + j) // the marker: distinct per resource
			}
			// bytes before the part that refine keeps: a compressor given the raw resource sees them
			raw := append(h.rng.Bytes(h.rng.Intn(4)), tail...)
			if h.rng.Chance(1, 12) {
				raw = raw[:h.rng.Intn(len(raw)+1)]
			}
			res = append(res, raw)
		}
		var parts []string
		for _, x := range res {
			parts = append(parts, hlib.Hex(x))
		}
		rs := "none"
		if len(parts) > 0 {
			rs = strings.Join(parts, ",")
		}
		line := fmt.Sprintf("dictsel %d %d %s", k, base, rs)
		var buf []byte
		refine := func(b []byte) []byte {
			if len(b) > k {
				return b[len(b)-k:]
			}
			return b
		}
		_, out, sec, ter, err := raczlib.VerifSaverCompress(raczlib.VerifNewSaver(), nil, nil, res, fakeCompress(base, &buf), refine)
		if err != nil {
			r.Op(line, "err "+dictErrWord(err))
			r.Count("dictsel:error")
			continue
		}
		first := []byte(nil)
		if len(out) > 0 {
			first = out[:1]
		}
		r.Op(line, fmt.Sprintf("ok %d %d %s", sec, len(out), hlib.Hex(first)))
		for _, b := range out {
			if b != out[0] {
				r.Fail("dict:winner-clobbered", "racdict.Saver.Compress returns bytes that a later compress call overwrote", line)
				break
			}
		}
		if ter != rac.NoResourceUsed {
			r.Fail("dict:tertiary", "racdict.Saver.Compress names a tertiary resource", line)
		}
		if sec >= 0 {
			r.Count("dictsel:a-resource-wins")
			if sec < len(res)-1 {
				r.Nontrivial(line) // a winner that later candidates could have clobbered
			}
		} else {
			r.Count("dictsel:baseline-wins")
		}
	}
}
