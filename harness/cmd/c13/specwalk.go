package main

// An independent walker of RAC files written from /repo/doc/spec/rac-spec.md
// (NOT from lib/rac/chunk_reader.go, and using nothing from package rac). It is
// the Go-side "structural validation" oracle of C13; the Lean `Spec` reader
// (Model/Rac/Spec.lean) is its twin and must print the same verdict line.

import (
	"fmt"
	"hash/crc32"
	"strings"
)

type sBranch struct {
	cOffset, cBias, dBias uint64
	arity                 int
	dptr, cptr            []uint64 // arity+1
	ttag, stag, clen      []int    // arity
	codecByte, version    int
	codec                 uint64
}

func (b *sBranch) mixBit() bool      { return b.codecByte&0x40 != 0 }
func (b *sBranch) dPtrMax() uint64   { return b.dptr[b.arity] }
func (b *sBranch) cOffMax() uint64   { return b.cBias + b.cptr[b.arity] }
func (b *sBranch) cOff(i int) uint64 { return b.cBias + b.cptr[i] }
func (b *sBranch) dOff(i int) uint64 { return b.dBias + b.dptr[i] }
func u64le(b []byte) uint64 {
	v := uint64(0)
	for i := 7; i >= 0; i-- {
		v = v<<8 | uint64(b[i])
	}
	return v
}

type sBad string

func sParseNode(node []byte, cOffset, cBias, dBias uint64) (*sBranch, sBad) {
	if len(node) < 32 {
		return nil, "too-short"
	}
	if node[0] != 0x72 || node[1] != 0xC3 || node[2] != 0x63 {
		return nil, "magic"
	}
	arity := int(node[3])
	if arity == 0 {
		return nil, "arity-zero"
	}
	size := arity*16 + 16
	if len(node) != size {
		return nil, "size"
	}
	if int(node[size-1]) != arity {
		return nil, "arity-mismatch"
	}
	ck := crc32.ChecksumIEEE(node[6:])
	ck16 := (ck & 0xFFFF) ^ (ck >> 16)
	if uint32(node[4])|uint32(node[5])<<8 != ck16 {
		return nil, "checksum"
	}
	b := &sBranch{cOffset: cOffset, cBias: cBias, dBias: dBias, arity: arity}
	dseg := func(i int) uint64 { return u64le(node[8*i:]) }
	cseg := func(i int) uint64 { return u64le(node[8*(arity+1)+8*i:]) }
	const m48 = (1 << 48) - 1
	for i := 0; i <= arity; i++ {
		if i == 0 {
			b.dptr = append(b.dptr, 0)
		} else {
			b.dptr = append(b.dptr, dseg(i)&m48)
		}
		b.cptr = append(b.cptr, cseg(i)&m48)
		if i < arity {
			b.ttag = append(b.ttag, int(dseg(i)>>56))
			b.clen = append(b.clen, int(cseg(i)>>48)&0xFF)
			b.stag = append(b.stag, int(cseg(i)>>56))
		}
	}
	for i := 0; i <= arity; i++ {
		if (dseg(i)>>48)&0xFF != 0 {
			return nil, "reserved-byte"
		}
	}
	b.codecByte = int(dseg(arity) >> 56)
	b.version = int(cseg(arity)>>48) & 0xFF
	if b.version != 1 {
		return nil, "version"
	}
	allFD := true
	for _, t := range b.ttag {
		if 0xC0 <= t && t < 0xFD {
			return nil, "reserved-ttag"
		}
	}
	for _, t := range b.ttag {
		if t != 0xFD {
			allFD = false
		}
	}
	if allFD {
		return nil, "no-child"
	}
	if b.codecByte&0x80 == 0 {
		b.codec = uint64(b.codecByte&0x3F) << 56
	} else {
		c64 := b.codecByte & 0x3F
		found := false
		for k := 0; k < 4 && !found; k++ {
			i := c64 + 64*k
			if i < arity && b.ttag[i] == 0xFD {
				b.codec = 1<<63 | cseg(i)&((1<<56)-1)
				found = true
			}
		}
		if !found {
			return nil, "long-codec-missing"
		}
	}
	for a := 0; a < arity; a++ {
		if b.dptr[a] > b.dptr[a+1] {
			return nil, "dptr-order"
		}
	}
	for a := 0; a < arity; a++ {
		if b.ttag[a] == 0xFD && b.dptr[a] != b.dptr[a+1] {
			return nil, "codec-element-drange"
		}
	}
	for a := 0; a < arity; a++ {
		if b.ttag[a] != 0xFD && b.cptr[a] > b.cptr[arity] {
			return nil, "coff-exceeds-max"
		}
	}
	return b, ""
}

func sLoadBranch(file []byte, cOffset, cBias, dBias uint64) (*sBranch, sBad) {
	if cOffset+4 > uint64(len(file)) {
		return nil, "too-short"
	}
	size := uint64(file[cOffset+3])*16 + 16
	if cOffset+size > uint64(len(file)) {
		return nil, "size"
	}
	return sParseNode(file[cOffset:cOffset+size], cOffset, cBias, dBias)
}

func sFindRoot(file []byte) (*sBranch, sBad) {
	n := uint64(len(file))
	if n < 32 {
		return nil, "too-short"
	}
	if file[0] != 0x72 || file[1] != 0xC3 || file[2] != 0x63 {
		return nil, "magic"
	}
	if file[3] != 0 {
		if b, bad := sLoadBranch(file, 0, 0, 0); bad == "" && b.cptr[b.arity] == n {
			return b, ""
		}
	}
	arity := uint64(file[n-1])
	size := arity*16 + 16
	if arity == 0 {
		return nil, "arity-zero"
	}
	if n < size {
		return nil, "size"
	}
	b, bad := sLoadBranch(file, n-size, 0, 0)
	if bad != "" {
		return nil, bad
	}
	if b.cptr[b.arity] != n {
		return nil, "root-cptrmax"
	}
	return b, ""
}

type sChunk struct {
	d, p, s, t [2]uint64
	stag, ttag int
	codec      uint64
}

func sMakeCRange(b *sBranch, i int) ([2]uint64, bool) {
	if i >= b.arity {
		return [2]uint64{b.cOffMax(), b.cOffMax()}, true
	}
	lo := b.cOff(i)
	hi := b.cOffMax()
	if b.clen[i] != 0 {
		if x := lo + uint64(b.clen[i])*1024; x < hi {
			hi = x
		}
	}
	return [2]uint64{lo, hi}, lo <= hi
}

func sLoadChild(file []byte, parent *sBranch, a int) (*sBranch, sBad) {
	subCOffset := parent.cOff(a)
	st := parent.stag[a]
	subCBias := parent.cBias
	if st < parent.arity {
		subCBias = parent.cOff(st)
	}
	subDBias, subDOffMax := parent.dOff(a), parent.dOff(a+1)
	if parent.cOffMax() < subCOffset+4 {
		return nil, "c-remaining"
	}
	cRemaining := parent.cOffMax() - subCOffset
	childArity := uint64(0)
	if subCOffset+3 < uint64(len(file)) {
		childArity = uint64(file[subCOffset+3])
	}
	if cRemaining < childArity*16+16 {
		return nil, "c-remaining"
	}
	child, bad := sLoadBranch(file, subCOffset, subCBias, subDBias)
	if bad != "" {
		return nil, bad
	}
	if !parent.mixBit() && child.codec != parent.codec {
		return nil, "child-codec"
	}
	if child.version > parent.version {
		return nil, "child-version"
	}
	if child.cOffMax() > parent.cOffMax() {
		return nil, "child-coffmax"
	}
	if child.dBias+child.dPtrMax() != subDOffMax {
		return nil, "child-doffmax"
	}
	if !(child.cOffset < parent.cOffset || child.dPtrMax() < parent.dPtrMax()) {
		return nil, "anti-loop"
	}
	return child, ""
}

func sWalk(file []byte, b *sBranch, depth int, out *[]sChunk) sBad {
	if depth > 64 {
		return "fuel"
	}
	for a := 0; a < b.arity; a++ {
		dlo, dhi := b.dOff(a), b.dOff(a+1)
		t := b.ttag[a]
		if dlo == dhi || t == 0xFD {
			continue
		}
		if t == 0xFE {
			child, bad := sLoadChild(file, b, a)
			if bad != "" {
				return bad
			}
			if bad := sWalk(file, child, depth+1, out); bad != "" {
				return bad
			}
			continue
		}
		p, ok1 := sMakeCRange(b, a)
		s, ok2 := sMakeCRange(b, b.stag[a])
		tr, ok3 := sMakeCRange(b, t)
		if !ok1 || !ok2 || !ok3 {
			return "crange"
		}
		*out = append(*out, sChunk{[2]uint64{dlo, dhi}, p, s, tr, b.stag[a], t, b.codec})
	}
	return ""
}

// sChunks validates the file and lists its chunks.
func sChunks(file []byte) (dFileSize uint64, chunks []sChunk, bad sBad) {
	root, bad := sFindRoot(file)
	if bad != "" {
		return 0, nil, bad
	}
	if bad := sWalk(file, root, 0, &chunks); bad != "" {
		return 0, nil, bad
	}
	pos := uint64(0)
	for _, c := range chunks {
		if c.d[0] != pos || c.d[0] >= c.d[1] {
			return 0, nil, "tiling"
		}
		pos = c.d[1]
	}
	if pos != root.dPtrMax() {
		return 0, nil, "tiling"
	}
	return root.dPtrMax(), chunks, ""
}

func sVerdict(file []byte) string {
	d, cs, bad := sChunks(file)
	if bad != "" {
		return "bad " + string(bad)
	}
	h := uint64(7)
	for _, c := range cs {
		for _, x := range []uint64{c.d[0], c.d[1], c.p[0], c.p[1], c.s[0], c.s[1], c.t[0], c.t[1], uint64(c.stag), uint64(c.ttag), c.codec} {
			h = h*1000003 + x
		}
	}
	var sb strings.Builder
	fmt.Fprintf(&sb, "ok %d %d %d ", d, len(cs), h)
	if len(cs) == 0 {
		sb.WriteString("-")
	}
	for i, c := range cs {
		if i >= 100 {
			break
		}
		if i > 0 {
			sb.WriteByte(';')
		}
		fmt.Fprintf(&sb, "%d-%d:%d-%d:%d-%d:%d-%d:%d:%d:%d", c.d[0], c.d[1], c.p[0], c.p[1], c.s[0], c.s[1], c.t[0], c.t[1], c.stag, c.ttag, c.codec)
	}
	return sb.String()
}
