package main

import (
	"bytes"
	"fmt"
	"os/exec"
	"time"
)

// runCmdEnv runs a command with EXACTLY the given environment (hlib.RunCmd
// appends to the parent's), returning stdout, stderr.
func runCmdEnv(timeout time.Duration, dir string, env []string, name string, args ...string) ([]byte, []byte, error) {
	cmd := exec.Command(name, args...)
	cmd.Dir = dir
	cmd.Env = env
	var o, e bytes.Buffer
	cmd.Stdout, cmd.Stderr = &o, &e
	if err := cmd.Start(); err != nil {
		return nil, nil, err
	}
	done := make(chan error, 1)
	go func() { done <- cmd.Wait() }()
	var err error
	select {
	case err = <-done:
	case <-time.After(timeout):
		cmd.Process.Kill()
		<-done
		err = fmt.Errorf("timeout after %v", timeout)
	}
	return o.Bytes(), e.Bytes(), err
}
