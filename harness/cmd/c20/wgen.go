package main

// Generator of small but feature-rich Wuffs packages for the determinism runs.
//
// The compiler keeps many Go maps (statuses, consts, structs, funcs, uses,
// resumable variables, derived I/O variables, loop jump targets, liveness, private
// data fields, interface method tables).  An order dependence shows only in a
// program that has at least two entries in the map concerned AND the shape that
// reaches the emitting code.  The std/ packages cover the common shapes; the
// generated ones aim at the others: helpers with one to four I/O arguments that
// return a number / nothing / a bool / a status through several explicit
// `return`s, coroutines with many locals live across suspension points, nested
// labelled loops with break/continue to both levels, `choose`, `iterate`,
// several `use`s, private data (`+(…)`) fields, interface implementations,
// struct DAGs declared in anti-topological order, everything spread at random
// over up to three source files.

import (
	"fmt"
	"os"
	"path/filepath"
	"strings"

	"wvh/hlib"
)

type wgen struct {
	rd    *hlib.Rand
	files [3]strings.Builder
	nfile int
	uses  map[string]bool
	names map[string]bool
	feats []string // features present (for the histogram)
}

func (g *wgen) feat(s string) { g.feats = append(g.feats, s) }

// out picks the file a top-level declaration goes to.
func (g *wgen) out() *strings.Builder { return &g.files[g.rd.Intn(g.nfile)] }

func (g *wgen) ident() string {
	for {
		w := idWords[g.rd.Intn(len(idWords))] + fmt.Sprintf("%d", g.rd.Intn(90))
		if !g.names[w] {
			g.names[w] = true
			return w
		}
	}
}

func vis(rd *hlib.Rand) string {
	if rd.Bool() {
		return "pub"
	}
	return "pri"
}

type ioArg struct{ name, typ string }

var ioPool = []ioArg{{"dst", "base.io_writer"}, {"src", "base.io_reader"}, {"dtwo", "base.io_writer"}, {"stwo", "base.io_reader"}}

func (a ioArg) isReader() bool { return a.typ == "base.io_reader" }

func argList(args []ioArg, extra string) string {
	var q []string
	for _, a := range args {
		q = append(q, a.name+": "+a.typ)
	}
	if extra != "" {
		q = append(q, extra)
	}
	return strings.Join(q, ", ")
}

func callArgs(args []ioArg, have map[string]string, extra string) string {
	var q []string
	for _, a := range args {
		q = append(q, a.name+": args."+have[a.typ])
	}
	if extra != "" {
		q = append(q, extra)
	}
	return strings.Join(q, ", ")
}

// pickIO returns a random non-empty ordered subset of the I/O argument pool.
func (g *wgen) pickIO(min, max int) []ioArg {
	perm := append([]ioArg{}, ioPool...)
	shuffle(g.rd, len(perm), func(i, j int) { perm[i], perm[j] = perm[j], perm[i] })
	return perm[:g.rd.Range(min, max)]
}

type helper struct {
	name string
	args []ioArg
	ret  string // "base.u32" | "" | "base.bool" | "base.u8" | "base.status"
}

// multiReturnHelper: a non-coroutine method with I/O arguments (each one used, so
// that each needs a derived iop_ variable) and several explicit returns.
func (g *wgen) multiReturnHelper(w *strings.Builder, recv string) helper {
	rd := g.rd
	h := helper{name: "hlp" + g.ident(), args: g.pickIO(1, 4)}
	h.ret = []string{"base.u32", "base.u32", "", "base.bool", "base.u8", "base.status"}[rd.Intn(6)]
	g.feat(fmt.Sprintf("helper:io=%d,ret=%s", len(h.args), strings.TrimPrefix(h.ret, "base.")))
	k := 0
	retv := func() string {
		k++
		switch h.ret {
		case "":
			return "return nothing"
		case "base.bool":
			return []string{"return true", "return false"}[k&1]
		case "base.status":
			return []string{"return ok", "return base.\"$short read\"", "return base.\"#bad argument\""}[k%3]
		}
		return fmt.Sprintf("return %d", k)
	}
	rt := ""
	if h.ret != "" {
		rt = " " + h.ret
	}
	fmt.Fprintf(w, "%s func %s.%s!(%s)%s {\n    var c : base.u8\n    var d : base.u8\n\n", "pri", recv, h.name, argList(h.args, "x: base.u32"), rt)
	for _, a := range h.args {
		fmt.Fprintf(w, "    if args.%s.length() < %d {\n        %s\n    }\n", a.name, rd.Range(1, 4), retv())
	}
	fmt.Fprintf(w, "    c = ((args.x & 0xFF) as base.u8)\n")
	steps := rd.Range(1, 3)
	for s := 0; s < steps; s++ {
		order := append([]ioArg{}, h.args...)
		shuffle(rd, len(order), func(i, j int) { order[i], order[j] = order[j], order[i] })
		for _, a := range order {
			if s > 0 {
				// the facts from the guards cover one byte per argument; later steps re-check
				fmt.Fprintf(w, "    if args.%s.length() < 1 {\n        %s\n    }\n", a.name, retv())
			}
			if a.isReader() {
				fmt.Fprintf(w, "    d = args.%s.peek_u8()\n    args.%s.skip_u32_fast!(actual: 1, worst_case: 1)\n    c = c ^ d\n", a.name, a.name)
			} else {
				fmt.Fprintf(w, "    args.%s.write_u8_fast!(a: c)\n", a.name)
			}
		}
		if rd.Chance(2, 3) {
			fmt.Fprintf(w, "    if c == %d {\n        %s\n    }\n", rd.Intn(200), retv())
		}
		if rd.Chance(1, 3) {
			fmt.Fprintf(w, "    if (c & %d) <> 0 {\n        this.f_a ~mod+= %d\n        %s\n    } else if d > %d {\n        %s\n    }\n", 1<<uint(rd.Intn(8)), rd.Intn(99), retv(), rd.Intn(250), retv())
		}
	}
	fmt.Fprintf(w, "    this.f_a ~mod+= (c as base.u32)\n    %s\n}\n\n", retv())
	return h
}

func (h helper) call(have map[string]string, x string) string {
	return fmt.Sprintf("this.%s!(%s)", h.name, callArgs(h.args, have, "x: "+x))
}

var readOps = []struct{ m, t string }{
	{"read_u8", "base.u8"}, {"read_u16le", "base.u16"}, {"read_u16be", "base.u16"}, {"read_u24le_as_u32", "base.u32"},
	{"read_u32be", "base.u32"}, {"read_u32le", "base.u32"}, {"read_u40be_as_u64", "base.u64"}, {"read_u64le", "base.u64"},
	{"read_u8_as_u32", "base.u32"}, {"read_u16be_as_u64", "base.u64"},
}

// coroutine writes a `?` method with many resumable locals, nested labelled
// loops, calls to helpers and to sub-coroutines, yields and status returns.
func (g *wgen) coroutine(w *strings.Builder, recv, name, visib string, args []ioArg, helpers []helper, subs []string, statuses []string, depth int) {
	rd := g.rd
	have := map[string]string{}
	for _, a := range args {
		if _, ok := have[a.typ]; !ok || rd.Bool() {
			have[a.typ] = a.name
		}
	}
	var readers, writers []string
	for _, a := range args {
		if a.isReader() {
			readers = append(readers, a.name)
		} else {
			writers = append(writers, a.name)
		}
	}
	type lv struct{ n, t string }
	var vars []lv
	nv := rd.Range(2, 7)
	for i := 0; i < nv; i++ {
		vars = append(vars, lv{fmt.Sprintf("v%d%s", i, idWords[rd.Intn(len(idWords))][:2]), []string{"base.u8", "base.u16", "base.u32", "base.u64"}[rd.Intn(4)]})
	}
	vars = append(vars, lv{"c", "base.u8"}, lv{"n", "base.u32"}, lv{"i", "base.u32"}, lv{"status", "base.status"}, lv{"b", "base.bool"}, lv{"w", "base.u16"}, lv{"q", "base.u64"})
	shuffle(rd, len(vars), func(i, j int) { vars[i], vars[j] = vars[j], vars[i] })
	fmt.Fprintf(w, "%s func %s.%s?(%s) {\n", visib, recv, name, argList(args, ""))
	for _, v := range vars {
		fmt.Fprintf(w, "    var %s : %s\n", v.n, v.t)
	}
	w.WriteString("\n")
	ind := 1
	line := func(f string, a ...interface{}) {
		w.WriteString(strings.Repeat("    ", ind))
		fmt.Fprintf(w, f, a...)
		w.WriteString("\n")
	}
	varOf := func(t string) string {
		var c []string
		for _, v := range vars {
			if v.t == t {
				c = append(c, v.n)
			}
		}
		return c[rd.Intn(len(c))]
	}
	as32 := func() string {
		v := vars[rd.Intn(len(vars))]
		switch v.t {
		case "base.u8", "base.u16":
			return "(" + v.n + " as base.u32)"
		case "base.u32":
			return v.n
		case "base.u64":
			return "((" + v.n + " & 0xFFFF_FFFF) as base.u32)"
		}
		return "n"
	}
	nlabel := 0
	var stmt func(budget int, loops []string)
	stmt = func(budget int, loops []string) {
		for budget > 0 {
			budget--
			switch k := rd.Intn(12); {
			case k < 3 && len(readers) > 0:
				op := readOps[rd.Intn(len(readOps))]
				line("%s = args.%s.%s?()", varOf(op.t), readers[rd.Intn(len(readers))], op.m)
			case k < 4 && len(writers) > 0:
				line("args.%s.write_u8?(a: %s)", writers[rd.Intn(len(writers))], varOf("base.u8"))
			case k < 5 && len(readers) > 0:
				line("args.%s.skip_u32?(n: %d)", readers[rd.Intn(len(readers))], rd.Range(1, 9))
			case k < 6:
				line("n = %s ~mod+ %s", as32(), as32())
			case k < 7 && len(helpers) > 0:
				h := helpers[rd.Intn(len(helpers))]
				ok := true
				for _, a := range h.args {
					if _, has := have[a.typ]; !has {
						ok = false
					}
				}
				if !ok {
					continue
				}
				switch h.ret {
				case "base.u32":
					line("n = %s", h.call(have, as32()))
				case "base.u8":
					line("c = %s", h.call(have, as32()))
				case "base.bool":
					line("b = %s", h.call(have, as32()))
				case "base.status":
					line("status = %s", h.call(have, as32()))
					line("if status.is_error() {")
					line("    return status")
					line("} else if status.is_suspension() {")
					line("    yield? status")
					line("}")
				default:
					line("%s", h.call(have, as32()))
				}
			case k < 8 && len(subs) > 0 && len(readers) > 0:
				if rd.Bool() {
					line("this.%s?(src: args.%s)", subs[rd.Intn(len(subs))], readers[rd.Intn(len(readers))])
				} else {
					line("status =? this.%s?(src: args.%s)", subs[rd.Intn(len(subs))], readers[rd.Intn(len(readers))])
					line("if status.is_error() {")
					line("    return status")
					line("}")
				}
			case k < 9:
				line("if (n ~mod+ this.f_a) == %d {", rd.Intn(1000))
				if len(statuses) > 0 && rd.Bool() {
					line("    return %s", statuses[rd.Intn(len(statuses))])
				} else {
					line("    yield? base.\"$short %s\"", []string{"read", "write"}[rd.Intn(2)])
				}
				line("}")
			case k < 11 && len(loops) < 3 && budget > 1:
				nlabel++
				lab := fmt.Sprintf("l%d", nlabel)
				if rd.Bool() {
					line("i = 0")
					line("while.%s i < %d {", lab, rd.Range(2, 40))
				} else {
					line("while.%s true {", lab)
				}
				ind++
				inner := append(append([]string{}, loops...), lab)
				sub := rd.Range(1, budget)
				budget -= sub
				stmt(sub, inner)
				// jumps to every enclosing level
				line("if ((c as base.u32) ~mod+ this.f_a) == %d {", rd.Intn(250))
				line("    break.%s", inner[rd.Intn(len(inner))])
				line("} else if ((c as base.u32) ~mod+ this.f_a) == %d {", 250+rd.Intn(6))
				line("    continue.%s", inner[rd.Intn(len(inner))])
				line("}")
				line("i ~mod+= 1")
				if len(readers) > 0 {
					line("c = args.%s.read_u8?()", readers[rd.Intn(len(readers))])
				} else {
					line("break.%s", lab)
				}
				ind--
				line("}.%s", lab)
			default:
				line("this.f_a = this.f_a ~mod+ %s", as32())
			}
		}
	}
	stmt(rd.Range(4, 4+6*depth), nil)
	line("this.f_a ~mod+= n ~mod+ (c as base.u32)")
	w.WriteString("}\n\n")
}

func (g *wgen) hasherStruct(statuses []string) {
	rd := g.rd
	s := "hs" + g.ident()
	w := g.out()
	g.feat("struct:hasher")
	fields := []string{"f_a : base.u32"}
	if g.uses["std/crc32"] {
		fields = append(fields, "h0 : crc32.ieee_hasher")
	}
	if g.uses["std/adler32"] {
		fields = append(fields, "h1 : adler32.hasher")
	}
	shuffle(rd, len(fields), func(i, j int) { fields[i], fields[j] = fields[j], fields[i] })
	fmt.Fprintf(w, "pub struct %s? implements base.hasher_u32(\n", s)
	for _, f := range fields {
		fmt.Fprintf(w, "        %s,\n", f)
	}
	np := rd.Range(0, 3)
	if np > 0 {
		g.feat(fmt.Sprintf("struct:private-data=%d", np))
		w.WriteString(")+(\n")
		for i := 0; i < np; i++ {
			fmt.Fprintf(w, "        big%d : array[%d] base.%s,\n", i, rd.Range(256, 400), []string{"u8", "u16", "u32"}[rd.Intn(3)])
		}
	}
	w.WriteString(")\n\n")
	tab := strings.ToUpper("t" + g.ident())
	fmt.Fprintf(g.out(), "pri const %s : roarray[4] base.u8 = [%d, %d, %d, %d]\n\n", tab, rd.Intn(256), rd.Intn(256), rd.Intn(256), rd.Intn(256))
	type m struct{ text string }
	var ms []string
	ms = append(ms, fmt.Sprintf("pub func %s.get_quirk(key: base.u32) base.u64 {\n    return 0\n}\n\n", s))
	ms = append(ms, fmt.Sprintf("pub func %s.set_quirk!(key: base.u32, value: base.u64) base.status {\n    return base.\"#unsupported option\"\n}\n\n", s))
	upd := fmt.Sprintf("pub func %s.update!(x: roslice base.u8) {\n", s)
	choosy := rd.Chance(2, 3)
	if choosy {
		g.feat("func:choosy")
		alts := []string{"up_alt0"}
		if rd.Bool() {
			alts = append(alts, "up_alt1")
		}
		upd += fmt.Sprintf("    if this.f_a == 0 {\n        choose up = [%s]\n    }\n", strings.Join(alts, ", "))
		for _, a := range alts {
			ms = append(ms, fmt.Sprintf("pri func %s.%s!(x: roslice base.u8) {\n    this.f_a ~mod+= ((args.x.length() & 0xFF) as base.u32) ~mod+ %d\n}\n\n", s, a, rd.Intn(1000)))
		}
	}
	upd += "    this.up!(x: args.x)\n"
	if g.uses["std/crc32"] {
		upd += "    this.f_a ~mod+= this.h0.update_u32!(x: args.x)\n"
	}
	if g.uses["std/adler32"] {
		upd += "    this.f_a ~mod+= this.h1.update_u32!(x: args.x)\n"
	}
	upd += "}\n\n"
	ms = append(ms, upd)
	ms = append(ms, fmt.Sprintf("pub func %s.update_u32!(x: roslice base.u8) base.u32 {\n    this.update!(x: args.x)\n    return this.f_a\n}\n\n", s))
	ms = append(ms, fmt.Sprintf("pub func %s.checksum_u32() base.u32 {\n    return this.f_a\n}\n\n", s))
	up := fmt.Sprintf("pri func %s.up!(x: roslice base.u8)", s)
	if choosy {
		up += ",\n        choosy,\n"
	} else {
		up += " "
	}
	up += "{\n    var p : roslice base.u8\n    var s : base.u32\n\n    s = this.f_a\n"
	g.feat("func:iterate")
	ln := []int{2, 4, 8}[rd.Intn(3)]
	up += fmt.Sprintf("    iterate (p = args.x)(length: %d, advance: %d, unroll: %d) {\n        s ~mod+= (p[0] as base.u32) | ((p[%d] as base.u32) << 8)\n    } else (length: 1, advance: 1, unroll: 1) {\n        s ~mod+= (%s[p[0] & 3] as base.u32)\n", ln, ln, []int{1, 2}[rd.Intn(2)], ln-1, tab)
	if np > 0 {
		up += "        this.big0[p[0]] = 1\n"
	}
	up += "    }\n    this.f_a = s\n}\n\n"
	ms = append(ms, up)
	shuffle(rd, len(ms), func(i, j int) { ms[i], ms[j] = ms[j], ms[i] })
	for _, t := range ms {
		g.out().WriteString(t)
	}
}

func (g *wgen) codecStruct(statuses []string) {
	rd := g.rd
	s := "cd" + g.ident()
	g.feat("struct:codec")
	w := g.out()
	fmt.Fprintf(w, "%s struct %s?(\n        f_a : base.u32,\n        f_b : array[%d] base.u8,\n", "pub", s, rd.Range(1, 9))
	if g.uses["std/crc32"] && rd.Bool() {
		w.WriteString("        h0 : crc32.ieee_hasher,\n")
	}
	if rd.Bool() {
		w.WriteString("        util : base.utility,\n")
	}
	np := rd.Range(0, 2)
	if np > 0 {
		g.feat(fmt.Sprintf("struct:private-data=%d", np))
		w.WriteString(")+(\n")
		for i := 0; i < np; i++ {
			fmt.Fprintf(w, "        big%d : array[%d] base.%s,\n", i, rd.Range(256, 400), []string{"u8", "u16", "u32"}[rd.Intn(3)])
		}
	}
	w.WriteString(")\n\n")
	var helpers []helper
	for i := rd.Range(1, 3); i > 0; i-- {
		helpers = append(helpers, g.multiReturnHelper(g.out(), s))
	}
	var subs []string
	for i := rd.Range(0, 2); i > 0; i-- {
		n := "sub" + g.ident()
		g.coroutine(g.out(), s, n, "pri", []ioArg{{"src", "base.io_reader"}}, helpers, subs, statuses, 1)
		subs = append(subs, n)
	}
	nco := rd.Range(1, 3)
	g.feat(fmt.Sprintf("func:public-coroutines=%d", nco))
	for i := 0; i < nco; i++ {
		args := g.pickIO(1, 4)
		hasReader := false
		for _, a := range args {
			hasReader = hasReader || a.isReader()
		}
		if !hasReader {
			args = append(args, ioArg{"src", "base.io_reader"})
		}
		g.coroutine(g.out(), s, "co"+g.ident(), "pub", args, helpers, subs, statuses, 3)
	}
}

// genRichPackage writes one package into dir and returns it.
func genRichPackage(rd *hlib.Rand, dir string, idx int) (*pkg, []string, error) {
	g := &wgen{rd: rd, nfile: rd.Range(1, 3), uses: map[string]bool{}, names: map[string]bool{}}
	name := fmt.Sprintf("vr%d%s", idx, idWords[rd.Intn(len(idWords))][:3])
	// uses come first in a file; the same package may be used from several files
	for _, u := range []string{"std/crc32", "std/adler32"} {
		if rd.Chance(2, 3) {
			g.uses[u] = true
		}
	}
	var useLines []string
	for _, u := range []string{"std/crc32", "std/adler32"} {
		if g.uses[u] {
			useLines = append(useLines, u)
		}
	}
	if rd.Bool() {
		for i, j := 0, len(useLines)-1; i < j; i, j = i+1, j-1 {
			useLines[i], useLines[j] = useLines[j], useLines[i]
		}
	}
	g.feat(fmt.Sprintf("uses=%d", len(useLines)))
	// a package is used once per package (the checker rejects a second `use` of it), from any file
	for _, u := range useLines {
		fmt.Fprintf(&g.files[rd.Intn(g.nfile)], "use \"%s\"\n", u)
	}
	for f := 0; f < g.nfile; f++ {
		g.files[f].WriteString("\n")
	}
	// statuses
	var statuses []string
	for i := rd.Range(2, 6); i > 0; i-- {
		pfx := []string{"#", "#", "$", "@"}[rd.Intn(4)]
		txt := pfx + strings.ReplaceAll(g.ident(), "_", " ") + " happened"
		fmt.Fprintf(g.out(), "%s status \"%s\"\n\n", vis(rd), txt)
		if pfx != "$" {
			statuses = append(statuses, "\""+txt+"\"")
		}
	}
	// scalar and array consts
	for i := rd.Range(1, 4); i > 0; i-- {
		fmt.Fprintf(g.out(), "%s const %s : base.u%d = %d\n\n", vis(rd), strings.ToUpper(g.ident()), []int{8, 16, 32, 64}[rd.Intn(4)], rd.Intn(250))
	}
	if rd.Bool() {
		fmt.Fprintf(g.out(), "%s const %s : roarray[2] roarray[3] base.u16 = [[1, 2, %d], [3, 4, %d]]\n\n", vis(rd), strings.ToUpper(g.ident()), rd.Intn(9), rd.Intn(9))
	}
	// a DAG of plain structs, declared dependants first
	nStruct := rd.Range(1, 5)
	var structs []string
	for i := 0; i < nStruct; i++ {
		structs = append(structs, "st"+g.ident())
	}
	for i, s := range structs {
		w := g.out()
		fmt.Fprintf(w, "pri struct %s?(\n        f_a : base.u32,\n", s)
		for j := i + 1; j < nStruct; j++ {
			if rd.Chance(1, 2) {
				if rd.Chance(1, 3) {
					fmt.Fprintf(w, "        f_s%d : array[%d] %s,\n", j, rd.Range(1, 4), structs[j])
				} else {
					fmt.Fprintf(w, "        f_s%d : %s,\n", j, structs[j])
				}
			}
		}
		w.WriteString(")\n\n")
		for m := rd.Range(0, 2); m > 0; m-- {
			fmt.Fprintf(g.out(), "pri func %s.m%d!(x: base.u32) base.u32 {\n    this.f_a = args.x ~mod+ %d\n    return this.f_a\n}\n\n", s, m, rd.Intn(100))
		}
	}
	g.feat(fmt.Sprintf("struct:plain=%d", nStruct))
	nc := rd.Range(1, 2)
	for i := 0; i < nc; i++ {
		g.codecStruct(statuses)
	}
	if rd.Chance(2, 3) {
		g.hasherStruct(statuses)
	}
	if err := os.MkdirAll(dir, 0o755); err != nil {
		return nil, nil, err
	}
	p := &pkg{name: name, gen: true}
	for f, n := range []string{"a_first.wuffs", "b_second.wuffs", "c_third.wuffs"}[:g.nfile] {
		path := filepath.Join(dir, n)
		if err := os.WriteFile(path, []byte(g.files[f].String()), 0o644); err != nil {
			return nil, nil, err
		}
		p.files = append(p.files, path)
	}
	return p, g.feats, nil
}

// ---------------------------------------------------------------- malformed packages

// breakPackage returns variants of a generated package's sources that the compiler
// must reject, each aimed at another phase (parser, type lookup = the existence search
// over c.structs, duplicate names, struct cycles, interface satisfaction = the
// pick-the-largest loop, expression types).  nil text = the breakage does not apply.
func breakPackage(rd *hlib.Rand, srcs []string) (kinds []string, variants [][]string) {
	apply := func(kind string, f func(s string) (string, bool)) {
		out := append([]string{}, srcs...)
		for i := range out {
			if t, ok := f(out[i]); ok {
				out[i] = t
				kinds = append(kinds, kind)
				variants = append(variants, out)
				return
			}
		}
	}
	replaceOnce := func(old, new string) func(string) (string, bool) {
		return func(s string) (string, bool) {
			if i := strings.Index(s, old); i >= 0 {
				return s[:i] + new + s[i+len(old):], true
			}
			return s, false
		}
	}
	apply("parse-error", func(s string) (string, bool) { return s + "\npub func (\n", true })
	apply("unknown-type", replaceOnce("        f_a : base.u32,\n", "        f_a : base.u32,\n        f_zz : nosuch_type,\n"))
	apply("unknown-field", replaceOnce("    return this.f_a\n", "    return this.nosuch_field\n"))
	apply("duplicate-status", func(s string) (string, bool) {
		i := strings.Index(s, " status \"")
		if i < 0 {
			return s, false
		}
		j := strings.LastIndex(s[:i], "\n") + 1
		k := i + strings.Index(s[i:], "\n") + 1
		return s[:k] + s[j:k] + s[k:], true
	})
	apply("struct-cycle", func(s string) (string, bool) {
		i := strings.Index(s, "pri struct st")
		if i < 0 {
			return s, false
		}
		name := s[i+len("pri struct ") : i+strings.Index(s[i:], "?")]
		k := i + strings.Index(s[i:], "(\n") + 2
		return s[:k] + "        f_self : " + name + ",\n" + s[k:], true
	})
	// an interface implementation that lacks two methods: the error names one of them
	apply("missing-interface-methods", func(s string) (string, bool) {
		if !strings.Contains(s, ".checksum_u32() base.u32 {") || !strings.Contains(s, ".get_quirk(key: base.u32) base.u64 {") {
			return s, false
		}
		s = strings.Replace(s, ".checksum_u32() base.u32 {", ".checksum_u33() base.u32 {", 1)
		s = strings.Replace(s, ".get_quirk(key: base.u32) base.u64 {", ".get_quirq(key: base.u32) base.u64 {", 1)
		return s, true
	})
	apply("type-mismatch", replaceOnce("    c = ((args.x & 0xFF) as base.u8)\n", "    c = args.x\n"))
	return kinds, variants
}
