package main

// gofacts: go/parser + go/types fact extractor over the compiler's Go packages.
// It lists every place where Go's randomised / environment-dependent behaviour
// could leak into the compiler's output:
//   maprange  `for … := range m` with m of map type (iteration order is random)
//   go        goroutine start          select   select statement
//   import    of time, math/rand, math/rand/v2, crypto/rand, runtime, sync, unsafe, os/user
//   env       os.Getenv / os.LookupEnv / os.Environ / os.Hostname / os.Getpid / os.Getwd / time.Now …,
//             any use of os.Args[0], any call of a method named ModTime
//   readdir   call of a METHOD named Readdir / Readdirnames / ReadDir (the *os.File ones return the
//             entries in directory order; the package-level os.ReadDir, fs.ReadDir, ioutil.ReadDir sort)
//   fmtp      string literal holding the verb %p (prints an address)
//   fnbody    the functions the Lean model mirrors (modelledFuncs): hash of the whole normalised body
// A maprange/readdir site's hash covers the statement AND the two statements that follow it
// in the same block (where the collected data is sorted or consumed), so that deleting the
// `sort.Strings(keys)` after a collecting loop changes the key as well.
// Each site is keyed by (file, enclosing function, kind, ordinal within the
// function, hash of the normalised source of the statement).  Line numbers are
// informational only, so unrelated edits do not disturb the expectation table.

import (
	"bytes"
	"crypto/sha256"
	"fmt"
	"go/ast"
	"go/build"
	"go/importer"
	"go/parser"
	"go/printer"
	"go/token"
	"go/types"
	"os"
	"path/filepath"
	"sort"
	"strings"
)

type Site struct {
	Kind  string // maprange | go | select | import | env
	File  string // path relative to the repo root
	Func  string // enclosing function ("(recv).name" for methods, "-" at file level)
	Ord   int    // ordinal among same-kind sites of the function
	Hash  string // 12 hex digits of sha256 of the normalised statement text ("-" for import)
	What  string // ranged expression / imported path / called function
	Line  int
	Typed bool // map-ness decided by go/types (else by the syntactic rule)
}

func (s Site) Key() string {
	return fmt.Sprintf("%s %s %s #%d %s %s", s.Kind, s.File, s.Func, s.Ord, s.What, s.Hash)
}

var gofactsDirs = []string{"cmd/commonflags", "cmd/wuffs", "cmd/wuffs-c", "cmd/wuffsfmt", "internal/cgen",
	"lang/ast", "lang/builtin", "lang/check", "lang/generate", "lang/parse", "lang/render", "lang/token", "lang/wuffsroot",
	"lib/dumbindent", "lib/interval"}

var watchedImports = map[string]bool{"time": true, "math/rand": true, "math/rand/v2": true, "crypto/rand": true,
	"runtime": true, "sync": true, "sync/atomic": true, "unsafe": true, "os/user": true, "os/signal": true, "net": true, "reflect": true,
	"maps": true, "iter": true, "hash/maphash": true, "go/build": true, "os/exec": false}

// modelledFuncs: file -> functions whose body Model/Det.lean mirrors statement by statement.
var modelledFuncs = map[string]map[string]bool{
	"cmd/wuffs/main.go":      {"listDir": true, "appendDir": true, "findFiles": true, "findFiles1": true},
	"lang/ast/sort.go":       {"TopologicalSortStructs": true, "tssVisit": true},
	"lang/token/list.go":     {"(QQID).LessThan": true},
	"cmd/wuffs-c/release.go": {"(genReleaseHelper).gen": true, "parseIncludes": true, "(genReleaseHelper).parse": true},
	"cmd/wuffs/gen.go":       {"(genHelper).gen": true, "(genHelper).genDirDependencies": true},
	"cmd/wuffs/release.go":   {"genreleaseLang": true},
}

var envFuncs = map[string]bool{"os.Getenv": true, "os.LookupEnv": true, "os.Environ": true, "os.Hostname": true,
	"os.Getpid": true, "os.Getppid": true, "os.Getuid": true, "os.Getwd": true, "os.UserHomeDir": true, "os.TempDir": true,
	"os.Executable": true, "time.Now": true, "time.Since": true, "os.ExpandEnv": true, "os.UserCacheDir": true, "os.UserConfigDir": true,
	"path/filepath.Abs": true, "os.Readlink": true, "path/filepath.EvalSymlinks": true, "time.Until": true}

// printsAddress: would fmt's %v of a value of this static type show a memory address?
// Pointers (except a top-level pointer to a struct/array/slice/map, which is printed as
// &{…} — but pointers nested inside are addresses), channels, funcs, unsafe.Pointer.
// Values with an Error / String / Format method are printed through it; the dynamic
// content of interface values is not known statically (not reported).
func printsAddress(t types.Type) bool { return printsAddr(t, true, map[types.Type]bool{}) }

func printsAddr(t types.Type, top bool, seen map[types.Type]bool) bool {
	if seen[t] {
		return false
	}
	seen[t] = true
	for _, m := range []string{"Error", "String", "Format", "GoString"} {
		if obj, _, _ := types.LookupFieldOrMethod(t, true, nil, m); obj != nil {
			if _, isFunc := obj.(*types.Func); isFunc {
				return false
			}
		}
	}
	switch u := t.Underlying().(type) {
	case *types.Pointer:
		if top {
			switch u.Elem().Underlying().(type) {
			case *types.Struct, *types.Array, *types.Slice, *types.Map:
				return printsAddr(u.Elem(), false, seen)
			}
		}
		return true
	case *types.Chan, *types.Signature:
		return true
	case *types.Basic:
		return u.Kind() == types.UnsafePointer
	case *types.Struct:
		for i := 0; i < u.NumFields(); i++ {
			if printsAddr(u.Field(i).Type(), false, seen) {
				return true
			}
		}
	case *types.Array:
		return printsAddr(u.Elem(), false, seen)
	case *types.Slice:
		return printsAddr(u.Elem(), false, seen)
	case *types.Map:
		return printsAddr(u.Key(), false, seen) || printsAddr(u.Elem(), false, seen)
	}
	return false
}

func normText(fset *token.FileSet, n ast.Node) string {
	var b bytes.Buffer
	printer.Fprint(&b, token.NewFileSet(), n) // fresh fileset: no positions, comments dropped
	return strings.Join(strings.Fields(b.String()), " ")
}

func hash12(s string) string {
	h := sha256.Sum256([]byte(s))
	return fmt.Sprintf("%x", h[:6])
}

func funcName(fd *ast.FuncDecl) string {
	if fd.Recv != nil && len(fd.Recv.List) > 0 {
		t := fd.Recv.List[0].Type
		if st, ok := t.(*ast.StarExpr); ok {
			t = st.X
		}
		if id, ok := t.(*ast.Ident); ok {
			return "(" + id.Name + ")." + fd.Name.Name
		}
	}
	return fd.Name.Name
}

func isIgnored(f *ast.File) bool {
	for _, cg := range f.Comments {
		if cg.Pos() > f.Package {
			break
		}
		for _, c := range cg.List {
			if strings.HasPrefix(c.Text, "//go:build ignore") {
				return true
			}
		}
	}
	return false
}

const modPrefix = "github.com/google/wuffs/"

// loader type-checks the repo's own packages from source (in import order, on
// demand) and leaves the standard library to the shared "source" importer.
type loader struct {
	repo  string
	fset  *token.FileSet
	std   types.Importer
	pkgs  map[string]*types.Package
	infos map[string]*types.Info
	files map[string][]*ast.File // package files per dir
	solos map[string][]*ast.File // `//go:build ignore` programs per dir
	names map[*ast.File]string
	notes []string
}

func (l *loader) Import(path string) (*types.Package, error) {
	if strings.HasPrefix(path, modPrefix) {
		return l.load(strings.TrimPrefix(path, modPrefix))
	}
	return l.std.Import(path)
}

func (l *loader) newInfo() *types.Info {
	return &types.Info{Types: map[ast.Expr]types.TypeAndValue{}, Uses: map[*ast.Ident]types.Object{}}
}

func (l *loader) check(d string, g []*ast.File) (*types.Package, *types.Info) {
	info := l.newInfo()
	nerr := 0
	conf := types.Config{Importer: l, Error: func(e error) {
		if nerr == 0 {
			l.notes = append(l.notes, d+": "+e.Error())
		}
		nerr++
	}}
	pkg, _ := conf.Check(modPrefix+d, l.fset, g, info)
	if nerr > 0 {
		l.notes = append(l.notes, fmt.Sprintf("%s: %d type errors (syntactic fallback used where a type is missing)", d, nerr))
	}
	return pkg, info
}

func (l *loader) load(d string) (*types.Package, error) {
	if p, ok := l.pkgs[d]; ok {
		if p == nil {
			return nil, fmt.Errorf("import cycle or failed package %s", d)
		}
		return p, nil
	}
	l.pkgs[d] = nil
	dir := filepath.Join(l.repo, d)
	ents, err := os.ReadDir(dir)
	if err != nil {
		return nil, err
	}
	for _, en := range ents {
		n := en.Name()
		if en.IsDir() || !strings.HasSuffix(n, ".go") || strings.HasSuffix(n, "_test.go") || strings.HasPrefix(n, "verif_") {
			continue
		}
		f, err := parser.ParseFile(l.fset, filepath.Join(dir, n), nil, parser.ParseComments)
		if err != nil {
			return nil, err
		}
		l.names[f] = d + "/" + n
		if isIgnored(f) {
			l.solos[d] = append(l.solos[d], f)
		} else {
			l.files[d] = append(l.files[d], f)
		}
	}
	pkg, info := l.check(d, l.files[d])
	l.pkgs[d], l.infos[d] = pkg, info
	if pkg == nil {
		return nil, fmt.Errorf("cannot type-check %s", d)
	}
	return pkg, nil
}

// GoFacts extracts the sites of all gofactsDirs under repo.
func GoFacts(repo string) (sites []Site, notes []string, err error) {
	build.Default.Dir = repo
	fset := token.NewFileSet()
	l := &loader{repo: repo, fset: fset, std: importer.ForCompiler(fset, "source", nil), pkgs: map[string]*types.Package{},
		infos: map[string]*types.Info{}, files: map[string][]*ast.File{}, solos: map[string][]*ast.File{}, names: map[*ast.File]string{}}
	for _, d := range gofactsDirs {
		if _, e := l.load(d); e != nil {
			l.notes = append(l.notes, d+": "+e.Error())
		}
		for _, f := range l.files[d] {
			sites = append(sites, fileSites(fset, f, l.names[f], l.infos[d])...)
		}
		for _, f := range l.solos[d] {
			_, info := l.check(d+"#"+filepath.Base(l.names[f]), []*ast.File{f})
			sites = append(sites, fileSites(fset, f, l.names[f], info)...)
		}
	}
	sort.SliceStable(sites, func(i, j int) bool {
		if sites[i].File != sites[j].File {
			return sites[i].File < sites[j].File
		}
		return sites[i].Line < sites[j].Line
	})
	return sites, l.notes, nil
}

func fileSites(fset *token.FileSet, f *ast.File, rel string, info *types.Info) (sites []Site) {
	for _, im := range f.Imports {
		p := strings.Trim(im.Path.Value, "\"")
		if watchedImports[p] {
			sites = append(sites, Site{Kind: "import", File: rel, Func: "-", Hash: "-", What: p, Line: fset.Position(im.Pos()).Line, Typed: true})
		}
	}
	// names of the file's imports, to resolve os.Getenv syntactically
	imported := map[string]string{}
	for _, im := range f.Imports {
		p := strings.Trim(im.Path.Value, "\"")
		n := p[strings.LastIndex(p, "/")+1:]
		if im.Name != nil {
			n = im.Name.Name
		}
		imported[n] = p
	}
	// follow[s] = normalised text of the (up to) two statements after s in its block
	follow := map[ast.Node]string{}
	// stmtOf[call] = innermost statement holding a call expression
	noteList := func(list []ast.Stmt) {
		for i, st := range list {
			f := ""
			for j := i + 1; j < len(list) && j <= i+2; j++ {
				f += " ;; " + normText(fset, list[j])
			}
			follow[st] = f
		}
	}
	ast.Inspect(f, func(n ast.Node) bool {
		switch n := n.(type) {
		case *ast.BlockStmt:
			noteList(n.List)
		case *ast.CaseClause:
			noteList(n.Body)
		case *ast.CommClause:
			noteList(n.Body)
		}
		return true
	})
	visit := func(fn string, body ast.Node) {
		ord := map[string]int{}
		add := func(kind, what string, n ast.Node, typed bool) {
			sites = append(sites, Site{Kind: kind, File: rel, Func: fn, Ord: ord[kind], Hash: hash12(normText(fset, n) + follow[n]), What: what,
				Line: fset.Position(n.Pos()).Line, Typed: typed})
			ord[kind]++
		}
		if modelledFuncs[rel][fn] {
			add("fnbody", "-", body, true)
		}
		ast.Inspect(body, func(n ast.Node) bool {
			if n == nil {
				return true
			}
			switch n := n.(type) {
			case *ast.BasicLit:
				if n.Kind == token.STRING && strings.Contains(strings.ReplaceAll(n.Value, "%%", ""), "%p") {
					add("fmtp", "-", n, true)
				}
			case *ast.IndexExpr:
				// os.Args[0]: how the program was invoked (the other elements are its input)
				if se, ok := n.X.(*ast.SelectorExpr); ok {
					if id, ok := se.X.(*ast.Ident); ok && id.Name == "os" && se.Sel.Name == "Args" && imported["os"] == "os" {
						if lit, ok := n.Index.(*ast.BasicLit); ok && lit.Value == "0" {
							add("env", "os.Args[0]", n, true)
						}
					}
				}
			case *ast.RangeStmt:
				what := normText(fset, n.X)
				if tv, ok := info.Types[n.X]; ok && tv.Type != nil {
					if _, isMap := tv.Type.Underlying().(*types.Map); isMap {
						add("maprange", what, n, true)
					}
				} else {
					// conservative syntactic rule: no type known => report it as a possible map range
					add("maprange", what+" (untyped)", n, false)
				}
			case *ast.GoStmt:
				add("go", normText(fset, n.Call.Fun), n, true)
			case *ast.SelectStmt:
				add("select", "-", n, true)
			case *ast.CallExpr:
				// any call that passes values through a `...interface{}` parameter (fmt.*printf, the
				// compiler's own buffer.printf, errors built with Errorf): would %v show an address?
				if tv, ok := info.Types[n.Fun]; ok && tv.Type != nil && !n.Ellipsis.IsValid() && !strings.Contains(strings.ToLower(normText(fset, n.Fun)), "scan") {
					if sig, ok := tv.Type.Underlying().(*types.Signature); ok && sig.Variadic() {
						np := sig.Params().Len()
						if sl, ok := sig.Params().At(np - 1).Type().(*types.Slice); ok {
							if it, ok := sl.Elem().Underlying().(*types.Interface); ok && it.Empty() {
								for i := np - 1; i < len(n.Args); i++ {
									if at, ok := info.Types[n.Args[i]]; ok && at.Type != nil && printsAddress(at.Type) {
										add("fmtptr", normText(fset, n.Args[i])+":"+strings.ReplaceAll(at.Type.String(), " ", ""), n, true)
									}
								}
							}
						}
					}
				}
				if se, ok := n.Fun.(*ast.SelectorExpr); ok {
					isPkgCall := false
					if id, ok := se.X.(*ast.Ident); ok {
						if _, imp := imported[id.Name]; imp {
							isPkgCall = true
							if obj, known := info.Uses[id]; known {
								if _, isPkg := obj.(*types.PkgName); !isPkg {
									isPkgCall = false
								}
							}
						}
					}
					if !isPkgCall {
						switch se.Sel.Name {
						case "Readdir", "Readdirnames", "ReadDir":
							add("readdir", normText(fset, n.Fun), n, true)
						case "ModTime":
							add("env", "ModTime", n, true)
						}
					}
					if id, ok := se.X.(*ast.Ident); ok {
						if p, ok := imported[id.Name]; ok {
							if obj, known := info.Uses[id]; known {
								if _, isPkg := obj.(*types.PkgName); !isPkg {
									return true
								}
							}
							full := p + "." + se.Sel.Name
							if envFuncs[full] {
								add("env", full, n, true)
							}
						}
					}
				}
			}
			return true
		})
	}
	for _, d := range f.Decls {
		switch d := d.(type) {
		case *ast.FuncDecl:
			if d.Body != nil {
				visit(funcName(d), d.Body)
			}
		case *ast.GenDecl:
			visit("-", d) // func literals in package-level initialisers
		}
	}
	return sites
}
