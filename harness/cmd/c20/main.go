package main

import (
	"fmt"
	"os"
)

func main() {
	sites, notes, err := GoFacts("/repo")
	if err != nil {
		fmt.Println(err)
		os.Exit(1)
	}
	for _, s := range sites {
		fmt.Printf("%s  (line %d, typed=%v)\n", s.Key(), s.Line, s.Typed)
	}
	fmt.Println(notes)
}
