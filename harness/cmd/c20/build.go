package main

// The build tool end to end, against Model/DetBuild.lean and Model/DetRelease.lean:
//
//	findfiles  the real findFiles (verif hook in cmd/wuffs) on scratch trees whose
//	           entries are created in shuffled order
//	genplan    the real `wuffs gen` run in a scratch Wuffs root holding a random package
//	           tree (packages, nested packages, `use` relations with cycles and missing
//	           targets), with a recording stand-in for `wuffs-c` first on PATH: the
//	           sequence of compiler invocations, each with its ordered file list, and the
//	           file list handed to `wuffs-c genrelease`
//	release    the real `wuffs-c genrelease` on synthetic per-package C files (include
//	           graphs with cycles, unknown targets, duplicates), arguments shuffled: the
//	           order in which the fragments are pasted

import (
	"bytes"
	"fmt"
	"os"
	"path/filepath"
	"sort"
	"strings"
	"time"

	t "github.com/google/wuffs/lang/token"

	"wvh/hlib"
)

func entTok(name string, dir bool) string {
	if dir {
		return hexName(name) + ".d"
	}
	return hexName(name) + ".f"
}

// ---------------------------------------------------------------- findfiles

type treeDir struct {
	path string   // absolute
	ents []string // creation order; "name/" for directories
}

// mkTree creates a random tree under root (depth <= 3) and returns its directories.
func mkTree(rd *hlib.Rand, root string, suffix string, depth int) []treeDir {
	os.MkdirAll(root, 0o755)
	n := rd.Range(0, 7)
	seen := map[string]bool{}
	var ents []string
	for len(ents) < n {
		nm := genEntryName(rd, suffix)
		if seen[nm] {
			continue
		}
		seen[nm] = true
		if depth < 3 && rd.Chance(1, 3) {
			nm += "/"
		}
		ents = append(ents, nm)
	}
	out := []treeDir{{root, ents}}
	for _, e := range ents {
		if strings.HasSuffix(e, "/") {
			out = append(out, mkTree(rd, filepath.Join(root, strings.TrimSuffix(e, "/")), suffix, depth+1)...)
		} else {
			os.WriteFile(filepath.Join(root, e), nil, 0o644)
		}
	}
	return out
}

func dirTok(d treeDir) string {
	var es []string
	for _, e := range d.ents {
		es = append(es, entTok(strings.TrimSuffix(e, "/"), strings.HasSuffix(e, "/")))
	}
	return "d:" + hexName(d.path) + ":" + strings.Join(es, ",")
}

func findFilesPart(r *hlib.Run, sb *hlib.StdBuild, tool string) {
	rd := r.Rand.Fork()
	n := 25
	if r.Thorough {
		n = 400
	}
	root := filepath.Join(sb.Scratch, "verif-c20", "ff")
	type fcase struct {
		root, suffix string
		dirs         []treeDir
	}
	var cases []fcase
	var req bytes.Buffer
	for i := 0; i < n; i++ {
		suffix := []string{".c", ".wuffs", "", "s"}[rd.Intn(4)]
		c := fcase{root: filepath.Join(root, fmt.Sprintf("t%d", i)), suffix: suffix}
		c.dirs = mkTree(rd, c.root, suffix, 0)
		cases = append(cases, c)
		fmt.Fprintf(&req, "findfiles %s %s\n", hexName(c.root), hexName(c.suffix))
	}
	// a tree with an unreadable (missing) root
	fmt.Fprintf(&req, "findfiles %s %s\n", hexName(filepath.Join(root, "missing")), hexName(".c"))
	o, e, err := hlib.RunCmd(5*time.Minute, sb.Scratch, nil, req.Bytes(), tool, "verif-listdir")
	if err != nil {
		r.Fail("findfiles:hook-run", fmt.Sprintf("verif-listdir failed: %v\n%s", err, e), "wuffs verif-listdir")
		return
	}
	lines := strings.Split(strings.TrimRight(string(o), "\n"), "\n")
	if len(lines) != len(cases)+1 {
		r.Fail("findfiles:hook-run", fmt.Sprintf("verif-listdir answered %d lines for %d requests", len(lines), len(cases)+1), "wuffs verif-listdir")
		return
	}
	for i, c := range cases {
		var toks []string
		var want []string
		for _, d := range c.dirs {
			toks = append(toks, dirTok(d))
			for _, e := range d.ents {
				if !strings.HasSuffix(e, "/") && strings.HasSuffix(e, c.suffix) {
					want = append(want, filepath.Join(d.path, e))
				}
			}
		}
		sort.Strings(want)
		r.Op(fmt.Sprintf("findfiles %s %s %s", hexName(c.root), hexName(c.suffix), strings.Join(toks, " ")), lines[i])
		got, ok := parseField(lines[i], "files")
		replay := fmt.Sprintf("tree under %s (entries in creation order): %v\nfindFiles(root, %q) returned %q", c.root, c.dirs, c.suffix, got)
		if !ok {
			r.Fail("findfiles:error", "findFiles fails on a readable tree: "+lines[i], replay)
		} else if !sort.StringsAreSorted(got) {
			r.Fail("findfiles:not-sorted", "findFiles returns an unsorted list (the file order given to `wuffs-c genrelease` then depends on the OS's directory enumeration order)", replay)
		} else if strings.Join(got, "\x00") != strings.Join(want, "\x00") {
			r.Fail("findfiles:wrong-entries", fmt.Sprintf("findFiles does not return exactly the matching files: want %q", want), replay)
		}
		if len(want) > 0 {
			r.Nontrivial("findfiles:" + strings.Join(toks, " "))
		}
		r.Count(fmt.Sprintf("findfiles:dirs<=%d", bucket(len(c.dirs))))
	}
	r.Op(fmt.Sprintf("findfiles %s %s", hexName(filepath.Join(root, "missing")), hexName(".c")), lines[len(cases)])
}

func parseField(line, field string) ([]string, bool) {
	for _, f := range strings.Fields(line) {
		if strings.HasPrefix(f, field+"=") {
			v := strings.TrimPrefix(f, field+"=")
			if v == "-" {
				return nil, true
			}
			var out []string
			for _, h := range strings.Split(v, ",") {
				out = append(out, string(hlib.UnHex(h)))
			}
			return out, true
		}
	}
	return nil, false
}

// ---------------------------------------------------------------- genplan

const fakeWuffsC = `#!/bin/sh
# recording stand-in for wuffs-c (the /verif C20 check): logs its arguments, prints a stub
{
  echo BEGIN
  for a in "$@"; do printf '%s\n' "$a"; done
  echo END
} >> "$C20_LOG"
echo "// stub output of: wuffs-c $1"
`

var pkgNames = []string{"aa", "ab", "b", "gif", "lzw", "png", "zlib", "z9", "m0", "deflate", "q", "x1"}
var fileStems = []string{"decode", "common", "a", "z", "decode_b", "Upper", "_x", "0num", "zz", "tables", "b"}

type gpPkg struct {
	dirname string   // "std/foo" or "std/foo/bar"
	files   []string // names, creation order
	decoys  []string
	subdirs []string // names, creation order
	uses    map[string][]string
}

func genPlanPart(r *hlib.Run, sb *hlib.StdBuild) {
	rd := r.Rand.Fork()
	n := 10
	if r.Thorough {
		n = 120
	}
	work := filepath.Join(sb.Scratch, "verif-c20", "gp")
	fakeBin := filepath.Join(work, "fakebin")
	os.MkdirAll(fakeBin, 0o755)
	if err := os.WriteFile(filepath.Join(fakeBin, "wuffs-c"), []byte(fakeWuffsC), 0o755); err != nil {
		r.Note("genplan: cannot write the stand-in: " + err.Error())
		return
	}
	if _, err := os.Stat("/bin/sh"); err != nil {
		r.Count("genplan:skipped-no-sh")
		return
	}
	for ci := 0; ci < n; ci++ {
		root := filepath.Join(work, fmt.Sprintf("root%d", ci))
		os.MkdirAll(root, 0o755)
		if p, err := filepath.EvalSymlinks(root); err == nil {
			root = p
		}
		os.WriteFile(filepath.Join(root, "wuffs-root-directory.txt"), []byte("x\n"), 0o644)
		// ---- the package tree
		tops := []string{"std"}
		if rd.Chance(1, 3) {
			tops = append(tops, []string{"lib", "x9"}[rd.Intn(2)])
		}
		var pkgs []*gpPkg
		topEnts := map[string][]string{}
		for _, top := range tops {
			np := rd.Range(1, 6)
			perm := append([]string{}, pkgNames...)
			shuffle(rd, len(perm), func(i, j int) { perm[i], perm[j] = perm[j], perm[i] })
			for _, nm := range perm[:np] {
				p := &gpPkg{dirname: top + "/" + nm, uses: map[string][]string{}}
				pkgs = append(pkgs, p)
				topEnts[top] = append(topEnts[top], nm)
				if rd.Chance(1, 4) { // a nested package
					sub := &gpPkg{dirname: p.dirname + "/" + pkgNames[rd.Intn(len(pkgNames))], uses: map[string][]string{}}
					p.subdirs = append(p.subdirs, filepath.Base(sub.dirname))
					pkgs = append(pkgs, sub)
				}
			}
		}
		var allDirnames []string
		for _, p := range pkgs {
			allDirnames = append(allDirnames, p.dirname)
		}
		for _, p := range pkgs {
			nf := rd.Range(0, 4)
			if rd.Chance(1, 8) {
				nf = 0 // a directory without sources is passed through
			}
			stems := append([]string{}, fileStems...)
			shuffle(rd, len(stems), func(i, j int) { stems[i], stems[j] = stems[j], stems[i] })
			for _, s := range stems[:nf] {
				f := s + ".wuffs"
				p.files = append(p.files, f)
				for k := rd.Intn(3); k > 0 && rd.Chance(1, 2); k-- {
					u := allDirnames[rd.Intn(len(allDirnames))]
					switch rd.Intn(40) {
					case 0:
						u = "std/nosuchpkg"
					case 1:
						u = tops[0] // a directory of packages, listed non-recursively
					case 2:
						u = "base"
					}
					dup := false
					for _, fs := range p.uses {
						for _, x := range fs {
							dup = dup || x == u
						}
					}
					if !dup { // one `use` of a package per package
						p.uses[f] = append(p.uses[f], u)
					}
				}
			}
			if rd.Bool() {
				p.decoys = append(p.decoys, []string{"README.md", "notes.wuffs.bak", "x.c"}[rd.Intn(3)])
			}
		}
		// ---- create it on disk, every directory's entries in shuffled order
		dirToks := []string{}
		useToks := []string{}
		mkdir := func(path string, files, dirs []string, content func(string) string) {
			os.MkdirAll(path, 0o755)
			type ent struct {
				name string
				dir  bool
			}
			var es []ent
			for _, f := range files {
				es = append(es, ent{f, false})
			}
			for _, d := range dirs {
				es = append(es, ent{d, true})
			}
			shuffle(rd, len(es), func(i, j int) { es[i], es[j] = es[j], es[i] })
			var toks []string
			for _, e := range es {
				if e.dir {
					os.MkdirAll(filepath.Join(path, e.name), 0o755)
				} else {
					os.WriteFile(filepath.Join(path, e.name), []byte(content(e.name)), 0o644)
				}
				toks = append(toks, entTok(e.name, e.dir))
			}
			dirToks = append(dirToks, "d:"+hexName(path)+":"+strings.Join(toks, ","))
		}
		for _, top := range tops {
			mkdir(filepath.Join(root, top), nil, topEnts[top], nil)
		}
		for _, p := range pkgs {
			p := p
			mkdir(filepath.Join(root, filepath.FromSlash(p.dirname)), append(append([]string{}, p.files...), p.decoys...), p.subdirs, func(name string) string {
				s := ""
				for _, u := range p.uses[name] {
					s += fmt.Sprintf("use \"%s\"\n", u)
				}
				return s + "\n"
			})
			for _, f := range p.files {
				if len(p.uses[f]) > 0 {
					var us []string
					for _, u := range p.uses[f] {
						us = append(us, hexName(u))
					}
					useToks = append(useToks, "u:"+hexName(filepath.Join(root, filepath.FromSlash(p.dirname), f))+":"+strings.Join(us, ","))
				}
			}
		}
		// ---- arguments
		var cmdArgs []string
		switch rd.Intn(6) {
		case 0: // default: base std/...
		case 1:
			cmdArgs = []string{"std/..."}
		case 2:
			cmdArgs = []string{pkgs[rd.Intn(len(pkgs))].dirname, "std/..."}
		case 3:
			cmdArgs = []string{"base", pkgs[rd.Intn(len(pkgs))].dirname + "/", pkgs[rd.Intn(len(pkgs))].dirname}
		case 4:
			for _, t := range tops {
				cmdArgs = append(cmdArgs, t+"/...")
			}
			shuffle(rd, len(cmdArgs), func(i, j int) { cmdArgs[i], cmdArgs[j] = cmdArgs[j], cmdArgs[i] })
		case 5:
			cmdArgs = []string{pkgs[rd.Intn(len(pkgs))].dirname + "/...", "std/...", "std/..."}
		}
		effArgs := cmdArgs
		if len(effArgs) == 0 {
			effArgs = []string{"base", "std/..."}
		}
		var argToks []string
		for _, a := range effArgs {
			rec := "0"
			if strings.HasSuffix(a, "/...") {
				a = strings.TrimSuffix(a, "/...")
				rec = "1"
			}
			argToks = append(argToks, "a:"+hexName(a)+":"+rec)
		}
		// ---- run the real build tool
		logFile := filepath.Join(work, fmt.Sprintf("log%d.txt", ci))
		os.Remove(logFile)
		env := []string{"PATH=" + fakeBin + ":" + os.Getenv("PATH"), "C20_LOG=" + logFile, "HOME=" + os.Getenv("HOME")}
		_, se, err := runCmdEnv(2*time.Minute, root, env, filepath.Join(sb.BinDir, "wuffs"), append([]string{"gen"}, cmdArgs...)...)
		out := "err"
		var plan [][]string // [dirname, files...]
		var rel []string
		if err == nil {
			logb, _ := os.ReadFile(logFile)
			var cur []string
			in := false
			for _, ln := range strings.Split(string(logb), "\n") {
				switch {
				case ln == "BEGIN" && !in:
					in, cur = true, nil
				case ln == "END" && in:
					in = false
					if len(cur) > 0 && cur[0] == "gen" {
						// gen -package_name P files…
						files := cur[3:]
						dn := "base"
						if len(files) > 0 {
							rp, _ := filepath.Rel(root, filepath.Dir(files[0]))
							dn = filepath.ToSlash(rp)
						}
						plan = append(plan, append([]string{dn}, files...))
					} else if len(cur) > 0 && cur[0] == "genrelease" {
						for _, a := range cur[1:] {
							if strings.HasSuffix(a, ".c") {
								rel = append(rel, a)
							}
						}
					}
				case in:
					cur = append(cur, ln)
				}
			}
			var ps []string
			for _, e := range plan {
				var fs []string
				for _, f := range e[1:] {
					fs = append(fs, hexName(f))
				}
				ps = append(ps, hexName(e[0])+"="+strings.Join(fs, ","))
			}
			out = "plan " + strings.Join(ps, ";") + " rel " + hexList(rel)
		}
		op := "genplan " + hexName(root) + " " + strings.Join(argToks, " ") + " " + strings.Join(dirToks, " ")
		if len(useToks) > 0 {
			op += " " + strings.Join(useToks, " ")
		}
		r.Op(op, out)
		r.Count("genplan:" + strings.Fields(out)[0])
		replay := fmt.Sprintf("Wuffs root %s\n`wuffs gen %s` with a recording wuffs-c\npackages: %s\nstderr: %s", root, strings.Join(cmdArgs, " "), describePkgs(pkgs), se)
		// the property's own oracle: every invocation got its package's sources, sorted
		for _, e := range plan {
			files := e[1:]
			if !sort.StringsAreSorted(files) {
				r.Fail("genplan:files-not-sorted", fmt.Sprintf("`wuffs gen` compiled package %s with its files in the order %q, which is not sorted (it is the directory enumeration order)", e[0], files), replay)
			}
			if e[0] != "base" {
				var want []string
				for _, p := range pkgs {
					if p.dirname == e[0] {
						for _, f := range p.files {
							want = append(want, filepath.Join(root, filepath.FromSlash(p.dirname), f))
						}
					}
				}
				sort.Strings(want)
				if strings.Join(want, "\x00") != strings.Join(files, "\x00") {
					r.Fail("genplan:wrong-files", fmt.Sprintf("`wuffs gen` compiled package %s from %q, its sources are %q", e[0], files, want), replay)
				}
			}
		}
		if err == nil && !sort.StringsAreSorted(rel) {
			r.Fail("genplan:release-list-not-sorted", fmt.Sprintf("`wuffs gen` handed `wuffs-c genrelease` the unsorted list %q", rel), replay)
		}
		if len(plan) >= 3 {
			r.Nontrivial("genplan:" + op[len("genplan ")+len(hexName(root)):])
		}
		os.RemoveAll(root)
	}
}

func describePkgs(pkgs []*gpPkg) string {
	var q []string
	for _, p := range pkgs {
		q = append(q, fmt.Sprintf("%s files(created in this order)=%q subdirs=%q uses=%v", p.dirname, p.files, p.subdirs, p.uses))
	}
	return strings.Join(q, "\n  ")
}

// ---------------------------------------------------------------- release

const (
	relAbove = "// ¡ WUFFS MONOLITHIC RELEASE DISCARDS EVERYTHING ABOVE.\n"
	relBelow = "// ¡ WUFFS MONOLITHIC RELEASE DISCARDS EVERYTHING BELOW.\n"
	relStart = "\n// ‼ WUFFS C HEADER ENDS HERE.\n#ifdef WUFFS_IMPLEMENTATION\n"
	relEnd   = "#endif  // WUFFS_IMPLEMENTATION\n"
)

func releasePart(r *hlib.Run, sb *hlib.StdBuild) {
	rd := r.Rand.Fork()
	n := 24
	if r.Thorough {
		n = 300
	}
	work := filepath.Join(sb.Scratch, "verif-c20", "rel")
	for ci := 0; ci < n; ci++ {
		dir := filepath.Join(work, fmt.Sprintf("g%d", ci))
		os.MkdirAll(dir, 0o755)
		names := []string{"wuffs-base.c"}
		if rd.Chance(1, 15) {
			names = nil // no base: "could not determine base directory"
		}
		np := rd.Range(0, 7)
		perm := append([]string{}, pkgNames...)
		shuffle(rd, len(perm), func(i, j int) { perm[i], perm[j] = perm[j], perm[i] })
		for _, p := range perm[:np] {
			names = append(names, "wuffs-std-"+p+".c")
		}
		if rd.Chance(1, 10) {
			names = append(names, "wuffs-std-tga.c")
		}
		if len(names) == 0 {
			names = []string{"wuffs-std-zz.c"}
		}
		acyclic := rd.Chance(6, 7)
		incs := map[string][]string{}
		for i, nm := range names {
			if nm == "wuffs-base.c" {
				continue
			}
			k := rd.Range(0, 3)
			for j := 0; j < k; j++ {
				var t string
				switch x := rd.Intn(30); {
				case x < 9:
					t = "wuffs-base.c"
				case x < 29:
					if acyclic {
						if i == 0 {
							continue
						}
						t = names[rd.Intn(i)] // earlier in the list only
					} else {
						t = names[rd.Intn(len(names))]
					}
				default:
					t = "wuffs-std-unknown.c"
				}
				if rd.Chance(4, 5) {
					t = "./" + t
				}
				incs[nm] = append(incs[nm], t)
			}
		}
		for _, nm := range names {
			var b strings.Builder
			b.WriteString("// preamble\n#include <stdio.h>\n//#include \"./wuffs-std-commented.c\"\n")
			for _, t := range incs[nm] {
				fmt.Fprintf(&b, "#include \"%s\"\n", t)
			}
			b.WriteString("\n" + relAbove + "HDR:" + nm + "\n" + relStart + "IMPL:" + nm + "\n" + relEnd + relBelow + "trailer\n")
			os.WriteFile(filepath.Join(dir, nm), []byte(b.String()), 0o644)
		}
		args := append([]string{}, names...)
		shuffle(rd, len(args), func(i, j int) { args[i], args[j] = args[j], args[i] })
		if rd.Chance(1, 12) && len(args) > 0 {
			args = append(args, args[rd.Intn(len(args))]) // the same file twice: "duplicate"
		}
		var full, toks []string
		for _, a := range args {
			full = append(full, filepath.Join(dir, a))
			var is []string
			for _, t := range incs[a] {
				is = append(is, hexName(t))
			}
			toks = append(toks, hexName(a)+":"+strings.Join(is, ","))
		}
		run := func() (string, []byte) {
			o, _, err := runCmdEnv(2*time.Minute, dir, os.Environ(), filepath.Join(sb.BinDir, "wuffs-c"), append([]string{"genrelease"}, full...)...)
			if err != nil {
				return "err", nil
			}
			var hdr, impl []string
			for _, ln := range strings.Split(string(o), "\n") {
				if strings.HasPrefix(ln, "HDR:") {
					hdr = append(hdr, strings.TrimPrefix(ln, "HDR:"))
				} else if strings.HasPrefix(ln, "IMPL:") {
					impl = append(impl, strings.TrimPrefix(ln, "IMPL:"))
				}
			}
			if strings.Join(hdr, "\x00") != strings.Join(impl, "\x00") {
				return "ok " + hexList(hdr) + " impl-order-differs " + hexList(impl), o
			}
			return "ok " + hexList(hdr), o
		}
		out, bytes1 := run()
		r.Op("release "+strings.Join(toks, " "), out)
		r.Count("release:" + strings.Fields(out)[0])
		if strings.HasPrefix(out, "ok") && ci%3 == 0 {
			out2, bytes2 := run()
			if out2 != out || !bytes.Equal(bytes1, bytes2) {
				r.Fail("release:not-repeatable", "`wuffs-c genrelease` with the same argument list gives two different release files", fmt.Sprintf("cd %s && wuffs-c genrelease %s\nincludes: %v\nfirst difference at %s", dir, strings.Join(args, " "), incs, firstDiffLine(bytes1, bytes2)))
			}
		}
		if strings.HasPrefix(out, "ok") && len(strings.Split(out, ",")) >= 3 {
			r.Nontrivial("release:" + strings.Join(toks, " "))
		}
		os.RemoveAll(dir)
	}
}

// ---------------------------------------------------------------- QQID order

// qqidPart: t.QQID.LessThan (the comparator of the per-interface sort in check.go Check and
// of the pick-the-largest loop) against the model's order on keys (Det.qqidLess).
func qqidPart(r *hlib.Run) {
	rd := r.Rand.Fork()
	n := 300
	if r.Thorough {
		n = 5000
	}
	pool := []uint32{0, 1, 2, 3, 0x7FFFFFFF, 0x80000000, 0xFFFFFFFE, 0xFFFFFFFF}
	pick := func() uint32 {
		if rd.Chance(3, 4) {
			return pool[rd.Intn(len(pool))]
		}
		return uint32(rd.Uint64())
	}
	for i := 0; i < n; i++ {
		x := t.QQID{t.ID(pick()), t.ID(pick()), t.ID(pick())}
		y := t.QQID{t.ID(pick()), t.ID(pick()), t.ID(pick())}
		if rd.Chance(1, 3) {
			y[0] = x[0]
			if rd.Bool() {
				y[1] = x[1]
			}
		}
		lt, gt := x.LessThan(y), y.LessThan(x)
		r.Op(fmt.Sprintf("qqidlt %d %d %d %d %d %d", x[0], x[1], x[2], y[0], y[1], y[2]), fmt.Sprint(lt))
		// the sort lemma needs a strict total order: exactly one of <, >, = holds
		if (lt && gt) || (!lt && !gt && x != y) || (x == y && (lt || gt)) {
			r.Fail("qqid:not-a-total-order", fmt.Sprintf("QQID.LessThan is not a strict total order on %v, %v (lt=%v gt=%v)", x, y, lt, gt), fmt.Sprintf("%v %v", x, y))
		}
		r.Count(fmt.Sprintf("qqid:lt=%v", lt))
	}
}
