package main

// Package summaries produced by the REAL Wuffs tokenizer + parser (lang/token,
// lang/parse) from .wuffs sources.  A summary is the input of the Lean model
// `Linkage.decls` (driver op `decls …`) and of the Go-side export oracle.

import (
	"encoding/hex"
	"fmt"
	"os"
	"path/filepath"
	"sort"
	"strings"

	a "github.com/google/wuffs/lang/ast"
	"github.com/google/wuffs/lang/parse"
	t "github.com/google/wuffs/lang/token"
)

type constSum struct {
	Name   string
	Pub    bool
	Scalar bool // no roarray decorator: cgen emits a #define
}

type statusSum struct {
	Msg string // unescaped, e.g. "#bad header"
	Pub bool
}

type structSum struct {
	Name       string
	Pub        bool
	Classy     bool
	Implements []string // e.g. "base.image_decoder" -> "wuffs_base__image_decoder"
}

type argSum struct {
	Name string
	Type string // Wuffs type text
}

type funcSum struct {
	Recv    string
	Name    string
	Pub     bool
	Effect  string // pure | impure | coro
	Choosy  bool
	CPUArch bool
	Args    []argSum
	Out     string
}

type pkgSum struct {
	Name     string
	Consts   []constSum
	Statuses []statusSum
	Structs  []structSum
	Funcs    []funcSum
	Uses     []string
}

func pp(b bool) string {
	if b {
		return "pub"
	}
	return "pri"
}

// summarize parses files (in the given order: cgen iterates files in argument
// order, `wuffs gen` passes them sorted) with the real parser.
func summarize(pkgName string, filenames []string) (*pkgSum, error) {
	tm := &t.Map{}
	s := &pkgSum{Name: pkgName}
	for _, fn := range filenames {
		src, err := os.ReadFile(fn)
		if err != nil {
			return nil, err
		}
		if err := summarizeInto(s, tm, fn, src); err != nil {
			return nil, err
		}
	}
	return s, nil
}

func summarizeSrc(pkgName string, src []byte) (*pkgSum, error) {
	tm := &t.Map{}
	s := &pkgSum{Name: pkgName}
	if err := summarizeInto(s, tm, pkgName+".wuffs", src); err != nil {
		return nil, err
	}
	return s, nil
}

func summarizeInto(s *pkgSum, tm *t.Map, fn string, src []byte) error {
	tokens, _, err := t.Tokenize(tm, fn, src)
	if err != nil {
		return err
	}
	f, err := parse.Parse(tm, fn, tokens, nil)
	if err != nil {
		return err
	}
	for _, tld := range f.TopLevelDecls() {
		switch tld.Kind() {
		case a.KUse:
			p, _ := t.Unescape(tm.ByID(tld.AsUse().Path()))
			s.Uses = append(s.Uses, p)
		case a.KConst:
			n := tld.AsConst()
			s.Consts = append(s.Consts, constSum{
				Name:   n.QID()[1].Str(tm),
				Pub:    n.Public(),
				Scalar: n.XType().Decorator() == 0,
			})
		case a.KStatus:
			n := tld.AsStatus()
			msg, ok := t.Unescape(n.QID()[1].Str(tm))
			if !ok {
				return fmt.Errorf("bad status literal in %s", fn)
			}
			s.Statuses = append(s.Statuses, statusSum{Msg: msg, Pub: n.Public()})
		case a.KStruct:
			n := tld.AsStruct()
			ss := structSum{Name: n.QID()[1].Str(tm), Pub: n.Public(), Classy: n.Classy()}
			for _, o := range n.Implements() {
				q := o.AsTypeExpr().QID()
				ss.Implements = append(ss.Implements, "wuffs_"+q[0].Str(tm)+"__"+q[1].Str(tm))
			}
			s.Structs = append(s.Structs, ss)
		case a.KFunc:
			n := tld.AsFunc()
			fs := funcSum{
				Name:    n.FuncName().Str(tm),
				Pub:     n.Public(),
				Choosy:  n.Choosy(),
				CPUArch: n.HasChooseCPUArch(),
			}
			if r := n.Receiver(); !r.IsZero() {
				fs.Recv = r[1].Str(tm)
			}
			switch e := n.Effect(); {
			case e.Coroutine():
				fs.Effect = "coro"
			case e.Impure():
				fs.Effect = "impure"
			default:
				fs.Effect = "pure"
			}
			for _, o := range n.In().Fields() {
				o := o.AsField()
				fs.Args = append(fs.Args, argSum{o.Name().Str(tm), o.XType().Str(tm)})
			}
			if n.Out() != nil {
				fs.Out = n.Out().Str(tm)
			}
			s.Funcs = append(s.Funcs, fs)
		}
	}
	return nil
}

// opLine renders the summary as the Lean driver's `decls` op.  Fields are
// ':'-separated; status messages are hex (they contain spaces).
func (s *pkgSum) opLine() string {
	var b strings.Builder
	b.WriteString("decls ")
	b.WriteString(s.Name)
	for _, z := range s.Statuses {
		fmt.Fprintf(&b, " S:%s:%s", pp(z.Pub), hex.EncodeToString([]byte(z.Msg)))
	}
	for _, c := range s.Consts {
		k := "array"
		if c.Scalar {
			k = "scalar"
		}
		fmt.Fprintf(&b, " K:%s:%s:%s", pp(c.Pub), c.Name, k)
	}
	for _, n := range s.Structs {
		k := "plain"
		if n.Classy {
			k = "classy"
		}
		im := strings.Join(n.Implements, ",")
		if im == "" {
			im = "-"
		}
		fmt.Fprintf(&b, " T:%s:%s:%s:%s", pp(n.Pub), n.Name, k, im)
	}
	for _, f := range s.Funcs {
		ch := "-"
		if f.Choosy {
			ch = "choosy"
		}
		recv := f.Recv
		if recv == "" {
			recv = "-"
		}
		fmt.Fprintf(&b, " F:%s:%s:%s:%s:%s", pp(f.Pub), recv, f.Name, f.Effect, ch)
	}
	return b.String()
}

// cNameGo is an independent re-statement of cgen's cName (used only by the Go
// oracle for status names; the Lean model has its own).
func cNameGo(name, prefix string) string {
	s := []byte(prefix)
	underscore := true
	for _, r := range name {
		switch {
		case 'A' <= r && r <= 'Z':
			s = append(s, byte(r+'a'-'A'))
			underscore = false
		case ('a' <= r && r <= 'z') || ('0' <= r && r <= '9'):
			s = append(s, byte(r))
			underscore = false
		case !underscore:
			s = append(s, '_')
			underscore = true
		}
	}
	if underscore && len(s) > 0 {
		s = s[:len(s)-1]
	}
	return string(s)
}

func (f *funcSum) cName(pkg string) string {
	if f.Recv != "" {
		return "wuffs_" + pkg + "__" + f.Recv + "__" + f.Name
	}
	return "wuffs_" + pkg + "__" + f.Name
}

// allowedExports is the property's own upper bound on exported FUNCTION
// symbols of a package's object code: the methods declared pub, and the
// initialize / sizeof__ / alloc helpers of pub structs (alloc_as__ / upcast_as__
// are `static inline` and never exported).  Independent of the Lean model.
func (s *pkgSum) allowedExports() map[string]string {
	m := map[string]string{}
	for _, f := range s.Funcs {
		if f.Pub {
			m[f.cName(s.Name)] = "pub-method"
		}
	}
	for _, n := range s.Structs {
		if n.Pub && n.Classy {
			base := "wuffs_" + s.Name + "__" + n.Name
			m[base+"__initialize"] = "helper"
			m[base+"__alloc"] = "helper"
			m["sizeof__"+base] = "helper"
		}
	}
	return m
}

// stdPackages lists std/<pkg> directories with their sorted .wuffs files.
func stdPackages(repo string) (names []string, files map[string][]string, err error) {
	files = map[string][]string{}
	ents, err := os.ReadDir(filepath.Join(repo, "std"))
	if err != nil {
		return nil, nil, err
	}
	for _, e := range ents {
		if !e.IsDir() {
			continue
		}
		fs, _ := filepath.Glob(filepath.Join(repo, "std", e.Name(), "*.wuffs"))
		if len(fs) == 0 {
			continue
		}
		sort.Strings(fs)
		names = append(names, e.Name())
		files[e.Name()] = fs
	}
	sort.Strings(names)
	return names, files, nil
}
