// C10 harness: compiled Wuffs code is hermetic.
//
// Ground truth is the object code: the working tree's wuffs/wuffs-c regenerate
// base + std (and random generated packages), gcc (and clang) compile it
// without sanitizers, and the ELF objects are inspected:
//   - no non-empty writable / TLS section (documented rule in objcheck.go),
//   - undefined symbols ⊆ {memcpy,memmove,memset,memcmp} ∪ {calloc,free} ∪
//     compiler-added, calloc/free referenced only from *__alloc,
//   - exported FUNCTION symbols ⊆ pub methods ∪ initialize/sizeof__/alloc of
//     pub structs (the set is computed from the REAL parser's AST),
//   - memcmp snapshots of receiver + all buffers around every pure call.
//
// Model side (Lean): `decls` (cgen's linkage decisions), `exports`, `tcheck`
// (the effect rule), `purecall`, `classify` — compared line by line.
package main

import (
	"bytes"
	"fmt"
	"os"
	"os/exec"
	"path/filepath"
	"regexp"
	"sort"
	"strings"
	"sync"
	"time"

	"wvh/hlib"
)

type job struct {
	name     string // e.g. "GIF"
	cc       string
	opt      string
	defs     []string
	src      string
	extra    []string // e.g. -fno-pic
	inputs   []string // content-determining files when src is only a wrapper (cache key)
	xcheck   bool     // also run nm -u / size -A on the object
	nmU      string
	sizeA    string
	out      string
	pic      bool
	err      error
	info     *objInfo
	duration time.Duration
}

func (j *job) key() string {
	return j.name + "/" + j.cc + j.opt + strings.Join(j.extra, "")
}

func runJobs(jobs []*job, par int) {
	sem := make(chan struct{}, par)
	var wg sync.WaitGroup
	for _, j := range jobs {
		wg.Add(1)
		go func(j *job) {
			defer wg.Done()
			sem <- struct{}{}
			defer func() { <-sem }()
			t0 := time.Now()
			flags := []string{j.opt, "-c", "-x", "c", "-w"}
			flags = append(flags, j.extra...)
			for _, d := range j.defs {
				flags = append(flags, "-D"+d)
			}
			os.Remove(j.out)
			var err error
			if len(j.inputs) > 0 {
				// src is a wrapper that #includes the inputs by absolute path
				err = cachedCC(j.cc, flags, []string{j.src}, false, j.inputs, j.out)
			} else {
				err = cachedCC(j.cc, flags, []string{j.src}, true, nil, j.out)
			}
			if err != nil {
				j.err = err
				return
			}
			j.info, j.err = inspectObject(j.out)
			if j.err == nil && j.xcheck {
				// binutils' view, for crossCheck (run here so that it is parallel)
				j.nmU = binutils("nm", "-u", j.out)
				j.sizeA = binutils("size", "-A", j.out)
			}
			j.duration = time.Since(t0)
		}(j)
	}
	wg.Wait()
}

var reModule = regexp.MustCompile(`defined\(WUFFS_CONFIG__MODULE__([A-Z0-9_]+)\)`)

func moduleNames(snapshot []byte) []string {
	set := map[string]bool{}
	for _, m := range reModule.FindAllSubmatch(snapshot, -1) {
		n := string(m[1])
		if strings.HasPrefix(n, "AUX__") || n == "TGA" {
			continue // C++ only / deprecated alias
		}
		set[n] = true
	}
	var l []string
	for n := range set {
		l = append(l, n)
	}
	sort.Strings(l)
	return l
}

func fatal(f string, a ...interface{}) {
	fmt.Fprintf(os.Stderr, "c10 harness: "+f+"\n", a...)
	os.Exit(2)
}

func binutils(tool string, args ...string) string {
	o, _, err := hlib.RunCmd(2*time.Minute, "", nil, nil, tool, args...)
	if err != nil {
		return "ERR"
	}
	return string(o)
}

// crossCheck compares debug/elf's view with `nm -u` and `size -A`.
func crossCheck(r *hlib.Run, j *job) {
	nmU := []string{}
	for _, l := range strings.Split(j.nmU, "\n") {
		f := strings.Fields(l)
		if len(f) == 2 && (f[0] == "U" || f[0] == "w") {
			nmU = append(nmU, f[1])
		}
	}
	sort.Strings(nmU)
	if strings.Join(nmU, " ") != strings.Join(j.info.Undef, " ") {
		r.Fail("harness:elf-vs-nm:"+j.key(), "debug/elf and nm -u disagree: "+strings.Join(nmU, " ")+" vs "+strings.Join(j.info.Undef, " "), j.key())
	}
	sz := map[string]string{}
	for _, l := range strings.Split(j.sizeA, "\n") {
		f := strings.Fields(l)
		if len(f) == 3 && strings.HasPrefix(f[0], ".") {
			sz[f[0]] = f[1]
		}
	}
	for _, s := range j.info.Sections {
		if s.Name == ".data" || s.Name == ".bss" || s.Name == ".tdata" || s.Name == ".tbss" {
			if got, ok := sz[s.Name]; ok && got != fmt.Sprint(s.Size) {
				r.Fail("harness:elf-vs-size:"+j.key(), "debug/elf and size -A disagree on "+s.Name, j.key())
			}
		}
	}
	r.Count("crosscheck:nm+size")
}

// checkObjectCommon evaluates the section rule and the allocator rule.
func checkObjectCommon(r *hlib.Run, j *job) {
	oi := j.info
	for _, v := range oi.writableViolations(j.pic) {
		culprits := oi.symbolsInWritable(j.pic)
		kind := strings.Fields(v)[0]
		sec := strings.Fields(v)[1]
		r.Fail(fmt.Sprintf("writable:%s:%s:%s", strings.ToLower(j.name), kind, sec),
			fmt.Sprintf("object %s has %s (symbols there: %s)", j.key(), v, strings.Join(culprits, " ")),
			replayFor(j))
	}
	for _, s := range oi.Sites {
		if allocFuncs[s.Target] && !isAllocHelper(s.Enclosing) {
			r.Fail(fmt.Sprintf("alloc-outside-alloc-helper:%s:%s", s.Target, stripGccSuffix(s.Enclosing)),
				fmt.Sprintf("object %s: %s is referenced from %q in %s, not from a *__alloc convenience function", j.key(), s.Target, s.Enclosing, s.Section),
				replayFor(j))
		}
		if allocFuncs[s.Target] {
			r.Count("alloc-site-in-alloc-helper")
		}
	}
}

func replayFor(j *job) string {
	return fmt.Sprintf("regenerate base+std from the working tree (wuffs gen), then:\n  %s %s -c -x c %s -D%s release/c/wuffs-unsupported-snapshot.c -o x.o && nm x.o && readelf -S -W x.o",
		j.cc, j.opt, strings.Join(j.extra, " "), strings.Join(j.defs, " -D"))
}

func pkgOfSymbol(sym string, pkgs []string) string {
	s := strings.TrimPrefix(sym, "sizeof__")
	for _, p := range pkgs {
		if strings.HasPrefix(s, "wuffs_"+p+"__") {
			return p
		}
	}
	return ""
}

func main() {
	if os.Getenv("C10_EFF_WORKER") != "" {
		effWorkerMain()
		return
	}
	r := hlib.Start("C10")
	if r.IsGen() {
		writeGenNames(r)
		writeGenBase(r)
		return
	}
	t0 := time.Now()
	var sb *hlib.StdBuild
	var err error
	if dev := os.Getenv("C10_DEV_SCRATCH"); dev != "" {
		// development only: reuse an already regenerated tree (never set by ./check)
		sb = &hlib.StdBuild{Scratch: filepath.Join(dev, "repo"), BinDir: filepath.Join(dev, "bin"),
			Snapshot: filepath.Join(dev, "repo", "release", "c", "wuffs-unsupported-snapshot.c"), Cleanup: func() { os.RemoveAll(filepath.Join(dev, "c10")) }}
	} else {
		// Other checks mutate /repo while they self-test; a regeneration that
		// fails is retried a few times before giving up.
		for attempt := 0; ; attempt++ {
			sb, err = hlib.GenStd(r.Repo)
			if err == nil {
				break
			}
			if attempt == 3 {
				fatal("GenStd: %v", err)
			}
			r.Note(fmt.Sprintf("GenStd attempt %d failed (%s); retrying", attempt+1, firstLine(err.Error())))
			time.Sleep(75 * time.Second)
		}
	}
	defer sb.Cleanup()
	r.Extra("t_genstd_s", time.Since(t0).Seconds())
	work := filepath.Join(filepath.Dir(sb.Scratch), "c10")
	if err := os.MkdirAll(work, 0o755); err != nil {
		fatal("%v", err)
	}
	snapshot, err := os.ReadFile(sb.Snapshot)
	if err != nil {
		fatal("%v", err)
	}

	// ---- package summaries from the real parser (scratch copy == working tree)
	stdNames, stdFiles, err := stdPackages(sb.Scratch)
	if err != nil {
		fatal("%v", err)
	}
	sums := map[string]*pkgSum{}
	for _, n := range stdNames {
		s, err := summarize(n, stdFiles[n])
		if err != nil {
			fatal("summarize %s: %v", n, err)
		}
		sums[n] = s
	}

	// ---- random streams, forked in a fixed order (the phases below overlap in
	// time, but every r.Op / r.Fail call is made from this goroutine, in a
	// fixed order, so the output is deterministic for a given seed)
	nGen := 6
	if r.Thorough {
		nGen = 40
	}
	genRands := make([]*hlib.Rand, nGen)
	for i := range genRands {
		genRands[i] = r.Rand.Fork()
	}
	effRand := r.Rand.Fork()
	effCRand := r.Rand.Fork()
	stdRand := r.Rand.Fork()
	os.Symlink(sb.Snapshot, filepath.Join(work, "snapshot.c"))

	only := os.Getenv("C10_DEV_ONLY") // development only
	want := func(part string) bool { return only == "" || strings.Contains(only, part) }
	if !want("objects") {
		if want("gen") {
			startGenerated(r, sb, work, genRands[:6])()
		}
		if want("effects") {
			runEffectsFront(r, effRand)(r, sb, effCRand)()
		}
		if want("names") {
			runNames(r)
		}
		r.Finish("dev")
		return
	}

	// ---- compile jobs
	mods := moduleNames(snapshot)
	var jobs []*job
	mk := func(name, cc, opt string, defs []string, extra []string, pic bool) *job {
		j := &job{name: name, cc: cc, opt: opt, defs: append([]string{"WUFFS_IMPLEMENTATION"}, defs...), src: sb.Snapshot, extra: extra, pic: pic, xcheck: true}
		j.out = filepath.Join(work, strings.NewReplacer("/", "_", " ", "").Replace(j.key())+".o")
		jobs = append(jobs, j)
		return j
	}
	type cfg struct{ cc, opt string }
	// Per-module objects.  Quick: gcc -O0 only — the optimiser proves a
	// never-written `static` table read-only and hides it in .rodata, -O0 shows
	// what the source says, and neither the export set nor the set of
	// referenced external symbols can shrink at -O0; what the optimiser ADDS
	// (memset/memcpy idioms, libgcc helpers) is seen in the whole-library
	// object, which is gcc -O2 (the configuration that ships).
	base := cfg{"gcc", "-O0"}
	ship := cfg{"gcc", "-O2"}
	modCfgs := []cfg{base}
	wholeCfgs := []cfg{ship}
	if r.Thorough {
		modCfgs = append(modCfgs, cfg{"gcc", "-O2"})
		wholeCfgs = append(wholeCfgs, cfg{"gcc", "-O0"}, cfg{"gcc", "-O3"})
		if _, err := exec.LookPath("clang"); err == nil {
			modCfgs = append(modCfgs, cfg{"clang", "-O2"}, cfg{"clang", "-O0"})
			wholeCfgs = append(wholeCfgs, cfg{"clang", "-O2"}, cfg{"clang", "-O0"})
		} else {
			r.Count("skipped:clang-absent")
		}
	}
	// whole-library jobs first (they are the longest)
	wholePlain := map[cfg]*job{}
	for _, c := range wholeCfgs {
		wholePlain[c] = mk("ALL", c.cc, c.opt, nil, nil, true)
	}
	// (neither section placement of a written object nor linkage depends on the
	// optimisation level; -O0 is the strictest for never-written objects and the cheapest)
	wholeStatics := []*job{mk("ALL-STATIC", "gcc", "-O0", []string{"WUFFS_CONFIG__STATIC_FUNCTIONS"}, nil, true)}
	wholeNoPics := []*job{mk("ALL-NOPIC", "gcc", "-O0", nil, []string{"-fno-pic", "-fno-pie"}, false)}
	if r.Thorough {
		wholeStatics = append(wholeStatics, mk("ALL-STATIC", "gcc", "-O2", []string{"WUFFS_CONFIG__STATIC_FUNCTIONS"}, nil, true))
		wholeNoPics = append(wholeNoPics, mk("ALL-NOPIC", "gcc", "-O2", nil, []string{"-fno-pic", "-fno-pie"}, false))
	}
	wholeStatic := wholeStatics[0]
	modJobs := map[cfg]map[string]*job{}
	for _, c := range modCfgs {
		modJobs[c] = map[string]*job{}
		for _, m := range mods {
			modJobs[c][m] = mk(m, c.cc, c.opt, []string{"WUFFS_CONFIG__MODULES", "WUFFS_CONFIG__MODULE__" + m, "WUFFS_NONMONOLITHIC"}, nil, true)
		}
	}
	t1 := time.Now()
	jobsDone := make(chan float64, 1)
	go func() {
		runJobs(jobs, 16)
		jobsDone <- time.Since(t1).Seconds()
	}()

	// ---- meanwhile: generated packages (background), effect-rule tie (front
	// end in worker processes; its C runs in the background afterwards)
	t2 := time.Now()
	finishGenerated := startGenerated(r, sb, work, genRands)
	t4 := time.Now()
	startEffC := runEffectsFront(r, effRand)
	r.Extra("t_effects_front_s", time.Since(t4).Seconds())
	finishEffC := startEffC(r, sb, effCRand)

	// ---- cgen's C-name table
	runNames(r)

	r.Extra("t_compile_s", <-jobsDone)
	r.Extra("objects", len(jobs))
	t5 := time.Now()
	for _, j := range jobs {
		if j.err != nil {
			fatal("compile %s: %v", j.key(), j.err)
		}
		crossCheck(r, j)
		checkObjectCommon(r, j)
		r.Count("object:" + j.cc + j.opt)
	}

	// ---- undefined symbols
	for _, c := range modCfgs {
		allDefined := map[string]bool{}
		for _, m := range mods {
			for _, g := range modJobs[c][m].info.definedGlobals() {
				allDefined[g] = true
			}
		}
		for _, m := range mods {
			j := modJobs[c][m]
			for _, u := range j.info.Undef {
				switch {
				case memFuncs[u]:
					r.Count("undef:mem")
				case allocFuncs[u]:
					r.Count("undef:alloc")
				case compilerAdded[u]:
					r.Count("undef:compiler-added:" + u)
				case allDefined[u] && strings.HasPrefix(u, "wuffs_"):
					r.Count("undef:other-wuffs-module")
				default:
					r.Fail("external-symbol:"+strings.ToLower(m)+":"+u,
						fmt.Sprintf("module object %s references external symbol %q", j.key(), u), replayFor(j))
				}
			}
		}
	}
	wholes := append(append([]*job{}, wholeStatics...), wholeNoPics...)
	for _, c := range wholeCfgs {
		wholes = append(wholes, wholePlain[c])
	}
	for _, j := range wholes {
		for _, u := range j.info.Undef {
			switch {
			case memFuncs[u], allocFuncs[u]:
				r.Count("undef-whole:allowed")
			case compilerAdded[u]:
				r.Count("undef-whole:compiler-added:" + u)
			default:
				r.Fail("external-symbol:all:"+u, fmt.Sprintf("whole-library object %s references external symbol %q", j.key(), u), replayFor(j))
			}
		}
		und := filterOut(j.info.Undef, compilerAdded)
		verdict := "ok"
		for _, u := range und {
			if u != "-" && !memFuncs[u] && !allocFuncs[u] {
				verdict = "external:" + u
				break
			}
		}
		r.Op("undefs "+strings.Join(und, " "), verdict)
	}

	// ---- no system-call / clock / entropy instructions in the library's code
	// (an inline-asm syscall would not show up as an undefined symbol).  cpuid /
	// xgetbv are expected: base's CPU feature detection.
	for _, j := range []*job{wholePlain[ship]} {
		dis := binutils("objdump", "-d", "--no-show-raw-insn", j.out)
		if dis == "ERR" {
			r.Count("skipped:objdump-failed")
			break
		}
		nInsn := 0
		for _, l := range strings.Split(dis, "\n") {
			f := strings.Fields(l)
			if len(f) < 2 || !strings.HasSuffix(f[0], ":") {
				continue
			}
			nInsn++
			switch f[1] {
			case "syscall", "sysenter", "rdtsc", "rdtscp", "rdrand", "rdseed":
				r.Fail("forbidden-instruction:"+f[1], "whole-library object contains instruction "+strings.Join(f[1:], " "), replayFor(j))
			case "int":
				if len(f) > 2 && f[2] == "$0x80" {
					r.Fail("forbidden-instruction:int80", "whole-library object contains int $0x80", replayFor(j))
				}
			case "cpuid", "xgetbv":
				r.Count("insn:" + f[1])
			}
		}
		r.Extra("instructions_scanned", nInsn)
	}

	// ---- exported functions, per std package
	for _, c := range modCfgs {
		for _, pn := range stdNames {
			s := sums[pn]
			M := strings.ToUpper(pn)
			j, ok := modJobs[c][M]
			if !ok {
				fatal("no module %s for std/%s", M, pn)
			}
			allowed := s.allowedExports()
			exp := j.info.exportedFuncs()
			for _, e := range exp {
				if _, ok := allowed[e]; !ok {
					r.Fail("export-not-pub:"+pn+":"+e,
						fmt.Sprintf("object %s exports function %q which is neither a pub method nor initialize/sizeof__/alloc of a pub struct of std/%s", j.key(), e, pn), replayFor(j))
				}
			}
			if c == base {
				r.Op("exports plain "+strings.TrimPrefix(s.opLine(), "decls "), joinOrDash(exp))
				r.Nontrivial("exports:" + pn)
			} else {
				// other compilers/levels: the set must be the same as the base configuration's
				if strings.Join(exp, " ") != strings.Join(modJobs[base][M].info.exportedFuncs(), " ") {
					r.Fail("export-set-differs:"+pn+":"+c.cc+c.opt, "exported function set differs between compilers/levels", replayFor(j))
				}
			}
			for range j.info.exportedObjects() {
				r.Count("exported-object")
			}
		}
	}
	// whole library: exported = union; static build: only the helpers
	staticByPkg := func(ws *job) map[string][]string {
		byPkg := map[string][]string{}
		for _, e := range ws.info.exportedFuncs() {
			p := pkgOfSymbol(e, append([]string{"base", "private_impl"}, stdNames...))
			byPkg[p] = append(byPkg[p], e)
		}
		return byPkg
	}
	firstStatic := staticByPkg(wholeStatic)
	for si, ws := range wholeStatics {
		byPkg := staticByPkg(ws)
		for _, pn := range stdNames {
			if si == 0 {
				r.Op("exports static "+strings.TrimPrefix(sums[pn].opLine(), "decls "), joinOrDash(byPkg[pn]))
			} else if joinOrDash(byPkg[pn]) != joinOrDash(firstStatic[pn]) {
				r.Fail("export-set-differs:"+pn+":static:"+ws.cc+ws.opt, "exported function set of the static-functions build differs between levels", replayFor(ws))
			}
			allowed := sums[pn].allowedExports()
			for _, e := range byPkg[pn] {
				if _, ok := allowed[e]; !ok {
					r.Fail("export-not-pub:"+pn+":"+e, "static-functions build exports "+e, replayFor(ws))
				}
			}
		}
		for _, p := range []string{"", "base", "private_impl"} {
			for _, e := range byPkg[p] {
				r.Fail("export-static-build:"+e, fmt.Sprintf("with WUFFS_CONFIG__STATIC_FUNCTIONS the library still exports base function %q", e), replayFor(ws))
			}
		}
	}
	{
		var union []string
		for _, m := range mods {
			if strings.HasPrefix(m, "BASE__") {
				continue
			}
			union = append(union, modJobs[base][m].info.exportedFuncs()...)
		}
		sort.Strings(union)
		for _, c := range wholeCfgs {
			if got := wholePlain[c].info.exportedFuncs(); strings.Join(got, " ") != strings.Join(union, " ") {
				r.Fail("export-whole-vs-modules:"+c.cc+c.opt, "whole-library exports differ from the union of the module objects' exports: "+diffLists(got, union), replayFor(wholePlain[c]))
			}
		}
	}

	// ---- base: exported functions must be declared in the public header part
	checkBase(r, sb, modJobs[base], mods)

	// ---- declaration tie for std packages
	for _, pn := range stdNames {
		csrc, err := os.ReadFile(filepath.Join(sb.Scratch, "gen", "c", "wuffs-std-"+pn+".c"))
		if err != nil {
			fatal("%v", err)
		}
		declTie(r, sums[pn], string(csrc), "std/"+pn)
	}

	r.Extra("t_objreport_s", time.Since(t5).Seconds())
	// ---- pure-method clause on std
	t3 := time.Now()
	runStdPure(r, sb, work, sums, stdNames, wholePlain[ship], stdRand)
	r.Extra("t_stdpure_s", time.Since(t3).Seconds())

	// ---- generated packages (started above)
	t6 := time.Now()
	finishGenerated()
	r.Extra("t_generated_done_after_s", time.Since(t2).Seconds())
	r.Extra("t_generated_wait_report_s", time.Since(t6).Seconds())

	// ---- C runs of suspicious accepted effect programs (started above)
	finishEffC()
	r.Extra("t_effects_done_after_s", time.Since(t4).Seconds())

	r.Extra("cc_cache_hits", cacheHits)
	r.Extra("cc_cache_misses", cacheMisses)
	cacheEvict()
	r.Extra("t_total_s", time.Since(t0).Seconds())
	r.Finish("objects: every WUFFS_CONFIG__MODULE__x of the regenerated snapshot as its own TU at gcc -O0 + whole library (gcc -O2 plain; -O0 STATIC_FUNCTIONS; -O0 -fno-pic) (thorough adds gcc -O2/-O3 and clang -O0/-O2 for all of them); generated packages: random pub/pri mixes of statuses/consts/structs/methods (pure, impure, coroutine, choosy, interface impls); effect programs: random pure/impure method bodies over a fixed struct, rendered to Wuffs and run through the real parser+checker; a case is non-trivial when it is a distinct (package, declaration set) / (struct, method, receiver-state schedule) / effect program")
}

func joinOrDash(l []string) string {
	if len(l) == 0 {
		return "-"
	}
	return strings.Join(l, " ")
}

func filterOut(l []string, drop map[string]bool) []string {
	var o []string
	for _, s := range l {
		if !drop[s] {
			o = append(o, s)
		}
	}
	if len(o) == 0 {
		return []string{"-"}
	}
	return o
}

func diffLists(a, b []string) string {
	ma, mb := map[string]bool{}, map[string]bool{}
	for _, x := range a {
		ma[x] = true
	}
	for _, x := range b {
		mb[x] = true
	}
	var o []string
	for _, x := range a {
		if !mb[x] {
			o = append(o, "+"+x)
		}
	}
	for _, x := range b {
		if !ma[x] {
			o = append(o, "-"+x)
		}
	}
	return strings.Join(o, " ")
}

// declTie scans the emitted C and records the `decls` op.
func declTie(r *hlib.Run, s *pkgSum, csrc string, label string) []cDecl {
	ds, err := scanC(csrc)
	if err != nil {
		r.Fail("harness:cscan:"+label, "C scanner failed: "+err.Error(), label)
	}
	canon, problems := canonDecls(ds, s.Name)
	for _, p := range problems {
		if strings.Contains(p, "never defined") {
			r.Count("cscan:declared-never-defined")
			continue
		}
		r.Fail("decl-inconsistent:"+label, p, label)
	}
	// property oracle at the source level: every file-scope object is const
	lo, up := "wuffs_"+s.Name+"__", "WUFFS_"+strings.ToUpper(s.Name)+"__"
	for _, d := range ds {
		if d.Kind == "o" && d.Def && (strings.HasPrefix(d.Name, lo) || strings.HasPrefix(d.Name, up)) {
			r.Count("decl:object")
			if !d.Const {
				r.Fail("nonconst-object:"+s.Name+":"+d.Name, fmt.Sprintf("generated C defines file-scope object %s without const (line %d)", d.Name, d.Line), label)
			}
		}
	}
	for _, d := range ds {
		if d.Kind == "l" {
			r.Count("decl:function-local-static")
			if !d.Const {
				r.Fail("nonconst-local-static:"+s.Name+":"+d.Name, fmt.Sprintf("generated C defines function-local static %s without const (line %d)", d.Name, d.Line), label)
			}
		}
	}
	r.Op(s.opLine(), canon)
	r.Nontrivial("decls:" + canon)
	r.Count("decls-op")
	return ds
}

// checkBase: the hand-written base module.
func checkBase(r *hlib.Run, sb *hlib.StdBuild, mj map[string]*job, mods []string) {
	src, err := os.ReadFile(filepath.Join(sb.Scratch, "gen", "c", "wuffs-base.c"))
	if err != nil {
		fatal("%v", err)
	}
	text := string(src)
	hdr := text
	if i := strings.Index(text, "WUFFS C HEADER ENDS HERE"); i >= 0 {
		hdr = text[:i]
	}
	hd, err := scanC(hdr + "\n")
	if err != nil {
		// the header part ends inside extern "C"/#if nesting only; tolerate
		r.Count("cscan:base-header-unbalanced")
	}
	public := map[string]bool{}
	for _, d := range hd {
		if d.Kind == "f" {
			public[d.Name] = true
		}
	}
	all, _ := scanC(text)
	maybeStatic := map[string]bool{}
	for _, d := range all {
		if d.Kind == "f" && d.Def && d.Linkage == "maybe_static" {
			maybeStatic[d.Name] = true
		}
		if d.Kind == "l" {
			r.Count("decl:base-function-local-static")
			if !d.Const {
				r.Fail("nonconst-local-static:base:"+d.Name, fmt.Sprintf("base defines function-local static %s without const (wuffs-base.c line %d): writable data in unoptimised builds", d.Name, d.Line), "gen/c/wuffs-base.c")
			}
		}
		if d.Kind == "o" && d.Def && strings.HasPrefix(strings.ToLower(d.Name), "wuffs_") {
			r.Count("decl:base-object")
			if !d.Const {
				r.Fail("nonconst-object:base:"+d.Name, fmt.Sprintf("base defines file-scope object %s without const (wuffs-base.c line %d)", d.Name, d.Line), "gen/c/wuffs-base.c")
			}
		}
	}
	j := mj["BASE"]
	exp := j.info.exportedFuncs()
	// Rule for the hand-written base module (it has no Wuffs `pub`): an exported
	// function is named wuffs_base__* (the wuffs_private_impl__ namespace is by
	// its own convention not API) and is defined with WUFFS_BASE__MAYBE_STATIC
	// (so that WUFFS_CONFIG__STATIC_FUNCTIONS un-exports it).  Functions that
	// are exported but declared only in the private header part (the lowering
	// targets generated code of other modules calls) are counted, not failed.
	for _, e := range exp {
		if !strings.HasPrefix(e, "wuffs_base__") {
			r.Fail("export-not-public-api:base:"+e, fmt.Sprintf("base object exports function %q, which is outside the wuffs_base__ API namespace", e), replayFor(j))
		}
		if !maybeStatic[e] {
			r.Fail("export-not-maybe-static:base:"+e, fmt.Sprintf("base object exports function %q that is not defined with WUFFS_BASE__MAYBE_STATIC", e), replayFor(j))
		}
		if public[e] {
			r.Count("base-export:declared-in-public-header")
		} else {
			r.Count("base-export:declared-in-private-header-only")
		}
	}
	// sub-modules partition the base module
	var sub []string
	for _, m := range mods {
		if strings.HasPrefix(m, "BASE__") {
			sub = append(sub, mj[m].info.exportedFuncs()...)
		}
	}
	sort.Strings(sub)
	if strings.Join(sub, " ") != strings.Join(exp, " ") {
		r.Fail("export-base-submodules", "BASE exports differ from the union of its sub-modules: "+diffLists(exp, sub), replayFor(j))
	}
}

// startGenerated: random packages through the working tree's wuffs-c.  The
// work (wuffs-c, gcc, driver runs) starts at once in the background; the
// returned function waits for it and reports, in package order.
func startGenerated(r *hlib.Run, sb *hlib.StdBuild, work string, rands []*hlib.Rand) func() {
	n := len(rands)
	wuffsC := filepath.Join(sb.BinDir, "wuffs-c")
	type res struct {
		idx      int
		src      string
		csrc     []byte
		genErr   string
		sum      *pkgSum
		obj      *job
		objS     *job
		drvOut   string
		drvErr   string
		skipped  int
		compiled bool
	}
	results := make([]*res, n)
	sem := make(chan struct{}, 12)
	var wg sync.WaitGroup
	for i := 0; i < n; i++ {
		wg.Add(1)
		go func(i int) {
			defer wg.Done()
			sem <- struct{}{}
			defer func() { <-sem }()
			rr := rands[i]
			pkg := fmt.Sprintf("g%d", i)
			x := &res{idx: i, src: genPackage(rr, i)}
			results[i] = x
			dir := filepath.Join(work, pkg)
			os.MkdirAll(dir, 0o755)
			wf := filepath.Join(dir, pkg+".wuffs")
			os.WriteFile(wf, []byte(x.src), 0o644)
			csrc, stderr, err := hlib.GenPkg(wuffsC, pkg, wf)
			if err != nil {
				x.genErr = strings.TrimSpace(string(stderr))
				return
			}
			csrc = bytes.Replace(csrc, []byte("#include \"./wuffs-base.c\"\n"), nil, 1)
			x.csrc = csrc
			cf := filepath.Join(dir, pkg+".c")
			os.WriteFile(cf, csrc, 0o644)
			x.sum, err = summarizeSrc(pkg, []byte(x.src))
			if err != nil {
				x.genErr = "summarize: " + err.Error()
				return
			}
			// includes are relative (snapshot.c is a symlink) so that the text of
			// tu.c / driver.c does not depend on the scratch directory's name
			os.Symlink(sb.Snapshot, filepath.Join(dir, "snapshot.c"))
			tu := filepath.Join(dir, "tu.c")
			os.WriteFile(tu, []byte(fmt.Sprintf("#include \"snapshot.c\"\n#include \"%s.c\"\n", pkg)), 0o644)
			ins := []string{tu, sb.Snapshot, cf}
			P := strings.ToUpper(pkg)
			x.obj = &job{name: pkg, cc: "gcc", opt: "-O2", defs: []string{"WUFFS_IMPLEMENTATION", "WUFFS_CONFIG__MODULES", "WUFFS_CONFIG__MODULE__" + P}, src: tu, inputs: ins, out: filepath.Join(dir, "plain.o"), pic: true}
			x.objS = &job{name: pkg + "-STATIC", cc: "gcc", opt: "-O2", defs: []string{"WUFFS_IMPLEMENTATION", "WUFFS_CONFIG__MODULES", "WUFFS_CONFIG__MODULE__" + P, "WUFFS_CONFIG__STATIC_FUNCTIONS"}, src: tu, inputs: ins, out: filepath.Join(dir, "static.o"), pic: true}
			runJobs([]*job{x.obj, x.objS}, 2)
			if x.obj.err != nil || x.objS.err != nil {
				return
			}
			x.compiled = true
			drv, skipped := genPkgDriver(x.sum, "snapshot.c", pkg+".c", rr.Uint64(), 300)
			x.skipped = skipped
			df := filepath.Join(dir, "driver.c")
			os.WriteFile(df, []byte(drv), 0o644)
			exe := filepath.Join(dir, "driver")
			if err := cachedCC("gcc", []string{"-O1", "-w"}, []string{df}, true, []string{sb.Snapshot, cf}, exe); err != nil {
				x.drvErr = err.Error()
				return
			}
			o, e, err := hlib.RunCmd(2*time.Minute, dir, nil, nil, exe)
			x.drvOut = string(o)
			if err != nil {
				x.drvErr = fmt.Sprintf("driver run: %v %s", err, e)
			}
		}(i)
	}
	return func() {
		wg.Wait()
		for _, x := range results {
			pkg := fmt.Sprintf("g%d", x.idx)
			if x.genErr != "" {
				// the generator is meant to produce accepted packages only
				fatal("generated package %s rejected by wuffs-c: %s\n%s", pkg, x.genErr, x.src)
			}
			replay := "package " + pkg + " (wuffs-c gen -package_name " + pkg + "):\n" + x.src
			if !x.compiled {
				e := x.obj.err
				if e == nil {
					e = x.objS.err
				}
				fatal("generated package %s: C compile failed: %v\n%s", pkg, e, x.src)
			}
			r.Count("generated-package")
			declTie(r, x.sum, string(x.csrc), replay)
			for _, j := range []*job{x.obj, x.objS} {
				checkObjectCommon(r, j)
				for _, u := range j.info.Undef {
					switch {
					case memFuncs[u], allocFuncs[u], compilerAdded[u]:
					case strings.HasPrefix(u, "wuffs_base__") || strings.HasPrefix(u, "wuffs_private_impl__"):
						r.Count("undef:gen:base")
					default:
						r.Fail("external-symbol:generated:"+u, "generated package object references "+u, replay)
					}
				}
			}
			allowed := x.sum.allowedExports()
			for _, j := range []*job{x.obj, x.objS} {
				for _, e := range j.info.exportedFuncs() {
					if _, ok := allowed[e]; !ok {
						key := strings.Replace(e, "wuffs_"+pkg+"__", "", 1)
						// key is made generic (struct/method names are generator-chosen)
						if strings.HasSuffix(e, "__initialize") {
							key = "private-struct-initialize"
						}
						r.Fail("export-not-pub:generated:"+key,
							fmt.Sprintf("object of generated package exports function %q which is neither a pub method nor initialize/sizeof__/alloc of a pub struct", e), replay)
					}
				}
			}
			sl := strings.TrimPrefix(strings.Replace(x.sum.opLine(), "decls "+pkg, "decls gpkg", 1), "decls ")
			ren := func(l []string) string {
				o := make([]string, len(l))
				for i, s := range l {
					o[i] = strings.Replace(s, "wuffs_"+pkg+"__", "wuffs_gpkg__", 1)
				}
				sort.Strings(o)
				return joinOrDash(o)
			}
			r.Op("exports plain "+sl, ren(x.obj.info.exportedFuncs()))
			r.Op("exports static "+sl, ren(x.objS.info.exportedFuncs()))
			r.Nontrivial("gen-exports:" + ren(x.obj.info.exportedFuncs()))
			if x.drvErr != "" {
				fatal("generated package %s: driver failed: %s\n%s", pkg, x.drvErr, x.src)
			}
			reportDriver(r, x.drvOut, pkg+".", x.sum, replay)
			r.CountN("driver:method-skipped-unsupported-arg", x.skipped)
		}
	}
}

var reDrvS = regexp.MustCompile(`^S ok=(\d+) susp=(\d+) note=(\d+) err=(\d+)$`)
var reDrv = regexp.MustCompile(`^([PI]) (\S+) calls=(\d+) (?:diffs|changed)=(\d+)$`)

// reportDriver turns the driver's lines into `purecall` ops and oracle verdicts.
func reportDriver(r *hlib.Run, out string, prefix string, s *pkgSum, replay string) {
	if !strings.Contains(out, "DONE") {
		fatal("driver did not finish: %s", out)
	}
	for _, l := range strings.Split(out, "\n") {
		if ms := reDrvS.FindStringSubmatch(l); ms != nil {
			for i, k := range []string{"ok", "suspension", "note", "error"} {
				var n int
				fmt.Sscan(ms[i+1], &n)
				r.CountN("stdpure:step-status:"+k, n)
			}
			continue
		}
		m := reDrv.FindStringSubmatch(l)
		if m == nil {
			if strings.HasPrefix(l, "FATAL") {
				fatal("driver: %s", l)
			}
			continue
		}
		name, calls, n := m[2], m[3], m[4]
		if m[1] == "P" {
			ans := "unchanged"
			if n != "0" {
				ans = "CHANGED"
				r.Fail("pure-writes:"+genericName(name), fmt.Sprintf("pure method %s%s: receiver or a buffer differed (memcmp) after %s of %s calls", prefix, name, n, calls), replay)
			} else if calls == "0" {
				ans = "uncalled"
			}
			r.Op("purecall "+genericName(name)+" pure", ans)
			r.Nontrivial("pure:" + prefix + name)
			r.Count("pure-call-checked")
		} else {
			r.Count("impure-method-run")
			if n != "0" {
				r.Count("impure-change-detected") // the memcmp detector is alive
			}
		}
	}
}

func genericName(n string) string { return n }

// runStdPure: compile the generated driver against the whole-library object.
func runStdPure(r *hlib.Run, sb *hlib.StdBuild, work string, sums map[string]*pkgSum, names []string, lib *job, rnd *hlib.Rand) {
	structs := stdStructs(sums, names)
	drv := genStdDriver(structs, "snapshot.c")
	df := filepath.Join(work, "stdpure.c")
	os.WriteFile(df, []byte(drv), 0o644)
	exe := filepath.Join(work, "stdpure")
	rounds, steps := 3, 40
	if r.Thorough {
		rounds, steps = 12, 120
	}
	if err := cachedCC("gcc", []string{"-O1", "-w", fmt.Sprintf("-DROUNDS=%d", rounds), fmt.Sprintf("-DSTEPS=%d", steps)}, []string{df, lib.out}, true, []string{sb.Snapshot}, exe); err != nil {
		fatal("std driver: %v", err)
	}
	exts := map[string][]string{
		"bmp": {".bmp"}, "bzip2": {".bz2"}, "cbor": {".cbor"}, "deflate": {".deflate"}, "etc2": {".pkm"},
		"gif": {".gif"}, "gzip": {".gz"}, "handsum": {".handsum"}, "jpeg": {".jpeg"}, "json": {".json"},
		"lzip": {".lz"}, "lzma": {".lzma"}, "lzw": {".giflzw"}, "netpbm": {".ppm", ".pgm"}, "nie": {".nie"},
		"png": {".png"}, "qoi": {".qoi"}, "targa": {".tga"}, "thumbhash": {".th"}, "wbmp": {".wbmp"},
		"webp": {".webp"}, "xz": {".xz"}, "zlib": {".zlib"},
		"adler32": {".txt"}, "crc32": {".txt"}, "crc64": {".txt"}, "sha256": {".txt"}, "xxhash32": {".txt"}, "xxhash64": {".txt"},
	}
	ents, _ := os.ReadDir(filepath.Join(r.Repo, "test", "data"))
	args := []string{fmt.Sprint(rnd.Uint64() >> 1)}
	for _, st := range structs {
		var cands []string
		for _, e := range ents {
			if e.IsDir() {
				continue
			}
			for _, x := range exts[st.Pkg] {
				if strings.HasSuffix(e.Name(), x) {
					if fi, err := e.Info(); err == nil && fi.Size() > 0 && fi.Size() <= 60_000 {
						cands = append(cands, e.Name())
					}
				}
			}
		}
		sort.Strings(cands)
		if len(cands) == 0 || rnd.Chance(1, 8) {
			args = append(args, "-") // random bytes: error / disabled receiver states
			r.Count("stdpure:input-random")
		} else {
			args = append(args, filepath.Join(r.Repo, "test", "data", cands[rnd.Intn(len(cands))]))
			r.Count("stdpure:input-file")
		}
	}
	o, e, err := hlib.RunCmd(20*time.Minute, work, nil, nil, exe, args...)
	if err != nil {
		fatal("std pure driver: %v\n%s\n%s", err, o, e)
	}
	reportDriver(r, string(o), "", nil, "std pure driver: "+strings.Join(args, " "))
	r.Extra("std_pub_structs", len(structs))
}
