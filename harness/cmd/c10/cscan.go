package main

// A declaration scanner over the C text that wuffs-c emits: every file-scope
// function definition / prototype with its storage class, every file-scope
// object with its qualifiers, every `#define` of a package constant.
// Conditional-compilation lines are ignored (all branches are scanned), which
// is what we want: a declaration must have the right linkage in every
// configuration.

import (
	"fmt"
	"sort"
	"strings"
)

type cDecl struct {
	Kind    string // "f" function, "o" object, "m" macro
	Name    string
	Linkage string // f: extern|maybe_static|static|static_inline ; o: extern|static ; m: define
	Const   bool   // objects only
	Def     bool   // definition (has body / initialiser) vs. declaration
	Line    int
}

type cTok struct {
	s    string
	line int
}

func isIdentStart(c byte) bool {
	return c == '_' || (c >= 'a' && c <= 'z') || (c >= 'A' && c <= 'Z')
}
func isIdentChar(c byte) bool { return isIdentStart(c) || (c >= '0' && c <= '9') }

// cTokenize strips comments, records `#define NAME` lines, drops every other
// preprocessor line, and returns identifier / punctuation / literal tokens.
func cTokenize(src string) (toks []cTok, defines []cTok) {
	line := 1
	i, n := 0, len(src)
	bol := true
	for i < n {
		c := src[i]
		switch {
		case c == '\n':
			line++
			i++
			bol = true
		case c == ' ' || c == '\t' || c == '\r':
			i++
		case c == '/' && i+1 < n && src[i+1] == '/':
			for i < n && src[i] != '\n' {
				i++
			}
		case c == '/' && i+1 < n && src[i+1] == '*':
			i += 2
			for i+1 < n && !(src[i] == '*' && src[i+1] == '/') {
				if src[i] == '\n' {
					line++
				}
				i++
			}
			i += 2
		case c == '#' && bol:
			// preprocessor line (with continuations)
			start := i
			for i < n {
				if src[i] == '\n' {
					if i > 0 && src[i-1] == '\\' {
						line++
						i++
						continue
					}
					break
				}
				i++
			}
			text := strings.TrimSpace(src[start+1 : i])
			if strings.HasPrefix(text, "define") {
				f := strings.Fields(text[len("define"):])
				if len(f) > 0 {
					name := f[0]
					if k := strings.IndexByte(name, '('); k >= 0 {
						name = name[:k]
					}
					defines = append(defines, cTok{name, line})
				}
			}
		case c == '"' || c == '\'':
			q := c
			j := i + 1
			for j < n && src[j] != q {
				if src[j] == '\\' {
					j++
				}
				if j < n && src[j] == '\n' {
					line++
				}
				j++
			}
			toks = append(toks, cTok{src[i:min(j+1, n)], line})
			i = j + 1
			bol = false
		case isIdentStart(c):
			j := i
			for j < n && isIdentChar(src[j]) {
				j++
			}
			toks = append(toks, cTok{src[i:j], line})
			i = j
			bol = false
		case c >= '0' && c <= '9':
			j := i
			for j < n && (isIdentChar(src[j]) || src[j] == '.') {
				j++
			}
			toks = append(toks, cTok{src[i:j], line})
			i = j
			bol = false
		default:
			if c >= 0x80 { // UTF-8 in comments only; skip defensively
				i++
				continue
			}
			toks = append(toks, cTok{string(c), line})
			i++
			bol = false
		}
	}
	return toks, defines
}

func min(a, b int) int {
	if a < b {
		return a
	}
	return b
}

func isAllCapsMacro(s string) bool {
	has := false
	for i := 0; i < len(s); i++ {
		c := s[i]
		if c >= 'a' && c <= 'z' {
			return false
		}
		if c >= 'A' && c <= 'Z' {
			has = true
		}
	}
	return has
}

// scanC returns the file-scope declarations of src.
func scanC(src string) ([]cDecl, error) {
	toks, defines := cTokenize(src)
	var out []cDecl
	for _, d := range defines {
		out = append(out, cDecl{Kind: "m", Name: d.s, Linkage: "define", Def: true, Line: d.line})
	}
	depth := 0
	inFunc := false
	var cur []cTok
	flush := func(endsWith string) {
		defer func() { cur = nil }()
		if len(cur) == 0 {
			return
		}
		d, ok := classify(cur, endsWith)
		if ok {
			out = append(out, d)
		}
	}
	i := 0
	for i < len(toks) {
		tk := toks[i]
		if depth > 0 {
			// block-scope `static` objects (function-local statics) are global
			// data too: record those declared without `const`.
			if inFunc && tk.s == "static" && (i == 0 || toks[i-1].s == ";" || toks[i-1].s == "{" || toks[i-1].s == "}") {
				konst := false
				name := ""
				j := i + 1
				for ; j < len(toks); j++ {
					x := toks[j].s
					if x == "{" || x == "=" || x == ";" || x == "[" {
						break
					}
					if x == "const" {
						konst = true
					}
					if isIdentStart(x[0]) {
						name = x
					}
				}
				if j < len(toks) && toks[j].s == "{" {
					// `static struct { … } name[] = …`: the name follows the body
					d2 := 0
					for ; j < len(toks); j++ {
						if toks[j].s == "{" {
							d2++
						} else if toks[j].s == "}" {
							d2--
							if d2 == 0 {
								break
							}
						}
					}
					if j+1 < len(toks) && isIdentStart(toks[j+1].s[0]) {
						name = toks[j+1].s
					}
				}
				out = append(out, cDecl{Kind: "l", Name: name, Linkage: "static", Const: konst, Def: true, Line: tk.line})
			}
			switch tk.s {
			case "{":
				depth++
			case "}":
				depth--
				if depth == 0 {
					// end of a function body, struct body or initialiser: what
					// follows up to ';' (declarator of a typedef / object) is dropped
					// unless we kept cur (object initialiser / struct-typed decl).
					if len(cur) > 0 && cur[len(cur)-1].s == "=" {
						// `T name = { ... }` : the initialiser is complete
						cur = append(cur, cTok{"{}", tk.line})
					} else if len(cur) > 0 && cur[len(cur)-1].s == "#body" {
						flush("{")
					} else {
						// struct/union/enum body: keep collecting declarator tokens
						cur = append(cur, cTok{"{}", tk.line})
					}
				}
			}
			i++
			continue
		}
		switch tk.s {
		case ";":
			flush(";")
		case "{":
			// extern "C" {  -> not a scope
			if len(cur) == 2 && cur[0].s == "extern" && strings.HasPrefix(cur[1].s, "\"") {
				cur = nil
				i++
				continue
			}
			inFunc = false
			if hasParenDeclarator(cur) && !containsTok(cur, "=") {
				cur = append(cur, cTok{"#body", tk.line})
				inFunc = true
			}
			depth++
		case "}":
			// closing of extern "C"
			cur = nil
		default:
			cur = append(cur, tk)
		}
		i++
	}
	if depth != 0 {
		return out, fmt.Errorf("unbalanced braces (depth %d at EOF)", depth)
	}
	return out, nil
}

func containsTok(l []cTok, s string) bool {
	for _, t := range l {
		if t.s == s {
			return true
		}
	}
	return false
}

// skipMacroCalls removes ALLCAPS(...) attribute-like macro invocations.
func skipMacroCalls(l []cTok) []cTok {
	var out []cTok
	for i := 0; i < len(l); i++ {
		if isIdentStart(l[i].s[0]) && isAllCapsMacro(l[i].s) && i+1 < len(l) && l[i+1].s == "(" {
			d := 0
			j := i + 1
			for ; j < len(l); j++ {
				if l[j].s == "(" {
					d++
				} else if l[j].s == ")" {
					d--
					if d == 0 {
						break
					}
				}
			}
			out = append(out, l[i]) // keep the macro name itself (e.g. for WUFFS_BASE__MAYBE_STATIC-like markers)
			i = j
			continue
		}
		out = append(out, l[i])
	}
	return out
}

func hasParenDeclarator(l []cTok) bool {
	l = skipMacroCalls(l)
	for i, t := range l {
		if t.s == "(" && i > 0 && isIdentStart(l[i-1].s[0]) && !isAllCapsMacro(l[i-1].s) {
			return true
		}
		if t.s == "=" {
			return false
		}
	}
	return false
}

func classify(l []cTok, endsWith string) (cDecl, bool) {
	body := false
	if len(l) > 0 && l[len(l)-1].s == "#body" {
		body = true
		l = l[:len(l)-1]
	}
	l = skipMacroCalls(l)
	if len(l) == 0 {
		return cDecl{}, false
	}
	first := l[0].s
	if first == "typedef" {
		return cDecl{}, false
	}
	var static, inline, extern, maybeStatic, konst bool
	for _, t := range l {
		switch t.s {
		case "static":
			static = true
		case "inline":
			inline = true
		case "extern":
			extern = true
		case "WUFFS_BASE__MAYBE_STATIC":
			maybeStatic = true
		}
	}
	// function: identifier followed by '(' before any '='
	for i, t := range l {
		if t.s == "=" {
			break
		}
		if t.s == "(" && i > 0 && isIdentStart(l[i-1].s[0]) && !isAllCapsMacro(l[i-1].s) {
			name := l[i-1].s
			if i+1 < len(l) && l[i+1].s == "*" {
				// `T (*name)(…)`: function-pointer object, not handled at file scope
				break
			}
			d := cDecl{Kind: "f", Name: name, Def: body, Line: l[0].line}
			switch {
			case static && inline:
				d.Linkage = "static_inline"
			case static:
				d.Linkage = "static"
			case maybeStatic:
				d.Linkage = "maybe_static"
			default:
				d.Linkage = "extern"
			}
			return d, true
		}
	}
	// struct/union/enum definition or forward declaration without declarator
	if (first == "struct" || first == "union" || first == "enum") && (len(l) <= 3) {
		return cDecl{}, false
	}
	// object: name is the identifier before '[' or '=' or the last identifier
	name := ""
	nameIdx := -1
	for i, t := range l {
		if t.s == "[" || t.s == "=" {
			break
		}
		if isIdentStart(t.s[0]) && !isAllCapsMacro(t.s) {
			name, nameIdx = t.s, i
		} else if isIdentStart(t.s[0]) && isAllCapsMacro(t.s) && i+1 < len(l) && (l[i+1].s == "[" || l[i+1].s == "=") {
			name, nameIdx = t.s, i // ALLCAPS object names (WUFFS_PKG__TABLE)
		}
	}
	if name == "" {
		return cDecl{}, false
	}
	// `const` counts when it qualifies the object itself: for non-pointer
	// declarators any `const` before the name; for pointer declarators a
	// `const` after the last '*'.
	lastStar := -1
	for i := 0; i < nameIdx; i++ {
		if l[i].s == "*" {
			lastStar = i
		}
	}
	for i := lastStar + 1; i < nameIdx; i++ {
		if l[i].s == "const" {
			konst = true
		}
	}
	d := cDecl{Kind: "o", Name: name, Const: konst, Line: l[0].line}
	d.Def = !extern || containsTok(l, "=")
	if static {
		d.Linkage = "static"
	} else {
		d.Linkage = "extern"
	}
	return d, true
}

// canonDecls renders the DEFINITIONS of package pkg (names prefixed
// wuffs_<pkg>__ / sizeof__wuffs_<pkg>__ / WUFFS_<PKG>__) as the canonical,
// sorted, one-line form shared with the Lean model.
func canonDecls(decls []cDecl, pkg string) (string, []string) {
	lo := "wuffs_" + pkg + "__"
	so := "sizeof__wuffs_" + pkg + "__"
	up := "WUFFS_" + strings.ToUpper(pkg) + "__"
	var items []string
	var problems []string
	protos := map[string]cDecl{}
	defs := map[string]cDecl{}
	for _, d := range decls {
		if !(strings.HasPrefix(d.Name, lo) || strings.HasPrefix(d.Name, so) || strings.HasPrefix(d.Name, up)) {
			continue
		}
		if d.Kind == "m" {
			items = append(items, "m|"+d.Name+"|define|-")
			continue
		}
		if !d.Def {
			if p, ok := protos[d.Name]; ok && (p.Linkage != d.Linkage || p.Const != d.Const) {
				problems = append(problems, fmt.Sprintf("conflicting declarations of %s (lines %d, %d)", d.Name, p.Line, d.Line))
			}
			protos[d.Name] = d
			continue
		}
		if _, dup := defs[d.Name]; dup {
			problems = append(problems, "duplicate definition of "+d.Name)
		}
		defs[d.Name] = d
	}
	for name, d := range defs {
		if p, ok := protos[name]; ok {
			pl, dl := p.Linkage, d.Linkage
			// `extern const char x[];` then `const char x[] = …;` is consistent.
			if pl != dl || (d.Kind == "o" && p.Const != d.Const) {
				problems = append(problems, fmt.Sprintf("declaration (line %d: %s) and definition (line %d: %s) of %s disagree", p.Line, pl, d.Line, dl, name))
			}
		}
		q := "-"
		if d.Kind == "o" {
			q = "mut"
			if d.Const {
				q = "const"
			}
		}
		items = append(items, d.Kind+"|"+name+"|"+d.Linkage+"|"+q)
	}
	for name, p := range protos {
		if _, ok := defs[name]; !ok {
			problems = append(problems, fmt.Sprintf("%s declared (line %d) but never defined", name, p.Line))
		}
	}
	sort.Strings(items)
	sort.Strings(problems)
	if len(items) == 0 {
		return "-", problems
	}
	return strings.Join(items, " "), problems
}
