package main

// The effect-rule tie: random method bodies over the fixed struct of
// Model/Effects.lean, rendered to Wuffs source and run through the REAL
// tokenizer + parser + checker in-process; the verdict (ok / reject-parse /
// reject-check) is compared with the Lean `tcheck`.  Programs the real
// checker ACCEPTS although a pure method syntactically contains a write are
// additionally compiled and run under the memcmp driver (the property's own
// oracle): a pure call that changes the receiver or a buffer is a violation.

import (
	"fmt"
	"strings"

	a "github.com/google/wuffs/lang/ast"
	"github.com/google/wuffs/lang/check"
	"github.com/google/wuffs/lang/parse"
	t "github.com/google/wuffs/lang/token"

	"wvh/hlib"
)

type eExpr struct {
	k    string // lit loc fld arg arr add call
	n, m int
	mark string // pure | impure
	l, r *eExpr
}

type eSRef struct {
	k      string // sa sl sf pal ss
	n      int
	lo, hi *eExpr // ss only (nil = absent)
}

type eStmt struct {
	k    string // skip seq ite loop setloc setfld setarg setarr setbuf bind copy calls choose
	n, m int
	mark string
	e    *eExpr
	s, d eSRef
	a, b *eStmt
}

type eMethod struct {
	eff    string
	body   *eStmt
	result *eExpr
}

func markStr(m string) string {
	if m == "impure" {
		return "!"
	}
	return ""
}

func (e *eExpr) tokens() string {
	switch e.k {
	case "lit":
		return fmt.Sprintf("lit %d", e.n)
	case "loc":
		return fmt.Sprintf("loc %d", e.n)
	case "fld":
		return fmt.Sprintf("fld %d", e.n)
	case "arg":
		return "arg"
	case "arr":
		return fmt.Sprintf("arr %d %d", e.n, e.m)
	case "add":
		return "add " + e.l.tokens() + " " + e.r.tokens()
	case "call":
		return fmt.Sprintf("call %s %d %s", e.mark, e.m, e.l.tokens())
	}
	panic("bad expr")
}

func (e *eExpr) wuffs() string {
	switch e.k {
	case "lit":
		return fmt.Sprintf("(%d as base.u32)", e.n)
	case "loc":
		return fmt.Sprintf("v%d", e.n)
	case "fld":
		return fmt.Sprintf("this.f%d", e.n)
	case "arg":
		return "args.x"
	case "arr":
		return fmt.Sprintf("(this.arr%d[%d] as base.u32)", e.n, e.m)
	case "add":
		return "(" + e.l.wuffs() + " ~mod+ " + e.r.wuffs() + ")"
	case "call":
		return fmt.Sprintf("this.m%d%s(x: %s, s: ls, t: lt, pb: args.pb)", e.m, markStr(e.mark), e.l.wuffs())
	}
	panic("bad expr")
}

func optTokens(e *eExpr) string {
	if e == nil {
		return "none"
	}
	return "some " + e.tokens()
}

func (s eSRef) tokens() string {
	if s.k == "pal" {
		return "pal"
	}
	if s.k == "ss" {
		return fmt.Sprintf("ss %d %s %s", s.n, optTokens(s.lo), optTokens(s.hi))
	}
	return fmt.Sprintf("%s %d", s.k, s.n)
}

func (s eSRef) hasImpureCall() bool {
	return s.k == "ss" && (s.lo.hasImpureCall() || s.hi.hasImpureCall())
}

func (s eSRef) wuffs() string {
	switch s.k {
	case "sa":
		if s.n == 0 {
			return "args.s"
		}
		return "args.t"
	case "sl":
		if s.n == 0 {
			return "ls"
		}
		return "lt"
	case "sf":
		return fmt.Sprintf("this.arr%d[..]", s.n)
	case "ss":
		// Every method returns base.u32[..= 3], so a bare call fits the array
		// length 4 as a bound.  Other lower bounds are masked to [0 ..= 3].  An
		// upper bound without a lower bound is bare if it is a call, else mapped
		// to [3 ..= 4].  With both bounds the bounds checker must prove lo <= hi,
		// which it can only do when one side is a constant: the upper bound is
		// then a literal n, written as the constant 3 + (n & 1).
		lo, hi := "", ""
		if s.lo != nil {
			if s.lo.k == "call" {
				lo = s.lo.wuffs() + " "
			} else {
				lo = "(" + s.lo.wuffs() + " & 3) "
			}
		}
		if s.hi != nil {
			if s.lo != nil {
				if s.hi.k != "lit" {
					panic("ss: with a lower bound the upper bound must be a literal")
				}
				hi = fmt.Sprintf(" %d", 3+(s.hi.n&1))
			} else if s.hi.k == "call" {
				hi = " " + s.hi.wuffs()
			} else {
				hi = " ((" + s.hi.wuffs() + " & 1) + 3)"
			}
		}
		return fmt.Sprintf("this.arr%d[%s..%s]", s.n, lo, hi)
	case "pal":
		return "args.pb.palette()"
	}
	panic("bad sref")
}

func (s *eStmt) tokens() string {
	switch s.k {
	case "skip":
		return "skip"
	case "choose":
		return "choose"
	case "seq":
		return "seq " + s.a.tokens() + " " + s.b.tokens()
	case "ite":
		return "ite " + s.e.tokens() + " " + s.a.tokens() + " " + s.b.tokens()
	case "loop":
		return "loop " + s.e.tokens() + " " + s.a.tokens()
	case "setloc":
		return fmt.Sprintf("setloc %d %s", s.n, s.e.tokens())
	case "setfld":
		return fmt.Sprintf("setfld %d %s", s.n, s.e.tokens())
	case "setarg":
		return "setarg " + s.e.tokens()
	case "setarr":
		return fmt.Sprintf("setarr %d %d %s", s.n, s.m, s.e.tokens())
	case "setbuf":
		return "setbuf " + s.s.tokens() + " " + s.e.tokens()
	case "bind":
		return fmt.Sprintf("bind %d %s", s.n, s.s.tokens())
	case "copy":
		return "copy " + s.mark + " " + s.d.tokens() + " " + s.s.tokens()
	case "calls":
		return fmt.Sprintf("calls %s %d %s", s.mark, s.m, s.e.tokens())
	}
	panic("bad stmt")
}

func (s *eStmt) wuffs(ind string, b *strings.Builder) {
	switch s.k {
	case "skip":
	case "seq":
		s.a.wuffs(ind, b)
		s.b.wuffs(ind, b)
	case "ite":
		fmt.Fprintf(b, "%sif %s <> 0 {\n", ind, s.e.wuffs())
		s.a.wuffs(ind+"\t", b)
		if s.b.k != "skip" {
			fmt.Fprintf(b, "%s} else {\n", ind)
			s.b.wuffs(ind+"\t", b)
		}
		fmt.Fprintf(b, "%s}\n", ind)
	case "choose":
		fmt.Fprintf(b, "%schoose ch = [ch_alt]\n", ind)
	case "loop":
		// every loop of the fragment advances the one counter local, so that all
		// programs terminate (the C runs execute them)
		fmt.Fprintf(b, "%swhile (vi < 3) and (%s <> 0) {\n%s\tvi += 1\n", ind, s.e.wuffs(), ind)
		s.a.wuffs(ind+"\t", b)
		fmt.Fprintf(b, "%s}\n", ind)
	case "setloc":
		fmt.Fprintf(b, "%sv%d = %s\n", ind, s.n, s.e.wuffs())
	case "setfld":
		fmt.Fprintf(b, "%sthis.f%d = %s\n", ind, s.n, s.e.wuffs())
	case "setarg":
		fmt.Fprintf(b, "%sargs.x = %s\n", ind, s.e.wuffs())
	case "setarr":
		fmt.Fprintf(b, "%sthis.arr%d[%d] = ((%s & 0xFF) as base.u8)\n", ind, s.n, s.m, s.e.wuffs())
	case "setbuf":
		fmt.Fprintf(b, "%sif %s.length() > 0 {\n%s\t%s[0] = ((%s & 0xFF) as base.u8)\n%s}\n", ind, s.s.wuffs(), ind, s.s.wuffs(), s.e.wuffs(), ind)
	case "bind":
		v := "ls"
		if s.n != 0 {
			v = "lt"
		}
		fmt.Fprintf(b, "%s%s = %s\n", ind, v, s.s.wuffs())
	case "copy":
		fmt.Fprintf(b, "%s%s.copy_from_slice%s(s: %s)\n", ind, s.d.wuffs(), markStr(s.mark), s.s.wuffs())
	case "calls":
		fmt.Fprintf(b, "%sthis.m%d%s(x: %s, s: ls, t: lt, pb: args.pb)\n", ind, s.m, markStr(s.mark), s.e.wuffs())
	}
}

// hasWrite: does the statement syntactically contain a construct that could
// write to the receiver or a buffer (used to pick accepted programs for the C run)?
func (s *eStmt) hasWrite() bool {
	switch s.k {
	case "seq", "ite":
		return s.a.hasWrite() || s.b.hasWrite() || (s.e != nil && s.e.hasImpureCall())
	case "loop":
		return s.a.hasWrite() || s.e.hasImpureCall()
	case "setfld", "setarr", "setbuf", "copy", "choose":
		return true
	case "bind":
		return s.s.hasImpureCall()
	case "calls":
		return s.mark == "impure" || s.e.hasImpureCall()
	case "setloc", "setarg":
		return s.e.hasImpureCall()
	}
	return false
}

// hasDefiniteWrite: does the statement contain a construct that the effect rule
// forbids outright in a pure method (as opposed to a store through a local
// slice, which is fine while that local is null)?  `effs` are the declared
// effects of the program's methods: a call whose CALLEE is impure counts
// whatever its call-site mark says.  On a correct front end no accepted
// program has such a construct in a pure method, so every accepted program
// that does is compiled and run (they come first in the C-run queue).
func (s *eStmt) hasDefiniteWrite(effs []string) bool {
	switch s.k {
	case "seq", "ite":
		return s.a.hasDefiniteWrite(effs) || s.b.hasDefiniteWrite(effs) || s.e.callsImpure(effs)
	case "loop":
		return s.a.hasDefiniteWrite(effs) || s.e.callsImpure(effs)
	case "setfld", "setarr", "setarg", "copy", "choose":
		return true
	case "setbuf":
		return s.s.k != "sl" || s.e.callsImpure(effs) || s.s.callsImpure(effs)
	case "bind":
		return s.s.callsImpure(effs)
	case "calls":
		return s.mark == "impure" || (s.m < len(effs) && effs[s.m] == "impure") || s.e.callsImpure(effs)
	case "setloc":
		return s.e.callsImpure(effs)
	}
	return false
}

// callsImpure: an impure call-site mark, or a call of a method declared impure.
func (e *eExpr) callsImpure(effs []string) bool {
	if e == nil {
		return false
	}
	if e.k == "call" && (e.mark == "impure" || (e.m < len(effs) && effs[e.m] == "impure")) {
		return true
	}
	return e.l.callsImpure(effs) || e.r.callsImpure(effs)
}

func (s eSRef) callsImpure(effs []string) bool {
	return s.k == "ss" && (s.lo.callsImpure(effs) || s.hi.callsImpure(effs))
}

func (e *eExpr) hasImpureCall() bool {
	if e == nil {
		return false
	}
	if e.k == "call" && e.mark == "impure" {
		return true
	}
	return e.l.hasImpureCall() || e.r.hasImpureCall()
}

type effGen struct {
	r     *hlib.Rand
	effs  []string // declared effects of methods generated so far
	self  int
	feff  string
	depth int
}

func (g *effGen) mark(callee int) string {
	// mostly the right mark; sometimes the wrong one
	m := g.effs[callee]
	if g.r.Chance(1, 6) {
		if m == "pure" {
			return "impure"
		}
		return "pure"
	}
	return m
}

func (g *effGen) expr(d int) *eExpr {
	n := 6
	if d <= 0 {
		n = 5
	}
	if g.self == 0 && n == 6 {
		// no callee available
	}
	switch k := g.r.Intn(n + 2); {
	case k == 0:
		return &eExpr{k: "lit", n: g.r.Intn(300)}
	case k == 1:
		return &eExpr{k: "loc", n: g.r.Intn(2)}
	case k == 2:
		return &eExpr{k: "fld", n: g.r.Intn(2)}
	case k == 3:
		return &eExpr{k: "arg"}
	case k == 4:
		return &eExpr{k: "arr", n: g.r.Intn(2), m: g.r.Intn(4)}
	case k == 5 || d <= 0 || g.self == 0:
		if d <= 0 {
			return &eExpr{k: "lit", n: g.r.Intn(9)}
		}
		return &eExpr{k: "add", l: g.expr(d - 1), r: g.expr(d - 1)}
	default:
		callee := g.r.Intn(g.self)
		return &eExpr{k: "call", mark: g.mark(callee), m: callee, l: g.expr(d - 1)}
	}
}

func (g *effGen) sref(allowPal bool, allowFld bool) eSRef {
	for {
		switch g.r.Intn(4) {
		case 0:
			return eSRef{k: "sa", n: g.r.Intn(2)}
		case 1:
			return eSRef{k: "sl", n: g.r.Intn(2)}
		case 2:
			if allowFld {
				if g.r.Chance(1, 2) {
					return g.subRef()
				}
				return eSRef{k: "sf", n: g.r.Intn(2)}
			}
		case 3:
			if allowPal {
				return eSRef{k: "pal"}
			}
		}
	}
}

// subRef: `this.arr<f>[lo .. hi]`; the bounds are small expressions, quite
// often a call (with the right or the wrong mark).
func (g *effGen) subRef() eSRef {
	bound := func() *eExpr {
		if g.self > 0 && g.r.Chance(1, 2) {
			callee := g.r.Intn(g.self)
			return &eExpr{k: "call", mark: g.mark(callee), m: callee, l: g.pureExpr1()}
		}
		return g.pureExpr1()
	}
	s := eSRef{k: "ss", n: g.r.Intn(2)}
	switch g.r.Intn(3) {
	case 0:
		s.lo = bound()
	case 1:
		s.hi = bound()
	default:
		s.lo, s.hi = bound(), &eExpr{k: "lit", n: g.r.Intn(300)}
	}
	return s
}

// pureExpr1: a shallow expression, mostly call-free.
func (g *effGen) pureExpr1() *eExpr {
	e := g.expr(1)
	if e.hasImpureCall() && g.r.Chance(3, 4) {
		return &eExpr{k: "arg"}
	}
	return e
}

func (g *effGen) stmt(d int) *eStmt {
	k := g.r.Intn(16)
	if d <= 0 && (k == 0 || k == 1 || k == 14) {
		k = 2 + g.r.Intn(12)
	}
	// writes are rarer in pure methods (else nearly everything is rejected)
	if g.feff == "pure" && (k == 3 || k == 5 || k == 6 || k == 8 || k == 9 || k == 15) && g.r.Chance(2, 3) {
		k = 2
	}
	switch k {
	case 0:
		return &eStmt{k: "seq", a: g.stmt(d - 1), b: g.stmt(d - 1)}
	case 1:
		b := &eStmt{k: "skip"}
		if g.r.Bool() {
			b = g.stmt(d - 1)
		}
		return &eStmt{k: "ite", e: g.cond(), a: g.stmt(d - 1), b: b}
	case 14:
		return &eStmt{k: "loop", e: g.cond(), a: g.stmt(d - 1)}
	case 15:
		if g.r.Chance(1, 2) {
			return &eStmt{k: "choose"}
		}
		return &eStmt{k: "setloc", n: g.r.Intn(2), e: g.rhs()}
	case 2, 10:
		return &eStmt{k: "setloc", n: g.r.Intn(2), e: g.rhs()}
	case 3:
		return &eStmt{k: "setfld", n: g.r.Intn(2), e: g.rhs()}
	case 4:
		return &eStmt{k: "setarg", e: g.rhs()}
	case 5:
		return &eStmt{k: "setarr", n: g.r.Intn(2), m: g.r.Intn(4), e: g.pureExpr()}
	case 6, 11:
		s := g.sref(false, false)
		return &eStmt{k: "setbuf", s: s, e: g.pureExpr()}
	case 7, 12:
		return &eStmt{k: "bind", n: g.r.Intn(2), s: g.sref(true, true)}
	case 8:
		mk := "impure"
		if g.r.Chance(1, 6) {
			mk = "pure"
		}
		return &eStmt{k: "copy", mark: mk, d: g.sref(false, false), s: g.sref(false, true)}
	case 9, 13:
		if g.self == 0 {
			return &eStmt{k: "skip"}
		}
		callee := g.r.Intn(g.self)
		return &eStmt{k: "calls", mark: g.mark(callee), m: callee, e: g.pureExpr()}
	}
	return &eStmt{k: "skip"}
}

// rhs: usually effect-free or a single outermost call; sometimes nested effects.
func (g *effGen) rhs() *eExpr {
	if g.self > 0 && g.r.Chance(1, 4) {
		callee := g.r.Intn(g.self)
		return &eExpr{k: "call", mark: g.mark(callee), m: callee, l: g.pureExpr()}
	}
	return g.expr(2)
}

// pureExpr: mostly without impure marks (calls get the callee's mark, which may be impure).
func (g *effGen) pureExpr() *eExpr {
	e := g.expr(2)
	if e.hasImpureCall() && g.r.Chance(3, 4) {
		return &eExpr{k: "add", l: &eExpr{k: "loc", n: 0}, r: &eExpr{k: "arg"}}
	}
	return e
}

// cond: built from args.x / this.f / this.arr only.  The bounds checker (not
// modelled here; property C01) rejects branches that contradict known facts,
// e.g. `if v0 <> 0` while `v0 == 0` is known, so conditions avoid locals and
// literals.  Sometimes (rarely) the condition is a call (effect rule P4).
func (g *effGen) cond() *eExpr {
	var leaf func(d int) *eExpr
	leaf = func(d int) *eExpr {
		switch k := g.r.Intn(4); {
		case k == 0:
			return &eExpr{k: "arg"}
		case k == 1:
			return &eExpr{k: "fld", n: g.r.Intn(2)}
		case k == 2:
			return &eExpr{k: "arr", n: g.r.Intn(2), m: g.r.Intn(4)}
		default:
			if d <= 0 {
				return &eExpr{k: "arg"}
			}
			return &eExpr{k: "add", l: leaf(d - 1), r: leaf(d - 1)}
		}
	}
	if g.self > 0 && g.r.Chance(1, 10) {
		callee := g.r.Intn(g.self)
		return &eExpr{k: "call", mark: g.mark(callee), m: callee, l: leaf(1)}
	}
	return leaf(2)
}

func genEffProg(r *hlib.Rand) []eMethod {
	n := r.Range(1, 4)
	g := &effGen{r: r}
	var ms []eMethod
	for i := 0; i < n; i++ {
		eff := "pure"
		if r.Chance(2, 5) {
			eff = "impure"
		}
		g.self, g.feff = i, eff
		body := g.stmt(3)
		res := g.pureExpr()
		ms = append(ms, eMethod{eff, body, res})
		g.effs = append(g.effs, eff)
	}
	return ms
}

func effTokens(ms []eMethod) string {
	var parts []string
	for _, m := range ms {
		parts = append(parts, "M "+m.eff+" "+m.body.tokens()+" "+m.result.tokens())
	}
	return strings.Join(parts, " ")
}

func effWuffs(ms []eMethod) string {
	var b strings.Builder
	b.WriteString("pub struct foo?(\n\tf0 : base.u32,\n\tf1 : base.u32,\n\tarr0 : array[4] base.u8,\n\tarr1 : array[4] base.u8,\n)\n\n")
	b.WriteString("pri func foo.ch!(x: base.u32),\n\tchoosy,\n{\n\tthis.f1 ~mod+= args.x\n}\n\n")
	b.WriteString("pri func foo.ch_alt!(x: base.u32) {\n\tthis.f1 ~mod+= 1\n}\n\n")
	for i, m := range ms {
		fmt.Fprintf(&b, "pri func foo.m%d%s(x: base.u32, s: slice base.u8, t: roslice base.u8, pb: ptr base.pixel_buffer) base.u32[..= 3] {\n", i, markStr(m.eff))
		b.WriteString("\tvar v0 : base.u32\n\tvar v1 : base.u32\n\tvar vi : base.u32\n\tvar ls : slice base.u8\n\tvar lt : roslice base.u8\n")
		m.body.wuffs("\t", &b)
		fmt.Fprintf(&b, "\treturn (%s & 3)\n}\n\n", m.result.wuffs())
	}
	return b.String()
}

// realVerdict runs the real front end in-process.
func realVerdict(src string) (verdict string, msg string) {
	defer func() {
		if e := recover(); e != nil {
			verdict, msg = "panic", fmt.Sprint(e)
		}
	}()
	tm := &t.Map{}
	tokens, _, err := t.Tokenize(tm, "eff.wuffs", []byte(src))
	if err != nil {
		return "reject-tokenize", err.Error()
	}
	f, err := parse.Parse(tm, "eff.wuffs", tokens, nil)
	if err != nil {
		return "reject-parse", err.Error()
	}
	_, err = check.Check(tm, []*a.File{f}, func(string) ([]byte, error) { return nil, fmt.Errorf("no use") })
	if err != nil {
		return "reject-check", err.Error()
	}
	return "ok", ""
}

func emitEff(r *hlib.Run, ms []eMethod, v, msg string, suspicious *[]suspProg, seen map[string]bool) {
	src := effWuffs(ms)
	toks := effTokens(ms)
	r.Op("tcheck "+toks, v)
	r.Count("tcheck:" + v)
	r.Nontrivial(toks)
	if v == "panic" || v == "reject-tokenize" {
		r.Fail("effects:frontend-"+v, msg, src)
	}
	if v == "ok" {
		definite, maybe := false, false
		effs := make([]string, len(ms))
		for i, m := range ms {
			effs[i] = m.eff
		}
		for _, m := range ms {
			if m.eff != "pure" {
				continue
			}
			if m.body.hasDefiniteWrite(effs) || m.result.callsImpure(effs) {
				definite = true
			} else if m.body.hasWrite() {
				maybe = true
			}
		}
		if definite || maybe {
			r.Count("tcheck:accepted-pure-with-write-construct")
			if definite {
				r.Count("tcheck:accepted-pure-with-forbidden-construct")
			}
			if !seen[toks] && len(*suspicious) < 400 {
				seen[toks] = true
				*suspicious = append(*suspicious, suspProg{src, toks, definite})
			}
		}
	}
	if r.NOps()%500 == 0 {
		r.Sample("tcheck " + toks + " => " + v)
	}
}

// effCorners: the cases the rule is about, one by one.
func effCorners() [][]eMethod {
	lit := func(n int) *eExpr { return &eExpr{k: "lit", n: n} }
	skip := &eStmt{k: "skip"}
	one := func(eff string, s *eStmt) []eMethod { return []eMethod{{eff, s, lit(0)}} }
	var out [][]eMethod
	for _, eff := range []string{"pure", "impure"} {
		out = append(out,
			one(eff, &eStmt{k: "setfld", n: 0, e: lit(1)}),
			one(eff, &eStmt{k: "setarg", e: lit(1)}),
			one(eff, &eStmt{k: "choose"}),
			one(eff, &eStmt{k: "ite", e: &eExpr{k: "arg"}, a: &eStmt{k: "choose"}, b: skip}),
			one(eff, &eStmt{k: "loop", e: &eExpr{k: "arg"}, a: &eStmt{k: "setfld", n: 1, e: lit(5)}}),
			one(eff, &eStmt{k: "loop", e: &eExpr{k: "fld", n: 0}, a: &eStmt{k: "loop", e: &eExpr{k: "arg"}, a: &eStmt{k: "setloc", n: 1, e: lit(5)}}}),
			one(eff, &eStmt{k: "setarr", n: 1, m: 3, e: lit(1)}),
			one(eff, &eStmt{k: "setbuf", s: eSRef{k: "sa", n: 0}, e: lit(1)}),
			one(eff, &eStmt{k: "setbuf", s: eSRef{k: "sa", n: 1}, e: lit(1)}),
			one(eff, &eStmt{k: "setbuf", s: eSRef{k: "sl", n: 0}, e: lit(1)}),
			one(eff, &eStmt{k: "setbuf", s: eSRef{k: "sl", n: 1}, e: lit(1)}),
			one(eff, &eStmt{k: "copy", mark: "impure", d: eSRef{k: "sa", n: 0}, s: eSRef{k: "sa", n: 1}}),
			one(eff, &eStmt{k: "copy", mark: "pure", d: eSRef{k: "sa", n: 0}, s: eSRef{k: "sa", n: 1}}),
			one(eff, &eStmt{k: "copy", mark: "impure", d: eSRef{k: "sl", n: 0}, s: eSRef{k: "sf", n: 0}}),
			one(eff, &eStmt{k: "copy", mark: "impure", d: eSRef{k: "sl", n: 1}, s: eSRef{k: "sa", n: 1}}),
		)
		for v := 0; v < 2; v++ {
			for _, s := range []eSRef{{k: "sa"}, {k: "sa", n: 1}, {k: "sl"}, {k: "sl", n: 1}, {k: "sf"}, {k: "pal"}, {k: "ss", hi: lit(2)}, {k: "ss", n: 1, lo: lit(1)}} {
				// bind then write through the local
				out = append(out, one(eff, &eStmt{k: "seq", a: &eStmt{k: "bind", n: v, s: s}, b: &eStmt{k: "setbuf", s: eSRef{k: "sl", n: v}, e: lit(7)}}))
				out = append(out, one(eff, &eStmt{k: "bind", n: v, s: s}))
			}
		}
		// calls: callee m0 (pure) / m0 (impure), caller m1
		for _, ce := range []string{"pure", "impure"} {
			for _, mk := range []string{"pure", "impure"} {
				callee := eMethod{ce, skip, lit(1)}
				if ce == "impure" {
					callee.body = &eStmt{k: "setfld", n: 0, e: lit(9)}
				}
				out = append(out,
					[]eMethod{callee, {eff, &eStmt{k: "calls", mark: mk, m: 0, e: lit(2)}, lit(0)}},
					[]eMethod{callee, {eff, &eStmt{k: "setloc", n: 0, e: &eExpr{k: "call", mark: mk, m: 0, l: lit(2)}}, lit(0)}},
					[]eMethod{callee, {eff, &eStmt{k: "setloc", n: 0, e: &eExpr{k: "add", l: &eExpr{k: "call", mark: mk, m: 0, l: lit(2)}, r: lit(1)}}, lit(0)}},
					[]eMethod{callee, {eff, &eStmt{k: "ite", e: &eExpr{k: "call", mark: mk, m: 0, l: lit(2)}, a: skip, b: skip}, lit(0)}},
					[]eMethod{callee, {eff, &eStmt{k: "loop", e: &eExpr{k: "call", mark: mk, m: 0, l: lit(2)}, a: skip}, lit(0)}},
					[]eMethod{callee, {eff, &eStmt{k: "loop", e: &eExpr{k: "arg"}, a: &eStmt{k: "calls", mark: mk, m: 0, e: lit(2)}}, lit(0)}},
					[]eMethod{callee, {eff, skip, &eExpr{k: "call", mark: mk, m: 0, l: lit(2)}}},
					[]eMethod{callee, {eff, &eStmt{k: "calls", mark: mk, m: 0, e: &eExpr{k: "call", mark: mk, m: 0, l: lit(2)}}, lit(0)}},
					// a call as the lower / upper bound of a slice expression, bare and nested
					[]eMethod{callee, {eff, &eStmt{k: "bind", n: 1, s: eSRef{k: "ss", lo: &eExpr{k: "call", mark: mk, m: 0, l: lit(2)}}}, lit(0)}},
					[]eMethod{callee, {eff, &eStmt{k: "bind", n: 1, s: eSRef{k: "ss", hi: &eExpr{k: "call", mark: mk, m: 0, l: lit(2)}}}, lit(0)}},
					[]eMethod{callee, {eff, &eStmt{k: "bind", n: 1, s: eSRef{k: "ss", lo: &eExpr{k: "call", mark: mk, m: 0, l: lit(2)}, hi: lit(1)}}, lit(0)}},
					[]eMethod{callee, {eff, &eStmt{k: "bind", n: 1, s: eSRef{k: "ss", lo: &eExpr{k: "add", l: &eExpr{k: "call", mark: mk, m: 0, l: lit(2)}, r: lit(1)}}}, lit(0)}},
					[]eMethod{callee, {eff, &eStmt{k: "bind", n: 0, s: eSRef{k: "ss", n: 1, lo: &eExpr{k: "call", mark: mk, m: 0, l: lit(2)}}}, lit(0)}},
					[]eMethod{callee, {eff, &eStmt{k: "copy", mark: "impure", d: eSRef{k: "sa"}, s: eSRef{k: "ss", lo: &eExpr{k: "call", mark: mk, m: 0, l: lit(2)}}}, lit(0)}},
				)
			}
		}
	}
	// two callees: m0 impure (it writes), m1 pure; the caller m2 hides a call of
	// m0 inside an ARGUMENT of a well-marked call of m1 (parseArgNode's rule;
	// ast.NewArg copies no flags, so nothing else would notice)
	for _, eff := range []string{"pure", "impure"} {
		w := eMethod{"impure", &eStmt{k: "setfld", n: 0, e: lit(9)}, lit(1)}
		p := eMethod{"pure", skip, lit(1)}
		inner := func() *eExpr { return &eExpr{k: "call", mark: "impure", m: 0, l: lit(2)} }
		nest := func() *eExpr { return &eExpr{k: "call", mark: "pure", m: 1, l: inner()} }
		out = append(out,
			[]eMethod{w, p, {eff, &eStmt{k: "setloc", n: 0, e: nest()}, lit(0)}},
			[]eMethod{w, p, {eff, &eStmt{k: "calls", mark: "pure", m: 1, e: inner()}, lit(0)}},
			[]eMethod{w, p, {eff, &eStmt{k: "setloc", n: 0, e: &eExpr{k: "add", l: nest(), r: lit(1)}}, lit(0)}},
			[]eMethod{w, p, {eff, &eStmt{k: "bind", n: 1, s: eSRef{k: "ss", lo: nest()}}, lit(0)}},
			[]eMethod{w, p, {eff, &eStmt{k: "ite", e: nest(), a: skip, b: skip}, lit(0)}},
			[]eMethod{w, p, {eff, &eStmt{k: "loop", e: nest(), a: skip}, lit(0)}},
			[]eMethod{w, p, {eff, skip, nest()}},
		)
	}
	return out
}

func firstLine(s string) string {
	if i := strings.IndexByte(s, '\n'); i >= 0 {
		return s[:i]
	}
	return s
}
