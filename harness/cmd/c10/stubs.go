package main

import "wvh/hlib"

func runEffects(r *hlib.Run)    {}
func runNames(r *hlib.Run)      {}
func writeGenNames(r *hlib.Run) {}
