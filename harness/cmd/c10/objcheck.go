package main

// ELF relocatable-object inspection (Go's debug/elf; cross-checked against
// binutils `nm`/`size` in main.go).  This is the ground truth of C10: what
// the C compiler made of the C that the working tree's wuffs-c emitted.

import (
	"debug/elf"
	"encoding/binary"
	"fmt"
	"sort"
	"strings"
)

type objSym struct {
	Name    string
	Global  bool // STB_GLOBAL or STB_WEAK
	Func    bool
	Object  bool
	TLS     bool
	Common  bool
	Section string
	Value   uint64
	Size    uint64
	Shndx   elf.SectionIndex
}

type objSection struct {
	Name  string
	Size  uint64
	Write bool
	Alloc bool
	Exec  bool
	TLS   bool
	Type  elf.SectionType
}

type callSite struct {
	Target    string // undefined symbol referenced
	Enclosing string // defined symbol (function/object) containing the relocation site, "" if none
	Section   string
}

type objInfo struct {
	Path     string
	Sections []objSection
	Defined  []objSym
	Undef    []string
	Sites    []callSite // relocation sites that reference an UNDEFINED symbol
}

func inspectObject(path string) (*objInfo, error) {
	f, err := elf.Open(path)
	if err != nil {
		return nil, err
	}
	defer f.Close()
	if f.Type != elf.ET_REL {
		return nil, fmt.Errorf("%s: not a relocatable object", path)
	}
	oi := &objInfo{Path: path}
	for _, s := range f.Sections {
		oi.Sections = append(oi.Sections, objSection{
			Name:  s.Name,
			Size:  s.Size,
			Write: s.Flags&elf.SHF_WRITE != 0,
			Alloc: s.Flags&elf.SHF_ALLOC != 0,
			Exec:  s.Flags&elf.SHF_EXECINSTR != 0,
			TLS:   s.Flags&elf.SHF_TLS != 0,
			Type:  s.Type,
		})
	}
	syms, err := f.Symbols()
	if err != nil {
		return nil, err
	}
	undefSet := map[string]bool{}
	// per-section sorted list of defined symbols, to find the enclosing one.
	bySec := map[elf.SectionIndex][]objSym{}
	all := make([]objSym, len(syms)) // index i <-> ELF symbol index i+1
	for i, s := range syms {
		typ := elf.ST_TYPE(s.Info)
		bind := elf.ST_BIND(s.Info)
		os := objSym{
			Name:   s.Name,
			Global: bind == elf.STB_GLOBAL || bind == elf.STB_WEAK,
			Func:   typ == elf.STT_FUNC || typ == elf.STT_GNU_IFUNC,
			Object: typ == elf.STT_OBJECT,
			TLS:    typ == elf.STT_TLS,
			Common: s.Section == elf.SHN_COMMON || typ == elf.STT_COMMON,
			Value:  s.Value,
			Size:   s.Size,
			Shndx:  s.Section,
		}
		if s.Section != elf.SHN_UNDEF && s.Section < elf.SHN_LORESERVE && int(s.Section) < len(f.Sections) {
			os.Section = f.Sections[s.Section].Name
		}
		all[i] = os
		if typ == elf.STT_SECTION || typ == elf.STT_FILE {
			continue
		}
		if s.Section == elf.SHN_UNDEF {
			if s.Name != "" {
				undefSet[s.Name] = true
			}
			continue
		}
		if s.Name == "" {
			continue
		}
		oi.Defined = append(oi.Defined, os)
		bySec[s.Section] = append(bySec[s.Section], os)
	}
	for k := range bySec {
		l := bySec[k]
		sort.Slice(l, func(i, j int) bool { return l[i].Value < l[j].Value })
	}
	for n := range undefSet {
		oi.Undef = append(oi.Undef, n)
	}
	sort.Strings(oi.Undef)

	// Relocations: map every site that references an undefined symbol to the
	// enclosing defined symbol of the section the relocation applies to.
	for _, rs := range f.Sections {
		if rs.Type != elf.SHT_RELA && rs.Type != elf.SHT_REL {
			continue
		}
		target := elf.SectionIndex(rs.Info)
		if int(target) >= len(f.Sections) {
			continue
		}
		tsec := f.Sections[target]
		if tsec.Flags&elf.SHF_ALLOC == 0 {
			continue // debug info etc.
		}
		data, err := rs.Data()
		if err != nil {
			return nil, err
		}
		entsize := 24
		if rs.Type == elf.SHT_REL {
			entsize = 16
		}
		if f.Class != elf.ELFCLASS64 {
			return nil, fmt.Errorf("only ELF64 supported")
		}
		for off := 0; off+entsize <= len(data); off += entsize {
			rOff := f.ByteOrder.Uint64(data[off:])
			info := f.ByteOrder.Uint64(data[off+8:])
			symIdx := int(info >> 32)
			if symIdx == 0 || symIdx > len(all) {
				continue
			}
			sym := all[symIdx-1]
			if sym.Shndx != elf.SHN_UNDEF || sym.Name == "" {
				continue
			}
			enc := ""
			for _, d := range bySec[target] {
				if !(d.Func || d.Object) {
					continue
				}
				if d.Value <= rOff && rOff < d.Value+d.Size {
					enc = d.Name
					if d.Func {
						break
					}
				}
			}
			oi.Sites = append(oi.Sites, callSite{Target: sym.Name, Enclosing: enc, Section: tsec.Name})
		}
	}
	_ = binary.LittleEndian
	return oi, nil
}

// exportedFuncs returns the names of defined global FUNCTION symbols.
func (oi *objInfo) exportedFuncs() []string {
	var l []string
	for _, d := range oi.Defined {
		if d.Global && d.Func {
			l = append(l, d.Name)
		}
	}
	sort.Strings(l)
	return l
}

func (oi *objInfo) exportedObjects() []objSym {
	var l []objSym
	for _, d := range oi.Defined {
		if d.Global && !d.Func {
			l = append(l, d)
		}
	}
	sort.Slice(l, func(i, j int) bool { return l[i].Name < l[j].Name })
	return l
}

func (oi *objInfo) definedGlobals() []string {
	var l []string
	for _, d := range oi.Defined {
		if d.Global {
			l = append(l, d.Name)
		}
	}
	sort.Strings(l)
	return l
}

// The four libc memory functions the property allows, the two allocator
// functions it allows from the alloc helpers only, and the names a C compiler
// may add on its own (tolerated, counted, justified here):
//   __stack_chk_fail / __stack_chk_guard  stack-protector instrumentation (distro default flags)
//   _GLOBAL_OFFSET_TABLE_                 PIC addressing of the GOT, not a call
//   bcmp                                  LLVM rewrites `memcmp(..)==0` into bcmp (same contract as memcmp)
var memFuncs = map[string]bool{"memcpy": true, "memmove": true, "memset": true, "memcmp": true}
var allocFuncs = map[string]bool{"calloc": true, "free": true}
var compilerAdded = map[string]bool{"__stack_chk_fail": true, "__stack_chk_guard": true, "_GLOBAL_OFFSET_TABLE_": true, "bcmp": true}

// writableViolations applies the documented section rule.
//
// Rule: a section with SHF_ALLOC and (SHF_WRITE or SHF_TLS) must have size 0,
// except that in a position-independent build the sections `.data.rel.ro` /
// `.data.rel.ro.*` may be non-empty: they hold `const` objects whose
// initialisers contain addresses; the link editor puts them in the PT_GNU_RELRO
// segment, which the loader write-protects after applying relocations, and
// the same objects land in `.rodata` when compiled with -fno-pic (the harness
// also makes that build, where no exception applies at all).  `.data.rel.local`
// and `.data.rel` are NOT excepted: they stay writable.  Also rejected: any
// STT_TLS or SHN_COMMON symbol, `.init_array`/`.ctors`-style sections (they
// are SHF_WRITE and therefore covered by the rule).
func (oi *objInfo) writableViolations(pic bool) []string {
	var v []string
	for _, s := range oi.Sections {
		if !s.Alloc || s.Size == 0 {
			continue
		}
		if s.TLS {
			v = append(v, fmt.Sprintf("tls-section %s size=%d", s.Name, s.Size))
			continue
		}
		if s.Write {
			if pic && (s.Name == ".data.rel.ro" || strings.HasPrefix(s.Name, ".data.rel.ro.")) {
				continue
			}
			v = append(v, fmt.Sprintf("writable-section %s size=%d", s.Name, s.Size))
		}
	}
	for _, d := range oi.Defined {
		if d.TLS {
			v = append(v, "tls-symbol "+d.Name)
		}
		if d.Common {
			v = append(v, "common-symbol "+d.Name)
		}
	}
	return v
}

// symbolsIn lists the defined symbols living in writable, non-relro sections
// (to name the culprit in a failure message).
func (oi *objInfo) symbolsInWritable(pic bool) []string {
	bad := map[string]bool{}
	for _, s := range oi.Sections {
		if s.Alloc && s.Size > 0 && (s.Write || s.TLS) {
			if pic && (s.Name == ".data.rel.ro" || strings.HasPrefix(s.Name, ".data.rel.ro.")) {
				continue
			}
			bad[s.Name] = true
		}
	}
	var l []string
	for _, d := range oi.Defined {
		if bad[d.Section] && d.Size > 0 {
			l = append(l, d.Name)
		}
	}
	sort.Strings(l)
	return l
}

// stripGccSuffix maps `foo.part.0`, `foo.cold`, `foo.constprop.0`, `foo.isra.0` to foo.
func stripGccSuffix(s string) string {
	if i := strings.IndexByte(s, '.'); i > 0 {
		return s[:i]
	}
	return s
}

func isAllocHelper(sym string) bool {
	s := stripGccSuffix(sym)
	return strings.HasPrefix(s, "wuffs_") && strings.HasSuffix(s, "__alloc")
}
