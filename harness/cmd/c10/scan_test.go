package main

import (
	"os"
	"testing"
)

func TestScanLocalStatic(t *testing.T) {
	src := `
static const int A[2] = {1, 2};
int f(void) {
  static struct { int x; const char* m; } table[] = { {1, "a"} };
  static const int n = 3;
  if (n) { static int counter; counter++; }
  return table[0].x;
}
WUFFS_BASE__MAYBE_STATIC int g(int a) { return a; }
`
	ds, err := scanC(src)
	if err != nil {
		t.Fatal(err)
	}
	got := map[string]bool{}
	for _, d := range ds {
		if d.Kind == "l" {
			got[d.Name] = d.Const
		}
	}
	if c, ok := got["table"]; !ok || c {
		t.Errorf("table: %v %v", c, ok)
	}
	if c, ok := got["n"]; !ok || !c {
		t.Errorf("n: %v %v", c, ok)
	}
	if c, ok := got["counter"]; !ok || c {
		t.Errorf("counter: %v %v", c, ok)
	}
	if p := os.Getenv("C10_TEST_BASE"); p != "" {
		b, _ := os.ReadFile(p)
		ds, _ := scanC(string(b))
		for _, d := range ds {
			if d.Kind == "l" {
				t.Logf("local static %s const=%v line %d", d.Name, d.Const, d.Line)
			}
		}
	}
}
