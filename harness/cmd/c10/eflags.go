package main

// The `eflags` / `sflags` ops: a unit-level tie of Model/EffectFlags.lean
// (`Expr.flags`, `SRef.flags`) to the REAL lang/ast `NewExpr`.  The harness
// builds, with ast.NewExpr / ast.NewArg, the very nodes the parser builds for
// the rendered text of an expression of the effect fragment (parse.go
// parseExpr1 / parseOperand: binary node = NewExpr(0, op, 0, lhs, nil, rhs, nil);
// call = NewExpr(mark, "(", 0, lhs, nil, nil, args); slice =
// NewExpr(0, "..", 0, lhs, mhs, rhs, nil)) — WITHOUT the parser's rejections,
// so that the flags of effect-ful trees are observable — and reports
// `Effect()` and `SubExprHasEffect()` of the root.

import (
	"fmt"

	a "github.com/google/wuffs/lang/ast"
	t "github.com/google/wuffs/lang/token"

	"wvh/hlib"
)

func astLeaf() *a.Expr { return a.NewExpr(0, 0, t.IDThis, nil, nil, nil, nil) }

func astSelector(lhs *a.Expr) *a.Expr {
	return a.NewExpr(0, a.ExprOperatorSelector, t.IDArgs, lhs.AsNode(), nil, nil, nil)
}

func astBinary(op t.ID, l, r *a.Expr) *a.Expr {
	return a.NewExpr(0, op, 0, l.AsNode(), nil, r.AsNode(), nil)
}

func (e *eExpr) ast() *a.Expr {
	switch e.k {
	case "add":
		return astBinary(t.IDXBinaryTildeModPlus, e.l.ast(), e.r.ast())
	case "call":
		fl := a.Flags(0)
		if e.mark == "impure" {
			fl = a.EffectImpure.AsFlags()
		}
		args := []*a.Node{
			a.NewArg(t.IDArgs, e.l.ast()).AsNode(),
			a.NewArg(t.IDArgs, astLeaf()).AsNode(),
			a.NewArg(t.IDArgs, astLeaf()).AsNode(),
			a.NewArg(t.IDArgs, astSelector(astLeaf())).AsNode(),
		}
		return a.NewExpr(fl, a.ExprOperatorCall, 0, astSelector(astLeaf()).AsNode(), nil, nil, args)
	case "lit", "arr":
		// `(n as base.u32)`, `(this.arr<f>[i] as base.u32)`: an `as` node over a leaf / index node
		return a.NewExpr(0, t.IDXBinaryAs, 0, astLeaf().AsNode(), nil, nil, nil)
	}
	return astLeaf()
}

func astBound(e *eExpr) *a.Node {
	if e == nil {
		return nil
	}
	if e.k == "call" {
		return e.ast().AsNode()
	}
	return astBinary(t.IDXBinaryAmp, e.ast(), astLeaf()).AsNode() // `(e & 3)`; `((e & 1) + 3)` adds one more level with the same flags
}

func (s eSRef) ast() *a.Expr {
	switch s.k {
	case "ss":
		return a.NewExpr(0, a.ExprOperatorSlice, 0, astSelector(astLeaf()).AsNode(), astBound(s.lo), astBound(s.hi), nil)
	case "sf":
		return a.NewExpr(0, a.ExprOperatorSlice, 0, astSelector(astLeaf()).AsNode(), nil, nil, nil)
	case "pal":
		return a.NewExpr(0, a.ExprOperatorCall, 0, astSelector(astSelector(astLeaf())).AsNode(), nil, nil, nil)
	}
	return astLeaf()
}

func flagsStr(n *a.Expr) string {
	e := "pure"
	if n.Effect() != 0 {
		e = "impure"
		if !n.Effect().Impure() || n.Effect().Coroutine() {
			e = fmt.Sprintf("other-%d", n.Effect())
		}
	}
	s := 0
	if n.SubExprHasEffect() {
		s = 1
	}
	return fmt.Sprintf("%s %d", e, s)
}

// walk every expression and slice reference of a program once
func (s *eStmt) eachExpr(fe func(*eExpr), fs func(eSRef)) {
	if s == nil {
		return
	}
	if s.e != nil {
		fe(s.e)
	}
	switch s.k {
	case "setbuf", "bind":
		fs(s.s)
	case "copy":
		fs(s.d)
		fs(s.s)
	}
	s.a.eachExpr(fe, fs)
	s.b.eachExpr(fe, fs)
}

// emitFlagOps emits one `eflags` / `sflags` op per distinct expression / slice
// reference of the given programs.
func emitFlagOps(r *hlib.Run, progs [][]eMethod) {
	seen := map[string]bool{}
	fe := func(e *eExpr) {
		k := "eflags " + e.tokens()
		if seen[k] {
			return
		}
		seen[k] = true
		out := hlib.Guard(func() string { return flagsStr(e.ast()) })
		r.Op(k, out)
		r.Count("eflags:" + out)
	}
	fs := func(s eSRef) {
		k := "sflags " + s.tokens()
		if seen[k] {
			return
		}
		seen[k] = true
		out := hlib.Guard(func() string { return flagsStr(s.ast()) })
		r.Op(k, out)
		r.Count("sflags:" + out)
		if s.k == "ss" {
			if s.lo != nil {
				fe(s.lo)
			}
			if s.hi != nil {
				fe(s.hi)
			}
		}
	}
	for _, ms := range progs {
		for _, m := range ms {
			m.body.eachExpr(fe, fs)
			fe(m.result)
		}
	}
}
