package main

// C drivers for the pure-method clause: memcmp snapshots of the whole
// receiver object and of every buffer around each call of a method declared
// pure, in many receiver states.  The drivers are generated from the package
// summaries (i.e. from what the REAL parser says is pure).

import (
	"fmt"
	"sort"
	"strings"
)

const driverPrelude = `
#include <stdio.h>
#include <stdlib.h>
#include <string.h>

static uint64_t rng_s;
static uint64_t rnd(void) {
  rng_s += 0x9E3779B97F4A7C15ull;
  uint64_t z = rng_s;
  z = (z ^ (z >> 30)) * 0xBF58476D1CE4E5B9ull;
  z = (z ^ (z >> 27)) * 0x94D049BB133111EBull;
  return z ^ (z >> 31);
}
static uint64_t rndn(uint64_t n) { return n ? (rnd() % n) : 0; }

// ---- watched memory regions: everything a callee could conceivably reach.
#define MAXREG 16
static struct { const void* p; size_t n; uint8_t* snap; } regs[MAXREG];
static int nregs;
static void watch_reset(void) {
  for (int i = 0; i < nregs; i++) free(regs[i].snap);
  nregs = 0;
}
static void watch(const void* p, size_t n) {
  if (nregs >= MAXREG) { printf("FATAL too many regions\n"); exit(3); }
  regs[nregs].p = p; regs[nregs].n = n; regs[nregs].snap = (uint8_t*)malloc(n ? n : 1);
  nregs++;
}
static void snap(void) {
  for (int i = 0; i < nregs; i++) memcpy(regs[i].snap, regs[i].p, regs[i].n);
}
// returns index+1 of the first region that differs, 0 if none
static int differs(void) {
  for (int i = 0; i < nregs; i++)
    if (memcmp(regs[i].snap, regs[i].p, regs[i].n) != 0) return i + 1;
  return 0;
}
`

func cArgFor(typ string) (expr string, ok bool) {
	switch typ {
	case "base.u8":
		return "(uint8_t)rnd()", true
	case "base.u16":
		return "(uint16_t)rnd()", true
	case "base.u32":
		return "(uint32_t)(rndn(4) ? rndn(64) : rnd())", true
	case "base.u64":
		return "(uint64_t)rnd()", true
	case "base.bool":
		return "(bool)(rnd() & 1)", true
	case "slice base.u8", "roslice base.u8":
		return "wuffs_base__make_slice_u8(bufs[rndn(NBUF)], (size_t)rndn(BUFLEN + 1))", true
	case "base.io_reader":
		return "mk_reader()", true
	case "ptr base.pixel_buffer":
		return "mk_pb()", true
	}
	return "", false
}

func cTypeFor(typ string) string {
	switch typ {
	case "base.u8":
		return "uint8_t"
	case "base.u16":
		return "uint16_t"
	case "base.u32":
		return "uint32_t"
	case "base.u64":
		return "uint64_t"
	case "base.bool":
		return "bool"
	case "slice base.u8", "roslice base.u8":
		return "wuffs_base__slice_u8"
	case "base.io_reader":
		return "wuffs_base__io_buffer*"
	case "ptr base.pixel_buffer":
		return "wuffs_base__pixel_buffer*"
	}
	return "int"
}

// genPkgDriver: a driver TU that #includes the generated package C (so that
// `static` = pri functions are callable too) and exercises every method of
// every classy struct.
func genPkgDriver(s *pkgSum, snapshotPath, pkgCPath string, seed uint64, steps int) (string, int) {
	var b strings.Builder
	w := func(f string, a ...interface{}) { fmt.Fprintf(&b, f, a...) }
	w("#define WUFFS_IMPLEMENTATION\n#define WUFFS_CONFIG__MODULES\n#define WUFFS_CONFIG__MODULE__BASE__CORE\n#define WUFFS_CONFIG__MODULE__BASE__INTERFACES\n#define WUFFS_CONFIG__MODULE__%s\n", strings.ToUpper(s.Name))
	w("#include \"%s\"\n#include \"%s\"\n", snapshotPath, pkgCPath)
	b.WriteString(driverPrelude)
	w(`
#define NBUF 3
#define BUFLEN 48
static uint8_t bufs[NBUF][BUFLEN];
static uint8_t iodata[BUFLEN];
static wuffs_base__io_buffer iob;
static wuffs_base__io_buffer* mk_reader(void) {
  iob.data.ptr = iodata; iob.data.len = BUFLEN;
  iob.meta.wi = (size_t)rndn(BUFLEN + 1);
  iob.meta.ri = (size_t)rndn(iob.meta.wi + 1);
  iob.meta.pos = 0; iob.meta.closed = (bool)(rnd() & 1);
  return &iob;
}
static uint8_t pixmem[1024 + 64];
static wuffs_base__pixel_buffer pbuf;
static wuffs_base__pixel_buffer* mk_pb(void) {
  wuffs_base__pixel_config cfg;
  memset(&cfg, 0, sizeof(cfg));
  wuffs_base__pixel_config__set(&cfg, WUFFS_BASE__PIXEL_FORMAT__INDEXED__BGRA_BINARY, WUFFS_BASE__PIXEL_SUBSAMPLING__NONE, 4, 4);
  wuffs_base__status s = wuffs_base__pixel_buffer__set_from_slice(&pbuf, &cfg, wuffs_base__make_slice_u8(pixmem, sizeof(pixmem)));
  if (s.repr) { printf("FATAL pixel buffer: %s\n", s.repr); exit(3); }
  return &pbuf;
}
`)
	skipped := 0
	structs := []string{}
	for _, st := range s.Structs {
		if !st.Classy {
			continue
		}
		structs = append(structs, st.Name)
		T := "wuffs_" + s.Name + "__" + st.Name
		var pures, impures []funcSum
		for _, f := range s.Funcs {
			if f.Recv != st.Name || f.CPUArch {
				continue
			}
			okArgs := true
			for _, a := range f.Args {
				if _, ok := cArgFor(a.Type); !ok {
					okArgs = false
				}
			}
			if !okArgs {
				skipped++
				continue
			}
			if f.Effect == "pure" {
				pures = append(pures, f)
			} else {
				impures = append(impures, f)
			}
		}
		// call(): arguments are evaluated BEFORE the snapshot (building an
		// io_buffer / pixel_buffer argument writes to watched memory).
		call := func(f funcSum, cname string, after string) string {
			var pre strings.Builder
			args := []string{"o"}
			for i, a := range f.Args {
				e, _ := cArgFor(a.Type)
				fmt.Fprintf(&pre, "%s a%d_ = %s; ", cTypeFor(a.Type), i, e)
				args = append(args, fmt.Sprintf("a%d_", i))
			}
			c := fmt.Sprintf("%s(%s)", cname, strings.Join(args, ", "))
			if f.Effect == "coro" || f.Out == "base.status" {
				c = "wuffs_base__status st_ = " + c + "; (void)st_;"
			} else {
				c = "(void)" + c + ";"
			}
			return "{ " + pre.String() + "snap(); " + c + " " + after + " }"
		}
		w("\nstatic void test_%s(void) {\n", st.Name)
		w("  %s* o = (%s*)malloc(sizeof(%s));\n", T, T, T)
		w("  memset(o, 0xA5, sizeof(%s));\n", T)
		w("  wuffs_base__status is = %s__initialize(o, sizeof(%s), WUFFS_VERSION, (rnd() & 1) ? WUFFS_INITIALIZE__LEAVE_INTERNAL_BUFFERS_UNINITIALIZED : 0);\n", T, T)
		w("  if (is.repr) { printf(\"FATAL initialize %s: %%s\\n\", is.repr); exit(3); }\n", st.Name)
		w("  watch_reset(); watch(o, sizeof(%s)); watch(bufs, sizeof(bufs)); watch(iodata, sizeof(iodata)); watch(&iob, sizeof(iob)); (void)mk_reader(); (void)mk_pb(); watch(pixmem, sizeof(pixmem)); watch(&pbuf, sizeof(pbuf));\n", T)
		np, ni := len(pures), len(impures)
		// choosy functions have two C entry points
		type ent struct {
			f     funcSum
			cname string
			label string
		}
		var pe, ie []ent
		for _, f := range pures {
			pe = append(pe, ent{f, f.cName(s.Name), f.Name})
			if f.Choosy {
				pe = append(pe, ent{f, f.cName(s.Name) + "__choosy_default", f.Name + "__choosy_default"})
			}
		}
		for _, f := range impures {
			ie = append(ie, ent{f, f.cName(s.Name), f.Name})
		}
		_ = np
		_ = ni
		w("  static unsigned long pc[%d], pd[%d], ic[%d], ich[%d];\n", len(pe)+1, len(pe)+1, len(ie)+1, len(ie)+1)
		w("  for (int step = 0; step < %d; step++) {\n", steps)
		w("    for (int i = 0; i < NBUF; i++) for (int j = 0; j < BUFLEN; j++) if (!rndn(8)) bufs[i][j] = (uint8_t)rnd();\n")
		w("    for (int j = 0; j < BUFLEN; j++) if (!rndn(8)) iodata[j] = (uint8_t)rnd();\n")
		if len(ie) > 0 {
			w("    switch (rndn(%d)) {\n", len(ie)+1)
			for i, e := range ie {
				w("      case %d: %s break;\n", i, call(e.f, e.cname, fmt.Sprintf("ic[%d]++; if (differs()) ich[%d]++;", i, i)))
			}
			w("      default: break;\n    }\n")
		}
		for i, e := range pe {
			w("    %s\n", call(e.f, e.cname, fmt.Sprintf("pc[%d]++; if (differs()) pd[%d]++;", i, i)))
		}
		w("  }\n")
		for i, e := range pe {
			w("  printf(\"P %s.%s calls=%%lu diffs=%%lu\\n\", pc[%d], pd[%d]);\n", st.Name, e.label, i, i)
		}
		for i, e := range ie {
			w("  printf(\"I %s.%s calls=%%lu changed=%%lu\\n\", ic[%d], ich[%d]);\n", st.Name, e.label, i, i)
		}
		w("  free(o);\n}\n")
	}
	w("\nint main(void) {\n  rng_s = %dull;\n", seed)
	for _, n := range structs {
		w("  test_%s();\n", n)
	}
	w("  printf(\"DONE\\n\");\n  return 0;\n}\n")
	return b.String(), skipped
}

// ---- std driver

type stdStruct struct {
	Pkg, Name string
	Iface     string // image_decoder | io_transformer | token_decoder | hasher_u32 | hasher_u64 | hasher_bitvec256
	Pures     []funcSum
	Impures   []funcSum // pub impure non-coroutine methods with scalar args (detector sanity)
}

func stdStructs(sums map[string]*pkgSum, names []string) []stdStruct {
	var out []stdStruct
	for _, pn := range names {
		s := sums[pn]
		for _, st := range s.Structs {
			if !st.Pub || !st.Classy {
				continue
			}
			ss := stdStruct{Pkg: pn, Name: st.Name}
			for _, im := range st.Implements {
				ss.Iface = strings.TrimPrefix(im, "wuffs_base__")
			}
			for _, f := range s.Funcs {
				if f.Recv != st.Name || !f.Pub {
					continue
				}
				ok := true
				for _, a := range f.Args {
					if a.Type != "base.u32" && a.Type != "base.u64" && a.Type != "base.bool" {
						ok = false
					}
				}
				if !ok {
					continue
				}
				if f.Effect == "pure" {
					ss.Pures = append(ss.Pures, f)
				} else if f.Effect == "impure" && f.Out != "base.status" && f.Name != "set_quirk" {
					// (set_quirk returns a status; handled like the rest but kept
					// out: many decoders reject every key.)
					ss.Impures = append(ss.Impures, f)
				} else if f.Effect == "impure" {
					ss.Impures = append(ss.Impures, f)
				}
			}
			out = append(out, ss)
		}
	}
	sort.Slice(out, func(i, j int) bool {
		if out[i].Pkg != out[j].Pkg {
			return out[i].Pkg < out[j].Pkg
		}
		return out[i].Name < out[j].Name
	})
	return out
}

// genStdDriver: links against the whole-library object (all.o); the snapshot
// is included as a header only, so receivers are opaque and sized by
// sizeof__T().  argv: seed, then one data file per struct (or "-").
func genStdDriver(structs []stdStruct, snapshotPath string) string {
	var b strings.Builder
	w := func(f string, a ...interface{}) { fmt.Fprintf(&b, f, a...) }
	w("#include \"%s\"\n", snapshotPath)
	b.WriteString(driverPrelude)
	w(`
static uint8_t* g_src; static size_t g_srclen;
static uint8_t* g_dst; static size_t g_dstlen;
static uint8_t* g_work; static size_t g_worklen;
static uint8_t* g_pix; static size_t g_pixlen;
static wuffs_base__token* g_tok; static size_t g_toklen;
static wuffs_base__io_buffer g_srcbuf, g_dstbuf;
static wuffs_base__token_buffer g_tokbuf;
static wuffs_base__pixel_buffer g_pb;
static wuffs_base__image_config g_ic;
static wuffs_base__frame_config g_fc;

static void load(const char* path) {
  free(g_src); g_src = NULL; g_srclen = 0;
  if (strcmp(path, "-") == 0) {
    g_srclen = 64 + (size_t)rndn(512);
    g_src = (uint8_t*)malloc(g_srclen);
    for (size_t i = 0; i < g_srclen; i++) g_src[i] = (uint8_t)rnd();
    return;
  }
  FILE* f = fopen(path, "rb");
  if (!f) { printf("FATAL cannot open %%s\n", path); exit(3); }
  fseek(f, 0, SEEK_END); long n = ftell(f); fseek(f, 0, SEEK_SET);
  g_src = (uint8_t*)malloc(n ? n : 1);
  if (fread(g_src, 1, n, f) != (size_t)n) { printf("FATAL read\n"); exit(3); }
  fclose(f);
  g_srclen = (size_t)n;
}

static unsigned long n_ok, n_susp, n_note, n_err;
`)
	for si, st := range structs {
		T := "wuffs_" + st.Pkg + "__" + st.Name
		w("\n// ---- %s.%s (%s)\n", st.Pkg, st.Name, st.Iface)
		w("static unsigned long pc_%d[%d], pd_%d[%d], ic_%d[%d], ich_%d[%d];\n", si, len(st.Pures)+1, si, len(st.Pures)+1, si, len(st.Impures)+1, si, len(st.Impures)+1)
		w("static void pures_%d(%s* o) {\n", si, T)
		for i, f := range st.Pures {
			args := []string{"o"}
			for _, a := range f.Args {
				switch a.Type {
				case "base.u32":
					args = append(args, "(uint32_t)(rndn(2) ? rnd() : rndn(16))")
				case "base.u64":
					args = append(args, "(uint64_t)rnd()")
				default:
					args = append(args, "(bool)(rnd()&1)")
				}
			}
			w("  snap(); (void)%s(%s); pc_%d[%d]++; if (differs()) pd_%d[%d]++;\n", f.cName(st.Pkg), strings.Join(args, ", "), si, i, si, i)
		}
		w("}\n")
		w("static void impure_%d(%s* o) {\n  switch (rndn(%d)) {\n", si, T, len(st.Impures)+2)
		for i, f := range st.Impures {
			args := []string{"o"}
			for _, a := range f.Args {
				switch a.Type {
				case "base.u32":
					args = append(args, "(uint32_t)rndn(4)")
				case "base.u64":
					args = append(args, "(uint64_t)rndn(4)")
				default:
					args = append(args, "(bool)(rnd()&1)")
				}
			}
			c := fmt.Sprintf("%s(%s)", f.cName(st.Pkg), strings.Join(args, ", "))
			if f.Out == "base.status" {
				c = "{ wuffs_base__status s_ = " + c + "; (void)s_; }"
			} else {
				c = "(void)" + c + ";"
			}
			w("    case %d: snap(); %s ic_%d[%d]++; if (differs()) ich_%d[%d]++; break;\n", i, c, si, i, si, i)
		}
		w("    default: break;\n  }\n}\n")
		w("static void test_%d(const char* path) {\n", si)
		w("  load(path);\n")
		w("  for (int round = 0; round < ROUNDS; round++) {\n")
		w("    size_t osz = sizeof__%s();\n", T)
		w("    %s* o = (%s*)malloc(osz);\n", T, T)
		w("    memset(o, 0x5A, osz);\n")
		w("    wuffs_base__status is = %s__initialize(o, osz, WUFFS_VERSION, (rnd() & 1) ? WUFFS_INITIALIZE__LEAVE_INTERNAL_BUFFERS_UNINITIALIZED : 0);\n", T)
		w("    if (is.repr) { printf(\"FATAL initialize %s.%s: %%s\\n\", is.repr); exit(3); }\n", st.Pkg, st.Name)
		w("    g_srcbuf = wuffs_base__ptr_u8__reader(g_src, 0, false);\n    g_srcbuf.data.len = g_srclen;\n")
		w("    g_dstbuf = wuffs_base__ptr_u8__writer(g_dst, g_dstlen);\n")
		w("    g_tokbuf = wuffs_base__slice_token__writer(wuffs_base__make_slice_token(g_tok, g_toklen));\n")
		w("    memset(&g_pb, 0, sizeof(g_pb)); memset(&g_ic, 0, sizeof(g_ic)); memset(&g_fc, 0, sizeof(g_fc));\n")
		w("    watch_reset(); watch(o, osz); watch(g_src, g_srclen); watch(&g_srcbuf, sizeof(g_srcbuf)); watch(g_dst, g_dstlen); watch(&g_dstbuf, sizeof(g_dstbuf));\n")
		w("    watch(g_work, g_worklen); watch(g_pix, g_pixlen); watch(&g_pb, sizeof(g_pb)); watch(g_tok, g_toklen * sizeof(wuffs_base__token)); watch(&g_tokbuf, sizeof(g_tokbuf));\n")
		w("    watch(&g_ic, sizeof(g_ic)); watch(&g_fc, sizeof(g_fc));\n")
		w("    pures_%d(o);\n", si)
		w("    int phase = 0; int have_pb = 0;\n")
		w("    wuffs_base__slice_u8 work = wuffs_base__make_slice_u8(g_work, g_worklen);\n")
		w("    for (int step = 0; step < STEPS; step++) {\n")
		w("      if (!rndn(4)) impure_%d(o);\n", si)
		w("      // reveal more input\n")
		w("      if (g_srcbuf.meta.wi < g_srclen) { size_t more = 1 + (size_t)rndn(rndn(3) ? 16 : 4096); if (more > g_srclen - g_srcbuf.meta.wi) more = g_srclen - g_srcbuf.meta.wi; g_srcbuf.meta.wi += more; }\n")
		w("      if (g_srcbuf.meta.wi == g_srclen) g_srcbuf.meta.closed = true;\n")
		w("      wuffs_base__status st = wuffs_base__make_status(NULL);\n")
		switch st.Iface {
		case "hasher_u32", "hasher_u64", "hasher_bitvec256":
			w("      { size_t n = g_srcbuf.meta.wi - g_srcbuf.meta.ri; (void)wuffs_base__%s__update(%s__upcast_as__wuffs_base__%s(o), wuffs_base__make_slice_u8(g_src + g_srcbuf.meta.ri, n)); g_srcbuf.meta.ri += n; (void)phase; (void)have_pb; (void)work; }\n", st.Iface, T, st.Iface)
		case "io_transformer":
			w("      st = wuffs_base__io_transformer__transform_io(%s__upcast_as__wuffs_base__io_transformer(o), &g_dstbuf, &g_srcbuf, work);\n", T)
			w("      if (st.repr == wuffs_base__suspension__short_write) { g_dstbuf.meta.ri = g_dstbuf.meta.wi; wuffs_base__io_buffer__compact(&g_dstbuf); }\n")
			w("      (void)phase; (void)have_pb;\n")
		case "token_decoder":
			w("      st = wuffs_base__token_decoder__decode_tokens(%s__upcast_as__wuffs_base__token_decoder(o), &g_tokbuf, &g_srcbuf, work);\n", T)
			w("      if (st.repr == wuffs_base__suspension__short_write) { g_tokbuf.meta.ri = g_tokbuf.meta.wi; wuffs_base__token_buffer__compact(&g_tokbuf); }\n")
			w("      (void)phase; (void)have_pb;\n")
		case "image_decoder":
			w("      wuffs_base__image_decoder* d = %s__upcast_as__wuffs_base__image_decoder(o);\n", T)
			w(`      if (phase == 0) {
        st = wuffs_base__image_decoder__decode_image_config(d, &g_ic, &g_srcbuf);
        if (st.repr == NULL) {
          phase = 1;
          uint32_t wd = wuffs_base__pixel_config__width(&g_ic.pixcfg), ht = wuffs_base__pixel_config__height(&g_ic.pixcfg);
          if (wd && ht && ((uint64_t)wd * ht * 4 <= g_pixlen)) {
            wuffs_base__pixel_config__set(&g_ic.pixcfg, WUFFS_BASE__PIXEL_FORMAT__BGRA_NONPREMUL, WUFFS_BASE__PIXEL_SUBSAMPLING__NONE, wd, ht);
            wuffs_base__status ps = wuffs_base__pixel_buffer__set_from_slice(&g_pb, &g_ic.pixcfg, wuffs_base__make_slice_u8(g_pix, g_pixlen));
            have_pb = (ps.repr == NULL);
          }
        }
      } else if (phase == 1) {
        st = wuffs_base__image_decoder__decode_frame_config(d, &g_fc, &g_srcbuf);
        if (st.repr == NULL) phase = 2;
      } else if (have_pb) {
        st = wuffs_base__image_decoder__decode_frame(d, &g_pb, &g_srcbuf, WUFFS_BASE__PIXEL_BLEND__SRC, work, NULL);
        if (st.repr == NULL) phase = 1;
      }
`)
		default:
			w("      (void)phase; (void)have_pb; (void)work;\n")
		}
		w("      pures_%d(o);\n", si)
		w("      if (!st.repr) n_ok++; else if (wuffs_base__status__is_suspension(&st)) n_susp++; else if (wuffs_base__status__is_note(&st)) n_note++; else n_err++;\n")
		w("      if (st.repr && !wuffs_base__status__is_suspension(&st)) { if (!rndn(2)) break; }\n")
		w("    }\n    free(o);\n  }\n")
		for i, f := range st.Pures {
			w("  printf(\"P %s.%s.%s calls=%%lu diffs=%%lu\\n\", pc_%d[%d], pd_%d[%d]);\n", st.Pkg, st.Name, f.Name, si, i, si, i)
		}
		for i, f := range st.Impures {
			w("  printf(\"I %s.%s.%s calls=%%lu changed=%%lu\\n\", ic_%d[%d], ich_%d[%d]);\n", st.Pkg, st.Name, f.Name, si, i, si, i)
		}
		w("}\n")
	}
	w(`
int main(int argc, char** argv) {
  if (argc != %d) { printf("FATAL argc=%%d\n", argc); return 3; }
  rng_s = strtoull(argv[1], NULL, 10);
  g_dstlen = 1 << 16; g_dst = (uint8_t*)calloc(g_dstlen, 1);
  g_worklen = 1 << 20; g_work = (uint8_t*)calloc(g_worklen, 1);
  g_pixlen = 1 << 20; g_pix = (uint8_t*)calloc(g_pixlen, 1);
  g_toklen = 256; g_tok = (wuffs_base__token*)calloc(g_toklen, sizeof(wuffs_base__token));
`, len(structs)+2)
	for si := range structs {
		w("  test_%d(argv[%d]);\n", si, si+2)
	}
	w("  printf(\"S ok=%%lu susp=%%lu note=%%lu err=%%lu\\n\", n_ok, n_susp, n_note, n_err);\n")
	w("  printf(\"DONE\\n\");\n  return 0;\n}\n")
	return b.String()
}
