package main

// Random Wuffs packages with pub/pri mixes of statuses, consts, structs and
// funcs (pure / impure / coroutine / choosy), all of which the real compiler
// accepts.  Used for (i) the declaration tie (model `decls` vs. C scanner),
// (ii) the object-level checks, (iii) the pure-call memcmp test in C.

import (
	"fmt"
	"strings"

	"wvh/hlib"
)

type genStruct struct {
	name    string
	pub     bool
	hasher  bool
	sub     string // name of embedded helper struct ("" if none)
	methods []string
}

func vis(r *hlib.Rand, pubNum, pubDen int) string {
	if r.Chance(pubNum, pubDen) {
		return "pub"
	}
	return "pri"
}

// genPackage returns Wuffs source text for a package.
func genPackage(r *hlib.Rand, idx int) string {
	var b strings.Builder
	w := func(f string, a ...interface{}) { fmt.Fprintf(&b, f, a...) }

	// statuses
	cats := []string{"#", "@", "$"}
	words := []string{"bad header", "truncated input", "Too Much  data", "odd-thing (x)", "end of data", "short read", "i/o mismatch"}
	nst := r.Range(0, 4)
	seen := map[string]bool{}
	for i := 0; i < nst; i++ {
		msg := cats[r.Intn(3)] + words[r.Intn(len(words))]
		key := cNameGo(msg, "") + msg[:1]
		if seen[key] {
			continue
		}
		seen[key] = true
		w("%s status \"%s\"\n", vis(r, 1, 2), msg)
	}
	w("\n")

	// consts
	nk := r.Range(0, 3)
	for i := 0; i < nk; i++ {
		w("%s const K%d : base.u32 = %d\n", vis(r, 1, 2), i, r.Intn(1000))
	}
	nt := r.Range(0, 2)
	arrayConsts := []string{}
	for i := 0; i < nt; i++ {
		name := fmt.Sprintf("TAB_%d", i)
		w("%s const %s : roarray[4] base.u8 = [%d, %d, %d, %d]\n", vis(r, 1, 2), name, r.Intn(256), r.Intn(256), r.Intn(256), r.Intn(256))
		arrayConsts = append(arrayConsts, name)
	}
	if r.Chance(1, 3) {
		w("%s const GRID : roarray[2] roarray[2] base.u16 = [[%d, %d], [%d, %d]]\n", vis(r, 1, 2), r.Intn(65536), r.Intn(65536), r.Intn(65536), r.Intn(65536))
	}
	w("\n")

	// helper structs
	nh := r.Range(0, 2)
	helpers := []string{}
	for i := 0; i < nh; i++ {
		name := fmt.Sprintf("h%d", i)
		helpers = append(helpers, name)
		w("%s struct %s?(\n\thx : base.u32,\n)\n\n", vis(r, 1, 3), name)
		w("%s func %s.hget() base.u32 {\n\treturn this.hx\n}\n\n", vis(r, 1, 2), name)
		w("%s func %s.hbump!() {\n\tthis.hx ~mod+= 1\n}\n\n", vis(r, 1, 2), name)
	}

	// main structs
	ns := r.Range(1, 2)
	for i := 0; i < ns; i++ {
		name := fmt.Sprintf("s%d", i)
		pub := r.Chance(3, 4)
		hasher := pub && r.Chance(1, 2)
		sub := ""
		if len(helpers) > 0 && r.Chance(2, 3) {
			sub = helpers[r.Intn(len(helpers))]
		}
		v := "pri"
		if pub {
			v = "pub"
		}
		impl := ""
		if hasher {
			impl = " implements base.hasher_u32"
		}
		w("%s struct %s?%s(\n\tf0 : base.u32,\n\tf1 : base.u64,\n\tf2 : base.u8,\n\tarr : array[8] base.u8,\n) + (\n", v, name, impl)
		if sub != "" {
			w("\tsub : %s,\n", sub)
		}
		w("\tbig : array[32] base.u8,\n)\n\n")

		mv := func() string { return vis(r, 2, 3) }

		// pure methods
		w("%s func %s.get_f0() base.u32 {\n\treturn this.f0\n}\n\n", mv(), name)
		w("%s func %s.mix(k: base.u32) base.u32 {\n\treturn (this.f0 ~mod+ args.k) ~mod+ (this.arr[args.k & 7] as base.u32)\n}\n\n", mv(), name)
		if len(arrayConsts) > 0 && r.Chance(2, 3) {
			w("%s func %s.tab(k: base.u32) base.u32 {\n\treturn %s[args.k & 3] as base.u32\n}\n\n", mv(), name, arrayConsts[r.Intn(len(arrayConsts))])
		}
		if r.Chance(2, 3) {
			w("%s func %s.len(s: roslice base.u8) base.u64 {\n\treturn args.s.length()\n}\n\n", mv(), name)
		}
		if r.Chance(2, 3) {
			w("%s func %s.first(s: slice base.u8) base.u32 {\n\tif args.s.length() > 0 {\n\t\treturn args.s[0] as base.u32\n\t}\n\treturn this.f0\n}\n\n", mv(), name)
		}
		if sub != "" && r.Chance(2, 3) {
			w("%s func %s.viasub() base.u32 {\n\treturn this.sub.hget()\n}\n\n", mv(), name)
		}
		if r.Chance(1, 2) {
			w("%s func %s.chain() base.u32 {\n\tvar x : base.u32\n\tx = this.get_f0()\n\treturn x ~mod+ this.mix(k: 3)\n}\n\n", mv(), name)
		}
		if r.Chance(1, 2) {
			w("%s func %s.sumbig() base.u32 {\n\tvar i : base.u32\n\tvar acc : base.u32\n\twhile i < 32 {\n\t\tacc ~mod+= this.big[i] as base.u32\n\t\ti += 1\n\t}\n\treturn acc\n}\n\n", mv(), name)
		}
		if r.Chance(1, 2) {
			w("%s func %s.peek2(s: roslice base.u8) base.u32 {\n\tif args.s.length() >= 2 {\n\t\treturn args.s.peek_u16le() as base.u32\n\t}\n\treturn 0\n}\n\n", mv(), name)
		}

		// impure methods
		w("%s func %s.set_f0!(v: base.u32) {\n\tthis.f0 = args.v\n}\n\n", mv(), name)
		if r.Chance(2, 3) {
			w("%s func %s.poke!(k: base.u32, v: base.u8) {\n\tthis.arr[args.k & 7] = args.v\n\tthis.big[args.k & 31] = args.v\n}\n\n", mv(), name)
		}
		if r.Chance(1, 2) {
			w("%s func %s.fill!(d: slice base.u8, s: roslice base.u8) {\n\targs.d.copy_from_slice!(s: args.s)\n}\n\n", mv(), name)
		}
		if sub != "" && r.Chance(2, 3) {
			w("%s func %s.subbump!() {\n\tthis.sub.hbump!()\n}\n\n", mv(), name)
		}
		if r.Chance(1, 2) {
			w("pri func %s.ch!(x: base.u32),\n\tchoosy,\n{\n\tthis.f1 ~mod+= args.x as base.u64\n}\n\n", name)
			w("pri func %s.ch_alt!(x: base.u32) {\n\tthis.f1 ~mod+= 1\n}\n\n", name)
			w("%s func %s.pick!() {\n\tchoose ch = [ch_alt]\n}\n\n", mv(), name)
			w("%s func %s.callch!(x: base.u32) {\n\tthis.ch!(x: args.x)\n}\n\n", mv(), name)
		}
		if r.Chance(1, 2) {
			w("pri func %s.pch(x: base.u32) base.u32,\n\tchoosy,\n{\n\treturn this.f0 ~mod+ args.x\n}\n\n", name)
			w("%s func %s.callpch(x: base.u32) base.u32 {\n\treturn this.pch(x: args.x)\n}\n\n", mv(), name)
		}

		// coroutine
		if r.Chance(1, 2) {
			w("%s func %s.eat?(src: base.io_reader) {\n\tvar c : base.u8\n\tc = args.src.read_u8?()\n\tthis.f2 = c\n\tc = args.src.read_u8?()\n\tthis.f0 ~mod+= c as base.u32\n}\n\n", mv(), name)
		}

		if hasher {
			w("pub func %s.get_quirk(key: base.u32) base.u64 {\n\treturn 0\n}\n\n", name)
			w("pub func %s.set_quirk!(key: base.u32, value: base.u64) base.status {\n\treturn base.\"#unsupported option\"\n}\n\n", name)
			w("pub func %s.update!(x: roslice base.u8) {\n\tif args.x.length() > 0 {\n\t\tthis.f0 ~mod+= args.x[0] as base.u32\n\t}\n}\n\n", name)
			w("pub func %s.update_u32!(x: roslice base.u8) base.u32 {\n\tthis.update!(x: args.x)\n\treturn this.f0\n}\n\n", name)
			w("pub func %s.checksum_u32() base.u32 {\n\treturn this.f0\n}\n\n", name)
		}
	}
	_ = idx
	return b.String()
}
