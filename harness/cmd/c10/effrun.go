package main

// Running the effect-rule tie: the real front end in worker processes, and
// the C runs of accepted-but-suspicious programs in the background.

import (
	"bufio"
	"bytes"
	"encoding/hex"
	"fmt"
	"io"
	"os"
	"path/filepath"
	"strconv"
	"strings"
	"sync"
	"time"

	"wvh/hlib"
)

// effWorkerMain: the harness binary re-executed with C10_EFF_WORKER=1 reads
// Wuffs sources from stdin ("<decimal length>\n<bytes>" records) and answers
// one line "<verdict>\t<hex of message>" per source.  (lang/check annotates
// package-level AST nodes while checking, so Check calls cannot run
// concurrently in one process; several worker processes can.)
func effWorkerMain() {
	in := bufio.NewReaderSize(os.Stdin, 1<<20)
	out := bufio.NewWriter(os.Stdout)
	defer out.Flush()
	for {
		line, err := in.ReadString('\n')
		if err != nil {
			return
		}
		n, err := strconv.Atoi(strings.TrimSpace(line))
		if err != nil || n < 0 {
			fmt.Fprintln(os.Stderr, "c10 effect worker: bad record header")
			os.Exit(2)
		}
		buf := make([]byte, n)
		if _, err := io.ReadFull(in, buf); err != nil {
			fmt.Fprintln(os.Stderr, "c10 effect worker: short record")
			os.Exit(2)
		}
		v, msg := realVerdict(string(buf))
		fmt.Fprintf(out, "%s\t%s\n", v, hex.EncodeToString([]byte(msg)))
	}
}

type effVerdict struct{ v, msg string }

// realVerdicts runs the real front end on every source, in `workers` processes.
func realVerdicts(srcs []string, workers int) []effVerdict {
	res := make([]effVerdict, len(srcs))
	self, err := os.Executable()
	if err != nil || workers <= 1 {
		for i, s := range srcs {
			res[i].v, res[i].msg = realVerdict(s)
		}
		return res
	}
	var wg sync.WaitGroup
	failed := make([]error, workers)
	for w := 0; w < workers; w++ {
		wg.Add(1)
		go func(w int) {
			defer wg.Done()
			var in bytes.Buffer
			var idx []int
			for i := w; i < len(srcs); i += workers {
				fmt.Fprintf(&in, "%d\n%s", len(srcs[i]), srcs[i])
				idx = append(idx, i)
			}
			if len(idx) == 0 {
				return
			}
			o, e, err := hlib.RunCmd(30*time.Minute, "", []string{"C10_EFF_WORKER=1"}, in.Bytes(), self)
			if err != nil {
				failed[w] = fmt.Errorf("%v: %s", err, e)
				return
			}
			lines := strings.Split(strings.TrimRight(string(o), "\n"), "\n")
			if len(lines) != len(idx) {
				failed[w] = fmt.Errorf("worker answered %d lines for %d programs", len(lines), len(idx))
				return
			}
			for k, l := range lines {
				f := strings.SplitN(l, "\t", 2)
				if len(f) != 2 {
					failed[w] = fmt.Errorf("bad worker line %q", l)
					return
				}
				m, _ := hex.DecodeString(f[1])
				res[idx[k]] = effVerdict{f[0], string(m)}
			}
		}(w)
	}
	wg.Wait()
	for _, e := range failed {
		if e != nil {
			fatal("effect worker: %v", e)
		}
	}
	return res
}

type suspProg struct {
	src, toks string
	definite  bool // a pure method contains a construct the rule forbids outright
}

// runEffectsFront: the front-end tie (all `tcheck` ops are emitted here).  It
// returns the starter of the C runs of suspicious accepted programs, which in
// turn returns the function that waits for them and reports.
func runEffectsFront(r *hlib.Run, rnd *hlib.Rand) func(r *hlib.Run, sb *hlib.StdBuild, rnd *hlib.Rand) func() {
	n := 800
	if r.Thorough {
		n = 6000
	}
	// hand-written corner cases first (each is one method body in a pure m0 unless noted)
	progs := effCorners()
	for i := 0; i < n; i++ {
		progs = append(progs, genEffProg(rnd))
	}
	srcs := make([]string, len(progs))
	for i, ms := range progs {
		srcs[i] = effWuffs(ms)
	}
	workers := 8
	if r.Thorough {
		workers = 14
	}
	verdicts := realVerdicts(srcs, workers)
	var suspicious []suspProg
	seenS := map[string]bool{}
	for i, ms := range progs {
		emitEff(r, ms, verdicts[i].v, verdicts[i].msg, &suspicious, seenS)
	}
	// unit-level tie of the flag model to the real ast.NewExpr
	emitFlagOps(r, progs)
	r.Extra("effects_suspicious_accepted", len(suspicious))
	// C run of accepted programs in which a pure method contains a write construct
	maxC := 6
	if r.Thorough {
		maxC = 40
	}
	// programs with an outright forbidden construct in a pure method first, and
	// all of them (up to 4 * maxC; there are none on a correct front end), then
	// up to maxC of the others
	var queue []suspProg
	for _, p := range suspicious {
		if p.definite && len(queue) < 4*maxC {
			queue = append(queue, p)
		}
	}
	nMaybe := 0
	for _, p := range suspicious {
		if !p.definite && nMaybe < maxC {
			queue = append(queue, p)
			nMaybe++
		}
	}
	suspicious = queue
	return func(r *hlib.Run, sb *hlib.StdBuild, rnd *hlib.Rand) func() {
		return startEffCRun(r, sb, suspicious, rnd)
	}
}

// startEffCRun compiles accepted programs and runs every method under the
// memcmp driver (in the background; the returned function waits and reports).
func startEffCRun(r *hlib.Run, sb *hlib.StdBuild, progs []suspProg, rnd *hlib.Rand) func() {
	if len(progs) == 0 {
		return func() {}
	}
	wuffsC := filepath.Join(sb.BinDir, "wuffs-c")
	dir, cleanup := hlib.NewScratchDir("c10eff")
	os.Symlink(sb.Snapshot, filepath.Join(dir, "snapshot.c"))
	type res struct {
		genErr, ccErr, runErr string
		out                   string
		sum                   *pkgSum
	}
	results := make([]res, len(progs))
	seeds := make([]uint64, len(progs))
	for i := range seeds {
		seeds[i] = rnd.Uint64()
	}
	var wg sync.WaitGroup
	for i, p := range progs {
		wg.Add(1)
		go func(i int, p suspProg) {
			defer wg.Done()
			x := &results[i]
			pkg := fmt.Sprintf("e%d", i)
			wf := filepath.Join(dir, pkg+".wuffs")
			os.WriteFile(wf, []byte(p.src), 0o644)
			csrc, stderr, err := hlib.GenPkg(wuffsC, pkg, wf)
			if err != nil {
				x.genErr = strings.TrimSpace(string(stderr)) + " "
				return
			}
			cf := filepath.Join(dir, pkg+".c")
			os.WriteFile(cf, []byte(strings.Replace(string(csrc), "#include \"./wuffs-base.c\"\n", "", 1)), 0o644)
			sum, err := summarizeSrc(pkg, []byte(p.src))
			if err != nil {
				x.runErr = "summarize: " + err.Error()
				return
			}
			x.sum = sum
			drv, _ := genPkgDriver(sum, "snapshot.c", pkg+".c", seeds[i], 400)
			df := filepath.Join(dir, pkg+"_driver.c")
			os.WriteFile(df, []byte(drv), 0o644)
			exe := filepath.Join(dir, pkg+"_driver")
			if err := cachedCC("gcc", []string{"-O1", "-w"}, []string{df}, true, []string{sb.Snapshot, cf}, exe); err != nil {
				x.ccErr = firstLine(err.Error()) + " "
				return
			}
			o, e, err := hlib.RunCmd(2*time.Minute, dir, nil, nil, exe)
			if err != nil {
				x.runErr = fmt.Sprintf("%v %s", err, e)
				return
			}
			x.out = string(o)
		}(i, p)
	}
	return func() {
		wg.Wait()
		defer cleanup()
		for i, p := range progs {
			x := &results[i]
			switch {
			case x.genErr != "":
				// front end accepted in-process but wuffs-c did not: report, do not hide
				r.Fail("effects:wuffs-c-rejects-accepted", strings.TrimSpace(x.genErr), p.src)
			case x.ccErr != "":
				r.Count("effects:c-compile-failed")
				r.Note("effects C run: compile failed for an accepted program: " + x.ccErr)
			case x.runErr != "":
				fatal("effects driver: %s", x.runErr)
			default:
				reportDriver(r, x.out, "effprog.", x.sum, "effect program (pure methods must not write):\n"+p.src)
				r.Count("effects:c-run")
			}
		}
	}
}
