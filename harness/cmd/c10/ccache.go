package main

// A content-addressed cache for the C compilations of this harness (a pure
// accelerator, same idea as harness/cdrv's binary cache).
//
// Key = sha256(compiler --version, every flag that is not a path, the CONTENT
// of every input file named by the caller).  The inputs are complete: the
// regenerated snapshot (which contains all of base and std), the generated
// package's C text, the driver text; system headers are assumed not to change
// under a given compiler version.  A changed working tree changes the
// snapshot and therefore every key, so nothing stale can be reused.
//
// Location: $VERIF_C10_CACHE or <ScratchRoot>/wuffs-verif.c10-cache; "off"
// disables.  At most cacheKeep entries are kept (least recently used evicted).

import (
	"crypto/sha256"
	"encoding/hex"
	"fmt"
	"os"
	"path/filepath"
	"sort"
	"sync"
	"sync/atomic"
	"time"

	"wvh/hlib"
)

const cacheKeep = 400

var (
	cacheHits, cacheMisses int64
	fileHashMu             sync.Mutex
	fileHashes             = map[string]string{}
	ccVersionMu            sync.Mutex
	ccVersions             = map[string]string{}
	// ccSlots bounds the number of concurrently running compiler processes
	// over all phases of the harness.
	ccSlots = make(chan struct{}, 16)
)

func cacheDir() string {
	s := os.Getenv("VERIF_C10_CACHE")
	if s == "off" || s == "0" {
		return ""
	}
	if s == "" {
		s = filepath.Join(hlib.ScratchRoot(), "wuffs-verif.c10-cache")
	}
	if os.MkdirAll(s, 0o755) != nil {
		return ""
	}
	return s
}

func fileHash(path string) string {
	fileHashMu.Lock()
	defer fileHashMu.Unlock()
	if h, ok := fileHashes[path]; ok {
		return h
	}
	b, err := os.ReadFile(path)
	h := "unreadable:" + path
	if err == nil {
		s := sha256.Sum256(b)
		h = hex.EncodeToString(s[:])
	}
	fileHashes[path] = h
	return h
}

func ccVersion(cc string) string {
	ccVersionMu.Lock()
	defer ccVersionMu.Unlock()
	if v, ok := ccVersions[cc]; ok {
		return v
	}
	o, _, _ := hlib.RunCmd(time.Minute, "", nil, nil, cc, "--version")
	ccVersions[cc] = string(o)
	return string(o)
}

func copyFile(src, dst string, mode os.FileMode) error {
	os.Remove(dst)
	if os.Link(src, dst) == nil {
		return nil
	}
	b, err := os.ReadFile(src)
	if err != nil {
		return err
	}
	return os.WriteFile(dst, b, mode)
}

// cachedCC runs `cc flags… srcs… -o out`.  `flags` must not contain paths
// whose spelling varies between runs; `srcs` are the files given to the
// compiler; `inputs` are the files whose content determines the result
// (srcs that merely #include inputs by absolute path are passed with
// hashSrcs = false, so that the scratch directory's name is not in the key).
func cachedCC(cc string, flags []string, srcs []string, hashSrcs bool, inputs []string, out string) error {
	run := func() error {
		ccSlots <- struct{}{}
		defer func() { <-ccSlots }()
		args := append(append(append([]string{}, flags...), srcs...), "-o", out)
		return hlib.CC(cc, args...)
	}
	cd := cacheDir()
	if cd == "" {
		atomic.AddInt64(&cacheMisses, 1)
		return run()
	}
	h := sha256.New()
	fmt.Fprintf(h, "%s|%q|", ccVersion(cc), flags)
	if hashSrcs {
		for _, s := range srcs {
			fmt.Fprintf(h, "src:%s|", fileHash(s))
		}
	}
	for _, s := range inputs {
		fmt.Fprintf(h, "in:%s|", fileHash(s))
	}
	entry := filepath.Join(cd, hex.EncodeToString(h.Sum(nil))[:40])
	if st, err := os.Stat(entry); err == nil && st.Size() > 0 {
		if copyFile(entry, out, 0o755) == nil {
			now := time.Now()
			os.Chtimes(entry, now, now)
			atomic.AddInt64(&cacheHits, 1)
			return nil
		}
	}
	atomic.AddInt64(&cacheMisses, 1)
	if err := run(); err != nil {
		return err
	}
	tmp := fmt.Sprintf("%s.tmp.%d.%d", entry, os.Getpid(), time.Now().UnixNano())
	if copyFile(out, tmp, 0o755) == nil {
		os.Rename(tmp, entry)
	}
	return nil
}

// cacheEvict keeps the cacheKeep most recently used entries.
func cacheEvict() {
	cd := cacheDir()
	if cd == "" {
		return
	}
	es, err := os.ReadDir(cd)
	if err != nil || len(es) <= cacheKeep {
		return
	}
	type ent struct {
		name string
		t    time.Time
	}
	var l []ent
	for _, e := range es {
		if i, err := e.Info(); err == nil {
			l = append(l, ent{e.Name(), i.ModTime()})
		}
	}
	sort.Slice(l, func(i, j int) bool { return l[i].t.Before(l[j].t) })
	for i := 0; i < len(l)-cacheKeep; i++ {
		os.Remove(filepath.Join(cd, l[i].name))
	}
}
