package main

// `-mode gen`: regenerate lean/WuffsVerif/Gen/C07_Tables.lean from the .wuffs
// sources of the working tree, through the real Wuffs front end (lang/token +
// lang/parse): the CRC-32 / CRC-64 lookup tables, the SHA-256 constants, the
// Adler-32 chunk length and modulus, and the (table, byte) index pairs of the
// slicing-by-16 / slicing-by-8 expressions.

import (
	"fmt"
	"math/big"
	"os"
	"path/filepath"
	"regexp"
	"strconv"
	"strings"

	a "github.com/google/wuffs/lang/ast"
	"github.com/google/wuffs/lang/parse"
	t "github.com/google/wuffs/lang/token"
)

type wfile struct {
	tm   *t.Map
	file *a.File
}

func parseWuffs(path string) (*wfile, error) {
	src, err := os.ReadFile(path)
	if err != nil {
		return nil, err
	}
	tm := &t.Map{}
	toks, _, err := t.Tokenize(tm, path, src)
	if err != nil {
		return nil, err
	}
	f, err := parse.Parse(tm, path, toks, nil)
	if err != nil {
		return nil, err
	}
	return &wfile{tm, f}, nil
}

func parseNum(s string) (*big.Int, error) {
	s = strings.ReplaceAll(s, "_", "")
	n, ok := new(big.Int).SetString(s, 0)
	if !ok {
		return nil, fmt.Errorf("not a number: %q", s)
	}
	return n, nil
}

// constValue flattens a (nested) list constant to nested slices of numbers.
func (w *wfile) flatten(e *a.Expr, depth int) (interface{}, error) {
	if args, ok := e.IsList(); ok {
		var out []interface{}
		for _, x := range args {
			v, err := w.flatten(x.AsExpr(), depth+1)
			if err != nil {
				return nil, err
			}
			out = append(out, v)
		}
		return out, nil
	}
	return parseNum(e.Str(w.tm))
}

func (w *wfile) constant(name string) (interface{}, error) {
	for _, d := range w.file.TopLevelDecls() {
		if d.Kind() != a.KConst {
			continue
		}
		c := d.AsConst()
		if w.tm.ByID(c.QID()[1]) == name {
			return w.flatten(c.Value(), 0)
		}
	}
	return nil, fmt.Errorf("const %s not found", name)
}

// stmts returns canonical strings of every assignment ("LHS OP RHS"), if
// condition ("if COND") and while condition in the named function, in source order.
func (w *wfile) stmts(recv, fn string) ([]string, error) {
	for _, d := range w.file.TopLevelDecls() {
		if d.Kind() != a.KFunc {
			continue
		}
		f := d.AsFunc()
		if w.tm.ByID(f.Receiver()[1]) != recv || w.tm.ByID(f.FuncName()) != fn {
			continue
		}
		var out []string
		var walk func(ns []*a.Node)
		walk = func(ns []*a.Node) {
			for _, n := range ns {
				switch n.Kind() {
				case a.KAssign:
					x := n.AsAssign()
					lhs := ""
					if x.LHS() != nil {
						lhs = x.LHS().Str(w.tm)
					}
					out = append(out, lhs+" "+w.tm.ByID(x.Operator())+" "+x.RHS().Str(w.tm))
				case a.KIf:
					for x := n.AsIf(); x != nil; x = x.ElseIf() {
						out = append(out, "if "+x.Condition().Str(w.tm))
						walk(x.BodyIfTrue())
						if len(x.BodyIfFalse()) > 0 {
							out = append(out, "else")
							walk(x.BodyIfFalse())
						}
					}
				case a.KWhile:
					x := n.AsWhile()
					out = append(out, "while "+x.Condition().Str(w.tm))
					walk(x.Body())
				case a.KIterate:
					for x := n.AsIterate(); x != nil; x = x.ElseIterate() {
						out = append(out, fmt.Sprintf("iterate length=%s advance=%s", w.tm.ByID(x.Length()), w.tm.ByID(x.Advance())))
						walk(x.Body())
					}
				}
			}
		}
		walk(f.Body())
		return out, nil
	}
	return nil, fmt.Errorf("func %s.%s not found", recv, fn)
}

func leanNatList(xs []interface{}) string {
	var sb strings.Builder
	sb.WriteString("[")
	for i, x := range xs {
		if i > 0 {
			sb.WriteString(",")
			if i%8 == 0 {
				sb.WriteString("\n    ")
			} else {
				sb.WriteString(" ")
			}
		}
		sb.WriteString(x.(*big.Int).String())
	}
	sb.WriteString("]")
	return sb.String()
}

func leanTable(name string, tbl []interface{}, want0, want1 int) (string, error) {
	if len(tbl) != want0 {
		return "", fmt.Errorf("%s: %d sub-tables, want %d", name, len(tbl), want0)
	}
	var sb strings.Builder
	var rows []string
	for k, sub := range tbl {
		s, ok := sub.([]interface{})
		if !ok || len(s) != want1 {
			return "", fmt.Errorf("%s[%d]: bad length", name, k)
		}
		fmt.Fprintf(&sb, "set_option maxRecDepth 16384 in\ndef %s_%d : Array Nat := #%s\n", name, k, leanNatList(s))
		rows = append(rows, fmt.Sprintf("%s_%d", name, k))
	}
	fmt.Fprintf(&sb, "def %s : Array (Array Nat) := #[%s]\n", name, strings.Join(rows, ", "))
	return sb.String(), nil
}

var (
	reTblP = regexp.MustCompile(`(?:IEEE|ECMA)_TABLE\[(\w+)\]\[p\[(\w+)\]\]`)
	reTblS = regexp.MustCompile(`(?:IEEE|ECMA)_TABLE\[(\w+)\]\[\(?(?:0xFF|255) & \(s >> (\w+)\)\)?\]`)
	reLoad = regexp.MustCompile(`\(p\[(\w+)\] as base\.u(?:32|64)\) << (\w+)`)
)

func atoi(s string) int {
	n, err := parseNum(s)
	if err != nil {
		panic(err)
	}
	return int(n.Int64())
}

// sliceIdx extracts, from the slicing iterate body of X_hasher.up, the little-endian
// load (byte index, shift) pairs and the (table, source) terms of the big xor.
// Terms: (k, 0, j) = TABLE[k][p[j]];  (k, 1, sh) = TABLE[k][0xFF & (s >> sh)].
func sliceIdx(stmts []string) (load [][2]int, terms [][3]int, err error) {
	for _, s := range stmts {
		if strings.HasPrefix(s, "s ^= ") {
			for _, m := range reLoad.FindAllStringSubmatch(s, -1) {
				load = append(load, [2]int{atoi(m[1]), atoi(m[2])})
			}
		}
		if strings.HasPrefix(s, "s = ") && strings.Count(s, "_TABLE[") > 2 {
			// keep source order: scan left to right
			rest := s
			for {
				ip := reTblP.FindStringSubmatchIndex(rest)
				is := reTblS.FindStringSubmatchIndex(rest)
				if ip == nil && is == nil {
					break
				}
				if is == nil || (ip != nil && ip[0] < is[0]) {
					terms = append(terms, [3]int{atoi(rest[ip[2]:ip[3]]), 0, atoi(rest[ip[4]:ip[5]])})
					rest = rest[ip[1]:]
				} else {
					terms = append(terms, [3]int{atoi(rest[is[2]:is[3]]), 1, atoi(rest[is[4]:is[5]])})
					rest = rest[is[1]:]
				}
			}
			if strings.Count(s, "_TABLE[") != len(terms) {
				return nil, nil, fmt.Errorf("slicing expression: %d table terms, %d understood: %s", strings.Count(s, "_TABLE["), len(terms), s)
			}
		}
	}
	if len(load) == 0 || len(terms) == 0 {
		return nil, nil, fmt.Errorf("slicing loop not recognised in %q", stmts)
	}
	return load, terms, nil
}

func leanPairs(name string, ps [][2]int) string {
	var xs []string
	for _, p := range ps {
		xs = append(xs, fmt.Sprintf("(%d, %d)", p[0], p[1]))
	}
	return fmt.Sprintf("def %s : List (Nat × Nat) := [%s]\n", name, strings.Join(xs, ", "))
}

func leanTriples(name string, ps [][3]int) string {
	var xs []string
	for _, p := range ps {
		xs = append(xs, fmt.Sprintf("(%d, %d, %d)", p[0], p[1], p[2]))
	}
	return fmt.Sprintf("def %s : List (Nat × Nat × Nat) := [%s]\n", name, strings.Join(xs, ", "))
}

func findNum(stmts []string, re *regexp.Regexp) (int, error) {
	for _, s := range stmts {
		if m := re.FindStringSubmatch(s); m != nil {
			return atoi(m[1]), nil
		}
	}
	return 0, fmt.Errorf("pattern %s not found in %q", re, stmts)
}

func genTables(repo string) (string, error) {
	var sb strings.Builder
	sb.WriteString("/- GENERATED by `wvh_c07 -mode gen` from std/{adler32,crc32,crc64,sha256}/*.wuffs of the working tree.\n   Do not edit. -/\nnamespace WuffsVerif.Gen.C07\n\n")

	// Adler-32
	w, err := parseWuffs(filepath.Join(repo, "std/adler32/common_adler32.wuffs"))
	if err != nil {
		return "", err
	}
	st, err := w.stmts("hasher", "up")
	if err != nil {
		return "", err
	}
	chunk, err := findNum(st, regexp.MustCompile(`^if args\.x\.length\(\) > (\w+)$`))
	if err != nil {
		return "", err
	}
	c2, err := findNum(st, regexp.MustCompile(`^remaining = args\.x\[(\w+) \.\.\]$`))
	if err != nil {
		return "", err
	}
	c3, err := findNum(st, regexp.MustCompile(`^args\.x = args\.x\[\.\. (\w+)\]$`))
	if err != nil {
		return "", err
	}
	if c2 != chunk || c3 != chunk {
		return "", fmt.Errorf("adler32 hasher.up: chunk constants disagree: %d %d %d (the model assumes one chunk length)", chunk, c2, c3)
	}
	m1, err := findNum(st, regexp.MustCompile(`^s1 %= (\w+)$`))
	if err != nil {
		return "", err
	}
	m2, err := findNum(st, regexp.MustCompile(`^s2 %= (\w+)$`))
	if err != nil {
		return "", err
	}
	if m1 != m2 {
		return "", fmt.Errorf("adler32 hasher.up: moduli disagree: %d %d", m1, m2)
	}
	fmt.Fprintf(&sb, "/-- `if args.x.length() > N` in std/adler32 hasher.up -/\ndef adlerChunkLen : Nat := %d\n/-- `s1 %%= N` in std/adler32 hasher.up -/\ndef adlerModulus : Nat := %d\n\n", chunk, m1)
	// the SIMD variants (not mirrored): their chunk lengths are regenerated so that the proved no-overflow bound
	// (Props.C07.adler_simd_chunk_le: no chunk may exceed 5552 bytes) is re-checked against them on every run
	for _, v := range []struct{ file, fn, lean string }{
		{"std/adler32/common_up_x86_sse42.wuffs", "up_x86_sse42", "adlerSse42ChunkLen"},
		{"std/adler32/common_up_arm_neon.wuffs", "up_arm_neon", "adlerNeonChunkLen"},
	} {
		wv, err := parseWuffs(filepath.Join(repo, v.file))
		if err != nil {
			return "", err
		}
		sv, err := wv.stmts("hasher", v.fn)
		if err != nil {
			return "", err
		}
		k1, err := findNum(sv, regexp.MustCompile(`^if args\.x\.length\(\) > (\w+)$`))
		if err != nil {
			return "", err
		}
		k2, err := findNum(sv, regexp.MustCompile(`^remaining = args\.x\[(\w+) \.\.\]$`))
		if err != nil {
			return "", err
		}
		k3, err := findNum(sv, regexp.MustCompile(`^args\.x = args\.x\[\.\. (\w+)\]$`))
		if err != nil {
			return "", err
		}
		if k2 != k1 || k3 != k1 {
			return "", fmt.Errorf("adler32 hasher.%s: chunk constants disagree: %d %d %d", v.fn, k1, k2, k3)
		}
		fmt.Fprintf(&sb, "/-- `if args.x.length() > N` in std/adler32 hasher.%s -/\ndef %s : Nat := %d\n", v.fn, v.lean, k1)
	}
	sb.WriteString("\n")
	sb.WriteString("/-- statements of std/adler32 hasher.up, as rendered by lang/ast -/\ndef adlerUpStmts : List String := [\n")
	for i, s := range st {
		sep := ","
		if i+1 == len(st) {
			sep = ""
		}
		sb.WriteString("  " + strconv.Quote(s) + sep + "\n")
	}
	sb.WriteString("]\n\n")

	// CRC-32
	w, err = parseWuffs(filepath.Join(repo, "std/crc32/common_crc32.wuffs"))
	if err != nil {
		return "", err
	}
	c, err := w.constant("IEEE_TABLE")
	if err != nil {
		return "", err
	}
	s, err := leanTable("crc32Table", c.([]interface{}), 16, 256)
	if err != nil {
		return "", err
	}
	sb.WriteString(s + "\n")
	st, err = w.stmts("ieee_hasher", "up")
	if err != nil {
		return "", err
	}
	load, terms, err := sliceIdx(st)
	if err != nil {
		return "", err
	}
	sb.WriteString("/-- `s ^= (p[i] as u32) << sh | …` : (i, sh) -/\n" + leanPairs("crc32SliceLoad", load))
	sb.WriteString("/-- the big xor: (k, 0, j) = TABLE[k][p[j]], (k, 1, sh) = TABLE[k][0xFF & (s >> sh)] -/\n" + leanTriples("crc32SliceTerms", terms) + "\n")

	// CRC-64
	w, err = parseWuffs(filepath.Join(repo, "std/crc64/common_crc64.wuffs"))
	if err != nil {
		return "", err
	}
	c, err = w.constant("ECMA_TABLE")
	if err != nil {
		return "", err
	}
	s, err = leanTable("crc64Table", c.([]interface{}), 8, 256)
	if err != nil {
		return "", err
	}
	sb.WriteString(s + "\n")
	st, err = w.stmts("ecma_hasher", "up")
	if err != nil {
		return "", err
	}
	load, terms, err = sliceIdx(st)
	if err != nil {
		return "", err
	}
	sb.WriteString(leanPairs("crc64SliceLoad", load))
	sb.WriteString(leanTriples("crc64SliceTerms", terms) + "\n")

	// SHA-256
	w, err = parseWuffs(filepath.Join(repo, "std/sha256/common_sha256.wuffs"))
	if err != nil {
		return "", err
	}
	c, err = w.constant("K")
	if err != nil {
		return "", err
	}
	if len(c.([]interface{})) != 64 {
		return "", fmt.Errorf("sha256 K: %d entries", len(c.([]interface{})))
	}
	sb.WriteString("def sha256K : Array Nat := #" + leanNatList(c.([]interface{})) + "\n")
	c, err = w.constant("INITIAL_SHA256_H")
	if err != nil {
		return "", err
	}
	if len(c.([]interface{})) != 8 {
		return "", fmt.Errorf("sha256 INITIAL_SHA256_H: %d entries", len(c.([]interface{})))
	}
	sb.WriteString("def sha256InitialH : Array Nat := #" + leanNatList(c.([]interface{})) + "\n")

	sb.WriteString("\nend WuffsVerif.Gen.C07\n")
	return sb.String(), nil
}
