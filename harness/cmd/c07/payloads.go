package main

import (
	"bytes"
	"fmt"

	"wvh/hlib"
)

// ---- payload generators (all randomness from the *hlib.Rand passed in)

type payload struct {
	class string
	data  []byte
}

var words []string

func initWords(rng *hlib.Rand) {
	for i := 0; i < 400; i++ {
		n := rng.Range(2, 10)
		b := make([]byte, n)
		for j := range b {
			b[j] = byte('a' + rng.Intn(26))
		}
		words = append(words, string(b))
	}
}

func textPayload(rng *hlib.Rand, n int) []byte {
	var bb bytes.Buffer
	for bb.Len() < n {
		// zipf-ish choice: small indexes much more likely
		k := rng.Intn(len(words))
		k = k * rng.Intn(len(words)+1) / len(words)
		bb.WriteString(words[k])
		switch rng.Intn(12) {
		case 0:
			bb.WriteString(".\n")
		case 1:
			bb.WriteString(", ")
		default:
			bb.WriteByte(' ')
		}
	}
	return bb.Bytes()[:n]
}

// skewPayload has symbol frequencies ~ Fibonacci, which drives a Huffman coder to its
// maximum code length (15 bits for deflate; needs ≥ 2584+… symbols): deep codes.
func skewPayload(rng *hlib.Rand, nsym int, shuffle bool) []byte {
	var out []byte
	a, b := 1, 1
	for s := 0; s < nsym; s++ {
		for i := 0; i < a; i++ {
			out = append(out, byte(s*7+3))
		}
		a, b = b, a+b
		if len(out) > 150000 {
			break
		}
	}
	if shuffle {
		for i := len(out) - 1; i > 0; i-- {
			j := rng.Intn(i + 1)
			out[i], out[j] = out[j], out[i]
		}
	}
	return out
}

// distPayload repeats a random block of `dist` bytes, so an LZ77 coder finds matches at
// exactly that distance (32768 = the window limit), of maximal length 258.
func distPayload(rng *hlib.Rand, dist, total int) []byte {
	blk := rng.Bytes(dist)
	out := make([]byte, 0, total)
	for len(out) < total {
		out = append(out, blk...)
	}
	return out[:total]
}

func runPayload(rng *hlib.Rand, n int) []byte {
	b := make([]byte, n)
	v := byte(rng.Intn(256))
	for i := range b {
		b[i] = v
	}
	return b
}

// mixedPayload: runs, random stretches, text, back-references at assorted distances
func mixedPayload(rng *hlib.Rand, n int) []byte {
	var out []byte
	for len(out) < n {
		k := rng.Range(1, 3000)
		switch rng.Intn(5) {
		case 0:
			out = append(out, runPayload(rng, k)...)
		case 1:
			out = append(out, rng.Bytes(k)...)
		case 2:
			out = append(out, textPayload(rng, k)...)
		default:
			if len(out) > 0 {
				d := rng.Range(1, len(out))
				if rng.Chance(1, 3) && len(out) >= 32768 {
					d = 32768 - rng.Intn(3)
				}
				for i := 0; i < k; i++ {
					out = append(out, out[len(out)-d])
				}
			}
		}
	}
	return out[:n]
}

// transformerPayloads: the structured list (every tier) + random ones.
func transformerPayloads(rng *hlib.Rand, thorough bool) []payload {
	var ps []payload
	add := func(class string, d []byte) { ps = append(ps, payload{class, d}) }
	add("empty", nil)
	add("one-byte", []byte{byte(rng.Intn(256))})
	add("two-bytes", rng.Bytes(2))
	add("incompressible-small", rng.Bytes(rng.Range(3, 300)))
	add("incompressible-40k", rng.Bytes(40000+rng.Intn(100)))
	add("run-dist1-258", runPayload(rng, 259))
	add("run-dist1-long", runPayload(rng, 70000+rng.Intn(1000)))
	add("run-dist1-3", runPayload(rng, 4))
	add("dist-32768", distPayload(rng, 32768, 32768*2+rng.Intn(600)))
	add("dist-32767", distPayload(rng, 32767, 32767*2+300))
	add("dist-32769-nomatch", distPayload(rng, 32769, 32769*2+300))
	add("dist-258-period", distPayload(rng, 258, 5000))
	add("window-plus", append(rng.Bytes(33000), textPayload(rng, 3000)...))
	add("text-small", textPayload(rng, rng.Range(20, 400)))
	add("text-20k", textPayload(rng, 20000+rng.Intn(500)))
	add("skew-15bit", skewPayload(rng, 24, true))
	add("skew-15bit-sorted", skewPayload(rng, 22, false))
	add("skew-12", skewPayload(rng, 14, true))
	for _, n := range []int{65534, 65535, 65536, 131070, 131071} {
		add(fmt.Sprintf("stored-boundary-%d", n), rng.Bytes(n))
	}
	// incompressible stretches (≥ one 64 KiB LZMA2 chunk, stored deflate blocks, bzip2 random blocks) next to
	// compressible ones, in both orders: the decoders must carry their context across the switch of chunk kind
	add("random-then-text", append(rng.Bytes(70000+rng.Intn(3000)), textPayload(rng, 40000+rng.Intn(500))...))
	add("text-then-random", append(textPayload(rng, 30000+rng.Intn(500)), rng.Bytes(70000+rng.Intn(3000))...))
	add("random-text-random-text", func() []byte {
		var b []byte
		for k := 0; k < 2; k++ {
			b = append(b, rng.Bytes(66000+rng.Intn(2000))...)
			b = append(b, textPayload(rng, 20000+rng.Intn(500))...)
		}
		return b
	}())
	add("mixed-50k", mixedPayload(rng, 50000+rng.Intn(3000)))
	add("mixed-100k", mixedPayload(rng, 100000+rng.Intn(3000)))
	add("all-bytes", func() []byte {
		b := make([]byte, 512)
		for i := range b {
			b[i] = byte(i)
		}
		return b
	}())
	nrand := 12
	if thorough {
		nrand = 150
	}
	for i := 0; i < nrand; i++ {
		n := rng.Range(0, 3000)
		if rng.Chance(1, 4) {
			n = rng.Range(3000, 90000)
		}
		if thorough && rng.Chance(1, 20) {
			n = rng.Range(90000, 400000)
		}
		switch rng.Intn(4) {
		case 0:
			add("rand-text", textPayload(rng, n))
		case 1:
			add("rand-mixed", mixedPayload(rng, n))
		case 2:
			add("rand-bytes", rng.Bytes(n))
		default:
			add("rand-dist", distPayload(rng, rng.Range(1, 33000), n))
		}
	}
	return ps
}

// hashSizes: lengths at the block / chunk thresholds of the four hashers and their SIMD variants.
func hashSizes(rng *hlib.Rand, thorough bool) []int {
	s := []int{0, 1, 2, 3, 4, 7, 8, 9, 15, 16, 17, 23, 24, 31, 32, 33, 47, 48, 49, 55, 56, 57, 63, 64, 65,
		79, 80, 111, 112, 119, 120, 121, 127, 128, 129, 143, 144, 191, 192, 255, 256, 257, 511, 512, 1000, 4096,
		5535, 5536, 5537, 5551, 5552, 5553, 5554, 5567, 5568, 11071, 11072, 11073, 11103, 11104, 11105, 11106,
		16655, 16656, 16657, 22208, 27760, 65535, 65536}
	n := 40
	if thorough {
		n = 400
		s = append(s, 5552*20, 5552*20+1, 5536*30+31, 200000, 1<<20)
	}
	for i := 0; i < n; i++ {
		switch rng.Intn(3) {
		case 0:
			s = append(s, rng.Range(0, 300))
		case 1:
			k := rng.Range(1, 6)
			s = append(s, 5552*k+rng.Range(-2, 2))
		default:
			s = append(s, rng.Range(300, 30000))
		}
	}
	return s
}

func hashContent(rng *hlib.Rand, kind int, n int) ([]byte, string) {
	b := make([]byte, n)
	switch kind % 5 {
	case 0:
		copy(b, rng.Bytes(n))
		return b, "random"
	case 1:
		for i := range b {
			b[i] = 0xFF
		}
		return b, "all-ff"
	case 2:
		return b, "all-zero"
	case 3:
		for i := range b {
			b[i] = byte(i)
		}
		return b, "ramp"
	default:
		copy(b, textPayload(rng, n))
		return b, "text"
	}
}

// partition returns sizes of successive update calls (summing to n; zeros allowed in the middle).
func partition(rng *hlib.Rand, n int, style int) []int {
	return capParts(partition0(rng, n, style), n)
}

func partition0(rng *hlib.Rand, n int, style int) []int {
	switch style % 7 {
	case 0:
		return nil // one call
	case 1: // two pieces
		if n == 0 {
			return nil
		}
		k := rng.Intn(n + 1)
		if k == n {
			return []int{n}
		}
		return []int{k, n - k}
	case 2: // many small pieces
		var p []int
		left := n
		for left > 0 && len(p) < 4000 {
			k := rng.Range(0, 70)
			if k > left {
				k = left
			}
			p = append(p, k)
			left -= k
		}
		if left > 0 {
			p = append(p, left)
		}
		return trimZeros(p)
	case 3: // byte at a time (small inputs) / 64-ish pieces: one repeating size
		step := 1
		if n > 600 {
			step = rng.Range(60, 68)
		}
		if rng.Chance(1, 4) {
			step = rng.Range(1, 20)
		}
		if n == 0 {
			return nil
		}
		return []int{step}
	case 4: // cut around the Adler chunk length
		var p []int
		left := n
		for left > 0 {
			k := 5552 + rng.Range(-17, 17)
			if k > left {
				k = left
			}
			p = append(p, k)
			left -= k
		}
		return p
	case 5: // a few random cuts
		var p []int
		left := n
		for i := 0; i < 4 && left > 0; i++ {
			k := rng.Intn(left + 1)
			p = append(p, k)
			left -= k
		}
		if left > 0 {
			p = append(p, left)
		}
		return trimZeros(p)
	default: // sha/crc block alignment: 1 + 63 + 64k + rest
		var p []int
		left := n
		for _, k := range []int{1, 63, 64 * rng.Range(1, 5), 7, 16, 48} {
			if k > left {
				break
			}
			p = append(p, k)
			left -= k
		}
		if left > 0 {
			p = append(p, left)
		}
		return p
	}
}

// a trailing zero-size call would not be made by the C driver; drop them (keep inner zeros)
func trimZeros(p []int) []int {
	for len(p) > 0 && p[len(p)-1] == 0 {
		p = p[:len(p)-1]
	}
	if len(p) == 1 {
		return nil
	}
	return p
}

// capParts: the C driver's size lists hold at most 64 entries (the last one repeats)
func capParts(p []int, n int) []int {
	if len(p) <= 64 {
		return p
	}
	q := append([]int{}, p[:63]...)
	sum := 0
	for _, k := range q {
		sum += k
	}
	return append(q, n-sum)
}

func splitsStr(p []int) string {
	if len(p) == 0 {
		return "-"
	}
	var bb bytes.Buffer
	for i, k := range p {
		if i > 0 {
			bb.WriteByte(',')
		}
		fmt.Fprintf(&bb, "%d", k)
	}
	return bb.String()
}
