package main

// Reference encoders for the io_transformer codecs: Go's compress/* packages and the
// system bzip2 / xz tools.

import (
	"bytes"
	"compress/flate"
	"compress/gzip"
	"compress/lzw"
	"compress/zlib"
	"fmt"
	"os"
	"os/exec"
	"path/filepath"
	"time"

	"wvh/hlib"
)

type encoded struct {
	codec   string // wuffs codec name
	setting string // human readable encoder setting
	opts    string // extra cdrv options (e.g. zlib_dict=, lzw_litwidth=)
	dict    []byte // zlib preset dictionary
	lw      int    // lzw literal width
	data    []byte // the compressed stream
	members int    // gzip: number of members (decoded one `run` per member)
}

var flateLevels = []int{flate.HuffmanOnly, flate.NoCompression, 1, 2, 3, 4, 5, 6, 7, 8, 9, flate.DefaultCompression}

func levelName(l int) string {
	switch l {
	case flate.HuffmanOnly:
		return "huffman-only"
	case flate.NoCompression:
		return "stored"
	case flate.DefaultCompression:
		return "default"
	}
	return fmt.Sprintf("L%d", l)
}

func encDeflate(p []byte, level int, flushEvery int) []byte {
	var bb bytes.Buffer
	w, err := flate.NewWriter(&bb, level)
	if err != nil {
		panic(err)
	}
	if flushEvery > 0 {
		for i := 0; i < len(p); i += flushEvery {
			j := i + flushEvery
			if j > len(p) {
				j = len(p)
			}
			w.Write(p[i:j])
			w.Flush() // sync flush: an empty stored block, then a new block
		}
	} else {
		w.Write(p)
	}
	w.Close()
	return bb.Bytes()
}

func encZlib(p []byte, level int, dict []byte) []byte {
	var bb bytes.Buffer
	w, err := zlib.NewWriterLevelDict(&bb, level, dict)
	if err != nil {
		panic(err)
	}
	w.Write(p)
	w.Close()
	return bb.Bytes()
}

func encGzipMember(p []byte, level int, hdr int, rng *hlib.Rand) []byte {
	var bb bytes.Buffer
	w, err := gzip.NewWriterLevel(&bb, level)
	if err != nil {
		panic(err)
	}
	if hdr&1 != 0 {
		w.Name = "file-" + fmt.Sprint(rng.Intn(1000)) + ".txt"
	}
	if hdr&2 != 0 {
		w.Comment = "a comment " + fmt.Sprint(rng.Intn(1000))
	}
	if hdr&4 != 0 {
		w.Extra = rng.Bytes(rng.Range(0, 40))
	}
	if hdr&8 != 0 {
		w.ModTime = time.Unix(int64(1e9+rng.Intn(1e8)), 0)
	}
	w.Write(p)
	w.Close()
	return bb.Bytes()
}

func encLzw(p []byte, lw int) []byte {
	var bb bytes.Buffer
	w := lzw.NewWriter(&bb, lzw.LSB, lw)
	w.Write(p)
	w.Close()
	return bb.Bytes()
}

// tool runs an external compressor (stdin → stdout); ok=false when the tool is absent.
func tool(name string, in []byte, args ...string) (out []byte, ok bool, err error) {
	path := ""
	for _, dir := range []string{"/root/miniconda/bin", "/usr/bin", "/bin", "/usr/local/bin"} {
		if st, e := os.Stat(filepath.Join(dir, name)); e == nil && !st.IsDir() {
			path = filepath.Join(dir, name)
			break
		}
	}
	if path == "" {
		if p, e := exec.LookPath(name); e == nil {
			path = p
		} else {
			return nil, false, nil
		}
	}
	o, e, err := hlib.RunCmd(60*time.Second, "", nil, in, path, args...)
	if err != nil {
		return nil, true, fmt.Errorf("%s %v: %v %s", name, args, err, e)
	}
	if in == nil {
		in = []byte{}
	}
	return o, true, nil
}

// encLzwLiteral mirrors the Lean reference encoder StdSpec.Lzw.encode (Model/StdSpecLzw.lean): CLEAR, one
// literal code per byte (the decoder still learns, so the width grows as in real streams), a CLEAR before the
// table fills, END.
func encLzwLiteral(p []byte, lw int) []byte {
	var out []byte
	var acc uint64
	nbits := uint(0)
	push := func(v, n int) {
		acc |= uint64(v) << nbits
		nbits += uint(n)
		for nbits >= 8 {
			out = append(out, byte(acc))
			acc >>= 8
			nbits -= 8
		}
	}
	bump := func(next, width int) int {
		if width < 12 && next == 1<<uint(width) {
			return width + 1
		}
		return width
	}
	clear := 1 << uint(lw)
	push(clear, lw+1)
	size, width, hasPrev := clear+2, lw+1, false
	for _, b := range p {
		if size >= 4095 {
			push(clear, width)
			size, width, hasPrev = clear+2, lw+1, false
		}
		push(int(b)%clear, width)
		if hasPrev {
			size++
			width = bump(size, width)
		}
		hasPrev = true
	}
	push(clear+1, width)
	if nbits > 0 {
		out = append(out, byte(acc))
	}
	return out
}
