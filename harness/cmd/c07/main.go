// C07 harness: the std codecs and hashers compiled from the working tree (through the shared C
// driver `wvh/cdrv`, flavours plain-gcc = SIMD paths and noarch = the portable paths) against
// independent implementations:
//
//	hashers   Wuffs C (random update partitions)  vs  Lean mirror+spec (wv_c07)  vs  Go hash/*, crypto/sha256
//	decoders  payload → reference encoder → Wuffs C decoder  vs  Lean spec decoder  vs  the payload
//	images    file → Wuffs C decoder (pixels)  vs  Go image/png, image/gif decoder (pixels)
//
// The property's oracle (status ok, bytes/pixels exact, sums equal the reference) is evaluated on
// the implementation for every case; the op lines tie the Lean models to the implementation.
package main

import (
	"bytes"
	"compress/bzip2"
	"compress/flate"
	"compress/gzip"
	"compress/lzw"
	"compress/zlib"
	"crypto/sha256"
	"encoding/hex"
	"fmt"
	"hash/adler32"
	"hash/crc32"
	"hash/crc64"
	"image/gif"
	"image/png"
	"io"
	"os"
	"path/filepath"
	"sort"
	"strings"
	"sync"

	"wvh/cdrv"
	"wvh/hlib"
)

type opLine struct{ op, impl string }

type caseResult struct {
	ops     []opLine
	fails   []hlib.Failure
	counts  []string
	nontriv []string
	sample  string
}

type job func(w *worker) caseResult

type worker struct {
	simd, generic *cdrv.Driver
}

func trunc(s string, n int) string {
	if len(s) > n {
		return s[:n] + fmt.Sprintf("…(%d bytes more)", len(s)-n)
	}
	return s
}

// runCmd runs one cdrv command; a crash / timeout is reported as a synthetic line.
func runCmd(d *cdrv.Driver, cmd string) (string, *cdrv.Result) {
	line, err := d.Run(cmd)
	if err != nil {
		if ce, ok := err.(*cdrv.CrashError); ok {
			return "crash " + ce.Kind(), nil
		}
		return "error " + strings.ReplaceAll(err.Error(), "\n", " "), nil
	}
	res, perr := cdrv.ParseResult(line)
	if perr != nil {
		return line, nil
	}
	return line, res
}

func outOf(b []byte) string {
	if len(b) <= 4096 {
		return fmt.Sprintf("len=%d out=%s", len(b), hlib.Hex(b))
	}
	return fmt.Sprintf("len=%d out=%s", len(b), cdrv.FNV64(b))
}

func resOut(res *cdrv.Result) string {
	o := res.OutHex
	if o == "" {
		o = res.OutDigest
	}
	if res.OutLen == 0 {
		o = "-"
	}
	return fmt.Sprintf("len=%d out=%s", res.OutLen, o)
}

// ---------------------------------------------------------------- hashers

func refSum(codec string, data []byte) string {
	switch codec {
	case "adler32":
		return fmt.Sprintf("%08x", adler32.Checksum(data))
	case "crc32":
		return fmt.Sprintf("%08x", crc32.ChecksumIEEE(data))
	case "crc64":
		return fmt.Sprintf("%016x", crc64.Checksum(data, crc64.MakeTable(crc64.ECMA)))
	case "sha256":
		s := sha256.Sum256(data)
		return hex.EncodeToString(s[:])
	}
	panic(codec)
}

func hashJob(codec string, data []byte, content string, part []int, mode string, lean bool) job {
	return func(w *worker) caseResult {
		var cr caseResult
		sp := splitsStr(part)
		want := refSum(codec, data)
		cmd := fmt.Sprintf("hash %s mode=%s %s %s", codec, mode, sp, hlib.Hex(data))
		replay := fmt.Sprintf("cdrv: %s\nreference (Go) sum: %s", trunc(cmd, 300000), want)
		var sums [2]string
		for i, d := range []*cdrv.Driver{w.generic, w.simd} {
			fl := string(d.Flavour)
			line, _ := runCmd(d, cmd)
			kv := cdrv.ParseKV(line)
			sums[i] = kv["sum"]
			if !strings.HasPrefix(line, "ok ") || kv["sum"] == "" {
				cr.fails = append(cr.fails, hlib.Failure{Key: "hash:" + codec + ":" + fl + ":no-result", Desc: "hasher run failed: " + trunc(line, 200), Replay: replay})
				continue
			}
			if kv["sum"] != want {
				cr.fails = append(cr.fails, hlib.Failure{Key: "hash:" + codec + ":" + fl + ":ne-reference",
					Desc:   fmt.Sprintf("%s (%s build) of %d %s bytes split %s = %s, reference %s", codec, fl, len(data), content, trunc(sp, 80), kv["sum"], want),
					Replay: replay + "\nflavour: " + fl})
			}
			if kv["flags"] != "-" {
				cr.fails = append(cr.fails, hlib.Failure{Key: "hash:" + codec + ":" + fl + ":" + kv["flags"],
					Desc: "update_u32/u64/bitvec256 return value differs from checksum, or the source bytes were modified: " + kv["flags"], Replay: replay})
			}
		}
		if lean {
			s := sums[0]
			if s == "" {
				s = "none"
			}
			cr.ops = append(cr.ops, opLine{fmt.Sprintf("hash %s %s %s", codec, sp, hlib.Hex(data)), "sum=" + s + " spec=ok"})
		}
		cr.counts = append(cr.counts, "hash:"+codec, "hash-content:"+content, fmt.Sprintf("hash-calls:%s", bucket(len(part))))
		cr.nontriv = append(cr.nontriv, fmt.Sprintf("hash|%s|%d|%s|%s", codec, len(data), content, trunc(sp, 40)))
		return cr
	}
}

func bucket(n int) string {
	switch {
	case n <= 1:
		return "1"
	case n <= 4:
		return "2-4"
	case n <= 64:
		return "5-64"
	}
	return ">64"
}

// hash0Job: initialize, then checksum WITHOUT any update call = the empty string split into zero pieces; the reference
// value is the checksum of the empty string, and a different value is an ordinary failure (std/adler32 and std/sha256
// used to report 0 / the digest from an all-zero chaining value: fixes/C07-{adler32,sha256}-zero-updates.patch).
func hash0Job(codec string) job {
	return func(w *worker) caseResult {
		var cr caseResult
		want := refSum(codec, nil)
		cmd := fmt.Sprintf("proto %s init;sum -", codec)
		for i, d := range []*cdrv.Driver{w.generic, w.simd} {
			fl := string(d.Flavour)
			line, _ := runCmd(d, cmd)
			got := ""
			if f := strings.Fields(line); len(f) >= 2 {
				if p := strings.Split(f[1], ";"); len(p) == 2 {
					got = p[1]
				}
			}
			if i == 0 {
				cr.ops = append(cr.ops, opLine{"hash0 " + codec, "sum=" + got})
			}
			if got != want {
				cr.fails = append(cr.fails, hlib.Failure{Key: "hash:" + codec + ":" + fl + ":zero-update-calls:ne-reference",
					Desc:   fmt.Sprintf("%s hasher (%s build) with no update call reports %q; the %s of the empty string is %s", codec, fl, got, codec, want),
					Replay: "cdrv: " + cmd + "\nflavour: " + fl + "\n(initialize, then checksum without any update call = the empty string split into zero pieces)\nreference (Go) sum: " + want})
			}
		}
		cr.counts = append(cr.counts, "hash0:"+codec)
		cr.nontriv = append(cr.nontriv, "hash0|"+codec)
		return cr
	}
}

// ---------------------------------------------------------------- io_transformers

// decJob: decode e.data with Wuffs (both flavours alternately by `alt`), compare with want.
func decJob(e encoded, want []byte, class string, chunking string, alt int, lean bool) job {
	return func(w *worker) caseResult {
		var cr caseResult
		d := w.simd
		if alt%2 == 1 {
			d = w.generic
		}
		fl := string(d.Flavour)
		opts := e.opts
		if chunking != "" {
			opts += " " + chunking
		}
		if (e.codec == "lzma" || e.codec == "xz") && !strings.Contains(opts, "work=") {
			opts += " work=" + bigWork // like upstream's example/mzcat: a work buffer big enough for the preset
		}
		var got bytes.Buffer
		status := "ok"
		rest := e.data
		members := e.members
		if members == 0 {
			members = 1
		}
		var lastCmd string
		var outDesc string
		for m := 0; m < members; m++ {
			cmd := strings.Join(strings.Fields(fmt.Sprintf("run %s %s digest=0 maxout=268435456 %s", e.codec, opts, hlib.Hex(rest))), " ")
			lastCmd = cmd
			line, res := runCmd(d, cmd)
			if res == nil {
				status = trunc(line, 120)
				break
			}
			if res.Status != "ok" {
				status = res.Status
				break
			}
			if len(res.Checks) > 0 {
				status = "io-contract:" + strings.Join(res.Checks, ",")
				break
			}
			b, _ := hex.DecodeString(strings.TrimPrefix(res.OutHex, "-"))
			got.Write(b)
			if int(res.Ri) > len(rest) {
				status = "ri-beyond-input"
				break
			}
			rest = rest[res.Ri:]
			if m == members-1 && len(rest) != 0 {
				outDesc = fmt.Sprintf(" (%d trailing bytes not consumed)", len(rest))
			}
		}
		replay := fmt.Sprintf("payload class: %s (%d bytes)\nencoder: %s %s\nflavour: %s\ncdrv: %s\npayload: %s", class, len(want), e.codec, e.setting, fl, trunc(lastCmd, 400000), trunc(hlib.Hex(want), 100000))
		key := e.codec + ":" + strings.Fields(e.setting + " x")[0]
		if (e.codec == "lzma" || e.codec == "xz") && (status != "ok" || !bytes.Equal(got.Bytes(), want)) {
			// One known defect of std/lzma is keyed by its cause (see KNOWN_FINDINGS.txt): re-run the same stream without the
			// triggering condition; only if it then decodes correctly is the cause confirmed. (The former second key,
			// lazy-workbuf:bad-workbuf-length, is repaired by fixes/C05-lzma-short-workbuf-gate.patch: a recurrence is an
			// ordinary decode-status failure below.)
			rerun := func(o string) bool {
				c2 := strings.Join(strings.Fields(fmt.Sprintf("run %s %s digest=0 maxout=268435456 %s", e.codec, o, hlib.Hex(e.data))), " ")
				_, r2 := runCmd(d, c2)
				if r2 == nil || r2.Status != "ok" {
					return false
				}
				b, _ := hex.DecodeString(strings.TrimPrefix(r2.OutHex, "-"))
				return bytes.Equal(b, want)
			}
			// unflushed-dst-far-match needs BOTH a chunked source and a destination that is replaced while the stream
			// is decoded (a match must reach before the start of the current destination buffer). The cause is only
			// confirmed when the stream decodes correctly (a) in one piece and (b) with the SAME source chunking but one
			// destination buffer that holds the whole output plus the 274 spare bytes std/lzma insists on before a match
			// copy (it is then never replaced: every match stays inside dst.history): a defect of
			// suspension/resumption on a chunked source fails (b) and is reported under its own key.
			if strings.Contains(opts, "src=") && !strings.HasPrefix(status, "crash") && !strings.HasPrefix(status, "io-contract") &&
				rerun(dropSrcOpt(opts)) && rerun(oneDst(opts, len(want)+4096)) {
				cr.fails = append(cr.fails, hlib.Failure{Key: "decode:lzma-family:unflushed-dst-far-match",
					Desc: fmt.Sprintf("Wuffs %s (%s) on a valid stream (%s, payload %s %d bytes) ends with %s / wrong bytes when the source arrives in chunks (%s): after a `$short read` the destination buffer still holds bytes of earlier calls, and a match reaching before the start of that buffer is fetched from the wrong place of the workbuf ring (std/lzma lacks the `transformed_history_count - dst.history_position()` correction that std/deflate has); the same stream decodes correctly when supplied in one piece", e.codec, fl, e.setting, class, len(want), status, chunking), Replay: replay})
				cr.counts = append(cr.counts, "known:unflushed-dst-far-match")
				return cr
			}
		}
		if status != "ok" {
			cr.fails = append(cr.fails, hlib.Failure{Key: "decode-status:" + key + ":" + status,
				Desc: fmt.Sprintf("Wuffs %s (%s) decoding a valid %s stream (%s, payload %s %d bytes) ends with status %s", e.codec, fl, e.codec, e.setting, class, len(want), status), Replay: replay})
		} else if !bytes.Equal(got.Bytes(), want) {
			cr.fails = append(cr.fails, hlib.Failure{Key: "decode-bytes:" + key,
				Desc: fmt.Sprintf("Wuffs %s (%s) output differs from the payload (%s, payload %s %d bytes; got %d bytes, first difference at %d)%s", e.codec, fl, e.setting, class, len(want), got.Len(), firstDiff(got.Bytes(), want), outDesc), Replay: replay})
		}
		if lean {
			impl := "err"
			if status == "ok" {
				impl = "ok " + outOf(got.Bytes())
			}
			switch e.codec {
			case "deflate":
				cr.ops = append(cr.ops, opLine{"dec deflate " + hlib.Hex(e.data), impl})
				// the mirror of std/deflate (Model/StdDeflate.lean) must give what the C gave, incl. bytes consumed
				wimpl := "err " + status
				if status == "ok" {
					wimpl = fmt.Sprintf("ok %s used=%d", outOf(got.Bytes()), len(e.data)-len(rest))
				}
				cr.ops = append(cr.ops, opLine{"wdec deflate " + hlib.Hex(e.data), wimpl})
				// evidence for the open proof obligation `DynRefines`: at every dynamic block of this (valid) stream the
				// mirror's header parser + init_huff must give tables that agree with the specification's codes
				if status == "ok" && len(e.data) <= 70000 {
					cr.ops = append(cr.ops, opLine{"wdyn deflate " + hlib.Hex(e.data), "ok"})
					cr.counts = append(cr.counts, "wdyn-streams")
				}
			case "zlib":
				cr.ops = append(cr.ops, opLine{"dec zlib " + hlib.Hex(e.dict) + " " + hlib.Hex(e.data), impl})
			case "gzip":
				cr.ops = append(cr.ops, opLine{"dec gzip " + hlib.Hex(e.data), impl})
			case "lzw":
				if status == "ok" {
					impl += fmt.Sprintf(" used=%d", len(e.data)-len(rest))
				}
				cr.ops = append(cr.ops, opLine{fmt.Sprintf("dec lzw %d %s", e.lw, hlib.Hex(e.data)), impl})
			}
		}
		cr.counts = append(cr.counts, "dec:"+e.codec, "dec-flavour:"+fl, "payload:"+class, "enc:"+e.codec+":"+strings.Fields(e.setting + " x")[0])
		if chunking != "" {
			cr.counts = append(cr.counts, "dec-chunked")
		}
		cr.nontriv = append(cr.nontriv, fmt.Sprintf("dec|%s|%s|%s|%d|%s", e.codec, e.setting, class, len(want), chunking))
		return cr
	}
}

// malformedJob: correspondence only (no oracle: the property is about valid data) — the mirror of std/deflate
// and the C compiled from the working tree must end with the same status (and the same bytes when that is ok)
// on a damaged stream, one transform_io call, source closed.
func malformedJob(data []byte, how string, alt int, chunk string) job {
	return func(w *worker) caseResult {
		var cr caseResult
		d := w.simd
		if alt%2 == 1 {
			d = w.generic
		}
		cmd := strings.Join(strings.Fields(fmt.Sprintf("run deflate %s digest=0 maxout=268435456 %s", chunk, hlib.Hex(data))), " ")
		line, res := runCmd(d, cmd)
		impl := "run-failed " + trunc(line, 100)
		if res != nil {
			if res.Status == "ok" {
				b, _ := hex.DecodeString(strings.TrimPrefix(res.OutHex, "-"))
				impl = fmt.Sprintf("ok %s used=%d", outOf(b), res.Ri)
				cr.counts = append(cr.counts, "malformed:still-ok")
			} else {
				impl = "err " + res.Status
				cr.counts = append(cr.counts, "malformed:"+res.Status)
			}
		}
		cr.ops = append(cr.ops, opLine{"wdec deflate " + hlib.Hex(data), impl})
		cr.counts = append(cr.counts, "malformed-how:"+how)
		cr.nontriv = append(cr.nontriv, fmt.Sprintf("malformed|%s|%d|%s", how, len(data), cdrv.FNV64(data)))
		return cr
	}
}

// damage: one structured mutation of a valid deflate stream
func damage(rng *hlib.Rand, z []byte) ([]byte, string) {
	out := append([]byte{}, z...)
	if len(out) == 0 {
		return []byte{byte(rng.Intn(256))}, "one-byte"
	}
	switch rng.Intn(6) {
	case 0: // truncate
		return out[:rng.Intn(len(out))], "truncate"
	case 1: // flip one bit in the first 40 bytes (block headers, code length tables)
		m := len(out)
		if m > 40 {
			m = 40
		}
		i := rng.Intn(m)
		out[i] ^= 1 << uint(rng.Intn(8))
		return out, "flip-header-bit"
	case 2: // flip one bit anywhere
		i := rng.Intn(len(out))
		out[i] ^= 1 << uint(rng.Intn(8))
		return out, "flip-bit"
	case 3: // overwrite a byte
		out[rng.Intn(len(out))] = byte(rng.Intn(256))
		return out, "overwrite-byte"
	case 4: // block type 3 / random 3-bit header
		out[0] = out[0]&^7 | byte(rng.Intn(8))
		return out, "first-header"
	}
	// drop a byte in the middle
	i := rng.Intn(len(out))
	return append(out[:i], out[i+1:]...), "drop-byte"
}

// refDecodes: Go's own decoder reproduces the payload from e.data (codecs without a Go decoder: true).
func refDecodes(e encoded, want []byte) bool {
	var rd io.Reader
	switch e.codec {
	case "deflate":
		rd = flate.NewReader(bytes.NewReader(e.data))
	case "zlib":
		z, err := zlib.NewReaderDict(bytes.NewReader(e.data), e.dict)
		if err != nil {
			return false
		}
		rd = z
	case "gzip":
		z, err := gzip.NewReader(bytes.NewReader(e.data)) // multistream by default
		if err != nil {
			return false
		}
		rd = z
	case "lzw":
		rd = lzw.NewReader(bytes.NewReader(e.data), lzw.LSB, e.lw)
	case "bzip2":
		rd = bzip2.NewReader(bytes.NewReader(e.data))
	default:
		return true
	}
	got, err := io.ReadAll(rd)
	return err == nil && bytes.Equal(got, want)
}

// bigWork: dictionary of `xz -6` (8 MiB) + 273, rounded up
const bigWork = "8389120"

func dropSrcOpt(opts string) string {
	var out []string
	for _, f := range strings.Fields(opts) {
		if !strings.HasPrefix(f, "src=") {
			out = append(out, f)
		}
	}
	return strings.Join(out, " ")
}

// oneDst: opts with the destination capacity replaced by one buffer of n bytes
func oneDst(opts string, n int) string {
	var out []string
	for _, f := range strings.Fields(opts) {
		if !strings.HasPrefix(f, "dst=") {
			out = append(out, f)
		}
	}
	return strings.Join(append(out, fmt.Sprintf("dst=%d", n)), " ")
}

func firstDiff(a, b []byte) int {
	n := len(a)
	if len(b) < n {
		n = len(b)
	}
	for i := 0; i < n; i++ {
		if a[i] != b[i] {
			return i
		}
	}
	return n
}

func chunkOpt(rng *hlib.Rand) string {
	switch rng.Intn(6) {
	case 0:
		return "src=1 dst=1"
	case 1:
		return fmt.Sprintf("src=%d dst=%d", rng.Range(1, 40), rng.Range(1, 300))
	case 2:
		return fmt.Sprintf("src=%d,%d dst=%d", rng.Range(1, 9), rng.Range(100, 5000), rng.Range(1000, 70000))
	case 3:
		return fmt.Sprintf("dst=%d", rng.Range(1, 4000))
	case 4:
		return fmt.Sprintf("src=%d", rng.Range(1, 4000))
	}
	return ""
}

// ---------------------------------------------------------------- images

func imgJob(codec string, file []byte, origin string, pixfmt string, want []byte, w0, h0, frames int, alt int, chunking string) job {
	return func(w *worker) caseResult {
		var cr caseResult
		d := w.simd
		if alt%2 == 1 {
			d = w.generic
		}
		fl := string(d.Flavour)
		cmd := strings.Join(strings.Fields(fmt.Sprintf("run %s pixfmt=%s digest=0 maxframes=4096 %s %s", codec, pixfmt, chunking, hlib.Hex(file))), " ")
		line, res := runCmd(d, cmd)
		replay := fmt.Sprintf("image: %s\nflavour: %s\ncdrv: %s", origin, fl, trunc(cmd, 400000))
		key := codec + ":" + strings.Fields(origin + " x")[0]
		cr.counts = append(cr.counts, "img:"+codec, "img-origin:"+strings.Fields(origin + " x")[0], "img-flavour:"+fl)
		cr.nontriv = append(cr.nontriv, "img|"+origin+"|"+pixfmt)
		if res == nil {
			cr.fails = append(cr.fails, hlib.Failure{Key: "image-run:" + key, Desc: "Wuffs " + codec + " run failed: " + trunc(line, 200), Replay: replay})
			return cr
		}
		// an image decoder's sequence ends with "@base: end of data" after the last frame
		if res.Status != "@base:_end_of_data" {
			cr.fails = append(cr.fails, hlib.Failure{Key: "image-status:" + key + ":" + res.Status,
				Desc: fmt.Sprintf("Wuffs %s (%s) on a valid image (%s) ends with status %s instead of decoding all frames", codec, fl, origin, res.Status), Replay: replay})
			return cr
		}
		if len(res.Checks) > 0 {
			cr.fails = append(cr.fails, hlib.Failure{Key: "image-io-contract:" + key, Desc: "I/O contract: " + strings.Join(res.Checks, ","), Replay: replay})
		}
		if res.KV["w"] != fmt.Sprint(w0) || res.KV["h"] != fmt.Sprint(h0) || (frames > 0 && res.KV["frames"] != fmt.Sprint(frames)) {
			cr.fails = append(cr.fails, hlib.Failure{Key: "image-config:" + key,
				Desc: fmt.Sprintf("Wuffs %s reports %sx%s frames=%s, reference decoder %dx%d frames=%d (%s)", codec, res.KV["w"], res.KV["h"], res.KV["frames"], w0, h0, frames, origin), Replay: replay})
			return cr
		}
		got, _ := hex.DecodeString(strings.TrimPrefix(res.OutHex, "-"))
		// a fully transparent non-premultiplied pixel has no observable colour: Go keeps the file's
		// colour (e.g. the tRNS key), Wuffs writes zeros; compare them as equal
		got, want := zeroTransparent(got, pixfmt), zeroTransparent(want, pixfmt)
		if !bytes.Equal(got, want) {
			i := firstDiff(got, want)
			bpp := len(pixfmt) / 2 // 4 for 8-bit BGRA; the 16-bit format has 8 bytes per pixel
			if pixfmt == pixfmtBGRA16 {
				bpp = 8
			} else {
				bpp = 4
			}
			px := i / bpp
			x, y := 0, 0
			if w0 > 0 {
				x, y = px%w0, px/w0
			}
			cr.fails = append(cr.fails, hlib.Failure{Key: "image-pixels:" + key,
				Desc: fmt.Sprintf("Wuffs %s (%s) pixels differ from Go's decoder for %s: %d vs %d bytes, first difference at byte %d (pixel x=%d y=%d): got %s want %s", codec, fl, origin, len(got), len(want), i, x, y, around(got, i), around(want, i)), Replay: replay})
		}
		return cr
	}
}

func zeroTransparent(b []byte, pixfmt string) []byte {
	out := append([]byte{}, b...)
	if pixfmt == pixfmtBGRA16 {
		for i := 0; i+8 <= len(out); i += 8 {
			if out[i+6] == 0 && out[i+7] == 0 {
				copy(out[i:i+6], []byte{0, 0, 0, 0, 0, 0})
			}
		}
	} else {
		for i := 0; i+4 <= len(out); i += 4 {
			if out[i+3] == 0 {
				out[i], out[i+1], out[i+2] = 0, 0, 0
			}
		}
	}
	return out
}

func around(b []byte, i int) string {
	lo, hi := i-4, i+8
	if lo < 0 {
		lo = 0
	}
	if hi > len(b) {
		hi = len(b)
	}
	if lo >= hi {
		return "-"
	}
	return hex.EncodeToString(b[lo:hi])
}

// ---------------------------------------------------------------- main

func main() {
	r := hlib.Start("C07")
	if r.IsGen() {
		text, err := genTables(r.Repo)
		if err != nil {
			fmt.Fprintln(os.Stderr, "gen:", err)
			os.Exit(1)
		}
		r.WriteGen("C07_Tables.lean", text)
		text, err = genDeflate(r.Repo)
		if err != nil {
			fmt.Fprintln(os.Stderr, "gen:", err)
			os.Exit(1)
		}
		r.WriteGen("C07_Deflate.lean", text)
		return
	}
	defer cdrv.Cleanup()
	if r.Mode == "cmds" {
		// debugging aid: run the cdrv command lines of a file (-replay FILE) on both flavours
		runCmdsFile(r)
		return
	}
	ds, errs := cdrv.BuildAll(r.Repo, cdrv.PlainGcc, cdrv.NoArch)
	if len(errs) > 0 {
		var ks []string
		for k, e := range errs {
			ks = append(ks, string(k)+": "+e.Error())
		}
		sort.Strings(ks)
		// The std library of the working tree does not regenerate / compile: nothing can be checked.
		r.Fail("build:std-does-not-compile", "regenerating or compiling std from the working tree failed: "+trunc(strings.Join(ks, " | "), 3000), strings.Join(ks, "\n"))
		r.Finish("build failed")
		cdrv.Cleanup()
		return
	}
	simd, generic := ds[cdrv.PlainGcc], ds[cdrv.NoArch]
	r.Extra("cdrv_gen_s", simd.GenTime.Seconds())
	r.Extra("cdrv_build_s", simd.BuildTime.Seconds()+generic.BuildTime.Seconds())

	rng := r.Rand
	initWords(rng.Fork())
	var jobs []job

	// ---- hashers
	codecs := []string{"adler32", "crc32", "crc64", "sha256"}
	for _, c := range codecs {
		jobs = append(jobs, hash0Job(c))
	}
	hr := rng.Fork()
	sizes := hashSizes(hr, r.Thorough)
	leanBudget := map[string]int{"adler32": 1500000, "crc32": 1200000, "crc64": 700000, "sha256": 500000}
	if r.Thorough {
		for k := range leanBudget {
			leanBudget[k] *= 8
		}
	}
	ci := 0
	for si, n := range sizes {
		for _, c := range codecs {
			ci++
			data, content := hashContent(hr, ci+si, n)
			part := partition(hr, n, hr.Intn(7))
			mode := []string{"mix", "update", "value"}[hr.Intn(3)]
			lean := leanBudget[c] >= n
			if lean {
				leanBudget[c] -= n + 200
			}
			jobs = append(jobs, hashJob(c, data, content, part, mode, lean))
		}
	}
	// Adler-32 worst case: (s1, s2) = (65520, *) at the start of a chunk of 0xFF bytes.
	for _, n := range []int{5552, 5553, 5554, 6000, 11104, 11106, 5536, 5537, 40000} {
		data := append(bytes.Repeat([]byte{0xFF}, 256), 239)
		data = append(data, bytes.Repeat([]byte{0xFF}, n)...)
		jobs = append(jobs, hashJob("adler32", data, "adler-worst-case", []int{257, n}, "update", true))
		jobs = append(jobs, hashJob("adler32", data, "adler-worst-case", []int{256, 1, n}, "value", true))
	}
	jobs = append(jobs, hashJob("adler32", bytes.Repeat([]byte{0xFF}, 200000), "all-ff", nil, "update", true))
	// Long worst-case runs in ONE update call (and in pieces larger than any chunk length): a SIMD variant whose
	// per-round chunk is too long only wraps its u32 sums after many chunks of 0xFF / 0xFE bytes that start with a
	// large s1 (e.g. chunk 5568: first wrong after 462144 bytes of 0xFF, 233856 of 0xFE).
	for _, v := range []byte{0xFF, 0xFE, 0xFD} {
		big := bytes.Repeat([]byte{v}, 1<<20+4321)
		content := fmt.Sprintf("all-%02x-1m", v)
		jobs = append(jobs, hashJob("adler32", big, content, nil, "update", v == 0xFF))
		jobs = append(jobs, hashJob("adler32", big, content, []int{300000, 8192, 65536}, "mix", false))
		jobs = append(jobs, hashJob("adler32", big[:600000], content, []int{7, 599993}, "value", false))
	}
	for _, c := range []string{"crc32", "crc64", "sha256"} {
		jobs = append(jobs, hashJob(c, hr.Bytes(1<<20+77), "random-1m", nil, "update", false))
		jobs = append(jobs, hashJob(c, hr.Bytes(1<<19+5), "random-512k", []int{3, 100000, 65536}, "mix", false))
	}
	// CRC slicing: every length 0..70 at the loop boundary (16 / 8 byte blocks), both halves of a split
	for n := 0; n <= 70; n++ {
		for _, c := range []string{"crc32", "crc64"} {
			data := hr.Bytes(n)
			jobs = append(jobs, hashJob(c, data, "random", partition(hr, n, 1), "mix", true))
		}
	}

	// ---- io_transformers
	tr := rng.Fork()
	pays := transformerPayloads(tr, r.Thorough)
	skipped := map[string]int{}
	leanDec := 6000000 // total compressed+payload bytes sent to the Lean spec decoders
	if r.Thorough {
		leanDec *= 6
	}
	alt := 0
	mr := rng.Fork()
	malformedBudget := 240 // damaged deflate streams (model/implementation status correspondence)
	if r.Thorough {
		malformedBudget = 3000
	}
	addDec := func(e encoded, p payload, chunk string) {
		// the reference encoder must be valid for the reference decoder too (Go's flate writer with a preset
		// dictionary has been seen to copy the dictionary into a stored block: not a valid encoding of p)
		if !refDecodes(e, p.data) {
			skipped["reference-encoder-output-rejected-by-reference-decoder:"+e.codec]++
			return
		}
		lean := (e.codec == "deflate" || e.codec == "zlib" || e.codec == "gzip" || e.codec == "lzw") && leanDec > 0
		if lean {
			leanDec -= len(e.data) + len(p.data)/4 + 100
		}
		alt++
		jobs = append(jobs, decJob(e, p.data, p.class, chunk, alt, lean))
		if lean && e.codec == "deflate" && len(e.data) <= 6000 && malformedBudget > 0 {
			for k := 0; k < 3; k++ {
				bad, how := damage(mr, e.data)
				malformedBudget--
				alt++
				ch := ""
				if k == 2 {
					ch = "src=1 dst=1" // forces the slow path of the C code for the whole stream
				}
				jobs = append(jobs, malformedJob(bad, how, alt, ch))
			}
		}
	}
	for pi, p := range pays {
		// flate family: in the quick tier each payload gets a rotating subset of levels
		for li, lv := range flateLevels {
			if !r.Thorough && (li+pi)%3 != 0 && len(p.data) > 1000 {
				continue
			}
			addDec(encoded{codec: "deflate", setting: "level=" + levelName(lv), data: encDeflate(p.data, lv, 0)}, p, chunkOpt(tr))
			switch (li + pi) % 4 {
			case 0:
				addDec(encoded{codec: "zlib", setting: "level=" + levelName(lv), data: encZlib(p.data, lv, nil)}, p, chunkOpt(tr))
			case 1:
				var dict []byte
				switch tr.Intn(3) {
				case 0:
					dict = tr.Bytes(tr.Range(1, 300))
				case 1: // a dictionary the payload really refers to
					k := len(p.data)
					if k > 33000 {
						k = 33000
					}
					dict = append([]byte{}, p.data[:k]...)
				default:
					dict = textPayload(tr, tr.Range(100, 40000)) // > 32 KiB: only the tail is used
				}
				addDec(encoded{codec: "zlib", setting: fmt.Sprintf("dict=%d level=%s", len(dict), levelName(lv)), opts: "zlib_dict=" + hlib.Hex(dict), dict: dict, data: encZlib(p.data, lv, dict)}, p, chunkOpt(tr))
			case 2:
				hdr := tr.Intn(16)
				addDec(encoded{codec: "gzip", setting: fmt.Sprintf("hdr=%d level=%s", hdr, levelName(lv)), data: encGzipMember(p.data, lv, hdr, tr), members: 1}, p, chunkOpt(tr))
			default:
				// multi-member gzip: the payload cut in 2..4 members
				nm := tr.Range(2, 4)
				var all []byte
				for m := 0; m < nm; m++ {
					lo, hi := len(p.data)*m/nm, len(p.data)*(m+1)/nm
					all = append(all, encGzipMember(p.data[lo:hi], lv, tr.Intn(16), tr)...)
				}
				addDec(encoded{codec: "gzip", setting: fmt.Sprintf("members=%d level=%s", nm, levelName(lv)), data: all, members: nm}, p, "")
			}
		}
		if len(p.data) > 0 && (r.Thorough || pi%2 == 0) {
			addDec(encoded{codec: "deflate", setting: "syncflush level=L6", data: encDeflate(p.data, 6, tr.Range(1, len(p.data)))}, p, chunkOpt(tr))
		}
		// lzw: literal widths 2..8; the payload is reduced to the alphabet
		for lw := 2; lw <= 8; lw++ {
			if !r.Thorough && (lw+pi)%3 != 0 && len(p.data) > 1000 {
				continue
			}
			q := make([]byte, len(p.data))
			for i, b := range p.data {
				q[i] = b & byte(1<<uint(lw)-1)
			}
			addDec(encoded{codec: "lzw", setting: fmt.Sprintf("litwidth=%d", lw), opts: fmt.Sprintf("lzw_litwidth=%d", lw), lw: lw, data: encLzw(q, lw)}, payload{p.class, q}, chunkOpt(tr))
		}
		// the Lean literal-only reference encoder (re-implemented in Go; `lzwenc` ties the two): Wuffs and the
		// Lean spec decoder must both return the payload
		if len(p.data) <= 20000 && (r.Thorough || pi%2 == 0) {
			lw := []int{2, 3, 5, 8}[pi%4]
			q := make([]byte, len(p.data))
			for i, b := range p.data {
				q[i] = b & byte(1<<uint(lw)-1)
			}
			enc := encLzwLiteral(q, lw)
			jobs = append(jobs, func(w *worker) caseResult {
				return caseResult{ops: []opLine{{fmt.Sprintf("lzwenc %d %s", lw, hlib.Hex(q)), hlib.Hex(enc)}}, counts: []string{"lzw-literal-encoder"}}
			})
			addDec(encoded{codec: "lzw", setting: fmt.Sprintf("literal-only litwidth=%d", lw), opts: fmt.Sprintf("lzw_litwidth=%d", lw), lw: lw, data: enc}, payload{p.class, q}, chunkOpt(tr))
		}
		// external tools
		if r.Thorough || pi%2 == 1 || len(p.data) < 1000 || p.class == "incompressible-40k" || strings.Contains(p.class, "random") {
			type tl struct {
				codec, name string
				args        []string
			}
			tools := []tl{
				{"bzip2", "bzip2", []string{"-c", fmt.Sprintf("-%d", tr.Range(1, 9))}},
				{"xz", "xz", []string{"-c", "--format=xz", fmt.Sprintf("-%d", tr.Range(0, 6)), []string{"--check=crc32", "--check=crc64", "--check=sha256", "--check=none"}[tr.Intn(4)]}},
				{"lzma", "xz", []string{"-c", "--format=lzma", fmt.Sprintf("-%d", tr.Range(0, 6))}},
			}
			for _, t := range tools {
				out, ok, err := tool(t.name, p.data, t.args...)
				if !ok || err != nil {
					skipped[t.codec]++
					continue
				}
				ch := chunkOpt(tr)
				if t.codec != "bzip2" && (pi%5 == 0 || p.class == "incompressible-40k") {
					ch = strings.TrimSpace(ch + " work=auto") // the lazy work-buffer protocol
				}
				addDec(encoded{codec: t.codec, setting: "tool=" + t.name + " " + strings.Join(t.args[1:], " "), data: out}, p, ch)
				if t.codec != "bzip2" && strings.Contains(ch, "src=") {
					// the same stream in one piece (the chunked run meets a known std/lzma defect)
					addDec(encoded{codec: t.codec, setting: "tool=" + t.name + " " + strings.Join(t.args[1:], " "), data: out}, p, dropSrcOpt(ch))
				}
			}
		}
	}

	// ---- images
	ir := rng.Fork()
	// (b) explicit PNG writer: colour type × depth × interlace × filter × width 1..17
	type cd struct{ ct, depth int }
	combos := []cd{{0, 1}, {0, 2}, {0, 4}, {0, 8}, {0, 16}, {2, 8}, {2, 16}, {3, 1}, {3, 2}, {3, 4}, {3, 8}, {4, 8}, {4, 16}, {6, 8}, {6, 16}}
	nimg := 0
	addPNG := func(file []byte, origin string) {
		img, err := png.Decode(bytes.NewReader(file))
		if err != nil {
			skipped["png-go-rejects"]++
			return
		}
		if !exactNonPremul(img) {
			skipped["png-premultiplied-in-go"]++
			return
		}
		b := img.Bounds()
		nimg++
		if is16(img) {
			jobs = append(jobs, imgJob("png", file, origin, pixfmtBGRA16, bgra16(img), b.Dx(), b.Dy(), 1, nimg, chunkOptImg(ir)))
		} else {
			jobs = append(jobs, imgJob("png", file, origin, pixfmtBGRA8, bgra8(img), b.Dx(), b.Dy(), 1, nimg, chunkOptImg(ir)))
		}
	}
	for w := 1; w <= 17; w++ {
		for ci, c := range combos {
			for il := 0; il < 2; il++ {
				if !r.Thorough && (w+ci+il)%2 != 0 {
					continue
				}
				s := pngSpec{w: w, h: ir.Range(1, 12), colorType: c.ct, depth: c.depth, interlace: il == 1,
					filter: []int{0, 1, 2, 3, 4, 5, 6, 4, 4}[(w+ci+ir.Intn(9))%9], trns: (c.ct == 0 || c.ct == 2 || c.ct == 3) && ir.Chance(1, 3),
					level: []int{-1, 0, 1, 9, -2}[ir.Intn(5)]}
				addPNG(writePNG(ir, s), fmt.Sprintf("own-writer ct=%d depth=%d w=%d h=%d interlace=%v filter=%d trns=%v", s.colorType, s.depth, s.w, s.h, s.interlace, s.filter, s.trns))
			}
		}
	}
	// larger own-writer images (several IDAT chunks, > 32 KiB of scanlines)
	nbig := 6
	if r.Thorough {
		nbig = 60
	}
	for i := 0; i < nbig; i++ {
		c := combos[ir.Intn(len(combos))]
		s := pngSpec{w: ir.Range(18, 300), h: ir.Range(13, 200), colorType: c.ct, depth: c.depth, interlace: ir.Bool(), filter: ir.Range(0, 6), trns: false, level: -1}
		addPNG(writePNG(ir, s), fmt.Sprintf("own-writer-big ct=%d depth=%d w=%d h=%d interlace=%v filter=%d", s.colorType, s.depth, s.w, s.h, s.interlace, s.filter))
	}
	// (a) Go's encoder
	ngo := 40
	if r.Thorough {
		ngo = 400
	}
	for i := 0; i < ngo; i++ {
		w, h := ir.Range(1, 17), ir.Range(1, 20)
		if ir.Chance(1, 6) {
			w, h = ir.Range(18, 260), ir.Range(18, 120)
		}
		lv := []png.CompressionLevel{png.DefaultCompression, png.NoCompression, png.BestSpeed, png.BestCompression}[ir.Intn(4)]
		file, name := goPNG(ir, i, w, h, lv)
		addPNG(file, fmt.Sprintf("go-encoder %s %dx%d level=%d", name, w, h, lv))
	}
	// (c) test data
	pngs, _ := filepath.Glob(filepath.Join(r.Repo, "test/data/*.png"))
	sort.Strings(pngs)
	for _, f := range pngs {
		b, err := os.ReadFile(f)
		if err != nil || len(b) > 400000 && !r.Thorough {
			skipped["png-testdata-large"]++
			continue
		}
		addPNG(b, "testdata "+filepath.Base(f))
	}
	// GIF
	addGIF := func(file []byte, origin string) {
		g, err := gif.DecodeAll(bytes.NewReader(file))
		if err != nil {
			skipped["gif-go-rejects"]++
			return
		}
		want, w, h := gifExpected(g)
		nimg++
		jobs = append(jobs, imgJob("gif", file, origin, pixfmtBGRA8, want, w, h, len(g.Image), nimg, chunkOptImg(ir)))
	}
	ngif := 40
	if r.Thorough {
		ngif = 400
	}
	for i := 0; i < ngif; i++ {
		w, h := ir.Range(1, 40), ir.Range(1, 40)
		if ir.Chance(1, 8) {
			w, h = ir.Range(100, 300), ir.Range(100, 200)
		}
		frames := ir.Range(1, 5)
		lp, tp := ir.Bool(), ir.Bool()
		addGIF(goGIF(ir, w, h, frames, lp, tp), fmt.Sprintf("go-encoder %dx%d frames=%d local-palettes=%v transparency=%v", w, h, frames, lp, tp))
	}
	gifs, _ := filepath.Glob(filepath.Join(r.Repo, "test/data/*.gif"))
	sort.Strings(gifs)
	for _, f := range gifs {
		b, err := os.ReadFile(f)
		if err != nil || len(b) > 400000 && !r.Thorough {
			skipped["gif-testdata-large"]++
			continue
		}
		addGIF(b, "testdata "+filepath.Base(f))
	}

	// ---- run everything (parallel workers, results emitted in job order → deterministic)
	nw := 8
	if r.Thorough {
		nw = 14
	}
	results := make([]caseResult, len(jobs))
	var wg sync.WaitGroup
	next := make(chan int, len(jobs))
	for i := range jobs {
		next <- i
	}
	close(next)
	for k := 0; k < nw; k++ {
		wg.Add(1)
		go func() {
			defer wg.Done()
			w := &worker{simd: simd.Spawn(), generic: generic.Spawn()}
			defer w.simd.Close()
			defer w.generic.Close()
			for i := range next {
				results[i] = jobs[i](w)
			}
		}()
	}
	wg.Wait()
	oracle := 0
	for _, cr := range results {
		for _, o := range cr.ops {
			r.Op(o.op, o.impl)
			if len(o.op) < 300 {
				r.Sample(o.op + "  =>  " + o.impl)
			}
		}
		for _, f := range cr.fails {
			r.Fail(f.Key, f.Desc, f.Replay)
		}
		for _, c := range cr.counts {
			r.Count(c)
		}
		for _, n := range cr.nontriv {
			r.Nontrivial(n)
		}
		if len(cr.ops) == 0 {
			oracle++
		}
	}
	var sk []string
	for k, v := range skipped {
		sk = append(sk, fmt.Sprintf("%s=%d", k, v))
		r.CountN("skipped:"+k, v)
	}
	sort.Strings(sk)
	if len(sk) > 0 {
		r.Note("skipped (tool absent / reference decoder rejects or cannot represent exactly): " + strings.Join(sk, " "))
	}
	r.Extra("oracle_cases", oracle)
	r.Extra("jobs", len(jobs))
	simd.Close()
	generic.Close()
	r.Finish("hashers: lengths at the 16/64/5552(5536)-byte thresholds × content (random, 0xFF, zero, ramp, text) × update partitions (1 call, 2, many small incl. empty calls, byte-wise, ~5552, block-aligned) × update/update_value, plus 1 MiB runs of 0xFF/0xFE/0xFD in one call and in large pieces; decoders: structured payloads (empty … >32 KiB window, distance 32768, 15-bit codes, 65535 stored boundaries) × reference encoder settings × source/destination chunking (random-then-text mixes for LZMA2 chunk-kind switches); for deflate also the Lean mirror of std/deflate on every valid stream (wdec: bytes + bytes consumed; wdyn: the conclusion of DynRefines at every dynamic block) and on damaged streams (truncate / bit flips / byte overwrite, drop / random block type: status correspondence, no oracle); images: own PNG writer (15 colour-type/depth combos × width 1–17 × interlace × filter), Go's png/gif encoders, test/data files. A case is distinct by (codec, setting, payload class, size, partition/chunking).")
	cdrv.Cleanup()
}

func chunkOptImg(rng *hlib.Rand) string {
	switch rng.Intn(4) {
	case 0:
		return fmt.Sprintf("src=%d", rng.Range(1, 50))
	case 1:
		return fmt.Sprintf("src=%d", rng.Range(50, 5000))
	}
	return ""
}

func runCmdsFile(r *hlib.Run) {
	b, err := os.ReadFile(r.Replay)
	if err != nil {
		fmt.Fprintln(os.Stderr, err)
		os.Exit(2)
	}
	ds, errs := cdrv.BuildAll(r.Repo, cdrv.PlainGcc, cdrv.NoArch)
	for k, e := range errs {
		fmt.Println("build", k, e)
	}
	for _, line := range strings.Split(string(b), "\n") {
		line = strings.TrimSpace(strings.TrimPrefix(strings.TrimSpace(line), "cdrv:"))
		if line == "" || !(strings.HasPrefix(line, "run ") || strings.HasPrefix(line, "hash ") || strings.HasPrefix(line, "proto ")) {
			continue
		}
		for _, fl := range []cdrv.Flavour{cdrv.PlainGcc, cdrv.NoArch} {
			if d := ds[fl]; d != nil {
				out, _ := runCmd(d, line)
				fmt.Printf("%s | %s\n  => %s\n", fl, trunc(line, 100), trunc(out, 600))
			}
		}
	}
	cdrv.Cleanup()
}
