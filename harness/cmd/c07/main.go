// C07 harness: std codecs and hashers vs independent implementations.
package main

import (
	"fmt"
	"os"

	"wvh/hlib"
)

func main() {
	r := hlib.Start("C07")
	if r.IsGen() {
		text, err := genTables(r.Repo)
		if err != nil {
			fmt.Fprintln(os.Stderr, "gen:", err)
			os.Exit(1)
		}
		r.WriteGen("C07_Tables.lean", text)
		return
	}
	r.Finish("stub")
}
