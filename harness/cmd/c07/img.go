package main

// Image cases.  PNG files come from (a) Go's image/png encoder (adaptive filters, all of its
// colour models), (b) a small explicit PNG writer (every colour type × bit depth × interlace ×
// a chosen filter type per row; compressed with Go's zlib), (c) the .png files of /repo/test/data.
// GIF files come from Go's image/gif encoder (global/local palettes, several frames, transparency,
// disposal) and /repo/test/data.  The expected pixels are always those of Go's decoders
// (image/png, image/gif) for the same file, converted to the pixel format asked of Wuffs.

import (
	"bytes"
	"compress/zlib"
	"encoding/binary"
	"hash/crc32"
	"image"
	"image/color"
	"image/draw"
	"image/gif"
	"image/png"

	"wvh/hlib"
)

const (
	pixfmtBGRA8  = "81008888" // WUFFS_BASE__PIXEL_FORMAT__BGRA_NONPREMUL
	pixfmtBGRA16 = "8100bbbb" // WUFFS_BASE__PIXEL_FORMAT__BGRA_NONPREMUL_4X16LE
)

// ---- explicit PNG writer

type pngSpec struct {
	w, h      int
	colorType int // 0 gray, 2 rgb, 3 palette, 4 gray+alpha, 6 rgba
	depth     int
	interlace bool
	filter    int // 0..4 fixed, 5 = a different one per row (cycling), 6 = random per row
	trns      bool
	level     int
}

func (s pngSpec) channels() int {
	switch s.colorType {
	case 0, 3:
		return 1
	case 2:
		return 3
	case 4:
		return 2
	}
	return 4
}

func chunk(bb *bytes.Buffer, typ string, data []byte) {
	var l [4]byte
	binary.BigEndian.PutUint32(l[:], uint32(len(data)))
	bb.Write(l[:])
	c := crc32.NewIEEE()
	c.Write([]byte(typ))
	c.Write(data)
	bb.WriteString(typ)
	bb.Write(data)
	binary.BigEndian.PutUint32(l[:], c.Sum32())
	bb.Write(l[:])
}

func paeth(a, b, c byte) byte {
	p := int(a) + int(b) - int(c)
	pa, pb, pc := abs(p-int(a)), abs(p-int(b)), abs(p-int(c))
	if pa <= pb && pa <= pc {
		return a
	} else if pb <= pc {
		return b
	}
	return c
}

func abs(x int) int {
	if x < 0 {
		return -x
	}
	return x
}

// filterRow applies PNG filter ft to cur (prev = previous unfiltered row or zeros), bpp = bytes per pixel (≥1).
func filterRow(ft int, cur, prev []byte, bpp int) []byte {
	out := make([]byte, len(cur)+1)
	out[0] = byte(ft)
	for i := range cur {
		var a, b, c byte
		if i >= bpp {
			a = cur[i-bpp]
			c = prev[i-bpp]
		}
		b = prev[i]
		switch ft {
		case 0:
			out[i+1] = cur[i]
		case 1:
			out[i+1] = cur[i] - a
		case 2:
			out[i+1] = cur[i] - b
		case 3:
			out[i+1] = cur[i] - byte((int(a)+int(b))/2)
		case 4:
			out[i+1] = cur[i] - paeth(a, b, c)
		}
	}
	return out
}

var adam7 = [7][4]int{{0, 0, 8, 8}, {4, 0, 8, 8}, {0, 4, 4, 8}, {2, 0, 4, 4}, {0, 2, 2, 4}, {1, 0, 2, 2}, {0, 1, 1, 2}}

// writePNG makes a PNG whose samples are random (smooth-ish, so that the Paeth predictor meets ties
// and all three branches), honouring the spec exactly.
func writePNG(rng *hlib.Rand, s pngSpec) []byte {
	ch := s.channels()
	bitsPP := ch * s.depth
	// samples[y][x][c], values < 2^depth
	maxv := 1<<uint(s.depth) - 1
	npal := 0
	if s.colorType == 3 {
		npal = rng.Range(1, 1<<uint(s.depth))
		maxv = npal - 1
	}
	samples := make([][]int, s.h)
	style := rng.Intn(4)
	for y := range samples {
		samples[y] = make([]int, s.w*ch)
		for i := range samples[y] {
			switch style {
			case 0:
				samples[y][i] = rng.Intn(maxv + 1)
			case 1: // few distinct values: many Paeth ties
				samples[y][i] = []int{0, maxv, maxv / 2, 1 % (maxv + 1)}[rng.Intn(4)]
			case 2: // gradient
				samples[y][i] = ((i/ch)*7 + y*13 + (i%ch)*31) & maxv
				if samples[y][i] > maxv {
					samples[y][i] = maxv
				}
			default: // previous row ± small
				if y > 0 && rng.Chance(3, 4) {
					samples[y][i] = samples[y-1][i]
				} else {
					samples[y][i] = rng.Intn(maxv + 1)
				}
			}
			if s.colorType == 3 && samples[y][i] > maxv {
				samples[y][i] = maxv
			}
		}
	}
	packRow := func(xs []int) []byte { // xs = samples of the pixels of one (sub-)row
		n := (len(xs)*s.depth + 7) / 8
		row := make([]byte, n)
		switch s.depth {
		case 8:
			for i, v := range xs {
				row[i] = byte(v)
			}
		case 16:
			for i, v := range xs {
				row[2*i] = byte(v >> 8)
				row[2*i+1] = byte(v)
			}
		default:
			for i, v := range xs {
				bit := i * s.depth
				row[bit/8] |= byte(v) << uint(8-s.depth-bit%8)
			}
		}
		return row
	}
	bpp := (bitsPP + 7) / 8
	var raw bytes.Buffer
	rowNo := 0
	emit := func(rows [][]int) {
		var prev []byte
		for _, xs := range rows {
			cur := packRow(xs)
			if prev == nil {
				prev = make([]byte, len(cur))
			}
			ft := s.filter
			if ft == 5 {
				ft = rowNo % 5
			} else if ft == 6 {
				ft = rng.Intn(5)
			}
			rowNo++
			raw.Write(filterRow(ft, cur, prev, bpp))
			prev = cur
		}
	}
	if !s.interlace {
		emit(samples)
	} else {
		for _, p := range adam7 {
			var rows [][]int
			for y := p[1]; y < s.h; y += p[3] {
				var xs []int
				for x := p[0]; x < s.w; x += p[2] {
					xs = append(xs, samples[y][x*ch:x*ch+ch]...)
				}
				if len(xs) > 0 {
					rows = append(rows, xs)
				}
			}
			emit(rows)
		}
	}
	var bb bytes.Buffer
	bb.WriteString("\x89PNG\r\n\x1a\n")
	ihdr := make([]byte, 13)
	binary.BigEndian.PutUint32(ihdr[0:], uint32(s.w))
	binary.BigEndian.PutUint32(ihdr[4:], uint32(s.h))
	ihdr[8] = byte(s.depth)
	ihdr[9] = byte(s.colorType)
	if s.interlace {
		ihdr[12] = 1
	}
	chunk(&bb, "IHDR", ihdr)
	if s.colorType == 3 {
		chunk(&bb, "PLTE", rng.Bytes(3*npal))
		if s.trns {
			chunk(&bb, "tRNS", rng.Bytes(rng.Range(1, npal)))
		}
	} else if s.trns && s.colorType == 0 {
		v := rng.Intn(1<<uint(s.depth))
		chunk(&bb, "tRNS", []byte{byte(v >> 8), byte(v)})
	} else if s.trns && s.colorType == 2 {
		t := make([]byte, 6)
		for i := 0; i < 3; i++ {
			v := rng.Intn(1 << uint(s.depth))
			if s.h > 0 && s.w > 0 && rng.Chance(1, 2) {
				v = samples[0][i] // make the first pixel transparent
			}
			t[2*i], t[2*i+1] = byte(v>>8), byte(v)
		}
		chunk(&bb, "tRNS", t)
	}
	var z bytes.Buffer
	zw, _ := zlib.NewWriterLevel(&z, s.level)
	zw.Write(raw.Bytes())
	zw.Close()
	zb := z.Bytes()
	// split IDAT in a few pieces (chunk boundaries inside the zlib stream)
	for len(zb) > 0 {
		n := len(zb)
		if rng.Chance(1, 2) {
			n = rng.Range(1, len(zb))
		}
		chunk(&bb, "IDAT", zb[:n])
		zb = zb[n:]
	}
	chunk(&bb, "IEND", nil)
	return bb.Bytes()
}

// ---- expected pixels from Go's decoders

// bgra8 renders img as BGRA non-premultiplied 8-bit, row-major, tightly packed.
func bgra8(img image.Image) []byte {
	b := img.Bounds()
	out := make([]byte, 0, b.Dx()*b.Dy()*4)
	for y := b.Min.Y; y < b.Max.Y; y++ {
		for x := b.Min.X; x < b.Max.X; x++ {
			c := color.NRGBAModel.Convert(img.At(x, y)).(color.NRGBA)
			out = append(out, c.B, c.G, c.R, c.A)
		}
	}
	return out
}

// bgra16 renders img as BGRA non-premultiplied, 4×16 bit little endian.
func bgra16(img image.Image) []byte {
	b := img.Bounds()
	out := make([]byte, 0, b.Dx()*b.Dy()*8)
	for y := b.Min.Y; y < b.Max.Y; y++ {
		for x := b.Min.X; x < b.Max.X; x++ {
			c := color.NRGBA64Model.Convert(img.At(x, y)).(color.NRGBA64)
			out = append(out, byte(c.B), byte(c.B>>8), byte(c.G), byte(c.G>>8), byte(c.R), byte(c.R>>8), byte(c.A), byte(c.A>>8))
		}
	}
	return out
}

func is16(img image.Image) bool {
	switch img.(type) {
	case *image.Gray16, *image.RGBA64, *image.NRGBA64:
		return true
	}
	return false
}

// exactNonPremul: Go's conversion from a premultiplied model loses information; only images whose
// Go representation is non-premultiplied (or opaque) can be compared exactly.
func exactNonPremul(img image.Image) bool {
	switch m := img.(type) {
	case *image.NRGBA, *image.NRGBA64, *image.Gray, *image.Gray16:
		return true
	case *image.Paletted:
		return true
	case *image.RGBA:
		return m.Opaque()
	case *image.RGBA64:
		return m.Opaque()
	}
	return false
}

// ---- Go-encoder PNG images

func goPNG(rng *hlib.Rand, kind int, w, h int, level png.CompressionLevel) ([]byte, string) {
	r := image.Rect(0, 0, w, h)
	var img image.Image
	name := ""
	fill := func(set func(x, y int, v [4]uint16)) {
		style := rng.Intn(3)
		for y := 0; y < h; y++ {
			for x := 0; x < w; x++ {
				var v [4]uint16
				for c := range v {
					switch style {
					case 0:
						v[c] = uint16(rng.Uint64())
					case 1:
						v[c] = uint16((x*977 + y*3301 + c*12345) & 0xFFFF)
					default:
						v[c] = []uint16{0, 0xFFFF, 0x8080, 0x0101}[rng.Intn(4)]
					}
				}
				set(x, y, v)
			}
		}
	}
	switch kind % 8 {
	case 0:
		m := image.NewGray(r)
		fill(func(x, y int, v [4]uint16) { m.SetGray(x, y, color.Gray{uint8(v[0])}) })
		img, name = m, "gray8"
	case 1:
		m := image.NewGray16(r)
		fill(func(x, y int, v [4]uint16) { m.SetGray16(x, y, color.Gray16{v[0]}) })
		img, name = m, "gray16"
	case 2:
		m := image.NewNRGBA(r)
		fill(func(x, y int, v [4]uint16) {
			m.SetNRGBA(x, y, color.NRGBA{uint8(v[0]), uint8(v[1]), uint8(v[2]), uint8(v[3])})
		})
		img, name = m, "nrgba8"
	case 3:
		m := image.NewNRGBA64(r)
		fill(func(x, y int, v [4]uint16) { m.SetNRGBA64(x, y, color.NRGBA64{v[0], v[1], v[2], v[3]}) })
		img, name = m, "nrgba16"
	case 4: // opaque → colour type 2
		m := image.NewNRGBA(r)
		fill(func(x, y int, v [4]uint16) { m.SetNRGBA(x, y, color.NRGBA{uint8(v[0]), uint8(v[1]), uint8(v[2]), 0xFF}) })
		img, name = m, "rgb8"
	case 5:
		m := image.NewNRGBA64(r)
		fill(func(x, y int, v [4]uint16) { m.SetNRGBA64(x, y, color.NRGBA64{v[0], v[1], v[2], 0xFFFF}) })
		img, name = m, "rgb16"
	default: // paletted: 1, 2, 4 or 8 bits by palette size
		n := []int{2, 3, 4, 5, 16, 17, 200, 256}[rng.Intn(8)]
		pal := make(color.Palette, n)
		for i := range pal {
			a := uint8(0xFF)
			if kind%8 == 7 && rng.Chance(1, 3) {
				a = uint8(rng.Intn(256))
			}
			pal[i] = color.NRGBA{uint8(rng.Intn(256)), uint8(rng.Intn(256)), uint8(rng.Intn(256)), a}
		}
		m := image.NewPaletted(r, pal)
		fill(func(x, y int, v [4]uint16) { m.SetColorIndex(x, y, uint8(int(v[0])%n)) })
		img, name = m, "paletted"
	}
	var bb bytes.Buffer
	enc := png.Encoder{CompressionLevel: level}
	if err := enc.Encode(&bb, img); err != nil {
		panic(err)
	}
	return bb.Bytes(), name
}

// ---- GIF

func goGIF(rng *hlib.Rand, w, h, frames int, localPal, transparent bool) []byte {
	mkPal := func(n int, transp bool) color.Palette {
		pal := make(color.Palette, n)
		for i := range pal {
			pal[i] = color.RGBA{uint8(rng.Intn(256)), uint8(rng.Intn(256)), uint8(rng.Intn(256)), 0xFF}
		}
		if transp {
			pal[rng.Intn(n)] = color.RGBA{0, 0, 0, 0}
		}
		return pal
	}
	palSizes := []int{2, 3, 4, 7, 16, 31, 64, 128, 200, 256}
	global := mkPal(palSizes[rng.Intn(len(palSizes))], transparent && !localPal)
	g := &gif.GIF{Config: image.Config{ColorModel: global, Width: w, Height: h}}
	for f := 0; f < frames; f++ {
		pal := global
		if localPal && (f > 0 || rng.Bool()) {
			pal = mkPal(palSizes[rng.Intn(len(palSizes))], transparent)
		}
		r := image.Rect(0, 0, w, h)
		if f > 0 && w > 1 && h > 1 {
			x0, y0 := rng.Intn(w), rng.Intn(h)
			r = image.Rect(x0, y0, x0+rng.Range(1, w-x0), y0+rng.Range(1, h-y0))
		}
		m := image.NewPaletted(r, pal)
		style := rng.Intn(3)
		for i := range m.Pix {
			switch style {
			case 0:
				m.Pix[i] = uint8(rng.Intn(len(pal)))
			case 1:
				m.Pix[i] = uint8((i / 3) % len(pal))
			default:
				if i > 0 && rng.Chance(9, 10) {
					m.Pix[i] = m.Pix[i-1]
				} else {
					m.Pix[i] = uint8(rng.Intn(len(pal)))
				}
			}
		}
		g.Image = append(g.Image, m)
		g.Delay = append(g.Delay, rng.Intn(20))
		g.Disposal = append(g.Disposal, []byte{0, gif.DisposalNone, gif.DisposalBackground, gif.DisposalPrevious}[rng.Intn(4)])
	}
	var bb bytes.Buffer
	if err := gif.EncodeAll(&bb, g); err != nil {
		panic(err)
	}
	return bb.Bytes()
}

// gifExpected: what a caller of the Wuffs GIF decoder gets in a zero-initialised BGRA_NONPREMUL pixel
// buffer with PIXEL_BLEND__SRC after decoding every frame (no disposal is applied by the decoder): each
// frame's rectangle is overwritten with its pixels, transparent ones becoming 00000000.
func gifExpected(g *gif.GIF) (final []byte, w, h int) {
	w, h = g.Config.Width, g.Config.Height
	canvas := image.NewNRGBA(image.Rect(0, 0, w, h))
	for _, f := range g.Image {
		fr := image.NewNRGBA(f.Bounds())
		b := f.Bounds()
		for y := b.Min.Y; y < b.Max.Y; y++ {
			for x := b.Min.X; x < b.Max.X; x++ {
				c := color.NRGBAModel.Convert(f.At(x, y)).(color.NRGBA)
				if c.A == 0 {
					c = color.NRGBA{}
				}
				fr.SetNRGBA(x, y, c)
			}
		}
		draw.Draw(canvas, b.Intersect(canvas.Bounds()), fr, b.Intersect(canvas.Bounds()).Min, draw.Src)
	}
	return bgra8(canvas), w, h
}
