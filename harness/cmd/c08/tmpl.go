package main

// Template extraction: the canonical feature vector of the protocol code that
// wuffs-c emitted around one public method, read off the generated C text.
// The Lean driver predicts the same vector from the method kind (`tmpl` op).

import (
	"regexp"
	"strings"
)

// funcChunks splits generated C into the implementation of each function,
// keyed by "recv.name" (text between two `// -------- func pkg.recv.name` markers).
func funcChunks(csrc string, pkg string) map[string]string {
	out := map[string]string{}
	marker := "// -------- func " + pkg + "."
	parts := strings.Split(csrc, marker)
	for _, p := range parts[1:] {
		nl := strings.IndexByte(p, '\n')
		if nl < 0 {
			continue
		}
		name := strings.TrimSpace(p[:nl])
		body := p[nl:]
		// cut at the end of the implementation section
		if i := strings.Index(body, "\n#endif  // !defined(WUFFS_CONFIG__MODULES)"); i >= 0 {
			body = body[:i]
		}
		out[name] = body
	}
	return out
}

var (
	ws           = regexp.MustCompile(`\s+`)
	reNullSelf   = regexp.MustCompile(`if \(!self\) \{ return ([^;]*); \}`)
	reMagicPure  = regexp.MustCompile(`if \(\(self->private_impl\.magic != WUFFS_BASE__MAGIC\) && \(self->private_impl\.magic != WUFFS_BASE__DISABLED\)\) \{ return ([^;]*); \}`)
	reMagicImp   = regexp.MustCompile(`if \(self->private_impl\.magic != WUFFS_BASE__MAGIC\) \{ return ([^;]*); \}`)
	reArgCheck   = regexp.MustCompile(`if \(([^{}]*)\) \{ self->private_impl\.magic = WUFFS_BASE__DISABLED; return ([^;]*); \}`)
	// a check list in the generator's own format (no `u` suffixes) that returns without disabling
	reArgNoDisable = regexp.MustCompile(`^ ?if \(((?:!a_\w+|a_\w+ [<>] -?\d+)(?: \|\| (?:!a_\w+|a_\w+ [<>] -?\d+))*)\) \{ return ([^;]*); \}`)
	reInterleave = regexp.MustCompile(`if \(\(self->private_impl\.active_coroutine != 0\) && \(self->private_impl\.active_coroutine != (\d+)\)\) \{ (self->private_impl\.magic = WUFFS_BASE__DISABLED; )?return wuffs_base__make_status\(wuffs_base__error__interleaved_coroutine_calls\); \} (self->private_impl\.active_coroutine = 0;)?`)
	reStatusVar  = regexp.MustCompile(`wuffs_base__status status = wuffs_base__make_status\(NULL\);`)
	reLoad       = regexp.MustCompile(`if \(a_(\w+) && a_\w+->data\.ptr\) \{ io0_a_\w+ = a_\w+->data\.ptr; io1_a_\w+ = io0_a_\w+ \+ a_\w+->meta\.(ri|wi); iop_a_\w+ = io1_a_\w+; io2_a_\w+ = io0_a_\w+ \+ a_\w+->(meta\.wi|data\.len); (if \(a_\w+->meta\.closed\) \{ io2_a_\w+ = iop_a_\w+; \} )?\}`)
	reSave       = regexp.MustCompile(`if \(a_(\w+) && a_\w+->data\.ptr\) \{ a_\w+->meta\.(ri|wi) = \(\(size_t\)\(iop_a_\w+ - a_\w+->data\.ptr\)\); \}`)
	reSuspend    = regexp.MustCompile(`suspend: self->private_impl\.p_\w+ = wuffs_base__status__is_suspension\(&status\) \? coro_susp_point : 0; (self->private_impl\.active_coroutine = wuffs_base__status__is_suspension\(&status\) \? (\d+) : 0;)?`)
	reOkReset    = regexp.MustCompile(`ok: self->private_impl\.p_\w+ = 0; goto exit;`)
	reEpiDisable = regexp.MustCompile(`if \(wuffs_base__status__is_error\(&status\)\) \{ self->private_impl\.magic = WUFFS_BASE__DISABLED; \} return status; \}$`)
	reEpiStatus  = regexp.MustCompile(`return status; \}$`)
	reEpiEmpty   = regexp.MustCompile(`return wuffs_base__make_empty_struct\(\); \}$`)
)

func squash(s string) string { return strings.TrimSpace(ws.ReplaceAllString(s, " ")) }

// shapeOfC extracts the feature vector; ok=false when the chunk is not a single
// plain function (choosy dispatchers, cpu_arch variants).
func shapeOfC(chunk string, m *methodInfo) (shape string, ok bool) {
	if strings.Contains(chunk, "__choosy_default") || strings.Contains(chunk, "WUFFS_PRIVATE_IMPL__CPU_ARCH__") {
		return "", false
	}
	c := squash(chunk)
	// the function body starts at the first " {" after the signature
	i := strings.Index(c, ") {")
	if i < 0 {
		return "", false
	}
	body := c[i+3:]
	var f []string
	pos := 0
	next := func(re *regexp.Regexp) []string {
		loc := re.FindStringSubmatchIndex(body[pos:])
		if loc == nil {
			return nil
		}
		var sub []string
		for k := 0; k+1 < len(loc); k += 2 {
			if loc[k] < 0 {
				sub = append(sub, "")
			} else {
				sub = append(sub, body[pos+loc[k]:pos+loc[k+1]])
			}
		}
		pos += loc[1]
		return sub
	}
	retKind := func(expr string) string {
		switch {
		case strings.Contains(expr, "wuffs_base__error__bad_receiver"):
			return "badrecv"
		case strings.Contains(expr, "wuffs_base__error__disabled_by_previous_error") && strings.Contains(expr, "wuffs_base__error__initialize_not_called") &&
			strings.Contains(expr, "(self->private_impl.magic == WUFFS_BASE__DISABLED) ?"):
			return "disabled?disabled:notinit"
		case strings.Contains(expr, "wuffs_base__error__bad_argument"):
			return "badarg"
		case strings.Contains(expr, "wuffs_base__make_empty_struct()"):
			return "empty"
		case strings.Contains(expr, "make_status"):
			return "status?" + expr
		}
		return "zero"
	}
	// 1. null self
	if s := next(reNullSelf); s != nil {
		k := retKind(s[1])
		if k == "empty" {
			k = "zero"
		}
		f = append(f, "null:"+k)
	} else {
		f = append(f, "null:missing")
	}
	// 2. magic
	if s := next(reMagicPure); s != nil {
		k := retKind(s[1])
		if k == "empty" {
			k = "zero"
		}
		f = append(f, "magic:ne-magic&ne-disabled", "badmagic:"+k)
	} else if s := next(reMagicImp); s != nil {
		k := retKind(s[1])
		if k == "empty" {
			k = "zero"
		}
		f = append(f, "magic:ne-magic", "badmagic:"+k)
	} else {
		f = append(f, "magic:missing", "badmagic:missing")
	}
	// 3. arg checks: must come directly next (before the interleave check / status var / locals)
	save := pos
	if s := next(reArgCheck); s != nil && !strings.Contains(s[1], "active_coroutine") && strings.TrimSpace(body[save:pos-len(s[0])]) == "" {
		cond := strings.ReplaceAll(s[1], " ", "")
		k := retKind(s[2])
		if k == "empty" {
			k = "zero"
		}
		f = append(f, "args:"+cond+"=>disable,"+k)
	} else {
		pos = save
		// a check list that does not disable?
		if s := reArgNoDisable.FindStringSubmatch(body[pos:]); s != nil {
			k := retKind(s[2])
			if k == "empty" {
				k = "zero"
			}
			f = append(f, "args:"+strings.ReplaceAll(s[1], " ", "")+"=>nodisable,"+k)
		} else {
			f = append(f, "args:none")
		}
	}
	// 4. interleave
	save = pos
	if s := next(reInterleave); s != nil && strings.TrimSpace(body[save:pos-len(s[0])]) == "" {
		x := "interleave:" + s[1] + "=>"
		if s[2] != "" {
			x += "disable,"
		}
		x += "interleaved"
		if s[3] != "" {
			x += ";active=0"
		}
		f = append(f, x)
	} else {
		pos = save
		f = append(f, "interleave:none")
	}
	// 5. status var
	save = pos
	if s := next(reStatusVar); s != nil && strings.TrimSpace(body[save:pos-len(s[0])]) == "" {
		f = append(f, "statusvar:yes")
	} else {
		pos = save
		f = append(f, "statusvar:no")
	}
	// 6. initial loads (all of them, anywhere before the body proper: they follow the locals)
	var loads []string
	for _, s := range reLoad.FindAllStringSubmatch(body, -1) {
		switch {
		case s[2] == "ri" && s[3] == "meta.wi" && s[4] == "":
			loads = append(loads, "r."+s[1])
		case s[2] == "wi" && s[3] == "data.len" && s[4] != "":
			loads = append(loads, "w."+s[1]+"+closedclamp")
		case s[2] == "wi" && s[3] == "data.len":
			loads = append(loads, "w."+s[1])
		default:
			loads = append(loads, "?."+s[1])
		}
	}
	m.Derived = nil
	for _, l := range loads {
		m.Derived = append(m.Derived, strings.TrimSuffix(l, "+closedclamp"))
	}
	if len(loads) == 0 {
		f = append(f, "load:none")
	} else {
		f = append(f, "load:"+strings.Join(loads, ","))
	}
	// 7. suspend / ok blocks
	m.SuspPoints = strings.Contains(body, "uint32_t coro_susp_point = self->private_impl.p_")
	if s := reSuspend.FindStringSubmatch(body); s != nil {
		x := "suspend:p=susp?point:0"
		if s[1] != "" {
			x += ",active=susp?" + s[2] + ":0"
		}
		if reOkReset.MatchString(body) {
			x += ";ok:p=0"
		}
		f = append(f, x)
	} else {
		f = append(f, "suspend:none")
	}
	// 8. final saves + epilogue: the tail of the function
	tail := body
	hasExit := false
	if i := strings.LastIndex(body, " exit: "); i >= 0 {
		tail = body[i+7:]
		hasExit = true
	}
	epi := "epi:none"
	switch {
	case hasExit && reEpiDisable.MatchString(tail):
		epi = "epi:err=>disable,return-status"
	case hasExit && reEpiStatus.MatchString(tail):
		epi = "epi:return-status"
	case !hasExit && m.Out == 'n' && reEpiEmpty.MatchString(tail):
		epi = "epi:return-empty"
	}
	var saves []string
	if hasExit {
		for _, s := range reSave.FindAllStringSubmatch(tail, -1) {
			saves = append(saves, s[1]+"."+s[2])
		}
	} else {
		// the saves directly before the final statement
		t := strings.TrimSuffix(tail, "}")
		t = strings.TrimSpace(t)
		if epi == "epi:return-empty" {
			t = strings.TrimSpace(strings.TrimSuffix(t, "return wuffs_base__make_empty_struct();"))
		}
		for {
			locs := reSave.FindAllStringSubmatchIndex(t, -1)
			if len(locs) == 0 {
				break
			}
			l := locs[len(locs)-1]
			if l[1] != len(t) {
				break
			}
			saves = append([]string{t[l[2]:l[3]] + "." + t[l[4]:l[5]]}, saves...)
			t = strings.TrimSpace(t[:l[0]])
		}
		if epi == "epi:none" && m.BodyEndsWithReturn {
			saves = nil // those belong to the body's own final return statement
		}
	}
	if len(saves) == 0 {
		f = append(f, "save:none")
	} else {
		f = append(f, "save:"+strings.Join(saves, ","))
	}
	f = append(f, epi)
	return strings.Join(f, " "), true
}

// initShapeOfC extracts the event sequence of wuffs_<pkg>__<struct>__initialize.
func initShapeOfC(csrc, pkg, strct string) (string, bool) {
	sig := "wuffs_" + pkg + "__" + strct + "__initialize("
	// the implementation is the occurrence followed by "{" after the parameter list
	idx := 0
	for {
		i := strings.Index(csrc[idx:], sig)
		if i < 0 {
			return "", false
		}
		i += idx
		j := strings.Index(csrc[i:], ")")
		if j < 0 {
			return "", false
		}
		rest := strings.TrimLeft(csrc[i+j+1:], " \n")
		if strings.HasPrefix(rest, "{") && strings.Contains(csrc[i:i+j], "size_t sizeof_star_self") {
			// the matching close brace (the generated text has no braces in strings or comments here)
			depth, end := 0, -1
			for k := 0; k < len(rest); k++ {
				if rest[k] == '{' {
					depth++
				} else if rest[k] == '}' {
					depth--
					if depth == 0 {
						end = k
						break
					}
				}
			}
			if end < 0 {
				return "", false
			}
			return initEvents(rest[1:end]), true
		}
		idx = i + len(sig)
	}
}

func initEvents(body string) string {
	// drop comments and preprocessor lines
	var lines []string
	for _, l := range strings.Split(body, "\n") {
		t := strings.TrimSpace(l)
		if strings.HasPrefix(t, "//") || strings.HasPrefix(t, "#") {
			continue
		}
		lines = append(lines, l)
	}
	c := squash(strings.Join(lines, "\n"))
	type ev struct {
		re  string
		tok string
	}
	evs := []ev{
		{`if \(!self\) \{ return wuffs_base__make_status\(wuffs_base__error__bad_receiver\); \}`, "null=>badrecv"},
		{`if \(sizeof\(\*self\) != sizeof_star_self\) \{ return wuffs_base__make_status\(wuffs_base__error__bad_sizeof_receiver\); \}`, "sizeof=>badsizeof"},
		{`if \(\(\(wuffs_version >> 32\) != WUFFS_VERSION_MAJOR\) \|\| \(\(\(wuffs_version >> 16\) & 0xFFFFu?\) > WUFFS_VERSION_MINOR\)\) \{ return wuffs_base__make_status\(wuffs_base__error__bad_wuffs_version\); \}`, "version(major!=|minor>)=>badversion"},
		{`if \(\(options & WUFFS_INITIALIZE__ALREADY_ZEROED\) != 0u?\) \{ if \(self->private_impl\.magic != 0u?\) \{ return wuffs_base__make_status\(wuffs_base__error__initialize_falsely_claimed_already_zeroed\); \} \} else \{ if \(\(options & WUFFS_INITIALIZE__LEAVE_INTERNAL_BUFFERS_UNINITIALIZED\) == 0u?\) \{ memset\(self, 0, sizeof\(\*self\)\); options \|= WUFFS_INITIALIZE__ALREADY_ZEROED; \} else \{ memset\(&\(self->private_impl\), 0, sizeof\(self->private_impl\)\); \} \}`,
			"zeroed?(magic!=0=>falsely):(leave?memset-impl:memset-all,or-zeroed)"},
		{`self->private_impl\.magic = WUFFS_BASE__MAGIC;`, "magic=MAGIC"},
		{`return wuffs_base__make_status\(NULL\);$`, "return-ok"},
	}
	pos := 0
	var out []string
	for _, e := range evs {
		loc := regexp.MustCompile(e.re).FindStringIndex(c[pos:])
		if loc == nil {
			out = append(out, "MISSING["+e.tok+"]")
			continue
		}
		out = append(out, e.tok)
		pos += loc[1]
	}
	return strings.Join(out, " ")
}
