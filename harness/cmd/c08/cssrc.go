package main

// Static tie for the call_sequence automaton: the statements of an image decoder's
// Wuffs source that read or write `this.call_sequence`, per function, in source order,
// as canonical text. An `if` / `else if` chain one of whose conditions mentions the
// field is taken whole (so the statuses returned in its branches are part of the text);
// any other statement mentioning it is taken as one line. Model/CallSeq.lean holds the
// text the automaton was written from (op `cssrc`); an edit of these statements shows
// up here before any history is run.

import (
	"regexp"
	"strings"
)

type csFunc struct {
	Name  string
	Shape string
}

var (
	reFuncHead = regexp.MustCompile(`^(?:pub|pri) func (\w+)\.(\w+)[?!]?\(`)
	reSpaces   = regexp.MustCompile(`\s+`)
)

func stripLineComment(l string) string {
	// Wuffs string literals never contain "//"
	if i := strings.Index(l, "//"); i >= 0 {
		return l[:i]
	}
	return l
}

func braceDelta(l string) int {
	return strings.Count(l, "{") - strings.Count(l, "}")
}

// callSeqShapes extracts the shapes from one .wuffs file's text.
func callSeqShapes(src string) []csFunc {
	lines := strings.Split(src, "\n")
	for i := range lines {
		lines[i] = strings.TrimSpace(stripLineComment(lines[i]))
	}
	var out []csFunc
	for i := 0; i < len(lines); i++ {
		m := reFuncHead.FindStringSubmatch(lines[i])
		if m == nil {
			continue
		}
		// the function body: up to the line `}` at depth 0
		depth := braceDelta(lines[i])
		j := i + 1
		for ; j < len(lines) && depth > 0; j++ {
			depth += braceDelta(lines[j])
		}
		body := lines[i+1 : j]
		items := csItems(body)
		if len(items) == 0 && (m[2] == "tell_me_more" || m[2] == "do_tell_me_more") &&
			!strings.Contains(strings.Join(body, " "), "do_tell_me_more") {
			// a decoder without the metadata side-track: every tell_me_more is out of order, and the
			// function says so without looking at call_sequence (its first `return`, with the `if` around it)
			if it := firstReturn(body); it != "" {
				items = []string{it}
			}
		}
		if len(items) > 0 {
			out = append(out, csFunc{Name: m[2], Shape: strings.Join(items, " | ")})
		}
		i = j - 1
	}
	return out
}

// firstReturn: the first `return …` line of a body; when the line before it opens an `if`, that header
// and the closing brace are included.
func firstReturn(body []string) string {
	prev := ""
	for _, l := range body {
		if l == "" {
			continue
		}
		if strings.HasPrefix(l, "return ") {
			if strings.HasPrefix(prev, "if ") && strings.HasSuffix(prev, "{") {
				return norm([]string{prev, l, "}"})
			}
			return norm([]string{l})
		}
		prev = l
	}
	return ""
}

// the position a restarted decoder expects differs per format (a field or a constant)
var reRestartPos = regexp.MustCompile(`if \(?[\w. ]+?\)? <> args\.src\.position\(\) \{ return base\."#bad restart" \}`)

func norm(ls []string) string {
	s := strings.Join(ls, " ")
	s = strings.ReplaceAll(s, "this.call_sequence", "cs")
	s = strings.TrimSpace(reSpaces.ReplaceAllString(s, " "))
	return reRestartPos.ReplaceAllString(s, `if POS <> args.src.position() { return base."#bad restart" }`)
}

// csClass: which expected text of Model/CallSeq.lean a function of an image decoder is compared with.
func csClass(codec, fn string) string {
	switch codec {
	case "gif", "png", "nie":
		return codec
	case "bmp":
		// "*": bmp's function list has do_tell_me_more where the others have tell_me_more
		if fn == "do_decode_image_config" || fn == "do_tell_me_more" || fn == "*" {
			return "bmp"
		}
	}
	return "still"
}

// csItems walks statement lines; `body` excludes the function's own head and is
// at relative depth 0 (its final `}` line included or not does not matter).
func csItems(body []string) []string {
	var items []string
	for i := 0; i < len(body); i++ {
		l := body[i]
		if l == "" {
			continue
		}
		if strings.HasPrefix(l, "if ") || strings.HasPrefix(l, "if(") {
			// the extent of the chain; header lines are the `if …` line, the `} else …` lines that
			// close one branch and open the next, and the continuation lines of their conditions
			depth := 0
			end := i
			mentions := false
			inHeader := false
			for k := i; k < len(body); k++ {
				lk := body[k]
				if k == i || (depth == 1 && strings.HasPrefix(lk, "} else")) {
					inHeader = true
				}
				if inHeader && strings.Contains(lk, "this.call_sequence") {
					mentions = true
				}
				depth += braceDelta(lk)
				if inHeader && strings.HasSuffix(lk, "{") {
					inHeader = false
				}
				end = k
				if depth == 0 && !inHeader {
					break
				}
			}
			if mentions {
				items = append(items, norm(body[i:end+1]))
				i = end
				continue
			}
			// not a call_sequence chain: look inside it line by line (nested chains are found by
			// the same loop because their `if` lines come up as `l` later)
			continue
		}
		if strings.Contains(l, "this.call_sequence") && !strings.HasPrefix(l, "} else") {
			// a plain statement (possibly over several lines up to the next line that balances parentheses)
			k := i
			par := strings.Count(l, "(") - strings.Count(l, ")")
			for par > 0 && k+1 < len(body) {
				k++
				par += strings.Count(body[k], "(") - strings.Count(body[k], ")")
			}
			items = append(items, norm(body[i:k+1]))
			i = k
		}
	}
	return items
}
