package main

// Public methods of a Wuffs package, read from its source with /repo's own
// tokenizer, parser and type checker (the model's INPUT; everything the model
// predicts about the generated C comes from Lean).

import (
	"fmt"
	"math/big"
	"os"
	"path/filepath"
	"sort"
	"strings"

	a "github.com/google/wuffs/lang/ast"
	"github.com/google/wuffs/lang/check"
	"github.com/google/wuffs/lang/generate"
	t "github.com/google/wuffs/lang/token"
)

type argInfo struct {
	Name string
	Spec string // p | n | r<lo|_>..<hi|_>
	Type string // Wuffs type text
}

type methodInfo struct {
	Pkg, Recv, Name    string
	Effect             byte // p i c
	Out                byte // n s o
	CoroID             int
	Args               []argInfo
	BodyEndsWithReturn bool
	EmptyBody          bool
	// from the generated C text (filled by extractShapes)
	Derived    []string // r.<name> / w.<name>
	SuspPoints bool
	HaveC      bool
}

func (m *methodInfo) argSpecs() string {
	if len(m.Args) == 0 {
		return "-"
	}
	s := make([]string, len(m.Args))
	for i, x := range m.Args {
		s[i] = x.Spec
	}
	return strings.Join(s, "/")
}

func (m *methodInfo) namedArgSpecs() string {
	if len(m.Args) == 0 {
		return "-"
	}
	s := make([]string, len(m.Args))
	for i, x := range m.Args {
		s[i] = x.Name + ":" + x.Spec
	}
	return strings.Join(s, "/")
}

// desc is the method descriptor of the `reset` op: <p|i|c>,<n|s|o>,<coroID>,<derived01>,<susp01>,<emptybody01>,<argspecs>
func (m *methodInfo) desc() string {
	d, s := 0, 0
	if len(m.Derived) > 0 {
		d = 1
	}
	if m.SuspPoints {
		s = 1
	}
	e := 0
	if m.EmptyBody {
		e = 1
	}
	return fmt.Sprintf("%c,%c,%d,%d,%d,%d,%s", m.Effect, m.Out, m.CoroID, d, s, e, m.argSpecs())
}

// natural bounds of the numeric base types (the table at the end of internal/cgen/func.go)
var natBounds = map[string][2]*big.Int{
	"i8":   {big.NewInt(-1 << 7), big.NewInt(1<<7 - 1)},
	"i16":  {big.NewInt(-1 << 15), big.NewInt(1<<15 - 1)},
	"i32":  {big.NewInt(-1 << 31), big.NewInt(1<<31 - 1)},
	"i64":  {big.NewInt(-1 << 63), big.NewInt(1<<63 - 1)},
	"u8":   {big.NewInt(0), new(big.Int).SetUint64(1<<8 - 1)},
	"u16":  {big.NewInt(0), new(big.Int).SetUint64(1<<16 - 1)},
	"u32":  {big.NewInt(0), new(big.Int).SetUint64(1<<32 - 1)},
	"u64":  {big.NewInt(0), new(big.Int).SetUint64(1<<64 - 1)},
	"bool": {big.NewInt(0), big.NewInt(1)},
}

func argSpecOf(tm *t.Map, typ *a.TypeExpr) string {
	switch {
	case typ.IsIOTokenType() || typ.Decorator() == t.IDPtr:
		return "p"
	case typ.IsRefined():
		b := [2]*big.Int{}
		for i, e := range typ.Bounds() {
			if e != nil {
				if cv := e.ConstValue(); cv != nil {
					b[i] = cv
				}
			}
		}
		if q := typ.QID(); q[0] == t.IDBase {
			if nb, ok := natBounds[q[1].Str(tm)]; ok {
				for i := 0; i < 2; i++ {
					if b[i] != nil && b[i].Cmp(nb[i]) == 0 {
						b[i] = nil
					}
				}
			}
		}
		lo, hi := "_", "_"
		if b[0] != nil {
			lo = b[0].String()
		}
		if b[1] != nil {
			hi = b[1].String()
		}
		return "r" + lo + ".." + hi
	}
	return "n"
}

// subObjects: "<pkg>.<struct>" → the "<pkg>.<struct>" types of its fields that are objects of another
// package (filled by loadPackage). A body of such a struct's methods can return a status that the
// SUB-object's protocol layer produced (`#base: interleaved coroutine calls`, `#base: disabled by previous error`).
var subObjects = map[string][]string{}

// loadPackage parses and type-checks the .wuffs files (sorted by name, like
// `wuffs gen`) and returns the public methods with a receiver, in declaration
// order. useRoot is where `use "std/x"` declarations are read from (<root>/gen/wuffs/std/x).
func loadPackage(pkg string, files []string, useRoot string) ([]*methodInfo, error) {
	sort.Strings(files)
	tm := &t.Map{}
	fs, err := generate.ParseFiles(tm, files, nil)
	if err != nil {
		return nil, err
	}
	resolve := func(usePath string) ([]byte, error) {
		return os.ReadFile(filepath.Join(useRoot, "gen", "wuffs", filepath.FromSlash(usePath)))
	}
	if _, err := check.Check(tm, fs, resolve); err != nil {
		return nil, err
	}
	var out []*methodInfo
	coro := map[t.QID]int{}
	for _, f := range fs {
		for _, tld := range f.TopLevelDecls() {
			if tld.Kind() == a.KStruct {
				// fields whose type is a struct of ANOTHER (non-base) package: embedded sub-objects, each
				// with its own generated protocol layer (webp.decoder.vp8 : vp8.decoder, png → zlib, …)
				sn := tld.AsStruct()
				for _, fld := range sn.Fields() {
					q := fld.AsField().XType().Innermost().QID()
					if q[0] != 0 && q[0] != t.IDBase {
						key := pkg + "." + sn.QID()[1].Str(tm)
						subObjects[key] = append(subObjects[key], q[0].Str(tm)+"."+q[1].Str(tm))
					}
				}
				continue
			}
			if tld.Kind() != a.KFunc {
				continue
			}
			n := tld.AsFunc()
			if !n.Public() || n.Receiver().IsZero() {
				continue
			}
			m := &methodInfo{Pkg: pkg, Recv: n.Receiver()[1].Str(tm), Name: n.FuncName().Str(tm),
				BodyEndsWithReturn: n.BodyEndsWithReturn(), EmptyBody: len(n.Body()) == 0}
			switch {
			case n.Effect().Coroutine():
				m.Effect = 'c'
				coro[n.Receiver()]++
				m.CoroID = coro[n.Receiver()]
			case n.Effect().Impure():
				m.Effect = 'i'
			default:
				m.Effect = 'p'
			}
			switch o := n.Out(); {
			case o == nil:
				m.Out = 'n'
			case o.IsStatus():
				m.Out = 's'
			default:
				m.Out = 'o'
			}
			for _, fld := range n.In().Fields() {
				fl := fld.AsField()
				m.Args = append(m.Args, argInfo{Name: fl.Name().Str(tm), Spec: argSpecOf(tm, fl.XType()), Type: fl.XType().Str(tm)})
			}
			out = append(out, m)
		}
	}
	return out, nil
}

func wuffsFilesIn(dir string) []string {
	es, _ := os.ReadDir(dir)
	var fs []string
	for _, e := range es {
		if !e.IsDir() && strings.HasSuffix(e.Name(), ".wuffs") {
			fs = append(fs, filepath.Join(dir, e.Name()))
		}
	}
	sort.Strings(fs)
	return fs
}
